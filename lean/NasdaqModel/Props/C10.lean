import NasdaqModel.Model.Seq
import NasdaqModel.Props.C12
/-
C10 — sequence numbers count exactly the messages that consume them.

Soup: the counter of a session always equals its initial value plus the number of sequenced-data packets handed to
the transport (counted on the bytes written: type character 'S'), for every history of operations of every kind,
failing ones included; a client adopts exactly the number stated in the login acceptance.
FIX: the k-th frame written since the logon carries logon MsgSeqNum + k — proved under the explicit hypothesis that
no send fails *after* validation (`noEncodeFailure`): the unchanged code takes the number before serialising, see
`Witness/C10.lean`.  Without that hypothesis numbers are still never repeated and a rejected send consumes nothing.
-/
namespace NasdaqModel.Props.C10
open NasdaqModel Py Soup SeqNum

/-! ### helper facts (local) -/

private theorem bind_ok_inv {α β : Type} {x : Except Err α} {f : α → Except Err β} {b : β}
    (h : (x >>= f) = .ok b) : ∃ a, x = .ok a ∧ f a = .ok b := by
  cases x with
  | ok a => exact ⟨a, rfl, by simpa using h⟩
  | error e => simp at h

private theorem header_shape {len : Int} {ind : Nat} {h : Bytes} (hh : header len ind = .ok h) :
    ∃ hi lo, h = [hi, lo, ind] := by
  unfold header at hh
  obtain ⟨l, hl, hh⟩ := bind_ok_inv hh
  unfold packBE16s at hl
  split at hl
  · injection hl with hl
    subst hl
    simp only [pure_eq_ok] at hh
    injection hh with hh
    subst hh
    exact ⟨_, _, rfl⟩
  · simp at hl

/-- whatever `to_bytes` produces carries the class's type character in byte 2 -/
private theorem encode_type_byte (p : Pkt) (b : Bytes) (h : encode p = .ok b) : b[2]? = some p.ty := by
  cases p with
  | loginReq u pw s q =>
    simp only [encode] at h
    obtain ⟨hd, hh, h⟩ := bind_ok_inv h
    obtain ⟨_, _, h⟩ := bind_ok_inv h
    obtain ⟨_, _, h⟩ := bind_ok_inv h
    obtain ⟨_, _, h⟩ := bind_ok_inv h
    obtain ⟨_, _, h⟩ := bind_ok_inv h
    obtain ⟨hi, lo, rfl⟩ := header_shape hh
    simp only [pure_eq_ok] at h
    have h' := Except.ok.inj h; subst h'; simp [Pkt.ty]
  | loginAcc s q =>
    simp only [encode] at h
    obtain ⟨hd, hh, h⟩ := bind_ok_inv h
    obtain ⟨_, _, h⟩ := bind_ok_inv h
    obtain ⟨_, _, h⟩ := bind_ok_inv h
    obtain ⟨hi, lo, rfl⟩ := header_shape hh
    simp only [pure_eq_ok] at h
    have h' := Except.ok.inj h; subst h'; simp [Pkt.ty]
  | loginRej r =>
    simp only [encode] at h
    obtain ⟨hd, hh, h⟩ := bind_ok_inv h
    obtain ⟨_, _, h⟩ := bind_ok_inv h
    obtain ⟨hi, lo, rfl⟩ := header_shape hh
    simp only [pure_eq_ok] at h
    have h' := Except.ok.inj h; subst h'; simp [Pkt.ty]
  | seqData d =>
    simp only [encode] at h
    obtain ⟨hd, hh, h⟩ := bind_ok_inv h
    obtain ⟨hi, lo, rfl⟩ := header_shape hh
    simp only [pure_eq_ok] at h
    have h' := Except.ok.inj h; subst h'; simp [Pkt.ty]
  | unseqData d =>
    simp only [encode] at h
    obtain ⟨hd, hh, h⟩ := bind_ok_inv h
    obtain ⟨hi, lo, rfl⟩ := header_shape hh
    simp only [pure_eq_ok] at h
    have h' := Except.ok.inj h; subst h'; simp [Pkt.ty]
  | debug t =>
    simp only [encode] at h
    obtain ⟨hd, hh, h⟩ := bind_ok_inv h
    obtain ⟨_, _, h⟩ := bind_ok_inv h
    obtain ⟨hi, lo, rfl⟩ := header_shape hh
    simp only [pure_eq_ok] at h
    have h' := Except.ok.inj h; subst h'; simp [Pkt.ty]
  | clientHb => obtain ⟨hi, lo, rfl⟩ := header_shape (show header 1 82 = .ok b from h); rfl
  | serverHb => obtain ⟨hi, lo, rfl⟩ := header_shape (show header 1 72 = .ok b from h); rfl
  | endOfSession => obtain ⟨hi, lo, rfl⟩ := header_shape (show header 1 90 = .ok b from h); rfl
  | logoutReq => obtain ⟨hi, lo, rfl⟩ := header_shape (show header 1 79 = .ok b from h); rfl

private theorem ty_eq_S_iff (p : Pkt) : (p.ty == 83) = p.isSequenced := by
  cases p <;> rfl

/-- the bytes written for `p` are a sequenced-data packet iff `p` is a `SequencedData` -/
private theorem isSeqFrame_encode (p : Pkt) (b : Bytes) (h : encode p = .ok b) : isSeqFrame b = p.isSequenced := by
  unfold isSeqFrame
  rw [encode_type_byte p b h, ← ty_eq_S_iff]
  simp

private theorem countSeq_snoc (ws : List Bytes) (b : Bytes) :
    countSeq (ws ++ [b]) = countSeq ws + (if isSeqFrame b then 1 else 0) := by
  unfold countSeq
  rw [List.filter_append]
  by_cases hb : isSeqFrame b <;> simp [hb]

/-- the quantity every operation preserves: counter minus sequenced packets written -/
private def delta (s : SoupSt) : Int := s.seq - (countSeq s.written : Int)

private theorem soupSend_delta (s : SoupSt) (p : Pkt) : delta (soupSend s p).1 = delta s := by
  unfold soupSend
  cases he : encode p with
  | error e => rfl
  | ok b =>
    by_cases hc : s.connected
    · simp only [hc, if_true, delta, countSeq_snoc, isSeqFrame_encode p b he]
      by_cases hs : p.isSequenced <;> simp [hs] <;> omega
    · simp [hc]

private theorem soupStep_delta (s : SoupSt) (op : SoupOp) : delta (soupStep s op).1 = delta s := by
  cases op <;> first | exact soupSend_delta s _ | rfl

private theorem soupRun_delta (ops : List SoupOp) : ∀ s, delta (soupRun s ops) = delta s := by
  induction ops with
  | nil => intro s; rfl
  | cons op rest ih =>
    intro s
    show delta (soupRun (soupStep s op).1 rest) = delta s
    rw [ih, soupStep_delta]

/-! ### SoupBinTCP: the counter -/

/-- **Counter = initial + sequenced packets written**, for every history (sends of every packet kind including those whose
    encoding fails or that are made without a transport, heartbeats, logout, end of session, close), every role and
    every initial value; stated for a run starting in an arbitrary state `s`. -/
theorem C10_soup_counts (s : SoupSt) (ops : List SoupOp) :
    (soupRun s ops).seq = s.seq + ((countSeq (soupRun s ops).written : Int) - (countSeq s.written : Int)) := by
  have h := soupRun_delta ops s
  unfold delta at h
  omega

/-- the same from a fresh session: `SoupServerSession(sequence=init)` / `SoupClientSession(sequence=init)` -/
theorem C10_soup_counts_init (role : Role) (init : Int) (ops : List SoupOp) :
    (soupRun (soupInit role init) ops).seq = init + (countSeq (soupRun (soupInit role init) ops).written : Int) := by
  have h := C10_soup_counts (soupInit role init) ops
  simpa [soupInit, countSeq] using h

/-- **Only sequenced data moves the counter**: heartbeats, debug packets, login replies, end-of-session, logout,
    unsequenced data, login requests and closes leave it alone. -/
theorem C10_soup_unsequenced_never_moves (s : SoupSt) (op : SoupOp)
    (h : ∀ p, op = .send p → p.isSequenced = false) : (soupStep s op).1.seq = s.seq := by
  have key : ∀ p : Pkt, p.isSequenced = false → (soupSend s p).1.seq = s.seq := by
    intro p hp
    unfold soupSend
    cases encode p with
    | error e => rfl
    | ok b => by_cases hc : s.connected <;> simp [hc, hp]
  cases op with
  | send p => exact key p (h p rfl)
  | heartbeat => exact key _ (by cases s.role <;> rfl)
  | logout => exact key _ rfl
  | endSession => exact key _ rfl
  | close => rfl

/-- a sequenced-data packet that reaches the transport moves the counter by exactly one and is one write -/
theorem C10_soup_sequenced_moves_by_one (s : SoupSt) (p : Pkt) (hp : p.isSequenced = true)
    (hok : (soupSend s p).2 = none) :
    (soupSend s p).1.seq = s.seq + 1 ∧ ∃ b, encode p = .ok b ∧ (soupSend s p).1.written = s.written ++ [b] := by
  unfold soupSend at hok ⊢
  cases he : encode p with
  | error e => simp [he] at hok
  | ok b =>
    by_cases hc : s.connected
    · simp [hc, hp]
    · simp [he, hc] at hok

/-- a send that raises (encoding error, no transport) changes nothing: no write, counter untouched -/
theorem C10_soup_failed_send_no_effect (s : SoupSt) (p : Pkt) (e : Err) (h : (soupSend s p).2 = some e) :
    (soupSend s p).1 = s := by
  unfold soupSend at h ⊢
  cases he : encode p with
  | error e' => rfl
  | ok b =>
    by_cases hc : s.connected
    · simp [he, hc] at h
    · simp [hc]

/-! ### SoupBinTCP: the client adopts the stated number -/

private theorem awaitReply_skip_hbs (s : SoupSt) (hbs : List Bytes) (tail : List Bytes)
    (hhb : ∀ x ∈ hbs, ∃ p, decode x = .ok p ∧ p.isHeartbeat = true) :
    awaitReply s (hbs ++ tail) = awaitReply s tail := by
  induction hbs with
  | nil => rfl
  | cons x rest ih =>
    obtain ⟨p, hd, hp⟩ := hhb x (List.mem_cons_self ..)
    have := ih (fun y hy => hhb y (List.mem_cons_of_mem _ hy))
    show awaitReply s (x :: (rest ++ tail)) = _
    rw [awaitReply, hd]
    simp only [hp, if_true]
    exact this

/-- **Adoption.** If the first non-heartbeat frame the reader delivers decodes to `LoginAccepted(sess, q)`, `login`
    succeeds and `session.sequence` is exactly `q` — whatever the previous counter, whatever follows. -/
theorem C10_soup_adopt (s : SoupSt) (req : Pkt) (hbs : List Bytes) (b : Bytes) (rest : List Bytes)
    (sess : Str) (q : Int)
    (hsend : (soupSend s req).2 = none)
    (hhb : ∀ x ∈ hbs, ∃ p, decode x = .ok p ∧ p.isHeartbeat = true)
    (hb : decode b = .ok (.loginAcc sess q)) :
    (clientLogin s req (hbs ++ b :: rest)).2.2 = true ∧ (clientLogin s req (hbs ++ b :: rest)).1.seq = q := by
  unfold clientLogin
  cases hs : soupSend s req with
  | mk s' e =>
    rw [hs] at hsend
    simp only at hsend
    subst hsend
    simp only [awaitReply_skip_hbs s' hbs (b :: rest) hhb]
    rw [awaitReply, hb]
    simp [Pkt.isHeartbeat]

/-- the same in terms of what the server put on the wire: any well-formed acceptance (session id within 10 characters,
    number within 20 digits) encoded by the protocol layout is adopted with exactly its number -/
theorem C10_soup_adopt_wire (s : SoupSt) (req : Pkt) (b : Bytes) (rest : List Bytes) (sess : Str) (q : Int)
    (hsend : (soupSend s req).2 = none)
    (hwf : C12.wfPkt (.loginAcc sess q) = true) (henc : encode (.loginAcc sess q) = .ok b) :
    (clientLogin s req (b :: rest)).2.2 = true ∧ (clientLogin s req (b :: rest)).1.seq = q := by
  have hd := C12.C12_roundtrip (.loginAcc sess q) hwf b henc
  exact C10_soup_adopt s req [] b rest sess q hsend (by simp) hd

/-- a login that is not accepted leaves the counter where the request's send left it -/
theorem C10_soup_not_accepted_keeps (s : SoupSt) (req : Pkt) (replies : List Bytes)
    (h : (clientLogin s req replies).2.2 = false) :
    (clientLogin s req replies).1.seq = (soupSend s req).1.seq := by
  unfold clientLogin at h ⊢
  cases hs : soupSend s req with
  | mk s' e =>
    cases e with
    | some e => rfl
    | none =>
      simp only [hs] at h ⊢
      clear hs
      induction replies with
      | nil => rfl
      | cons x rest ih =>
        rw [awaitReply] at h ⊢
        cases hd : decode x with
        | error e => rfl
        | ok p =>
          simp only [hd] at h ⊢
          by_cases hp : p.isHeartbeat
          · simp only [hp, if_true] at h ⊢
            exact ih h
          · simp only [hp] at h ⊢
            cases p <;> first | rfl | simp at h

/-- after an accepted login the counter keeps counting from the adopted number -/
theorem C10_soup_client_counts (s : SoupSt) (req : Pkt) (replies : List Bytes) (ops : List SoupOp) :
    let s1 := (clientLogin s req replies).1
    (soupRun s1 ops).seq = s1.seq + ((countSeq (soupRun s1 ops).written : Int) - (countSeq s1.written : Int)) :=
  C10_soup_counts _ ops

/-! ### FIX -/

/-- the history contains no (second) logon -/
def noLogin (ops : List FixOp) : Bool := ops.all (fun op => !op.isLogin)

/-- no operation passes validation and then fails to serialise (the region excluded by `C10_fix_kth_partial`) -/
def noEncodeFailure (ops : List FixOp) : Bool := ops.all (fun op => !op.msg.bodyValid || op.msg.encodable)

private theorem fixSend_none (s : FixSt) (m : FixMsg) (hv : m.bodyValid = true) (hn : s.next = none) :
    fixSend s m = (s, .notLoggedIn) := by
  unfold fixSend; simp [hv, hn]

private theorem fixSend_ok (s : FixSt) (m : FixMsg) (n : Int) (hv : m.bodyValid = true) (hn : s.next = some n)
    (he : m.encodable = true) :
    fixSend s m = ({ next := some (n + 1), frames := s.frames ++ [n] }, .written n) := by
  unfold fixSend; simp [hv, hn, he]

private theorem fixSend_enc (s : FixSt) (m : FixMsg) (n : Int) (hv : m.bodyValid = true) (hn : s.next = some n)
    (he : m.encodable = false) :
    fixSend s m = ({ s with next := some (n + 1) }, .encodeError) := by
  unfold fixSend; simp [hv, hn, he]

/-- **A send rejected by validation writes nothing and consumes no number** (one step). -/
theorem C10_fix_reject_consumes_nothing (s : FixSt) (m : FixMsg) (h : m.bodyValid = false) :
    fixSend s m = (s, .rejected) := by
  unfold fixSend
  simp [h]

/-- … and over histories: deleting every rejected application send / heartbeat changes neither the frames nor the counter -/
theorem C10_fix_rejected_sends_invisible (ops : List FixOp) (h : noLogin ops = true) :
    ∀ s, fixRun s ops = fixRun s (ops.filter (fun op => op.msg.bodyValid)) := by
  induction ops with
  | nil => intro s; rfl
  | cons op rest ih =>
    intro s
    have hr : noLogin rest = true := by
      simp only [noLogin, List.all_cons, Bool.and_eq_true] at h; exact h.2
    have hop : op.isLogin = false := by
      simp only [noLogin, List.all_cons, Bool.and_eq_true] at h; simpa using h.1
    by_cases hv : op.msg.bodyValid
    · rw [List.filter_cons_of_pos (by simpa using hv)]
      show fixRun (fixStep s op).1 rest = fixRun (fixStep s op).1 _
      exact ih hr _
    · rw [List.filter_cons_of_neg (by simpa using hv)]
      have : (fixStep s op).1 = s := by
        cases op with
        | login q m => simp [FixOp.isLogin] at hop
        | send m => simp only [fixStep]; rw [C10_fix_reject_consumes_nothing s m (by simpa [FixOp.msg] using hv)]
        | heartbeat m => simp only [fixStep]; rw [C10_fix_reject_consumes_nothing s m (by simpa [FixOp.msg] using hv)]
      show fixRun (fixStep s op).1 rest = _
      rw [this]
      exact ih hr s

/-- a frame is written only by a send that passed validation, and it carries the number the counter yields -/
theorem C10_fix_written_inv (s : FixSt) (m : FixMsg) (n : Int) (h : (fixSend s m).2 = .written n) :
    s.next = some n ∧ m.bodyValid = true ∧ (fixSend s m).1 = { next := some (n + 1), frames := s.frames ++ [n] } := by
  unfold fixSend at h ⊢
  by_cases hv : m.bodyValid
  · cases hn : s.next with
    | none => simp [hv, hn] at h
    | some k =>
      by_cases he : m.encodable
      · simp only [hv, hn, he] at h ⊢
        simp at h
        subst h
        simp
      · simp [hv, hn, he] at h
  · simp [hv] at h

/-- before the logon nothing can be written and nothing changes -/
private theorem fixRun_prelogin (ops : List FixOp) (h : noLogin ops = true) : fixRun fixInit ops = fixInit := by
  induction ops with
  | nil => rfl
  | cons op rest ih =>
    have hr : noLogin rest = true := by
      simp only [noLogin, List.all_cons, Bool.and_eq_true] at h; exact h.2
    have hop : op.isLogin = false := by
      simp only [noLogin, List.all_cons, Bool.and_eq_true] at h; simpa using h.1
    have : (fixStep fixInit op).1 = fixInit := by
      cases op with
      | login q m => simp [FixOp.isLogin] at hop
      | send m =>
        by_cases hv : m.bodyValid
        · exact congrArg Prod.fst (fixSend_none fixInit m hv rfl)
        · exact congrArg Prod.fst (C10_fix_reject_consumes_nothing fixInit m (by simpa using hv))
      | heartbeat m =>
        by_cases hv : m.bodyValid
        · exact congrArg Prod.fst (fixSend_none fixInit m hv rfl)
        · exact congrArg Prod.fst (C10_fix_reject_consumes_nothing fixInit m (by simpa using hv))
    show fixRun (fixStep fixInit op).1 rest = fixInit
    rw [this]
    exact ih hr

/-- invariant of the gap-free region: the counter is `q + frames written`, the k-th frame carries `q + k` -/
private def Contig (q : Int) (s : FixSt) : Prop :=
  s.next = some (q + s.frames.length) ∧ ∀ k, (hk : k < s.frames.length) → s.frames[k] = q + k

private theorem fixSend_contig (q : Int) (s : FixSt) (m : FixMsg) (hs : Contig q s)
    (hne : (!m.bodyValid || m.encodable) = true) : Contig q (fixSend s m).1 := by
  obtain ⟨hn, hf⟩ := hs
  by_cases hv : m.bodyValid
  · have he : m.encodable = true := by simpa [hv] using hne
    rw [fixSend_ok s m _ hv hn he]
    refine ⟨?_, ?_⟩
    · show some (q + (s.frames.length : Int) + 1) = some (q + ((s.frames ++ [q + (s.frames.length : Int)]).length : Int))
      simp only [List.length_append, List.length_singleton]
      congr 1
      omega
    · intro k hk
      show (s.frames ++ [q + (s.frames.length : Int)])[k]'hk = q + k
      have hk' : k < s.frames.length + 1 := by simpa using hk
      by_cases hlt : k < s.frames.length
      · rw [List.getElem_append_left hlt]; exact hf k hlt
      · have : k = s.frames.length := by omega
        subst this
        simp
  · rw [C10_fix_reject_consumes_nothing s m (by simpa using hv)]
    exact ⟨hn, hf⟩

private theorem fixRun_contig (q : Int) (ops : List FixOp) (hl : noLogin ops = true) (hne : noEncodeFailure ops = true) :
    ∀ s, Contig q s → Contig q (fixRun s ops) := by
  induction ops with
  | nil => intro s hs; exact hs
  | cons op rest ih =>
    intro s hs
    have hr : noLogin rest = true := by
      simp only [noLogin, List.all_cons, Bool.and_eq_true] at hl; exact hl.2
    have hop : op.isLogin = false := by
      simp only [noLogin, List.all_cons, Bool.and_eq_true] at hl; simpa using hl.1
    simp only [noEncodeFailure, List.all_cons, Bool.and_eq_true] at hne
    have hner : noEncodeFailure rest = true := by simpa [noEncodeFailure] using hne.2
    show Contig q (fixRun (fixStep s op).1 rest)
    apply ih hr hner
    cases op with
    | login q' m => simp [FixOp.isLogin] at hop
    | send m => exact fixSend_contig q s m hs (by simpa [FixOp.msg] using hne.1)
    | heartbeat m => exact fixSend_contig q s m hs (by simpa [FixOp.msg] using hne.1)

/-
Full statement (property C10, FIX part):

  theorem C10_fix_kth (pre ops) (q) (m) (hpre : noLogin pre) (hops : noLogin ops) :
      let s := fixRun fixInit (pre ++ .login q m :: ops)
      ∀ k (hk : k < s.frames.length), s.frames[k] = q + k

It is FALSE of the unchanged code (Witness.C10.C10_witness_encode_failure_gap): `send_msg` takes `next(self.sequence)`
before `_prepare_complete_msg`, so a send that passes validation and then fails to serialise consumes a number.
What is missing for the full statement is exactly the hypothesis `noEncodeFailure` below; it disappears once the number
is taken after serialisation succeeded (fixes/C10-encode-failure-gap.md).
-/

/-- **k-th frame carries logon MsgSeqNum + k** (frame 0 is the logon itself), for every history
    `sends before the logon ++ logon ++ {application sends, rejected sends, heartbeats}` in any interleaving,
    any logon number — under the hypothesis that no send fails after validation. -/
theorem C10_fix_kth_partial (pre ops : List FixOp) (q : Int) (m : FixMsg)
    (hpre : noLogin pre = true) (hops : noLogin ops = true)
    (hne : noEncodeFailure (.login q m :: ops) = true) :
    (∀ k, (hk : k < (fixRun fixInit (pre ++ .login q m :: ops)).frames.length) →
        (fixRun fixInit (pre ++ .login q m :: ops)).frames[k] = q + k) ∧
    (fixRun fixInit (pre ++ .login q m :: ops)).next
      = some (q + (fixRun fixInit (pre ++ .login q m :: ops)).frames.length) := by
  have hrun : fixRun fixInit (pre ++ .login q m :: ops)
      = fixRun (fixStep (fixRun fixInit pre) (.login q m)).1 ops := by
    simp [fixRun, List.foldl_append]
  rw [hrun, fixRun_prelogin pre hpre]
  simp only [noEncodeFailure, List.all_cons, Bool.and_eq_true] at hne
  have h0 : Contig q (fixStep fixInit (.login q m)).1 := by
    apply fixSend_contig q _ m _ (by simpa [FixOp.msg] using hne.1)
    exact ⟨by simp [fixInit], by intro k hk; simp [fixInit] at hk⟩
  have := fixRun_contig q ops hops (by simpa [noEncodeFailure] using hne.2) _ h0
  exact ⟨this.2, this.1⟩

/-- invariant that needs no hypothesis: frames strictly increase and stay below the counter -/
private def Incr (s : FixSt) : Prop :=
  s.frames.Pairwise (· < ·) ∧ ∀ n, s.next = some n → ∀ f ∈ s.frames, f < n

private theorem fixSend_incr (s : FixSt) (m : FixMsg) (hs : Incr s) : Incr (fixSend s m).1 := by
  obtain ⟨hp, hb⟩ := hs
  by_cases hv : m.bodyValid
  · cases hn : s.next with
    | none => rw [fixSend_none s m hv hn]; exact ⟨hp, hb⟩
    | some n =>
      by_cases he : m.encodable
      · rw [fixSend_ok s m n hv hn he]
        refine ⟨?_, ?_⟩
        · show (s.frames ++ [n]).Pairwise (· < ·)
          rw [List.pairwise_append]
          refine ⟨hp, by simp, ?_⟩
          intro a ha b hb'
          simp at hb'
          rw [hb']
          exact hb n hn a ha
        · intro n' hn' f hf
          have e1 : n' = n + 1 := by simpa using hn'.symm
          have hf' : f ∈ s.frames ++ [n] := hf
          simp at hf'
          rcases hf' with hf' | hf'
          · have := hb n hn f hf'; omega
          · omega
      · rw [fixSend_enc s m n hv hn (by simpa using he)]
        refine ⟨hp, ?_⟩
        intro n' hn' f hf
        have e1 : n' = n + 1 := by simpa using hn'.symm
        have := hb n hn f hf
        omega
  · rw [C10_fix_reject_consumes_nothing s m (by simpa using hv)]
    exact ⟨hp, hb⟩

private theorem fixRun_incr (ops : List FixOp) (hl : noLogin ops = true) : ∀ s, Incr s → Incr (fixRun s ops) := by
  induction ops with
  | nil => intro s hs; exact hs
  | cons op rest ih =>
    intro s hs
    have hr : noLogin rest = true := by
      simp only [noLogin, List.all_cons, Bool.and_eq_true] at hl; exact hl.2
    have hop : op.isLogin = false := by
      simp only [noLogin, List.all_cons, Bool.and_eq_true] at hl; simpa using hl.1
    show Incr (fixRun (fixStep s op).1 rest)
    apply ih hr
    cases op with
    | login q' m => simp [FixOp.isLogin] at hop
    | send m => exact fixSend_incr s m hs
    | heartbeat m => exact fixSend_incr s m hs

/-- **No repeat, ever** — with or without serialisation failures: the MsgSeqNums of the frames written since the logon
    are strictly increasing, start at the logon number or later, and all lie below the counter. -/
theorem C10_fix_no_repeat (pre ops : List FixOp) (q : Int) (m : FixMsg)
    (hpre : noLogin pre = true) (hops : noLogin ops = true) :
    (fixRun fixInit (pre ++ .login q m :: ops)).frames.Pairwise (· < ·) ∧
    (∀ f ∈ (fixRun fixInit (pre ++ .login q m :: ops)).frames, q ≤ f) := by
  have hrun : fixRun fixInit (pre ++ .login q m :: ops)
      = fixRun (fixStep (fixRun fixInit pre) (.login q m)).1 ops := by
    simp [fixRun, List.foldl_append]
  rw [hrun, fixRun_prelogin pre hpre]
  -- strengthen with the lower bound
  have low : ∀ (ops : List FixOp) (s : FixSt), noLogin ops = true →
      ((∀ n, s.next = some n → q ≤ n) ∧ ∀ f ∈ s.frames, q ≤ f) →
      ((∀ n, (fixRun s ops).next = some n → q ≤ n) ∧ ∀ f ∈ (fixRun s ops).frames, q ≤ f) := by
    intro ops
    induction ops with
    | nil => intro s _ hs; exact hs
    | cons op rest ih =>
      intro s hl hs
      have hr : noLogin rest = true := by
        simp only [noLogin, List.all_cons, Bool.and_eq_true] at hl; exact hl.2
      have hop : op.isLogin = false := by
        simp only [noLogin, List.all_cons, Bool.and_eq_true] at hl; simpa using hl.1
      show (∀ n, (fixRun (fixStep s op).1 rest).next = some n → q ≤ n) ∧ _
      apply ih _ hr
      have key : ∀ m : FixMsg, (∀ n, (fixSend s m).1.next = some n → q ≤ n) ∧ ∀ f ∈ (fixSend s m).1.frames, q ≤ f := by
        intro m
        obtain ⟨h1, h2⟩ := hs
        by_cases hv : m.bodyValid
        · cases hn : s.next with
          | none => rw [fixSend_none s m hv hn]; exact ⟨h1, h2⟩
          | some n =>
            have := h1 n hn
            by_cases he : m.encodable
            · rw [fixSend_ok s m n hv hn he]
              refine ⟨?_, ?_⟩
              · intro n' hn'
                have e1 : n' = n + 1 := by simpa using hn'.symm
                omega
              · intro f hf
                have hf' : f ∈ s.frames ++ [n] := hf
                simp at hf'
                rcases hf' with hf' | hf'
                · exact h2 f hf'
                · omega
            · rw [fixSend_enc s m n hv hn (by simpa using he)]
              refine ⟨?_, h2⟩
              intro n' hn'
              have e1 : n' = n + 1 := by simpa using hn'.symm
              omega
        · rw [C10_fix_reject_consumes_nothing s m (by simpa using hv)]
          exact ⟨h1, h2⟩
      cases op with
      | login q' m => simp [FixOp.isLogin] at hop
      | send m => exact key m
      | heartbeat m => exact key m
  have hs0 : Incr { fixInit with next := some q } := ⟨by simp [fixInit], by intro n _ f hf; simp [fixInit] at hf⟩
  have hl0 : (∀ n, ({ fixInit with next := some q } : FixSt).next = some n → q ≤ n) ∧
      ∀ f ∈ ({ fixInit with next := some q } : FixSt).frames, q ≤ f :=
    ⟨by intro n hn; simp at hn; omega, by intro f hf; simp [fixInit] at hf⟩
  have hstep : fixStep fixInit (.login q m) = fixSend { fixInit with next := some q } m := rfl
  have i1 := fixRun_incr (.send m :: ops) (by simpa [noLogin, FixOp.isLogin] using hops) _ hs0
  have l1 := low (.send m :: ops) _ (by simpa [noLogin, FixOp.isLogin] using hops) hl0
  have e : fixRun { fixInit with next := some q } (.send m :: ops) = fixRun (fixStep fixInit (.login q m)).1 ops := rfl
  rw [e] at i1 l1
  exact ⟨i1.1, l1.2⟩

/-! ### FIX, repaired `send_msg` (the number is given back when serialisation fails): the full statement -/

private theorem fixSendR_invalid (s : FixSt) (m : FixMsg) (h : m.bodyValid = false) : fixSendR s m = (s, .rejected) := by
  unfold fixSendR; simp [h]

private theorem fixSendR_none (s : FixSt) (m : FixMsg) (hv : m.bodyValid = true) (hn : s.next = none) :
    fixSendR s m = (s, .notLoggedIn) := by
  unfold fixSendR; simp [hv, hn]

private theorem fixSendR_ok (s : FixSt) (m : FixMsg) (n : Int) (hv : m.bodyValid = true) (hn : s.next = some n)
    (he : m.encodable = true) :
    fixSendR s m = ({ next := some (n + 1), frames := s.frames ++ [n] }, .written n) := by
  unfold fixSendR; simp [hv, hn, he]

private theorem fixSendR_enc (s : FixSt) (m : FixMsg) (n : Int) (hv : m.bodyValid = true) (hn : s.next = some n)
    (he : m.encodable = false) : fixSendR s m = (s, .encodeError) := by
  unfold fixSendR
  cases s with
  | mk nx fr => simp at hn; subst hn; simp [hv, he]

private theorem fixSendR_contig (q : Int) (s : FixSt) (m : FixMsg) (hs : Contig q s) : Contig q (fixSendR s m).1 := by
  obtain ⟨hn, hf⟩ := hs
  by_cases hv : m.bodyValid
  · by_cases he : m.encodable
    · rw [fixSendR_ok s m _ hv hn he]
      refine ⟨?_, ?_⟩
      · show some (q + (s.frames.length : Int) + 1) = some (q + ((s.frames ++ [q + (s.frames.length : Int)]).length : Int))
        simp only [List.length_append, List.length_singleton]
        congr 1
        omega
      · intro k hk
        show (s.frames ++ [q + (s.frames.length : Int)])[k]'hk = q + k
        have hk' : k < s.frames.length + 1 := by simpa using hk
        by_cases hlt : k < s.frames.length
        · rw [List.getElem_append_left hlt]; exact hf k hlt
        · have : k = s.frames.length := by omega
          subst this
          simp
    · rw [fixSendR_enc s m _ hv hn (by simpa using he)]
      exact ⟨hn, hf⟩
  · rw [fixSendR_invalid s m (by simpa using hv)]
    exact ⟨hn, hf⟩

private theorem fixRunR_contig (q : Int) (ops : List FixOp) (hl : noLogin ops = true) :
    ∀ s, Contig q s → Contig q (fixRunR s ops) := by
  induction ops with
  | nil => intro s hs; exact hs
  | cons op rest ih =>
    intro s hs
    have hr : noLogin rest = true := by
      simp only [noLogin, List.all_cons, Bool.and_eq_true] at hl; exact hl.2
    have hop : op.isLogin = false := by
      simp only [noLogin, List.all_cons, Bool.and_eq_true] at hl; simpa using hl.1
    show Contig q (fixRunR (fixStepR s op).1 rest)
    apply ih hr
    cases op with
    | login q' m => simp [FixOp.isLogin] at hop
    | send m => exact fixSendR_contig q s m hs
    | heartbeat m => exact fixSendR_contig q s m hs

private theorem fixRunR_prelogin (ops : List FixOp) (h : noLogin ops = true) : fixRunR fixInit ops = fixInit := by
  induction ops with
  | nil => rfl
  | cons op rest ih =>
    have hr : noLogin rest = true := by
      simp only [noLogin, List.all_cons, Bool.and_eq_true] at h; exact h.2
    have hop : op.isLogin = false := by
      simp only [noLogin, List.all_cons, Bool.and_eq_true] at h; simpa using h.1
    have : (fixStepR fixInit op).1 = fixInit := by
      cases op with
      | login q m => simp [FixOp.isLogin] at hop
      | send m =>
        by_cases hv : m.bodyValid
        · exact congrArg Prod.fst (fixSendR_none fixInit m hv rfl)
        · exact congrArg Prod.fst (fixSendR_invalid fixInit m (by simpa using hv))
      | heartbeat m =>
        by_cases hv : m.bodyValid
        · exact congrArg Prod.fst (fixSendR_none fixInit m hv rfl)
        · exact congrArg Prod.fst (fixSendR_invalid fixInit m (by simpa using hv))
    show fixRunR (fixStepR fixInit op).1 rest = fixInit
    rw [this]
    exact ih hr

/-- **The full statement, for the repaired `send_msg`**: for every history
    `sends before the logon ++ logon ++ {application sends of every kind, rejected or unencodable ones included,
    heartbeats}` in any interleaving and any logon number, the k-th frame written since the logon carries
    logon MsgSeqNum + k and the counter is logon + frames written — no hypothesis on serialisation. -/
theorem C10_fix_kth_repaired (pre ops : List FixOp) (q : Int) (m : FixMsg)
    (hpre : noLogin pre = true) (hops : noLogin ops = true) :
    (∀ k, (hk : k < (fixRunR fixInit (pre ++ .login q m :: ops)).frames.length) →
        (fixRunR fixInit (pre ++ .login q m :: ops)).frames[k] = q + k) ∧
    (fixRunR fixInit (pre ++ .login q m :: ops)).next
      = some (q + (fixRunR fixInit (pre ++ .login q m :: ops)).frames.length) := by
  have hrun : fixRunR fixInit (pre ++ .login q m :: ops)
      = fixRunR (fixStepR (fixRunR fixInit pre) (.login q m)).1 ops := by
    simp [fixRunR, List.foldl_append]
  rw [hrun, fixRunR_prelogin pre hpre]
  have h0 : Contig q (fixStepR fixInit (.login q m)).1 := by
    apply fixSendR_contig q _ m
    exact ⟨by simp [fixInit], by intro k hk; simp [fixInit] at hk⟩
  have := fixRunR_contig q ops hops _ h0
  exact ⟨this.2, this.1⟩

/-- repaired `send_msg`: every send that writes nothing (rejected by validation, or not serialisable) leaves the whole
    state alone -/
theorem C10_fix_repaired_failed_send_consumes_nothing (s : FixSt) (m : FixMsg)
    (h : ∀ n, (fixSendR s m).2 ≠ .written n) : (fixSendR s m).1 = s := by
  by_cases hv : m.bodyValid
  · cases hn : s.next with
    | none => rw [fixSendR_none s m hv hn]
    | some n =>
      by_cases he : m.encodable
      · exact absurd (congrArg Prod.snd (fixSendR_ok s m n hv hn he)) (h n)
      · rw [fixSendR_enc s m n hv hn (by simpa using he)]
  · rw [fixSendR_invalid s m (by simpa using hv)]

/-! ### non-vacuity: concrete histories meeting the hypotheses, with non-trivial results -/

-- soup: a server history mixing every kind of operation, two sequenced packets reach the wire out of three attempts
example : (soupRun (soupInit .server 41)
    [.send (.seqData [1, 2]), .heartbeat, .send (.debug [104, 233]), .send (.debug [104]), .send (.loginAcc [115] 7),
     .close, .endSession, .send (.seqData [83])]).seq = 43 := by decide
example : countSeq (soupRun (soupInit .server 41)
    [.send (.seqData [1, 2]), .heartbeat, .send (.unseqData [0, 1, 83]), .send (.seqData [83])]).written = 2 := by decide
-- soup: adoption of a right-justified, zero-padded, 20 digit field
example : (clientLogin (soupInit .client 1) (.loginReq [117] [112] [] [49])
    [[0, 1, 72], [0, 31, 65] ++ List.replicate 10 32 ++ List.replicate 17 48 ++ [49, 50, 51]]).1.seq = 123 := by decide
example : C12.wfPkt (.loginAcc [115, 49] 18446744073709551616) = true := by decide
-- FIX: hypotheses of `C10_fix_kth_partial` hold on a history with rejected sends and heartbeats; frames are 7, 8, 9
example : noEncodeFailure [.login 7 ⟨true, true⟩, .send ⟨false, false⟩, .heartbeat ⟨true, true⟩, .send ⟨false, true⟩,
    .send ⟨true, true⟩] = true := by decide
example : (fixRun fixInit [.send ⟨true, true⟩, .login 7 ⟨true, true⟩, .send ⟨false, false⟩, .heartbeat ⟨true, true⟩,
    .send ⟨false, true⟩, .send ⟨true, true⟩]).frames = [7, 8, 9] := by decide

-- repaired variant on the witness history: 5, 6 (the unchanged code gives 5, 7 — Witness/C10.lean)
example : (fixRunR fixInit witnessGap).frames = [5, 6] := by decide

end NasdaqModel.Props.C10
