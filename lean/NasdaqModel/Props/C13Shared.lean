import NasdaqModel.Lemmas.FixLemmas
/-
C13 for dictionaries in which a repeating group REUSES tags of what encloses it (the library's own test dictionary: body fields
1, 2 and group 22[1, 2]; `NoLegs[LegSymbol, Currency]` next to a body-level `Currency`; an inner group that repeats its outer
group's first tag).  The statement asks for "header, body and trailer with disjoint tags" and "instances [that] start with their
first field" - not for pairwise distinct tags, which is what `wfDef` of `Props/C13.lean` demands.

What is here:
  * `wfDefShared` - the weaker well-formedness of the dictionary: the three segments use disjoint tags (nested ones included),
    the entries of every single level have distinct tags; tags may recur at different levels.
  * `countEnds` - the condition on the MESSAGE under which its wire form is unambiguous: an instance takes fields while the next tag
    is an entry of its group and not yet in the instance, so the announced count ends a group exactly when no instance can take the
    field that follows it (the first field of the next instance, or whatever follows the group in the enclosing instance / segment /
    next segment): that tag is no entry of the group, or the instance already holds it.  With pairwise distinct tags this is vacuous.
  * the round trip of the model on the four messages of `corpus/C13/r-shared-*.json` - each with a group that ONLY the count ends -
    as kernel-decided theorems (`C13_shared_*`).
What is NOT here: the general theorem `wfDefShared d → wfMsg d m → countEnds d m → decodeMsg reg (encMsg d m) = canonMsg d m` for all
dictionaries.  The lemmas of `Lemmas/FixLemmas.lean` (`DecOK`, `segLoop_items`, `grpLoop_insts`) are stated for `(deepTagsL es).Nodup`
and would have to carry the value-dependent follow condition through every level; for these dictionaries the tie is the per-run
correspondence (`fix.rt` on every generated shared-tag dictionary, harness/c13.py) and the oracle on the implementation.
-/
namespace NasdaqModel.Props.C13Shared
open NasdaqModel Py Fix

/-- the entries of every single level have distinct tags -/
def levelDistinct : Nat → List Entry → Bool
  | 0, _ => false
  | fuel + 1, es => decide (tagsOf es).Nodup && es.all (fun e => match e with
      | .group _ sub _ => levelDistinct fuel sub
      | .field .. => true)

def disjointL (a b : List Nat) : Bool := a.all (fun t => !b.contains t)

/-- header, body and trailer with disjoint tags; inside a segment only the tags of one level are distinct (depth ≤ 8) -/
def wfDefShared (d : MsgDef) : Bool :=
  disjointL (deepTagsL d.hdr) (deepTagsL d.body) && disjointL (deepTagsL d.hdr) (deepTagsL d.trl) &&
  disjointL (deepTagsL d.body) (deepTagsL d.trl) &&
  levelDistinct 8 d.hdr && levelDistinct 8 d.body && levelDistinct 8 d.trl

def ceInsts (rec : List Entry → Seg → Option Nat → Bool) (sub : List Entry) (first : Option Nat) :
    List Seg → Option Nat → Bool
  | [], _ => true
  | [i], nxt => rec sub (canonFields sub i) nxt
  | i :: j :: r, nxt => rec sub (canonFields sub i) first && ceInsts rec sub first (j :: r) nxt

def ceItems (rec : List Entry → Seg → Option Nat → Bool) (es : List Entry) : Seg → Option Nat → Bool
  | [], _ => true
  | (t, v) :: rest, follow =>
    let nxt := match rest with
      | [] => follow
      | (t', _) :: _ => some t'
    (match v, lookupE es t with
     | .grp insts, some (.group _ sub _) => ceInsts rec sub (sub.head?.map Entry.tag) insts nxt
     | .grp _, _ => false
     | _, _ => true) && ceItems rec es rest follow

/-- `order`: the fields of a segment / instance in wire order; `follow`: the tag that comes next on the wire -/
def ce : Nat → List Entry → Seg → Option Nat → Bool
  | 0, _, _, _ => false
  | fuel + 1, es, order, follow =>
    (match follow with
     | some f => !((tagsOf es).contains f && !(keysOf order).contains f)
     | none => true) && ceItems (ce fuel) es order follow

def firstTag (s : Seg) : Option Nat := s.head?.map Prod.fst

/-- the count alone ends every group of the message (depth ≤ 8) -/
def countEnds (d : MsgDef) (m : Msg) : Bool :=
  ce 9 d.hdr m.hdr ((firstTag m.body).orElse fun _ => firstTag m.trl) &&
  ce 9 d.body m.body (firstTag m.trl) && ce 9 d.trl m.trl none

/-- inside the quantifier, encodes, and decodes through the registry to the same class, every byte consumed, the canonical form of
    the message (same values; `pyEq` is structural on canonical forms), equal to the original (`pyEqDict`), re-encoding identical -/
def roundTrips (d : MsgDef) (m : Msg) : Bool :=
  wfDefShared d && wfMsg d m && countEnds d m &&
  match encMsg d m with
  | .ok bs =>
    (match decodeMsg [d] bs with
     | .ok r => r.1 == bs.length && r.2.1.name == d.name && pyEq r.2.2 (canonMsg d m) && pyEqDict r.2.2 m &&
                (match encMsg d r.2.2 with
                 | .ok bs' => bs' == bs
                 | .error _ => false)
     | .error _ => false)
  | .error _ => false

def hdr35 : List Entry := [.field 35 .string true]

/-- tests/fix_messages.py: body fields 1, 2 and group 22[1, 2] -/
def basicDef : MsgDef :=
  { name := [66], type := [77], hdr := hdr35, trl := [],
    body := [.field 1 .int true, .field 2 .string true, .group 22 [.field 1 .int true, .field 2 .string false] false] }
/-- the group assigned BEFORE the same-tag body fields: `22=1|1=21|2=in|1=2|2=body|` -/
def basicMsg : Msg :=
  { hdr := [(35, .str [77])], trl := [],
    body := [(22, .grp [[(1, .int 21), (2, .str [105, 110])]]), (1, .int 2), (2, .str [98, 111, 100, 121])] }

/-- Symbol, NoLegs[LegSymbol, Currency?], Currency?, Text? -/
def orderDef : MsgDef :=
  { name := [79], type := [68], hdr := hdr35, trl := [],
    body := [.field 55 .string true, .group 555 [.field 600 .string true, .field 15 .string false] false,
             .field 15 .string false, .field 58 .string false] }
def orderMsg : Msg :=
  { hdr := [(35, .str [68])], trl := [],
    body := [(55, .str [65, 66, 67]), (555, .grp [[(600, .str [76, 49]), (15, .str [85, 83, 68])], [(600, .str [76, 50]), (15, .str [69, 85, 82])]]),
             (15, .str [83, 69, 75]), (58, .str [104, 105])] }

/-- NoOuter[Id, Note?, NoInner[Id, Note?], Qty?]: the inner group reuses the outer group's tags, its first one included -/
def nestedDef : MsgDef :=
  { name := [78], type := [78], hdr := hdr35, trl := [],
    body := [.group 100 [.field 101 .int true, .field 102 .string false,
                         .group 200 [.field 101 .int true, .field 102 .string false] false, .field 103 .int false] false] }
def nestedMsg : Msg :=
  { hdr := [(35, .str [78])], trl := [],
    body := [(100, .grp [[(101, .int 1), (200, .grp [[(101, .int 11), (102, .str [120])], [(101, .int 12)]])],
                         [(101, .int 2), (102, .str [110]), (200, .grp [[(101, .int 21)]]), (103, .int 5)]])] }

/-- a group announced with 0 instances, followed by a field whose tag the group uses too -/
def emptyDef : MsgDef :=
  { name := [69], type := [69], hdr := hdr35, trl := [],
    body := [.field 481 .string false, .group 577 [.field 481 .string false] false] }
def emptyMsg : Msg := { hdr := [(35, .str [69])], trl := [], body := [(577, .grp []), (481, .str [97])] }

theorem C13_shared_basic_roundtrip : roundTrips basicDef basicMsg = true := by decide +kernel
theorem C13_shared_order_roundtrip : roundTrips orderDef orderMsg = true := by decide +kernel
theorem C13_shared_nested_roundtrip : roundTrips nestedDef nestedMsg = true := by decide +kernel
theorem C13_shared_empty_group_roundtrip : roundTrips emptyDef emptyMsg = true := by decide +kernel

/-- none of them is inside `wfDef` (pairwise distinct tags): the theorems of `Props/C13.lean` do not speak about them -/
theorem C13_shared_outside_wfDef :
    wfDef basicDef = false ∧ wfDef orderDef = false ∧ wfDef nestedDef = false ∧ wfDef emptyDef = false := by decide

/-- the condition is about the message: the same dictionary, the leg WITHOUT its own Currency, followed by the body's Currency - the
    instance can take it, the wire is ambiguous, and the library (and the model) read it as the leg's -/
def orderAmbiguous : Msg :=
  { hdr := [(35, .str [68])], trl := [],
    body := [(55, .str [65]), (555, .grp [[(600, .str [76, 49])]]), (15, .str [83, 69, 75])] }
theorem C13_shared_ambiguous_is_excluded :
    countEnds orderDef orderAmbiguous = false ∧ roundTrips orderDef orderAmbiguous = false := by decide +kernel

end NasdaqModel.Props.C13Shared
