import NasdaqModel.Lemmas.AppSessionLink
import NasdaqModel.Props.C05App
import NasdaqModel.Witness.C05App
/-
C05, application sessions — the link between the second dispatcher and its inner stand-in (the repair of
C05-app-close-from-message-callback, /repo 4b4f253).

Since the repair a `close()` awaited from the application-level message callback is carried out by the calling task, the second
dispatcher `D2`; in the inner machine that task is the reserved user task `U d2u`, and while `D2` has the status `inSoup` the product
event `run D2` is the inner event `run (U d2u)` (`Model/AppSession.lean`).  `Props/C05App.lean` proves that the close never
deadlocks by naming a definite *inner* task that can take the next step.  What was missing — and checked by the driver
correspondence only — is that the product machine can schedule that task when it is `U d2u`: the user's inner events naming
`U d2u` are refused, so the only event that runs it is `run D2`, and only while `D2` is `inSoup`.

* `C05AppLink_closer_is_inSoup`: in every reachable product state (every configuration, every event list) in which `U d2u` is the
  closer of the soup session, `D2` is `inSoup` inside a message callback's `close()`, and the close event exists.
* `C05AppLink_reserved_task`: the inner task `U d2u` exists only as that closer, or after the close has ended.
* `C05AppLink_close_progress`: `C05App_close_never_deadlocks` read as progress of the product: the task it names is scheduled by a
  product event `run …`, which takes exactly the step named.

The invariant is `Lemmas/AppSessionLink.lean` (`InvL`, `step_InvL`); the inner lemmas are `Lemmas/AppSessionLinkInner.lean`
(`Sess.step_absent`: the inner machine never creates a user task on its own; `Sess.step_closerOrFinal`: the closer stays the closer
until the close ends).
-/
namespace NasdaqModel.Props.C05AppLink
open NasdaqModel App

abbrev reach (a : ACfg) (evs : List Ev) : St := runEvs a {} evs

/-- **The dispatcher's stand-in exists only as the closer.** In every reachable state the reserved inner task `U d2u` has never been
    created, or the second dispatcher is inside `soup_session.close()` (`inSoup`), the close event exists and `U d2u` is the closer
    of the soup session, or the close of the soup session has ended. -/
theorem C05AppLink_reserved_task (a : ACfg) (evs : List Ev) :
    (reach a evs).inner.status (.U d2u) = .absent ∨
    ((reach a evs).astatus .D2 = .inSoup ∧ (reach a evs).evt ≠ none ∧ Sess.isCloser (reach a evs).inner (.U d2u)) ∨
    ((reach a evs).inner.cstage = .finished ∨ (reach a evs).inner.cstage = .aborted) :=
  (runEvs_InvL a evs).link

/-- **The missing link.** In every reachable state of the product machine — every configuration, every event list — in which the
    reserved inner task `U d2u` is the closer of the soup session, the second dispatcher has the status `inSoup` (so `run D2` is
    the inner event `run (U d2u)`, `C05App_dispatcher_closer_step`), it is inside the `close()` of a message callback (body or
    cancellation clean-up), the close event exists, and the inner task is alive inside the close body. -/
theorem C05AppLink_closer_is_inSoup (a : ACfg) (evs : List Ev) (h : Sess.isCloser (reach a evs).inner (.U d2u)) :
    (reach a evs).astatus .D2 = .inSoup ∧ (reach a evs).evt ≠ none ∧
    ((∃ v, (reach a evs).aprog .D2 = .handlerClose v) ∨ ∃ v, (reach a evs).aprog .D2 = .cleanupClose v) ∧
    Sess.alive ((reach a evs).inner.status (.U d2u)) = true ∧ (reach a evs).inner.prog (.U d2u) = .inClose := by
  have i := runEvs_InvL a evs
  obtain ⟨_, _, ib⟩ := i.reach.invs
  have hal := Sess.isCloser_alive ib h
  have hprog : (reach a evs).inner.prog (.U d2u) = .inClose := by
    apply Classical.byContradiction
    intro hne
    exact Sess.not_closer_of_prog ib hne h
  rcases i.link with h0 | ⟨h1, h2, _⟩ | hf
  · have h0' : (reach a evs).inner.status (.U d2u) = .absent := h0
    rw [h0'] at hal; cases hal
  · exact ⟨h1, h2, ((runEvs_Inv a evs).ss.ip .D2 h1).2, hal, hprog⟩
  · exact absurd hf (Sess.isCloser_not_final h)

/-- the converse direction the progress theorem uses: an inner task `U d2u` that can run is the dispatcher inside
    `soup_session.close()`, unless the close has ended -/
theorem C05AppLink_runnable_is_inSoup (a : ACfg) (evs : List Ev) (h : Sess.runnable (reach a evs).inner (.U d2u) = true)
    (hf : (reach a evs).inner.cstage ≠ .finished) (ha : (reach a evs).inner.cstage ≠ .aborted) :
    (reach a evs).astatus .D2 = .inSoup ∧ Sess.isCloser (reach a evs).inner (.U d2u) := by
  rcases C05AppLink_reserved_task a evs with h0 | ⟨h1, _, h3⟩ | hfin
  · rw [Sess.runnable, h0] at h; simp at h
  · exact ⟨h1, h3⟩
  · rcases hfin with h' | h'
    · exact absurd h' hf
    · exact absurd h' ha

/-- **The close makes progress in the product machine.** In every reachable state in which the soup session reports closed and
    its close has not run to its end (the code as it is, `closedFirst`): some product event `run …` is enabled and takes the step
    that `C05App_close_never_deadlocks` names —
    * the inner task `t` (the closer, or the cancelled task the closer awaits) is not the reserved one: the event `inner (run t)`
      is not refused and is the product step of `t`;
    * `t` is the reserved task `U d2u`: then the dispatcher is `inSoup` and the event `run D2` is the product step of `U d2u`;
    * the closer awaits the second dispatcher / the receive helper inside `queue.stop()`: that task is runnable and `run D2` /
      `run V2` is its step. -/
theorem C05AppLink_close_progress (a : ACfg) (evs : List Ev) (hcf : a.closedFirst = true)
    (hc : (reach a evs).inner.closed = true) (hf : (reach a evs).inner.cstage ≠ .finished)
    (ha : (reach a evs).inner.cstage ≠ .aborted) :
    (∃ t, runnableI (reach a evs) t = true ∧
      (Sess.isCloser (reach a evs).inner t ∨
        ∃ t', Sess.isCloser (reach a evs).inner t' ∧ (reach a evs).inner.status t' = .waitT t) ∧
      ((t ≠ .U d2u ∧ step a (reach a evs) (.inner (.run t)) = stepInner a (reach a evs) (.run t)) ∨
       (t = .U d2u ∧ (reach a evs).astatus .D2 = .inSoup ∧ Sess.isCloser (reach a evs).inner (.U d2u) ∧
         step a (reach a evs) (.run .D2) = stepInner a { (reach a evs) with imm2 := false } (.run (.U d2u))))) ∨
    ((reach a evs).cpc = .waitD2 ∧ runnable2 (reach a evs) .D2 = true ∧
      step a (reach a evs) (.run .D2) = stepRun2 a (reach a evs) .D2) ∨
    ((reach a evs).cpc = .waitV2 ∧ runnable2 (reach a evs) .V2 = true ∧
      step a (reach a evs) (.run .V2) = stepRun2 a (reach a evs) .V2) := by
  rcases C05App.C05App_close_never_deadlocks a evs hcf hc hf ha with ⟨t, hrun, hrole⟩ | ⟨h1, h2⟩ | ⟨h1, h2⟩
  · refine Or.inl ⟨t, hrun, hrole, ?_⟩
    by_cases ht : t = .U d2u
    · subst ht
      have hr : Sess.runnable (reach a evs).inner (.U d2u) = true := by
        unfold runnableI at hrun
        simp only [Bool.and_eq_true] at hrun
        exact hrun.1
      obtain ⟨hD, hcz⟩ := C05AppLink_runnable_is_inSoup a evs hr hf ha
      exact Or.inr ⟨rfl, hD, hcz, (C05App.C05App_dispatcher_closer_step a _ hD).1⟩
    · refine Or.inl ⟨ht, ?_⟩
      have hres : reservedEv (.run t) = false := by
        cases t with
        | U u =>
          have : u ≠ d2u := fun e => ht (by rw [e])
          simp [reservedEv, this]
        | _ => rfl
      simp [step, hres]
  · exact Or.inr (Or.inl ⟨h1, h2, by simp [step, h2]⟩)
  · exact Or.inr (Or.inr ⟨h1, h2, by simp [step, h2]⟩)

/-! ### non-vacuity: the recorded close-from-handler history (`Witness/C05App.lean`, `historyA`) -/

open Witness.C05App

set_option maxRecDepth 100000 in
/-- before the callback calls `close()` the reserved inner task does not exist -/
example : (reach cfgA (historyA.take 15)).inner.status (.U d2u) = .absent ∧ (reach cfgA (historyA.take 15)).evt = none ∧
    (reach cfgA (historyA.take 15)).astatus .D2 = .ready := by decide

set_option maxRecDepth 100000 in
/-- the step in which the callback for 3 awaits `close()`: `U d2u` is the closer (the hypothesis of `C05AppLink_closer_is_inSoup` is
    satisfiable), the dispatcher is `inSoup`; the closer awaits the cancelled inner dispatcher `D`, which is not the reserved
    task: the event `inner (run D)` takes the next step of the close (first case of `C05AppLink_close_progress`) -/
example : (reach cfgA (historyA.take 16)).inner.cstage = .body (.U d2u) 1 (.userTail d2u .ok) ∧
    (reach cfgA (historyA.take 16)).astatus .D2 = .inSoup ∧ (reach cfgA (historyA.take 16)).evt = some false ∧
    (reach cfgA (historyA.take 16)).aprog .D2 = .handlerClose 3 ∧
    (reach cfgA (historyA.take 16)).inner.status (.U d2u) = .waitT .D ∧
    (reach cfgA (historyA.take 16)).inner.prog (.U d2u) = .inClose ∧
    runnableI (reach cfgA (historyA.take 16)) .D = true ∧ runnableI (reach cfgA (historyA.take 16)) (.U d2u) = false := by decide

example : Sess.isCloser (reach cfgA (historyA.take 16)).inner (.U d2u) :=
  Or.inl ⟨1, .userTail d2u .ok, by
    have h : (reach cfgA (historyA.take 16)).inner.cstage = .body (.U d2u) 1 (.userTail d2u .ok) := by
      set_option maxRecDepth 100000 in decide
    exact h⟩

set_option maxRecDepth 100000 in
/-- one step later the task that can take the next step of the close is the reserved one (second case of
    `C05AppLink_close_progress`): the dispatcher is `inSoup`, the user's inner event naming `U d2u` is refused, and `run D2` moves the
    close body on (it stops the receive helper — not alive — and suspends on the local monitor: stage 3) -/
example : runnableI (reach cfgA (historyA.take 17)) (.U d2u) = true ∧
    (reach cfgA (historyA.take 17)).inner.cstage = .body (.U d2u) 1 (.userTail d2u .ok) ∧
    (reach cfgA (historyA.take 17)).astatus .D2 = .inSoup ∧
    (step cfgA (reach cfgA (historyA.take 17)) (.inner (.run (.U d2u)))).inner.cstage = .body (.U d2u) 1 (.userTail d2u .ok) ∧
    (step cfgA (reach cfgA (historyA.take 17)) (.run .D2)).inner.cstage = .body (.U d2u) 3 (.userTail d2u .ok) ∧
    (step cfgA (reach cfgA (historyA.take 17)) (.run .D2)).astatus .D2 = .inSoup := by decide

set_option maxRecDepth 100000 in
/-- the last step of the history: `run D2` ends the close body, runs `_on_soup_close` and returns into the callback — the close has
    ended (third alternative of `C05AppLink_reserved_task`), the dispatcher and its stand-in have ended -/
example : (reach cfgA (historyA.take 23)).inner.cstage = .body (.U d2u) 5 (.userTail d2u .ok) ∧
    runnableI (reach cfgA (historyA.take 23)) (.U d2u) = true ∧ (reach cfgA (historyA.take 23)).astatus .D2 = .inSoup ∧
    (reach cfgA historyA).inner.cstage = .finished ∧ (reach cfgA historyA).astatus .D2 = .done ∧
    (reach cfgA historyA).inner.status (.U d2u) = .done := by decide

end NasdaqModel.Props.C05AppLink
