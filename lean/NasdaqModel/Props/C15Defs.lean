import NasdaqModel.Props.C15
import NasdaqModel.Witness.C15Defs
/-
C15 — "def-references with and without renaming": a reference defines nothing.

`<field def="X"/>` and `<field name="Y" def="X"/>` stand for a copy of the reusable definition X (under the name Y).  The
table of reusable definitions is the `fielddef-root` section and nothing else: no reference adds to it, replaces an entry
of it or removes one, so what a `<field def="Y"/>` means does not depend on what stands before it in the file — in
particular not on an earlier reference that was renamed to `Y`.

How the model says this.  `GenSoupApp.parse` computes the table once (`parseFieldDefs s.fielddefs`) and hands that value
to every record and message, so "a reference leaves the table unchanged" is true of it BY CONSTRUCTION and cannot even
be stated about it.  `Witness/C15Defs.lean` therefore gives the parser with the table threaded through the file in
document order, generic in what a resolved reference does to the table (`Reg`); here, for the library's policy `regNone`:

* `C15Defs_reference_leaves_table`, `C15Defs_fields_leave_table` — one element / a list of elements: the result is the
  model's `parseField` / `parseFields` against the table that came in, and the table that comes out is the one that
  came in (for every table and every element, well-formed or not);
* `C15Defs_elements_before_irrelevant` — whatever elements stand before a list of elements (renaming references
  included) the list parses to what it parses to alone;
* `C15Defs_threaded_parse`, `C15Defs_final_table`, `C15Defs_threaded_gen` — the threaded parser is `parse`, the table at
  the end of the file is the table of the `fielddef-root` section, the generator on top of it is `gen` — so
  `C15_gen_denotes` speaks about it (`C15Defs_threaded_gen_denotes`).

and on the side of the specification's meaning and of the generated module:

* `C15Defs_field_meaning_is_local` — `denoteField` looks at the enums, the `fielddef-root` section and the NAMES of the
  records only: any two specifications that agree on those give every `<field>` the same meaning, whatever the fields of
  their records and messages are, however many renaming references they hold and in whichever order;
* `C15Defs_reference_means_definition` — a field declared by reference has the type and the default of the definition of
  that name (`meaningOf` never looks at the reference's own `name`);
* `C15Defs_generated_fields_meaning` — for every well-formed specification the module the generator writes imports, and
  the type and default of every field of every record and message class, position by position, is `meaningOf`.

The registering variant (`regRename`, a seeded change) is refuted on concrete well-formed specifications in
`Witness/C15Defs.lean`.
-/
namespace NasdaqModel.Props.C15Defs
open NasdaqModel GenSoupApp
open NasdaqModel.Witness.C15Defs (Reg regNone regRename parseFieldT parseFieldsT parseRecordsT parseMessagesT parseT genT)

/-- type and default of a `<field>` of a record or message.  For a reference: those of the definition of that name in the
    `fielddef-root` section — neither the reference's own `name` nor anything outside that section is looked at. -/
def meaningOf (s : Spec) (f0 : FieldEl) : Option (Ty × Option DVal) :=
  match f0.defn with
  | none => (denoteResolved s f0).toOption.map fun x => (x.ty, x.dflt)
  | some d =>
    match findDef? s d with
    | none => none
    | some base => (denoteResolved s base).toOption.map fun x => (x.ty, x.dflt)

/-! ### helper lemmas -/

private theorem bind_ok_inv {α β : Type} {x : Except Err α} {f : α → Except Err β} {b : β} (h : (x >>= f) = .ok b) :
    ∃ a, x = .ok a ∧ f a = .ok b := by
  cases x with
  | error e => simp only [err_bind] at h; cases h
  | ok a => exact ⟨a, rfl, by simpa only [ok_bind] using h⟩

private theorem mapE_mem {α β : Type} {f : α → Except Err β} :
    ∀ {l : List α} {r : List β}, mapE f l = .ok r → ∀ a ∈ l, ∃ b, f a = .ok b
  | [], _, _, a, ha => by cases ha
  | x :: xs, r, h, a, ha => by
      simp only [mapE] at h
      obtain ⟨b, hb, h⟩ := bind_ok_inv h
      obtain ⟨bs, hbs, _⟩ := bind_ok_inv h
      rcases List.mem_cons.mp ha with rfl | ha
      · exact ⟨b, hb⟩
      · exact mapE_mem hbs a ha

private theorem mapE_append {α β : Type} (f : α → Except Err β) :
    ∀ (l l' : List α), mapE f (l ++ l') = (mapE f l >>= fun a => mapE f l' >>= fun b => pure (a ++ b))
  | [], l' => by
      simp only [List.nil_append, mapE, ok_bind]
      cases mapE f l' with
      | error e => simp only [err_bind]
      | ok b => simp only [ok_bind, pure_eq_ok]
  | x :: xs, l' => by
      simp only [List.cons_append, mapE, mapE_append f xs l']
      cases f x with
      | error e => simp only [err_bind]
      | ok b =>
        simp only [ok_bind]
        cases mapE f xs with
        | error e => simp only [err_bind]
        | ok bs =>
          simp only [ok_bind, pure_eq_ok]
          cases mapE f l' with
          | error e => simp only [err_bind]
          | ok cs => simp only [ok_bind, List.cons_append]

/-! ### the threaded parser with the library's policy -/

/-- **A reference leaves the table unchanged.**  One `<field>` element against any table: what it parses to is the
    model's `parseField`, and the table it leaves is the table it found. -/
theorem C15Defs_reference_leaves_table (defs : FieldDefs) (e : FieldEl) :
    parseFieldT regNone defs e = (parseField defs e >>= fun f => pure (f, defs)) := by
  unfold parseFieldT parseField regNone
  cases e.defn with
  | none => simp only [ok_bind, pure_eq_ok]
  | some d =>
    simp only
    split
    · simp only [ok_bind, pure_eq_ok]
    · cases dictGet? defs (some d) with
      | none => simp only [err_bind]
      | some fd => simp only [ok_bind, pure_eq_ok]

/-- the same for the elements of one record / message, in order -/
theorem C15Defs_fields_leave_table (defs : FieldDefs) :
    ∀ es : List FieldEl, parseFieldsT regNone defs es = (parseFields defs es >>= fun fs => pure (fs, defs))
  | [] => by simp only [parseFieldsT, parseFields, mapE, ok_bind, pure_eq_ok]
  | e :: es => by
      have ih := C15Defs_fields_leave_table defs es
      simp only [parseFields] at ih
      simp only [parseFieldsT, parseFields, mapE, C15Defs_reference_leaves_table]
      cases parseField defs e with
      | error x => simp only [err_bind]
      | ok f =>
        simp only [ok_bind, pure_eq_ok, ih]
        cases mapE (parseField defs) es with
        | error x => simp only [err_bind]
        | ok fs => simp only [ok_bind]

/-- in both directions, as implications: the table that comes out is the table that went in, whatever the elements -/
theorem C15Defs_fields_table_unchanged {defs t : FieldDefs} {es : List FieldEl} {fs : List FieldDef}
    (h : parseFieldsT regNone defs es = .ok (fs, t)) : t = defs ∧ parseFields defs es = .ok fs := by
  rw [C15Defs_fields_leave_table] at h
  cases hp : parseFields defs es with
  | error x => rw [hp] at h; simp only [err_bind] at h; cases h
  | ok fs' =>
    rw [hp] at h
    simp only [ok_bind, pure_eq_ok] at h
    cases h
    exact ⟨rfl, rfl⟩

/-- **Elements standing before do not matter.**  A list of elements behind any other elements `pre` (references renamed
    to whatever name included) parses to what it parses to alone; `pre` contributes its own fields in front. -/
theorem C15Defs_elements_before_irrelevant (defs : FieldDefs) (pre es : List FieldEl) :
    parseFieldsT regNone defs (pre ++ es)
      = (parseFieldsT regNone defs pre >>= fun a => parseFieldsT regNone defs es >>= fun b => pure (a.1 ++ b.1, defs)) := by
  simp only [C15Defs_fields_leave_table, parseFields, mapE_append]
  cases mapE (parseField defs) pre with
  | error x => simp only [err_bind]
  | ok a =>
    simp only [ok_bind, pure_eq_ok]
    cases mapE (parseField defs) es with
    | error x => simp only [err_bind]
    | ok b => simp only [ok_bind]

/-- one `<record>` against a table (the body of the loop in `parse`) -/
private def recOf (defs : FieldDefs) (r : RecordEl) : Except Err (Str × RecordDef) :=
  parseFields defs r.fields >>= fun fs => pure (r.name, (⟨r.name, fs⟩ : RecordDef))

private theorem records_leave_table (defs : FieldDefs) :
    ∀ rs : List RecordEl, parseRecordsT regNone defs rs = (mapE (recOf defs) rs >>= fun out => pure (out, defs))
  | [] => by simp only [parseRecordsT, mapE, ok_bind, pure_eq_ok]
  | r :: rs => by
      simp only [parseRecordsT, mapE, recOf, C15Defs_fields_leave_table]
      cases parseFields defs r.fields with
      | error x => simp only [err_bind]
      | ok fs =>
        simp only [ok_bind, pure_eq_ok, records_leave_table defs rs]
        cases hm : mapE (recOf defs) rs with
        | error x => simp only [err_bind]
        | ok out => simp only [ok_bind]

private theorem parse_eq (override : Bool) (s : Spec) :
    parse override s = (parseFieldDefs s.fielddefs >>= fun defs => mapE (recOf defs) s.records >>= fun recs =>
      parseMessages defs override [] s.messages >>= fun msgs =>
        pure ⟨dictOfList (s.enums.map fun e => (e.name, e)), dictOfList recs, msgs.map (·.2)⟩) := rfl

private theorem messages_leave_table (defs : FieldDefs) (override : Bool) :
    ∀ (es : List MessageEl) (acc : List (Str × MessageDef)), parseMessagesT regNone override defs acc es
      = (parseMessages defs override acc es >>= fun out => pure (out, defs))
  | [], acc => by simp only [parseMessagesT, parseMessages, ok_bind, pure_eq_ok]
  | e :: es, acc => by
      simp only [parseMessagesT, parseMessages, C15Defs_fields_leave_table]
      cases parseFields defs e.fields with
      | error x => simp only [err_bind]
      | ok fs =>
        simp only [ok_bind, pure_eq_ok]
        cases convertMsgId e.msgId with
        | error x => simp only [err_bind]
        | ok id =>
          simp only [ok_bind]
          split
          · simp only [err_bind]
          · exact messages_leave_table defs override es _

/-- **The threaded parser is the model's parser**: same definitions, same failure. -/
theorem C15Defs_threaded_parse (override : Bool) (s : Spec) :
    (parseT regNone override s >>= fun r => pure r.1) = parse override s := by
  rw [parse_eq]
  unfold parseT
  cases parseFieldDefs s.fielddefs with
  | error x => simp only [err_bind]
  | ok defs =>
    simp only [ok_bind, records_leave_table]
    cases mapE (recOf defs) s.records with
    | error x => simp only [err_bind]
    | ok recs =>
      simp only [ok_bind, pure_eq_ok, messages_leave_table]
      cases parseMessages defs override [] s.messages with
      | error x => simp only [err_bind]
      | ok msgs => simp only [ok_bind]

/-- **The table at the end of the file is the table of the `fielddef-root` section** — after every record and every
    message, whatever references they hold. -/
theorem C15Defs_final_table {override : Bool} {s : Spec} {d : Definitions} {t : FieldDefs}
    (h : parseT regNone override s = .ok (d, t)) : parseFieldDefs s.fielddefs = .ok t := by
  unfold parseT at h
  cases hd : parseFieldDefs s.fielddefs with
  | error x => rw [hd] at h; cases h
  | ok defs =>
    rw [hd] at h
    simp only [records_leave_table] at h
    cases hr : mapE (recOf defs) s.records with
    | error x => rw [hr] at h; simp only [err_bind] at h; cases h
    | ok recs =>
      rw [hr] at h
      simp only [ok_bind, pure_eq_ok, messages_leave_table] at h
      cases hm : parseMessages defs override [] s.messages with
      | error x => rw [hm] at h; simp only [err_bind] at h; cases h
      | ok msgs =>
        rw [hm] at h
        simp only [ok_bind] at h
        cases h
        rfl

/-- the generator on top of the threaded parser is the model's generator, for every specification -/
theorem C15Defs_threaded_gen (impl : Impl) (app : Str) (override : Bool) (s : Spec) :
    genT regNone impl app override s = gen impl app override s := by
  unfold genT gen
  rw [← C15Defs_threaded_parse]
  cases parseT regNone override s with
  | error x => simp only [err_bind]
  | ok r => simp only [ok_bind, pure_eq_ok]

/-- … so the main theorem speaks about it -/
theorem C15Defs_threaded_gen_denotes (impl : Impl) (app : Str) (override : Bool) (s : Spec) (h : wfSpec impl s = true) :
    (genT regNone impl app override s >>= evalModule) = denote impl s ∧ ∃ sch, denote impl s = .ok sch := by
  rw [C15Defs_threaded_gen]
  exact C15.C15_gen_denotes_eq impl app override s h

/-! ### the meaning of a field: the enums, the `fielddef-root` section, the record names — nothing else -/

private theorem find_name_congr (n : Str) : ∀ (l l' : List RecordEl), l.map (·.name) = l'.map (·.name) →
    (l.find? fun r => r.name == n).map (·.name) = (l'.find? fun r => r.name == n).map (·.name)
  | [], [], _ => rfl
  | [], _ :: _, h => by cases h
  | _ :: _, [], h => by cases h
  | a :: l, b :: l', h => by
      simp only [List.map_cons, List.cons.injEq] at h
      obtain ⟨hab, hl⟩ := h
      simp only [List.find?_cons, hab]
      cases b.name == n with
      | true => simp only [Option.map_some, hab]
      | false => exact find_name_congr n l l' hl

private theorem docElemTy_congr {s s' : Spec} (he : s.enums = s'.enums)
    (hr : s.records.map (·.name) = s'.records.map (·.name)) (f : FieldEl) : docElemTy s f = docElemTy s' f := by
  have hrec : ∀ n, (findRecord? s n).map (·.name) = (findRecord? s' n).map (·.name) :=
    fun n => find_name_congr n _ _ hr
  have hen : ∀ n, findEnum? s n = findEnum? s' n := fun n => by unfold findEnum?; rw [he]
  unfold docElemTy
  cases f.ty with
  | none => rfl
  | some t =>
    simp only
    split
    · rename_i k n _
      simp only [hen]
      split
      · rfl
      · split
        · have := hrec n
          cases h1 : findRecord? s n <;> cases h2 : findRecord? s' n <;> simp only [h1, h2, Option.map_some, Option.map_none] at this
          · rfl
          · cases this
          · cases this
          · simp only [Option.some.injEq] at this
            simp only [this]
        · rfl
    · rfl

/-- **The meaning of a `<field>` is local.**  Two specifications with the same enums, the same `fielddef-root` section
    and the same record names give every field element the same meaning — their records and messages may hold any
    fields at all: more, fewer or other renaming references, in any order, before or after this one. -/
theorem C15Defs_field_meaning_is_local {s s' : Spec} (he : s.enums = s'.enums) (hd : s.fielddefs = s'.fielddefs)
    (hr : s.records.map (·.name) = s'.records.map (·.name)) (f0 : FieldEl) :
    denoteField s f0 = denoteField s' f0 := by
  have hres : resolveDef s f0 = resolveDef s' f0 := by unfold resolveDef findDef?; rw [hd]
  unfold denoteField
  rw [hres]
  cases resolveDef s' f0 with
  | error e => rfl
  | ok f =>
    simp only
    unfold denoteResolved
    rw [docElemTy_congr he hr f]

/-- in particular: replacing the field lists of all records and messages changes no field's meaning -/
theorem C15Defs_other_fields_irrelevant (s : Spec) (recFields : RecordEl → List FieldEl) (msgFields : MessageEl → List FieldEl)
    (f0 : FieldEl) :
    denoteField { s with records := s.records.map (fun r => { r with fields := recFields r }),
                         messages := s.messages.map (fun g => { g with fields := msgFields g }) } f0
      = denoteField s f0 :=
  C15Defs_field_meaning_is_local (s := { s with records := s.records.map (fun r => { r with fields := recFields r }),
                                                messages := s.messages.map (fun g => { g with fields := msgFields g }) })
    (s' := s) rfl rfl (by simp only [List.map_map, Function.comp_def]) f0

private theorem denoteResolved_rename (s : Spec) (f : FieldEl) (n m : Str) {x : FieldS}
    (h : denoteResolved s { f with name := some n } = .ok x) :
    denoteResolved s { f with name := some m } = .ok { x with name := m } := by
  unfold denoteResolved at h ⊢
  have e1 : docElemTy s { f with name := some n } = docElemTy s f := rfl
  have e2 : docElemTy s { f with name := some m } = docElemTy s f := rfl
  rw [e1] at h
  rw [e2]
  cases hd : docElemTy s f with
  | error e => rw [hd] at h; cases h
  | ok td =>
    obtain ⟨t, dom⟩ := td
    rw [hd] at h
    simp only at h ⊢
    cases ha : f.array with
    | some a =>
      simp only [ha] at h ⊢
      cases hdf : f.dflt with
      | some v => simp only [hdf] at h; cases h
      | none => simp only [hdf] at h ⊢; cases h; rfl
    | none =>
      simp only [ha] at h ⊢
      cases hdf : f.dflt with
      | none => simp only [hdf] at h ⊢; cases h; rfl
      | some v =>
        simp only [hdf] at h ⊢
        cases dom with
        | none => simp only at h; cases h
        | some k =>
          simp only at h ⊢
          cases hv : docValue k v with
          | error e => rw [hv] at h; cases h
          | ok dv => rw [hv] at h; simp only at h ⊢; cases h; rfl

/-- **A field declared by reference has the type and default of the definition it names**: whenever the field has a
    meaning at all, its type and default are `meaningOf` — computed from the definition in the `fielddef-root` section
    without looking at the reference's name. -/
theorem C15Defs_reference_means_definition {s : Spec} (hw : wfFieldDefs s = true) {f0 : FieldEl} {x : FieldS}
    (h : denoteField s f0 = .ok x) : meaningOf s f0 = some (x.ty, x.dflt) := by
  unfold denoteField resolveDef at h
  unfold meaningOf
  cases hdn : f0.defn with
  | none =>
    rw [hdn] at h
    simp only at h ⊢
    rw [h]
    rfl
  | some d =>
    rw [hdn] at h
    simp only at h ⊢
    cases hf : findDef? s d with
    | none => rw [hf] at h; cases h
    | some base =>
      rw [hf] at h
      simp only at h ⊢
      -- the definition is named (`wfFieldDefs`)
      have hmem : base ∈ s.fielddefs := List.mem_of_find?_eq_some hf
      simp only [wfFieldDefs, Bool.and_eq_true, List.all_eq_true] at hw
      have hnm := (hw.1 base hmem).2
      obtain ⟨bn, hbn⟩ := Option.isSome_iff_exists.mp hnm
      have hbase : base = { base with name := some bn } := by cases base; simp_all
      have hname : nameOr f0.name base.name = some ((nameOr f0.name base.name).getD []) := by
        rw [hbn]; cases f0.name <;> rfl
      rw [hname] at h
      have := denoteResolved_rename s base _ bn h
      rw [← hbase] at this
      rw [this]
      rfl

/-- **Generated code.**  For every well-formed specification the generator succeeds, the module imports, and the type
    and the default of every field of every record class and every message class, position by position, are
    `meaningOf`: for a field declared by reference those of the definition of that name in the `fielddef-root` section,
    wherever the element stands and whatever stands before it. -/
theorem C15Defs_generated_fields_meaning (impl : Impl) (app : Str) (override : Bool) (s : Spec) (h : wfSpec impl s = true) :
    ∃ m sch, gen impl app override s = .ok m ∧ evalModule m = .ok sch
      ∧ sch.records.map (fun r => r.fields.map fun x => some (x.ty, x.dflt)) = s.records.map (fun r => r.fields.map (meaningOf s))
      ∧ sch.messages.map (fun g => g.fields.map fun x => some (x.ty, x.dflt)) = s.messages.map (fun g => g.fields.map (meaningOf s)) := by
  obtain ⟨h1, h2, h3⟩ := gen_eval_denote app override h
  have hw := wfSpec_inv h
  have hfd : wfFieldDefs s = true := by
    simp only [wfSpec, Bool.and_eq_true] at h
    exact h.1.1.1.1.2
  -- every field of every record and message has a meaning (from `denote impl s = .ok …`)
  unfold denote at h3
  obtain ⟨_, _, h3⟩ := bind_ok_inv h3
  obtain ⟨recs, hrecs, h3⟩ := bind_ok_inv h3
  obtain ⟨msgs, hmsgs, _⟩ := bind_ok_inv h3
  have key : ∀ f0, (∃ b, denoteField s f0 = .ok b) → some ((fieldSem s f0).ty, (fieldSem s f0).dflt) = meaningOf s f0 := by
    intro f0 ⟨b, hb⟩
    have : fieldSem s f0 = b := getOk_eq hb
    rw [this]
    exact (C15Defs_reference_means_definition hfd hb).symm
  refine ⟨_, _, h1, h2, ?_, ?_⟩
  · simp only [specSchema, List.map_map]
    apply List.map_congr_left
    intro r hr
    simp only [Function.comp_apply, recSem, List.map_map]
    apply List.map_congr_left
    intro f0 hf0
    obtain ⟨_, hb⟩ := mapE_mem hrecs r hr
    obtain ⟨fs, hfs, _⟩ := bind_ok_inv hb
    exact key f0 (mapE_mem hfs f0 hf0)
  · simp only [specSchema, List.map_map]
    apply List.map_congr_left
    intro g hg
    simp only [Function.comp_apply, msgSem, List.map_map]
    apply List.map_congr_left
    intro f0 hf0
    obtain ⟨_, hb⟩ := mapE_mem hmsgs g hg
    unfold denoteMessage at hb
    obtain ⟨_, _, hb⟩ := bind_ok_inv hb
    obtain ⟨fs, hfs, _⟩ := bind_ok_inv hb
    exact key f0 (mapE_mem hfs f0 hf0)

/-! ### non-vacuity -/

open NasdaqModel.Witness.C15Defs (shadow shadowInRecord ack cancel reject refTo refAs) in
/-- the specifications of `Witness/C15Defs.lean` are well-formed; on `shadow` the field `id` declared by reference in
    `Reject` means 4 bytes although `Cancel` renames `orderId` (8 bytes) to `id` before it, and the threaded parser ends
    with the three definitions of the `fielddef-root` section -/
example : wfSpec .itch shadow = true ∧ wfSpec .sqf shadowInRecord = true
    ∧ meaningOf shadow (refTo "id") = some (.prim .uint4, none)
    ∧ meaningOf shadow (refAs "id" "orderId") = some (.prim .uint8, none)
    ∧ (∃ d t, parseT regNone true shadow = .ok (d, t) ∧ t.map (·.1) = [some (cp "orderId"), some (cp "id"), some (cp "quantity")])
    ∧ (∃ d t, parseT regRename true shadow = .ok (d, t)
        ∧ (dictGet? t (some (cp "id"))).map (·.ty) = some (some (cp "uint_8"))) := by
  refine ⟨by decide, by decide, by decide, by decide, ⟨_, _, rfl, by decide⟩, ⟨_, _, rfl, by decide⟩⟩

end NasdaqModel.Props.C15Defs
