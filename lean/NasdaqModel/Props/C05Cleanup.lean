import NasdaqModel.Lemmas.SessionLemmas5
/-
C05 — a callback whose cancellation clean-up awaits `session.close()` cannot deadlock the close.

`AsyncSession.close()` is `if not self._closed: self._closed = True; <stop queue, monitors, reader>; transport.close(); callback`.
The closer cancels and AWAITS the task that runs a message callback (the dispatcher).  If that callback reacts to its cancellation
with `await session.close()` (`except CancelledError: await session.close(); raise`, or the `finally:` form), the call must return
at once — a `close()` that waited for the running close there would wait for a task that is waiting for it.

The session machine (`Model/Session.lean`) has no handler program "on cancel: call close()" (a cancelled `Prog.handler` ends with
`msgAbandon`), so the behaviour itself is exercised by the oracle-only scenarios of `harness/sess_r7.py`.  What the model does
carry is the guard of `close()` (`enterClose`) and the invariants of the reachable states; the theorems below state, for every
configuration and every event sequence, that at the moment any task is being awaited by a closer the guard is already set and a
`close()` awaited by that task is the identity on the close stage and continues the caller in the same step.
Only property theorems and non-vacuity examples live here.
-/
namespace NasdaqModel.Props.C05Cleanup
open NasdaqModel Sess

/-- the state reached from a fresh session by an arbitrary event sequence -/
abbrev reach (cfg : Cfg) (evs : List Ev) : St := runEvs cfg {} evs

/-- **`close()` on a session whose `_closed` flag is set does nothing and does not wait**: whoever the caller is (a task, a
    callback, the cancellation clean-up of a callback), it continues at once with what follows the call; no stage of the close
    body is run and the stage of the close in progress is untouched. -/
theorem C05Cleanup_close_on_closed_is_immediate (cfg : Cfg) (s : St) (t : Tid) (c : Cont) (hc : s.closed = true) :
    enterClose cfg s t c = runCont s t c ∧ (enterClose cfg s t c).cstage = s.cstage ∧ (enterClose cfg s t c).closed = true := by
  have h : enterClose cfg s t c = runCont s t c := by unfold enterClose; rw [if_pos hc]
  refine ⟨h, ?_, ?_⟩
  · rw [h]; cases c <;> rfl
  · rw [h, runCont_closed]; exact hc

/-- **A task the closer is waiting for can itself await `close()`.** In every reachable state in which the close body is in
    progress and the closer `t` is suspended awaiting another task `x` (the dispatcher inside a message callback, a monitor, the
    receive helper, the reader), `x` has its `CancelledError` pending, the session already reports closed, and a `close()`
    awaited by `x` — from the callback's cancellation clean-up — returns to `x` in the same step, leaving the close stage of `t`
    as it is.  So the close never waits for a task that waits for the close. -/
theorem C05Cleanup_awaited_task_may_close (cfg : Cfg) (evs : List Ev) (t x : Tid) (pc : Nat) (c c' : Cont)
    (hs : (reach cfg evs).cstage = .body t pc c) (hw : (reach cfg evs).status t = .waitT x) :
    (reach cfg evs).status x = .cancelled ∧ (reach cfg evs).closed = true ∧
    enterClose cfg (reach cfg evs) x c' = runCont (reach cfg evs) x c' ∧
    (enterClose cfg (reach cfg evs) x c').cstage = .body t pc c := by
  have h3 : InvA cfg (reach cfg evs) ∧ InvR (reach cfg evs) ∧ InvB (reach cfg evs) := runEvs_InvARB cfg evs
  generalize reach cfg evs = s at *
  obtain ⟨a, _, b⟩ := h3
  have hc : s.closed = true := a.closed_iff.mpr (by rw [hs]; simp)
  obtain ⟨h1, h2, _⟩ := C05Cleanup_close_on_closed_is_immediate cfg s x c' hc
  exact ⟨(b.bwait t pc c x hs hw).2, hc, h1, by rw [h2, hs]⟩

/-- … and the closer it was waiting for is still able to go on: after the awaited task's `close()` returned, the session is in a
    state in which the close body is in progress, so (`C05_close_never_deadlocks`' premise) some task can take its next step. -/
theorem C05Cleanup_close_stays_in_progress (cfg : Cfg) (evs : List Ev) (t x : Tid) (pc : Nat) (c c' : Cont)
    (hs : (reach cfg evs).cstage = .body t pc c) (hw : (reach cfg evs).status t = .waitT x) :
    (enterClose cfg (reach cfg evs) x c').cstage ≠ .idle ∧ (enterClose cfg (reach cfg evs) x c').cstage ≠ .finished := by
  rw [(C05Cleanup_awaited_task_may_close cfg evs t x pc c c' hs hw).2.2.2]
  exact ⟨by simp, by simp⟩

/-! ### non-vacuity: a user's `close()` while the dispatcher is inside a message callback -/

private def cfgBusy : Cfg :=
  { msgBeh := fun _ => .await 5, cbBeh := .ret, hasCb := true, dispatchOnConnect := true, hasMsgCb := true, fixLogin := false }

private def inFlight : List Ev := [.connect, .run .D, .data [.msg 3], .run .R, .run .D, .callClose 1]

/-- the callback for message 3 is in flight, user 1's `close()` has cancelled the dispatcher and awaits it -/
example : (reach cfgBusy inFlight).trace = [.msgEnter 3] ∧ (reach cfgBusy inFlight).status (.U 1) = .waitT .D ∧
    (reach cfgBusy inFlight).status .D = .cancelled ∧ (∃ c, (reach cfgBusy inFlight).cstage = .body (.U 1) 1 c) := by
  refine ⟨by decide, by decide, by decide, ⟨.userTail 1 .ok, by decide⟩⟩

/-- the premises of `C05Cleanup_awaited_task_may_close` hold there -/
example : (reach cfgBusy inFlight).cstage = .body (.U 1) 1 (.userTail 1 .ok) ∧ (reach cfgBusy inFlight).status (.U 1) = .waitT .D := by
  constructor <;> decide

/-- and the close then runs to its end: the callback is abandoned, the transport closed, the close callback runs once, `close()` returns -/
example : (reach cfgBusy (inFlight ++ [.run .D, .run (.U 1), .run .R, .run (.U 1), .run (.U 1), .run (.U 1), .run (.U 1)])).cstage = .finished := by
  decide

end NasdaqModel.Props.C05Cleanup
