import NasdaqModel.Lemmas.RefineProgress
import NasdaqModel.Lemmas.RefineWf
import NasdaqModel.Props.C07
/-
C07 at byte level — "never open and deaf" for every BYTE sequence a peer can send.

`Props/C07.lean` proves it for the session machine, where a malformed frame is the token `bad`; `Props/C07Framing.lean` proves
that the byte-level reader (`deserialize()` on arbitrary bytes) cannot spin.  Here the two are joined through the refinement
(`Props/C04Bytes.lean`; vocabulary in Model/Refine.lean): one byte-level history `evs` drives the byte-level reader and the
session machine together (`brun`), the token the session machine sees as `bad` IS an exception of `deserialize()` on the bytes.
-/
namespace NasdaqModel.Props.C07Bytes
open NasdaqModel Py Refine
open NasdaqModel.Framing (Proto R Consuming Settled soupProto fixProtoD)
open NasdaqModel.Sess (St Cfg Frame Tid atLoop)

variable {μ : Type}

/-- **Never open and deaf, over bytes.**  After every byte-level history of a connected session — any (stable) byte stream,
    any segmentation, any schedule of tasks and user calls, any configuration — `len(buffer)` further polls of the reader task
    leave the session either CLOSED, or OPEN with the reader task alive at the top of its loop (`_stopped` false), the byte
    buffer settled (empty, or an incomplete frame waiting for its announced length), no complete frame left unconsumed, and every
    decodable message carried by the bytes received handed on to the queue side. -/
theorem C07_bytes_never_deaf {P : Proto μ} {st : Bytes → Bool} (F : Framer P st) (num : μ → Nat) (cfg : Cfg) (evs : List BEv)
    (hs : stable P st (bytesOf evs) = true) (hconn : (brun P num cfg evs).s.status .R ≠ .absent) (n : Nat)
    (hn : (brun P num cfg evs).r.buf.length ≤ n) :
    (bfold P num cfg (brun P num cfg evs) (pollsN n)).s.closed = true ∨
    ((bfold P num cfg (brun P num cfg evs) (pollsN n)).s.closed = false ∧
      Settled P (bfold P num cfg (brun P num cfg evs) (pollsN n)).r ∧
      (bfold P num cfg (brun P num cfg evs) (pollsN n)).r.stopped = false ∧
      (bfold P num cfg (brun P num cfg evs) (pollsN n)).s.buf = [] ∧
      atLoop (bfold P num cfg (brun P num cfg evs) (pollsN n)).s ∧
      (bfold P num cfg (brun P num cfg evs) (pollsN n)).s.rStopped = false ∧
      (bfold P num cfg (brun P num cfg evs) (pollsN n)).r.out = carried P (bytesOf evs) ∧
      (bfold P num cfg (brun P num cfg evs) (pollsN n)).s.recvd = (carried P (bytesOf evs)).map num) :=
  never_deaf F num cfg evs hs hconn n hn

/-- **Never open behind an unparsable frame.**  In every reachable state: once the byte-level reader has stopped — it consumed
    a logout, or `deserialize()` raised on the bytes — the session is flagged closed (and stays so: `C07_closed_is_final`). -/
theorem C07_bytes_stopped_is_closed {P : Proto μ} {st : Bytes → Bool} (F : Framer P st) (num : μ → Nat) (cfg : Cfg)
    (evs : List BEv) (hs : stable P st (bytesOf evs) = true) (h : (brun P num cfg evs).r.stopped = true) :
    (brun P num cfg evs).s.closed = true :=
  stopped_closed F num cfg evs hs h

/-- **The poll that meets the malformed bytes closes the session.**  In every reachable state in which the reader task is about
    to poll and `deserialize()` raises on the buffered bytes, that very poll sets the closed flag. -/
theorem C07_bytes_crash_closes {P : Proto μ} {st : Bytes → Bool} (F : Framer P st) (num : μ → Nat) (cfg : Cfg) (evs : List BEv)
    (hs : stable P st (bytesOf evs) = true) (hp : polls (brun P num cfg evs).s = true)
    (hst : (brun P num cfg evs).r.stopped = false) (hb : (brun P num cfg evs).r.buf ≠ []) (e : Err)
    (hd : P.deser (brun P num cfg evs).r.buf = .error e) :
    (bstep P num cfg (brun P num cfg evs) (.ev (.run .R))).s.closed = true := by
  have h := brun_pinv F num cfg evs hs
  have h1 := h.step F num cfg (.ev (.run .R)) (by rw [bstep_ev_all, brun_all]; exact hs)
  refine (h1.rel.dead ?_).2
  rw [bstep_run_R, hp]
  have hl : ¬ (brun P num cfg evs).r.buf.length = 0 := fun h0 => hb (List.eq_nil_of_length_eq_zero h0)
  simp [Framing.step, Framing.stepObs, hst, hl, hd]

/-- **SoupBinTCP: for EVERY byte sequence a peer can send** -/
theorem C07_bytes_soup_never_deaf (num : Soup.Pkt → Nat) (cfg : Cfg) (evs : List BEv)
    (hconn : (brun soupProto num cfg evs).s.status .R ≠ .absent) (n : Nat)
    (hn : (brun soupProto num cfg evs).r.buf.length ≤ n) :
    (bfold soupProto num cfg (brun soupProto num cfg evs) (pollsN n)).s.closed = true ∨
    ((bfold soupProto num cfg (brun soupProto num cfg evs) (pollsN n)).s.closed = false ∧
      Settled soupProto (bfold soupProto num cfg (brun soupProto num cfg evs) (pollsN n)).r ∧
      (bfold soupProto num cfg (brun soupProto num cfg evs) (pollsN n)).s.buf = [] ∧
      atLoop (bfold soupProto num cfg (brun soupProto num cfg evs) (pollsN n)).s ∧
      (bfold soupProto num cfg (brun soupProto num cfg evs) (pollsN n)).s.rStopped = false ∧
      (bfold soupProto num cfg (brun soupProto num cfg evs) (pollsN n)).s.recvd = (carried soupProto (bytesOf evs)).map num) := by
  rcases never_deaf soupFramer num cfg evs (soup_stable _) hconn n hn with h | ⟨h1, h2, _, h4, h5, h6, _, h8⟩
  · exact Or.inl h
  · exact Or.inr ⟨h1, h2, h4, h5, h6, h8⟩

theorem C07_bytes_soup_stopped_is_closed (num : Soup.Pkt → Nat) (cfg : Cfg) (evs : List BEv)
    (h : (brun soupProto num cfg evs).r.stopped = true) : (brun soupProto num cfg evs).s.closed = true :=
  stopped_closed soupFramer num cfg evs (soup_stable _) h

/-- **FIX (reader with the dictionary dispatch, any dictionary, any field decoder): for EVERY byte sequence a peer can send** —
    since the repair 658ee1f a negative BodyLength is a malformed frame like any other (before it the frames depended on
    arrival timing, `Witness/C04Bytes.lean`). -/
theorem C07_bytes_fix_never_deaf (known : Bytes → Bool) (decode : Bytes → Except Err Unit)
    (num : Bytes → Nat) (cfg : Cfg) (evs : List BEv)
    (hconn : (brun (fixProtoD known decode) num cfg evs).s.status .R ≠ .absent) (n : Nat)
    (hn : (brun (fixProtoD known decode) num cfg evs).r.buf.length ≤ n) :
    (bfold (fixProtoD known decode) num cfg (brun (fixProtoD known decode) num cfg evs) (pollsN n)).s.closed = true ∨
    ((bfold (fixProtoD known decode) num cfg (brun (fixProtoD known decode) num cfg evs) (pollsN n)).s.closed = false ∧
      Settled (fixProtoD known decode) (bfold (fixProtoD known decode) num cfg (brun (fixProtoD known decode) num cfg evs) (pollsN n)).r ∧
      (bfold (fixProtoD known decode) num cfg (brun (fixProtoD known decode) num cfg evs) (pollsN n)).s.buf = [] ∧
      atLoop (bfold (fixProtoD known decode) num cfg (brun (fixProtoD known decode) num cfg evs) (pollsN n)).s ∧
      (bfold (fixProtoD known decode) num cfg (brun (fixProtoD known decode) num cfg evs) (pollsN n)).s.rStopped = false ∧
      (bfold (fixProtoD known decode) num cfg (brun (fixProtoD known decode) num cfg evs) (pollsN n)).s.recvd =
        (carried (fixProtoD known decode) (bytesOf evs)).map num) := by
  rcases never_deaf (fixFramer known decode) num cfg evs (fix_stable _ _) hconn n hn with h | ⟨h1, h2, _, h4, h5, h6, _, h8⟩
  · exact Or.inl h
  · exact Or.inr ⟨h1, h2, h4, h5, h6, h8⟩

theorem C07_bytes_fix_stopped_is_closed (known : Bytes → Bool) (decode : Bytes → Except Err Unit) (num : Bytes → Nat)
    (cfg : Cfg) (evs : List BEv) (h : (brun (fixProtoD known decode) num cfg evs).r.stopped = true) :
    (brun (fixProtoD known decode) num cfg evs).s.closed = true :=
  stopped_closed (fixFramer known decode) num cfg evs (fix_stable _ _) h

/-! ### non-vacuity -/

private def cfg0 : Cfg :=
  { msgBeh := fun _ => .ret, cbBeh := .ret, hasCb := true, dispatchOnConnect := false, hasMsgCb := false, fixLogin := false }
private def numS : Soup.Pkt → Nat
  | .seqData d => 100 + d.length
  | _ => 0

/-- a data packet, a zero-length packet (malformed), a heartbeat — all in one segment, nothing polled yet -/
private def hostile : List BEv := [.ev .connect, .bytes [0, 2, 83, 7, 0, 0, 0, 1, 72]]
example : (brun soupProto numS cfg0 hostile).s.status .R ≠ .absent := by decide
example : (brun soupProto numS cfg0 hostile).s.closed = false ∧ (brun soupProto numS cfg0 hostile).s.buf = [.msg 101, .bad] := by
  decide
-- one poll: the valid packet is queued, the session is open; the second poll meets the malformed bytes and closes
example : (bfold soupProto numS cfg0 (brun soupProto numS cfg0 hostile) (pollsN 1)).s.closed = false ∧
    (bfold soupProto numS cfg0 (brun soupProto numS cfg0 hostile) (pollsN 1)).s.queue = [101] := by decide
example : (bfold soupProto numS cfg0 (brun soupProto numS cfg0 hostile) (pollsN 2)).s.closed = true ∧
    (bfold soupProto numS cfg0 (brun soupProto numS cfg0 hostile) (pollsN 2)).r.stopped = true ∧
    (bfold soupProto numS cfg0 (brun soupProto numS cfg0 hostile) (pollsN 2)).r.failed = some .invalidSoup := by decide
/-- a data packet and half of the next one: after the polls the session is open, the reader alive, the half packet waits -/
private def partialEvs : List BEv := [.ev .connect, .bytes [0, 2, 83, 7, 0, 9, 83]]
example : (bfold soupProto numS cfg0 (brun soupProto numS cfg0 partialEvs) (pollsN 7)).s.closed = false ∧
    (bfold soupProto numS cfg0 (brun soupProto numS cfg0 partialEvs) (pollsN 7)).r.buf = [0, 9, 83] ∧
    (bfold soupProto numS cfg0 (brun soupProto numS cfg0 partialEvs) (pollsN 7)).s.recvd = [101] ∧
    (bfold soupProto numS cfg0 (brun soupProto numS cfg0 partialEvs) (pollsN 7)).s.buf = [] := by decide

/-- FIX, `8=FIX.4.4|9=-25|35=M|1=7|2=x|ZZ` (negative BodyLength): whether the reader polls between the two segments or after
    both, the session closes with `ValueError` and nothing is handed on -/
private def fx1 : Bytes := [56,61,70,73,88,46,52,46,52,1, 57,61,45,50,53,1, 51,53,61,77,1, 49,61,55,1, 50,61]
private def fx2 : Bytes := [120,1, 90,90]
private def fxP : Proto Bytes := fixProtoD (fun ty => ty == [48] || ty == [53] || ty == [77]) (fun _ => .ok ())
example : (brun fxP (fun _ => 7) cfg0 [.ev .connect, .bytes fx1, .ev (.run .R), .bytes fx2, .ev (.run .R)]).s.closed = true ∧
    (brun fxP (fun _ => 7) cfg0 [.ev .connect, .bytes fx1, .ev (.run .R), .bytes fx2, .ev (.run .R)]).r.failed = some .value ∧
    (brun fxP (fun _ => 7) cfg0 [.ev .connect, .bytes fx1, .ev (.run .R), .bytes fx2, .ev (.run .R)]).r.out = [] := by decide
example : (brun fxP (fun _ => 7) cfg0 [.ev .connect, .bytes fx1, .bytes fx2, .ev (.run .R)]).s.closed = true ∧
    (brun fxP (fun _ => 7) cfg0 [.ev .connect, .bytes fx1, .bytes fx2, .ev (.run .R)]).r.failed = some .value ∧
    (brun fxP (fun _ => 7) cfg0 [.ev .connect, .bytes fx1, .bytes fx2, .ev (.run .R)]).r.out = [] := by decide

end NasdaqModel.Props.C07Bytes
