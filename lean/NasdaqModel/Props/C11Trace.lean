import NasdaqModel.Lemmas.LoginTraceU
import NasdaqModel.Props.C05
import NasdaqModel.Props.C11
/-
C11 — login either yields a working session or fails cleanly: **whole attempts**.

`Props/C11.lean` has the step lemmas (one `step` from a state satisfying local hypotheses).  Here every clause of the property is
proved of the trace and the state reached by an **arbitrary event list from the fresh session** (`reach cfg evs`): any reply
stream, segmentation, disconnect offset, cancellation phase, any interleaving with unrelated user calls, other user tasks, monitors
tripping, data arriving before and after — for every configuration (`fixLogin` is a field of `cfg`; the machine's login procedure is
the same for soup and FIX after commits f00cdb5 / 3767366 / f58394d, so every theorem holds for both).

"`u` is a login caller" is read off the event list: `loginCaller u evs` — task `u` makes no call other than `login()` (user tasks
are single-use in the model; `ret u r` is then the outcome of that `login()`, and it exists only if `callLogin u` occurred:
`C11_outcome_needs_call`).  "X occurs before Y" is stated as: whenever the trace splits as `l1 ++ Y :: l2`, X is in `l1`.
Because every theorem holds for every `evs`, it holds for every prefix of a run — e.g. `C11_outcomes` gives "`cancel u` occurred
before the attempt returned `cancelled`" when instantiated with the shortest prefix whose trace contains that `ret`.
-/
namespace NasdaqModel.Props.C11Trace
open NasdaqModel Sess

abbrev reach (cfg : Cfg) (evs : List Ev) : St := runEvs cfg {} evs

/-- task `u` is used for `login()` only -/
def loginCaller (u : Nat) (evs : List Ev) : Prop :=
  ∀ ev ∈ evs, ev ≠ .callClose u ∧ ev ≠ .callRecv u ∧ ev ≠ .callRecvNowait u

instance (u : Nat) (evs : List Ev) : Decidable (loginCaller u evs) := by unfold loginCaller; infer_instance

private theorem inv (cfg : Cfg) (u : Nat) (evs : List Ev) (hu : loginCaller u evs) :
    LoginInv cfg u (Ev.callSend ∈ evs) (Ev.callLogout ∈ evs) (Ev.cancel u ∈ evs) (Ev.callLogin u ∈ evs) False False (reach cfg evs) :=
  runEvs_LoginInv cfg u evs hu

private theorem split_of_mem {o : Obs} {l : List Obs} (h : o ∈ l) : ∃ l1 l2, l = l1 ++ o :: l2 := List.append_of_mem h

/-! ### 1. the outcomes of an attempt -/

/-- **Outcomes.** Whatever happens, a `login()` ends — if it ends — in one of four ways: it returns the session, it raises the
    connection-refused error, the caller's cancellation propagates, or (API misuse, see below) it raises `StateError`.
    And it ends `cancelled` only if the caller asked for that: a `cancel u` event occurred. -/
theorem C11_outcomes (cfg : Cfg) (evs : List Ev) (u : Nat) (r : Res) (hu : loginCaller u evs)
    (h : Obs.ret u r ∈ (reach cfg evs).trace) :
    (r = .ok ∨ r = .refused ∨ r = .cancelled ∨ r = .state) ∧ (r = .cancelled → Ev.cancel u ∈ evs) := by
  have i := (inv cfg u evs hu).u
  obtain ⟨l1, l2, e⟩ := split_of_mem h
  exact ⟨(i.rets l1 _ l2 e r rfl).1, fun hr => i.rcan (hr ▸ h)⟩

/-- an outcome exists only for a call that was made -/
theorem C11_outcome_needs_call (cfg : Cfg) (evs : List Ev) (u : Nat) (r : Res) (hu : loginCaller u evs)
    (h : Obs.ret u r ∈ (reach cfg evs).trace) : Ev.callLogin u ∈ evs := by
  have i := (inv cfg u evs hu).u
  exact i.called (i.retst r h)

/-- **`StateError` only when dispatching is already on.** If the attempt ends with `state`, a message callback is configured and
    dispatching had been switched on before the call: by the configuration (`dispatchOnConnect`), or by an earlier login that
    consumed an acceptance and returned the session (`loginReply 0` immediately followed by `ret u' ok` earlier in the trace). -/
theorem C11_state_only_when_dispatching (cfg : Cfg) (evs : List Ev) (u : Nat) (hu : loginCaller u evs) (l1 l2 : List Obs)
    (e : (reach cfg evs).trace = l1 ++ Obs.ret u .state :: l2) :
    cfg.hasMsgCb = true ∧ (cfg.dispatchOnConnect = true ∨ AcceptedIn l1) :=
  ((inv cfg u evs hu).u.rets l1 _ l2 e .state rfl).2.2 rfl

/-- **Client configuration, first login: never `StateError`.** With `dispatchOnConnect = false`, a login attempt made before any
    acceptance was consumed does not end with `state`. -/
theorem C11_no_state_before_first_accept (cfg : Cfg) (evs : List Ev) (u : Nat) (hu : loginCaller u evs)
    (hc : cfg.dispatchOnConnect = false) (l1 l2 : List Obs) (hno : Obs.loginReply 0 ∉ l1) :
    (reach cfg evs).trace ≠ l1 ++ Obs.ret u .state :: l2 := by
  intro e
  rcases (C11_state_only_when_dispatching cfg evs u hu l1 l2 e).2 with h | ⟨a, b, u', h⟩
  · rw [hc] at h; simp at h
  · exact hno (by rw [h]; simp)

/-- precisely when it happens: a `login()` call that gets past the guards of the model (fresh user task, no receive pending)
    writes its request and ends at once with `state` exactly if dispatching is on at that moment -/
theorem C11_state_iff_dispatching (cfg : Cfg) (s : St) (u : Nat) (hu : s.status (.U u) = .absent)
    (hb : s.rcvBusy = false) (hv : alive (s.status .V) = false) (hres : s.vres = none) :
    (step cfg s (.callLogin u)).trace = s.trace ++ [.write .login, .ret u .state] ↔ s.dispSet = true := by
  simp only [step, hu, hb, hv, bne_self_eq_false, Bool.or_self, Bool.false_eq_true, if_false]
  unfold startRecv
  simp only [St.emit, hb, hv, hres, Option.isSome_none, Bool.or_self, Bool.false_eq_true, if_false]
  constructor
  · intro h
    apply Classical.byContradiction
    intro hd
    simp only [hd, if_false] at h
    split at h
    · simp [St.setStatus, St.setProg] at h
    · split at h
      · simp [St.setStatus] at h
      · simp [St.setStatus, St.setProg, St.spawn] at h
  · intro hd
    simp [hd, St.setStatus]

/-! ### 2. the attempt returns the session -/

/-- **Reply after request.** Whenever `login()` consumes a reply, the login request was written before. -/
theorem C11_reply_after_request (cfg : Cfg) (evs : List Ev) (l1 l2 : List Obs) (n : Nat)
    (e : (reach cfg evs).trace = l1 ++ Obs.loginReply n :: l2) : Obs.write .login ∈ l1 :=
  (runEvs_InvT cfg evs).reply l1 _ l2 e n rfl

/-- **First bytes.** Client configuration: the first write of a session is the login request — unless the user itself sent
    application data or logged out earlier (then that is the first write, and the corresponding call is in the event list). -/
theorem C11_first_write_is_login (cfg : Cfg) (evs : List Ev) (hc : cfg.dispatchOnConnect = false) (l1 l2 : List Obs) (k : WKind)
    (e : (reach cfg evs).trace = l1 ++ Obs.write k :: l2) (hfirst : ∀ k', Obs.write k' ∉ l1) :
    k = .login ∨ (k = .data ∧ Ev.callSend ∈ evs) ∨ (k = .logout ∧ Ev.callLogout ∈ evs) := by
  have i := runEvs_InvT cfg evs
  have hm : Obs.write k ∈ (reach cfg evs).trace := by rw [e]; simp
  rcases i.fw hc l1 _ l2 e k rfl hfirst with h | h | h
  · exact Or.inl h
  · subst h; exact Or.inr (Or.inl ⟨rfl, i.sent hm⟩)
  · subst h; exact Or.inr (Or.inr ⟨rfl, i.logged hm⟩)

/-- **Active.** If the attempt of login caller `u` returns the session, then in the trace before that return:
    (a) the login request was written; (b) the acceptance was consumed — `loginReply 0` is the observable immediately before
    `ret u ok`; (c) no message callback was entered; (e) the transport was not closed.
    And (d) both heartbeat monitors have been started; while the session stays open they are running. -/
theorem C11_active (cfg : Cfg) (evs : List Ev) (u : Nat) (hu : loginCaller u evs) (l1 l2 : List Obs)
    (e : (reach cfg evs).trace = l1 ++ Obs.ret u .ok :: l2) :
    Obs.write .login ∈ l1 ∧ (∃ l0, l1 = l0 ++ [Obs.loginReply 0]) ∧ (∀ n, Obs.msgEnter n ∉ l1) ∧ Obs.tclose ∉ l1 ∧
    ((reach cfg evs).status .L ≠ .absent ∧ (reach cfg evs).status .M ≠ .absent) ∧
    ((reach cfg evs).closed = false → (reach cfg evs).status .L = .ready ∧ (reach cfg evs).status .M = .ready) := by
  have i := inv cfg u evs hu
  obtain ⟨h1, h2, h3, h4⟩ := (i.u.rets l1 _ l2 e .ok rfl).2.1 rfl
  have hm : Obs.ret u .ok ∈ (reach cfg evs).trace := by rw [e]; simp
  have hb := i.u.hb hm
  refine ⟨h4, h1, h2, h3, hb, fun hc => ?_⟩
  obtain ⟨mL, mM⟩ := i.w.mons hc
  exact ⟨mL.resolve_left hb.1, mM.resolve_left hb.2⟩

/-- **Active, at the moment of return.** The step in which `ret u ok` appears is the step of task `u` that consumes the acceptance
    on a session that is neither closed nor closing; in the state right after it the session is still open, both monitors are
    runnable, and the dispatcher has been started if a message callback is configured (and was not running). -/
theorem C11_active_at_return (cfg : Cfg) (evs : List Ev) (ev : Ev) (u : Nat) (hu : loginCaller u (evs ++ [ev]))
    (hnew : Obs.ret u .ok ∉ (reach cfg evs).trace) (h : Obs.ret u .ok ∈ (reach cfg (evs ++ [ev])).trace) :
    ev = .run (.U u) ∧ (reach cfg evs).vres = some 0 ∧ (reach cfg evs).closed = false ∧ (reach cfg evs).closingTask = false ∧
    (reach cfg (evs ++ [ev])).trace = (reach cfg evs).trace ++ [.loginReply 0, .ret u .ok] ∧
    (reach cfg (evs ++ [ev])).closed = false ∧
    (reach cfg (evs ++ [ev])).status .L = .ready ∧ (reach cfg (evs ++ [ev])).status .M = .ready ∧
    (cfg.hasMsgCb = true → (reach cfg evs).dispSet = false →
      (reach cfg (evs ++ [ev])).status .D = .ready ∧ (reach cfg (evs ++ [ev])).prog .D = .dispLoop) := by
  have hu0 : loginCaller u evs := fun e he => hu e (List.mem_append_left _ he)
  have hev : okEv u ev := hu ev (by simp)
  have i := inv cfg u evs hu0
  have hs : reach cfg (evs ++ [ev]) = step cfg (reach cfg evs) ev := by simp [reach, runEvs, List.foldl_append]
  rw [hs] at h ⊢
  -- were this not the accepting step, `ret u ok` would not have appeared
  have hacc : AcceptCond (reach cfg evs) ev u := by
    apply Classical.byContradiction
    intro hna
    have iu : InvU cfg u (Ev.cancel u ∈ evs ++ [ev]) (Ev.callLogin u ∈ evs ++ [ev]) True False (reach cfg evs) :=
      i.u.weaken (List.mem_append_left _) (List.mem_append_left _) (fun _ => hnew) (fun f => f.elim)
    have := step_U i.a i.b i.w i.t iu ev hev (fun e => by rw [e]; simp) (fun e => by rw [e]; simp) (fun _ => hna)
    exact this.spent1 trivial h
  obtain ⟨hev', hst, hp, hv, hc, hct⟩ := hacc
  subst hev'
  obtain ⟨t1, t2, t3, t4, t5⟩ := C11.C11_accept_yields_active_session cfg (reach cfg evs) u hst hp hv hc hct
  exact ⟨rfl, hv, hc, hct, t1, t2, t3, t4, t5⟩

/-! ### 3. the attempt fails: the session is closed, and the clean-up completes -/

/-- **Refused or cancelled ⇒ closed.** If the attempt raised the connection-refused error or the caller's cancellation
    propagated, the session reports closed, the close body has been entered and the queue is stopped. -/
theorem C11_refused_clean (cfg : Cfg) (evs : List Ev) (u : Nat) (hu : loginCaller u evs)
    (h : Obs.ret u .refused ∈ (reach cfg evs).trace ∨ Obs.ret u .cancelled ∈ (reach cfg evs).trace) :
    (reach cfg evs).closed = true ∧ (reach cfg evs).cstage ≠ .idle ∧ (reach cfg evs).qClosed = true := by
  have i := inv cfg u evs hu
  have hc := i.u.failed h
  have hne := i.a.closed_iff.mp hc
  exact ⟨hc, hne, i.a.qclosed hne⟩

/-- … closed for good: whatever happens afterwards (`C07_closed_is_final` along any continuation) -/
theorem C11_refused_stays_closed (cfg : Cfg) (evs evs' : List Ev) (u : Nat) (hu : loginCaller u evs)
    (h : Obs.ret u .refused ∈ (reach cfg evs).trace ∨ Obs.ret u .cancelled ∈ (reach cfg evs).trace) :
    (reach cfg (evs ++ evs')).closed = true := by
  have hc := (C11_refused_clean cfg evs u hu h).1
  have key : ∀ (l : List Ev) (s : St), s.closed = true → (runEvs cfg s l).closed = true := by
    intro l
    induction l with
    | nil => intro s h; exact h
    | cons ev l ih => intro s h; exact ih _ (step_closed_mono cfg s ev h)
  show (runEvs cfg {} (evs ++ evs')).closed = true
  rw [runEvs_append]
  exact key evs' _ hc

/-- … and the clean-up goes on: until the close has run to its end there is always a definite task that can take its next step
    (`C05_close_never_deadlocks`) -/
theorem C11_refused_cleanup_progresses (cfg : Cfg) (evs : List Ev) (u : Nat) (hu : loginCaller u evs)
    (h : Obs.ret u .refused ∈ (reach cfg evs).trace ∨ Obs.ret u .cancelled ∈ (reach cfg evs).trace) :
    (reach cfg evs).cstage = .finished ∨ (reach cfg evs).cstage = .aborted ∨
    ∃ t, runnable (reach cfg evs) t = true ∧
      (isCloser (reach cfg evs) t ∨ ∃ t', isCloser (reach cfg evs) t' ∧ (reach cfg evs).status t' = .waitT t) := by
  have hc := (C11_refused_clean cfg evs u hu h).1
  by_cases hf : (reach cfg evs).cstage = .finished
  · exact Or.inl hf
  · by_cases ha : (reach cfg evs).cstage = .aborted
    · exact Or.inr (Or.inl ha)
    · exact Or.inr (Or.inr (C05.C05_close_never_deadlocks cfg evs hc hf ha))

/-- **Nothing left open or running.** Composition with C05 / C06: once nothing can run any more (quiescence) after a failed
    attempt, the close has run to its end — the close callback has returned, or the *caller* cancelled the closing user task
    inside its own close callback (`aborted`) — and every task the library started (reader, dispatcher, both monitors, closing
    task, receive helper) has finished. -/
theorem C11_refused_quiescent_clean (cfg : Cfg) (evs : List Ev) (u : Nat) (hu : loginCaller u evs)
    (h : Obs.ret u .refused ∈ (reach cfg evs).trace ∨ Obs.ret u .cancelled ∈ (reach cfg evs).trace)
    (hq : ∀ t, runnable (reach cfg evs) t = false) :
    ((reach cfg evs).cstage = .finished ∨ (reach cfg evs).cstage = .aborted) ∧
    (Obs.tclose ∈ (reach cfg evs).trace) ∧
    ∀ t ∈ libTasks, alive ((reach cfg evs).status t) = false := by
  have i := inv cfg u evs hu
  have hfin : (reach cfg evs).cstage = .finished ∨ (reach cfg evs).cstage = .aborted := by
    rcases C11_refused_cleanup_progresses cfg evs u hu h with h | h | ⟨t, ht, _⟩
    · exact Or.inl h
    · exact Or.inr h
    · rw [hq t] at ht; simp at ht
  have b := i.b
  obtain ⟨hL, hM, hV, hD, hR⟩ := b.fin hfin
  have hrun : ∀ t, (reach cfg evs).status t = .ready → False := by
    intro t ht
    have := hq t
    simp [runnable, ht] at this
  refine ⟨hfin, ?_, ?_⟩
  · -- the transport was closed: the close sequence has passed phase 1
    have h9 := C05.C05_close_sequence cfg evs
    apply tclose_mem_of_phase _ h9
    show 1 ≤ monRun _
    rw [i.a.phase]
    rcases hfin with hf | hf <;> rw [hf] <;> simp [phaseOf]
    split <;> omega
  · intro t ht
    simp only [libTasks, List.mem_cons, List.mem_nil_iff, or_false] at ht
    rcases ht with rfl | rfl | rfl | rfl | rfl | rfl
    · exact hR.resolve_right (fun h' => hrun _ h')
    · exact hD.resolve_right (fun h' => hrun _ h')
    · exact hL
    · exact hM
    · cases hst : (reach cfg evs).status .C with
      | absent => rfl
      | done => rfl
      | ready => exact absurd (hrun _ hst) id
      | cancelled => exact absurd hst b.ccan
      | waitQ => rcases b.waitq _ hst with h' | h' <;> simp at h'
      | waitT y =>
        rcases b.waitt _ _ hst with ⟨pc, c, hb⟩ | ⟨u', hu', _⟩
        · rcases hfin with hf | hf <;> rw [hf] at hb <;> contradiction
        · simp at hu'
    · exact hV

/-! ### 4. any reply other than an acceptance on an active session is a refusal -/

/-- in the trace: the observable right before `ret u ok` is never a reply other than the acceptance -/
theorem C11_ok_only_after_acceptance (cfg : Cfg) (evs : List Ev) (u : Nat) (hu : loginCaller u evs) (l1 l2 : List Obs) (n : Nat)
    (e : (reach cfg evs).trace = l1 ++ Obs.loginReply n :: Obs.ret u .ok :: l2) : n = 0 := by
  have e' : (reach cfg evs).trace = (l1 ++ [Obs.loginReply n]) ++ Obs.ret u .ok :: l2 := by rw [e]; simp
  obtain ⟨l0, h⟩ := (C11_active cfg evs u hu _ l2 e').2.1
  have := List.append_inj' h rfl
  simpa using this.2

/-- **Any other reply, or an acceptance on a closing session, is refused — per attempt.** Suppose the `login()` of task `u` is about
    to resume with reply `n` (reached by any history), and `n` is not the acceptance, or the session is already closed / closing
    (a disconnect in the same turn, f58394d).  Then that step sets the closed flag, and however the run continues, no `ret u ok`
    is ever added to the trace. -/
theorem C11_any_other_reply_refused (cfg : Cfg) (evs evs' : List Ev) (u n : Nat)
    (hu : loginCaller u (evs ++ .run (.U u) :: evs'))
    (hst : (reach cfg evs).status (.U u) = .ready) (hp : (reach cfg evs).prog (.U u) = .loginWait u)
    (hv : (reach cfg evs).vres = some n)
    (hn : n ≠ 0 ∨ (reach cfg evs).closed = true ∨ (reach cfg evs).closingTask = true) :
    (reach cfg (evs ++ [.run (.U u)])).closed = true ∧
    (Obs.ret u .ok ∈ (reach cfg (evs ++ .run (.U u) :: evs')).trace → Obs.ret u .ok ∈ (reach cfg evs).trace) := by
  have hu0 : loginCaller u evs := fun e he => hu e (List.mem_append_left _ he)
  have hu1 : ∀ e ∈ evs', okEv u e := fun e he => hu e (by simp [he])
  have hs1 : reach cfg (evs ++ [.run (.U u)]) = step cfg (reach cfg evs) (.run (.U u)) := by
    simp [reach, runEvs, List.foldl_append]
  have hcl := C11.C11_other_reply_closes cfg (reach cfg evs) u n hst hp hv hn
  refine ⟨by rw [hs1]; exact hcl, ?_⟩
  have i := inv cfg u evs hu0
  generalize hs : reach cfg evs = s at *
  -- the resuming step, spelled out
  have hstep : step cfg s (.run (.U u)) =
      enterClose cfg (({ s with imm := none, vres := none, rcvBusy := false, gone := s.gone ++ [(n, true)] } : St).emit (.loginReply n))
        (.U u) (.userTail u .refused) := by
    have : (decide (n = 0) && !(s.closed || s.closingTask)) = false := by
      rcases hn with h | h | h <;> simp [h]
    simp only [step, runnable, hst, beq_self_eq_true, Bool.true_or, if_true, stepRun, hp, loginResume, hv, St.emit, this,
      Bool.false_eq_true, if_false]
  have p : ClosePre s (.U u) := ClosePre.of_inv i.a i.b hst (c := .userTail u .refused) rfl
  have spec := enterClose_spec (cfg := cfg)
    (s := (({ s with imm := none, vres := none, rcvBusy := false, gone := s.gone ++ [(n, true)] } : St).emit (.loginReply n)))
    (c := .userTail u .refused) (p.same rfl rfl rfl) rfl
  rw [← hstep] at spec
  -- from now on `u` is past its receive
  let sp : Prop := Obs.ret u .ok ∉ s.trace
  have i0 : LoginInv cfg u (Ev.callSend ∈ evs ++ .run (.U u) :: evs') (Ev.callLogout ∈ evs ++ .run (.U u) :: evs')
      (Ev.cancel u ∈ evs ++ .run (.U u) :: evs') (Ev.callLogin u ∈ evs ++ .run (.U u) :: evs') sp False s := by
    exact ⟨i.a, i.r, i.b, i.w, i.t.weaken (List.mem_append_left _) (List.mem_append_left _),
      i.u.weaken (List.mem_append_left _) (List.mem_append_left _) (fun h => h) (fun f => f.elim)⟩
  have i1 := i0.step (.run (.U u)) (hu _ (by simp)) (by simp) (by simp) (by simp) (by simp)
    (fun _ ⟨_, _, _, hv', hc', hct'⟩ => by
      rw [hv] at hv'; injection hv' with hv'
      rcases hn with h | h | h
      · exact h hv'
      · rw [hc'] at h; simp at h
      · rw [hct'] at h; simp at h)
  -- `u` is past its receive after that step
  have hpast : (step cfg s (.run (.U u))).status (.U u) ≠ .absent ∧
      ((step cfg s (.run (.U u))).prog (.U u) ≠ .loginWait u ∨ (step cfg s (.run (.U u))).status (.U u) = .done) := by
    constructor
    · intro e
      have := (spec.nabs (.U u)).mp e
      have h' : s.status (.U u) = .absent := this
      rw [hst] at h'; simp at h'
    · rcases spec.fin with f | f | f | f
      · exact Or.inr f
      · left; rw [f.1]; simp
      · simp at f
      · simp at f
  have i2 : LoginInv cfg u (Ev.callSend ∈ evs ++ .run (.U u) :: evs') (Ev.callLogout ∈ evs ++ .run (.U u) :: evs')
      (Ev.cancel u ∈ evs ++ .run (.U u) :: evs') (Ev.callLogin u ∈ evs ++ .run (.U u) :: evs') sp True
      (step cfg s (.run (.U u))) := by
    exact ⟨i1.a, i1.r, i1.b, i1.w, i1.t, i1.u.weaken id id i1.u.spent1 (fun _ => hpast)⟩
  have i3 := i2.run evs' hu1 (fun h => by simp [h]) (fun h => by simp [h]) (fun h => by simp [h]) (fun h => by simp [h]) (Or.inr trivial)
  intro hok
  apply Classical.byContradiction
  intro hno
  have e3 : reach cfg (evs ++ .run (.U u) :: evs') = runEvs cfg (step cfg s (.run (.U u))) evs' := by
    show runEvs cfg {} (evs ++ .run (.U u) :: evs') = _
    rw [runEvs_append]
    show runEvs cfg (reach cfg evs) (.run (.U u) :: evs') = _
    rw [hs]; rfl
  rw [e3] at hok
  exact i3.u.spent1 hno hok

/-! ### 5. non-vacuity: concrete attempts, for soup (`fixLogin = false`) and FIX (`fixLogin = true`) -/

private def cfgOf (fix : Bool) : Cfg :=
  { msgBeh := fun _ => .ret, cbBeh := .ret, hasCb := true, dispatchOnConnect := false, hasMsgCb := true, fixLogin := fix }

/-- accepted, with a data message piggy-backed on the acceptance and an unrelated user sending meanwhile -/
private def accepted : List Ev :=
  [.connect, .callLogin 1, .run .V, .data [.msg 0, .msg 5], .run .R, .callSend, .run .R, .run .V, .run (.U 1), .run .D]
/-- rejected (reply 7) -/
private def rejected : List Ev :=
  [.connect, .callLogin 1, .run .V, .data [.msg 7], .run .R, .run .V, .run (.U 1), .run .R, .run (.U 1)]
/-- the peer disconnects in the middle of the reply (no complete frame ever arrives) -/
private def eofMidReply : List Ev :=
  [.connect, .callLogin 1, .run .V, .data [], .eof, .run .C, .run .V, .run (.U 1), .run .C, .run .R, .run .C]
/-- the caller cancels while the peer is silent -/
private def cancelled : List Ev :=
  [.connect, .callLogin 1, .run .V, .cancel 1, .run .V, .run (.U 1), .run .R, .run (.U 1)]
/-- the caller cancels after the helper task took the acceptance, before `login()` resumed -/
private def cancelledLate : List Ev :=
  [.connect, .callLogin 1, .run .V, .data [.msg 0], .run .R, .run .V, .cancel 1, .run (.U 1), .run .R, .run (.U 1)]
/-- the acceptance is delivered in the turn in which the connection is lost (f58394d) -/
private def acceptedThenLost : List Ev :=
  [.connect, .callLogin 1, .run .V, .data [.msg 0], .run .R, .run .V, .eof, .run (.U 1)]

example : ∀ fix, (reach (cfgOf fix) accepted).trace =
    [.write .login, .write .data, .loginReply 0, .ret 1 .ok, .msgEnter 5, .msgExit 5] := by decide
example : loginCaller 1 accepted := by decide
example : ∀ fix, (reach (cfgOf fix) rejected).trace =
    [.write .login, .loginReply 7, .tclose, .cbEnter, .cbExit, .ret 1 .refused] := by decide
example : ∀ fix, (reach (cfgOf fix) eofMidReply).trace = [.write .login, .ret 1 .refused, .tclose, .cbEnter, .cbExit] := by decide
example : ∀ fix, (reach (cfgOf fix) eofMidReply).cstage = .finished ∧
    libTasks.all (fun t => !alive ((reach (cfgOf fix) eofMidReply).status t)) = true := by decide
example : ∀ fix, (reach (cfgOf fix) cancelled).trace = [.write .login, .tclose, .cbEnter, .cbExit, .ret 1 .cancelled] := by decide
example : ∀ fix, (reach (cfgOf fix) cancelledLate).trace = [.write .login, .tclose, .cbEnter, .cbExit, .ret 1 .cancelled] := by decide
/-- the acceptance held for the cancelled `login()` is not lost: it is back in front of the (closed) queue, readable by
    `receive_msg_nowait()` before the end-of-queue error -/
example : ∀ fix, (reach (cfgOf fix) cancelledLate).lost = [] ∧ (reach (cfgOf fix) cancelledLate).queue = [0] := by decide
example : ∀ fix, (reach (cfgOf fix) (cancelledLate ++ [.callRecvNowait 2, .callRecvNowait 3])).trace =
    [.write .login, .tclose, .cbEnter, .cbExit, .ret 1 .cancelled, .ret 2 (.msg 0), .ret 3 .eoq] := by decide
example : ∀ fix, (reach (cfgOf fix) acceptedThenLost).trace = [.write .login, .loginReply 0] ∧
    (reach (cfgOf fix) acceptedThenLost).closed = true ∧ (reach (cfgOf fix) acceptedThenLost).status .L = .absent := by decide
/-- the hypotheses of `C11_any_other_reply_refused` are satisfiable: a rejection, and an acceptance on a closing session -/
example : (reach (cfgOf false) (rejected.take 6)).status (.U 1) = .ready ∧ (reach (cfgOf false) (rejected.take 6)).vres = some 7 := by decide
example : (reach (cfgOf true) (acceptedThenLost.take 7)).vres = some 0 ∧
    (reach (cfgOf true) (acceptedThenLost.take 7)).closingTask = true := by decide
/-- API misuse: a second `login()` on a session that is already dispatching writes its request and raises `StateError` -/
example : (reach (cfgOf false) (accepted ++ [.callLogin 2])).trace =
    [.write .login, .write .data, .loginReply 0, .ret 1 .ok, .msgEnter 5, .msgExit 5, .write .login, .ret 2 .state] := by decide

end NasdaqModel.Props.C11Trace
