import NasdaqModel.Lemmas.BinCodecLemmas
/-
C01 — the binary message codec round-trips every definable message and value.

Model: `Model/BinCodec.lean` (`encode`, `decode`, `encodeMsg`, `decodeMsg`, `norm`, `read`, `wf`), transcribed from
`common/message/types.py` and `structures.py`.  All theorems are for every schema tree `t : Ty` (arbitrary nesting of records,
optional records and arrays, every integer size / signedness / byte order, both charsets), every value and every tail of
trailing bytes; they are proved by mutual induction over `Ty` / `Flds` in `Lemmas/BinCodecLemmas.lean`.

Only property theorems and their non-vacuity examples live here.
-/
namespace NasdaqModel.Props.C01
open NasdaqModel BinCodec

/-- Every in-domain value can be encoded. -/
theorem C01_encode_total (t : Ty) (v : Val) (hwf : wf t v = true) : ∃ n bs, encode t v = .ok (n, bs) :=
  ⟨_, _, encLayout_all.1 t v hwf⟩

/-- Decoding the encoded bytes — also when unrelated bytes follow — consumes exactly the reported length and yields the
    value with defaults filled in (`norm`). -/
theorem C01_roundtrip (t : Ty) (v : Val) (tail : Bytes) (n : Nat) (bs : Bytes)
    (hwf : wf t v = true) (henc : encode t v = .ok (n, bs)) :
    decode t (bs ++ tail) = .ok ((n : Int), norm t v) := by
  rw [encLayout_all.1 t v hwf] at henc
  injection henc with henc
  injection henc with h1 h2
  subst h1 h2
  exact decLayout_all.1 t v hwf tail

/-- Every field of the decoded value reads back equal through the typed attributes (defaults included; an optional record
    nothing was assigned to and `None` are the same observation: absent). -/
theorem C01_reads_equal (t : Ty) (v : Val) (hwf : wf t v = true) (p : List Step) :
    read t (norm t v) p = read t v p :=
  read_all.1 t v hwf p

/-- The decoded value re-encodes to the identical bytes (and reported length). -/
theorem C01_reencode (t : Ty) (v : Val) (hwf : wf t v = true) : encode t (norm t v) = encode t v := by
  obtain ⟨h1, h2⟩ := norm_all.1 t v hwf
  rw [encLayout_all.1 t v hwf, encLayout_all.1 t (norm t v) h1, h2]

/-- The decoded value is again in the domain (so the round trip can be iterated). -/
theorem C01_norm_wf (t : Ty) (v : Val) (hwf : wf t v = true) : wf t (norm t v) = true :=
  (norm_all.1 t v hwf).1

/-- The length an encoder reports is the number of bytes it produced — for *every* value that encodes at all, in or out of
    the round-trip domain (no `wf` hypothesis): over-long fixed strings, empty chars, out-of-domain text included. -/
theorem C01_len_is_len (t : Ty) (v : Val) (n : Nat) (bs : Bytes) (henc : encode t v = .ok (n, bs)) : n = bs.length :=
  len_all.1 t v n bs henc

/-- A fixed-width field always occupies exactly its declared width (and reports it), whatever string is assigned. -/
theorem C01_fixed_width (iso : Bool) (k : Nat) (rj : Bool) (v : Val) (n : Nat) (bs : Bytes)
    (henc : encode (.fixed iso k rj) v = .ok (n, bs)) : bs.length = k ∧ n = k := by
  have h1 := len_all.1 _ _ n bs henc
  cases v <;> simp [encode, encFixed, bind_eq_ok] at henc
  omega

/-- A char field always occupies exactly one byte. -/
theorem C01_char_width (iso : Bool) (v : Val) (n : Nat) (bs : Bytes)
    (henc : encode (.char iso) v = .ok (n, bs)) : bs.length = 1 ∧ n = 1 := by
  have h1 := len_all.1 _ _ n bs henc
  cases v <;> simp [encode, encChar, bind_eq_ok] at henc
  omega

/-- Message level: the encoded message decodes — with unrelated bytes following — to the same class and the same record,
    consuming exactly the encoded length, which is the length reported. -/
theorem C01_msg_roundtrip (reg : List MsgDef) (m : MsgDef) (v : Val) (tail : Bytes) (n : Nat) (bs : Bytes)
    (hreg : findMsg reg (m.ind : Int) = some m) (hwf : wfMsg m v = true) (henc : encodeMsg m v = .ok (n, bs)) :
    decodeMsg reg (bs ++ tail) = .ok ((n : Int), m.cls, norm (.record m.fs) v) ∧ n = bs.length := by
  rw [encodeMsg_layout m v hwf] at henc
  injection henc with henc
  injection henc with h1 h2
  subst h1 h2
  exact ⟨decodeMsg_layout reg m v tail hreg hwf, rfl⟩

/-- An id that is not registered is refused (KeyError), whatever follows. -/
theorem C01_msg_unknown (reg : List MsgDef) (b : Bytes)
    (h : findMsg reg (intFromBytes false false (b.take 1)) = none) : decodeMsg reg b = .error .key := by
  simp [decodeMsg, h]

/-! ### non-vacuity: concrete, non-trivial values inside the hypotheses -/

/-- a message body with a big-endian signed short, a fixed string, an optional record, and an array of optional records
    with a big-endian unsigned count -/
def exTy : Ty :=
  .record (.cons 1 (.int 2 true true) .none
          (.cons 2 (.fixed true 4 false) .none
          (.cons 3 (.optrec (.cons 1 (.int 1 false false) (.int 7) (.cons 2 (.char false) .none .nil))) .none
          (.cons 4 (.arr (.optrec (.cons 1 (.str true) .none .nil)) 2 false true) .none .nil))))

def exVal : Val :=
  .recd [(1, .int (-2)), (2, .str [97, 233]), (3, .recd [(2, .str [66])]), (4, .list [.recd [], .recd [(1, .str [104, 105])]])]

example : wf exTy exVal = true := by decide
example : encode exTy exVal = .ok (17, [255, 254, 97, 233, 32, 32, 1, 7, 66, 0, 2, 0, 0, 2, 0, 104, 105]) := by decide
example : read exTy (norm exTy exVal) [.field 3, .field 1] = .int 7 := by decide          -- a default read back
example : read exTy (norm exTy exVal) [.field 4, .idx 1, .field 1] = .text [104, 105] := by decide
example : wfMsg { ind := 65, cls := 0, fs := .cons 1 (.int 8 false true) .none .nil } (.recd [(1, .int 18446744073709551615)]) = true := by
  decide
example : wf (.optrec (.cons 1 .bool .none .nil)) (.recd []) = true := by decide           -- absent optional record
example : wf (.record .nil) (.recd []) = true := by decide                                   -- a message body without fields
example : wf (.fixed true 3 false) (.str [97, 160]) = true := by decide                    -- NBSP at the end of a fixed string
example : encode (.fixed false 3 false) (.str [97, 98, 99, 100]) = .ok (3, [97, 98, 99]) := by decide   -- over-long: truncated
example : wf (.int 8 true false) (.int (-9223372036854775808)) = true := by decide

end NasdaqModel.Props.C01
