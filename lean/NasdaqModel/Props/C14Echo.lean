import NasdaqModel.Props.C14Anchor
/-
C14 — a message that already carries the framing fields (one obtained from the reader and sent again).

`C14_decodes_to_sent` needed the hypothesis that the sent message holds none of BeginString (8), BodyLength (9), MsgType (35) in its
header and no CheckSum (10) in its trailer.  The proof forced it — and the real code at the excluded point was wrong: `send_msg` of a
message decoded from a frame wrote `8=…|9=…|35=…|8=…|9=…|35=…|…|10=…|10=…|` (fixes/C14-echo-duplicate-framing.md).  Since the repair
`_prepare_complete_msg` removes those four fields from the message before it serialises it; the model's `frame` does the same
(`dropKeys`), so the hypothesis is now a THEOREM about every sent message and `C14_decodes_to_sent` holds for every message.
-/
namespace NasdaqModel.Props.C14Echo
open NasdaqModel Py Fix FixFrame

private theorem not_mem_keysOf_dropKeys (ks : List Nat) (s : Seg) (k : Nat) (hk : k ∈ ks) : k ∉ keysOf (dropKeys ks s) := by
  intro hm
  simp only [keysOf, dropKeys, List.mem_map, List.mem_filter] at hm
  obtain ⟨p, ⟨_, hp⟩, rfl⟩ := hm
  simp [List.contains_iff_mem, hk] at hp

/-- **The session owns the framing fields.** Whatever the application put into the message, the message as it is serialised by
    `send_msg` holds no BeginString, BodyLength or MsgType in its header and no CheckSum in its trailer. -/
theorem C14_sent_message_has_no_framing_fields (ver : Str) (d : MsgDef) (se : Sess) (seq : Int) (time : Str) (m m' : Msg) (f : Bytes)
    (h : frame ver d se seq time m = .ok (f, m')) :
    8 ∉ keysOf m'.hdr ∧ 9 ∉ keysOf m'.hdr ∧ 35 ∉ keysOf m'.hdr ∧ 10 ∉ keysOf m'.trl := by
  obtain ⟨hd, _, _, hm', _, _⟩ := frame_inv h
  subst hm'
  exact ⟨not_mem_keysOf_dropKeys _ _ 8 (by decide), not_mem_keysOf_dropKeys _ _ 9 (by decide),
    not_mem_keysOf_dropKeys _ _ 35 (by decide), not_mem_keysOf_dropKeys _ _ 10 (by decide)⟩

/-- **Decodes to what was sent — for every message**, including one that arrived with `8`, `9`, `35`, `10` of its own
    (`C14Anchor.C14_decodes_to_sent_any_version` without the hypothesis about the message's keys). -/
theorem C14_decodes_to_sent_any_message (reg : List MsgDef) (ver : Str) (d : MsgDef) (se : Sess) (seq : Int) (time : Str)
    (m m' : Msg) (f : Bytes)
    (hvt : wfText ver = true) (hty : wfText d.type = true)
    (hd : wfDef d = true) (he : framingEntries d) (hm' : wfMsg d m' = true)
    (hreg : lookupReg reg d.type = some d)
    (h : frame ver d se seq time m = .ok (f, m')) :
    ∃ body, encMsg d m' = .ok body ∧
      decodeMsg reg f = .ok (f.length, d,
        framed ver (counted d.type body).length d.type
          (rjust0 (natDigits (byteSum (summed ver d.type body) % 256)) 3) (canonMsg d m')) :=
  C14Anchor.C14_decodes_to_sent_any_version reg ver d se seq time m m' f hvt hty hd he hm'
    (C14_sent_message_has_no_framing_fields ver d se seq time m m' f h) hreg h

/-- what the removal does to a decoded header: the three framing fields go, everything else stays in place -/
example : keysOf (dropKeys [8, 9, 35] [(8, .str [70]), (9, .int 53), (35, .str [76]), (49, .str [67]), (34, .int 1)])
    = [49, 34] := by decide

end NasdaqModel.Props.C14Echo
