import NasdaqModel.Props.C14Echo
import NasdaqModel.Model.FixObj
/-
C14, message objects over time: "whatever message a FIX session sends" includes a message OBJECT that has been sent, was
changed in place — a body field, a field of a group instance, a field of an instance of a group nested in that instance (two,
three levels down), an instance appended to / inserted into / replaced in / removed from a (nested) list, a header field — and
is sent again through the same session, any number of times (`Model/FixObj.lean`: `Op`, `Edit`, `trace`).

  * `C14_resend_each_frame`   — no memory: the frame written by every send of a history is `frame` of the value the object
                                holds at that moment (sequence number and clock reading of that send), whatever was sent before;
  * `C14_resend_between`      — that value is what the previous send left in the object with the edits made since applied;
  * `C14_resend_shape`, `C14_resend_segmentation`, `C14_resend_decodes`
                              — hence every frame of the history has the shape of the statement, is framed as exactly one
                                message under any segmentation, and decodes to the message the object held at that send;
  * `C14_edit_set_visible`    — and what it held is what was assigned: after `target[t] = v` at any depth, the instance the
                                path leads to holds `v` under `t` (so the next frame decodes to it).
The semantics of the seeded change C14l (remembered instance bytes) fails exactly here: `Witness/C14Resend.lean`.
-/
namespace NasdaqModel.Props.C14Resend
open NasdaqModel Py Fix FixFrame FixObj

/-- **No memory.** Every send of a history writes the frame of the message value the object holds when `send_msg` is called —
    a function of that value, the session, the sequence number drawn and the clock; nothing of the earlier sends or edits
    enters — and leaves the stamped message of that very call in the object. -/
theorem C14_resend_each_frame (ver : Str) (d : MsgDef) (se : Sess) (ops : List Op) :
    ∀ (m : Msg) (ss : List Sent) (mf : Msg), trace ver d se m ops = .ok (ss, mf) →
      ∀ s ∈ ss, frame ver d se s.seq s.time s.before = .ok (s.frame, s.after) := by
  induction ops with
  | nil =>
    intro m ss mf h s hs
    simp only [trace] at h
    injection h with h; injection h with h1 _; subst h1
    simp at hs
  | cons op r ih =>
    intro m ss mf h s hs
    cases op with
    | edit sg p e =>
      simp only [trace] at h
      obtain ⟨m', _, h⟩ := bind_ok h
      exact ih m' ss mf h s hs
    | send seq time =>
      simp only [trace] at h
      obtain ⟨fm, hfm, h⟩ := bind_ok h
      obtain ⟨rest, hrest, h⟩ := bind_ok h
      simp only [pure_eq_ok] at h
      injection h with h; injection h with h1 h2; subst h1
      rcases List.mem_cons.mp hs with rfl | hs
      · simpa using hfm
      · exact ih fm.2 rest.1 rest.2 (by simpa using hrest) s hs

/-- the edits of a history between two sends, applied in order -/
def applyEdits (d : MsgDef) : Msg → List (SegSel × Path × Edit) → Except Err Msg
  | m, [] => .ok m
  | m, (sg, p, e) :: r => do
      let m' ← applyEdit d m sg p e
      applyEdits d m' r

/-- **Between two sends.** A history that begins with edits and then sends: the value sent is the value the object held with
    those edits applied, in order; the rest of the history goes on from the stamped message that send left behind.
    (With `C14_resend_each_frame`: the k-th frame is a function of the first message, the edits before it and the stamps of
    the sends before it — and of nothing else.) -/
theorem C14_resend_between (ver : Str) (d : MsgDef) (se : Sess) (es : List (SegSel × Path × Edit)) (seq : Int) (time : Str)
    (r : List Op) :
    ∀ m : Msg, trace ver d se m (es.map (fun x => Op.edit x.1 x.2.1 x.2.2) ++ Op.send seq time :: r) =
      (do let m1 ← applyEdits d m es
          let fm ← frame ver d se seq time m1
          let rest ← trace ver d se fm.2 r
          pure ({ seq := seq, time := time, before := m1, frame := fm.1, after := fm.2 } :: rest.1, rest.2)) := by
  induction es with
  | nil => intro m; simp [trace, applyEdits]
  | cons x es ih =>
    intro m
    obtain ⟨sg, p, e⟩ := x
    simp only [List.map_cons, List.cons_append, trace, applyEdits]
    cases applyEdit d m sg p e with
    | error err => simp
    | ok m' => simp only [ok_bind]; exact ih m'

/-- **Shape, for every frame of a history** (`C14.C14_shape` at each send): `8=<version>|9=<n>|35=<type>|…|10=<ccc>|` with `n`
    the exact byte count and `ccc` the three-digit byte sum mod 256, of the message the object holds after that send's stamping. -/
theorem C14_resend_shape (ver : Str) (d : MsgDef) (se : Sess) (m : Msg) (ops : List Op) (ss : List Sent) (mf : Msg)
    (h : trace ver d se m ops = .ok (ss, mf)) :
    ∀ s ∈ ss, ∃ body ck : Bytes, encMsg d s.after = .ok body ∧
      s.frame = ([56, 61] ++ ver ++ [1]) ++ ([57, 61] ++ natDigits ([51, 53, 61] ++ d.type ++ 1 :: body).length ++ [1]) ++
            ([51, 53, 61] ++ d.type ++ 1 :: body) ++ ([49, 48, 61] ++ ck ++ [1]) ∧
      ck.length = 3 ∧ (∀ c ∈ ck, isDigit c = true) ∧
      digitsVal ck = byteSum (([56, 61] ++ ver ++ [1]) ++
            ([57, 61] ++ natDigits ([51, 53, 61] ++ d.type ++ 1 :: body).length ++ [1]) ++
            ([51, 53, 61] ++ d.type ++ 1 :: body)) % 256 :=
  fun s hs => C14.C14_shape ver d se s.seq s.time s.before s.after s.frame (C14_resend_each_frame ver d se ops m ss mf h s hs)

/-- **Any segmentation, for every frame of a history**: the reader frames exactly that frame. -/
theorem C14_resend_segmentation (ver : Str) (d : MsgDef) (se : Sess) (m : Msg) (ops : List Op) (ss : List Sent) (mf : Msg)
    (hv : wfVer ver = true) (h : trace ver d se m ops = .ok (ss, mf)) :
    ∀ s ∈ ss, ∀ segs : List Bytes, segs.flatten = s.frame → feed segs [] [] = .ok ([s.frame], []) :=
  fun s hs segs hsg => C14.C14_segmentation ver d se s.seq s.time s.before s.after s.frame hv
    (C14_resend_each_frame ver d se ops m ss mf h s hs) segs hsg

/-- **Decodes to what was sent, for every frame of a history.**  Whatever was sent and edited before, `Message.from_bytes` on the
    frame of a send yields the message the object held at that send (as left by the stamping of that send; group instances in
    dictionary order) plus the four framing fields.  `hwf`: the object is a valid message at each send (as in `C14_decodes_to_sent`). -/
theorem C14_resend_decodes (reg : List MsgDef) (ver : Str) (d : MsgDef) (se : Sess) (m : Msg) (ops : List Op)
    (ss : List Sent) (mf : Msg)
    (hvt : wfText ver = true) (hty : wfText d.type = true) (hd : wfDef d = true) (he : framingEntries d)
    (hreg : lookupReg reg d.type = some d)
    (h : trace ver d se m ops = .ok (ss, mf)) (hwf : ∀ s ∈ ss, wfMsg d s.after = true) :
    ∀ s ∈ ss, ∃ body, encMsg d s.after = .ok body ∧
      decodeMsg reg s.frame = .ok (s.frame.length, d,
        framed ver (counted d.type body).length d.type
          (rjust0 (natDigits (byteSum (summed ver d.type body) % 256)) 3) (canonMsg d s.after)) :=
  fun s hs => C14Echo.C14_decodes_to_sent_any_message reg ver d se s.seq s.time s.before s.after s.frame hvt hty hd he
    (hwf s hs) hreg (C14_resend_each_frame ver d se ops m ss mf h s hs)

private theorem lookupV_upsert_self (s : Seg) (t : Nat) (v : Val) : lookupV (upsert s t v) t = some v := by
  induction s with
  | nil => simp [upsert, lookupV]
  | cons kv s ih =>
    obtain ⟨k, w⟩ := kv
    simp only [upsert]
    split <;> simp [lookupV, *]

private theorem checkPrim_ok {ty : FTy} {v v' : Val} (h : checkPrim ty v = .ok v') : v' = v := by
  cases ty <;> cases v <;> simp [checkPrim] at h <;> exact h.symm

private theorem container_ok {es : List Entry} {s : Seg} {t : Nat} {sub : List Entry} {insts : List Seg}
    (h : container es s t = .ok (sub, insts)) : lookupV s t = some (.grp insts) := by
  unfold container at h
  split at h
  · simp at h
  · split at h
    · injection h with h; injection h with _ h2; subst h2; assumption
    · simp at h
  · simp at h

/-- **What was assigned is what the object holds.**  After `target[t] = v` (`v` a plain value) on the segment or the group instance
    a path of any depth leads to — no assignment on any enclosing object — the instance that path leads to holds `v` under `t`:
    with `C14_resend_decodes`, the next frame decodes to it. -/
theorem C14_edit_set_visible (t : Nat) (v : Val) (hv : ∀ i, v ≠ .grp i) (p : Path) :
    ∀ (es : List Entry) (s s' : Seg), editAt es s p (.set t v) = .ok s' →
      ∃ inst', instAt s' p = some inst' ∧ lookupV inst' t = some v := by
  induction p with
  | nil =>
    intro es s s' h
    simp only [editAt, editHere, setItem] at h
    split at h
    · simp at h
    · rename_i e _
      obtain ⟨v', hv', h⟩ := bind_ok h
      simp only [pure_eq_ok] at h
      injection h with h; subst h
      have : v' = v := by
        cases e with
        | field _ ty _ => exact checkPrim_ok (by simpa [checkVal] using hv')
        | group _ sub _ =>
          cases v with
          | grp i => exact absurd rfl (hv i)
          | int _ => simp [checkVal] at hv'
          | flt _ => simp [checkVal] at hv'
          | bool _ => simp [checkVal] at hv'
          | str _ => simp [checkVal] at hv'
      subst this
      exact ⟨_, rfl, lookupV_upsert_self s t v'⟩
  | cons gi p ih =>
    intro es s s' h
    obtain ⟨gt, i⟩ := gi
    simp only [editAt] at h
    obtain ⟨⟨sub, insts⟩, hc, h⟩ := bind_ok h
    simp only at h
    split at h
    · simp at h
    · rename_i inst hi
      obtain ⟨inst', hinst', h⟩ := bind_ok h
      simp only [pure_eq_ok] at h
      injection h with h; subst h
      obtain ⟨x, hx, hl⟩ := ih sub inst inst' hinst'
      refine ⟨x, ?_, hl⟩
      have hlt : i < insts.length := by
        rcases Nat.lt_or_ge i insts.length with h | h
        · exact h
        · simp [List.getElem?_eq_none h] at hi
      simp only [instAt, lookupV_upsert_self]
      simp [hlt, hx]

/-! ### non-vacuity: a dictionary with a group nested in a group; send, change a field two levels down in place, send again -/

/-- `FixObj.resendDef`: standard header, body QuoteID(117), legs 555 { 600, parties 539 { 524, 538 } }; `resendMsg`: `Q1`, one leg
    `A` with parties (`D1`, 1), (`D2`, 2); `resendMixed`: send; `legs[0].parties[1].NestedPartyID = 'XX'`; send; a party `ZZ`
    appended to that leg; `QuoteID = 'Q2'`; send -/
abbrev exDef : MsgDef := resendDef
abbrev exMsg : Msg := resendMsg
abbrev exOps : List Op := resendMixed

/-- the three frames exist; the object is a valid message at each send; the first frame carries `|524=D2|`, the second `|524=XX|`
    in its place, the third `|117=Q2|` and `|539=3|…|524=ZZ|` -/
example : (match trace resendVer exDef resendSess exMsg exOps with
    | .ok ([s1, s2, s3], _) =>
        let has (pat f : Bytes) : Bool := (findSub pat f).isSome
        has [1, 53, 50, 52, 61, 68, 50, 1] s1.frame && !has [1, 53, 50, 52, 61, 88, 88, 1] s1.frame &&
        has [1, 53, 50, 52, 61, 88, 88, 1] s2.frame && !has [1, 53, 50, 52, 61, 68, 50, 1] s2.frame &&
        has [1, 49, 49, 55, 61, 81, 50, 1] s3.frame && has [1, 53, 51, 57, 61, 51, 1] s3.frame &&
        has [1, 53, 50, 52, 61, 88, 88, 1, 53, 51, 56, 61, 50, 1, 53, 50, 52, 61, 90, 90, 1, 49, 48, 61] s3.frame &&
        pyEq s1.before exMsg && wfMsg exDef s1.after && wfMsg exDef s2.after && wfMsg exDef s3.after
    | _ => false) = true := by decide +kernel
example : framingEntries exDef := ⟨⟨true, rfl⟩, ⟨true, rfl⟩, ⟨true, rfl⟩, ⟨true, rfl⟩⟩
example : wfDef exDef = true ∧ wfText exDef.type = true := by decide

end NasdaqModel.Props.C14Resend
