import NasdaqModel.Lemmas.MonitorLemmas
import NasdaqModel.Lemmas.SessionLemmas5
/-
C05 — every way of ending a session closes it once, completely, without error.

Theorems about `Model/Session.lean` (the task-level session machine) for **every** configuration and **every**
event sequence: any interleaving of task steps, inbound frames, disconnects, user calls and cancellations.
Only property theorems and non-vacuity examples live here.
-/
namespace NasdaqModel.Props.C05
open NasdaqModel Sess

/-- the state reached from a fresh session by an arbitrary event sequence -/
abbrev reach (cfg : Cfg) (evs : List Ev) : St := runEvs cfg {} evs

/-- **The close sequence.** In every reachable state the observable trace is accepted by the close-sequence
    monitor: transport closed at most once, then the close callback entered at most once, then left at most
    once, and no message callback started after the transport was closed. -/
theorem C05_close_sequence (cfg : Cfg) (evs : List Ev) : monRun (reach cfg evs).trace ≠ 9 := by
  have i := runEvs_InvA cfg evs
  rw [i.phase]
  cases (runEvs cfg {} evs).cstage <;> simp [phaseOf]
  split <;> omega

/-- **At most once.** The transport is closed, and the user's close callback is entered and left, at most once —
    whatever combination and repetition of close triggers occurs. -/
theorem C05_cb_at_most_once (cfg : Cfg) (evs : List Ev) :
    (reach cfg evs).trace.count .tclose ≤ 1 ∧ (reach cfg evs).trace.count .cbEnter ≤ 1 ∧
    (reach cfg evs).trace.count .cbExit ≤ 1 := by
  have h := C05_close_sequence cfg evs
  exact ⟨(count_tclose _ 0 h).1 rfl, (count_cbEnter _ 0 h).1 (by omega), (count_cbExit _ 0 h).1 (by omega)⟩

/-- **Transport first.** Whenever the close callback is entered, the transport has already been closed. -/
theorem C05_transport_closed_before_callback (cfg : Cfg) (evs : List Ev) (l1 l2 : List Obs)
    (e : (reach cfg evs).trace = l1 ++ Obs.cbEnter :: l2) : Obs.tclose ∈ l1 :=
  tclose_before_cbEnter _ l1 l2 (C05_close_sequence cfg evs) e

/-- **Callback returns after it was entered.** -/
theorem C05_callback_exit_after_enter (cfg : Cfg) (evs : List Ev) (l1 l2 : List Obs)
    (e : (reach cfg evs).trace = l1 ++ Obs.cbExit :: l2) : Obs.cbEnter ∈ l1 :=
  cbEnter_before_cbExit _ l1 l2 (C05_close_sequence cfg evs) e

/-- **After the last message callback.** No message callback is started once the transport is closed; in particular
    none is started after the close callback was entered. -/
theorem C05_no_message_callback_after_close (cfg : Cfg) (evs : List Ev) (l1 l2 : List Obs) (n : Nat)
    (e : (reach cfg evs).trace = l1 ++ Obs.msgEnter n :: l2) : Obs.tclose ∉ l1 ∧ Obs.cbEnter ∉ l1 :=
  no_msgEnter_after_tclose _ l1 l2 n (C05_close_sequence cfg evs) e

/-- **Reports closed** exactly when the close body has been entered. -/
theorem C05_is_closed_iff (cfg : Cfg) (evs : List Ev) :
    (reach cfg evs).closed = true ↔ (reach cfg evs).cstage ≠ .idle :=
  (runEvs_InvA cfg evs).closed_iff

/-- **Completely, exactly once.** When the close has run to its end, the transport was closed exactly once and the
    close callback (if one is configured) was entered and left exactly once. -/
theorem C05_completed_exactly_once (cfg : Cfg) (evs : List Ev) (h : (reach cfg evs).cstage = .finished) :
    (reach cfg evs).closed = true ∧ Obs.tclose ∈ (reach cfg evs).trace ∧
    (reach cfg evs).trace.count .tclose ≤ 1 ∧
    (cfg.hasCb = true → Obs.cbEnter ∈ (reach cfg evs).trace ∧ Obs.cbExit ∈ (reach cfg evs).trace) := by
  have i := runEvs_InvA cfg evs
  have hph : monRun (reach cfg evs).trace = (if cfg.hasCb then 3 else 1) := by rw [i.phase, h]; rfl
  have h9 := C05_close_sequence cfg evs
  refine ⟨i.closed_iff.mpr (by rw [h]; simp), ?_, (C05_cb_at_most_once cfg evs).1, ?_⟩
  · apply tclose_mem_of_phase _ h9
    show 1 ≤ monRun _
    rw [hph]; split <;> omega
  · intro hcb
    have h3 : monRun (reach cfg evs).trace = 3 := by rw [hph, hcb]; rfl
    have hEnter : Obs.cbEnter ∈ (reach cfg evs).trace :=
      cbEnter_mem_of_phase _ 0 (by omega) h9 (by show 2 ≤ monRun _; omega)
    refine ⟨hEnter, ?_⟩
    -- the phase can only reach 3 through a `cbExit`
    have key : ∀ (l : List Obs) (p : Nat), p ≤ 2 → l.foldl mon p = 3 → Obs.cbExit ∈ l := by
      intro l
      induction l with
      | nil => intro p hp h; simp at h; omega
      | cons o l ih =>
        intro p hp h
        by_cases ho : o = .cbExit
        · subst ho; simp
        · have hm : mon p o ≤ 2 ∨ mon p o = 9 := by
            cases o <;> simp_all [mon] <;> (try omega)
            all_goals (split <;> omega)
          rcases hm with hm | hm
          · exact List.mem_cons_of_mem _ (ih _ hm h)
          · simp [List.foldl, hm, foldl_mon_sink] at h
    exact key _ 0 (by omega) h3

/-- **Closing twice is harmless.** On a closed session a further `close()` returns at once, with no other effect on
    what can be observed. -/
theorem C05_close_idempotent (cfg : Cfg) (s : St) (u : Nat) (hc : s.closed = true) (hu : s.status (.U u) = .absent) :
    (step cfg s (.callClose u)).trace = s.trace ++ [.ret u .ok] ∧
    (step cfg s (.callClose u)).cstage = s.cstage := by
  simp [step, hu, enterClose, hc, St.setStatus, St.setProg, runCont, St.emit, St.finish, CRes.toRes]

/-- **The close never deadlocks.** In every reachable state in which the session reports closed but the close has not
    run to its end, a definite task can take the next step of the close: the closer itself, or the (cancelled, hence
    runnable) task the closer is awaiting at that moment. Together with the stage counter (at most six stages, each awaited
    task ends in one step) this is the "never blocks forever" clause, for every interleaving and every trigger combination. -/
theorem C05_close_never_deadlocks (cfg : Cfg) (evs : List Ev) (hc : (reach cfg evs).closed = true)
    (hf : (reach cfg evs).cstage ≠ .finished) (ha : (reach cfg evs).cstage ≠ .aborted) :
    ∃ t, runnable (reach cfg evs) t = true ∧
      (isCloser (reach cfg evs) t ∨ ∃ t', isCloser (reach cfg evs) t' ∧ (reach cfg evs).status t' = .waitT t) := by
  have h3 : InvA cfg (reach cfg evs) ∧ InvR (reach cfg evs) ∧ InvB (reach cfg evs) := runEvs_InvARB cfg evs
  generalize reach cfg evs = s at *
  obtain ⟨a, _, b⟩ := h3
  have hne : s.cstage ≠ .idle := a.closed_iff.mp hc
  cases hs : s.cstage with
  | idle => exact absurd hs hne
  | finished => exact absurd hs hf
  | aborted => exact absurd hs ha
  | body t pc c =>
    obtain ⟨_, _, _, hal, hnq, _⟩ := b.bst t pc c hs
    cases hst : s.status t with
    | absent => rw [hst] at hal; simp [alive] at hal
    | done => rw [hst] at hal; simp [alive] at hal
    | waitQ => exact absurd hst hnq
    | ready => exact ⟨t, by simp [runnable, hst], Or.inl (Or.inl ⟨pc, c, hs⟩)⟩
    | cancelled => exact ⟨t, by simp [runnable, hst], Or.inl (Or.inl ⟨pc, c, hs⟩)⟩
    | waitT x =>
      have := (b.bwait t pc c x hs hst).2
      exact ⟨x, by simp [runnable, this], Or.inr ⟨t, Or.inl ⟨pc, c, hs⟩, hst⟩⟩
  | cb t k c =>
    obtain ⟨_, hst, _⟩ := b.cb t k c hs
    refine ⟨t, ?_, Or.inl (Or.inr ⟨k, c, hs⟩)⟩
    rcases hst with h | h <;> simp [runnable, h]

/-- **Completion is final**: once the close callback has returned, no event changes that. -/
theorem C05_finished_is_final (cfg : Cfg) (evs : List Ev) (ev : Ev) (h : (reach cfg evs).cstage = .finished) :
    (reach cfg (evs ++ [ev])).cstage = .finished := by
  have hc : (reach cfg evs).closed = true := (runEvs_InvA cfg evs).closed_iff.mpr (by rw [h]; simp)
  have : reach cfg (evs ++ [ev]) = step cfg (reach cfg evs) ev := by simp [reach, runEvs, List.foldl_append]
  rw [this]
  exact step_finished_final cfg _ ev hc h

/-! ### non-vacuity: concrete lifetimes -/

private def cfg1 : Cfg :=
  { msgBeh := fun _ => .ret, cbBeh := .await 1, hasCb := true, dispatchOnConnect := true, hasMsgCb := true, fixLogin := false }

/-- peer logout while the dispatcher is idle: reader closes; callback awaits twice -/
example : (reach cfg1 [.connect, .run .D, .data [.msg 3, .logout], .run .R, .run .D, .run .D, .run .R, .run .D, .run .R,
    .run .R, .run .R]).trace =
    [.msgEnter 3, .msgExit 3, .tclose, .cbEnter, .cbExit] := by decide

example : (reach cfg1 [.connect, .run .D, .data [.msg 3, .logout], .run .R, .run .D, .run .D, .run .R, .run .D, .run .R,
    .run .R, .run .R]).cstage = .finished := by decide

/-- two competing closes: user `close()` and a peer disconnect -/
example : (reach cfg1 [.connect, .callClose 1, .eof, .run .D, .run (.U 1), .run .R, .run (.U 1), .run (.U 1), .run (.U 1)]).trace =
    [.tclose, .cbEnter, .cbExit, .ret 1 .ok] := by decide

end NasdaqModel.Props.C05
