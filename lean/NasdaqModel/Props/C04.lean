import NasdaqModel.Lemmas.SessionLemmas3
/-
C04 — messages reach the consumer in order, without gaps, duplicates or inventions; a cancelled receive is clean.

Theorems about the session machine (`Model/Session.lean`) for every configuration and every event sequence: any
segmentation into `data` events, any interleaving of reader polls, dispatcher steps, handler steps of any length,
receive / receive_nowait / login calls, cancellations, and closes.
-/
namespace NasdaqModel.Props.C04
open NasdaqModel Sess

abbrev reach (cfg : Cfg) (evs : List Ev) : St := runEvs cfg {} evs

/-- **What the consumer observes is what the model counts as handed over**: the messages named by `msgEnter`, by a
    returning receive and by the login reply, in order, are exactly the `taken` list. -/
theorem C04_delivered_is_taken (cfg : Cfg) (evs : List Ev) :
    delivered (reach cfg evs).trace = (reach cfg evs).taken :=
  (runEvs_InvG cfg evs).deliv

/-- **Conservation of messages.** Everything the reader took off the wire is, in order, either gone for good
    (delivered: `C04_nothing_lost`), held for the pending receive, or still queued; and the frames the reader
    took plus the frames still buffered are exactly the frames received. -/
theorem C04_flow (cfg : Cfg) (evs : List Ev) :
    (reach cfg evs).gone.map (·.1) ++ (reach cfg evs).vres.toList ++ (reach cfg evs).queue
      = msgsOf (reach cfg evs).consumed ∧
    (reach cfg evs).consumed ++ (reach cfg evs).buf = (reach cfg evs).wire := by
  have i := runEvs_InvG cfg evs
  exact ⟨by rw [i.flow, i.recvd], i.wire⟩

private theorem gone_all_taken (g : List (Nat × Bool)) (h : (g.filter (fun p => !p.2)).map (·.1) = []) :
    g.map (·.1) = (g.filter (·.2)).map (·.1) := by
  induction g with
  | nil => rfl
  | cons p g ih =>
    obtain ⟨n, b⟩ := p
    cases b with
    | true => simp at h ⊢; exact ih (by simpa using h)
    | false => simp at h

/-- **Nothing is dropped.** No message ever leaves the queue other than into the hands of a consumer: since the repair of
    C04-late-cancel-loses-message a cancelled receive puts the message its helper task held back in front of the queue
    (the previous semantics is kept, with the history on which it loses a message, in `Witness/C04Late.lean`). -/
theorem C04_nothing_lost (cfg : Cfg) (evs : List Ev) : (reach cfg evs).lost = [] :=
  (runEvs_InvG cfg evs).lost

/-- **Exact accounting.** What has been delivered, then the message held for the pending receive, then the queue, is exactly
    the sequence of messages the reader has decoded so far — in every reachable state, whatever was cancelled. -/
theorem C04_accounting (cfg : Cfg) (evs : List Ev) :
    delivered (reach cfg evs).trace ++ (reach cfg evs).vres.toList ++ (reach cfg evs).queue = msgsOf (reach cfg evs).consumed := by
  have i := runEvs_InvG cfg evs
  have ht : (reach cfg evs).taken = (reach cfg evs).gone.map (·.1) := (gone_all_taken _ i.lost).symm
  rw [i.deliv]
  show (reach cfg evs).taken ++ _ ++ _ = _
  rw [ht, i.flow, i.recvd]

/-- **Prefix (the property).** The sequence handed to the consumer is a prefix of the decodable messages carried by the
    frames received so far: same order, nothing skipped, nothing twice, nothing that was not sent — for every configuration
    and every event sequence, late cancels of receives included. -/
theorem C04_prefix (cfg : Cfg) (evs : List Ev) :
    delivered (reach cfg evs).trace <+: msgsOf (reach cfg evs).wire := by
  have i := runEvs_InvG cfg evs
  rw [← i.wire, msgsOf_append, ← C04_accounting cfg evs]
  exact ⟨(reach cfg evs).vres.toList ++ (reach cfg evs).queue ++ msgsOf (reach cfg evs).buf, by simp⟩

theorem reach_snoc (cfg : Cfg) (evs : List Ev) (e : Ev) : reach cfg (evs ++ [e]) = step cfg (reach cfg evs) e := by
  simp [reach, runEvs, List.foldl_append]

theorem reach_snoc2 (cfg : Cfg) (evs : List Ev) (e1 e2 : Ev) :
    reach cfg (evs ++ [e1, e2]) = step cfg (step cfg (reach cfg evs) e1) e2 := by
  simp [reach, runEvs, List.foldl_append]

/-- **A cancelled receive consumes no message, and the next receive returns the next undelivered message.**
    In any reachable state, let the cancellation of user task `u` be delivered inside its `receive_msg()` — early (the helper
    task was cancelled with it) or *late* (the helper had already taken a message off the queue, `vres = some n`: the window of
    the former finding).  Then the caller sees the cancellation (the end-of-queue error if the queue was stopped meanwhile),
    nothing is delivered, no receive is pending any more, and the undelivered messages are all still there, in order, in front
    of the next reader: the held message first, then the queue.  Delivered ++ queue is exactly what the reader has decoded;
    and the next `receive_msg_nowait()` returns precisely the first undelivered message (the held one, if there was one). -/
theorem C04_cancelled_receive_consumes_nothing (cfg : Cfg) (evs : List Ev) (u : Nat)
    (hst : (reach cfg evs).status (.U u) = .cancelled) (hp : (reach cfg evs).prog (.U u) = .recvWait u) :
    let s := reach cfg evs
    let s' := reach cfg (evs ++ [.run (.U u)])
    s'.trace = s.trace ++ [.ret u (if s.qClosed then .eoq else .cancelled)] ∧
    delivered s'.trace = delivered s.trace ∧
    s'.vres = none ∧ s'.rcvBusy = false ∧ s'.queue = s.vres.toList ++ s.queue ∧
    delivered s'.trace ++ s'.queue = msgsOf s'.consumed ∧
    (∀ n q u', s'.queue = n :: q → s'.dispSet = false →
      (reach cfg (evs ++ [.run (.U u), .callRecvNowait u'])).trace = s'.trace ++ [.ret u' (.msg n)] ∧
      (reach cfg (evs ++ [.run (.U u), .callRecvNowait u'])).queue = q) := by
  intro s s'
  have e : s' = step cfg s (.run (.U u)) := reach_snoc cfg evs _
  have hst' : s.status (.U u) = .cancelled := hst
  have hp' : s.prog (.U u) = .recvWait u := hp
  have h1 : s'.trace = s.trace ++ [.ret u (if s.qClosed then .eoq else .cancelled)] ∧ s'.vres = none ∧ s'.rcvBusy = false ∧
      s'.queue = s.vres.toList ++ s.queue := by
    rw [e]
    cases hq : s.qClosed <;>
      simp [step, runnable, hst', stepRun, hp', hq, St.emit, St.finish]
  obtain ⟨ht, hv, hb, hqu⟩ := h1
  have hd : delivered s'.trace = delivered s.trace := by
    rw [ht, delivered_append]
    cases s.qClosed <;> simp [deliveredObs]
  have hacc := C04_accounting cfg (evs ++ [.run (.U u)])
  refine ⟨ht, hd, hv, hb, hqu, ?_, ?_⟩
  · show delivered s'.trace ++ s'.queue = msgsOf s'.consumed
    have : delivered s'.trace ++ s'.vres.toList ++ s'.queue = msgsOf s'.consumed := hacc
    rw [hv] at this; simpa using this
  · intro n q u' hq hds
    have e2 : reach cfg (evs ++ [.run (.U u), .callRecvNowait u']) = step cfg s' (.callRecvNowait u') := by
      rw [reach_snoc2, e]
    rw [e2]
    simp [step, hb, hv, hds, hq, St.emit]

/-- … and so does the next blocking `receive_msg()`: on a state with no receive pending, no dispatcher, no live helper task
    and a non-empty queue it returns the first queued message without suspending (state-level; after a cancelled receive the
    first three hold by `C04_cancelled_receive_consumes_nothing`, the helper of the cancelled receive has ended). -/
theorem C04_receive_returns_head (cfg : Cfg) (s : St) (u : Nat) (n : Nat) (q : List Nat)
    (hb : s.rcvBusy = false) (hv : s.vres = none) (hV : alive (s.status .V) = false) (hd : s.dispSet = false)
    (hu : s.status (.U u) = .absent) (hq : s.queue = n :: q) :
    (step cfg (step cfg s (.callRecv u)) (.run (.U u))).trace = s.trace ++ [.ret u (.msg n)] ∧
    (step cfg (step cfg s (.callRecv u)) (.run (.U u))).queue = q ∧
    (step cfg (step cfg s (.callRecv u)) (.run (.U u))).vres = none := by
  simp [step, startRecv, hb, hv, hV, hd, hu, hq, runnable, St.setStatus, St.setProg, stepRun, St.emit, St.finish]

/-- **Order, no duplicates, no inventions** (a consequence of `C04_prefix`, kept with its independent proof): what the
    consumer saw is a subsequence of what was sent: never reordered, never duplicated, never invented. -/
theorem C04_sublist (cfg : Cfg) (evs : List Ev) :
    List.Sublist (delivered (reach cfg evs).trace) (msgsOf (reach cfg evs).wire) := by
  have i := runEvs_InvG cfg evs
  obtain ⟨hf, hw⟩ := C04_flow cfg evs
  rw [i.deliv, ← hw, msgsOf_append, ← hf]
  unfold St.taken
  have h1 : List.Sublist (((reach cfg evs).gone.filter (·.2)).map (·.1)) ((reach cfg evs).gone.map (·.1)) :=
    List.Sublist.map _ List.filter_sublist
  refine h1.trans ?_
  simp only [List.append_assoc]
  exact List.sublist_append_left _ _

/-- **Dispatch delivers the head of the queue**: a dispatcher step on an open session with a non-empty queue enters the
    message callback for the *first* queued message (together with `C07_poll_consumes_one_frame`: every fully received
    message is delivered after a bounded number of reader polls and dispatcher steps, while handlers return). -/
theorem C04_dispatch_delivers_head (cfg : Cfg) (s : St) (n : Nat) (q : List Nat)
    (hD : s.status .D = .ready) (hp : s.prog .D = .dispLoop) (hq : s.qClosed = false) (hb : s.rcvBusy = false)
    (hv : s.vres = none) (hqu : s.queue = n :: q) :
    delivered (step cfg s (.run .D)).trace = delivered s.trace ++ [n] ∧
      (step cfg s (.run .D)).queue = q ∧ (step cfg s (.run .D)).vres = none := by
  have e : step cfg s (.run .D) = dispHandle cfg
      (({ s with imm := none, queue := q, gone := s.gone ++ [(n, true)] } : St).emit (.msgEnter n)) n := by
    simp [step, runnable, hD, stepRun, hp, stepDisp, hq, hb, hv, hqu]
  have g := gcore_dispHandle cfg (({ s with imm := none, queue := q, gone := s.gone ++ [(n, true)] } : St).emit (.msgEnter n)) n
  rw [← e] at g
  simp only [gcore, Prod.mk.injEq] at g
  obtain ⟨_, _, _, _, gq, gv, _, gd⟩ := g
  refine ⟨?_, gq, by rw [gv]; exact hv⟩
  rw [gd]
  show delivered (s.trace ++ [.msgEnter n]) = _
  rw [delivered_append]; rfl

/-- **A cancelled receive is clean.** A receive blocked on an empty queue of an open session that the caller cancels
    ends with the cancellation (not the end-of-queue error), consumes nothing, and leaves the session usable: the
    queue, the delivered sequence and the closed flag are untouched and the next receive may start. -/
theorem C04_cancel_waiting (cfg : Cfg) (s : St) (u : Nat)
    (hU : s.status (.U u) = .waitT .V) (hpU : s.prog (.U u) = .recvWait u)
    (hV : s.status .V = .waitQ) (hpV : s.prog .V = .vget) (hq : s.qClosed = false) (hv : s.vres = none) :
    let s' := step cfg (step cfg (step cfg s (.cancel u)) (.run .V)) (.run (.U u))
    s'.trace = s.trace ++ [.ret u .cancelled] ∧ s'.queue = s.queue ∧ s'.gone = s.gone ∧ s'.closed = s.closed ∧
      s'.rcvBusy = false ∧ s'.vres = none ∧ alive (s'.status .V) = false := by
  simp [step, St.cancelTask, hU, hV, runnable, St.setStatus, stepRun, hpV, St.finish, hpU, hv, hq, St.emit, alive]

end NasdaqModel.Props.C04
