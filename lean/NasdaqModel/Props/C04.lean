import NasdaqModel.Lemmas.SessionLemmas3
/-
C04 — messages reach the consumer in order, without gaps, duplicates or inventions; a cancelled receive is clean.

Theorems about the session machine (`Model/Session.lean`) for every configuration and every event sequence: any
segmentation into `data` events, any interleaving of reader polls, dispatcher steps, handler steps of any length,
receive / receive_nowait / login calls, cancellations, and closes.
-/
namespace NasdaqModel.Props.C04
open NasdaqModel Sess

abbrev reach (cfg : Cfg) (evs : List Ev) : St := runEvs cfg {} evs

/-- **What the consumer observes is what the model counts as handed over**: the messages named by `msgEnter`, by a
    returning receive and by the login reply, in order, are exactly the `taken` list. -/
theorem C04_delivered_is_taken (cfg : Cfg) (evs : List Ev) :
    delivered (reach cfg evs).trace = (reach cfg evs).taken :=
  (runEvs_InvG cfg evs).deliv

/-- **Conservation of messages.** Everything the reader took off the wire is, in order, either gone for good
    (delivered, or dropped by a late cancel), held for the pending receive, or still queued; and the frames the reader
    took plus the frames still buffered are exactly the frames received. -/
theorem C04_flow (cfg : Cfg) (evs : List Ev) :
    (reach cfg evs).gone.map (·.1) ++ (reach cfg evs).vres.toList ++ (reach cfg evs).queue
      = msgsOf (reach cfg evs).consumed ∧
    (reach cfg evs).consumed ++ (reach cfg evs).buf = (reach cfg evs).wire := by
  have i := runEvs_InvG cfg evs
  exact ⟨by rw [i.flow, i.recvd], i.wire⟩

private theorem gone_all_taken (g : List (Nat × Bool)) (h : (g.filter (fun p => !p.2)).map (·.1) = []) :
    g.map (·.1) = (g.filter (·.2)).map (·.1) := by
  induction g with
  | nil => rfl
  | cons p g ih =>
    obtain ⟨n, b⟩ := p
    cases b with
    | true => simp at h ⊢; exact ih (by simpa using h)
    | false => simp at h

/-- **Prefix (the property, for histories without a late cancel).** If no message was dropped by a late cancel, the
    sequence handed to the consumer is a prefix of the decodable messages carried by the frames received so far:
    same order, nothing skipped, nothing twice, nothing that was not sent.
    The hypothesis excludes exactly the known finding witnessed in `Witness/C04.lean`. -/
theorem C04_prefix_partial (cfg : Cfg) (evs : List Ev) (hl : (reach cfg evs).lost = []) :
    delivered (reach cfg evs).trace <+: msgsOf (reach cfg evs).wire := by
  have i := runEvs_InvG cfg evs
  obtain ⟨hf, hw⟩ := C04_flow cfg evs
  rw [i.deliv]
  have ht : (reach cfg evs).gone.map (·.1) = (reach cfg evs).taken := gone_all_taken _ hl
  rw [← hw, msgsOf_append, ← hf, ht]
  exact ⟨(reach cfg evs).vres.toList ++ (reach cfg evs).queue ++ msgsOf (reach cfg evs).buf, by simp⟩

/-- **Order, no duplicates, no inventions — unconditionally.** Even when a late cancel dropped messages, what the
    consumer saw is a subsequence of what was sent: never reordered, never duplicated, never invented. -/
theorem C04_sublist (cfg : Cfg) (evs : List Ev) :
    List.Sublist (delivered (reach cfg evs).trace) (msgsOf (reach cfg evs).wire) := by
  have i := runEvs_InvG cfg evs
  obtain ⟨hf, hw⟩ := C04_flow cfg evs
  rw [i.deliv, ← hw, msgsOf_append, ← hf]
  unfold St.taken
  have h1 : List.Sublist (((reach cfg evs).gone.filter (·.2)).map (·.1)) ((reach cfg evs).gone.map (·.1)) :=
    List.Sublist.map _ List.filter_sublist
  refine h1.trans ?_
  simp only [List.append_assoc]
  exact List.sublist_append_left _ _

/-- **Dispatch delivers the head of the queue**: a dispatcher step on an open session with a non-empty queue enters the
    message callback for the *first* queued message (together with `C07_poll_consumes_one_frame`: every fully received
    message is delivered after a bounded number of reader polls and dispatcher steps, while handlers return). -/
theorem C04_dispatch_delivers_head (cfg : Cfg) (s : St) (n : Nat) (q : List Nat)
    (hD : s.status .D = .ready) (hp : s.prog .D = .dispLoop) (hq : s.qClosed = false) (hb : s.rcvBusy = false)
    (hv : s.vres = none) (hqu : s.queue = n :: q) :
    delivered (step cfg s (.run .D)).trace = delivered s.trace ++ [n] ∧
      (step cfg s (.run .D)).queue = q ∧ (step cfg s (.run .D)).vres = none := by
  have e : step cfg s (.run .D) = dispHandle cfg
      (({ s with imm := none, queue := q, gone := s.gone ++ [(n, true)] } : St).emit (.msgEnter n)) n := by
    simp [step, runnable, hD, stepRun, hp, stepDisp, hq, hb, hv, hqu]
  have g := gcore_dispHandle cfg (({ s with imm := none, queue := q, gone := s.gone ++ [(n, true)] } : St).emit (.msgEnter n)) n
  rw [← e] at g
  simp only [gcore, Prod.mk.injEq] at g
  obtain ⟨_, _, _, _, gq, gv, _, gd⟩ := g
  refine ⟨?_, gq, by rw [gv]; exact hv⟩
  rw [gd]
  show delivered (s.trace ++ [.msgEnter n]) = _
  rw [delivered_append]; rfl

/-- **A cancelled receive is clean.** A receive blocked on an empty queue of an open session that the caller cancels
    ends with the cancellation (not the end-of-queue error), consumes nothing, and leaves the session usable: the
    queue, the delivered sequence and the closed flag are untouched and the next receive may start. -/
theorem C04_cancel_waiting (cfg : Cfg) (s : St) (u : Nat)
    (hU : s.status (.U u) = .waitT .V) (hpU : s.prog (.U u) = .recvWait u)
    (hV : s.status .V = .waitQ) (hpV : s.prog .V = .vget) (hq : s.qClosed = false) (hv : s.vres = none) :
    let s' := step cfg (step cfg (step cfg s (.cancel u)) (.run .V)) (.run (.U u))
    s'.trace = s.trace ++ [.ret u .cancelled] ∧ s'.queue = s.queue ∧ s'.gone = s.gone ∧ s'.closed = s.closed ∧
      s'.rcvBusy = false ∧ s'.vres = none ∧ alive (s'.status .V) = false := by
  simp [step, St.cancelTask, hU, hV, runnable, St.setStatus, stepRun, hpV, St.finish, hpU, hv, hq, St.emit, alive]

end NasdaqModel.Props.C04
