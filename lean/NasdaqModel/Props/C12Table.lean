import NasdaqModel.Model.Soup
import NasdaqModel.Extracted.SoupTable
/-
C12 — the decoder's dispatch, sizes and classification, pinned to the running library for a whole finite table.

`Extracted/SoupTable.lean` is regenerated from the live library on every run (harness/extract_c12.py): the outcome of
`SoupMessage.from_bytes` on the 3- and 4-byte packet of each of the 256 type bytes and, for every registered indicator, on packets of
every total length 3..52 with three fillers.  The theorems say the model computes the same outcome on EVERY row (kernel evaluation of the
whole table, no sampling): a change of a struct format, of the dispatch on byte 2, of a heartbeat / logout flag or of an exception class in
the code regenerates a different table and the proof no longer checks.
-/
namespace NasdaqModel.Props.C12Table
open NasdaqModel Py Soup

/-- index in harness/extract_c12.py `KINDS` -/
def kindIdx : Pkt → Nat
  | .loginReq .. => 0 | .loginAcc .. => 1 | .loginRej .. => 2 | .seqData .. => 3 | .unseqData .. => 4 | .debug .. => 5
  | .clientHb => 6 | .serverHb => 7 | .endOfSession => 8 | .logoutReq => 9

/-- index in harness/extract_c12.py `ERRS` -/
def errIdx : Err → Nat
  | .overflow => 0 | .unicode => 1 | .value => 2 | .key => 3 | .struct => 4 | .type => 5 | .index => 6 | .invalidSoup => 7
  | .state => 8 | .eoq => 9 | .cancelled => 10 | .timeout => 11 | .dup => 12 | .attr => 13 | .refused => 14 | .other => 15

def probeBytes (t n fill : Nat) : Bytes := [0, n - 2, t] ++ List.replicate (n - 3) fill

/-- the model's outcome code for one probe: kind (+10 heartbeat, +20 logout) or 100 + exception class -/
def outcomeCode (b : Bytes) : Nat :=
  match decode b with
  | .ok p => kindIdx p + (if p.isHeartbeat then 10 else 0) + (if p.isLogout then 20 else 0)
  | .error e => 100 + errIdx e

def rowOK (r : Nat × Nat × Nat × Nat) : Bool := outcomeCode (probeBytes r.1 r.2.1 r.2.2.1) == r.2.2.2

/-- **Every row of the probed table**: the model decodes the probe packet to the same kind with the same heartbeat / logout flags, or
    fails with the same exception class, as the running library. -/
theorem C12_probe_table_agrees : Extracted.soupProbeTable.all rowOK = true := by decide +kernel

/-- the table is the whole domain it claims: all 256 type bytes at lengths 3 and 4 -/
theorem C12_probe_table_covers_all_types :
    (List.range 256).all (fun t => Extracted.soupProbeTable.any (fun r => r.1 == t && r.2.1 == 3) &&
                                   Extracted.soupProbeTable.any (fun r => r.1 == t && r.2.1 == 4)) = true := by decide +kernel

/-- exactly the registered indicators decode to something; every other type byte is an invalid packet -/
theorem C12_known_types_are_the_registered_ones :
    (List.range 256).all (fun t =>
      (outcomeCode (probeBytes t 3 65) != 100 + errIdx .invalidSoup || outcomeCode (probeBytes t 4 65) != 100 + errIdx .invalidSoup)
        == Extracted.soupIndicators.contains t) = true := by decide +kernel

example : outcomeCode (probeBytes 72 3 65) = 17 := by decide          -- ServerHeartbeat: kind 7, heartbeat
example : outcomeCode (probeBytes 76 49 49) = 0 := by decide +kernel  -- a 49-byte LoginRequest of '1's decodes

end NasdaqModel.Props.C12Table
