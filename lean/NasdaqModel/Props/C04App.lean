import NasdaqModel.Lemmas.AppSessionLemmasF
import NasdaqModel.Props.C04
/-
C04, application sessions — what the ITCH / OUCH / SQF / ASN.1 application session hands to its consumer is, in order and
without gaps, duplicates or inventions, the decoded payloads of the messages the SoupBinTCP session handed to it; composed with
the theorems about the inner session machine (`Props/C04.lean`): a prefix / subsequence of the decodable messages on the wire.

Theorems about the product machine `Model/AppSession.lean` (inner session machine × application layer) for **every**
configuration — any `decode` (`skip` = not a SequencedData packet, `fail` = decode raises, `val v` = any value, falsy ones
included), pull mode or callback mode, callbacks of any behaviour — and **every** event sequence: any interleaving of inner
events, second-dispatcher / receive-helper / user-task steps, `receive_message()` calls, cancellations and closes.
-/
namespace NasdaqModel.Props.C04App
open NasdaqModel App

abbrev reach (a : ACfg) (evs : List Ev) : St := runEvs a {} evs

/-- **The soup session beneath is a legal soup session.** The inner component of every reachable state of the product machine
    is a state of the inner session machine reached by an event sequence of its own: C04 – C07 hold for it verbatim. -/
theorem C04App_inner_reachable (a : ACfg) (evs : List Ev) :
    ∃ es, (reach a evs).inner = Sess.runEvs (innerCfg a) {} es :=
  runEvs_reach a evs

/-- **What the application consumer observes is what the model counts as handed over**: the values named by the application
    `msgEnter` and by a returning `receive_message()`, in order, are exactly the `taken2` list. -/
theorem C04App_delivered_is_taken (a : ACfg) (evs : List Ev) :
    appDelivered (reach a evs).trace2 = (reach a evs).taken2 :=
  (runEvs_InvF a evs).deliv

/-- **Conservation through the second stage.** The decoded payloads of the inner messages handed to `_on_soup_message`
    (undecodable ones and non-data packets dropped) are, in order: gone for good (handed to the application consumer:
    `C04App_nothing_lost`), held for the pending `receive_message()`, or still in the second queue. -/
theorem C04App_flow (a : ACfg) (evs : List Ev) :
    (reach a evs).gone2.map (·.1) ++ (reach a evs).vres2.toList ++ (reach a evs).q2
      = (entered (reach a evs).inner.trace).filterMap (valOf a) := by
  have i := runEvs_InvF a evs
  rw [i.flow, i.fed_eq]

private theorem gone_all_taken (g : List (Nat × Bool)) (h : (g.filter (fun p => !p.2)).map (·.1) = []) :
    g.map (·.1) = (g.filter (·.2)).map (·.1) := by
  induction g with
  | nil => rfl
  | cons p g ih =>
    obtain ⟨n, b⟩ := p
    cases b with
    | true => simp at h ⊢; exact ih (by simpa using h)
    | false => simp at h

/-- **Nothing is dropped, on either queue.** Since the repair of C04-late-cancel-loses-message a cancelled receive puts the
    value its helper task held back in front of the queue (same class, `DispatchableMessageQueue`, on both stages); the previous
    semantics and the history on which it loses a value are kept in `Witness/C04App.lean`. -/
theorem C04App_nothing_lost (a : ACfg) (evs : List Ev) : (reach a evs).lost2 = [] ∧ (reach a evs).inner.lost = [] := by
  refine ⟨(runEvs_InvF a evs).lost, ?_⟩
  obtain ⟨es, he⟩ := runEvs_reach a evs
  rw [he]; exact C04.C04_nothing_lost (innerCfg a) es

/-- **Exact accounting on the second stage.** Delivered, then held for the pending `receive_message()`, then queued = the
    decoded payloads handed to `_on_soup_message`, in every reachable state, whatever was cancelled. -/
theorem C04App_accounting (a : ACfg) (evs : List Ev) :
    appDelivered (reach a evs).trace2 ++ (reach a evs).vres2.toList ++ (reach a evs).q2
      = (entered (reach a evs).inner.trace).filterMap (valOf a) := by
  have i := runEvs_InvF a evs
  have ht : (reach a evs).gone2.map (·.1) = (reach a evs).taken2 := gone_all_taken _ i.lost
  rw [i.deliv, ← ht]
  exact C04App_flow a evs

/-- **Prefix through the second stage.** What the application consumer was handed is a prefix of `decode` applied to what the
    soup session delivered to the application session — every history, late cancels of `receive_message()` included. -/
theorem C04App_prefix (a : ACfg) (evs : List Ev) :
    appDelivered (reach a evs).trace2 <+: (entered (reach a evs).inner.trace).filterMap (valOf a) := by
  rw [← C04App_accounting a evs]
  exact ⟨(reach a evs).vres2.toList ++ (reach a evs).q2, by simp⟩

/-- **Order, no duplicates, no inventions through the second stage** (a consequence of `C04App_prefix`, kept with its own proof). -/
theorem C04App_sublist (a : ACfg) (evs : List Ev) :
    List.Sublist (appDelivered (reach a evs).trace2) ((entered (reach a evs).inner.trace).filterMap (valOf a)) := by
  have i := runEvs_InvF a evs
  rw [i.deliv, ← C04App_flow a evs]
  unfold St.taken2
  have h1 : List.Sublist (((reach a evs).gone2.filter (·.2)).map (·.1)) ((reach a evs).gone2.map (·.1)) :=
    List.Sublist.map _ List.filter_sublist
  refine h1.trans ?_
  simp only [List.append_assoc]
  exact List.sublist_append_left _ _

/-! ### composition with the inner stage -/

/-- the inner messages taken by pull — `receive_msg()` results and the login reply — rather than handed to `_on_soup_message` -/
def pulled (l : List Sess.Obs) : List Nat := l.filterMap fun o => match o with
  | .ret _ (.msg n) => some n
  | .loginReply n => some n
  | _ => none

private theorem entered_cons (o : Sess.Obs) (l : List Sess.Obs) :
    entered (o :: l) = (match o with | .msgEnter n => [n] | _ => []) ++ entered l := by
  cases o <;> simp [entered]

private theorem delivered_cons (o : Sess.Obs) (l : List Sess.Obs) :
    Sess.delivered (o :: l) = (Sess.deliveredObs o).toList ++ Sess.delivered l := by
  unfold Sess.delivered
  rw [List.filterMap_cons]
  cases Sess.deliveredObs o <;> simp

private theorem pulled_cons (o : Sess.Obs) (l : List Sess.Obs) :
    pulled (o :: l) = (match o with | .ret _ (.msg n) => [n] | .loginReply n => [n] | _ => []) ++ pulled l := by
  cases o with
  | ret u r => cases r <;> simp [pulled]
  | _ => simp [pulled]

private theorem entered_sublist_delivered (l : List Sess.Obs) : List.Sublist (entered l) (Sess.delivered l) := by
  induction l with
  | nil => exact List.Sublist.slnil
  | cons o l ih =>
    rw [entered_cons, delivered_cons]
    cases o with
    | msgEnter n => exact List.Sublist.append (List.Sublist.refl _) ih
    | loginReply n => exact (ih.cons n)
    | ret u r =>
      cases r with
      | msg n => exact (ih.cons n)
      | _ => exact ih
    | _ => exact ih

private theorem decoded_delivered_eq (g : Nat → Option Nat) (l : List Sess.Obs) (h : ∀ n ∈ pulled l, g n = none) :
    (Sess.delivered l).filterMap g = (entered l).filterMap g := by
  induction l with
  | nil => rfl
  | cons o l ih =>
    rw [pulled_cons] at h
    have ih := ih (fun n hn => h n (List.mem_append_right _ hn))
    rw [entered_cons, delivered_cons, List.filterMap_append, List.filterMap_append, ih]
    congr 1
    cases o with
    | msgEnter n => rfl
    | loginReply n =>
      have hn : g n = none := h n (by simp)
      simp [Sess.deliveredObs, hn]
    | ret u r =>
      cases r with
      | msg n =>
        have hn : g n = none := h n (by simp)
        simp [Sess.deliveredObs, hn]
      | _ => rfl
    | _ => rfl

/-- **Order, no duplicates, no inventions — from the wire to the application consumer, unconditionally.** Whatever the
    consumer mode of either stage, whatever is cancelled and when: the values handed to the application consumer are a
    subsequence of `decode` applied to the messages carried by the frames received so far. -/
theorem C04App_wire_sublist (a : ACfg) (evs : List Ev) :
    List.Sublist (appDelivered (reach a evs).trace2)
      ((Sess.msgsOf (reach a evs).inner.wire).filterMap (valOf a)) := by
  obtain ⟨es, he⟩ := runEvs_reach a evs
  have h1 := C04App_sublist a evs
  have h2 : List.Sublist (Sess.delivered (reach a evs).inner.trace) (Sess.msgsOf (reach a evs).inner.wire) := by
    rw [he]; exact C04.C04_sublist (innerCfg a) es
  exact h1.trans (((entered_sublist_delivered _).trans h2).filterMap _)

/-- **Prefix — from the wire to the application consumer (the property).** If the messages the soup session handed out by
    pull — the login reply — are not application data (well-formedness of the deployment: `login()` consumes the acceptance;
    the `example` at the end of the file satisfies it), the values handed to the application consumer are a prefix of the
    decodable application messages carried by the bytes received so far: same order, nothing skipped, nothing twice, nothing that
    was not sent; pull and callback mode, any decoded value (falsy ones included), cancelled receives — late cancels on either
    queue included (no exclusion any more). -/
theorem C04App_wire_prefix (a : ACfg) (evs : List Ev)
    (hp : ∀ n ∈ pulled (reach a evs).inner.trace, valOf a n = none) :
    appDelivered (reach a evs).trace2 <+: (Sess.msgsOf (reach a evs).inner.wire).filterMap (valOf a) := by
  obtain ⟨es, he⟩ := runEvs_reach a evs
  have h1 := C04App_prefix a evs
  have h2 : Sess.delivered (reach a evs).inner.trace <+: Sess.msgsOf (reach a evs).inner.wire := by
    rw [he]; exact C04.C04_prefix (innerCfg a) es
  rw [← decoded_delivered_eq (valOf a) _ hp] at h1
  obtain ⟨r, hr⟩ := h2
  refine h1.trans ?_
  rw [← hr, List.filterMap_append]
  exact List.prefix_append _ _

/-! ### single steps -/

/-- **The second dispatcher delivers the head of the second queue**: a step of `D2` on a non-stopped application queue with
    `v` at its head enters the application message callback for `v` — and for no other value; the rest of the queue stays as it
    is (stated for callbacks that do not close the session at once: such a callback carries out the close of the soup session
    within this very step, see `Model/AppSession.lean` `closeOnD2`; that nothing is lost or reordered then is `C04App_flow`). -/
theorem C04App_dispatch_delivers_head (a : ACfg) (s : St) (v : Nat) (q : List Nat)
    (hD : s.astatus .D2 = .ready) (hp : s.aprog .D2 = .dispLoop) (hq : s.q2Closed = false) (hb : s.rcv2Busy = false)
    (hv : s.vres2 = none) (hqu : s.q2 = v :: q) (hi : InvF a s) :
    appDelivered (step a s (.run .D2)).trace2 = appDelivered s.trace2 ++ [v] ∧
    (a.msgBeh v ≠ .close → (step a s (.run .D2)).q2 = q) := by
  have e : step a s (.run .D2) = dispHandle2 a
      (({ s with imm2 := false, q2 := q, gone2 := s.gone2 ++ [(v, true)] } : St).emit2 (.msgEnter v)) v := by
    simp [step, runnable2, hD, stepRun2, hp, stepDisp2, hq, hb, hv, hqu]
  have i1 : InvF a (({ s with imm2 := false, q2 := q, gone2 := s.gone2 ++ [(v, true)] } : St).emit2 (.msgEnter v)) :=
    InvF.deliver_head (s := { s with imm2 := false }) (InvF.of_fcore (s := s) (s' := { s with imm2 := false }) rfl hi) hqu hv rfl
  have i2 := dispHandle2_InvF i1 v
  rw [← e] at i2
  have hg : (step a s (.run .D2)).gone2 = s.gone2 ++ [(v, true)] ∧ (a.msgBeh v ≠ .close → (step a s (.run .D2)).q2 = q) := by
    rw [e]
    obtain ⟨h1, h2⟩ := dispHandle2_q2_gone2 a
      (({ s with imm2 := false, q2 := q, gone2 := s.gone2 ++ [(v, true)] } : St).emit2 (.msgEnter v)) v
    exact ⟨h2, h1⟩
  refine ⟨?_, hg.2⟩
  rw [i2.deliv, hi.deliv]
  unfold St.taken2
  rw [hg.1, taken2_append_true]

/-- **A cancelled `receive_message()` is clean.** A receive blocked on the empty application queue of an open session that the
    caller cancels ends with the cancellation (not the end-of-queue error), consumes nothing, and the next receive may start. -/
theorem C04App_cancel_waiting (a : ACfg) (s : St) (u : Nat)
    (hW : s.astatus (.W u) = .waitV) (hpW : s.aprog (.W u) = .recvWait u)
    (hV : s.astatus .V2 = .waitQ) (hpV : s.aprog .V2 = .vget) (hq : s.q2Closed = false) (hv : s.vres2 = none) :
    let s' := step a (step a (step a s (.appCancel u)) (.run .V2)) (.run (.W u))
    s'.tr = s.tr ++ [.app (.ret u .cancelled)] ∧ s'.q2 = s.q2 ∧ s'.gone2 = s.gone2 ∧ s'.q2Closed = false ∧
      s'.rcv2Busy = false ∧ s'.vres2 = none ∧ alive2 (s'.astatus .V2) = false := by
  simp [step, St.cancel2, hW, hV, runnable2, St.setA, stepRun2, hpV, St.finish2, hpW, hv, hq, St.emit2, alive2]

theorem reach_snoc (a : ACfg) (evs : List Ev) (e : Ev) : reach a (evs ++ [e]) = step a (reach a evs) e := by
  simp [reach, runEvs, List.foldl_append]

theorem reach_snoc2 (a : ACfg) (evs : List Ev) (e1 e2 : Ev) :
    reach a (evs ++ [e1, e2]) = step a (step a (reach a evs) e1) e2 := by
  simp [reach, runEvs, List.foldl_append]

/-- **A cancelled `receive_message()` consumes no value, and the next receive returns the next undelivered value.**
    In any reachable state, let the cancellation of user task `W u` be delivered inside its `receive_message()` — early or *late*
    (the helper task had already taken a value off the application queue, `vres2 = some v`: the window of the former finding).
    The caller sees the cancellation (end-of-queue if the queue was stopped meanwhile), nothing is delivered, no receive is
    pending any more and the undelivered values are all still there, in order: the held value first, then the queue; delivered ++
    queue is exactly what was fed to the application queue; and the next `receive_message()` in pull mode returns precisely the
    first undelivered value, without suspending. -/
theorem C04App_cancelled_receive_consumes_nothing (a : ACfg) (evs : List Ev) (u : Nat)
    (hst : (reach a evs).astatus (.W u) = .cancelled) (hp : (reach a evs).aprog (.W u) = .recvWait u) :
    let s := reach a evs
    let s' := reach a (evs ++ [.run (.W u)])
    s'.trace2 = s.trace2 ++ [.ret u (if s.q2Closed then .eoq else .cancelled)] ∧
    appDelivered s'.trace2 = appDelivered s.trace2 ∧
    s'.vres2 = none ∧ s'.rcv2Busy = false ∧ s'.q2 = s.vres2.toList ++ s.q2 ∧
    appDelivered s'.trace2 ++ s'.q2 = (entered s'.inner.trace).filterMap (valOf a) ∧
    (∀ v q u', s'.q2 = v :: q → s'.disp2Set = false → s'.built = true → s'.astatus (.W u') = .absent →
      alive2 (s'.astatus .V2) = false →
      (reach a (evs ++ [.run (.W u), .appRecv u'])).trace2 = s'.trace2 ++ [.ret u' (.msg v)] ∧
      (reach a (evs ++ [.run (.W u), .appRecv u'])).q2 = q) := by
  intro s s'
  have e : s' = step a s (.run (.W u)) := reach_snoc a evs _
  have hst' : s.astatus (.W u) = .cancelled := hst
  have hp' : s.aprog (.W u) = .recvWait u := hp
  have h1 : s'.trace2 = s.trace2 ++ [.ret u (if s.q2Closed then .eoq else .cancelled)] ∧ s'.vres2 = none ∧ s'.rcv2Busy = false ∧
      s'.q2 = s.vres2.toList ++ s.q2 := by
    rw [e]
    cases hq : s.q2Closed <;>
      simp [step, runnable2, hst', stepRun2, hp', hq, St.emit2, St.finish2, St.trace2, List.filterMap_append, PObs.appOf]
  obtain ⟨ht, hv, hb, hqu⟩ := h1
  have hd : appDelivered s'.trace2 = appDelivered s.trace2 := by
    rw [ht]
    cases s.q2Closed <;> simp [appDelivered, List.filterMap_append, deliveredA]
  have hacc := C04App_accounting a (evs ++ [.run (.W u)])
  refine ⟨ht, hd, hv, hb, hqu, ?_, ?_⟩
  · have : appDelivered s'.trace2 ++ s'.vres2.toList ++ s'.q2 = (entered s'.inner.trace).filterMap (valOf a) := hacc
    rw [hv] at this; simpa using this
  · intro v q u' hq hds hbu hu' hV
    have e2 : reach a (evs ++ [.run (.W u), .appRecv u']) = step a s' (.appRecv u') := by
      rw [reach_snoc2, e]
    rw [e2]
    simp [step, startRecv2, hb, hv, hds, hq, hbu, hu', hV, St.emit2, St.setA, St.trace2, List.filterMap_append, PObs.appOf]

/-! ### non-vacuity: a concrete lifetime -/

/-- 0 = the login acceptance (not data), 4 = a payload whose decode raises, 5 = a payload that decodes to the falsy value `0` -/
private def a1 : ACfg :=
  { dec := fun n => if n = 0 then .skip else if n = 4 then .fail else if n = 5 then .val 0 else .val n
    hasMsgCb := true, msgBeh := fun _ => .ret, hasCb := true, cbBeh := .ret, closedFirst := true }

private def login : List Ev :=
  [.inner .connect, .inner (.callLogin 1), .inner (.run .V), .inner (.data [.msg 0]), .inner (.run .R), .inner (.run .V),
   .inner (.run (.U 1))]

private def life : List Ev := login ++
  [.run .D2, .inner (.run .D), .inner (.data [.msg 3, .msg 4, .msg 5, .msg 6]),
   .inner (.run .R), .inner (.run .R), .inner (.run .R), .inner (.run .R),
   .inner (.run .D), .inner (.run .D), .inner (.run .D), .inner (.run .D), .inner (.run .D),
   .run .D2, .run .D2, .run .D2, .run .D2]

set_option maxRecDepth 100000 in
example : (reach a1 life).trace2 =
    [.msgEnter 3, .msgExit 3, .msgEnter 0, .msgExit 0, .msgEnter 6, .msgExit 6] := by decide
set_option maxRecDepth 100000 in
example : (Sess.msgsOf (reach a1 life).inner.wire).filterMap (valOf a1) = [3, 0, 6] := by decide
set_option maxRecDepth 100000 in
example : pulled (reach a1 life).inner.trace = [0] ∧ valOf a1 0 = none := by decide

end NasdaqModel.Props.C04App
