import NasdaqModel.Model.Soup
/-
C12, first sentence of the statement, at the strength it is worded: "EVERY SoupBinTCP packet the library can build encodes as a
2-byte big-endian length equal to the number of bytes that follow, one type character, then the payload".

`Props/C12.lean` proves layout and round trip for well-formed packets (`wfPkt`: texts ASCII and inside the column widths).  Whether a
packet can be *built* is decided by `encode` itself, not by `wfPkt`: login fields wider than their column are cut by `struct.pack`,
sequence texts that are no numbers still encode, texts outside ASCII and payloads above 32 766 bytes do not.  The theorems below have
no well-formedness hypothesis: whenever `encode p` succeeds - for any packet value whatsoever - the bytes are a sound frame, and a
reader that splits a stream by the prefix finds exactly this packet and then exactly what follows it.
-/
namespace NasdaqModel.Props.C12Any
open NasdaqModel Py Soup

/-- the framing clause of the statement for the bytes `bs` of a packet whose type character is `ty` -/
def Framed (ty : Nat) (bs : Bytes) : Prop :=
  ∃ hi lo rest, bs = hi :: lo :: ty :: rest ∧ hi * 256 + lo = rest.length + 1 ∧ lo < 256 ∧ hi < 128

/-- the same as a decidable check (used for the non-vacuity examples and the counterexample below) -/
def framedB (ty : Nat) : Bytes → Bool
  | hi :: lo :: t :: rest => t == ty && hi * 256 + lo == rest.length + 1 && decide (lo < 256) && decide (hi < 128)
  | _ => false

theorem C12_framedB_iff (ty : Nat) (bs : Bytes) : framedB ty bs = true ↔ Framed ty bs := by
  constructor
  · intro h
    match bs, h with
    | hi :: lo :: t :: rest, h =>
      simp only [framedB, Bool.and_eq_true, beq_iff_eq, decide_eq_true_eq] at h
      obtain ⟨⟨⟨ht, hl⟩, h1⟩, h2⟩ := h
      exact ⟨hi, lo, rest, by rw [ht], hl, h1, h2⟩
  · rintro ⟨hi, lo, rest, rfl, hl, h1, h2⟩
    simp [framedB, hl, h1, h2]

private theorem header_inv (n t : Nat) (hb : Bytes) (h : header (n : Int) t = .ok hb) :
    n ≤ 32767 ∧ hb = [n / 256, n % 256, t] := by
  unfold header packBE16s at h
  by_cases hn : n ≤ 32767
  · have h1 : (-32768 : Int) ≤ (n : Int) ∧ (n : Int) ≤ 32767 := by omega
    have h2 : ((n : Int) % 65536).toNat = n := by omega
    simp only [h1, and_self, if_true, h2, ok_bind, pure_eq_ok] at h
    injection h with h
    exact ⟨hn, by rw [← h]; rfl⟩
  · have h1 : ¬ ((-32768 : Int) ≤ (n : Int) ∧ (n : Int) ≤ 32767) := by omega
    rw [if_neg h1] at h
    simp only [err_bind] at h
    cases h

private theorem packNs_length (n : Nat) (v : Bytes) : (packNs n v).length = n := by
  unfold packNs
  simp only [List.length_append, List.length_take, List.length_replicate]
  omega

private theorem encodeAscii_inv {s : Str} {b : Bytes} (h : encodeAscii s = .ok b) : b = s := by
  unfold encodeAscii at h
  split at h
  · injection h with h; exact h.symm
  · cases h

private theorem bind_ok_inv {α β : Type} {x : Except Err α} {f : α → Except Err β} {b : β}
    (h : (x >>= f) = .ok b) : ∃ a, x = .ok a ∧ f a = .ok b := by
  cases x with
  | error e => simp only [err_bind] at h; cases h
  | ok a => exact ⟨a, rfl, by simpa only [ok_bind] using h⟩

private theorem framed_of (t : Nat) (rest : Bytes) (hr : rest.length + 1 ≤ 32767) :
    Framed t ([(rest.length + 1) / 256, (rest.length + 1) % 256, t] ++ rest) :=
  ⟨(rest.length + 1) / 256, (rest.length + 1) % 256, rest, rfl, by omega, by omega, by omega⟩

/-- **Every packet that can be built is a sound frame** - no hypothesis on the packet: whatever texts, widths, payload. -/
theorem C12_any_built_is_framed (p : Pkt) (bs : Bytes) (h : encode p = .ok bs) : Framed p.ty bs := by
  cases p with
  | loginReq u pw s q =>
    simp only [encode] at h
    obtain ⟨hb, hh, h⟩ := bind_ok_inv h
    obtain ⟨u', _, h⟩ := bind_ok_inv h
    obtain ⟨p', _, h⟩ := bind_ok_inv h
    obtain ⟨s', _, h⟩ := bind_ok_inv h
    obtain ⟨q', _, h⟩ := bind_ok_inv h
    simp only [pure_eq_ok] at h
    injection h with h
    have hh' := (header_inv 47 76 hb (by simpa using hh)).2
    subst hh'
    refine ⟨0, 47, packNs 6 u' ++ packNs 10 p' ++ packNs 10 s' ++ packNs 20 q', ?_, ?_, by omega, by omega⟩
    · rw [← h]; simp [Pkt.ty]
    · simp only [List.length_append, packNs_length]
  | loginAcc s q =>
    simp only [encode] at h
    obtain ⟨hb, hh, h⟩ := bind_ok_inv h
    obtain ⟨s', _, h⟩ := bind_ok_inv h
    obtain ⟨q', _, h⟩ := bind_ok_inv h
    simp only [pure_eq_ok] at h
    injection h with h
    have hh' := (header_inv 31 65 hb (by simpa using hh)).2
    subst hh'
    refine ⟨0, 31, packNs 10 s' ++ packNs 20 q', ?_, ?_, by omega, by omega⟩
    · rw [← h]; simp [Pkt.ty]
    · simp only [List.length_append, packNs_length]
  | loginRej r =>
    simp only [encode] at h
    obtain ⟨hb, hh, h⟩ := bind_ok_inv h
    obtain ⟨r', hr, h⟩ := bind_ok_inv h
    simp only [pure_eq_ok] at h
    injection h with h
    have hh' := (header_inv 2 74 hb (by simpa using hh)).2
    have hr' := encodeAscii_inv hr
    subst hh' hr'
    exact ⟨0, 2, [r], by rw [← h]; simp [Pkt.ty], by simp, by omega, by omega⟩
  | seqData d =>
    simp only [encode] at h
    obtain ⟨hb, hh, h⟩ := bind_ok_inv h
    simp only [pure_eq_ok] at h
    injection h with h
    have hh' := header_inv (d.length + 1) 83 hb (by simpa using hh)
    rw [← h, hh'.2]
    exact framed_of 83 d hh'.1
  | unseqData d =>
    simp only [encode] at h
    obtain ⟨hb, hh, h⟩ := bind_ok_inv h
    simp only [pure_eq_ok] at h
    injection h with h
    have hh' := header_inv (d.length + 1) 85 hb (by simpa using hh)
    rw [← h, hh'.2]
    exact framed_of 85 d hh'.1
  | debug t =>
    simp only [encode] at h
    obtain ⟨hb, hh, h⟩ := bind_ok_inv h
    obtain ⟨t', ht, h⟩ := bind_ok_inv h
    simp only [pure_eq_ok] at h
    injection h with h
    have hh' := header_inv (t.length + 1) 43 hb (by simpa using hh)
    have ht' := encodeAscii_inv ht
    rw [← h, hh'.2, ht']
    exact framed_of 43 t hh'.1
  | clientHb =>
    have hh' := (header_inv 1 82 bs (by simpa [encode] using h)).2
    exact ⟨0, 1, [], by rw [hh']; rfl, by simp, by omega, by omega⟩
  | serverHb =>
    have hh' := (header_inv 1 72 bs (by simpa [encode] using h)).2
    exact ⟨0, 1, [], by rw [hh']; rfl, by simp, by omega, by omega⟩
  | endOfSession =>
    have hh' := (header_inv 1 90 bs (by simpa [encode] using h)).2
    exact ⟨0, 1, [], by rw [hh']; rfl, by simp, by omega, by omega⟩
  | logoutReq =>
    have hh' := (header_inv 1 79 bs (by simpa [encode] using h)).2
    exact ⟨0, 1, [], by rw [hh']; rfl, by simp, by omega, by omega⟩

/-- what `SoupMessageReader.deserialize` cuts off a buffer: `siz = int.from_bytes(buf[:2], 'big')`, frame `buf[:siz+2]`,
    the rest stays (`none`: not enough bytes yet) -/
def cutFrame (buf : Bytes) : Option (Bytes × Bytes) :=
  match buf with
  | hi :: lo :: _ =>
    let siz := hi * 256 + lo
    if siz + 2 > buf.length then none else some (buf.take (siz + 2), buf.drop (siz + 2))
  | _ => none

/-- **The packet that follows is framed correctly**: on a stream, a reader that cuts by the prefix takes exactly the bytes of any
    packet that could be built and is left with exactly what follows it - whatever follows. -/
theorem C12_any_built_next_packet_intact (p : Pkt) (bs tail : Bytes) (h : encode p = .ok bs) :
    cutFrame (bs ++ tail) = some (bs, tail) := by
  obtain ⟨hi, lo, rest, rfl, hl, _, _⟩ := C12_any_built_is_framed p bs h
  have hlen : hi * 256 + lo + 2 = (hi :: lo :: p.ty :: rest).length := by simp; omega
  simp only [cutFrame, List.cons_append]
  have hle : ¬ (hi * 256 + lo + 2 > (hi :: lo :: p.ty :: (rest ++ tail)).length) := by
    simp only [List.length_cons, List.length_append]; omega
  rw [if_neg hle]
  have e : hi :: lo :: p.ty :: (rest ++ tail) = (hi :: lo :: p.ty :: rest) ++ tail := by simp
  rw [e, hlen, List.take_left, List.drop_left]

/-- two packets built one after the other come apart again, in order -/
theorem C12_any_two_on_a_stream (p q : Pkt) (bp bq tail : Bytes) (hp : encode p = .ok bp) (hq : encode q = .ok bq) :
    cutFrame (bp ++ (bq ++ tail)) = some (bp, bq ++ tail) ∧ cutFrame (bq ++ tail) = some (bq, tail) :=
  ⟨C12_any_built_next_packet_intact p bp _ hp, C12_any_built_next_packet_intact q bq _ hq⟩

/-! non-vacuity: packets outside `wfPkt` that the library does build (column overflow, a sequence text that is no number) -/
example : encode (.loginReq [116, 111, 111, 108, 111, 110, 103, 117] [112] [] [97, 98, 99]) =
    .ok ([0, 47, 76] ++ [116, 111, 111, 108, 111, 110] ++ (112 :: List.replicate 9 32) ++ List.replicate 10 32 ++
         ([97, 98, 99] ++ List.replicate 17 32)) := by decide
example : framedB 43 [0, 3, 43, 104, 105] = true := by decide
example : encode (.debug [233]) = .error .unicode := by decide

/-- a debug encoder that counted CHARACTERS in the prefix while writing UTF-8 bytes (`Debug('é')` → `00 02 2b c3 a9`) would not
    produce a frame, and the reader would be left with a stray byte in front of the next packet -/
theorem C12_char_count_prefix_is_no_frame :
    framedB 43 [0, 2, 43, 0xc3, 0xa9] = false ∧
    cutFrame ([0, 2, 43, 0xc3, 0xa9] ++ [0, 1, 72]) = some ([0, 2, 43, 0xc3], [0xa9, 0, 1, 72]) := by decide

end NasdaqModel.Props.C12Any
