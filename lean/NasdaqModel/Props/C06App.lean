import NasdaqModel.Lemmas.AppSessionLemmasK4
import NasdaqModel.Props.C05
/-
C06, application sessions — a closed application session leaves nothing running and stays silent.

Theorems about the product machine `Model/AppSession.lean` for every configuration and every event sequence.  The inner
component is a legal state of the inner machine, so `Props/C06.lean` holds for the soup session's own tasks; here: the second
queue, its dispatcher `D2`, the receive helper `V2` and the callers of the application session.
-/
namespace NasdaqModel.Props.C06App
open NasdaqModel App

abbrev reach (a : ACfg) (evs : List Ev) : St := runEvs a {} evs

/-- **Nothing of the second stage is left.** When the close of the soup session has run to its end (the close callback
    `_on_soup_close` has returned), the application queue is stopped, its dispatcher and its receive helper have ended, and no
    application-level task is suspended any more — not in `queue.get()`, not awaiting the helper, not waiting for the close
    event: every caller has been released — and none is inside `soup_session.close()` (a second dispatcher that carried out the
    close itself, for a `close()` awaited from the message callback, has returned from it and ended). -/
theorem C06App_tasks_ended (a : ACfg) (evs : List Ev) (h : (reach a evs).inner.cstage = .finished)
    (hb : (reach a evs).built = true) :
    (reach a evs).q2Closed = true ∧ alive2 ((reach a evs).astatus .D2) = false ∧ (reach a evs).disp2Set = false ∧
    alive2 ((reach a evs).astatus .V2) = false ∧
    ∀ t, (reach a evs).astatus t ≠ .waitQ ∧ (reach a evs).astatus t ≠ .waitV ∧ (reach a evs).astatus t ≠ .waitE ∧
      (reach a evs).astatus t ≠ .inSoup := by
  have i := runEvs_Inv a evs
  have hc : (reach a evs).cpc = .finished := i.yy.s3 h
  have hl : lateStage (reach a evs).cpc = true := by rw [hc]; rfl
  have hD := i.ss.dnf rfl hb hc
  have hds := (i.ss.dn hb (Or.inr hl)).2
  have hV := i.ss.vn hb hl
  refine ⟨i.bb.q hb (by rw [hc]; simp), hD, hds, hV, ?_⟩
  intro t
  refine ⟨?_, ?_, ?_, ?_⟩
  · intro ht
    rcases i.ss.wq t ht with rfl | rfl
    · rw [ht] at hD; simp [alive2] at hD
    · rw [ht] at hV; simp [alive2] at hV
  · intro ht
    have := (i.ss.wv t ht).1
    rw [hV] at this; contradiction
  · intro ht
    exact i.bb.ev2 hc (i.ss.we t ht)
  · intro ht
    obtain ⟨rfl, _⟩ := i.ss.ip t ht
    rw [ht] at hD; simp [alive2] at hD

/-- **Nothing left running.** When the close has completed and no application-level task can take a step any more
    (quiescence), every application-level task — second dispatcher, receive helper, every caller — has finished. -/
theorem C06App_quiescent_clean (a : ACfg) (evs : List Ev) (h : (reach a evs).inner.cstage = .finished)
    (hb : (reach a evs).built = true) (hq : ∀ t, runnable2 (reach a evs) t = false) :
    ∀ t, alive2 ((reach a evs).astatus t) = false := by
  obtain ⟨_, _, _, _, hw⟩ := C06App_tasks_ended a evs h hb
  intro t
  have h1 := hq t
  obtain ⟨w1, w2, w3, w4⟩ := hw t
  cases hs : (reach a evs).astatus t <;> simp_all [runnable2, alive2]

/-- **The second dispatcher and the receive helper cannot take a step any more**: after the close has completed `run D2` and
    `run V2` change nothing — no application message callback is invoked any more. -/
theorem C06App_no_callback_after_close (a : ACfg) (evs : List Ev) (h : (reach a evs).inner.cstage = .finished)
    (hb : (reach a evs).built = true) :
    step a (reach a evs) (.run .D2) = reach a evs ∧ step a (reach a evs) (.run .V2) = reach a evs := by
  obtain ⟨_, hD, _, hV, hw⟩ := C06App_tasks_ended a evs h hb
  have hni := (hw .D2).2.2.2
  have nr : ∀ t, alive2 ((reach a evs).astatus t) = false → runnable2 (reach a evs) t = false := by
    intro t ht
    cases hs : (reach a evs).astatus t <;> simp_all [runnable2, alive2]
  exact ⟨by simp [step, nr _ hD, hni], by simp [step, nr _ hV]⟩

/-- **Completion is final**: once the close of the soup session has completed, no event of the product machine changes that
    (so the statements above hold for the rest of the session's life). -/
theorem C06App_finished_is_final (a : ACfg) (evs : List Ev) (ev : Ev) (h : (reach a evs).inner.cstage = .finished) :
    (reach a (evs ++ [ev])).inner.cstage = .finished := by
  have e : reach a (evs ++ [ev]) = step a (reach a evs) ev := by simp [reach, runEvs, List.foldl_append]
  rw [e]
  obtain ⟨es, hes⟩ := step_reach a (reach a evs) ev
  rw [hes]
  obtain ⟨es0, he0⟩ := runEvs_reach a evs
  have hcl : (reach a evs).inner.closed = true := by
    have := (Sess.runEvs_InvA (innerCfg a) es0).closed_iff
    rw [← he0] at this
    exact this.mpr (by rw [h]; simp)
  generalize (reach a evs).inner = i0 at h hcl
  clear hes he0 e
  induction es generalizing i0 with
  | nil => exact h
  | cons x xs ih =>
    show (Sess.runEvs (innerCfg a) (Sess.step (innerCfg a) i0 x) xs).cstage = .finished
    exact ih _ (Sess.step_finished_final _ _ x hcl h) (Sess.step_closed_mono _ _ x hcl)

/-- **A blocked `receive_message()` is released with the end-of-queue error.** A receive waiting on the empty application queue
    whose helper task was cancelled by `queue.stop()` in `_on_soup_close` ends with `EndOfQueue`; the helper task ends. -/
theorem C06App_blocked_receive_released (a : ACfg) (s : St) (u : Nat)
    (hW : s.astatus (.W u) = .waitV) (hpW : s.aprog (.W u) = .recvWait u)
    (hV : s.astatus .V2 = .cancelled) (hpV : s.aprog .V2 = .vget) (hq : s.q2Closed = true) (hv : s.vres2 = none) :
    let s' := step a (step a s (.run .V2)) (.run (.W u))
    s'.tr = s.tr ++ [.app (.ret u .eoq)] ∧ alive2 (s'.astatus .V2) = false ∧ alive2 (s'.astatus (.W u)) = false := by
  simp [step, runnable2, hW, hV, stepRun2, hpV, St.finish2, hpW, hv, hq, St.emit2, alive2]

/-! ### non-vacuity -/

private def a1 : ACfg :=
  { dec := fun n => if n = 0 then .skip else .val n
    hasMsgCb := false, msgBeh := fun _ => .ret, hasCb := true, cbBeh := .ret, closedFirst := true }

/-- pull mode: `receive_message()` is blocked on the empty application queue when the peer disconnects; the closing task stops
    the soup session and, inside `_on_soup_close`, cancels the receive helper; the caller gets `EndOfQueue` -/
private def life : List Ev :=
  [.inner .connect, .inner (.callLogin 1), .inner (.run .V), .inner (.data [.msg 0]), .inner (.run .R), .inner (.run .V),
   .inner (.run (.U 1)), .inner (.run .D), .appRecv 2, .run .V2, .inner .eof,
   .inner (.run .C), .inner (.run .D), .inner (.run .C), .inner (.run .L), .inner (.run .C), .inner (.run .M), .inner (.run .C),
   .inner (.run .R), .inner (.run .C), .run .V2, .inner (.run .C), .run (.W 2)]

set_option maxRecDepth 100000 in
example : (reach a1 life).trace2 = [.cbEnter, .cbExit, .ret 2 .eoq] := by decide
set_option maxRecDepth 100000 in
example : (reach a1 life).inner.cstage = .finished ∧ (reach a1 life).built = true ∧
    [ATid.D2, .V2, .W 2].all (fun t => !alive2 ((reach a1 life).astatus t)) = true := by decide

end NasdaqModel.Props.C06App
