import NasdaqModel.Lemmas.FixAnchor
import NasdaqModel.Props.C14
/-
C14 — `C14_decodes_to_sent` with one hypothesis less.

In `Props/C14.lean` the theorem "`Message.from_bytes` on the frame yields the sent message" assumes `wfVer ver` (no `=` in
the session's version string).  There it has a single use: showing that `8=<ver>SOH9=<n>SOH` contains no `5=`, so that the
first `35=` of the frame is the MsgType field — the same reason `C13_statement` needed "MsgType first".  With the anchored
`get_msg_type` (/repo a2cfe01, `Lemmas/FixAnchor.lean`) the MsgType field is found behind *any* well-formed fields with
other tags, so the hypothesis is dropped here: the version string may contain `=`, even `35=`.
(`wfVer` stays a hypothesis of `C14_read_back` / `C14_no_early` / `C14_segmentation`: there it is about the *reader*, which
looks for the `=` of BodyLength starting behind `8=`.  `wfText ver` — ASCII, no SOH — stays: the version is a field value.)
The other hypotheses of `C14_decodes_to_sent` are unrelated to the MsgType search and are kept.
-/
namespace NasdaqModel.Props.C14Anchor
open NasdaqModel Py Fix FixFrame

/-- **Decodes to what was sent, any version string.**  `Message.from_bytes` on the frame returns the class of the sent
    message, consumes the whole frame, and yields the sent message (as left by the header stamping; groups in dictionary
    order) with the four framing fields added: `8`, `9`, `35` in front of the header, `10` at the end of the trailer.
    (`C14.C14_decodes_to_sent` without `wfVer ver`.) -/
theorem C14_decodes_to_sent_any_version (reg : List MsgDef) (ver : Str) (d : MsgDef) (se : Sess) (seq : Int) (time : Str)
    (m m' : Msg) (f : Bytes)
    (hvt : wfText ver = true) (hty : wfText d.type = true)
    (hd : wfDef d = true) (he : framingEntries d) (hm' : wfMsg d m' = true)
    (hk : 8 ∉ keysOf m'.hdr ∧ 9 ∉ keysOf m'.hdr ∧ 35 ∉ keysOf m'.hdr ∧ 10 ∉ keysOf m'.trl)
    (hreg : lookupReg reg d.type = some d)
    (h : frame ver d se seq time m = .ok (f, m')) :
    ∃ body, encMsg d m' = .ok body ∧
      decodeMsg reg f = .ok (f.length, d,
        framed ver (counted d.type body).length d.type
          (rjust0 (natDigits (byteSum (summed ver d.type body) % 256)) 3) (canonMsg d m')) := by
  obtain ⟨_, body, _, _, hbody, hprep⟩ := frame_inv h
  refine ⟨body, hbody, ?_⟩
  obtain ⟨hf, hta, hva⟩ := prepare_eq hprep
  have hx : byteSum (summed ver d.type body) % 256 < 1000 := by omega
  have hck : wfText (rjust0 (natDigits (byteSum (summed ver d.type body) % 256)) 3) = true := by
    simp only [wfText, List.all_eq_true, Bool.and_eq_true, decide_eq_true_eq]
    intro c hc
    have := (pad3 hx).2.1 c hc
    simp [isDigit] at this
    omega
  have hcka : (rjust0 (natDigits (byteSum (summed ver d.type body) % 256)) 3).all (· < 128) = true := (wfText_iff hck).1
  have hwf := wfMsg_framed he (counted d.type body).length hvt hty hck hm' hk
  -- the frame is the encoding of the framed message
  obtain ⟨fh, fb, ft, hfh, hfb, hft, hbs⟩ := encMsg_wire hd hm' hbody
  obtain ⟨bs, henc⟩ := C13.C13_encodes d _ hd hwf
  obtain ⟨fh', fb', ft', hfh', hfb', hft', hbs'⟩ := encMsg_wire hd hwf henc
  have e1 := encSegFields_framed_hdr he (counted d.type body).length hva hta hfh
  have e3 := encSegFields_framed_trl he hcka hft
  simp only [framed] at hfh' hfb' hft'
  rw [e1] at hfh'; rw [hfb] at hfb'; rw [e3] at hft'
  injection hfh' with hfh'; injection hfb' with hfb'; injection hft' with hft'
  subst hfh'; subst hfb'; subst hft'
  have hbf : bs = f := by
    rw [hbs', hf, hbs]
    simp [termAll_cons, termAll_append, termAll_nil, summed, counted]
  subst hbf
  -- the framed message holds MsgType as its third header field: the anchored search finds it
  obtain ⟨r35, h35⟩ := he.2.2.1
  have hmt : getMsgType bs = .ok d.type :=
    getMsgType_encMsg hd hwf henc (by simp [framed]) h35
  rw [C13.C13_roundtrip reg d _ bs hd hwf henc hmt hreg, canonMsg_framed he]

/-! ### non-vacuity: a version string that `wfVer` rejects, with `35=` in it -/

/-- `'FIX35=4'` — ASCII without SOH, but contains `=` (and `35=`) -/
def oddVer : Str := [70, 73, 88, 51, 53, 61, 52]

example : wfText oddVer = true ∧ wfVer oddVer = false := by decide

/-- the frame for `C14.exMsg` under that version: `8=FIX35=4|9=80|35=D|50=|…`; the stamped message satisfies the hypotheses
    of `C14_decodes_to_sent_any_version`, and `get_msg_type` of the frame is `D` -/
example : (match frame oddVer C14.exDef C14.exSess 99 C14.exTime C14.exMsg with
    | .ok (f, m') => wfMsg C14.exDef m' && f.take 18 == [56,61,70,73,88,51,53,61,52,1,57,61,56,48,1,51,53,61]
        && !hasKey m'.hdr 8 && !hasKey m'.hdr 9 && !hasKey m'.hdr 35 && !hasKey m'.trl 10
        && getMsgType f == .ok [68]
    | .error _ => false) = true := by decide +kernel

end NasdaqModel.Props.C14Anchor
