import NasdaqModel.Lemmas.GenHistoryLemmas
/-
C17 — code generation is a pure, repeatable function of the spec.

The model (Model/GenHistory.lean) is parameterised by a `Semantics` record: how output files are opened and whether the
class-level generator state is reset when a generation starts.  `actual` is the library as it is (append mode, no reset),
`fixed` the repaired behaviour, `current` the one the correspondence check compares the library with on every run.

The three clauses of the property hold for **every** semantics with `pureGen sem` (truncate + reset): `…_of_pure`.
Since a5da5b2 / 6c43d46 / 388f25f the library's generators are such a semantics: `current = fixedGen`, `C17_current_is_pure`,
and `C17_repeatable`, `C17_regenerate_in_place`, `C17_no_leak_between_specs` are the three clauses **for `current`**, full strength,
for the ITCH/OUCH/SQF, FIX and ASN.1 generators.  They were FALSE for the library before the repair (`actual`):
Witness/C17.lean keeps the negation of each clause on a concrete history, one per repaired defect (now regressions).
The project tool is not repaired (`pyproject.toml` / `tox.ini` still appended to): its clause is
`C17_regenerate_in_place_new_project_partial` (first run into a tree that has neither file) + the witness
`Witness.C17.C17_witness_new_project_rerun_current`; the full statement is `C17_new_project_rerun` (holds under `pureProj`).

Quantification: all worlds (`w : World` — any process state and any file-system content, reachable or not) and therefore all
histories (`run sem w0 h`), all specs, all options, all output directories; no bound on anything.
-/
namespace NasdaqModel.Props.C17
open NasdaqModel GenHistory

/-! ## facts about the generators' plans (private helpers) -/

private theorem planGen_retarget (sem : Semantics) (st : ProcState) (i : Inv) (d : Dir) :
    planGen sem st (i.retarget d) = planGen sem st i := by
  cases i <;> rfl

private theorem retarget_isGen (i : Inv) (d : Dir) : (i.retarget d).isGen = i.isGen := by
  cases i <;> rfl

private theorem retarget_dir (i : Inv) (d : Dir) (hg : i.isGen = true) : (i.retarget d).dir = d := by
  cases i <;> simp_all [Inv.retarget, Inv.dir, Inv.isGen]

private theorem retarget_targetNames (i : Inv) (d : Dir) : targetNames (i.retarget d) = targetNames i := by
  cases i <;> rfl

private theorem pure_fields {sem : Semantics} (hp : pureGen sem = true) :
    sem.genMode = .truncate ∧ sem.resetFieldDefs = true ∧ sem.resetContexts = true ∧ sem.resetCounter = true := by
  obtain ⟨h1, h2, h3, h4, _, _⟩ := pure_flags hp
  exact ⟨h1, h2, h3, h4⟩

/-- with reset-at-start semantics the outcome and everything written are independent of the process state -/
private theorem planGen_state_indep (sem : Semantics) (hp : pureGen sem = true) (st : ProcState) (i : Inv) :
    (planGen sem st i).2 = (planGen sem st0 i).2 :=
  planGen_snd_indep sem hp st i

private theorem planGen_truncOnly (sem : Semantics) (hp : pureGen sem = true) (st : ProcState) (i : Inv) (rp : RelPlan)
    (h : (planGen sem st i).2 = .ok rp) : truncOnly rp.acts = true :=
  planGen_acts_trunc sem hp st i rp h

/-- the files a generator writes are the syntactic `targetNames` (for every semantics and state) -/
private theorem planGen_names (sem : Semantics) (st : ProcState) (i : Inv) (hg : i.isGen = true) (rp : RelPlan)
    (h : (planGen sem st i).2 = .ok rp) : rp.acts.map (·.name) = targetNames i :=
  planGen_acts_names sem st i hg rp h

/-- unfolding of `invoke` for a generator invocation -/
private theorem invoke_gen (sem : Semantics) (w : World) (i : Inv) (hg : i.isGen = true) :
    invoke sem w i =
      match (planGen sem w.st i).2 with
      | .ok rp => (⟨(planGen sem w.st i).1, applyPlan w.fs (rp.at i.dir)⟩, .ok ())
      | .error e => (⟨(planGen sem w.st i).1, w.fs⟩, .error e) := by
  cases i with
  | soup impl spec o =>
    simp only [invoke, plan]
    cases (planGen sem w.st _).2 <;> rfl
  | fix spec o =>
    simp only [invoke, plan]
    cases (planGen sem w.st _).2 <;> rfl
  | asn1 spec pdu pk o =>
    simp only [invoke, plan]
    cases (planGen sem w.st _).2 <;> rfl
  | newProject t n a => simp [Inv.isGen] at hg
  | userEdit p n => simp [Inv.isGen] at hg

private theorem plan_gen (sem : Semantics) (st : ProcState) (i : Inv) (hg : i.isGen = true) :
    (plan sem st i).2 =
      match (planGen sem st i).2 with
      | .ok rp => .ok (rp.at i.dir)
      | .error e => .error e := by
  cases i with
  | soup impl spec o =>
    simp only [plan]
    cases (planGen sem st _).2 <;> rfl
  | fix spec o =>
    simp only [plan]
    cases (planGen sem st _).2 <;> rfl
  | asn1 spec pdu pk o =>
    simp only [plan]
    cases (planGen sem st _).2 <;> rfl
  | newProject t n a => simp [Inv.isGen] at hg
  | userEdit p n => simp [Inv.isGen] at hg

/-- **Key lemma.**  With truncate-and-reset semantics, after a successful generator invocation into a directory that held
    nothing but (possibly) files of the same target, the directory is a function of the invocation alone:
    `lastByName` of the plan computed from the *initial* process state. -/
private theorem dirView_invoke_pure (sem : Semantics) (hp : pureGen sem = true) (w : World) (i : Inv)
    (hg : i.isGen = true) (rp : RelPlan) (hrp : (planGen sem st0 i).2 = .ok rp)
    (hd : rp.wipe = true ∨ dirOnly w.fs i.dir (targetNames i) = true) :
    dirView (invoke sem w i).1.fs i.dir = lastByName rp.acts := by
  have hst : (planGen sem w.st i).2 = .ok rp := by rw [planGen_state_indep sem hp]; exact hrp
  have htr := planGen_truncOnly sem hp st0 i rp hrp
  have hnm := planGen_names sem st0 i hg rp hrp
  funext n
  rw [invoke_gen sem w i hg, hst]
  simp only [dirView, applyPlan, RelPlan.at]
  rw [read_applyActs_trunc _ _ htr]
  cases hl : lastByName rp.acts n with
  | some cs => rfl
  | none =>
    simp only []
    have hn : n ∉ targetNames i := by
      intro hin
      rw [← hnm] at hin
      have := lastByName_some rp.acts n hin
      simp [hl] at this
    cases hw : rp.wipe with
    | true => simp [read_wipe, under_self]
    | false =>
      simp only [Bool.false_eq_true, if_false]
      rcases hd with hd | hd
      · simp [hw] at hd
      · exact read_none_of_dirOnly _ _ _ hd n hn

/-! ## the theorems -/

/-- Non-vacuity of the hypothesis `pureGen sem`: the repaired semantics satisfies it (and `pureProj`); the library's
    present behaviour does not. -/
theorem C17_fixed_is_pure : pureGen fixed = true ∧ pureProj fixed = true ∧ pureGen actual = false := by decide

/-- The outcome (success or the exception class) of a generator invocation depends on the invocation only — not on
    what was generated before in the same process, not on what the file system holds. -/
theorem C17_outcome_depends_on_spec_only (sem : Semantics) (hp : pureGen sem = true) (i : Inv) (hg : i.isGen = true)
    (w : World) : (invoke sem w i).2 = (invoke sem w0 i).2 := by
  rw [invoke_gen sem w i hg, invoke_gen sem w0 i hg, planGen_state_indep sem hp w.st i]
  show _ = (match (planGen sem st0 i).2 with | .ok rp => _ | .error e => _ : World × Except Err Unit).2
  cases (planGen sem st0 i).2 <;> rfl

/-- A failing invocation writes nothing (every semantics, every invocation). -/
theorem C17_failed_invocation_writes_nothing (sem : Semantics) (w : World) (i : Inv) (e : Err)
    (h : (invoke sem w i).2 = .error e) : (invoke sem w i).1.fs = w.fs := by
  unfold invoke at h ⊢
  simp only at h ⊢
  cases hp : (plan sem w.st i).2 with
  | ok pl => simp [hp] at h
  | error e' => simp

/-- Frame: a generator invocation changes nothing outside its output directory (every semantics). -/
theorem C17_frame (sem : Semantics) (w : World) (i : Inv) (hg : i.isGen = true) (p : Path)
    (hp : p.1.under i.dir = false) : read (invoke sem w i).1.fs p = read w.fs p := by
  have hne : p.1 ≠ i.dir := by
    intro e
    rw [e, under_self] at hp
    cases hp
  rw [invoke_gen sem w i hg]
  cases (planGen sem w.st i).2 with
  | error e => rfl
  | ok rp =>
    simp only [applyPlan, RelPlan.at]
    rw [read_applyActs_other _ _ _ _ hne]
    cases rp.wipe <;> simp [read_wipe, hp]

/-- Every file an invocation writes holds exactly what the same invocation writes when it runs alone in a fresh
    process into an empty directory — whatever was generated before, whatever the file held. -/
theorem C17_written_files_fresh (sem : Semantics) (hp : pureGen sem = true) (i : Inv) (hg : i.isGen = true) (w : World)
    (hok : (invoke sem w0 i).2 = .ok ()) (n : Str) (hn : n ∈ targetNames i) :
    read (invoke sem w i).1.fs (i.dir, n) = read (invoke sem w0 i).1.fs (i.dir, n) := by
  cases hrp : (planGen sem st0 i).2 with
  | error e =>
    rw [invoke_gen sem w0 i hg] at hok
    simp [w0, hrp] at hok
  | ok rp =>
    have hst : (planGen sem w.st i).2 = .ok rp := by rw [planGen_state_indep sem hp]; exact hrp
    have htr := planGen_truncOnly sem hp st0 i rp hrp
    have hnm := planGen_names sem st0 i hg rp hrp
    have hsome := lastByName_some rp.acts n (by rw [hnm]; exact hn)
    rw [invoke_gen sem w i hg, invoke_gen sem w0 i hg, hst]
    simp only [w0, hrp, applyPlan, RelPlan.at]
    rw [read_applyActs_trunc _ _ htr, read_applyActs_trunc _ _ htr]
    cases hl : lastByName rp.acts n with
    | some cs => rfl
    | none => simp [hl] at hsome

/-- **Clause 1 (repeatable).**  The same spec and options generated twice — after arbitrary histories `h1`, `h2`
    (in one process or in separate ones: `Ev.newProcess` may occur anywhere in them), into directories that are empty —
    give the same outcome, identical directories and the same import result. -/
theorem C17_repeatable_of_pure (sem : Semantics) (hp : pureGen sem = true) (i : Inv) (hg : i.isGen = true)
    (h1 h2 : List Ev) (d1 d2 : Dir)
    (he1 : dirOnly (run sem w0 h1).fs d1 [] = true) (he2 : dirOnly (run sem w0 h2).fs d2 [] = true) :
    (invoke sem (run sem w0 h1) (i.retarget d1)).2 = (invoke sem (run sem w0 h2) (i.retarget d2)).2
    ∧ dirView (invoke sem (run sem w0 h1) (i.retarget d1)).1.fs d1 = dirView (invoke sem (run sem w0 h2) (i.retarget d2)).1.fs d2
    ∧ importAfter sem (run sem w0 h1) (i.retarget d1) = importAfter sem (run sem w0 h2) (i.retarget d2) := by
  have hg1 : (i.retarget d1).isGen = true := by rw [retarget_isGen]; exact hg
  have hg2 : (i.retarget d2).isGen = true := by rw [retarget_isGen]; exact hg
  have hd1 := retarget_dir i d1 hg
  have hd2 := retarget_dir i d2 hg
  have key : ∀ (d : Dir) (w : World), dirOnly w.fs d [] = true →
      (invoke sem w (i.retarget d)).2 = (match (planGen sem st0 i).2 with | .ok _ => .ok () | .error e => .error e)
      ∧ (∀ rp, (planGen sem st0 i).2 = .ok rp → dirView (invoke sem w (i.retarget d)).1.fs d = lastByName rp.acts)
      ∧ ((planGen sem st0 i).2 = (planGen sem st0 i).2 →
          importAfter sem w (i.retarget d) =
            match (planGen sem st0 i).2 with
            | .ok rp => importPkg (lastByName rp.acts) rp.modules
            | .error e => .error e) := by
    intro d w hempty
    have hgd : (i.retarget d).isGen = true := by rw [retarget_isGen]; exact hg
    have hdd := retarget_dir i d hg
    have hst : (planGen sem w.st (i.retarget d)).2 = (planGen sem st0 i).2 := by
      rw [planGen_retarget, planGen_state_indep sem hp]
    have hview : ∀ rp, (planGen sem st0 i).2 = .ok rp →
        dirView (invoke sem w (i.retarget d)).1.fs d = lastByName rp.acts := by
      intro rp hrp
      have := dirView_invoke_pure sem hp w (i.retarget d) hgd rp (by rw [planGen_retarget]; exact hrp)
        (Or.inr (by
          rw [hdd]
          unfold dirOnly at hempty ⊢
          rw [List.all_eq_true] at hempty ⊢
          intro e he
          have := hempty e he
          simp at this
          simp [this]))
      rw [hdd] at this
      exact this
    refine ⟨?_, hview, ?_⟩
    · rw [invoke_gen sem w _ hgd, hst]
      cases (planGen sem st0 i).2 <;> rfl
    · intro _
      unfold importAfter
      rw [plan_gen sem w.st _ hgd, hst, hdd]
      cases hrp : (planGen sem st0 i).2 with
      | error e => rfl
      | ok rp =>
        simp only [RelPlan.at]
        rw [hview rp hrp]
  obtain ⟨a1, b1, c1⟩ := key d1 _ he1
  obtain ⟨a2, b2, c2⟩ := key d2 _ he2
  refine ⟨by rw [a1, a2], ?_, by rw [c1 rfl, c2 rfl]⟩
  cases hrp : (planGen sem st0 i).2 with
  | ok rp => rw [b1 rp hrp, b2 rp hrp]
  | error e =>
    -- both invocations fail and write nothing: both directories stay empty
    have f1 := C17_failed_invocation_writes_nothing sem (run sem w0 h1) (i.retarget d1) e (by rw [a1, hrp])
    have f2 := C17_failed_invocation_writes_nothing sem (run sem w0 h2) (i.retarget d2) e (by rw [a2, hrp])
    funext n
    simp only [dirView, f1, f2]
    rw [read_none_of_dirOnly _ _ _ he1 n (by simp), read_none_of_dirOnly _ _ _ he2 n (by simp)]

/-- **Clause 2 (regenerate in place).**  After any history `h`, generating into a directory that holds nothing but a
    previous output of the same target (same generator, app name, prefix, init flag — the spec may have been edited
    in between; for the ASN.1 generator, which empties the directory first, *any* directory) leaves exactly the directory
    a fresh single run produces — hence a package that imports exactly as the fresh one does and reflects the current spec. -/
theorem C17_regenerate_in_place_of_pure (sem : Semantics) (hp : pureGen sem = true) (i : Inv) (hg : i.isGen = true) (h : List Ev)
    (hok : (invoke sem w0 i).2 = .ok ())
    (hdir : dirOnly (run sem w0 h).fs i.dir (targetNames i) = true) :
    (invoke sem (run sem w0 h) i).2 = .ok ()
    ∧ dirView (invoke sem (run sem w0 h) i).1.fs i.dir = dirView (invoke sem w0 i).1.fs i.dir
    ∧ importAfter sem (run sem w0 h) i = importAfter sem w0 i := by
  have hout := C17_outcome_depends_on_spec_only sem hp i hg (run sem w0 h)
  cases hrp : (planGen sem st0 i).2 with
  | error e =>
    rw [invoke_gen sem w0 i hg] at hok
    simp [w0, hrp] at hok
  | ok rp =>
    have v1 := dirView_invoke_pure sem hp (run sem w0 h) i hg rp hrp (Or.inr hdir)
    have v0 := dirView_invoke_pure sem hp w0 i hg rp hrp (Or.inr (by simp [w0, dirOnly]))
    refine ⟨by rw [hout, hok], by rw [v1, v0], ?_⟩
    unfold importAfter
    rw [plan_gen sem _ i hg, plan_gen sem _ i hg, planGen_state_indep sem hp (run sem w0 h).st i, v1, v0]
    rfl

/-- Clause 2 for the ASN.1 generator needs no hypothesis on the directory. -/
theorem C17_regenerate_in_place_asn1 (sem : Semantics) (hp : pureGen sem = true) (spec : Asn1Spec) (pdu pk : Str)
    (o : GenOpts) (w : World) :
    dirView (invoke sem w (.asn1 spec pdu pk o)).1.fs o.dir = dirView (invoke sem w0 (.asn1 spec pdu pk o)).1.fs o.dir := by
  have hrp : (planGen sem st0 (.asn1 spec pdu pk o)).2 = .ok (planAsn1 sem st0 spec pdu pk o).2.toOption.get! := by
    simp [planGen, planAsn1, Except.toOption]
  have hw : ((planAsn1 sem st0 spec pdu pk o).2.toOption.get!).wipe = true := by
    simp [planAsn1, Except.toOption]
  have v1 := dirView_invoke_pure sem hp w (.asn1 spec pdu pk o) rfl _ hrp (Or.inl hw)
  have v0 := dirView_invoke_pure sem hp w0 (.asn1 spec pdu pk o) rfl _ hrp (Or.inl hw)
  simp only [Inv.dir] at v1 v0
  rw [v1, v0]

/-- **Clause 3 (no leak between specs).**  Generating B after any history (any specs A…, same process or not, same
    directory or not) gives the same outcome as generating B alone, and every file B writes is exactly the file B alone
    writes — nothing of A in it.  (Files B does not write are untouched: `C17_frame`; a directory that was empty equals
    the fresh one: `C17_repeatable_of_pure`.) -/
theorem C17_no_leak_between_specs_of_pure (sem : Semantics) (hp : pureGen sem = true) (b : Inv) (hg : b.isGen = true) (h : List Ev) :
    (invoke sem (run sem w0 h) b).2 = (invoke sem w0 b).2
    ∧ ((invoke sem w0 b).2 = .ok () → ∀ n, n ∈ targetNames b →
        read (invoke sem (run sem w0 h) b).1.fs (b.dir, n) = read (invoke sem w0 b).1.fs (b.dir, n)) :=
  ⟨C17_outcome_depends_on_spec_only sem hp b hg _, fun hok n hn => C17_written_files_fresh sem hp b hg _ hok n hn⟩

/-- What holds for EVERY semantics, in particular for the unchanged library (`actual`): an invocation that runs in a
    fresh process (`st0`) into an empty directory and writes no file twice gives the same outcome and the same directory
    as when it runs alone — whatever else the file system holds.
    Full statement (clause 1 without "fresh process", clauses 2 and 3) is `C17_repeatable_of_pure` / `C17_regenerate_in_place_of_pure` /
    `C17_no_leak_between_specs_of_pure` above; for `actual` they are false (Witness/C17.lean), the missing part is exactly
    `pureGen`: files opened with 'w', class-level state reset per generation. -/
theorem C17_fresh_process_empty_dir_any_semantics (sem : Semantics) (i : Inv) (hg : i.isGen = true) (fs : FS)
    (hnd : (targetNames i).Nodup) (hempty : dirOnly fs i.dir [] = true) :
    (invoke sem ⟨st0, fs⟩ i).2 = (invoke sem w0 i).2
    ∧ dirView (invoke sem ⟨st0, fs⟩ i).1.fs i.dir = dirView (invoke sem w0 i).1.fs i.dir := by
  rw [invoke_gen sem ⟨st0, fs⟩ i hg, invoke_gen sem w0 i hg]
  simp only [w0]
  cases hrp : (planGen sem st0 i).2 with
  | error e =>
    refine ⟨rfl, ?_⟩
    funext n
    simp only [dirView]
    rw [read_none_of_dirOnly _ _ _ hempty n (by simp)]
    rfl
  | ok rp =>
    refine ⟨rfl, ?_⟩
    have hnm := planGen_names sem st0 i hg rp hrp
    funext n
    simp only [dirView, applyPlan, RelPlan.at]
    have hbase : ∀ (base : FS), (∀ m, read base (i.dir, m) = none) →
        read (applyActs base (rp.acts.map (RelAction.at i.dir))) (i.dir, n) = lastByName rp.acts n := by
      intro base hb
      rw [read_applyActs_absent i.dir rp.acts (by rw [hnm]; exact hnd) base (fun m _ => hb m) n]
      cases lastByName rp.acts n <;> simp [hb]
    rw [hbase, hbase]
    · intro m; cases rp.wipe <;> simp [read_wipe]
    · intro m
      have := read_none_of_dirOnly _ _ _ hempty m (by simp)
      cases rp.wipe <;> simp [read_wipe, this]

/-! ## the project tool -/

private theorem read_applyActs_notin (acts : List Action) (fs : FS) (p : Path) (h : ∀ a, a ∈ acts → a.path ≠ p) :
    read (applyActs fs acts) p = read fs p := by
  induction acts generalizing fs with
  | nil => rfl
  | cons a rest ih =>
    simp only [applyActs, List.foldl_cons] at ih ⊢
    rw [ih _ (fun b hb => h b (by simp [hb]))]
    exact read_write_other _ _ _ _ _ (fun e => h a (by simp) e.symm)

private theorem write_ifAbsent_present (fs : FS) (p : Path) (cs v : List Chunk) (h : read fs p = some v) :
    write .ifAbsent fs p cs = fs := by
  unfold write
  simp [h]

/-- Re-running `new_project` on an existing project (to add an application), with the repaired semantics
    (`pyproject.toml` written only when absent, `tox.ini` rewritten): `tox.ini` is exactly the fresh file for the current
    application list, `pyproject.toml` keeps what it held (user edits included) or is the fresh file; both parse. -/
theorem C17_new_project_rerun (sem : Semantics) (hp : pureProj sem = true) (w : World) (t : Nat) (name : Str)
    (apps : List (Str × Impl)) (hd : dupApps apps = false) :
    read (invoke sem w (.newProject t name apps)).1.fs (.proj t name, sTox) = some [.tox (srcName name) apps]
    ∧ read (invoke sem w (.newProject t name apps)).1.fs (.proj t name, sPyproject)
        = some ((read w.fs (.proj t name, sPyproject)).getD [.pyproject name])
    ∧ configValid (read (invoke sem w (.newProject t name apps)).1.fs (.proj t name, sTox)) = true
    ∧ (configValid (read w.fs (.proj t name, sPyproject)) = true →
        configValid (read (invoke sem w (.newProject t name apps)).1.fs (.proj t name, sPyproject)) = true) := by
  simp [pureProj] at hp
  obtain ⟨hp1, hp2⟩ := hp
  have hne : (Dir.proj t name, sTox) ≠ (Dir.proj t name, sPyproject) := by
    intro e; injection e with _ e2; revert e2; decide
  have hx : ∀ (fs : FS) (p : Path), p.1 = Dir.proj t name →
      read (applyActs fs (apps.map fun a => (⟨(.app t name a.1, a.1 ++ sXml), .ifAbsent, [.appXml]⟩ : Action))) p = read fs p := by
    intro fs p hpd
    apply read_applyActs_notin
    intro a ha e
    simp only [List.mem_map] at ha
    obtain ⟨x, _, rfl⟩ := ha
    rw [← e] at hpd
    cases hpd
  have htox : read (invoke sem w (.newProject t name apps)).1.fs (.proj t name, sTox) = some [.tox (srcName name) apps] := by
    simp only [invoke, plan, planNewProject, hd, Bool.false_eq_true, if_false, applyPlan, applyActs, List.foldl_append,
      List.foldl_cons, List.foldl_nil, hp2]
    rw [read_write_truncate]; simp
  have hpy : read (invoke sem w (.newProject t name apps)).1.fs (.proj t name, sPyproject)
      = some ((read w.fs (.proj t name, sPyproject)).getD [.pyproject name]) := by
    simp only [invoke, plan, planNewProject, hd, Bool.false_eq_true, if_false, applyPlan, applyActs, List.foldl_append,
      List.foldl_cons, List.foldl_nil, hp1]
    rw [read_write_other _ _ _ _ _ hne.symm]
    have hbase : read (write Mode.ifAbsent (List.foldl (fun fs a => write a.mode fs a.path a.chunks) w.fs
        (apps.map fun a => (⟨(.app t name a.1, a.1 ++ sXml), .ifAbsent, [.appXml]⟩ : Action)))
        (Dir.pkg t name, sInit ++ sPy) []) (Dir.proj t name, sPyproject) = read w.fs (Dir.proj t name, sPyproject) := by
      rw [read_write_other _ _ _ _ _ (by intro e; cases e)]
      exact hx w.fs _ rfl
    cases hr : read w.fs (Dir.proj t name, sPyproject) with
    | some v =>
      rw [write_ifAbsent_present _ _ _ v (by rw [hbase, hr]), hbase, hr]; rfl
    | none =>
      rw [read_write_absent _ _ _ _ (by rw [hbase, hr])]
      rfl
  refine ⟨htox, hpy, by rw [htox]; rfl, ?_⟩
  intro hv
  rw [hpy]
  cases hr : read w.fs (Dir.proj t name, sPyproject) with
  | some v => rw [hr] at hv; exact hv
  | none => rfl

/-- For every semantics (in particular `current`, which still appends): the first run of the project tool into a tree that
    has neither `pyproject.toml` nor `tox.ini` writes exactly the fresh files, and both parse.
    **Partial**: the full clause — re-running on an existing project leaves files that parse and a `tox.ini` for the current
    application list — is `C17_new_project_rerun` above; it needs `pureProj sem`, which `current` does not satisfy
    (`Witness.C17.C17_witness_new_project_rerun_current`: the second run leaves two renderings in each file).
    Missing: `_write_pyproject` / `_write_tox` open with 'a' (known finding `new-project-rerun`). -/
theorem C17_regenerate_in_place_new_project_partial (sem : Semantics) (w : World) (t : Nat) (name : Str)
    (apps : List (Str × Impl)) (hd : dupApps apps = false)
    (h1 : read w.fs (.proj t name, sPyproject) = none) (h2 : read w.fs (.proj t name, sTox) = none) :
    read (invoke sem w (.newProject t name apps)).1.fs (.proj t name, sTox) = some [.tox (srcName name) apps]
    ∧ read (invoke sem w (.newProject t name apps)).1.fs (.proj t name, sPyproject) = some [.pyproject name]
    ∧ configValid (read (invoke sem w (.newProject t name apps)).1.fs (.proj t name, sTox)) = true
    ∧ configValid (read (invoke sem w (.newProject t name apps)).1.fs (.proj t name, sPyproject)) = true := by
  have hne : (Dir.proj t name, sTox) ≠ (Dir.proj t name, sPyproject) := by
    intro e; injection e with _ e2; revert e2; decide
  have hbase : ∀ p : Path, p.1 = Dir.proj t name →
      read (write Mode.ifAbsent (List.foldl (fun fs a => write a.mode fs a.path a.chunks) w.fs
        (apps.map fun a => (⟨(.app t name a.1, a.1 ++ sXml), .ifAbsent, [.appXml]⟩ : Action)))
        (Dir.pkg t name, sInit ++ sPy) []) p = read w.fs p := by
    intro p hpd
    rw [read_write_other _ _ _ _ _ (by intro e; rw [e] at hpd; cases hpd)]
    apply read_applyActs_notin
    intro a ha e
    simp only [List.mem_map] at ha
    obtain ⟨x, _, rfl⟩ := ha
    rw [← e] at hpd
    cases hpd
  have hpy : read (invoke sem w (.newProject t name apps)).1.fs (.proj t name, sPyproject) = some [.pyproject name] := by
    simp only [invoke, plan, planNewProject, hd, Bool.false_eq_true, if_false, applyPlan, applyActs, List.foldl_append,
      List.foldl_cons, List.foldl_nil]
    rw [read_write_other _ _ _ _ _ hne.symm]
    exact read_write_absent _ _ _ _ (by rw [hbase _ rfl, h1])
  have htox : read (invoke sem w (.newProject t name apps)).1.fs (.proj t name, sTox) = some [.tox (srcName name) apps] := by
    simp only [invoke, plan, planNewProject, hd, Bool.false_eq_true, if_false, applyPlan, applyActs, List.foldl_append,
      List.foldl_cons, List.foldl_nil]
    apply read_write_absent
    rw [read_write_other _ _ _ _ _ hne, hbase _ rfl, h2]
  exact ⟨htox, hpy, by rw [htox]; rfl, by rw [hpy]; rfl⟩

/-! ## the three clauses for the library as it is now (`current`) -/

/-- The generators of the current library open their files with 'w' and reset their class-level state per generation;
    the project tool does not (`pureProj current = false`). -/
theorem C17_current_is_pure : pureGen current = true ∧ pureProj current = false := by decide

/-- **Clause 1 for `current`** — see `C17_repeatable_of_pure`. -/
theorem C17_repeatable (i : Inv) (hg : i.isGen = true) (h1 h2 : List Ev) (d1 d2 : Dir)
    (he1 : dirOnly (run current w0 h1).fs d1 [] = true) (he2 : dirOnly (run current w0 h2).fs d2 [] = true) :
    (invoke current (run current w0 h1) (i.retarget d1)).2 = (invoke current (run current w0 h2) (i.retarget d2)).2
    ∧ dirView (invoke current (run current w0 h1) (i.retarget d1)).1.fs d1
        = dirView (invoke current (run current w0 h2) (i.retarget d2)).1.fs d2
    ∧ importAfter current (run current w0 h1) (i.retarget d1) = importAfter current (run current w0 h2) (i.retarget d2) :=
  C17_repeatable_of_pure current (by decide) i hg h1 h2 d1 d2 he1 he2

/-- **Clause 2 for `current`** — see `C17_regenerate_in_place_of_pure`. -/
theorem C17_regenerate_in_place (i : Inv) (hg : i.isGen = true) (h : List Ev)
    (hok : (invoke current w0 i).2 = .ok ())
    (hdir : dirOnly (run current w0 h).fs i.dir (targetNames i) = true) :
    (invoke current (run current w0 h) i).2 = .ok ()
    ∧ dirView (invoke current (run current w0 h) i).1.fs i.dir = dirView (invoke current w0 i).1.fs i.dir
    ∧ importAfter current (run current w0 h) i = importAfter current w0 i :=
  C17_regenerate_in_place_of_pure current (by decide) i hg h hok hdir

/-- **Clause 3 for `current`** — see `C17_no_leak_between_specs_of_pure`. -/
theorem C17_no_leak_between_specs (b : Inv) (hg : b.isGen = true) (h : List Ev) :
    (invoke current (run current w0 h) b).2 = (invoke current w0 b).2
    ∧ ((invoke current w0 b).2 = .ok () → ∀ n, n ∈ targetNames b →
        read (invoke current (run current w0 h) b).1.fs (b.dir, n) = read (invoke current w0 b).1.fs (b.dir, n)) :=
  C17_no_leak_between_specs_of_pure current (by decide) b hg h

/-! ## non-vacuity: concrete invocations that satisfy the hypotheses, and what the theorems give for them -/

section examples
private def specA : SoupSpec := ⟨1, some [(1, 0), (2, 1)], [1, 2], [65, 66]⟩
private def specC : SoupSpec := ⟨2, none, [1], [65]⟩            -- no fielddef-root, one `def=` reference
private def optsX : GenOpts := ⟨[120], [], true, .out 1, true⟩         -- app "x", no prefix, init file
private def fixA : FixSpec := ⟨1, 44, [1, 2], [1], [.mk 1 [2] [.mk 2 [1] []]], [1, 2]⟩
private def fixB : FixSpec := ⟨2, 44, [3], [3], [.mk 1 [3] []], [1]⟩

-- a successful invocation; its directory after two runs under `fixed` is the fresh one, and the package imports
example : (invoke fixed w0 (.soup .ouch specA optsX)).2 = .ok () := by decide
example : dirOnly (run fixed w0 [.inv (.soup .ouch specA optsX)]).fs (Dir.out 1)
    (targetNames (.soup .ouch specA optsX)) = true := by decide
example : importAfter fixed (run fixed w0 [.inv (.soup .ouch specA optsX)]) (.soup .ouch specA optsX) = .ok () := by decide
-- an invocation that fails alone fails in every history under `fixed` (the theorem is not only about successes)
example : (invoke fixed (run fixed w0 [.inv (.soup .ouch specA optsX)]) (.soup .ouch specC optsX)).2 = .error .key := by decide
-- FIX: B after A in one process under `fixed` writes the fresh groups module and imports
example : read (run fixed w0 [.inv (.fix fixA optsX), .inv (.fix fixB { optsX with dir := .out 2 })]).fs
      (.out 2, prefix_ [] ++ sFix ++ [120] ++ sGroups ++ sPy)
    = read (run fixed w0 [.inv (.fix fixB { optsX with dir := .out 2 })]).fs (.out 2, prefix_ [] ++ sFix ++ [120] ++ sGroups ++ sPy) := by
  decide
example : (targetNames (.fix fixA optsX)).Nodup := by decide
-- the same for the library as it is now
example : (invoke current w0 (.soup .ouch specA optsX)).2 = .ok () := by decide
example : dirOnly (run current w0 [.inv (.soup .ouch specA optsX)]).fs (Dir.out 1)
    (targetNames (.soup .ouch specA optsX)) = true := by decide
example : importAfter current (run current w0 [.inv (.fix fixA optsX), .inv (.fix fixA optsX)]) (.fix fixA optsX) = .ok () := by decide
-- a 4.2 dictionary without groups generates (Fix42Session); one with a NUMINGROUP field fails in `parse` (KeyError)
example : (invoke current w0 (.fix ⟨3, 42, [1], [1], [], []⟩ optsX)).2 = .ok () := by decide
example : (invoke current w0 (.fix { fixA with version := 42 } optsX)).2 = .error .key := by decide
example : dupApps [([111, 101], Impl.ouch), ([109, 100], Impl.itch)] = false := by decide
end examples

end NasdaqModel.Props.C17
