import NasdaqModel.Model.GenHistory
namespace NasdaqModel.Props.C17
open NasdaqModel GenHistory

theorem C17_fixed_is_pure : pureGen fixed = true ∧ pureProj fixed = true := by decide

end NasdaqModel.Props.C17
