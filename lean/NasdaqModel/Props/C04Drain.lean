import NasdaqModel.Lemmas.SessionDrainAny
import NasdaqModel.Props.C04
/-
C04, third sentence — "While the session stays open and handlers return, every fully received message is delivered within a bounded
number of reader ticks" — as theorems about **runs** of the session machine (`Model/Session.lean`), for every configuration and
every reachable state (`reach cfg evs`, any history: pull phase, login switch-over, earlier deliveries, handlers in progress).

* One *reader tick* is the event `run R` (the reader wakes from its poll sleep and frames at most one message), one *dispatcher
  step* is `run D` (the dispatcher takes the next message and enters the callback, or a callback that awaits is resumed once).
* `sched k m` = `k` reader ticks, then `m` dispatcher steps.  `drainCost cfg s k` is the explicit bound on `m`: what the handler in
  progress still needs, plus per queued message and per message among the first `k` buffered frames one step, and `j + 1` more if
  its callback awaits `j + 1` times (`C04_drainCost_le`: at most `(queue length + k) · (J + 2) + J + 1` for await counts `≤ J + 1`).
  Heartbeat frames cost their own reader tick and nothing else (`C04_heartbeats_cost_one_tick_each`, the case seeded change C04j
  broke: there the reader went back to sleep behind a heartbeat until more bytes arrived).
* `C04_drain_callback`  — the schedule, interleaved in any way with arriving frames: *exactly* the queued messages and the
  messages among the first `k` frames are delivered (callback entered), in order, after what was delivered before.
* `C04_drain_monotone`  — any continuation whatsoever (other tasks, timers, user calls, more reader ticks, more frames) that
  contains the schedule as a subsequence and leaves the session open: those messages have been delivered, in that order and
  position (lower bound); with `C04_prefix` (upper bound) the delivered sequence is sandwiched: `C04_drain_sandwich`.
* `C04_callback_mode_loses_nothing` — while a session in callback mode stays open the list of dropped messages does not grow
  (since the repair of C04-late-cancel-loses-message that list is empty in every reachable state anyway: `C04.C04_nothing_lost`).
* `C04_drain_pull`      — pull mode: `k` reader ticks queue the messages, as many `receive_msg_nowait()` calls return them in order.

The proofs go through an abstract pipeline (`Lemmas/SessionDrainPipe.lean`: potential-function argument, conservation), a
refinement proof (`Lemmas/SessionDrainSim.lean`, `Lemmas/SessionDrainAny.lean`) and a new invariant of all reachable states
(`Lemmas/SessionDrainInv.lean`: in callback mode the dispatcher of an open session is runnable or asleep on an empty queue; the
receive helper is alive only during a receive).
-/
namespace NasdaqModel.Props.C04Drain
open NasdaqModel Sess

abbrev reach (cfg : Cfg) (evs : List Ev) : St := runEvs cfg {} evs

/-- `k` reader ticks, then `m` dispatcher steps -/
def sched (k m : Nat) : List Ev := List.replicate k (.run .R) ++ List.replicate m (.run .D)

/-- connected, open, callback mode on (dispatcher started), not paused by a pending receive -/
def cbReady (s : St) : Bool :=
  !s.closed && s.status .R != .absent && s.dispSet && !s.rcvBusy && s.vres.isNone

/-- connected, open, no dispatcher, no receive pending -/
def pullReady (s : St) : Bool :=
  !s.closed && s.status .R != .absent && !s.dispSet && !s.rcvBusy && s.vres.isNone

/-- no logout / malformed frame among the first `k` buffered frames -/
def framesOk (s : St) (k : Nat) : Bool := (s.buf.take k).all goodFrame

/-- the message callbacks for the queued messages and for the messages among the first `k` buffered frames return (`ret`,
    `await j`) — or raise, or call `initiate_close()`: anything but closing the session from inside the callback -/
def handlersOk (cfg : Cfg) (s : St) (k : Nat) : Bool :=
  (s.queue ++ msgsOf (s.buf.take k)).all (fun n => !(cfg.msgBeh n).closes)

private theorem cbLive_of {s : St} (h : cbReady s = true) : CbLive s := by
  simp only [cbReady, Bool.and_eq_true, Bool.not_eq_true', bne_iff_ne, ne_eq, Option.isNone_iff_eq_none] at h
  exact ⟨h.1.1.1.1, h.1.1.1.2, h.1.1.2, h.1.2, h.2⟩

private theorem cbReady_of {s : St} (c : CbLive s) : cbReady s = true := by
  simp [cbReady, c.op, c.conn, c.disp, c.busy, c.vres]

private theorem good_of {cfg : Cfg} {s : St} {k : Nat} (h1 : framesOk s k = true) (h2 : handlersOk cfg s k = true) : Good cfg s k := by
  refine ⟨fun f hf => ?_, fun n hn => ?_⟩
  · exact List.all_eq_true.mp h1 f hf
  · have := List.all_eq_true.mp h2 n hn
    simpa using this

private theorem reach_append (cfg : Cfg) (evs evs' : List Ev) : reach cfg (evs ++ evs') = runEvs cfg (reach cfg evs) evs' := by
  simp [reach, runEvs, List.foldl_append]

/-! ### 1. callback mode: the canonical schedule, exactly -/

/-- **Bounded delivery, callback mode.** Let `s = reach cfg evs` be any reachable state that is connected, open, in callback mode
    and not paused by a pending receive; let no logout / malformed frame be among its first `k` buffered frames and let the
    callbacks concerned not close the session.  Run `k` reader ticks followed by `m ≥ drainCost cfg s k` dispatcher steps —
    interleaved in any way with further `data` events (if there are any, the `k` frames must all be buffered already: new frames
    only append).  Then exactly the messages already queued and the messages among those `k` frames have been entered by the
    message callback, in order, after what was delivered before; the queue is empty; the buffer holds the remaining frames followed
    by what arrived; the session is still open and ready; and every callback has returned (the dispatcher is back in its loop). -/
theorem C04_drain_callback (cfg : Cfg) (evs sch : List Ev) (k m : Nat)
    (hr : cbReady (reach cfg evs) = true) (hf : framesOk (reach cfg evs) k = true) (hh : handlersOk cfg (reach cfg evs) k = true)
    (hs : sch.filter Ev.notData = sched k m)
    (hk : (∃ e ∈ sch, Ev.notData e = false) → k ≤ (reach cfg evs).buf.length)
    (hm : drainCost cfg (reach cfg evs) k ≤ m) :
    delivered (reach cfg (evs ++ sch)).trace =
      delivered (reach cfg evs).trace ++ (reach cfg evs).queue ++ msgsOf ((reach cfg evs).buf.take k) ∧
    (reach cfg (evs ++ sch)).queue = [] ∧
    (reach cfg (evs ++ sch)).buf = (reach cfg evs).buf.drop k ++ framesOf sch ∧
    cbReady (reach cfg (evs ++ sch)) = true ∧ (reach cfg (evs ++ sch)).prog .D = .dispLoop := by
  have c := cbLive_of hr
  obtain ⟨_, r, _⟩ := runEvs_InvARB cfg evs
  have l := c.live r (runEvs_InvW cfg evs) (runEvs_InvP cfg evs)
  obtain ⟨d1, d2, d3, l', f', d4⟩ := drain_exact cfg sch (reach cfg evs) k m l (good_of hf hh) hk hs hm
  rw [reach_append]
  exact ⟨d1, d2, d3, cbReady_of (c.of_live l' f').1, d4⟩

/-- the schedule alone, for any `k` (more ticks than buffered frames are harmless), with exactly `drainCost` dispatcher steps -/
theorem C04_drain_callback_pure (cfg : Cfg) (evs : List Ev) (k : Nat)
    (hr : cbReady (reach cfg evs) = true) (hf : framesOk (reach cfg evs) k = true) (hh : handlersOk cfg (reach cfg evs) k = true) :
    delivered (reach cfg (evs ++ sched k (drainCost cfg (reach cfg evs) k))).trace =
      delivered (reach cfg evs).trace ++ (reach cfg evs).queue ++ msgsOf ((reach cfg evs).buf.take k) ∧
    (reach cfg (evs ++ sched k (drainCost cfg (reach cfg evs) k))).queue = [] ∧
    cbReady (reach cfg (evs ++ sched k (drainCost cfg (reach cfg evs) k))) = true ∧
    (reach cfg (evs ++ sched k (drainCost cfg (reach cfg evs) k))).prog .D = .dispLoop := by
  have hnd : ∀ e ∈ sched k (drainCost cfg (reach cfg evs) k), Ev.notData e = true := by
    intro e he
    simp only [sched, List.mem_append, List.mem_replicate] at he
    rcases he with ⟨_, rfl⟩ | ⟨_, rfl⟩ <;> rfl
  obtain ⟨a, b, _, d, e⟩ := C04_drain_callback cfg evs _ k _ hr hf hh (List.filter_eq_self.mpr hnd)
    (fun ⟨e, he, hd⟩ => by rw [hnd e he] at hd; cases hd) (Nat.le_refl _)
  exact ⟨a, b, d, e⟩

/-- **The bound, spelled out.** If every callback concerned awaits at most `J + 1` times (`behCost ≤ J + 2`), the number of
    dispatcher steps needed is at most what the handler in progress still needs plus `(queue length + k) · (J + 2)`. -/
theorem C04_drainCost_le (cfg : Cfg) (s : St) (k J : Nat)
    (hJ : ∀ n ∈ s.queue ++ msgsOf (s.buf.take k), behCost (cfg.msgBeh n) ≤ J + 2) :
    drainCost cfg s k ≤ phCost (phaseOfProg (s.prog .D)) + (s.queue.length + k) * (J + 2) := by
  have key : ∀ l : List Nat, (∀ n ∈ l, behCost (cfg.msgBeh n) ≤ J + 2) → cost cfg.msgBeh l ≤ l.length * (J + 2) := by
    intro l
    induction l with
    | nil => intro _; simp [cost]
    | cons n l ih =>
      intro h
      rw [cost_cons]
      have h1 := h n (by simp)
      have h2 := ih (fun x hx => h x (by simp [hx]))
      simp only [List.length_cons, Nat.add_mul, Nat.one_mul]
      omega
  have h1 := key _ hJ
  have h2 : (msgsOf (s.buf.take k)).length ≤ k := by
    have : (msgsOf (s.buf.take k)).length ≤ (s.buf.take k).length := by
      unfold msgsOf; exact List.length_filterMap_le _ _
    have h3 : (s.buf.take k).length ≤ k := by simp [List.length_take]; omega
    omega
  have h3 : (s.queue ++ msgsOf (s.buf.take k)).length * (J + 2) ≤ (s.queue.length + k) * (J + 2) := by
    apply Nat.mul_le_mul_right
    simp only [List.length_append]; omega
  unfold drainCost
  omega

/-- **Heartbeats cost their own tick and nothing else.** With `h` heartbeat frames in front of a message frame, `h + 1` reader
    ticks and the dispatcher steps for the queued messages and that one message deliver it — the heartbeats add no dispatcher
    step and no waiting for further input. -/
theorem C04_heartbeats_cost_one_tick_each (cfg : Cfg) (evs : List Ev) (h n : Nat) (rest : List Frame)
    (hr : cbReady (reach cfg evs) = true) (hb : (reach cfg evs).buf = List.replicate h .hb ++ .msg n :: rest)
    (hh : ∀ x ∈ (reach cfg evs).queue ++ [n], (cfg.msgBeh x).closes = false) :
    drainCost cfg (reach cfg evs) (h + 1) =
      phCost (phaseOfProg ((reach cfg evs).prog .D)) + cost cfg.msgBeh ((reach cfg evs).queue ++ [n]) ∧
    delivered (reach cfg (evs ++ sched (h + 1) (drainCost cfg (reach cfg evs) (h + 1)))).trace =
      delivered (reach cfg evs).trace ++ (reach cfg evs).queue ++ [n] := by
  have htake : (reach cfg evs).buf.take (h + 1) = List.replicate h .hb ++ [.msg n] := by
    rw [hb, List.take_append]
    simp [List.take_of_length_le]
  have hmsgs : msgsOf (List.replicate h Frame.hb ++ [.msg n]) = [n] := by
    have : ∀ h, msgsOf (List.replicate h Frame.hb) = [] := by
      intro h; induction h with
      | zero => rfl
      | succ h ih => rw [List.replicate_succ, msgsOf_cons_other _ (by simp)]; exact ih
    rw [msgsOf_append, this]; simp [msgsOf]
  have hf : framesOk (reach cfg evs) (h + 1) = true := by
    simp only [framesOk, htake, List.all_eq_true]
    intro f hf
    simp only [List.mem_append, List.mem_replicate, List.mem_singleton] at hf
    rcases hf with ⟨_, rfl⟩ | rfl <;> rfl
  have hh' : handlersOk cfg (reach cfg evs) (h + 1) = true := by
    simp only [handlersOk, htake, hmsgs, List.all_eq_true]
    intro x hx
    simp [hh x hx]
  obtain ⟨a, _, _⟩ := C04_drain_callback_pure cfg evs (h + 1) hr hf hh'
  rw [htake, hmsgs] at a
  refine ⟨?_, a⟩
  unfold drainCost
  rw [htake, hmsgs]

/-! ### 2. callback mode: any continuation that leaves the session open -/

/-- **Bounded delivery, monotone.** From the same kind of state, let `evs'` be *any* continuation — other tasks, timers, user
    calls, cancellations, more frames, more reader ticks — after which the session is still open, and which contains the schedule
    `sched k m` (with `m ≥ drainCost`) as a subsequence.  Then the queued messages and the messages among the first `k` buffered
    frames have been delivered, in order, immediately after what had been delivered before (nothing else got in between), and
    the session is still in callback mode and ready, and no message was dropped meanwhile.  No hypothesis on frames or handlers
    is needed: a logout / malformed frame among the `k` frames, or a callback that closes, would have closed the session. -/
theorem C04_drain_monotone (cfg : Cfg) (evs evs' : List Ev) (k m : Nat) (hr : cbReady (reach cfg evs) = true)
    (hopen : (reach cfg (evs ++ evs')).closed = false) (hsub : (sched k m).Sublist evs')
    (hm : drainCost cfg (reach cfg evs) k ≤ m) :
    delivered (reach cfg evs).trace ++ (reach cfg evs).queue ++ msgsOf ((reach cfg evs).buf.take k)
      <+: delivered (reach cfg (evs ++ evs')).trace ∧
    cbReady (reach cfg (evs ++ evs')) = true ∧ (reach cfg (evs ++ evs')).lost = (reach cfg evs).lost := by
  rw [reach_append] at hopen ⊢
  obtain ⟨h1, c', g'⟩ := drain_mono cfg evs evs' k m (cbLive_of hr) hopen hsub hm
  exact ⟨h1, cbReady_of c', g'⟩

/-- **Callback mode drops nothing.** While a session in callback mode stays open, no message is lost (the late cancel of
    `Witness/C04Late.lean` needs a pending receive, and receives fail with `StateError` in callback mode): whatever happens,
    the list of dropped messages does not grow.  (Proved before the repair of C04-late-cancel-loses-message; now also a
    consequence of `C04.C04_nothing_lost`.) -/
theorem C04_callback_mode_loses_nothing (cfg : Cfg) (evs evs' : List Ev) (hr : cbReady (reach cfg evs) = true)
    (hopen : (reach cfg (evs ++ evs')).closed = false) :
    (reach cfg (evs ++ evs')).lost = (reach cfg evs).lost ∧ cbReady (reach cfg (evs ++ evs')) = true := by
  rw [reach_append] at hopen ⊢
  obtain ⟨c', _, g'⟩ := sim_run_open cfg evs' evs (cbLive_of hr) hopen
  exact ⟨g', cbReady_of c'⟩

/-- **Sandwich**: lower bound from `C04_drain_monotone`, upper bound from `C04_prefix` — after such a continuation the delivered
    sequence starts with everything that was owed and is a prefix of what the wire carried (no hypothesis about the pull phase
    any more: a late cancel there loses nothing). -/
theorem C04_drain_sandwich (cfg : Cfg) (evs evs' : List Ev) (k m : Nat) (hr : cbReady (reach cfg evs) = true)
    (hopen : (reach cfg (evs ++ evs')).closed = false) (hsub : (sched k m).Sublist evs')
    (hm : drainCost cfg (reach cfg evs) k ≤ m) :
    delivered (reach cfg evs).trace ++ (reach cfg evs).queue ++ msgsOf ((reach cfg evs).buf.take k)
      <+: delivered (reach cfg (evs ++ evs')).trace ∧
    delivered (reach cfg (evs ++ evs')).trace <+: msgsOf (reach cfg (evs ++ evs')).wire := by
  obtain ⟨h1, _, _⟩ := C04_drain_monotone cfg evs evs' k m hr hopen hsub hm
  exact ⟨h1, C04.C04_prefix cfg (evs ++ evs')⟩

/-- **The next blocking receive after a cancelled receive.** On an open pull-mode session, after the cancellation of
    `receive_msg()` was delivered to user task `u` (early or late, `C04.C04_cancelled_receive_consumes_nothing`), a fresh
    `receive_msg()` returns the first undelivered message at once: the helper task of the cancelled receive has ended
    (`stash_no_getter`), no receive is pending, and the message the cancelled receive held is back in front of the queue. -/
theorem C04_receive_after_cancelled_receive (cfg : Cfg) (evs : List Ev) (u u' n : Nat) (q : List Nat)
    (hopen : (reach cfg evs).closed = false)
    (hst : (reach cfg evs).status (.U u) = .cancelled) (hp : (reach cfg evs).prog (.U u) = .recvWait u)
    (hq : (reach cfg evs).vres.toList ++ (reach cfg evs).queue = n :: q)
    (hd : (reach cfg evs).dispSet = false) (hu : (reach cfg evs).status (.U u') = .absent) :
    (reach cfg (evs ++ [.run (.U u), .callRecv u', .run (.U u')])).trace =
      (reach cfg evs).trace ++ [.ret u (if (reach cfg evs).qClosed then .eoq else .cancelled), .ret u' (.msg n)] ∧
    (reach cfg (evs ++ [.run (.U u), .callRecv u', .run (.U u')])).queue = q := by
  obtain ⟨_, hV⟩ := stash_no_getter cfg evs u hopen hst (Or.inr hp)
  obtain ⟨ht, _, hv, hb, hqu, _, _⟩ := C04.C04_cancelled_receive_consumes_nothing cfg evs u hst hp
  have e1 : C04.reach cfg (evs ++ [.run (.U u)]) = step cfg (reach cfg evs) (.run (.U u)) := C04.reach_snoc cfg evs _
  have huu : u' ≠ u := by intro e; subst e; rw [hst] at hu; cases hu
  generalize hs' : C04.reach cfg (evs ++ [.run (.U u)]) = s' at ht hv hb hqu e1
  have key : ∃ (x : St) (o : Obs), s' = (x.emit o).finish (.U u) ∧ x.status = (reach cfg evs).status ∧
      x.dispSet = (reach cfg evs).dispSet := by
    rw [e1]
    cases hqc : (reach cfg evs).qClosed
    · exact ⟨({ reach cfg evs with imm := none, vres := none, rcvBusy := false, queue := (reach cfg evs).vres.toList ++ (reach cfg evs).queue } : St),
        .ret u .cancelled, by simp [step, runnable, hst, stepRun, hp, hqc], rfl, rfl⟩
    · exact ⟨({ reach cfg evs with imm := none, vres := none, rcvBusy := false, queue := (reach cfg evs).vres.toList ++ (reach cfg evs).queue } : St),
        .ret u .eoq, by simp [step, runnable, hst, stepRun, hp, hqc], rfl, rfl⟩
  obtain ⟨x, o, hx, hxs, hxd⟩ := key
  have hV' : alive (s'.status .V) = false := by
    rw [hx]; exact dead_finish (s := x.emit o) _ (by show alive (x.status .V) = false; rw [hxs]; exact hV)
  have hd' : s'.dispSet = false := by
    rw [hx]; show x.dispSet = false; rw [hxd]; exact hd
  have hu' : s'.status (.U u') = .absent := by
    have hne : Tid.U u' ≠ Tid.U u := by intro e; injection e with e; exact huu e
    rw [hx, finish_status]
    show (if Tid.U u' = Tid.U u then Status.done else if x.status (.U u') = .waitT (.U u) then .ready else x.status (.U u')) = _
    rw [hxs]; simp [hne, hu]
  have e3 : reach cfg (evs ++ [.run (.U u), .callRecv u', .run (.U u')]) =
      step cfg (step cfg s' (.callRecv u')) (.run (.U u')) := by
    rw [← hs']; simp [reach, C04.reach, runEvs, List.foldl_append]
  rw [e3]
  obtain ⟨r1, r2, _⟩ := C04.C04_receive_returns_head cfg s' u' n q hb hv hV' hd' hu' (by rw [hqu]; exact hq)
  exact ⟨by rw [r1, ht]; simp, r2⟩

/-! ### 3. pull mode -/

private theorem delivered_append_rets (tr : List Obs) (u : Nat) (l : List Nat) :
    delivered (tr ++ l.map (fun n => Obs.ret u (.msg n))) = delivered tr ++ l := by
  induction l generalizing tr with
  | nil => simp
  | cons n l ih =>
    have : tr ++ List.map (fun n => Obs.ret u (.msg n)) (n :: l) = (tr ++ [Obs.ret u (.msg n)]) ++ l.map (fun n => Obs.ret u (.msg n)) := by
      simp
    rw [this, ih, delivered_append]; simp [deliveredObs]

/-- **Bounded delivery, pull mode.** From a reachable state that is connected, open, without dispatcher and without a pending
    receive, with no logout / malformed frame among the first `k` buffered frames: after `k` reader ticks the messages already
    queued and the messages among those frames are on the queue, in order; and as many `receive_msg_nowait()` calls return exactly
    them, in order, leaving the queue empty and the session open. -/
theorem C04_drain_pull (cfg : Cfg) (evs : List Ev) (k u : Nat)
    (hr : pullReady (reach cfg evs) = true) (hf : framesOk (reach cfg evs) k = true) :
    (reach cfg (evs ++ List.replicate k (.run .R))).queue =
      (reach cfg evs).queue ++ msgsOf ((reach cfg evs).buf.take k) ∧
    (reach cfg (evs ++ List.replicate k (.run .R) ++
        List.replicate ((reach cfg evs).queue ++ msgsOf ((reach cfg evs).buf.take k)).length (.callRecvNowait u))).trace =
      (reach cfg evs).trace ++ ((reach cfg evs).queue ++ msgsOf ((reach cfg evs).buf.take k)).map (fun n => Obs.ret u (.msg n)) ∧
    delivered (reach cfg (evs ++ List.replicate k (.run .R) ++
        List.replicate ((reach cfg evs).queue ++ msgsOf ((reach cfg evs).buf.take k)).length (.callRecvNowait u))).trace =
      delivered (reach cfg evs).trace ++ (reach cfg evs).queue ++ msgsOf ((reach cfg evs).buf.take k) ∧
    (reach cfg (evs ++ List.replicate k (.run .R) ++
        List.replicate ((reach cfg evs).queue ++ msgsOf ((reach cfg evs).buf.take k)).length (.callRecvNowait u))).queue = [] ∧
    (reach cfg (evs ++ List.replicate k (.run .R) ++
        List.replicate ((reach cfg evs).queue ++ msgsOf ((reach cfg evs).buf.take k)).length (.callRecvNowait u))).closed = false := by
  simp only [pullReady, Bool.and_eq_true, Bool.not_eq_true', bne_iff_ne, ne_eq, Option.isNone_iff_eq_none] at hr
  obtain ⟨⟨⟨⟨hop, hconn⟩, hdisp⟩, hbusy⟩, hvres⟩ := hr
  obtain ⟨_, r, _⟩ := runEvs_InvARB cfg evs
  obtain ⟨hrs, hR, _⟩ := r hop
  have hR' := hR.resolve_left hconn
  have l : RLive (reach cfg evs) := ⟨hR'.1, hR'.2, hrs, hbusy, hvres⟩
  obtain ⟨l1, _, q1, f1⟩ := pull_reader cfg k (reach cfg evs) l (fun f hf' => List.all_eq_true.mp hf f hf')
  simp only [pflags, Prod.mk.injEq] at f1
  obtain ⟨fc, fd, _, _, ft, _⟩ := f1
  rw [reach_append, reach_append, reach_append]
  generalize hs1 : runEvs cfg (reach cfg evs) (List.replicate k (Ev.run Tid.R)) = s1 at *
  obtain ⟨t2, q2, _, _, c2⟩ := pull_nowait cfg u _ s1 q1 l1.busy l1.vres (by rw [fd]; exact hdisp)
  refine ⟨q1, ?_, ?_, q2, ?_⟩
  · rw [t2, ft]
  · rw [t2, ft, delivered_append_rets, List.append_assoc]
  · rw [c2, fc]; exact hop

/-! ### 4. non-vacuity: concrete reachable states satisfying the hypotheses, and what the theorems say about them -/

/-- server-style configuration: callbacks from the start; the callback for message 2 awaits twice -/
private def cfgCb : Cfg :=
  { msgBeh := fun n => if n = 2 then .await 1 else .ret, cbBeh := .ret, hasCb := true, dispatchOnConnect := true,
    hasMsgCb := true, fixLogin := false }
/-- client configuration: callbacks are switched on by the accepted login -/
private def cfgLogin : Cfg := { cfgCb with dispatchOnConnect := false }

/-- a burst with heartbeats in between, nothing processed yet -/
private def burst : List Ev := [.connect, .data [.msg 1, .hb, .msg 2, .hb, .msg 3]]
example : cbReady (reach cfgCb burst) = true ∧ framesOk (reach cfgCb burst) 5 = true ∧ handlersOk cfgCb (reach cfgCb burst) 5 = true := by
  decide
example : drainCost cfgCb (reach cfgCb burst) 5 = 5 := by decide
example : (reach cfgCb (burst ++ sched 5 5)).trace =
    [.msgEnter 1, .msgExit 1, .msgEnter 2, .msgExit 2, .msgEnter 3, .msgExit 3] := by decide
/-- one dispatcher step fewer than `drainCost` and the last message is not yet delivered: the bound is tight here -/
example : delivered (reach cfgCb (burst ++ sched 5 4)).trace = [1, 2] := by decide

/-- a state in the middle of things: one message delivered, the callback for message 2 in progress, frames still buffered -/
private def midway : List Ev := burst ++ [.run .R, .run .R, .run .R, .run .D, .run .D]
example : cbReady (reach cfgCb midway) = true ∧ (reach cfgCb midway).prog .D = .handler 2 1 ∧ (reach cfgCb midway).buf = [.hb, .msg 3] ∧
    drainCost cfgCb (reach cfgCb midway) 2 = 3 := by decide
/-- the schedule interleaved with arriving frames: the new frames only append -/
example : delivered (reach cfgCb (midway ++ [.run .R, .data [.msg 4], .run .R, .run .D, .data [.hb], .run .D, .run .D])).trace = [1, 2, 3] ∧
    (reach cfgCb (midway ++ [.run .R, .data [.msg 4], .run .R, .run .D, .data [.hb], .run .D, .run .D])).buf = [.msg 4, .hb] := by decide

/-- pull-then-callback: the login reply is pulled, data piggy-backed on the acceptance is then delivered by callbacks -/
private def afterLogin : List Ev :=
  [.connect, .callLogin 1, .run .V, .data [.msg 0, .msg 5, .hb, .msg 6], .run .R, .run .V, .run (.U 1)]
example : cbReady (reach cfgLogin afterLogin) = true ∧ (reach cfgLogin afterLogin).buf = [.msg 5, .hb, .msg 6] ∧
    delivered (reach cfgLogin afterLogin).trace = [0] := by decide
example : delivered (reach cfgLogin (afterLogin ++ sched 3 2)).trace = [0, 5, 6] := by decide

/-- the seeded change C04j: a heartbeat in front of a message.  Two ticks, one dispatcher step. -/
example : delivered (reach cfgCb ([.connect, .data [.hb, .msg 7]] ++ sched 2 1)).trace = [7] := by decide

/-- a continuation full of other events that contains the schedule as a subsequence and leaves the session open -/
private def noisy : List Ev :=
  [.callSend, .run .R, .callRecv 3, .run .D, .run .R, .cancel 3, .data [.msg 4], .run .R, .run .R, .callRecvNowait 4, .run .R,
   .run .D, .run .D, .run .D, .callSend, .run .D, .run .D, .run .D]
example : (sched 5 5).Sublist noisy ∧ (reach cfgCb (burst ++ noisy)).closed = false := by decide
example : delivered (reach cfgCb (burst ++ noisy)).trace = [1, 2, 3] ∧ (reach cfgCb (burst ++ noisy)).buf = [.msg 4] := by decide

/-- pull mode -/
example : pullReady (reach cfgLogin burst) = true ∧ framesOk (reach cfgLogin burst) 5 = true := by decide
example : (reach cfgLogin (burst ++ List.replicate 5 (.run .R) ++ List.replicate 3 (.callRecvNowait 9))).trace =
    [.ret 9 (.msg 1), .ret 9 (.msg 2), .ret 9 (.msg 3)] := by decide

/-- the hypotheses are needed.  A malformed frame among the first `k`: the session closes (the dispatcher is cancelled before it
    ran), this schedule delivers nothing. -/
example : framesOk (reach cfgCb [.connect, .data [.msg 1, .bad, .msg 3]]) 3 = false ∧
    delivered (reach cfgCb ([.connect, .data [.msg 1, .bad, .msg 3]] ++ sched 3 3)).trace = [] ∧
    (reach cfgCb ([.connect, .data [.msg 1, .bad, .msg 3]] ++ sched 3 3)).closed = true := by decide
/-- A dispatcher next to a pending receive (API misuse, `cbReady` fails): the dispatcher leaves the queue to the receive. -/
example : cbReady (reach cfgCb [.callRecv 1, .connect, .data [.msg 1]]) = false ∧
    delivered (reach cfgCb ([.callRecv 1, .connect, .data [.msg 1]] ++ sched 1 3)).trace = [] := by decide

end NasdaqModel.Props.C04Drain
