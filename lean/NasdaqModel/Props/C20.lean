import NasdaqModel.Lemmas.SyncFacadeProgress
import NasdaqModel.Lemmas.SyncFacadeMeasure
import NasdaqModel.Witness.C20
/-
C20 — the synchronous facade always returns or raises; its thread always ends.

Model: `Model/SyncFacade.lean` — the code after the fixes 86c1975 (send_unseq_data through the executor), 1753c2b
(`_wait_for`: StateError once the loop thread is gone) and 564383d (the close callback takes no lock; `_shutdown`).
Any number of caller threads, the executor's loop thread, peer events; one transition = one atomic statement of one
thread; every interleaving allowed, nothing assumed fair.  All theorems quantify over ALL configurations (any number of
threads, any programs, any peer script) and ALL interleavings; proofs are invariants by induction over the transition
sequence and a strictly decreasing measure.

FULL STATEMENT, now proved as stated (`C20_no_hang`):
    ∀ cfg ls s, exec (init cfg) ls = some s → (∀ l, step s l = none) →
      ∀ i c, s.callers[i]? = some c → c.finished = true ∨ legitWait s c = true
together with `C20_thread_exits` (thread exited, event set, session closed, lock free whenever a close was started),
`C20_close_returns_thread_exited`, `C20_after_close_state_error` (now including send_unseq_data) and the run-length bound.

What stays `_partial` is a statement about the *exception class*, not about blocking: with two receive() calls waiting
at once the queue's single `_recv_task` slot forgets one of them; close() then answers it with StateError (after the thread
has exited) instead of EndOfQueue.  `C20_close_answers_blocked_receive_partial` proves "once close() has begun no receive
is left waiting" for runs inside `okStep` (never two receives waiting at once); `C20_forgotten_receiver_needs_okStep`
shows the hypothesis is needed (Witness.C20.run3, replayed on the implementation).
-/
namespace NasdaqModel.Props.C20
open NasdaqModel.SyncFacade

/-! ### safety invariants: every reachable state, any number of caller threads, any interleaving -/

/-- `closed_event` set ⇒ `loop.stop` has been requested -/
theorem C20_event_implies_stop {cfg : Cfg} {s : St} (h : Reachable cfg s) :
    s.closedEvent = true → s.stopReq = true := by
  have hg := (inv1_reachable h).1
  revert hg; simp only [ginv]; cases s.closePc <;> simp_all

/-- the executor thread exits only after the close callback has completed: stop requested, event set, lock released -/
theorem C20_thread_exit_implies_closed {cfg : Cfg} {s : St} (h : Reachable cfg s) :
    s.loopAlive = false →
      s.closePc = .done ∧ s.stopReq = true ∧ s.closedEvent = true ∧ s.sessClosed = true ∧ s.lock ≠ some .loop := by
  have hg := (inv1_reachable h).1
  revert hg; simp only [ginv, St.sessClosed]; cases s.closePc <;> simp_all [ClosePc.sessClosed]

/-- the thread, once exited, stays exited; a close procedure, once started, is never forgotten -/
theorem C20_thread_never_restarts {s s' : St} {l : Label} (h : step s l = some s') :
    (s.loopAlive = false → s'.loopAlive = false) ∧ (s.closePc ≠ .idle → s'.closePc ≠ .idle) :=
  step_mono h

/-- lock discipline: a caller thread owns `close_lock` exactly while it is between `with self.close_lock:` and the end
of that block; the loop thread never owns it (the close callback must not wait for a lock a caller may hold) -/
theorem C20_lock_discipline {cfg : Cfg} {s : St} (h : Reachable cfg s) :
    (∀ (i : Nat) (c : Caller), s.callers[i]? = some c → (critPc c = true ↔ s.lock = some (.caller i))) ∧
    s.lock ≠ some .loop := by
  have hI := inv1_reachable h
  refine ⟨fun i c hc => (hI.2 i c hc).2.2, ?_⟩
  have hg := hI.1
  revert hg; simp only [ginv]; cases s.closePc <;> simp_all

theorem C20_mutual_exclusion {cfg : Cfg} {s : St} (h : Reachable cfg s) {i j : Nat} {ci cj : Caller}
    (hi : s.callers[i]? = some ci) (hj : s.callers[j]? = some cj) (ci_in : critPc ci = true)
    (cj_in : critPc cj = true) : i = j := by
  obtain ⟨hc, _⟩ := C20_lock_discipline h
  have li := (hc i ci hi).mp ci_in
  have lj := (hc j cj hj).mp cj_in
  rw [li] at lj; simpa using lj

/-- when `close()` / `logout()` has returned, the executor thread has exited and the session reports closed -/
theorem C20_close_returns_thread_exited {cfg : Cfg} {s : St} (h : Reachable cfg s) {i : Nat} {c : Caller}
    (hc : s.callers[i]? = some c) {op : Op} (hop : op.isClose = true) (hret : (op, Outcome.ok) ∈ c.hist) :
    s.loopAlive = false ∧ s.sessClosed = true := by
  have hI := inv12_reachable h
  have hcl : closedIn c.hist = true := by
    unfold closedIn
    exact List.any_eq_true.mpr ⟨(op, .ok), hret, by simp [hop]⟩
  have ha := (hI.2 i c hc).1 hcl
  exact ⟨ha, (C20_thread_exit_implies_closed h ha).2.2.2.1⟩

/-- reading of `goodHist`: a call finished after a returned close()/logout() of the same thread ended as
`expectedAfterClose` says — StateError for receive / send / execute -/
theorem goodHist_spec {pre post : List (Op × Outcome)} {op : Op} {o : Outcome}
    (h : goodHist (pre ++ (op, o) :: post) = true) (hc : closedIn post = true) : o = expectedAfterClose op := by
  induction pre with
  | nil => simp [goodHist, hc] at h; exact h.2
  | cons p pre ih =>
    obtain ⟨op', o'⟩ := p
    simp only [List.cons_append, goodHist, Bool.and_eq_true] at h
    exact ih h.1

/-- after `close()` / `logout()` returned, every later call of that thread fails with the state error
(receive, send_msg/send_debug, send_unseq_data, execute); close/logout return at once -/
theorem C20_after_close_state_error {cfg : Cfg} {s : St} (h : Reachable cfg s) {i : Nat} {c : Caller}
    (hc : s.callers[i]? = some c) {pre post : List (Op × Outcome)} {op : Op} {o : Outcome}
    (hh : c.hist = pre ++ (op, o) :: post) (hcl : closedIn post = true) : o = expectedAfterClose op := by
  have hI := inv12_reachable h
  have g := (hI.2 i c hc).2.2.2.2.2
  rw [hh] at g
  exact goodHist_spec g hcl

/-- … and of ANY thread: once the executor thread has exited, a receive / send / execute call that is at its
`_must_be_active()` check is not blocked and ends with StateError in that very step (fails fast) -/
theorem C20_call_on_dead_executor_fails_fast {s : St} {i : Nat} {c : Caller} {op : Op} {rest : List Op}
    (hc : s.callers[i]? = some c) (hdead : s.loopAlive = false) (hp : c.prog = op :: rest)
    (hpc : c.pc = .chk1 ∨ c.pc = .chk2) (hop : op.isClose = false) :
    stepCaller s i = some { s with callers := updAt s.callers i (fun _ => finish c op .state) } := by
  rcases c with ⟨prog, pc, job, hist⟩
  simp only at hp hpc; subst hp
  rcases hpc with rfl | rfl <;> simp [stepCaller, hc, callerStep, hdead, hop]

/-! ### termination: every transition strictly decreases a measure — in EVERY state, so no run is infinite -/

theorem C20_measure_decreases {s s' : St} {l : Label} (h : step s l = some s') : mu s' < mu s := step_mu h

/-- every run from the initial state of any configuration has at most `mu (init cfg)` transitions -/
theorem C20_runs_bounded {cfg : Cfg} {ls : List Label} {s : St} (h : exec (init cfg) ls = some s) :
    ls.length ≤ mu (init cfg) := by
  have := exec_length_le h; omega

theorem sumMu_init (ps : List (List Op)) : sumMu (ps.map initCaller) = 14 * (ps.map List.length).sum := by
  induction ps with
  | nil => rfl
  | cons p ps ih => simp only [List.map_cons, sumMu, ih, List.sum_cons, callerMu, initCaller, jobRank]; omega

/-- the bound, explicitly: 14 steps per call, 6 for the loop thread, one per peer event -/
theorem C20_runs_bounded_explicit {cfg : Cfg} {ls : List Label} {s : St} (h : exec (init cfg) ls = some s) :
    ls.length ≤ 14 * (cfg.progs.map List.length).sum + 6 + cfg.peer.length := by
  have := C20_runs_bounded h
  simp only [mu, init, sumMu_init, closeRank] at this
  simpa using this

/-! ### no hang (partial: outside the excluded region) -/

theorem terminal_iff (s : St) : terminal s = true ↔ ∀ l, step s l = none := by
  constructor
  · intro h l
    simp only [terminal, List.all_eq_true, Option.isNone_iff_eq_none] at h
    by_cases hm : l ∈ allLabels s
    · exact h l hm
    · cases l with
      | caller i =>
        have : ¬ i < s.callers.length := by
          intro hi; apply hm
          simp only [allLabels, List.mem_append, List.mem_flatMap, List.mem_range]
          exact Or.inl ⟨i, hi, by simp⟩
        simp [step, stepCaller, List.getElem?_eq_none (Nat.le_of_not_lt this)]
      | job i =>
        have : ¬ i < s.callers.length := by
          intro hi; apply hm
          simp only [allLabels, List.mem_append, List.mem_flatMap, List.mem_range]
          exact Or.inl ⟨i, hi, by simp⟩
        simp only [step, stepJob, List.getElem?_eq_none (Nat.le_of_not_lt this)]
        split <;> rfl
      | close => exact absurd (by simp [allLabels]) hm
      | stop => exact absurd (by simp [allLabels]) hm
      | peer => exact absurd (by simp [allLabels]) hm
  · intro h
    simp only [terminal, List.all_eq_true, Option.isNone_iff_eq_none]
    exact fun l _ => h l

/-- **Every maximal run ends with all callers returned** (or waiting in `receive()` for a peer that may still send, on
an open session with a live loop): no call blocks for ever — any number of threads, any interleaving, any peer events. -/
theorem C20_no_hang {cfg : Cfg} {ls : List Label} {s : St} (h : exec (init cfg) ls = some s)
    (hmax : ∀ l, step s l = none) :
    ∀ (i : Nat) (c : Caller), s.callers[i]? = some c → c.finished = true ∨ legitWait s c = true :=
  terminal_all_returned (invs_reachable ⟨ls, h⟩) hmax

/-- … and if a close was ever started (by `close()`, `logout()`, end of session or disconnect) the run ends with the
executor thread exited, the event set, the session closed and the lock free -/
theorem C20_thread_exits {cfg : Cfg} {ls : List Label} {s : St} (h : exec (init cfg) ls = some s)
    (hmax : ∀ l, step s l = none) (hstarted : s.closePc ≠ .idle) :
    s.loopAlive = false ∧ s.closedEvent = true ∧ s.sessClosed = true ∧ s.lock = none := by
  have I := invs_reachable ⟨ls, h⟩
  obtain ⟨hd, ha⟩ := closing_completes I hmax hstarted
  have r := C20_thread_exit_implies_closed ⟨ls, h⟩ ha
  refine ⟨ha, r.2.2.1, r.2.2.2.1, ?_⟩
  cases hl : s.lock with
  | none => rfl
  | some t =>
    cases t with
    | loop => exact absurd hl r.2.2.2.2
    | caller k => exact absurd hl (no_holder_when_terminal I hmax k)

/-- … and then nobody is left waiting for the peer either: all calls have returned or raised -/
theorem C20_all_returned_after_close {cfg : Cfg} {ls : List Label} {s : St}
    (h : exec (init cfg) ls = some s) (hmax : ∀ l, step s l = none) (hstarted : s.closePc ≠ .idle) :
    ∀ (i : Nat) (c : Caller), s.callers[i]? = some c → c.finished = true := by
  intro i c hc
  rcases C20_no_hang h hmax i c hc with hf | hw
  · exact hf
  · have ha := (C20_thread_exits h hmax hstarted).1
    unfold legitWait at hw
    split at hw
    · simp [ha] at hw
    · simp at hw

/-- a blocked `_wait_for` is never blocked by a dead executor: with the thread gone the caller's next statement is enabled -/
theorem C20_wait_enabled_when_thread_gone {s : St} {i : Nat} {c : Caller} (hc : s.callers[i]? = some c)
    (hp : c.prog ≠ []) (hpc : c.pc = .wait) (hdead : s.loopAlive = false) : stepCaller s i ≠ none := by
  rcases c with ⟨prog, pc, job, hist⟩
  simp only at hp hpc; subst hpc
  cases prog with
  | nil => exact absurd rfl hp
  | cons op rest =>
    simp only [stepCaller, hc, callerStep, hdead]
    cases op <;> cases job <;> simp [Op.isClose]

/-! ### what remains of the single `_recv_task` slot: the exception class (partial) -/

/-- inside `okStep` (never two receives waiting at once): once `AsyncSession.close` has begun no receive is left
waiting — the waiting one was answered with EndOfQueue by `queue.stop()` -/
theorem C20_close_answers_blocked_receive_partial {cfg : Cfg} {ls : List Label} {s : St}
    (h : execOk (init cfg) ls = some s) (hcl : s.sessClosed = true) :
    ∀ (i : Nat) (c : Caller), s.callers[i]? = some c → ∀ t, c.job ≠ .blocked t := by
  intro i c hc t ht
  have := ((inv3_execOk h) i c hc t ht).1
  rw [hcl] at this
  cases this

/-- the hypothesis is needed: in Witness.C20.run3 (two receives waiting, then close()) the session is closed and
caller 0 is still waiting; it is released with StateError only when the thread has exited -/
theorem C20_forgotten_receiver_needs_okStep :
    (exec (init Witness.C20.cfg3) (Witness.C20.run3.take 21)).map
      (fun s => (s.sessClosed, s.callers.map (·.job))) =
      some (true, [.blocked 0, .done .eoq, .none]) := by decide

/-- `soup.connect`: when it raises, its executor thread has been stopped and joined -/
theorem C20_connect_raises_thread_exited (ev : LoginEv) : (connect ev).1 = true → (connect ev).2 = false := by
  cases ev <;> decide

/-- **`soup.connect` and a peer that ends the session right behind its acceptance.**  With the wrapper installed in the very
step in which the login returns (`soup.connect` as repaired), for EVERY schedule of the loop thread — the peer's close
processed before, between or after any number of such steps — once the wrapper exists a later `close()` / `logout()`
returns: the close callback was in place when the session closed (`closed_event` set), or the session is still open and
`close()` closes it itself.  (`Witness.C20.C20_witness_connect_race`: with installation as a separate step this fails.) -/
theorem C20_connect_then_close_returns (evs : List ConnEv) (hf : fixedSchedule evs = true)
    (hi : (connRun evs).installed = true) : closeReturns (connRun evs) = true := by
  have key : ∀ (evs : List ConnEv) (s : ConnSt), fixedSchedule evs = true →
      (s.loggedIn = true → s.installed = true) → (s.sessionClosed = true → s.eventSet = true) →
      let r := evs.foldl connStep s
      (r.loggedIn = true → r.installed = true) ∧ (r.sessionClosed = true → r.eventSet = true) := by
    intro evs
    induction evs with
    | nil => intro s _ h1 h2; exact ⟨h1, h2⟩
    | cons e es ih =>
      intro s hf h1 h2
      simp only [fixedSchedule, List.all_cons, Bool.and_eq_true] at hf
      obtain ⟨he, hes⟩ := hf
      simp only [List.foldl_cons]
      apply ih (connStep s e) (by simpa [fixedSchedule] using hes)
      · cases e <;> simp_all [connStep]
        split <;> simp_all
      · cases e <;> simp_all [connStep]
        split <;> simp_all
  have := key evs {} hf (by simp) (by simp)
  simp only [connRun] at hi ⊢
  obtain ⟨_, h2⟩ := this
  unfold closeReturns
  rw [hi]
  cases hc : (List.foldl connStep {} evs).sessionClosed
  · simp
  · simp [h2 hc]

/-! ### non-vacuity: concrete maximal runs -/

example : fixedSchedule [.loginAndInstall, .sessionCloses] = true ∧ (connRun [.loginAndInstall, .sessionCloses]).installed = true ∧
    (connRun [.loginAndInstall, .sessionCloses]).eventSet = true := by decide


/-- two threads, a blocked receive woken by close(), the closer returns, later calls get StateError -/
example :
    let cfg : Cfg := { progs := [[.recv, .send], [.close, .recv]], peer := [.reply] }
    let run := Witness.C20.rep 3 (.caller 0) ++ [.job 0, .peer, .caller 0] ++   -- T0 receive() gets the message
      Witness.C20.rep 4 (.caller 0) ++ [.job 0] ++                            -- T0 send_msg() submitted and run
      Witness.C20.rep 6 (.caller 1) ++ [.job 1] ++ Witness.C20.rep 2 (.caller 1) ++   -- T1 close() up to closed_event.wait()
      Witness.C20.rep 4 .close ++ [.stop] ++ Witness.C20.rep 2 (.caller 1) ++  -- close procedure, loop stops, T1 returns
      [.caller 0] ++ Witness.C20.rep 2 (.caller 1)                            -- T0 gets its result, T1 receive() → StateError
    (execOk (init cfg) run).map (fun s => (terminal s, s.loopAlive, s.callers.map (·.hist))) =
      some (true, false, [[(.send, .ok), (.recv, .msg)], [(.recv, .state), (.close, .ok)]]) := by decide

/-- a receive blocked when the peer ends the session gets EndOfQueue; the thread exits -/
example :
    let cfg : Cfg := { progs := [[.recv]], peer := [.endOfSession] }
    let run := Witness.C20.rep 3 (.caller 0) ++ [.job 0, .peer] ++ Witness.C20.rep 4 .close ++ [.stop, .caller 0]
    (execOk (init cfg) run).map (fun s => (terminal s, s.loopAlive, s.callers.map (·.hist))) =
      some (true, false, [[(.recv, .eoq)]]) := by decide

/-- the repaired interleavings are ordinary runs of the model (and inside `okStep`, except the two-receive one) -/
example : (execOk (init Witness.C20.cfg1) Witness.C20.run1).isSome = true := by decide
example : (execOk (init Witness.C20.cfg2) Witness.C20.run2).isSome = true := by decide
example : execOk (init Witness.C20.cfg3) Witness.C20.run3 = none := by decide

end NasdaqModel.Props.C20
