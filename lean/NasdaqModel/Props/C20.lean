import NasdaqModel.Model.SyncFacade
/-
C20 — synchronous facade.  (theorems follow)
-/
namespace NasdaqModel.Props.C20
open NasdaqModel.SyncFacade

theorem C20_connect_raises_thread_exited (ev : LoginEv) : (connect ev).1 = true → (connect ev).2 = false := by
  cases ev <;> decide

end NasdaqModel.Props.C20
