import NasdaqModel.Lemmas.FramingProgress
import NasdaqModel.Lemmas.RefineInstances
/-
C07, byte level — hostile bytes cannot make the reader spin.

`Props/C07.lean` proves "never open and deaf" for the session machine, where a malformed frame is the token `bad`.  Here the
same is proved one level down, for the readers' `deserialize()` on ARBITRARY byte strings (Model/Framing.lean, transcribed from
common/session.py `Reader`, soup/_reader.py, fix/_reader.py): whatever the buffer holds, a poll either ends the reader (close
signalled — the session closes, C05), or finds the head of the buffer incomplete *as announced* and leaves it for more bytes, or
takes a NON-EMPTY frame off the buffer.  So without new data a reader is settled after at most `len(buffer)` polls: it can never
go on polling an unchanged buffer while the session stays open behind it.  For FIX, since /repo 658ee1f (a negative BodyLength
raises `ValueError`), a cut frame has at least `end+1+7 ≥ 8` bytes whatever the dictionary (`C07_fix_frame_nonempty`,
`C07_fix_reader_settles_any`); before that repair it rested on the dictionary dispatch `Message.Def[get_msg_type(frame)]`
rejecting the EMPTY frame a BodyLength such as `9=-23` produced (`C07_fix_frame_consumes`, hypothesis `known [] = false`, still
true and kept; the pre-repair reader is in `Witness/C04Bytes.lean`).
All theorems are for every buffer / every reader state / every event history; nothing is bounded.
-/
namespace NasdaqModel.Props.C07Framing
open NasdaqModel Py Framing

/-- **SoupBinTCP: a framed packet is at least its length prefix.**  Whatever `deserialize()` returns as a message, it removed at
    least the two prefix bytes from the buffer. -/
theorem C07_soup_frame_consumes (buf rest : Bytes) (m : Soup.Pkt) (h : soupDeser buf = .ok (some (m, rest))) :
    rest.length + 2 ≤ buf.length :=
  soupDeser_consumes h

/-- **FIX: the frame and the rest partition the buffer** for every BodyLength the reader accepts — zero, signed `+`, padded —
    because `b[:n] + b[n:] == b`. -/
theorem C07_fix_frame_partition (buf f rest : Bytes) (h : fixDeser buf = .ok (some (f, rest))) : f ++ rest = buf :=
  fixDeser_partition h

/-- **FIX: a frame that passes the dictionary dispatch is non-empty**, so the buffer gets strictly shorter — for every dictionary
    without the empty message type and every field-level decoder. -/
theorem C07_fix_frame_consumes (known : Bytes → Bool) (decode : Bytes → Except Err Unit) (hk : known [] = false)
    (buf f rest : Bytes) (h : fixDeserD known decode buf = .ok (some (f, rest))) : rest.length < buf.length :=
  fixDeserD_consumes known decode hk h

/-- **FIX: a cut frame is never empty — no dictionary needed** (since /repo 658ee1f): BodyLength `n ≥ 0`, so the frame is the
    first `end+1+n+7 ≥ 8` bytes of the buffer and the buffer gets strictly shorter, with or without the dispatch. -/
theorem C07_fix_frame_nonempty (buf f rest : Bytes) (h : fixDeser buf = .ok (some (f, rest))) :
    f ≠ [] ∧ rest.length < buf.length :=
  Refine.fixDeser_consumes h

theorem C07_fix_frame_consumes_any (known : Bytes → Bool) (decode : Bytes → Except Err Unit)
    (buf f rest : Bytes) (h : fixDeserD known decode buf = .ok (some (f, rest))) : rest.length < buf.length :=
  Refine.fixProtoD_consuming' known decode _ _ _ h

/-- **One poll makes progress.**  A reader that is not settled (not stopped, buffer not empty, head of the buffer not waiting for
    more bytes) stops or shortens its buffer at its next poll. -/
theorem C07_poll_progress {μ : Type} (P : Proto μ) (hP : Consuming P) (r : R μ) (h : ¬ Settled P r) :
    (step P r .tick).stopped = true ∨ (step P r .tick).buf.length < r.buf.length :=
  step_tick_progress P hP h

/-- **No spinning.**  From every reader state — in particular the one reached by any history of segments and polls — `len(buffer)`
    polls without new data leave the reader settled: stopped (the close was signalled), or with an empty buffer, or waiting for the
    rest of a frame whose announced length exceeds what is buffered. -/
theorem C07_reader_settles {μ : Type} (P : Proto μ) (hP : Consuming P) (evs : List Ev) :
    Settled P (ticks P (run P evs).buf.length (run P evs)) :=
  ticks_settle P hP _ _ (Nat.le_refl _)

/-- … and a settled reader stays exactly as it is until new data arrive (no emission, no close signal, no buffer change). -/
theorem C07_settled_is_quiet {μ : Type} (P : Proto μ) (r : R μ) (h : Settled P r) (n : Nat) : ticks P n r = r :=
  ticks_settled P n h

/-- the SoupBinTCP reader is such a reader -/
theorem C07_soup_reader_settles (evs : List Ev) :
    Settled soupProto (ticks soupProto (run soupProto evs).buf.length (run soupProto evs)) :=
  C07_reader_settles soupProto soupProto_consuming evs

/-- the FIX reader (with the dictionary dispatch) is such a reader -/
theorem C07_fix_reader_settles (known : Bytes → Bool) (decode : Bytes → Except Err Unit) (hk : known [] = false) (evs : List Ev) :
    Settled (fixProtoD known decode) (ticks (fixProtoD known decode) (run (fixProtoD known decode) evs).buf.length
      (run (fixProtoD known decode) evs)) :=
  C07_reader_settles _ (fixProtoD_consuming known decode hk) evs

/-- … for EVERY dictionary and field-level decoder, and for framing alone -/
theorem C07_fix_reader_settles_any (known : Bytes → Bool) (decode : Bytes → Except Err Unit) (evs : List Ev) :
    Settled (fixProtoD known decode) (ticks (fixProtoD known decode) (run (fixProtoD known decode) evs).buf.length
      (run (fixProtoD known decode) evs)) :=
  C07_reader_settles _ (Refine.fixProtoD_consuming' known decode) evs

theorem C07_fix_framing_settles (evs : List Ev) :
    Settled fixProto (ticks fixProto (run fixProto evs).buf.length (run fixProto evs)) :=
  C07_reader_settles _ Refine.fixProto_consuming evs

/-! ### non-vacuity: concrete hostile buffers -/

/-- `8=FIX.4.4␁9=-23␁35=0␁` : BodyLength −23 makes the computed frame length 16 − 23 + 7 = 0 -/
private def neg23 : Bytes := [56, 61, 70, 73, 88, 46, 52, 46, 52, 1, 57, 61, 45, 50, 51, 1, 51, 53, 61, 48, 1]

/-- since /repo 658ee1f a negative BodyLength is rejected outright (before: framing handed out the EMPTY frame and left the buffer
    untouched, and only the dictionary dispatch turned that into `KeyError`; `Witness/C04Bytes.lean` keeps the old reader) … -/
example : fixDeser neg23 = .error .value := by decide

/-- … so the reader stops, the session closes, whatever the dispatch would have said -/
example : fixDeserD (fun ty => ty == [48] || ty == [53]) (fun _ => .ok ()) neg23 = .error .value := by decide
example : (step (fixProtoD (fun ty => ty == [48] || ty == [53]) (fun _ => .ok ())) { buf := neg23 } .tick).stopped = true := by decide

/-- a BodyLength negative beyond the buffer (`9=-99`; before the repair `buf[:-76]`, empty again, nothing consumed) -/
private def neg99 : Bytes := [56, 61, 70, 73, 88, 46, 52, 46, 52, 1, 57, 61, 45, 57, 57, 1, 51, 53, 61, 48, 1]
example : fixDeser neg99 = .error .value := by decide

/-- `9=-25` (before the repair: frame length −2, the last two bytes of WHATEVER HAD ARRIVED cut off — segmentation dependent) -/
private def neg25 : Bytes := [56, 61, 70, 73, 88, 46, 52, 46, 52, 1, 57, 61, 45, 50, 53, 1, 51, 53, 61, 48, 1]
example : fixDeser neg25 = .error .value := by decide

/-- a zero-length SoupBinTCP frame (`00 00`) is rejected (no type byte): the reader stops -/
example : soupDeser [0, 0, 0, 1, 72] = .error .invalidSoup := by decide
example : (step soupProto { buf := [0, 0, 0, 1, 72] } .tick).stopped = true := by decide

/-- a heartbeat is taken off the buffer (3 bytes), the following incomplete frame waits -/
example : (ticks soupProto 5 { buf := [0, 1, 72, 0, 9, 83] }).buf = [0, 9, 83] := by decide
example : Settled soupProto { buf := [0, 9, 83] } := Or.inr (Or.inr (by decide))

end NasdaqModel.Props.C07Framing
