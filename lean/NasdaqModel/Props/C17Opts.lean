import NasdaqModel.Lemmas.GenHistoryLemmas
/-
C17, option changes.  `C17_no_leak_between_specs` (Props/C17.lean) quantifies over the whole invocation `b : Inv` — spec AND
options — and over every history; this file makes the option part explicit and adds what is specific to each option:

 * `--fix-version`: the table a FIX generation resolves its declared field types with is the documented table of *its own*
   version, whatever versions were generated before in the process (`C17_fix_types_follow_own_version`); the model's tables are
   the ones C16 ties to `version_types.py` (`C17_type_tables_are_the_documented_ones`).  This needs `freshTypeTables`; with
   memoised builders it is false (Witness/C17Opts.lean).
 * `--op-dir` occurs nowhere in what is written (`C17_op_dir_only_places_the_files`).
 * `--override-messages` decides only whether a repeated message key is an error: when both settings succeed they write the
   same files (`C17_override_only_decides_the_outcome`).
 * every option, any history made of invocations, constructions and `generate()` calls, any process state — type cache and
   live generator objects included (`C17_no_leak_between_option_changes`, for all worlds).
-/
namespace NasdaqModel.Props.C17Opts
open NasdaqModel GenHistory

/-! ## `--fix-version` -/

/-- The model's type tables are `GenFix.supportedTypes` (tied to `get_supported_types` by the C16 check on every run), and the
    three update lists the memoised variant applies in place are exactly what distinguishes them. -/
theorem C17_type_tables_are_the_documented_ones :
    tableOf 42 = .ok GenFix.types42 ∧ tableOf 44 = .ok GenFix.types44 ∧ tableOf 50 = .ok GenFix.types50
    ∧ tableOf 502 = .ok GenFix.types502
    ∧ GenFix.types44 = GenFix.updateAll GenFix.types42 upd44 ∧ GenFix.types50 = GenFix.updateAll GenFix.types42 upd50
    ∧ GenFix.types502 = GenFix.updateAll GenFix.types50 upd502 := by decide

/-- With a new dict per call, `get_supported_types(v)` is a function of `v`: it returns the documented table and leaves the
    process state alone — for EVERY state of the cache. -/
theorem C17_type_table_depends_on_version_only (sem : Semantics) (hf : sem.freshTypeTables = true) (c : TCache) (v : Nat) :
    typesFor sem c v = (c, tableOf v) := by
  simp [typesFor, hf]

/-- A FIX generation that succeeds wrote, into its fields module, the classes the table of ITS OWN version gives for the
    declared type names — in every world (any earlier generations of any versions, same process or not). -/
theorem C17_fix_types_follow_own_version (sem : Semantics) (hp : pureGen sem = true) (spec : FixSpec) (o : GenOpts) (w : World)
    (hok : (invoke sem w (.fix spec o)).2 = .ok ()) :
    ∃ tbl resolved, tableOf spec.version = .ok tbl ∧ resolveTypes tbl (declared spec) = .ok resolved
      ∧ read (invoke sem w (.fix spec o)).1.fs (o.dir, prefix_ o.pfx ++ sFix ++ o.app ++ sFields ++ sPy)
          = some [.fixFields spec.id spec.fields spec.counts resolved] := by
  obtain ⟨h1, _, _, _, _, h6⟩ := pure_flags hp
  have hrp : ∀ rp, (planGen sem w.st (.fix spec o)).2 = .ok rp →
      ∃ tbl resolved, tableOf spec.version = .ok tbl ∧ resolveTypes tbl (declared spec) = .ok resolved
        ∧ lastByName rp.acts (prefix_ o.pfx ++ sFix ++ o.app ++ sFields ++ sPy)
            = some [.fixFields spec.id spec.fields spec.counts resolved] ∧ truncOnly rp.acts = true := by
    intro rp h
    have htr := planGen_acts_trunc sem hp w.st _ rp h
    simp only [planGen, planFix, typesFor, h6, if_true] at h
    cases ht : tableOf spec.version with
    | error e => simp [ht] at h
    | ok tbl =>
      simp only [ht] at h
      cases hr : resolveTypes tbl (declared spec) with
      | error e => simp [hr] at h
      | ok resolved =>
        simp only [hr] at h
        split at h
        · cases h
        · injection h with h
          subst h
          refine ⟨tbl, resolved, rfl, hr, ?_, htr⟩
          have hlen : ∀ (x : Str), x.length < 12 → ¬ (x = prefix_ o.pfx ++ (sFix ++ (o.app ++ (sFields ++ sPy)))) := by
            intro x hx e
            have := congrArg List.length e
            simp [sFix, sFields, sPy] at this
            omega
          have e1 : ¬ (sGroups = sFields) := by decide
          have e2 : ¬ (sBodies = sFields) := by decide
          have e3 : ¬ (sMessages = sFields) := by decide
          cases o.init <;>
            simp [lastByName, e1, e2, e3, hlen (sApp ++ sPy) (by decide), hlen (sInit ++ sPy) (by decide)]
  have hplan : (plan sem w.st (.fix spec o)).2 = match (planGen sem w.st (.fix spec o)).2 with
      | .ok rp => .ok (rp.at o.dir) | .error e => .error e := by
    simp only [plan, Inv.dir]
    cases (planGen sem w.st (.fix spec o)).2 <;> rfl
  cases hpg : (planGen sem w.st (.fix spec o)).2 with
  | error e =>
    simp [invoke, hplan, hpg] at hok
  | ok rp =>
    obtain ⟨tbl, resolved, ht, hr, hl, htr⟩ := hrp rp hpg
    refine ⟨tbl, resolved, ht, hr, ?_⟩
    simp only [invoke, hplan, hpg, applyPlan, RelPlan.at]
    rw [read_applyActs_trunc _ _ htr, hl]

/-! ## `--op-dir` -/

/-- The output directory occurs nowhere in what a generator writes: the same invocation into another directory has the same
    outcome and writes the same relative files with the same content (every semantics, every state). -/
theorem C17_op_dir_only_places_the_files (sem : Semantics) (st : ProcState) (i : Inv) (d : Dir) :
    planGen sem st (i.retarget d) = planGen sem st i := by
  cases i <;> rfl

/-! ## `--override-messages` -/

/-- `--override-messages` / `--no-override-messages` only decides whether a spec that declares a message key twice is an error:
    two ITCH/OUCH/SQF invocations that differ in nothing but that flag and both succeed write the same files. -/
theorem C17_override_only_decides_the_outcome (sem : Semantics) (st : ProcState) (impl : Impl) (spec : SoupSpec) (o : GenOpts)
    (b : Bool) (rp rp' : RelPlan)
    (h : (planSoup sem st impl spec o).2 = .ok rp) (h' : (planSoup sem st impl spec { o with override := b }).2 = .ok rp') :
    rp' = rp := by
  revert h h'
  simp only [planSoup]
  split
  · intro h; cases h
  · intro h h'
    split at h
    · cases h
    · split at h'
      · cases h'
      · injection h with h
        injection h' with h'
        rw [← h, ← h']

/-- without a repeated key the flag changes nothing at all -/
theorem C17_override_irrelevant_without_duplicates (sem : Semantics) (st : ProcState) (impl : Impl) (spec : SoupSpec) (o : GenOpts)
    (b : Bool) (hd : dupKey (msgKeys 0 spec.msgs) = false) :
    planSoup sem st impl spec { o with override := b } = planSoup sem st impl spec o := by
  simp [planSoup, hd]

/-! ## every option, every history, every process state -/

private theorem invoke_gen (sem : Semantics) (w : World) (i : Inv) (hg : i.isGen = true) :
    invoke sem w i =
      match (planGen sem w.st i).2 with
      | .ok rp => (⟨(planGen sem w.st i).1, applyPlan w.fs (rp.at i.dir)⟩, .ok ())
      | .error e => (⟨(planGen sem w.st i).1, w.fs⟩, .error e) := by
  cases i with
  | soup impl spec o => simp only [invoke, plan]; cases (planGen sem w.st _).2 <;> rfl
  | fix spec o => simp only [invoke, plan]; cases (planGen sem w.st _).2 <;> rfl
  | asn1 spec pdu pk o => simp only [invoke, plan]; cases (planGen sem w.st _).2 <;> rfl
  | newProject t n a => simp [Inv.isGen] at hg
  | userEdit p n => simp [Inv.isGen] at hg

/-- **No leak between option changes (all worlds).**  Whatever the process state — class-level registries, the type-table
    cache, the generator objects still alive — and whatever the file system holds, an invocation `b` (spec and ALL its options:
    version, prefix, app name, init flag, override flag, pdu, package, directory) has the outcome it has alone, and every file
    it writes is the file it writes alone.  The histories of `C17_no_leak_between_specs` are the special case of reachable worlds. -/
theorem C17_no_leak_between_option_changes_of_pure (sem : Semantics) (hp : pureGen sem = true) (b : Inv) (hg : b.isGen = true)
    (w : World) :
    (invoke sem w b).2 = (invoke sem w0 b).2
    ∧ ((invoke sem w0 b).2 = .ok () → ∀ n, n ∈ targetNames b →
        read (invoke sem w b).1.fs (b.dir, n) = read (invoke sem w0 b).1.fs (b.dir, n)) := by
  have hst := planGen_snd_indep sem hp w.st b
  rw [invoke_gen sem w b hg, invoke_gen sem w0 b hg, hst]
  simp only [w0]
  cases hrp : (planGen sem st0 b).2 with
  | error e => exact ⟨rfl, fun h => by cases h⟩
  | ok rp =>
    refine ⟨rfl, fun _ n hn => ?_⟩
    have htr := planGen_acts_trunc sem hp st0 b rp hrp
    have hnm := planGen_acts_names sem st0 b hg rp hrp
    have hsome := lastByName_some rp.acts n (by rw [hnm]; exact hn)
    simp only [applyPlan, RelPlan.at]
    rw [read_applyActs_trunc _ _ htr, read_applyActs_trunc _ _ htr]
    cases hl : lastByName rp.acts n with
    | some cs => rfl
    | none => simp [hl] at hsome

/-- …for the library as it is now, after any history of invocations, constructions, `generate()` calls and process
    boundaries, in which any option may change from one step to the next. -/
theorem C17_no_leak_between_option_changes (b : Inv) (hg : b.isGen = true) (h : List Ev) :
    (invoke current (run current w0 h) b).2 = (invoke current w0 b).2
    ∧ ((invoke current w0 b).2 = .ok () → ∀ n, n ∈ targetNames b →
        read (invoke current (run current w0 h) b).1.fs (b.dir, n) = read (invoke current w0 b).1.fs (b.dir, n)) :=
  C17_no_leak_between_option_changes_of_pure current (by decide) b hg _

/-! ## non-vacuity -/
section examples
private def optsG (d : Nat) : GenOpts := ⟨[103], [], true, .out d, true⟩
private def dictSP2 : FixSpec := ⟨1, 502, [1, 20], [20], [], []⟩
private def dict44 : FixSpec := ⟨2, 44, [1, 20], [20], [], []⟩
private def soupDup : SoupSpec := ⟨1, some [(1, 0)], [1], [65, 66, 65]⟩     -- message id 65 twice, both `incoming`
-- a succeeding FIX generation of a lower version after a higher one, and what the theorem gives for it
example : (invoke current (run current w0 [.inv (.fix dictSP2 (optsG 1))]) (.fix dict44 (optsG 2))).2 = .ok () := by decide
example : resolveTypes GenFix.types44 (declared dict44) = .ok [.FixInt, .FixString] := by decide
example : resolveTypes GenFix.types502 (declared dictSP2) = .ok [.FixInt, .FixLocalMktDate] := by decide
-- the override flag: a repeated key is an error without it, and the later declaration wins with it
example : (invoke current w0 (.soup .ouch soupDup { optsG 1 with override := false })).2 = .error .value := by decide
example : (invoke current w0 (.soup .ouch soupDup (optsG 1))).2 = .ok () := by decide
example : importAfter current w0 (.soup .ouch soupDup (optsG 1)) = .ok () := by decide
example : dupKey (msgKeys 0 [65, 66, 65]) = true ∧ dupKey (msgKeys 0 [65, 65]) = false := by decide
end examples

end NasdaqModel.Props.C17Opts
