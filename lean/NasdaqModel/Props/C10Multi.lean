import NasdaqModel.Props.C10
import NasdaqModel.Model.SeqMulti
/-
C10 — several sessions alive in one process (Model/SeqMulti.lean: the process state is the product of the per-session states).

The statement of C10 is per session ("a SoupBinTCP server session's counter …", "a FIX session stamps the k-th message …") and quantifies
over all histories and schedules.  In a process with several sessions a schedule interleaves the operations (application sends,
timer-driven heartbeats, logons) of ALL of them.  The theorems here say that this makes no difference:

  * frame property: an operation on session `a` leaves every other session's state (counter, frames / packets written) alone;
  * projection: the final state of session `a` after ANY history of the process is the per-session run of `a`'s own sub-history
    — so two histories with the same sub-histories end in the same world (the interleaving is irrelevant), and operations of
    different sessions commute;
  * hence the theorems of Props/C10.lean hold for every session of the process under every interleaving with the others:
    the k-th frame a FIX session writes after its logon carries logon MsgSeqNum + k (logon with or without a stated number), a soup
    session's counter is initial + sequenced packets written (server) / adopted + … (client), a send rejected by validation
    changes nothing anywhere.

`Witness/C10Multi.lean` decides that a semantics with one counter shared between sessions violates each of these.
No theorem of Props/C10.lean is restated or weakened; they are used as they are.
-/
namespace NasdaqModel.Props.C10Multi
open NasdaqModel Soup SeqNum NasdaqModel.Props.C10

/-! ### the product: `modifyAt` touches one position -/

private theorem modifyAt_get_ne (f : Sess → Sess) : ∀ (w : World) (a b : Nat), a ≠ b → (modifyAt f w a)[b]? = w[b]?
  | [], _, _, _ => rfl
  | _ :: _, 0, 0, h => absurd rfl h
  | _ :: _, 0, _ + 1, _ => by simp [modifyAt]
  | _ :: _, _ + 1, 0, _ => by simp [modifyAt]
  | _ :: rest, a + 1, b + 1, h => by
    simp only [modifyAt, List.getElem?_cons_succ]
    exact modifyAt_get_ne f rest a b (by omega)

private theorem modifyAt_get_eq (f : Sess → Sess) : ∀ (w : World) (a : Nat), (modifyAt f w a)[a]? = (w[a]?).map f
  | [], _ => rfl
  | _ :: _, 0 => by simp [modifyAt]
  | _ :: rest, a + 1 => by
    simp only [modifyAt, List.getElem?_cons_succ]
    exact modifyAt_get_eq f rest a

private theorem modifyAt_length (f : Sess → Sess) : ∀ (w : World) (a : Nat), (modifyAt f w a).length = w.length
  | [], _ => rfl
  | _ :: _, 0 => by simp [modifyAt]
  | _ :: rest, a + 1 => by simp [modifyAt, modifyAt_length f rest a]

private theorem modifyAt_comm (f g : Sess → Sess) :
    ∀ (w : World) (a b : Nat), a ≠ b → modifyAt g (modifyAt f w a) b = modifyAt f (modifyAt g w b) a
  | [], _, _, _ => rfl
  | _ :: _, 0, 0, h => absurd rfl h
  | _ :: _, 0, _ + 1, _ => by simp [modifyAt]
  | _ :: _, _ + 1, 0, _ => by simp [modifyAt]
  | _ :: rest, a + 1, b + 1, h => by
    simp only [modifyAt, List.cons.injEq, true_and]
    exact modifyAt_comm f g rest a b (by omega)

private theorem modifyAt_fix (f : Sess → Sess) : ∀ (w : World) (a : Nat), (∀ s, w[a]? = some s → f s = s) → modifyAt f w a = w
  | [], _, _ => rfl
  | s :: _, 0, h => by simp [modifyAt, h s (by simp)]
  | _ :: rest, a + 1, h => by
    simp only [modifyAt, List.cons.injEq, true_and]
    exact modifyAt_fix f rest a (fun s hs => h s (by simpa using hs))

/-! ### frame property of one step -/

/-- **An operation on session `a` does not change session `b`** (`b ≠ a`): neither its counter nor what it has written. -/
theorem C10Multi_step_other (w : World) (a b : Nat) (op : MOp) (h : a ≠ b) :
    (worldStep w (a, op))[b]? = w[b]? :=
  modifyAt_get_ne _ w a b h

/-- … and changes session `a` exactly as the single-session step does -/
theorem C10Multi_step_own (w : World) (a : Nat) (op : MOp) :
    (worldStep w (a, op))[a]? = (w[a]?).map (fun s => (sessStep s op).1) :=
  modifyAt_get_eq _ w a

/-- the set of sessions never changes (no operation creates or removes a session) -/
theorem C10Multi_step_length (w : World) (ev : Ev) : (worldStep w ev).length = w.length :=
  modifyAt_length _ w ev.1

/-- in particular the numbers: an operation on `a` leaves every other session's counter where it was -/
theorem C10Multi_step_other_counter (w : World) (a b : Nat) (op : MOp) (h : a ≠ b) :
    ((worldStep w (a, op))[b]?).map Sess.counter = (w[b]?).map Sess.counter := by
  rw [C10Multi_step_other w a b op h]

/-- **operations of different sessions commute**: the order in which the scheduler runs them is irrelevant -/
theorem C10Multi_steps_commute (w : World) (a b : Nat) (x y : MOp) (h : a ≠ b) :
    worldStep (worldStep w (a, x)) (b, y) = worldStep (worldStep w (b, y)) (a, x) :=
  modifyAt_comm _ _ w a b h

/-! ### projection: a session's state is a function of its own sub-history -/

private theorem sub_cons_eq (a : Nat) (op : MOp) (rest : List Ev) : sub a ((a, op) :: rest) = op :: sub a rest := by
  simp [sub]

private theorem sub_cons_ne (a b : Nat) (op : MOp) (rest : List Ev) (h : b ≠ a) : sub a ((b, op) :: rest) = sub a rest := by
  simp [sub, h]

/-- **Projection.**  After any history of the process — the operations of all sessions interleaved in any way — the state of
    session `a` is the single-session run of `a`'s own operations. -/
theorem C10Multi_projection (evs : List Ev) : ∀ (w : World) (a : Nat),
    (worldRun w evs)[a]? = (w[a]?).map (fun s => sessRun s (sub a evs)) := by
  induction evs with
  | nil =>
    intro w a
    cases h : w[a]? <;> simp [worldRun, sub, sessRun, h]
  | cons ev rest ih =>
    intro w a
    obtain ⟨b, op⟩ := ev
    show (worldRun (worldStep w (b, op)) rest)[a]? = _
    rw [ih]
    by_cases hb : b = a
    · subst hb
      rw [C10Multi_step_own, sub_cons_eq]
      cases h : w[b]? <;> simp [sessRun]
    · rw [C10Multi_step_other w b a op hb, sub_cons_ne a b op rest hb]

/-- a history in which session `a` does nothing leaves it exactly as it was, whatever the other sessions did -/
theorem C10Multi_others_invisible (w : World) (evs : List Ev) (a : Nat) (h : ∀ ev ∈ evs, ev.1 ≠ a) :
    (worldRun w evs)[a]? = w[a]? := by
  have hs : sub a evs = [] := by
    simp only [sub, List.map_eq_nil_iff, List.filter_eq_nil_iff]
    intro ev hev
    simpa using h ev hev
  rw [C10Multi_projection, hs]
  cases w[a]? <;> simp [sessRun]

/-- **the interleaving is irrelevant**: two histories of the process that give every session the same sub-history end in the
    same world -/
theorem C10Multi_interleaving_irrelevant (w : World) (evs evs' : List Ev) (h : ∀ a, sub a evs = sub a evs') :
    worldRun w evs = worldRun w evs' := by
  apply List.ext_getElem?
  intro a
  rw [C10Multi_projection, C10Multi_projection, h a]

/-- what the callers of session `a`'s operations observe (exception / outcome of every send, the number stamped on every frame
    written) is what they observe when `a` runs alone -/
theorem C10Multi_outcomes_projection (evs : List Ev) : ∀ (w : World) (a : Nat) (s : Sess), w[a]? = some s →
    ((worldTrace w evs).filter (fun t => t.1 == a)).map (fun t => t.2.1) = sessOuts s (sub a evs) := by
  induction evs with
  | nil => intro w a s _; rfl
  | cons ev rest ih =>
    intro w a s hs
    obtain ⟨b, op⟩ := ev
    by_cases hb : b = a
    · subst hb
      have hnext : (worldStep w (b, op))[b]? = some (sessStep s op).1 := by rw [C10Multi_step_own, hs]; rfl
      have hout : worldOut w (b, op) = (sessStep s op).2 := by simp [worldOut, hs]
      rw [sub_cons_eq]
      simp only [worldTrace, sessOuts, List.filter_cons, beq_self_eq_true, if_true, List.map_cons, hout]
      rw [ih _ b _ hnext]
    · have hnext : (worldStep w (b, op))[a]? = some s := by rw [C10Multi_step_other w b a op hb, hs]
      rw [sub_cons_ne a b op rest hb]
      have hba : (b == a) = false := by simpa using hb
      simp only [worldTrace, List.filter_cons, hba]
      exact ih _ a s hnext

/-! ### the per-session theorems of Props/C10.lean, for every session of the process -/

private theorem sessRun_fix (ops : List FixOp) : ∀ s : FixSt, sessRun (.fix s) (ops.map MOp.fix) = .fix (fixRunR s ops) := by
  induction ops with
  | nil => intro s; rfl
  | cons op rest ih =>
    intro s
    show sessRun (.fix (fixStepR s op).1) (rest.map MOp.fix) = .fix (fixRunR (fixStepR s op).1 rest)
    exact ih _

private theorem sessRun_soup (ops : List SoupOp) : ∀ s : SoupSt, sessRun (.soup s) (ops.map MOp.soup) = .soup (soupRun s ops) := by
  induction ops with
  | nil => intro s; rfl
  | cons op rest ih =>
    intro s
    show sessRun (.soup (soupStep s op).1) (rest.map MOp.soup) = .soup (soupRun (soupStep s op).1 rest)
    exact ih _

/-- **FIX, every session, every interleaving.**  Let session `a` be a fresh FIX session of a process with any other sessions, and
    let its own operations be `sends before the logon ++ logon (MsgSeqNum q) ++ {sends of every kind, heartbeats}`.  Then after ANY
    history of the process with that sub-history — the other sessions logging on, sending and heart-beating in between, in any
    order — the k-th frame `a` has written since its logon carries `q + k`, and its counter is `q +` frames written. -/
theorem C10Multi_fix_kth (w : World) (evs : List Ev) (a : Nat) (pre ops : List FixOp) (q : Int) (m : FixMsg)
    (ha : w[a]? = some (.fix fixInit))
    (hsub : sub a evs = (pre ++ .login q m :: ops).map MOp.fix)
    (hpre : noLogin pre = true) (hops : noLogin ops = true) :
    ∃ s : FixSt, (worldRun w evs)[a]? = some (.fix s) ∧
      (∀ k, (hk : k < s.frames.length) → s.frames[k] = q + k) ∧ s.next = some (q + s.frames.length) := by
  refine ⟨fixRunR fixInit (pre ++ .login q m :: ops), ?_, C10_fix_kth_repaired pre ops q m hpre hops⟩
  rw [C10Multi_projection, ha, hsub]
  show some (sessRun (Sess.fix fixInit) ((pre ++ .login q m :: ops).map MOp.fix)) = _
  rw [sessRun_fix]

/-- the same for a logon that states no MsgSeqNum (the header then reads `logonSeq none` = 0): numbering is contiguous from the
    number the logon itself carries -/
theorem C10Multi_fix_kth_unstated (w : World) (evs : List Ev) (a : Nat) (pre ops : List FixOp) (m : FixMsg)
    (ha : w[a]? = some (.fix fixInit))
    (hsub : sub a evs = (pre ++ .login (logonSeq none) m :: ops).map MOp.fix)
    (hpre : noLogin pre = true) (hops : noLogin ops = true) :
    ∃ s : FixSt, (worldRun w evs)[a]? = some (.fix s) ∧
      (∀ k, (hk : k < s.frames.length) → s.frames[k] = (k : Int)) ∧ s.next = some (s.frames.length : Int) := by
  obtain ⟨s, h1, h2, h3⟩ := C10Multi_fix_kth w evs a pre ops (logonSeq none) m ha hsub hpre hops
  refine ⟨s, h1, ?_, ?_⟩
  · intro k hk; simpa [logonSeq] using h2 k hk
  · simpa [logonSeq] using h3

/-- **a send rejected by validation changes nothing in the whole process** — no frame, no number, in no session -/
theorem C10Multi_fix_reject_consumes_nothing (w : World) (a : Nat) (m : FixMsg) (h : m.bodyValid = false) :
    worldStep w (a, .fix (.send m)) = w := by
  apply modifyAt_fix
  intro s _
  cases s with
  | soup s => rfl
  | fix s =>
    show Sess.fix (fixSendR s m).1 = Sess.fix s
    rw [C10_fix_repaired_failed_send_consumes_nothing s m (by intro n; simp [fixSendR, h])]

/-- the same for EVERY send that writes nothing (rejected, or not serialisable: repaired `send_msg`) -/
theorem C10Multi_fix_failed_send_consumes_nothing (w : World) (a : Nat) (s : FixSt) (m : FixMsg)
    (ha : w[a]? = some (.fix s)) (h : ∀ n, (fixSendR s m).2 ≠ .written n) :
    worldStep w (a, .fix (.send m)) = w := by
  apply modifyAt_fix
  intro s' hs'
  have : s' = .fix s := by simpa [ha] using hs'.symm
  subst this
  show Sess.fix (fixSendR s m).1 = Sess.fix s
  rw [C10_fix_repaired_failed_send_consumes_nothing s m h]

/-- **SoupBinTCP, every session, every interleaving**: the counter of soup session `a` is its value at the start plus the sequenced
    packets `a` itself has written since — packets other sessions write (sequenced ones included) never move it. -/
theorem C10Multi_soup_counts (w : World) (evs : List Ev) (a : Nat) (s0 : SoupSt) (ops : List SoupOp)
    (ha : w[a]? = some (.soup s0)) (hsub : sub a evs = ops.map MOp.soup) :
    ∃ s : SoupSt, (worldRun w evs)[a]? = some (.soup s) ∧
      s.seq = s0.seq + ((countSeq s.written : Int) - (countSeq s0.written : Int)) := by
  refine ⟨soupRun s0 ops, ?_, C10_soup_counts s0 ops⟩
  rw [C10Multi_projection, ha, hsub]
  show some (sessRun (Sess.soup s0) (ops.map MOp.soup)) = _
  rw [sessRun_soup]

/-- a soup client that logs in first: the counter counts from what the login left (the adopted number when accepted —
    `C10_soup_adopt` — the old one otherwise), whatever the other sessions of the process do meanwhile -/
theorem C10Multi_soup_client_counts (w : World) (evs : List Ev) (a : Nat) (s0 : SoupSt) (req : Pkt) (replies : List Bytes)
    (ops : List SoupOp) (ha : w[a]? = some (.soup s0)) (hsub : sub a evs = .soupLogin req replies :: ops.map MOp.soup) :
    ∃ s : SoupSt, (worldRun w evs)[a]? = some (.soup s) ∧
      s.seq = (clientLogin s0 req replies).1.seq
        + ((countSeq s.written : Int) - (countSeq (clientLogin s0 req replies).1.written : Int)) := by
  refine ⟨soupRun (clientLogin s0 req replies).1 ops, ?_, C10_soup_client_counts s0 req replies ops⟩
  rw [C10Multi_projection, ha, hsub]
  show some (sessRun (Sess.soup (clientLogin s0 req replies).1) (ops.map MOp.soup)) = _
  rw [sessRun_soup]

/-! ### non-vacuity: a process with two FIX sessions and a soup server, operations interleaved -/

private def w3 : World := [.fix fixInit, .fix fixInit, .soup (soupInit .server 41)]

private def evs3 : List Ev :=
  [(0, .fix (.send ⟨true, true⟩)),                      -- session 0: a send before its logon (TypeError, nothing written)
   (1, .fix (.login 7 ⟨true, true⟩)),                   -- session 1 logs on stating 7
   (0, .fix (.login (logonSeq none) ⟨true, true⟩)),     -- session 0 logs on without stating a number
   (2, .soup (.send (.seqData [1, 2]))),
   (1, .fix (.send ⟨true, true⟩)),
   (0, .fix (.send ⟨false, true⟩)),                     -- rejected by validation
   (0, .fix (.heartbeat ⟨true, true⟩)),
   (2, .soup .heartbeat),
   (1, .fix (.send ⟨true, false⟩)),                     -- passes validation, cannot be serialised
   (0, .fix (.send ⟨true, true⟩)),
   (1, .fix (.heartbeat ⟨true, true⟩)),
   (2, .soup (.send (.seqData [83])))]

-- the hypotheses of `C10Multi_fix_kth` / `_unstated` / `C10Multi_soup_counts` hold for sessions 1, 0 and 2 of this history …
example : w3[1]? = some (.fix fixInit) ∧
    sub 1 evs3 = (([] : List FixOp) ++ FixOp.login 7 ⟨true, true⟩ ::
      [FixOp.send ⟨true, true⟩, FixOp.send ⟨true, false⟩, FixOp.heartbeat ⟨true, true⟩]).map MOp.fix
    ∧ noLogin [FixOp.send ⟨true, true⟩, FixOp.send ⟨true, false⟩, FixOp.heartbeat ⟨true, true⟩] = true := by decide
example : sub 0 evs3 = ([FixOp.send ⟨true, true⟩] ++ FixOp.login (logonSeq none) ⟨true, true⟩ ::
    [FixOp.send ⟨false, true⟩, FixOp.heartbeat ⟨true, true⟩, FixOp.send ⟨true, true⟩]).map MOp.fix
    ∧ noLogin [FixOp.send ⟨true, true⟩] = true
    ∧ noLogin [FixOp.send ⟨false, true⟩, FixOp.heartbeat ⟨true, true⟩, FixOp.send ⟨true, true⟩] = true := by decide
example : sub 2 evs3 = [SoupOp.send (.seqData [1, 2]), .heartbeat, .send (.seqData [83])].map MOp.soup := by decide
-- … and the result is not trivial: session 0 wrote 0, 1, 2; session 1 wrote 7, 8, 9; the soup server counts 41 + 2
example : worldRun w3 evs3 = [.fix ⟨some 3, [0, 1, 2]⟩, .fix ⟨some 10, [7, 8, 9]⟩,
    .soup ⟨.server, true, 43, [[0, 3, 83, 1, 2], [0, 1, 72], [0, 2, 83, 83]]⟩] := by decide
-- the outcomes the callers of session 1 saw
example : ((worldTrace w3 evs3).filter (fun t => t.1 == 1)).map (fun t => t.2.1)
    = [.fix (.written 7), .fix (.written 8), .fix .encodeError, .fix (.written 9)] := by decide
-- another interleaving of the same sub-histories (all of session 2 first, then 1, then 0)
example : worldRun w3 ((evs3.filter (·.1 == 2)) ++ (evs3.filter (·.1 == 1)) ++ (evs3.filter (·.1 == 0))) = worldRun w3 evs3 := by
  decide

end NasdaqModel.Props.C10Multi
