import NasdaqModel.Lemmas.GenFixLoad
/-
C16, enumerated values — "for every valid FIX XML dictionary (fields with types and *enumerated values* …) the generated package
imports, defines a field class per field with the right tag and value type".

`Props/C16.lean` proves the property under `wfDict`, whose `wfEnum` lets the enumerated value of a text / boolean field range over
identifier characters only.  The library wrote such a value through an HTML-escaping template (`<` came out as `&lt;`, a quote or a
backslash broke the module; /verif/fixes/C16-enum-values-escaped.md, repaired by /repo 8c9ad6b), i.e. the excluded alphabet was
where the code was wrong.  Here the guard is `wfDictE` (Spec/FixDictEnum.lean): the same dictionaries, the enumerated value of a
text / boolean field being ANY non-empty text of printable ASCII characters.  The theorems say, for every such dictionary of every
version: the package is generated and imports, it is the dictionary's meaning (`denote`), and the `Values` / constants of every
field class — of the abstract generated code and of the loaded class — are exactly the dictionary's: as many, in the order of the
file, the value text VERBATIM, the description (a python keyword gets a trailing underscore) as the constant's name, written as a
string literal iff the field's value type is text or boolean.  `Witness/C16Enum.lean` shows that the escaping semantics differs.
Only property theorems and their non-vacuity examples live here.
-/
namespace NasdaqModel.Props.C16Enum
open NasdaqModel Py GenFix Spec.FixDict

/-- the two lists have the same length and `R` holds position by position -/
def Pointwise {α β : Type} (R : α → β → Prop) : List α → List β → Prop
  | [], [] => True
  | a :: as, b :: bs => R a b ∧ Pointwise R as bs
  | _, _ => False

/-- every dictionary inside the old guard is inside the new one: the theorems below contain those of `Props/C16.lean` -/
theorem C16Enum_guard_contains (d : Dict) (h : wfDict d = true) : wfDictE d = true := by
  unfold wfDict at h
  unfold wfDictE
  split at h
  · cases h
  · rename_i types ht
    rw [ht]
    simp only [Bool.and_eq_true, List.all_eq_true, and_assoc] at h ⊢
    obtain ⟨h1, h2, h3, h4, h5, h6, hrest⟩ := h
    exact ⟨h1, h2, h3, h4, h5, fun f hf => wfFieldXml_wfFieldXmlE (h6 f hf), hrest⟩

/-- a valid dictionary is for one of the four versions the CLI offers -/
theorem C16Enum_wf_version (d : Dict) (hwf : wfDictE d = true) : supportedVersion d.version = true := by
  obtain ⟨types, w⟩ := wfE_unpack hwf
  have := w.htypes
  cases hver : d.version <;> simp_all [supportedVersion, supportedTypes]

/-- Every valid dictionary (enumerated values over printable ASCII), every version: the package is generated, imports, and what it
    defines is the dictionary's meaning. -/
theorem C16Enum_imports_and_denotes (d : Dict) (hwf : wfDictE d = true) :
    ∃ m L, gen d = .ok m ∧ load m = .ok L ∧ denote d = .ok L := by
  obtain ⟨types, w⟩ := wfE_unpack hwf
  obtain ⟨m, L, h1, h2, h3, _⟩ := genLoad_denote w (C16Enum_wf_version d hwf)
  exact ⟨m, L, h1, h2, h3⟩

/-- the name of the constant generated for a description -/
def constName (desc : Str) : Str := if isKeyword desc then desc ++ [95] else desc

/-- `vals` (the `Values` dict / the constants of a field class) are exactly the enumerated values `vs` of the `<field>`: the value
    text verbatim and in order, the constants named after the descriptions, all written as string literals iff `quoted` -/
def ValuesVerbatim (quoted : Bool) (vals : List EnumCls) (vs : List EnumXml) : Prop :=
  vals.map (·.key) = vs.map (·.enum) ∧ vals.map (·.attr) = vs.map (fun v => constName v.desc) ∧ ∀ c ∈ vals, c.quoted = quoted

/-- a loaded field class against its `<field>` -/
def FieldValuesMatch (types : TypeTable) (lf : LField) (f : FieldXml) : Prop :=
  lf.name = f.name ∧ parseIntStr f.number = .ok lf.tag ∧ aget f.type types = some lf.type ∧
    ValuesVerbatim (lf.type.kind == .str || lf.type.kind == .bool) lf.values f.values

private theorem specValues_verbatim (ty : TyCls) (vs : List EnumXml) :
    ValuesVerbatim (ty.kind == .str || ty.kind == .bool) (specValues ty vs) vs := by
  refine ⟨?_, ?_, ?_⟩
  · simp [specValues, List.map_map, Function.comp_def]
  · simp [specValues, List.map_map, Function.comp_def, constName]
  · intro c hc
    simp only [specValues, List.mem_map] at hc
    obtain ⟨v, _, rfl⟩ := hc
    rfl

private theorem specFields_forall2 {types : TypeTable} : ∀ (fxs : List FieldXml) (lfs : List LField),
    specFields types fxs = .ok lfs → Pointwise (FieldValuesMatch types) lfs fxs
  | [], lfs, h => by simp only [specFields] at h; cases h; exact trivial
  | f :: rest, lfs, h => by
    simp only [specFields, specField] at h
    cases h1 : aget f.type types with
    | none => rw [h1] at h; cases h
    | some ty =>
      rw [h1] at h
      dsimp only at h
      cases h2 : parseIntStr f.number with
      | error e => rw [h2] at h; cases h
      | ok t =>
        rw [h2] at h
        dsimp only at h
        cases h3 : specFields types rest with
        | error e => rw [h3] at h; cases h
        | ok lfs2 =>
          rw [h3] at h
          cases h
          exact ⟨⟨rfl, h2, h1, specValues_verbatim ty f.values⟩, specFields_forall2 rest lfs2 h3⟩

/-- importing the fields module keeps every class's name and enumerated values as the generated code has them -/
private theorem loadFields_vals : ∀ (fs : List FieldCls) (env env' : List (Str × LField)), loadFields env fs = .ok env' →
    (env'.map (·.2)).reverse.map (fun lf => (lf.name, lf.values))
      = (env.map (·.2)).reverse.map (fun lf => (lf.name, lf.values)) ++ fs.map (fun c => (c.name, c.values))
  | [], env, env', h => by simp only [loadFields] at h; cases h; simp
  | f :: rest, env, env', h => by
    simp only [loadFields] at h
    cases h1 : loadField f with
    | error e => rw [h1] at h; cases h
    | ok lf =>
      rw [h1] at h
      dsimp only at h
      have hlf : lf.name = f.name ∧ lf.values = f.values := by
        simp only [loadField] at h1
        split at h1
        · cases h1
        · cases h2 : parseIntStr f.tag with
          | error e => rw [h2] at h1; cases h1
          | ok t => rw [h2] at h1; cases h1; exact ⟨rfl, rfl⟩
      rw [loadFields_vals rest _ env' h]
      simp [hlf.1, hlf.2]

private theorem load_fields_vals {m : Module} {L : Loaded} (h : load m = .ok L) :
    L.fields.map (fun lf => (lf.name, lf.values)) = m.fields.map (fun c => (c.name, c.values)) := by
  simp only [load] at h
  cases h1 : loadFields [] m.fields with
  | error e => rw [h1] at h; cases h
  | ok fenv =>
    rw [h1] at h
    dsimp only at h
    cases h2 : loadGroups fenv [] m.groups with
    | error e => rw [h2] at h; cases h
    | ok genv =>
      rw [h2] at h
      dsimp only at h
      cases h3 : loadBodies fenv genv [] m.bodies with
      | error e => rw [h3] at h; cases h
      | ok benv =>
        rw [h3] at h
        dsimp only at h
        cases h4 : loadMessages fenv genv benv m.messages with
        | error e => rw [h4] at h; cases h
        | ok msgs =>
          rw [h4] at h
          dsimp only at h
          split at h
          · cases h
            have := loadFields_vals m.fields [] fenv h1
            simpa using this
          · cases h

/-- Every valid dictionary (enumerated values over printable ASCII), every version.
    One field class per `<field>`, in the order of the file, whose enumerated values are exactly the dictionary's — the value text
    verbatim (no character of it replaced, escaped or dropped), the description as the constant name, string literals for text and
    boolean fields — both in the generated code (`m.fields`) and in the imported class objects (`L.fields`). -/
theorem C16Enum_values_verbatim (d : Dict) (hwf : wfDictE d = true) :
    ∃ m L types, gen d = .ok m ∧ load m = .ok L ∧ supportedTypes d.version = .ok types ∧
      Pointwise (FieldValuesMatch types) L.fields (d.sections.flatMap fieldsOf) ∧
      m.fields.map (fun c => (c.name, c.values)) = L.fields.map (fun lf => (lf.name, lf.values)) := by
  obtain ⟨m, L, hg, hl, hd⟩ := C16Enum_imports_and_denotes d hwf
  obtain ⟨types, ht, _, hf, _⟩ := denote_inv hd
  exact ⟨m, L, types, hg, hl, ht, specFields_forall2 _ _ hf, (load_fields_vals hl).symm⟩

/-- the guard really admits every printable character in the value of a text field: for any printable text `e` the one-field
    dictionary declaring it is valid (so the theorems above speak about `<`, `>`, `&`, `"`, `'`, `\`, space, `{`, … alike) -/
theorem C16Enum_any_printable (e : Str) (hne : e ≠ []) (hp : e.all isPrintable = true) :
    wfDictE ⟨.v44, [.messages [⟨lit "M", lit "D", lit "app", [.field (lit "Cmp") (some (lit "Y"))]⟩],
                    .fields [⟨lit "700", lit "Cmp", lit "STRING", [⟨e, lit "Any"⟩]⟩]]⟩ = true := by
  have h1 : wfEnumE .FixString ⟨e, lit "Any"⟩ = true := by
    simp only [wfEnumE, Bool.and_eq_true]
    refine ⟨by decide, ?_⟩
    simp only [show (TyCls.FixString.kind == PyKind.str || TyCls.FixString.kind == PyKind.bool) = true by decide, if_true,
      Bool.and_eq_true, decide_eq_true_eq]
    exact ⟨hne, hp⟩
  have h2 : wfFieldXmlE types44 ⟨lit "700", lit "Cmp", lit "STRING", [⟨e, lit "Any"⟩]⟩ = true := by
    simp only [wfFieldXmlE, Bool.and_eq_true]
    refine ⟨by decide, ?_⟩
    rw [show aget (lit "STRING") types44 = some TyCls.FixString by decide]
    simp only [List.all_cons, List.all_nil, Bool.and_true, h1, List.map_cons, List.map_nil, Bool.true_and, Bool.and_eq_true]
    exact ⟨by simp [nodupB], by decide⟩
  unfold wfDictE
  rw [show supportedTypes Version.v44 = .ok types44 from rfl]
  simp [List.flatMap_cons, List.flatMap_nil, fieldsOf, List.nil_append, List.append_nil, List.all_cons, List.all_nil, h2,
    Bool.true_and, Bool.and_true, messagesOf, containersOf, allComps, compsOf, List.map_cons, List.map_nil, isCountField,
    fieldsLast, atMostOne, List.filter_cons, List.filter_nil, isFieldsSec, isHeaderSec, isTrailerSec, isMessagesSec,
    itemsAll, itemAll, nodupB]
  decide

/-! ### non-vacuity: enumerated values containing `<`, `>`, `&`, `"`, `'`, `\`, space; CHAR, STRING, MULTIPLEVALUESTRING, BOOLEAN,
    INT fields; keyword descriptions -/

def exDictE : Dict := ⟨.v44, [
    .messages [⟨lit "Order", lit "D", lit "app", [.field (lit "Cmp") (some (lit "Y")), .field (lit "Txt") (some (lit "N")),
                                                   .field (lit "Flag") none, .field (lit "Lvl") none, .field (lit "Multi") none]⟩],
    .fields [
      ⟨lit "700", lit "Cmp", lit "CHAR", [⟨lit "<", lit "Less"⟩, ⟨lit "&", lit "And"⟩, ⟨lit ">", lit "Greater"⟩, ⟨lit "'", lit "Quote"⟩,
                                          ⟨lit "\"", lit "DQuote"⟩, ⟨lit "\\", lit "Backslash"⟩, ⟨lit " ", lit "None"⟩]⟩,
      ⟨lit "701", lit "Txt", lit "STRING", [⟨lit "a<b", lit "class"⟩, ⟨lit "x y", lit "Spaced"⟩, ⟨lit "&lt;", lit "Entity"⟩,
                                            ⟨lit "it's", lit "Its"⟩, ⟨lit "C:\\n", lit "Path"⟩, ⟨lit "{{x}}", lit "Braces"⟩]⟩,
      ⟨lit "702", lit "Flag", lit "BOOLEAN", [⟨lit "Y", lit "Yes"⟩, ⟨lit "N", lit "No"⟩]⟩,
      ⟨lit "703", lit "Lvl", lit "INT", [⟨lit "1", lit "One"⟩, ⟨lit "10", lit "Ten"⟩]⟩,
      ⟨lit "704", lit "Multi", lit "MULTIPLEVALUESTRING", [⟨lit "<>", lit "NotEqual"⟩, ⟨lit "=", lit "Equal"⟩]⟩]]⟩

example : wfDictE exDictE = true := by decide
/-- outside the old guard: `Props/C16.lean` says nothing about this dictionary -/
example : wfDict exDictE = false := by decide
example : (genLoad exDictE).toBool = true := by decide
/-- the value texts come out verbatim, in the order of the file -/
example : (genLoad exDictE).toOption.map (fun L => (L.fields.take 2).map (fun f => f.values.map (·.key))) =
    some [[lit "<", lit "&", lit ">", lit "'", lit "\"", lit "\\", lit " "],
          [lit "a<b", lit "x y", lit "&lt;", lit "it's", lit "C:\\n", lit "{{x}}"]] := by decide
/-- keyword descriptions get the trailing underscore; the numeric field's values are not string literals -/
example : (gen exDictE).toOption.map (fun m => m.fields.map (fun f => f.values.map (fun v => (v.attr, v.quoted)))) =
    some [[(lit "Less", true), (lit "And", true), (lit "Greater", true), (lit "Quote", true), (lit "DQuote", true),
           (lit "Backslash", true), (lit "None_", true)],
          [(lit "class_", true), (lit "Spaced", true), (lit "Entity", true), (lit "Its", true), (lit "Path", true), (lit "Braces", true)],
          [(lit "Yes", true), (lit "No", true)], [(lit "One", false), (lit "Ten", false)],
          [(lit "NotEqual", true), (lit "Equal", true)]] := by decide

end NasdaqModel.Props.C16Enum
