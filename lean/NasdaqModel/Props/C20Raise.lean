import NasdaqModel.Model.SyncFacade
/-
C20, the executor beneath the facade when the coroutine ITSELF ends with an exception (seeded change C20j).

Statement: every call on the executor "returns its result, raises the underlying error, or raises a timeout/state error -
it never blocks forever".  `Model/SyncFacade.lean` (`passStep`, `waitFor`, `execute`, `executeSync`) is `_wait_for`'s slice
loop and the two `except concurrent.futures.TimeoutError` clauses line by line; the environment (clock, scheduler, loop
thread) contributes one `Pass` record per trip round the loop and is not restricted in any way.

  * `C20_wait_continues_iff`      the loop goes round again exactly when, in this pass, the future is not done, the deadline
                                  is not reached and the thread is (seen) alive — never when the future is done
  * `C20_wait_leaves_loop_when_future_completes`
                                  the measure: if the future completes in pass k, `_wait_for` has left the loop after at
                                  most k passes — for EVERY outcome of the coroutine, TimeoutError included
  * `C20_wait_raises_the_coroutines_error` / `C20_execute_raises_the_coroutines_error`
                                  while nothing else happens (no deadline hit, thread alive), what comes out IS the coroutine's
                                  outcome: its value, or its own exception `e`, for every `e : Exc`
  * `C20_wait_outcome` / `C20_execute_outcome` / `C20_execute_sync_outcome`
                                  in every environment the call ends with the coroutine's outcome, a TimeoutError made by an
                                  expired wait (and then a pass really saw the slice expire, the future NOT done and the caller's
                                  deadline reached), or StateError (and then the thread was seen dead), or ValueError for a non-coroutine
  * `C20_wait_untimed_never_expiry` / `C20_execute_untimed_never_expiry` / `C20_execute_sync_never_expiry` / `C20_untimed_value_comes_back`
                                  (since /repo ea90e75) a call without a caller-side timeout never ends with the expiry of a slice:
                                  a coroutine that returned a value gets it returned; the pre-repair semantics and its lost result
                                  are kept in `Witness/C20Raise.lean`
  * `C20_wait_terminates`         any infinite environment in which the future eventually completes, or the deadline is eventually
                                  reached, or the thread is eventually seen dead: `_wait_for` returns after finitely many passes
-/
namespace NasdaqModel.Props.C20Raise
open NasdaqModel.SyncFacade

/-- **When the loop continues.** Independent of how the coroutine ends (`fin`): another pass is made iff in this one the
    future was not done (neither within the slice nor at the check), the deadline was not reached, and it is not the case
    that the thread is dead with the future still pending.  In particular a done future always ends the loop. -/
theorem C20_wait_continues_iff (fin : Fin) (p : Pass) : (passStep fin p).isSome = p.ends := by
  unfold passStep Pass.ends
  cases hc : p.completes
  · simp only [Bool.false_eq_true, ↓reduceIte, Exc.isTimeout, Bool.false_or]
    cases p.doneAtCheck <;> cases p.deadline <;> cases p.alive <;> cases p.doneAtCheck2 <;> rfl
  · cases fin with
    | returned => simp [deliver]
    | raised e => cases e <;> simp [deliver, Exc.isTimeout]

/-- the future is done by the end of the slice or at the handler's check: the pass hands out the future's OWN outcome -/
theorem passStep_done (fin : Fin) (p : Pass) (h : p.completes = true ∨ p.doneAtCheck = true) :
    passStep fin p = some (deliver fin) := by
  unfold passStep
  cases hc : p.completes
  · have hd : p.doneAtCheck = true := by rcases h with h | h <;> simp_all
    simp [hd, Exc.isTimeout]
  · cases fin with
    | returned => simp [deliver]
    | raised e => cases e <;> simp [deliver, Exc.isTimeout]

theorem passStep_completes (fin : Fin) (p : Pass) (h : p.completes = true) : passStep fin p = some (deliver fin) :=
  passStep_done fin p (Or.inl h)

theorem passStep_quiet (fin : Fin) (p : Pass) (h : p.quiet = true) : passStep fin p = none := by
  have := C20_wait_continues_iff fin p
  unfold Pass.quiet at h
  cases hs : passStep fin p with
  | none => rfl
  | some r => rw [hs] at this; simp at this; rw [← this] at h; simp at h

private theorem pollsIn_quiet (fin : Fin) (p : Pass) (h : p.quiet = true) : pollsIn fin p = 1 := by
  unfold Pass.quiet Pass.ends at h
  have hc : p.completes = false := by cases hc : p.completes <;> simp_all
  have hd : p.doneAtCheck = false := by cases hd : p.doneAtCheck <;> simp_all
  simp [pollsIn, hc, hd]

theorem pollsIn_le (fin : Fin) (p : Pass) : 1 ≤ pollsIn fin p ∧ pollsIn fin p ≤ 2 := by
  unfold pollsIn
  cases p.completes <;> cases fin <;> simp [deliver] <;> split <;> omega

/-- **The measure.** If the future completes during — or is found done in — pass number `pre.length` (counted from 0),
    `_wait_for` leaves the loop with some result after at most `pre.length + 1` passes — whatever happened in the earlier
    passes, whatever follows, and whatever the coroutine's outcome is (its own TimeoutError included: the done future
    ends the loop). -/
theorem C20_wait_leaves_loop_when_future_completes (fin : Fin) (pre post : List Pass) (p : Pass)
    (h : p.completes = true ∨ p.doneAtCheck = true) :
    (∃ r, waitFor fin (pre ++ p :: post) = some r) ∧ passesUsed fin (pre ++ p :: post) ≤ pre.length + 1 := by
  induction pre with
  | nil =>
    simp only [List.nil_append, waitFor, passesUsed, passStep_done fin p h, List.length_nil]
    exact ⟨⟨_, rfl⟩, Nat.le_refl _⟩
  | cons q rest ih =>
    cases hq : passStep fin q with
    | some r =>
      simp only [List.cons_append, waitFor, passesUsed, hq, List.length_cons]
      exact ⟨⟨r, rfl⟩, by omega⟩
    | none =>
      simp only [List.cons_append, waitFor, passesUsed, hq, List.length_cons]
      exact ⟨ih.1, by have := ih.2; omega⟩

/-- **The future's own outcome comes out.** Quiet passes, then the future completes within a slice *or is found done right
    after a slice expired*: `_wait_for` hands out exactly the coroutine's outcome — its value, or `e` for every exception
    class `e` (TimeoutError, a subclass of it, CancelledError, StateError, EndOfQueue, ValueError, any Exception, any
    BaseException) — in that pass, with at most one `future.result` call more than passes. -/
theorem C20_wait_raises_the_coroutines_error (fin : Fin) (pre post : List Pass) (p : Pass)
    (hq : ∀ q ∈ pre, q.quiet = true) (h : p.completes = true ∨ p.doneAtCheck = true) :
    waitFor fin (pre ++ p :: post) = some (deliver fin) ∧ passesUsed fin (pre ++ p :: post) = pre.length + 1 ∧
    pollsUsed fin (pre ++ p :: post) = pre.length + pollsIn fin p := by
  induction pre with
  | nil => simp [waitFor, passesUsed, pollsUsed, passStep_done fin p h]
  | cons q rest ih =>
    have hq' := passStep_quiet fin q (hq q (by simp))
    have hp := pollsIn_quiet fin q (hq q (by simp))
    have := ih (fun x hx => hq x (by simp [hx]))
    simp only [List.cons_append, waitFor, passesUsed, pollsUsed, hq', hp, List.length_cons, this.1, this.2.1, this.2.2, true_and]
    omega

/-- the same seen from the caller of `execute` (thread alive at the call, a coroutine was passed; the future, done in that
    pass, is still done in `execute`'s handler) -/
theorem C20_execute_raises_the_coroutines_error (fin : Fin) (pre post : List Pass) (p : Pass)
    (hq : ∀ q ∈ pre, q.quiet = true) (h : p.completes = true ∨ p.doneAtCheck = true) :
    execute true true fin (pre ++ p :: post) true = some (deliver fin) := by
  unfold execute
  rw [(C20_wait_raises_the_coroutines_error fin pre post p hq h).1]
  cases fin with
  | returned => simp [deliver]
  | raised e => cases e <;> simp [deliver, Exc.isTimeout]

/-- … and of `execute_sync` (the callable's exception travels through the `_bridge` coroutine) -/
theorem C20_execute_sync_raises_the_callables_error (fin : Fin) (pre post : List Pass) (p : Pass)
    (hq : ∀ q ∈ pre, q.quiet = true) (h : p.completes = true ∨ p.doneAtCheck = true) :
    executeSync true true true fin (pre ++ p :: post) true = some (deliver fin) := by
  unfold executeSync
  simpa using C20_execute_raises_the_coroutines_error fin pre post p hq h

/-- **What can come out of `_wait_for`, in any environment**: the coroutine's outcome — and then a pass found the future
    done; a TimeoutError of an expired wait — only if some pass saw its slice expire, the future NOT done, and the caller's
    deadline reached; StateError — only if some pass saw the thread dead with the future pending. -/
theorem C20_wait_outcome (fin : Fin) (ps : List Pass) (r : Res) (h : waitFor fin ps = some r) :
    (r = deliver fin ∧ ∃ p ∈ ps, p.completes = true ∨ p.doneAtCheck = true) ∨
    (r = .raised .expiry ∧ ∃ p ∈ ps, p.completes = false ∧ p.doneAtCheck = false ∧ p.deadline = true) ∨
    (r = .raised .state ∧ ∃ p ∈ ps, p.completes = false ∧ p.alive = false ∧ p.doneAtCheck2 = false) := by
  induction ps with
  | nil => simp [waitFor] at h
  | cons p rest ih =>
    simp only [waitFor] at h
    cases hp : passStep fin p with
    | none =>
      rw [hp] at h
      rcases ih h with ⟨h1, q, hq, h2⟩ | ⟨h1, q, hq, h2⟩ | ⟨h1, q, hq, h2⟩
      · exact Or.inl ⟨h1, q, by simp [hq], h2⟩
      · exact Or.inr (Or.inl ⟨h1, q, by simp [hq], h2⟩)
      · exact Or.inr (Or.inr ⟨h1, q, by simp [hq], h2⟩)
    | some r' =>
      rw [hp] at h
      simp only [Option.some.injEq] at h
      subst h
      by_cases hdone : p.completes = true ∨ p.doneAtCheck = true
      · rw [passStep_done fin p hdone] at hp
        simp only [Option.some.injEq] at hp
        exact Or.inl ⟨hp.symm, p, by simp, hdone⟩
      · have hc : p.completes = false := by cases hc : p.completes <;> simp_all
        have hd : p.doneAtCheck = false := by cases hd : p.doneAtCheck <;> simp_all
        unfold passStep at hp
        simp only [hc, hd, Bool.false_eq_true, ↓reduceIte, Exc.isTimeout, Bool.or_self] at hp
        cases hdl : p.deadline
        · simp only [hdl, Bool.false_eq_true, ↓reduceIte] at hp
          cases ha : p.alive <;> cases h2 : p.doneAtCheck2 <;> simp [ha, h2] at hp
          subst hp
          exact Or.inr (Or.inr ⟨rfl, p, by simp, hc, ha, h2⟩)
        · simp only [hdl, ↓reduceIte, Option.some.injEq] at hp
          subst hp
          exact Or.inr (Or.inl ⟨rfl, p, by simp, hc, hd, hdl⟩)

/-- **An untimed wait never times out.** Without a caller-side timeout (`deadline is None`: no pass can find a deadline
    reached) `_wait_for` ends with the coroutine's outcome, or with StateError once the thread was seen dead — the expiry of
    a slice never comes out (before /repo ea90e75 it did: `Witness/C20Raise`). -/
theorem C20_wait_untimed_never_expiry (fin : Fin) (ps : List Pass) (r : Res) (hnd : ∀ p ∈ ps, p.deadline = false)
    (h : waitFor fin ps = some r) :
    (r = deliver fin ∧ ∃ p ∈ ps, p.completes = true ∨ p.doneAtCheck = true) ∨
    (r = .raised .state ∧ ∃ p ∈ ps, p.completes = false ∧ p.alive = false ∧ p.doneAtCheck2 = false) := by
  rcases C20_wait_outcome fin ps r h with h1 | ⟨_, p, hp, _, _, hdl⟩ | h3
  · exact Or.inl h1
  · rw [hnd p hp] at hdl; simp at hdl
  · exact Or.inr h3

/-- the statement's list for `execute`: its result, the underlying error, a timeout error, a state error — and ValueError
    exactly for an argument that is no coroutine -/
theorem C20_execute_outcome (a0 isCoro : Bool) (fin : Fin) (ps : List Pass) (dh : Bool) (r : Res)
    (h : execute a0 isCoro fin ps dh = some r) :
    r = deliver fin ∨ r = .raised .expiry ∨ r = .raised .state ∨ (r = .raised .value ∧ isCoro = false) := by
  unfold execute at h
  cases a0
  · simp at h; exact Or.inr (Or.inr (Or.inl h.symm))
  · cases isCoro
    · simp at h; exact Or.inr (Or.inr (Or.inr ⟨h.symm, rfl⟩))
    · simp only [Bool.not_true, Bool.false_eq_true, ↓reduceIte] at h
      cases hw : waitFor fin ps with
      | none => rw [hw] at h; simp at h
      | some r' =>
        rw [hw] at h
        rcases C20_wait_outcome fin ps r' hw with ⟨h1, _⟩ | ⟨h1, _⟩ | ⟨h1, _⟩
        · subst h1
          cases fin with
          | returned => simp [deliver] at h; exact Or.inl (by simp [deliver, h.symm])
          | raised e =>
            simp only [deliver] at h
            by_cases ht : e.isTimeout = true
            · cases dh <;> simp [ht] at h
              · exact Or.inr (Or.inl h.symm)
              · exact Or.inl (by simp [deliver, h.symm])
            · simp [ht] at h; exact Or.inl (by simp [deliver, h.symm])
        · subst h1
          cases dh <;> simp [Exc.isTimeout] at h <;> exact Or.inr (Or.inl h.symm)
        · subst h1
          simp [Exc.isTimeout] at h
          exact Or.inr (Or.inr (Or.inl h.symm))

/-- **An untimed call never raises a timeout of the executor's making.** `execute(coro)` without `timeout=`, in any
    environment that is consistent about `done()` (a future found done stays done: `hmono`): the call ends with the
    coroutine's outcome (its own TimeoutError if that is how it ended), with StateError — and then the executor was not
    active at the call or was seen dead under it — or with ValueError for a non-coroutine.  Never `.expiry`. -/
theorem C20_execute_untimed_never_expiry (a0 isCoro : Bool) (fin : Fin) (ps : List Pass) (dh : Bool) (r : Res)
    (hnd : ∀ p ∈ ps, p.deadline = false)
    (hmono : (∃ p ∈ ps, p.completes = true ∨ p.doneAtCheck = true) → dh = true)
    (h : execute a0 isCoro fin ps dh = some r) :
    r = deliver fin ∨
    (r = .raised .state ∧ (a0 = false ∨ ∃ p ∈ ps, p.completes = false ∧ p.alive = false ∧ p.doneAtCheck2 = false)) ∨
    (r = .raised .value ∧ isCoro = false) := by
  unfold execute at h
  cases a0
  · simp at h; exact Or.inr (Or.inl ⟨h.symm, Or.inl rfl⟩)
  · cases isCoro
    · simp at h; exact Or.inr (Or.inr ⟨h.symm, rfl⟩)
    · simp only [Bool.not_true, Bool.false_eq_true, ↓reduceIte] at h
      cases hw : waitFor fin ps with
      | none => rw [hw] at h; simp at h
      | some r' =>
        rw [hw] at h
        rcases C20_wait_untimed_never_expiry fin ps r' hnd hw with ⟨h1, hdone⟩ | ⟨h1, hdead⟩
        · subst h1
          have hdh := hmono hdone
          subst hdh
          cases fin with
          | returned => simp [deliver] at h; exact Or.inl (by simp [deliver, h.symm])
          | raised e =>
            simp only [deliver] at h
            by_cases ht : e.isTimeout = true
            · simp [ht] at h; exact Or.inl (by simp [deliver, h.symm])
            · simp [ht] at h; exact Or.inl (by simp [deliver, h.symm])
        · subst h1
          simp [Exc.isTimeout] at h
          exact Or.inr (Or.inl ⟨h.symm, Or.inr hdead⟩)

/-- **"Returns its result".** An untimed `execute` of a coroutine that returns a value returns that value; the only other
    way out is StateError with the executor seen dead under the call while the future was still pending. -/
theorem C20_untimed_value_comes_back (ps : List Pass) (dh : Bool) (r : Res)
    (hnd : ∀ p ∈ ps, p.deadline = false)
    (hmono : (∃ p ∈ ps, p.completes = true ∨ p.doneAtCheck = true) → dh = true)
    (h : execute true true .returned ps dh = some r) :
    r = .returned ∨ (r = .raised .state ∧ ∃ p ∈ ps, p.completes = false ∧ p.alive = false ∧ p.doneAtCheck2 = false) := by
  rcases C20_execute_untimed_never_expiry true true .returned ps dh r hnd hmono h with h1 | ⟨h1, h2⟩ | ⟨_, h2⟩
  · exact Or.inl h1
  · rcases h2 with h2 | h2
    · simp at h2
    · exact Or.inr ⟨h1, h2⟩
  · simp at h2

theorem C20_execute_sync_outcome (a0 isCallable a1 : Bool) (fin : Fin) (ps : List Pass) (dh : Bool) (r : Res)
    (h : executeSync a0 isCallable a1 fin ps dh = some r) :
    r = deliver fin ∨ r = .raised .expiry ∨ r = .raised .state ∨ (r = .raised .value ∧ isCallable = false) := by
  unfold executeSync at h
  cases a0
  · simp at h; exact Or.inr (Or.inr (Or.inl h.symm))
  · cases isCallable
    · simp at h; exact Or.inr (Or.inr (Or.inr ⟨h.symm, rfl⟩))
    · simp only [Bool.not_true, Bool.false_eq_true, ↓reduceIte] at h
      rcases C20_execute_outcome a1 true fin ps dh r h with h1 | h1 | h1 | ⟨_, h2⟩
      · exact Or.inl h1
      · exact Or.inr (Or.inl h1)
      · exact Or.inr (Or.inr (Or.inl h1))
      · simp at h2

/-- `execute_sync` takes no timeout at all: it never raises a timeout of the executor's making -/
theorem C20_execute_sync_never_expiry (a0 isCallable a1 : Bool) (fin : Fin) (ps : List Pass) (dh : Bool) (r : Res)
    (hnd : ∀ p ∈ ps, p.deadline = false)
    (hmono : (∃ p ∈ ps, p.completes = true ∨ p.doneAtCheck = true) → dh = true)
    (h : executeSync a0 isCallable a1 fin ps dh = some r) :
    r = deliver fin ∨ r = .raised .state ∨ (r = .raised .value ∧ isCallable = false) := by
  unfold executeSync at h
  cases a0
  · simp at h; exact Or.inr (Or.inl h.symm)
  · cases isCallable
    · simp at h; exact Or.inr (Or.inr ⟨h.symm, rfl⟩)
    · simp only [Bool.not_true, Bool.false_eq_true, ↓reduceIte] at h
      rcases C20_execute_untimed_never_expiry a1 true fin ps dh r hnd hmono h with h1 | ⟨h1, _⟩ | ⟨_, h2⟩
      · exact Or.inl h1
      · exact Or.inr (Or.inl h1)
      · simp at h2

/-- the passes an infinite environment provides up to (not including) pass `n` -/
def prefixOf (env : Nat → Pass) (n : Nat) : List Pass := (List.range n).map env

private theorem waitFor_append_some (fin : Fin) (xs ys : List Pass) (r : Res) (h : waitFor fin xs = some r) :
    waitFor fin (xs ++ ys) = some r := by
  induction xs with
  | nil => simp [waitFor] at h
  | cons x rest ih =>
    simp only [List.cons_append, waitFor] at h ⊢
    cases hx : passStep fin x with
    | some r' => rw [hx] at h; exact h
    | none => rw [hx] at h; exact ih h

private theorem waitFor_append_ends (fin : Fin) (xs : List Pass) (p : Pass) (h : p.ends = true) :
    ∃ r, waitFor fin (xs ++ [p]) = some r := by
  induction xs with
  | nil =>
    have := C20_wait_continues_iff fin p
    rw [h] at this
    cases hp : passStep fin p with
    | none => rw [hp] at this; simp at this
    | some r => exact ⟨r, by simp [waitFor, hp]⟩
  | cons x rest ih =>
    simp only [List.cons_append, waitFor]
    cases passStep fin x with
    | some r => exact ⟨r, rfl⟩
    | none => exact ih

/-- **Never blocks for ever.** Take any infinite environment.  If in some pass `k` the future completes, or is found done,
    or the deadline is found reached, or the thread is found dead while the future is pending, then `_wait_for` has returned
    or raised after at most `k + 1` passes.  (That one of these eventually happens is what the transition system proves of the
    loop thread: `C20_no_hang` — a coroutine handed to the loop is run, or the thread exits.) -/
theorem C20_wait_terminates (fin : Fin) (env : Nat → Pass) (k : Nat) (h : (env k).ends = true) :
    ∃ r, waitFor fin (prefixOf env (k + 1)) = some r ∧ ∀ n, k + 1 ≤ n → waitFor fin (prefixOf env n) = some r := by
  have hk : prefixOf env (k + 1) = prefixOf env k ++ [env k] := by
    simp [prefixOf, List.range_succ]
  obtain ⟨r, hr⟩ := waitFor_append_ends fin (prefixOf env k) (env k) h
  refine ⟨r, by rw [hk]; exact hr, ?_⟩
  intro n hn
  obtain ⟨m, rfl⟩ : ∃ m, n = (k + 1) + m := ⟨n - (k + 1), by omega⟩
  have hr' : List.range (k + 1 + m) = List.range (k + 1) ++ List.range' (k + 1) m := by
    rw [List.range_eq_range', List.range_eq_range']
    have := List.range'_append_1 (s := 0) (m := k + 1) (n := m)
    simpa using this.symm
  have : prefixOf env (k + 1 + m) = prefixOf env (k + 1) ++ (List.range' (k + 1) m).map env := by
    simp only [prefixOf, hr', List.map_append]
  rw [this]
  exact waitFor_append_some fin _ _ r (by rw [hk]; exact hr)

/-! ### non-vacuity — the call of the seeded change's demonstration:
    `bridge.execute(asyncio.wait_for(session.receive_msg(), 0.3))`, the peer stays silent: six slices expire, in the seventh
    the coroutine has ended with its own TimeoutError -/

private def quietPass : Pass := { completes := false, doneAtCheck := false, deadline := false, alive := true, doneAtCheck2 := false }
private def donePass : Pass := { completes := true, doneAtCheck := true, deadline := false, alive := true, doneAtCheck2 := true }
private def racePass : Pass := { completes := false, doneAtCheck := true, deadline := false, alive := true, doneAtCheck2 := true }
private def deadPass : Pass := { completes := false, doneAtCheck := false, deadline := false, alive := false, doneAtCheck2 := false }

example : quietPass.quiet = true := by decide
example : execute true true (.raised .timeout) (List.replicate 6 quietPass ++ [donePass]) true = some (.raised .timeout) := by decide
example : passesUsed (.raised .timeout) (List.replicate 6 quietPass ++ [donePass, donePass, donePass]) = 7 := by decide
/-- … with 8 calls of `future.result`: seven sliced ones, and the one in the handler that re-raises the coroutine's own error -/
example : pollsUsed (.raised .timeout) (List.replicate 6 quietPass ++ [donePass, donePass, donePass]) = 8 := by decide
example : execute true true (.raised .eoq) [quietPass, donePass] true = some (.raised .eoq) := by decide
example : execute true true .returned [quietPass, donePass] true = some .returned := by decide
/-- the slice expired and the future completed before the check: the VALUE comes out (before ea90e75: the slice's TimeoutError) -/
example : execute true true .returned [quietPass, racePass] true = some .returned := by decide
example : execute true true (.raised .eoq) [quietPass, racePass] true = some (.raised .eoq) := by decide
/-- the loop stopped under the call -/
example : execute true true (.raised .timeout) [quietPass, deadPass] false = some (.raised .state) := by decide
/-- caller-side timeout: the future is cancelled, a fresh TimeoutError -/
example : execute true true (.raised .value) [quietPass, { quietPass with deadline := true }] false = some (.raised .expiry) := by decide
example : waitFor (.raised .timeout) (List.replicate 50 quietPass) = none := by decide

end NasdaqModel.Props.C20Raise
