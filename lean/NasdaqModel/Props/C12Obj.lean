import NasdaqModel.Props.C12
import NasdaqModel.Model.SoupObj
/-
C12, packet objects over time: "every SoupBinTCP packet the library can build" includes a packet object that has been
encoded, had a field assigned (or its bytearray payload changed in place) and is encoded again.  Every `to_bytes()` of
such a history returns the documented layout of the fields the object holds at that moment, and decodes to them —
whatever was encoded before.
-/
namespace NasdaqModel.Props.C12Obj
open NasdaqModel Py Soup SoupObj Spec.SoupLayout NasdaqModel.Props.C12

/-- **No memory.** The `to_bytes()` calls of a history return the encodings of the fields held at each call. -/
theorem C12_obj_run_eq (p : Pkt) (ops : List Op) : run p ops = (atEncodes p ops).map encode := by
  induction ops generalizing p with
  | nil => rfl
  | cons op r ih =>
    cases op with
    | set f v => simp only [run, atEncodes]; exact ih _
    | toBytes => simp only [run, atEncodes, List.map_cons]; rw [ih]

/-- **Layout of the current fields.** If the object is well formed at every `to_bytes()` call, each call returns exactly the
    documented layout of the fields it holds then (length prefix, type character, payload) — independent of every earlier
    encoding and assignment. -/
theorem C12_obj_layout (p : Pkt) (ops : List Op) (h : (atEncodes p ops).all wfPkt = true) :
    run p ops = (atEncodes p ops).map (fun q => .ok (layout q)) := by
  rw [C12_obj_run_eq]
  apply List.map_congr_left
  intro q hq
  exact C12_layout q (List.all_eq_true.mp h q hq)

/-- **Round trip of every encoding of the history.** -/
theorem C12_obj_roundtrip (p : Pkt) (ops : List Op) (h : (atEncodes p ops).all wfPkt = true) :
    (run p ops).map (fun r => r >>= decode) = (atEncodes p ops).map (fun q => .ok q) := by
  rw [C12_obj_layout p ops h, List.map_map]
  apply List.map_congr_left
  intro q hq
  have hw := List.all_eq_true.mp h q hq
  show (Except.ok (layout q) >>= decode) = .ok q
  rw [ok_bind]
  exact C12_roundtrip q hw (layout q) (C12_layout q hw)

/-- An assignment changes the assigned field only, and the next encoding shows it: the data payload case. -/
theorem C12_obj_reassign_data (d d' : Bytes) (h : d.length ≤ 32766) (h' : d'.length ≤ 32766) :
    run (.seqData d) [.toBytes, .set .data (.bytes d'), .toBytes] =
      [.ok (layout (.seqData d)), .ok (layout (.seqData d'))] := by
  have := C12_obj_layout (.seqData d) [.toBytes, .set .data (.bytes d'), .toBytes]
    (by simp [atEncodes, step, assign, wfPkt, h, h'])
  simpa [atEncodes, step, assign] using this

/-! ### non-vacuity -/
example : run (.debug [104]) [.toBytes, .set .msg (.text []), .toBytes] = [.ok [0, 2, 43, 104], .ok [0, 1, 43]] := by decide
example : run (.loginAcc [115] 1) [.toBytes, .set .sequence (.int 10), .toBytes]
    = [.ok (layout (.loginAcc [115] 1)), .ok (layout (.loginAcc [115] 10))] := by decide
example : (atEncodes (.seqData [1, 2]) [.toBytes, .set .data (.bytes []), .toBytes, .set .data (.bytes [0, 3, 83]), .toBytes]).all wfPkt = true := by
  decide

end NasdaqModel.Props.C12Obj
