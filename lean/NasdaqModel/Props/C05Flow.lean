import NasdaqModel.Props.C05
import NasdaqModel.Model.SessionFlow
/-
C05 under transport flow control — "every way of ending a session closes it once, completely, without error" when the trigger
arrives while the transport has told the session to stop writing (the peer is not reading: exactly the situation in which one
wants to drop it).

`Model/SessionFlow.lean` adds the transport's two callbacks (`pause_writing()`, `resume_writing()`: inherited from
`asyncio.BaseProtocol`, empty bodies) to the histories of `Model/Session.lean`, at arbitrary positions.

* the callbacks change nothing in the session and no transition consults the flag; erasing them from a history leaves the run
  unchanged (`C05Flow_erasable`);
* hence the clauses of C05 hold for every history with callbacks anywhere: the close sequence (`C05Flow_close_sequence`), at most
  once (`C05Flow_cb_at_most_once`), completely and exactly once (`C05Flow_completed_exactly_once`), reports closed iff the close body
  was entered (`C05Flow_is_closed_iff`);
* every local trigger — `logout()` / `end_session()`, `initiate_close()`, the disconnect — leaves the session closed or with its
  closing task created, paused transport or not (`C05Flow_trigger_initiates_close`);
* sensitivity: if sends were refused while the transport is paused, `logout()` on a paused transport would leave the session open
  with no closing task (`C05Flow_refused_farewell_breaks`).
-/
namespace NasdaqModel.Props.C05Flow
open NasdaqModel Sess NasdaqModel.SessFlow NasdaqModel.Props.C05

private theorem frun_cons (cfg : Cfg) (x : FSt) (e : FEv) (evs : List FEv) : x.run cfg (e :: evs) = (x.step cfg e).run cfg evs := rfl

/-- `pause_writing()` and `resume_writing()` leave the session exactly as it was -/
theorem C05Flow_callbacks_noop (cfg : Cfg) (x : FSt) : (x.step cfg .pauseWriting).s = x.s ∧ (x.step cfg .resumeWriting).s = x.s :=
  ⟨rfl, rfl⟩

/-- a transition of the session is the same transition whether or not the transport has asked for a pause -/
theorem C05Flow_flag_not_consulted (cfg : Cfg) (x : FSt) (e : Ev) : (x.step cfg (.base e)).s = step cfg x.s e := rfl

/-- **C05Flow_erasable.**  Deleting the transport's flow-control callbacks from a history changes nothing in the session. -/
theorem C05Flow_erasable (cfg : Cfg) (x : FSt) (evs : List FEv) : (x.run cfg evs).s = runEvs cfg x.s (baseOnly evs) := by
  induction evs generalizing x with
  | nil => rfl
  | cons e evs ih =>
    rw [frun_cons, ih]
    cases e <;> rfl

/-- the state reached from a fresh session on a transport that has not asked for a pause -/
abbrev freach (cfg : Cfg) (evs : List FEv) : FSt := ({ s := {} } : FSt).run cfg evs

private theorem freach_s (cfg : Cfg) (evs : List FEv) : (freach cfg evs).s = reach cfg (baseOnly evs) :=
  C05Flow_erasable cfg _ evs

/-- **The close sequence**, for every history with `pause_writing()` / `resume_writing()` at any positions. -/
theorem C05Flow_close_sequence (cfg : Cfg) (evs : List FEv) : monRun (freach cfg evs).s.trace ≠ 9 := by
  rw [freach_s]; exact C05_close_sequence cfg _

/-- **At most once**: transport close, close-callback entry and exit — whatever the transport's write side did meanwhile. -/
theorem C05Flow_cb_at_most_once (cfg : Cfg) (evs : List FEv) :
    (freach cfg evs).s.trace.count .tclose ≤ 1 ∧ (freach cfg evs).s.trace.count .cbEnter ≤ 1 ∧
    (freach cfg evs).s.trace.count .cbExit ≤ 1 := by
  rw [freach_s]; exact C05_cb_at_most_once cfg _

/-- **Reports closed** exactly when the close body has been entered. -/
theorem C05Flow_is_closed_iff (cfg : Cfg) (evs : List FEv) :
    (freach cfg evs).s.closed = true ↔ (freach cfg evs).s.cstage ≠ .idle := by
  rw [freach_s]; exact C05_is_closed_iff cfg _

/-- **Completely, exactly once.** -/
theorem C05Flow_completed_exactly_once (cfg : Cfg) (evs : List FEv) (h : (freach cfg evs).s.cstage = .finished) :
    (freach cfg evs).s.closed = true ∧ Obs.tclose ∈ (freach cfg evs).s.trace ∧
    (freach cfg evs).s.trace.count .tclose ≤ 1 ∧
    (cfg.hasCb = true → Obs.cbEnter ∈ (freach cfg evs).s.trace ∧ Obs.cbExit ∈ (freach cfg evs).s.trace) := by
  rw [freach_s] at h ⊢; exact C05_completed_exactly_once cfg _ h

private theorem initiateClose_started (s : St) : s.initiateClose.closed = true ∨ s.initiateClose.closingTask = true := by
  unfold St.initiateClose
  by_cases hc : s.closed
  · simp [hc]
  · by_cases ht : s.closingTask
    · simp [hc, ht]
    · simp [hc, ht, St.spawn, St.setStatus, St.setProg]

/-- the local close triggers that are plain calls: `logout()` / `end_session()`, `initiate_close()`, the disconnect -/
def isSyncTrigger : Ev → Bool
  | .callLogout | .callInitiateClose | .eof => true
  | _ => false

/-- **C05Flow_trigger_initiates_close.**  In ANY state — transport paused or not — `logout()` / `end_session()`, `initiate_close()`
    and `connection_lost()` return with the session closed or its closing task created: the farewell message's `transport.write`
    cannot stand in the way of the close. -/
theorem C05Flow_trigger_initiates_close (cfg : Cfg) (x : FSt) (e : Ev) (he : isSyncTrigger e = true) :
    (x.step cfg (.base e)).s.closed = true ∨ (x.step cfg (.base e)).s.closingTask = true := by
  cases e <;> simp [isSyncTrigger] at he
  · exact initiateClose_started x.s
  · exact initiateClose_started x.s
  · exact initiateClose_started _

/-! ### sensitivity and non-vacuity -/

/-- a configuration with callbacks that return -/
def plainCfg : Cfg := { msgBeh := fun _ => .ret, cbBeh := .ret, hasCb := true, dispatchOnConnect := true, hasMsgCb := true, fixLogin := false }

/-- connect, the transport pauses, `logout()` -/
def logoutWhilePaused : List FEv := [.base .connect, .pauseWriting, .base .callLogout]

/-- **C05Flow_refused_farewell_breaks.**  Were sends refused while the transport is paused, `logout()` on a paused transport would
    leave the session open with no closing task; the code as it is has created the closing task. -/
theorem C05Flow_refused_farewell_breaks :
    ((({ s := {} } : FSt).runRefusing plainCfg logoutWhilePaused).s.closed = false ∧
     (({ s := {} } : FSt).runRefusing plainCfg logoutWhilePaused).s.closingTask = false) ∧
    (freach plainCfg logoutWhilePaused).s.closingTask = true ∧ (freach plainCfg logoutWhilePaused).writingPaused = true := by
  decide

end NasdaqModel.Props.C05Flow
