import NasdaqModel.Model.Monitor
namespace NasdaqModel.Props.C08
open NasdaqModel.Monitor

/-- every call site hands the session its own role's interval for the local monitor and the peer's for the remote one -/
theorem C08_role (role : Role) (c : Cfg) :
    sessionIntervals role c = (ownInterval role c, peerInterval role c) := by
  cases role <;> rfl

end NasdaqModel.Props.C08
