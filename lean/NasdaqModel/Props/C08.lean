import NasdaqModel.Lemmas.HeartbeatLemmas
/-
C08 — a logged-in session never stays silent longer than two heartbeat intervals of its own role.
Only property theorems and their non-vacuity examples live here; the invariants are in Lemmas/MonitorLemmas.lean.

Reading guide.  `login role cfg` is the session at the instant `start_heartbeats` is called (time 0); `run evs` folds the
event list (`adv` = one grid unit passes and the timers due at the new instant fire, local one first; `send`, `sendHb`,
`recv k`, `close`).  `s.writes` are the `transport.write` calls (newest first) with their instant, origin (`app` =
application message, `appHb` = heartbeat message sent by the application itself, `mon` = heartbeat emitted by the local
monitor) and whether the session was still open.  `s.life` = close instant, or now.
All theorems hold for every event list, every configuration with intervals ≥ 1 grid unit, every role.
-/
namespace NasdaqModel.Props.C08
open NasdaqModel.Monitor

/-- heartbeat intervals of at least one grid unit (the grid can be as fine as one likes) -/
def wfCfg (c : Cfg) : Bool := decide (1 ≤ c.clientI) && decide (1 ≤ c.serverI)

example : wfCfg ⟨8, 16⟩ = true := by decide
example : wfCfg ⟨1, 1⟩ = true := by decide

private theorem own_pos (role : Role) (c : Cfg) (h : wfCfg c = true) : 1 ≤ ownInterval role c := by
  simp [wfCfg] at h
  cases role <;> simp [ownInterval] <;> omega

/-- every call site of `start_heartbeats` hands the session its own role's interval for the local monitor and the
    peer's for the remote one (client interval on client / FIX sessions, server interval on a server session) -/
theorem C08_role (role : Role) (c : Cfg) :
    sessionIntervals role c = (ownInterval role c, peerInterval role c) := by
  cases role <;> rfl

private theorem login_eq (role : Role) (c : Cfg) :
    login role c = startWith (ownInterval role c) (peerInterval role c) 1 1 := by
  simp [login, startHeartbeats, C08_role]

/-- **C08_gap.**  From login until close, every window `(t, t + 2·I]` of two own-role intervals contains an outbound
    write made while the session was open — hence so does every closed window `[t, t + 2·I]` of real time
    (it contains `(⌈t⌉ - 1, ⌈t⌉ - 1 + 2·I]`).  Any send pattern, any arrivals, any close. -/
theorem C08_gap (role : Role) (c : Cfg) (hc : wfCfg c = true) (evs : List Ev) (t : Nat)
    (h : t + 2 * ownInterval role c ≤ ((login role c).run evs).life) :
    ∃ w ∈ ((login role c).run evs).writes, w.live = true ∧ t < w.t ∧ w.t ≤ t + 2 * ownInterval role c := by
  rw [login_eq] at h ⊢
  exact (invL_run _ _ 1 1 (own_pos role c hc) (Nat.le_refl 1) evs).cov t h

/-- the same for any pair of intervals and any tolerance ≤ 1 of the local monitor (0 behaves as 1) -/
theorem C08_gap_generic (l r tl tr : Nat) (hl : 1 ≤ l) (htl : tl ≤ 1) (evs : List Ev) (t : Nat)
    (h : t + 2 * l ≤ ((startWith l r tl tr).run evs).life) :
    ∃ w ∈ ((startWith l r tl tr).run evs).writes, w.live = true ∧ t < w.t ∧ w.t ≤ t + 2 * l :=
  (invL_run l r tl tr hl htl evs).cov t h

set_option maxRecDepth 100000 in
/-- non-vacuity: an idle client with interval 4 lives 20 units (the peer interval is far away) and the window (9, 17]
    contains its heartbeats at 12 and 16 -/
example : 9 + 2 * ownInterval .soupClient ⟨4, 100⟩ ≤ ((login .soupClient ⟨4, 100⟩).run (List.replicate 20 .adv)).life := by decide

set_option maxRecDepth 100000 in
/-- non-vacuity of the tick-by-tick theorems: a FIX session with interval 4 whose application sends once at 5 —
    no heartbeat at 8 (a send in [4, 8)), exactly one at 12 and at 16 -/
example :
    let s := (login .fix ⟨4, 100⟩).run ([.adv, .adv, .adv, .adv, .adv, .send] ++ List.replicate 15 .adv)
    s.life = 20 ∧ monCount s.writes 8 = 0 ∧ monCount s.writes 12 = 1 ∧ monCount s.writes 16 = 1 ∧
      due 4 s.life s.writes 12 = true ∧ appIn s.writes 4 8 = true := by decide

/-- **C08_hb_exactly.**  The number of monitor heartbeats written at instant `T` is 1 if `T` is a tick of the own-role
    interval from the second one on, the session lived until `T`, and the application wrote nothing in `[T - I, T)`;
    otherwise it is 0. -/
theorem C08_hb_exactly (role : Role) (c : Cfg) (hc : wfCfg c = true) (evs : List Ev) (T : Nat) :
    monCount ((login role c).run evs).writes T
      = (due (ownInterval role c) ((login role c).run evs).life ((login role c).run evs).writes T).toNat := by
  rw [login_eq]
  exact (invT_run _ _ 1 1 (own_pos role c hc) (Nat.le_refl 1) evs).mon T

/-- **C08_idle_one_per_interval.**  When the application has been idle for one interval before a tick `T = k·I`
    (`k ≥ 2`) that the session lives to see, the monitor emits exactly one heartbeat at `T`, and it is written on the
    open session. -/
theorem C08_idle_one_per_interval (role : Role) (c : Cfg) (hc : wfCfg c = true) (evs : List Ev) (T : Nat)
    (hdvd : ownInterval role c ∣ T) (h2 : 2 * ownInterval role c ≤ T) (hlife : T ≤ ((login role c).run evs).life)
    (hidle : ∀ w ∈ ((login role c).run evs).writes, w.origin = .app → ¬ (T - ownInterval role c ≤ w.t ∧ w.t < T)) :
    monCount ((login role c).run evs).writes T = 1 ∧
      ∃ w ∈ ((login role c).run evs).writes, w.origin = .mon ∧ w.t = T ∧ w.live = true := by
  have hcount : monCount ((login role c).run evs).writes T = 1 := by
    rw [C08_hb_exactly role c hc evs T]
    have : appIn ((login role c).run evs).writes (T - ownInterval role c) T = false := (appIn_false_iff _ _ _).mpr hidle
    simp [due, hdvd, h2, hlife, this]
  refine ⟨hcount, ?_⟩
  obtain ⟨w, hm, ho, ht⟩ := exists_of_monCount_pos ((login role c).run evs).writes T (by omega)
  refine ⟨w, hm, ho, ht, ?_⟩
  have := invT_run (ownInterval role c) (peerInterval role c) 1 1 (own_pos role c hc) (Nat.le_refl 1) evs
  rw [← login_eq] at this
  exact this.monLive w hm ho

/-- a session whose application never sends anything emits one heartbeat at every tick from the second one on -/
theorem C08_idle_forever (role : Role) (c : Cfg) (hc : wfCfg c = true) (evs : List Ev) (hno : ∀ e ∈ evs, e ≠ .send)
    (k : Nat) (hk : 2 ≤ k) (hlife : k * ownInterval role c ≤ ((login role c).run evs).life) :
    monCount ((login role c).run evs).writes (k * ownInterval role c) = 1 := by
  have hnoapp : ∀ w ∈ ((login role c).run evs).writes, w.origin ≠ .app :=
    no_app_writes evs (login role c) hno (by simp [login, startHeartbeats, startWith])
  refine (C08_idle_one_per_interval role c hc evs _ (Nat.dvd_mul_left _ _) ?_ hlife ?_).1
  · exact Nat.mul_le_mul_right _ hk
  · intro w hw ho; exact absurd ho (hnoapp w hw)

/-- **C08_no_hb_if_recent_send.**  A monitor heartbeat at `T` means the application wrote nothing in `[T - I, T)`:
    no heartbeat is emitted while the application has sent something within the last interval. -/
theorem C08_no_hb_if_recent_send (role : Role) (c : Cfg) (hc : wfCfg c = true) (evs : List Ev) (w a : Write)
    (hw : w ∈ ((login role c).run evs).writes) (hwo : w.origin = .mon)
    (ha : a ∈ ((login role c).run evs).writes) (hao : a.origin = .app) :
    ¬ (w.t - ownInterval role c ≤ a.t ∧ a.t < w.t) := by
  have h1 := monCount_pos_of_mem _ w hw hwo
  rw [C08_hb_exactly role c hc evs w.t] at h1
  have hd : due (ownInterval role c) ((login role c).run evs).life ((login role c).run evs).writes w.t = true := by
    cases h : due (ownInterval role c) ((login role c).run evs).life ((login role c).run evs).writes w.t with
    | true => rfl
    | false => simp [h] at h1
  simp only [due, Bool.and_eq_true, Bool.not_eq_true', decide_eq_true_eq] at hd
  exact (appIn_false_iff _ _ _).mp hd.2 a ha hao

/-- monitor heartbeats are written only at ticks `k·I`, `k ≥ 2`, within the session's life, on the open session, and
    at most one per tick ("one per interval") -/
theorem C08_hb_only_at_ticks (role : Role) (c : Cfg) (hc : wfCfg c = true) (evs : List Ev) (w : Write)
    (hw : w ∈ ((login role c).run evs).writes) (hwo : w.origin = .mon) :
    ownInterval role c ∣ w.t ∧ 2 * ownInterval role c ≤ w.t ∧ w.t ≤ ((login role c).run evs).life ∧ w.live = true ∧
      monCount ((login role c).run evs).writes w.t = 1 := by
  have h1 := monCount_pos_of_mem _ w hw hwo
  have h2 := C08_hb_exactly role c hc evs w.t
  have hd : due (ownInterval role c) ((login role c).run evs).life ((login role c).run evs).writes w.t = true := by
    cases h : due (ownInterval role c) ((login role c).run evs).life ((login role c).run evs).writes w.t with
    | true => rfl
    | false => rw [h] at h2; simp at h2; omega
  have hlive : w.live = true := by
    have := invT_run (ownInterval role c) (peerInterval role c) 1 1 (own_pos role c hc) (Nat.le_refl 1) evs
    rw [← login_eq] at this
    exact this.monLive w hw hwo
  rw [hd] at h2
  simp only [due, Bool.and_eq_true, Bool.not_eq_true', decide_eq_true_eq] at hd
  exact ⟨hd.1.1.1, hd.1.1.2, hd.1.2, hlive, by simpa using h2⟩

/-- **C08_hb_is_not_activity.**  Writing a heartbeat — by the monitor or by the application — leaves both monitors
    exactly as they were (no ping), … -/
theorem C08_hb_is_not_activity (s : Sess) (o : Origin) (ho : o.isHb = true) :
    (s.sendMsg o).loc = s.loc ∧ (s.sendMsg o).rem = s.rem := by
  simp [ho]

/-- … on whole histories: deleting the heartbeat messages the application sent itself from a history changes nothing
    but those very writes — same monitor states, same monitor heartbeats at the same instants, same close, … -/
theorem C08_hb_is_not_activity_trace (s : Sess) (evs : List Ev) :
    (s.run evs).dropAppHb = s.dropAppHb.run (evs.filter fun e => e != .sendHb) :=
  dropAppHb_run evs s

/-- … and after a monitor heartbeat at tick `T` (and whatever other heartbeats were written since) an application that
    stays idle gets the next heartbeat at `T + I` -/
theorem C08_hb_then_idle_hb_again (role : Role) (c : Cfg) (hc : wfCfg c = true) (evs : List Ev) (w : Write)
    (hw : w ∈ ((login role c).run evs).writes) (hwo : w.origin = .mon)
    (hlife : w.t + ownInterval role c ≤ ((login role c).run evs).life)
    (hidle : ∀ a ∈ ((login role c).run evs).writes, a.origin = .app → ¬ (w.t ≤ a.t ∧ a.t < w.t + ownInterval role c)) :
    monCount ((login role c).run evs).writes (w.t + ownInterval role c) = 1 := by
  obtain ⟨hd, h2, _, _, _⟩ := C08_hb_only_at_ticks role c hc evs w hw hwo
  refine (C08_idle_one_per_interval role c hc evs _ (Nat.dvd_add hd (Nat.dvd_refl _)) (by omega) hlife ?_).1
  intro a ha hao
  have := hidle a ha hao
  omega

end NasdaqModel.Props.C08
