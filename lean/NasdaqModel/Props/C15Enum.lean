import NasdaqModel.Props.C15
/-
C15 — "unset fields encode their declared default", for enum-typed fields, whatever the enum's members are called.

`wfSpec` puts no condition that relates the NAMES of an enum's members to their VALUES: names are distinct identifiers,
values are constants of the enum's datatype, and a member may be named like its own value, like another member's value, or
the names may be a permutation of the values (`<value name="N">Y</value><value name="Y">N</value>`) — see the `example`s at
the end.  This file states explicitly what the default of a field is in the generated module for all those
specifications:

* `declaredDefault s f0` — the `default` attribute of the (def-resolved) field read in the field's datatype: the text
  itself for character / string types and character enums, the integer it spells for integer types and integer enums.
  It never looks at an enum's member list (`C15Enum_default_ignores_members`, for every specification, well-formed or not).
* `C15Enum_defaults_generated` — for every well-formed specification the module the generator writes imports and the
  `default_value` of every `Field` of every record and message class, position by position, is `declaredDefault`.
* `C15Enum_char_enum_default` / `C15Enum_int_enum_default` — on an `enum:` field that is the declared text itself /
  the number it spells, regardless of member names.

The name-first lookup that a seeded change introduced is refuted on concrete overlapping specifications in
`Witness/C15Enum.lean`.
-/
namespace NasdaqModel.Props.C15Enum
open NasdaqModel GenSoupApp
open NasdaqModel.Py (isDigit)

/-- the default a `<field>` declares: its (def-resolved) `default` attribute read in the domain of the field's datatype -/
def declaredDefault (s : Spec) (f0 : FieldEl) : Option DVal :=
  match (resolvedF s f0).dflt with
  | none => none
  | some v =>
    match docElemTy s (resolvedF s f0) with
    | .ok (_, some .int) => (parseInt? v).map DVal.int
    | _ => some (.str v)

/-- the specification with every enum's member list replaced (names, values, number of members: anything) -/
def withMembers (s : Spec) (g : EnumEl → List EnumVal) : Spec :=
  { s with enums := s.enums.map fun e => { e with values := g e } }

/-! ### helper lemmas -/

private theorem bind_ok_inv {α β : Type} {x : Except Err α} {f : α → Except Err β} {b : β} (h : (x >>= f) = .ok b) :
    ∃ a, x = .ok a ∧ f a = .ok b := by
  cases x with
  | error e => simp only [err_bind] at h; cases h
  | ok a => exact ⟨a, rfl, by simpa only [ok_bind] using h⟩

private theorem mapE_proj {α β γ : Type} {f : α → Except Err β} {φ : β → γ} {ψ : α → γ} :
    ∀ {l : List α} {r : List β}, mapE f l = .ok r → (∀ a ∈ l, ∀ b, f a = .ok b → φ b = ψ a) → r.map φ = l.map ψ
  | [], r, h, _ => by
      simp only [mapE] at h
      cases h
      rfl
  | a :: as, r, h, hp => by
      cases hfa : f a with
      | error e => simp only [mapE, hfa, err_bind] at h; cases h
      | ok b =>
        cases hm : mapE f as with
        | error e => simp only [mapE, hfa, hm, ok_bind, err_bind] at h; cases h
        | ok bs =>
          simp only [mapE, hfa, hm, ok_bind, pure_eq_ok] at h
          cases h
          have ih := mapE_proj (φ := φ) (ψ := ψ) hm (fun x hx y hy => hp x (List.mem_cons_of_mem _ hx) y hy)
          simp only [List.map_cons, ih, hp a (List.mem_cons_self ..) b hfa]

private theorem findEnum?_withMembers (s : Spec) (g : EnumEl → List EnumVal) (n : Str) :
    findEnum? (withMembers s g) n = (findEnum? s n).map fun e => { e with values := g e } := by
  unfold findEnum? withMembers
  simp only
  induction s.enums with
  | nil => rfl
  | cons e es ih =>
    simp only [List.map_cons, List.find?_cons]
    cases h : e.name == n with
    | true => simp
    | false => simpa using ih

private theorem docElemTy_withMembers (s : Spec) (g : EnumEl → List EnumVal) (f : FieldEl) :
    docElemTy (withMembers s g) f = docElemTy s f := by
  unfold docElemTy
  cases f.ty with
  | none => rfl
  | some t =>
    simp only
    cases hsp : splitColon t with
    | mk k on =>
      cases on with
      | none => rfl
      | some n =>
        simp only
        rw [findEnum?_withMembers]
        cases findEnum? s n with
        | none => rfl
        | some e => rfl

private theorem resolveDef_withMembers (s : Spec) (g : EnumEl → List EnumVal) (f0 : FieldEl) :
    resolveDef (withMembers s g) f0 = resolveDef s f0 := rfl

private theorem resolvedF_withMembers (s : Spec) (g : EnumEl → List EnumVal) (f0 : FieldEl) :
    resolvedF (withMembers s g) f0 = resolvedF s f0 := rfl

/-- the default a field denotes is `declaredDefault` (whenever the field denotes anything) -/
theorem C15Enum_denoted_default {s : Spec} {f0 : FieldEl} {fs : FieldS} (h : denoteField s f0 = .ok fs) :
    fs.dflt = declaredDefault s f0 := by
  unfold denoteField at h
  unfold declaredDefault resolvedF
  cases hr : resolveDef s f0 with
  | error e => rw [hr] at h; cases h
  | ok f =>
    rw [hr] at h
    simp only at h ⊢
    unfold denoteResolved at h
    cases hd : docElemTy s f with
    | error e => rw [hd] at h; cases h
    | ok td =>
      obtain ⟨t, dom⟩ := td
      rw [hd] at h
      simp only at h
      cases hn : f.name with
      | none => rw [hn] at h; cases h
      | some name =>
        rw [hn] at h
        simp only at h
        cases harr : f.array with
        | some a =>
          rw [harr] at h
          cases hdf : f.dflt with
          | none => rw [hdf] at h; simp only at h ⊢; cases h; rfl
          | some v => rw [hdf] at h; simp only at h; cases h
        | none =>
          rw [harr] at h
          cases hdf : f.dflt with
          | none => rw [hdf] at h; simp only at h ⊢; cases h; rfl
          | some v =>
            rw [hdf] at h
            cases dom with
            | none => simp only at h; cases h
            | some k =>
              simp only at h ⊢
              cases k with
              | bool => simp [docValue] at h
              | text => simp only [docValue] at h; cases h; rfl
              | int =>
                simp only [docValue] at h
                cases hp : parseInt? v with
                | none => rw [hp] at h; cases h
                | some i => rw [hp] at h; cases h; rfl

/-! ### the theorems -/

/-- **Member names (and values) are irrelevant to a field's default.**  Replace the member list of every enum by anything
    at all: every field denotes the same thing (name, type, default) and declares the same default.  No well-formedness
    hypothesis. -/
theorem C15Enum_default_ignores_members (s : Spec) (g : EnumEl → List EnumVal) (f0 : FieldEl) :
    denoteField (withMembers s g) f0 = denoteField s f0
    ∧ declaredDefault (withMembers s g) f0 = declaredDefault s f0 := by
  refine ⟨?_, ?_⟩
  · unfold denoteField
    rw [resolveDef_withMembers]
    cases resolveDef s f0 with
    | error e => rfl
    | ok f =>
      simp only
      unfold denoteResolved
      rw [docElemTy_withMembers]
  · unfold declaredDefault
    rw [resolvedF_withMembers, docElemTy_withMembers]

/-- **Generated defaults.**  For every well-formed specification — enums whose member names overlap their values
    included — the generated module imports, and in every record class and every message class the fields are, position by
    position, the specification's `<field>`s under their resolved names with `default_value` = the declared default. -/
theorem C15Enum_defaults_generated (impl : Impl) (app : Str) (override : Bool) (s : Spec) (h : wfSpec impl s = true) :
    ∃ m sch, gen impl app override s = .ok m ∧ evalModule m = .ok sch
      ∧ sch.records.map (fun r => r.fields.map fun f => (f.name, f.dflt))
          = s.records.map (fun r => r.fields.map fun f0 => (resolvedName s f0, declaredDefault s f0))
      ∧ sch.messages.map (fun g => g.fields.map fun f => (f.name, f.dflt))
          = s.messages.map (fun g => g.fields.map fun f0 => (resolvedName s f0, declaredDefault s f0)) := by
  obtain ⟨m, sch, h1, h2, h3⟩ := C15.C15_gen_denotes impl app override s h
  refine ⟨m, sch, h1, h2, ?_⟩
  have hfield : ∀ (fs0 : List FieldEl) (fs : List FieldS), mapE (denoteField s) fs0 = .ok fs →
      fs.map (fun f => (f.name, f.dflt)) = fs0.map (fun f0 => (resolvedName s f0, declaredDefault s f0)) := by
    intro fs0 fs hm
    exact mapE_proj hm (fun a _ b hb => by rw [C15.C15_field_name hb, C15Enum_denoted_default hb])
  unfold denote at h3
  obtain ⟨enums, _, h3⟩ := bind_ok_inv h3
  obtain ⟨recs, hrs, h3⟩ := bind_ok_inv h3
  obtain ⟨msgs, hms, h3⟩ := bind_ok_inv h3
  simp only [pure_eq_ok] at h3
  cases h3
  refine ⟨?_, ?_⟩
  · apply mapE_proj hrs
    intro r _ rs hr
    obtain ⟨fs, hf, hr⟩ := bind_ok_inv hr
    simp only [pure_eq_ok] at hr
    cases hr
    exact hfield _ _ hf
  · apply mapE_proj hms
    intro g _ gs hg
    unfold denoteMessage at hg
    obtain ⟨id, _, hg⟩ := bind_ok_inv hg
    obtain ⟨fs, hf, hg⟩ := bind_ok_inv hg
    obtain ⟨dir, _, hg⟩ := bind_ok_inv hg
    simp only [pure_eq_ok] at hg
    cases hg
    exact hfield _ _ hf

private theorem splitColon_enum (n : Str) : splitColon (kwEnum ++ n) = (cp "enum", some n) := by
  rw [kwEnum_eq, cp_enum]
  simp [splitColon]

/-- **Character enums.**  A field of type `enum:n`, where `n` is an enum of a character datatype, with `default="v"`:
    the declared default is the text `v` itself — whatever the members of `n` are called, in particular when `v` is also
    the name of a member with another value. -/
theorem C15Enum_char_enum_default {s : Spec} {f0 : FieldEl} {n v : Str} {e : EnumEl} {p : Prim}
    (hty : (resolvedF s f0).ty = some (kwEnum ++ n)) (he : findEnum? s n = some e)
    (hp : e.ty = some p.id) (hch : p.isChar = true) (hd : (resolvedF s f0).dflt = some v) :
    declaredDefault s f0 = some (.str v) := by
  have hk : p.kind = .text := by cases p <;> first | rfl | cases hch
  unfold declaredDefault
  rw [hd]
  simp only
  unfold docElemTy
  rw [hty]
  simp only [splitColon_enum, beq_self_eq_true, if_true, he, hp, Option.bind_some, docPrim_id, hk]

/-- **Integer enums.**  The declared default is the number the text spells (a member name is never a number) -/
theorem C15Enum_int_enum_default {s : Spec} {f0 : FieldEl} {n v : Str} {e : EnumEl} {p : Prim}
    (hty : (resolvedF s f0).ty = some (kwEnum ++ n)) (he : findEnum? s n = some e)
    (hp : e.ty = some p.id) (hk : p.kind = .int) (hd : (resolvedF s f0).dflt = some v) :
    declaredDefault s f0 = (parseInt? v).map DVal.int := by
  unfold declaredDefault
  rw [hd]
  simp only
  unfold docElemTy
  rw [hty]
  simp only [splitColon_enum, beq_self_eq_true, if_true, he, hp, Option.bind_some, docPrim_id, hk]

/-- a member name is an identifier, an integer constant is not: for integer enums names and default texts cannot overlap -/
theorem C15Enum_int_const_not_a_name {v : Str} (h : isIntLit v = true) : wfMemberName v = false := by
  cases v with
  | nil => rfl
  | cons c cs =>
    have hc : isIdentStart c = false := by
      unfold isIntLit at h
      split at h
      · rename_i ds heq; cases heq; decide
      · have hd : isDigit c = true := by
          have := isNatLit_digits h
          simp only [List.all_cons, Bool.and_eq_true] at this
          exact this.1
        simp only [isDigit, Bool.and_eq_true, decide_eq_true_eq] at hd
        simp only [isIdentStart, Bool.or_eq_false_iff, Bool.and_eq_false_iff, decide_eq_false_iff_not, beq_eq_false_iff_ne]
        omega
    simp [wfMemberName, isIdent, hc]

/-! ### non-vacuity: overlapping enums are inside `wfSpec`, and the theorems say something on them -/

/-- `N` ↦ `Y`, `Y` ↦ `N`; a member named like its own value; a chain `B` ↦ `C`, `C` ↦ `D`; defaults inline, through a
    field definition and through a renamed one, in a record and in a message; an integer enum next to them -/
def overlap : Spec where
  enums := [
    ⟨cp "Flag", some (cp "char_ascii"), [⟨cp "N", cp "Y"⟩, ⟨cp "Y", cp "N"⟩]⟩,
    ⟨cp "Chain", some (cp "char_iso-8859-1"), [⟨cp "A", cp "A"⟩, ⟨cp "B", cp "C"⟩, ⟨cp "C", cp "D"⟩]⟩,
    ⟨cp "Tier", some (cp "int_2_be"), [⟨cp "Retail", cp "-1"⟩, ⟨cp "Pro", cp "2"⟩]⟩]
  fielddefs := [
    { name := some (cp "flag"), ty := some (cp "enum:Flag"), dflt := some (cp "N") },
    { name := some (cp "tier"), ty := some (cp "enum:Tier"), dflt := some (cp "2") }]
  records := [
    ⟨cp "Leg", [{ name := some (cp "hidden"), ty := some (cp "enum:Flag"), dflt := some (cp "Y") },
                { defn := some (cp "flag") },
                { name := some (cp "level"), defn := some (cp "tier") }]⟩]
  messages := [
    ⟨cp "Order", cp "F", none, some (cp "outgoing"), [
      { name := some (cp "displayed"), ty := some (cp "enum:Flag"), dflt := some (cp "N") },
      { name := some (cp "link"), ty := some (cp "enum:Chain"), dflt := some (cp "B") },
      { name := some (cp "postOnly"), defn := some (cp "flag") },
      { defn := some (cp "tier") },
      { name := some (cp "legs"), ty := some (cp "record:Leg"), array := some (cp "true"), endian := some (cp "big") }]⟩]

example : wfSpec .itch overlap = true ∧ wfSpec .ouch overlap = true ∧ wfSpec .sqf overlap = true := by decide

/-- the right-hand side of `C15Enum_defaults_generated` on that specification, computed: the declared texts -/
example : overlap.records.map (fun r => r.fields.map fun f0 => (resolvedName overlap f0, declaredDefault overlap f0))
      = [[(cp "hidden", some (.str (cp "Y"))), (cp "flag", some (.str (cp "N"))), (cp "level", some (.int 2))]]
    ∧ overlap.messages.map (fun g => g.fields.map fun f0 => (resolvedName overlap f0, declaredDefault overlap f0))
      = [[(cp "displayed", some (.str (cp "N"))), (cp "link", some (.str (cp "B"))), (cp "postOnly", some (.str (cp "N"))),
          (cp "tier", some (.int 2)), (cp "legs", none)]] := by decide

/-- the hypotheses of `C15Enum_char_enum_default` hold for the renamed def-reference `postOnly` -/
example : ∃ e, (resolvedF overlap { name := some (cp "postOnly"), defn := some (cp "flag") }).ty = some (kwEnum ++ cp "Flag")
    ∧ findEnum? overlap (cp "Flag") = some e ∧ e.ty = some Prim.charAscii.id ∧ Prim.charAscii.isChar = true
    ∧ (resolvedF overlap { name := some (cp "postOnly"), defn := some (cp "flag") }).dflt = some (cp "N")
    ∧ e.values.map (·.name) = [cp "N", cp "Y"] ∧ e.values.map (·.value) = [cp "Y", cp "N"] :=
  ⟨_, by decide, rfl, by decide, rfl, by decide, by decide, by decide⟩

/-- `withMembers` really changes the specification (here: the two members swap their values back) and stays well-formed -/
example : withMembers overlap (fun e => e.values.map fun v => ⟨v.name, v.name.take 1⟩) ≠ overlap
    ∧ wfSpec .itch (withMembers overlap (fun e => if e.name = cp "Tier" then e.values else e.values.map fun v => ⟨v.name, v.name⟩)) = true := by
  decide

end NasdaqModel.Props.C15Enum
