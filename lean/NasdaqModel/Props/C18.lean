import NasdaqModel.Lemmas.HeapLemmas
/-
C18 — messages are independent values: no state is shared between instances.

Model: Model/Heap.lean (object heap; cell 0 is the class-level `Array.default_value` list; every cell carries a ghost
owner tag).  The theorems are over ALL schemas, ALL operation histories (any length, any number of instances) and ALL
observation depths `n`.  `view S n H b` is everything instance `b` reads (deep, with defaults); what `b` encodes is a
function of its view (`encodeInst`), so the frame property for views carries over to encodings (`C18_encode_frame_partial`).

The code as it is (`Schema.freshArrayDefault = false`) does NOT satisfy the full statement (Witness/C18.lean proves the
negation on a concrete history): reading a never-assigned array field returns the class-level list, and mutating that list in
place changes every other instance.  For that model the frame theorems carry the explicit hypothesis `safeRun` — no operation
of the history writes into a class-level cell, i.e. no in-place mutation of a value obtained by reading a never-assigned array
field — and are named `…_partial`.

For the repaired `get_field_value` of fixes/C18-shared-array-default.md (`Schema.freshArrayDefault = true`: an unset array
field reads as a new list each time) the same statements hold for EVERY history: `C18_frame`, `C18_encode_frame`,
`C18_observe_pure`.  The harness probes which of the two the library does and tells the model, so the theorem that applies to
the library under test is the one whose hypothesis on the schema the harness' requests satisfy.

FULL STATEMENT for the code as it is (false; see the witness):

  theorem C18_frame_as_is (S : Schema) (ops : List Op) (op : Op) (b n : Nat) (hb : b ≠ op.target (run S init ops)) :
      view S n (run S init (ops ++ [op])) b = view S n (run S init ops) b
-/
namespace NasdaqModel.Props.C18
open NasdaqModel Heap

/-- **C18_inv_reachable.**  Ownership invariant of every reachable state: references never leave their owner (so the
    mutable cells reachable from distinct instances are disjoint and contain no class-level cell other than through an
    unassigned default), every root belongs to its instance, buffers belong to the caller. -/
theorem C18_inv_reachable (S : Schema) (ops : List Op) (hsafe : safeRun S init ops = true) :
    Inv (run S init ops) :=
  run_inv ops init init_inv hsafe

/-! ### the property, over histories -/

/-- **C18_frame_partial.**  For every schema, every history `ops` and every further operation `op` such that no operation
    of the history writes into a class-level cell: what any instance `b` other than the one `op` is about (for `new` /
    `decode`: other than the instance being created) reads — to any depth, through all defaults — is the same before and
    after `op`.  `b` ranges over all instance ids: existing ones, and ids not yet in use (which stay unused). -/
theorem C18_frame_partial (S : Schema) (ops : List Op) (op : Op)
    (hsafe : safeRun S init (ops ++ [op]) = true)
    (b : Nat) (hb : b ≠ op.target (run S init ops)) (n : Nat) :
    view S n (run S init (ops ++ [op])) b = view S n (run S init ops) b := by
  obtain ⟨h1, h2⟩ := safeRun_append ops init op hsafe
  rw [run_append]
  unfold stepK
  cases hs : step S (run S init ops) op with
  | error e => rfl
  | ok H' => exact step_frame (C18_inv_reachable S ops h1) hs h2 hb n

/-- **C18_encode_frame_partial.**  Same for what `b` encodes (bytes or the exception class). -/
theorem C18_encode_frame_partial (S : Schema) (ops : List Op) (op : Op)
    (hsafe : safeRun S init (ops ++ [op]) = true)
    (b : Nat) (hb : b ≠ op.target (run S init ops)) :
    encodeInst S (run S init (ops ++ [op])) b = encodeInst S (run S init ops) b := by
  obtain ⟨h1, h2⟩ := safeRun_append ops init op hsafe
  rw [run_append]
  unfold stepK
  cases hs : step S (run S init ops) op with
  | error e => rfl
  | ok H' => exact step_frame_encode (C18_inv_reachable S ops h1) hs h2 hb

/-- the operations that only observe (or touch a caller's buffer) are about nobody -/
def observes : Op → Bool
  | .read _ _ | .encode _ | .mkbuf _ | .scribble _ => true
  | _ => false

/-- **C18_observe_pure.**  Reading a path, encoding, copying the encoding into a buffer and overwriting a buffer change
    what NO instance reads — including the instance read from / the instances decoded from that buffer.  (No `_partial`:
    these operations never write to a class-level cell, but the history before them must be class-safe.) -/
theorem C18_observe_pure_partial (S : Schema) (ops : List Op) (op : Op) (hobs : observes op = true)
    (hsafe : safeRun S init ops = true) (b : Nat) (n : Nat) :
    view S n (run S init (ops ++ [op])) b = view S n (run S init ops) b := by
  have hi := C18_inv_reachable S ops hsafe
  rw [run_append]
  unfold stepK
  cases hs : step S (run S init ops) op with
  | error e => rfl
  | ok H' =>
    have hcs : classSafe S (run S init ops) op = true := by
      cases op <;> simp [observes] at hobs <;> simp [classSafe, writeOwner]
    obtain ⟨hext, _, _⟩ := step_sound hi hs hcs
    have hextra : H'.insts = (run S init ops).insts := by
      cases op <;> simp [observes] at hobs
      · simp only [step] at hs
        obtain ⟨_, _, hs⟩ := bind_ok hs
        obtain ⟨_, _, hs⟩ := bind_ok hs
        injection hs with hs; subst hs; rfl
      · simp only [step] at hs
        obtain ⟨_, _, hs⟩ := bind_ok hs
        injection hs with hs; subst hs; rfl
      · simp only [step] at hs
        obtain ⟨_, _, hs⟩ := bind_ok hs
        injection hs with hs; subst hs; rfl
      · simp only [step] at hs
        split at hs
        · simp at hs
        · split at hs
          · injection hs with hs; subst hs; rfl
          · simp at hs
    unfold view
    rw [hextra]
    cases hcr : (run S init ops).insts[b]? with
    | none => rfl
    | some cr =>
      simp only
      congr 1
      apply deref_agree S (Mine b) _ _ ?_ hi.closed (hi.refs0 b)
      · obtain ⟨c, hc, ho⟩ := hi.roots b cr hcr
        intro r hr
        simp [Val.refs] at hr; subst hr
        exact ⟨c, hc, Or.inl ho⟩
      · intro a c hc hq
        obtain ⟨c', hc', _, hk⟩ := hext.keep a c hc
        rw [hc', hk]
        intro hp
        cases op <;> simp [observes] at hobs <;> simp only [opOwners] at hp <;>
          first
          | exact hp
          | (rcases hq with h | h <;> rw [h] at hp <;> cases hp)

/-! ### the same, at full strength, for the repaired default -/

/-- **C18_frame.**  With `get_field_value` handing out a list of the caller's own: for every schema, EVERY history and every
    further operation, what any instance other than the one the operation is about reads is unchanged. -/
theorem C18_frame (S : Schema) (hS : S.freshArrayDefault = true) (ops : List Op) (op : Op)
    (b : Nat) (hb : b ≠ op.target (run S init ops)) (n : Nat) :
    view S n (run S init (ops ++ [op])) b = view S n (run S init ops) b :=
  C18_frame_partial S ops op (safeRun_of_fresh hS _ init init_inv) b hb n

/-- **C18_encode_frame.** -/
theorem C18_encode_frame (S : Schema) (hS : S.freshArrayDefault = true) (ops : List Op) (op : Op)
    (b : Nat) (hb : b ≠ op.target (run S init ops)) :
    encodeInst S (run S init (ops ++ [op])) b = encodeInst S (run S init ops) b :=
  C18_encode_frame_partial S ops op (safeRun_of_fresh hS _ init init_inv) b hb

/-- **C18_observe_pure.** -/
theorem C18_observe_pure (S : Schema) (hS : S.freshArrayDefault = true) (ops : List Op) (op : Op)
    (hobs : observes op = true) (b n : Nat) :
    view S n (run S init (ops ++ [op])) b = view S n (run S init ops) b :=
  C18_observe_pure_partial S ops op hobs (safeRun_of_fresh hS _ init init_inv) b n

/-- **C18_inv_always.**  The ownership invariant holds in every reachable state. -/
theorem C18_inv_always (S : Schema) (hS : S.freshArrayDefault = true) (ops : List Op) : Inv (run S init ops) :=
  C18_inv_reachable S ops (safeRun_of_fresh hS _ init init_inv)

/-- **C18_mutation_of_default_is_local.**  In-place mutation of the list obtained by reading a never-assigned array field
    changes what NO instance reads (the list belongs to the caller alone). -/
theorem C18_append_to_default_is_lost (S : Schema) (H : Heap) (a : Nat) (p : List Step) (t : Tree)
    (h : mutTarget S H a p = .ok Option.none) : step S H (.append a p t) = .ok H := by
  simp [step, h]

/-! ### freshness of created / decoded instances -/

/-- what "a new instance shares nothing" means structurally -/
structure FreshInstance (H H' : Heap) : Prop where
  /-- exactly one instance was added, rooted in a new cell -/
  added : ∃ c root, H'.insts = H.insts ++ [(c, root)] ∧ H.cells.length ≤ root
  /-- no existing cell (other instances, class-level defaults, the byte buffer decoded from) was written -/
  old_untouched : ∀ a, a < H.cells.length → H'.cells[a]? = H.cells[a]?
  /-- every cell of the new instance is new -/
  own_cells_new : ∀ (a : Addr) (c : Cell), H'.cells[a]? = some c → c.own = Owner.inst H.insts.length → H.cells.length ≤ a
  /-- and cells reference only cells of their own owner: nothing of the new instance points into another instance, a
      class-level cell or a buffer, and nothing old points into it -/
  closed : Inv H'

private theorem fresh_of_create {H : Heap} (t : Tree) (c : Nat) (root : Addr) (hi : Inv H)
    (hroot : (allocTree (Owner.inst H.insts.length) t H.cells).2 = Val.ref root) :
    FreshInstance H { H with cells := (allocTree (Owner.inst H.insts.length) t H.cells).1,
                             insts := H.insts ++ [(c, root)] } := by
  have hal := allocTree_ok (Owner.inst H.insts.length) t H.cells
  have hcs := create_sound t c root hi hroot
  obtain ⟨e, he, hp⟩ := hal.1
  refine ⟨⟨c, root, rfl, ?_⟩, ?_, ?_, hcs.2⟩
  · obtain ⟨c', hc', ho'⟩ := hal.2 root (by rw [hroot]; simp [Val.refs])
    rcases Nat.lt_or_ge root H.cells.length with hlt | hge
    · exfalso
      rw [he, List.getElem?_append_left hlt] at hc'
      have := hi.bound root c' _ hc' ho'
      exact Nat.lt_irrefl _ this
    · exact hge
  · intro a ha
    simp only
    rw [he, List.getElem?_append_left ha]
  · intro a c' hc' ho'
    rcases Nat.lt_or_ge a H.cells.length with hlt | hge
    · exfalso
      rw [he, List.getElem?_append_left hlt] at hc'
      exact Nat.lt_irrefl _ (hi.bound a c' _ hc' ho')
    · exact hge

/-- **C18_decode_fresh.**  A decoded instance consists of new cells only; decoding writes to no existing cell (so it shares
    no mutable state with other decoded messages, with the buffer it was decoded from, or with class-level defaults), and
    the invariant — references never leave their owner — holds afterwards.  No class-safety hypothesis on the operation
    itself: decoding never writes into a class-level cell. -/
theorem C18_decode_fresh (S : Schema) (H H' : Heap) (c b : Nat) (hi : Inv H)
    (hs : step S H (.decode c b) = .ok H') : FreshInstance H H' := by
  simp only [step] at hs
  split at hs
  · simp at hs
  · split at hs
    · obtain ⟨ct, _, hs⟩ := bind_ok hs
      split at hs
      · rename_i root hroot
        injection hs with hs; subst hs
        exact fresh_of_create ct.2 ct.1 root hi hroot
      · simp at hs
    · simp at hs

/-- **C18_new_fresh.**  The same for `Cls()`. -/
theorem C18_new_fresh (S : Schema) (H H' : Heap) (c : Nat) (hi : Inv H)
    (hs : step S H (.new c) = .ok H') : FreshInstance H H' := by
  simp only [step] at hs
  obtain ⟨t, _, hs⟩ := bind_ok hs
  split at hs
  · rename_i root hroot
    injection hs with hs; subst hs
    exact fresh_of_create t c root hi hroot
  · simp at hs

/-- **C18_copy_confined.**  Assigning to a FIX segment of instance `b` an object READ from instance `a` (a group container
    with nested groups, a scalar, …) writes only to cells of `b` and to new cells tagged `b`; no cell of `a` (or of anybody
    else) is written or becomes reachable from `b`: afterwards every reference still stays inside its owner (`Inv`), so the
    two instances share no address, and by `C18_frame` no later operation about one of them changes the other. -/
theorem C18_copy_confined (S : Schema) (H H' : Heap) (b : Nat) (pb : List Step) (k : Key) (a : Nat) (pa : List Step)
    (hi : Inv H) (hsafe : classSafe S H (.copy b pb k a pa) = true)
    (hs : step S H (.copy b pb k a pa) = .ok H') :
    Ext (· = Owner.inst b) H.cells H'.cells ∧ Inv H' ∧ H'.insts = H.insts := by
  obtain ⟨hext, hinv, hins⟩ := step_sound hi hs hsafe
  refine ⟨hext, hinv, ?_⟩
  rcases hins with h | ⟨cr, _, htgt⟩
  · exact h
  · exfalso
    simp only [Op.target] at htgt
    -- a successful copy resolved a target inside instance `b`, so `b` exists
    simp only [step] at hs
    obtain ⟨ro, hr, hs⟩ := bind_ok hs
    cases ro with
    | none => simp at hs
    | some r =>
      have := (mutTarget_owned hi hr).1
      omega

/-- **C18_clone_fresh.**  A message built from `from_value` copies of another message's segments consists of new cells only. -/
theorem C18_clone_fresh (S : Schema) (H H' : Heap) (a : Nat) (hi : Inv H)
    (hs : step S H (.clone a) = .ok H') : FreshInstance H H' := by
  simp only [step] at hs
  obtain ⟨cr, _, hs⟩ := bind_ok hs
  split at hs
  · obtain ⟨t, _, hs⟩ := bind_ok hs
    split at hs
    · rename_i root hroot
      injection hs with hs; subst hs
      exact fresh_of_create t cr.1 root hi hroot
    · simp at hs
  · simp at hs

/-- **C18_buffer_independent.**  After decoding, overwriting the buffer changes what nobody reads (instance of
    `C18_observe_pure_partial`, stated for the exact scenario of the property). -/
theorem C18_buffer_independent_partial (S : Schema) (ops : List Op) (c buf : Nat)
    (hsafe : safeRun S init ops = true) (b n : Nat) :
    view S n (run S init (ops ++ [Op.decode c buf] ++ [Op.scribble buf])) b
      = view S n (run S init (ops ++ [Op.decode c buf])) b := by
  have : safeRun S init (ops ++ [Op.decode c buf]) = true := by
    have key : ∀ (ops : List Op) (H : Heap), safeRun S H ops = true → safeRun S H (ops ++ [Op.decode c buf]) = true := by
      intro ops
      induction ops with
      | nil => intro H _; simp [safeRun, classSafe, writeOwner]
      | cons o os ih =>
        intro H h
        simp only [List.cons_append, safeRun, Bool.and_eq_true] at h ⊢
        exact ⟨h.1, ih _ h.2⟩
    exact key ops init hsafe
  exact C18_observe_pure_partial S (ops ++ [Op.decode c buf]) (Op.scribble buf) rfl this b n

/-! ### locality: what a view depends on, and where reads can lead -/

/-- **C18_view_local.**  What instance `b` reads is determined by the cells tagged `b` and the class-level cells: two heaps
    that agree on those (and on `b`'s table entry) give `b` the same view. -/
theorem C18_view_local (S : Schema) (H H2 : Heap) (b n : Nat) (hi : Inv H)
    (hroot : H2.insts[b]? = H.insts[b]?)
    (hagree : ∀ (a : Addr) (c : Cell), H.cells[a]? = some c → Mine b c.own → H2.cells[a]? = some c) :
    view S n H2 b = view S n H b := by
  unfold view
  rw [hroot]
  cases hcr : H.insts[b]? with
  | none => rfl
  | some cr =>
    simp only
    congr 1
    apply deref_agree S (Mine b) _ _ hagree hi.closed (hi.refs0 b)
    obtain ⟨c, hc, ho⟩ := hi.roots b cr hcr
    intro r hr
    simp [Val.refs] at hr; subst hr
    exact ⟨c, hc, Or.inl ho⟩

/-- **C18_read_owned.**  Whatever a chain of reads starting at instance `a` returns is a scalar, one of `a`'s own cells, or
    a class-level cell — never a cell of another instance or a buffer.  (The class-level alternative is the defect.) -/
theorem C18_read_owned (S : Schema) (H : Heap) (a : Nat) (cr : Nat × Addr) (p : List Step) (v : Val) (hi : Inv H)
    (ha : H.insts[a]? = some cr) (hr : resolve S H.cells (.ref cr.2) p = .ok v) :
    RefsIn (Mine a) H.cells v.refs := by
  obtain ⟨c0, hc0, ho0⟩ := hi.roots a cr ha
  apply resolve_owned hi.closed (defaultsIn_of_zero (hi.refs0 a)) p _ v ?_ hr
  intro x hx
  simp [Val.refs] at hx; subst hx
  exact ⟨c0, hc0, Or.inl ho0⟩

/-- **C18_read_owned_fresh.**  With the repaired default the class-level alternative disappears: whatever a chain of reads
    starting at instance `a` returns is a scalar, a list of the caller's own, or one of `a`'s own cells. -/
theorem C18_read_owned_fresh (S : Schema) (hS : S.freshArrayDefault = true) (H : Heap) (a : Nat) (cr : Nat × Addr)
    (p : List Step) (v : Val) (hi : Inv H)
    (ha : H.insts[a]? = some cr) (hr : resolve S H.cells (.ref cr.2) p = .ok v) :
    RefsIn (· = Owner.inst a) H.cells v.refs := by
  obtain ⟨c0, hc0, ho0⟩ := hi.roots a cr ha
  apply resolve_owned hi.closed (defaultsIn_of_fresh hS _ _) p _ v ?_ hr
  intro x hx
  simp [Val.refs] at hx; subst hx
  exact ⟨c0, hc0, ho0⟩

/-- **C18_held_reference_frame.**  Any later change of the heap that is confined to cells tagged `a` and to new cells tagged
    `a` — e.g. mutating, at any later time, an object once obtained by reading `a` and found to be `a`'s own by
    `C18_read_owned` — leaves the view of every other instance unchanged. -/
theorem C18_held_reference_frame (S : Schema) (H H2 : Heap) (a b n : Nat) (hi : Inv H) (hab : b ≠ a)
    (hins : H2.insts[b]? = H.insts[b]?)
    (hext : Ext (· = Owner.inst a) H.cells H2.cells) :
    view S n H2 b = view S n H b := by
  apply C18_view_local S H H2 b n hi hins
  intro x c hc hq
  obtain ⟨c', hc', _, hk⟩ := hext.keep x c hc
  rw [hc', hk]
  intro hp
  rcases hq with h | h <;> rw [h] at hp
  · injection hp with hp; exact hab hp
  · cases hp

/-- **C18_class_cell_constant.**  In a class-safe history the class-level list is never written: it stays empty, so a
    never-assigned array field of any instance — existing or created later, of any type — always reads `[]`. -/
theorem C18_class_cell_constant_partial (S : Schema) (ops : List Op) (hsafe : safeRun S init ops = true) :
    (run S init ops).cells[0]? = some ⟨Owner.cls, Body.list []⟩ := by
  have key : ∀ (ops : List Op) (H : Heap), Inv H → safeRun S H ops = true →
      H.cells[0]? = some ⟨Owner.cls, Body.list []⟩ → (run S H ops).cells[0]? = some ⟨Owner.cls, Body.list []⟩ := by
    intro ops
    induction ops with
    | nil => intro H _ _ h; exact h
    | cons op ops ih =>
      intro H hi hs h0
      simp only [safeRun, Bool.and_eq_true] at hs
      apply ih (stepK S H op) (stepK_inv hi hs.1) hs.2
      unfold stepK
      cases hst : step S H op with
      | error e => exact h0
      | ok H' =>
        simp only
        obtain ⟨hext, _, _⟩ := step_sound hi hst hs.1
        obtain ⟨c', hc', _, hk⟩ := hext.keep 0 _ h0
        rw [hc', hk]
        intro hp
        cases op <;> simp only [opOwners] at hp <;> first | exact hp | cases hp
  exact key ops init init_inv hsafe rfl

/-! ### non-vacuity: concrete schemas and histories satisfying the hypotheses, with instances that really differ
(histories are kept short: `decide` evaluates them in the kernel) -/

/-- record 0: a byte with default 5 and a big-endian array; message 65 (class 1): a 2-byte int, an array of bytes,
    a nested record (class 0) and an array of records -/
def exSchema : Schema :=
  ⟨false, [.binRec none [.int ⟨1, false, false⟩ (some 5), .arr (.int ⟨2, true, true⟩) ⟨2, false, true⟩],
    .binRec (some 65) [.int ⟨2, false, false⟩ none, .arr (.int ⟨1, false, false⟩) ⟨2, false, false⟩, .recd 0,
                       .arr (.recd 0) ⟨2, false, false⟩]]⟩

/-- two instances; the first gets a list assigned, the list is mutated in place, a nested record is written through -/
def exOps : List Op :=
  [.new 1, .new 1, .assign 0 [] 1 (.list [.int 1, .int 2]), .append 0 [.fld 1] (.int 3), .assign 0 [.fld 2] 0 (.int 9)]

example : safeRun exSchema init exOps = true := by decide
example : encodeInst exSchema (run exSchema init exOps) 0 = .ok [65, 0, 0, 3, 0, 1, 2, 3, 9, 0, 0, 0, 0] := by decide
example : encodeInst exSchema (run exSchema init exOps) 1 = .ok [65, 0, 0, 0, 0, 5, 0, 0, 0, 0] := by decide

/-- a record appended to an assigned array of records, then changed in place through the list -/
def exOps2 : List Op :=
  [.new 1, .new 1, .assign 1 [] 3 (.list []), .append 1 [.fld 3] (.obj 0 [0, 1] [.int 1, .list [.int (-2)]]),
   .assign 1 [.fld 3, .idx 0] 0 (.int 8)]

example : safeRun exSchema init exOps2 = true := by decide
example : encodeInst exSchema (run exSchema init exOps2) 1 = .ok [65, 0, 0, 0, 0, 5, 0, 0, 1, 0, 8, 0, 1, 255, 254] := by decide
example : encodeInst exSchema (run exSchema init exOps2) 0 = .ok [65, 0, 0, 0, 0, 5, 0, 0, 0, 0] := by decide

/-- encode into a buffer, decode a second instance from it, overwrite the buffer -/
def exOps3 : List Op :=
  [.new 1, .assign 0 [] 1 (.list [.int 1, .int 2]), .mkbuf 0, .decode 1 0, .scribble 0]

example : safeRun exSchema init exOps3 = true := by decide
example : (run exSchema init exOps3).insts.length = 2 := by decide
example : encodeInst exSchema (run exSchema init exOps3) 1 = .ok [65, 0, 0, 2, 0, 1, 2, 5, 0, 0, 0, 0] := by decide

/-- FIX: a group class (0: delimiter 501, string 502), header (1), trailer (2), body (3) with a repeating group 500, message (4) -/
def exFix : Schema :=
  ⟨false, [.fixSeg true [.field 501 .int, .field 502 .str],
    .fixSeg false [.field 8 .str],
    .fixSeg false [.field 10 .int],
    .fixSeg false [.field 55 .str, .group 500 0],
    .fixMsg 1 3 2]⟩

def exFixOps : List Op :=
  [.new 4, .new 4,
   .assign 0 [.fld 1] 500 (.list [.obj 0 [501, 502] [.int 1, .str [65]], .obj 0 [501] [.int 2]]),
   .assign 0 [.fld 1, .fld 500, .idx 1] 502 (.str [66]),
   .append 0 [.fld 1, .fld 500] (.obj 0 [501] [.int 3])]

example : safeRun exFix init exFixOps = true := by decide
example : encodeInst exFix (run exFix init exFixOps) 0
    = .ok [53,48,48,61,51,1, 53,48,49,61,49,1,53,48,50,61,65,1, 53,48,49,61,50,1,53,48,50,61,66,1, 53,48,49,61,51,1] := by decide
example : encodeInst exFix (run exFix init exFixOps) 1 = .ok [1] := by decide

/-- header and body fields set, encoded into a buffer, decoded into a second instance
    (kept to scalar fields: kernel evaluation of the group parser is slow) -/
def exFixOps2 : List Op :=
  [.new 4, .assign 0 [.fld 0] 8 (.str [70]), .assign 0 [.fld 1] 55 (.str [65, 66]), .mkbuf 0, .decode 4 0]

example : safeRun exFix init exFixOps2 = true := by decide
example : encodeInst exFix (run exFix init exFixOps2) 1 = .ok [56,61,70,1, 53,53,61,65,66,1] := by decide

/-- the repaired default: the same message type, appending to the never-assigned array of instance 0 is lost, nobody changes -/
def exFresh : Schema := { exSchema with freshArrayDefault := true }

def exFreshOps : List Op := [.new 1, .new 1, .append 0 [.fld 1] (.int 7), .new 1]

example : exFresh.freshArrayDefault = true := rfl
example : mutTarget exFresh (run exFresh init (exFreshOps.take 2)) 0 [.fld 1] = .ok Option.none := by decide
example : encodeInst exFresh (run exFresh init exFreshOps) 0 = .ok [65, 0, 0, 0, 0, 5, 0, 0, 0, 0] := by decide
example : encodeInst exFresh (run exFresh init exFreshOps) 2 = .ok [65, 0, 0, 0, 0, 5, 0, 0, 0, 0] := by decide
/-- while the model of the code as it is shows the defect on the same history -/
example : encodeInst exSchema (run exSchema init exFreshOps) 2 = .error .other := by decide

/-- FIX with a nested repeating group: group 0 (delimiter 601) inside group 1 (delimiter 701, nested 600); instance 1 gets
    the container READ from instance 0, then the nested group is changed through instance 0 only -/
def exNested : Schema :=
  ⟨true, [.fixSeg true [.field 601 .int],
    .fixSeg true [.field 701 .int, .group 600 0],
    .fixSeg false [.field 8 .str],
    .fixSeg false [.field 10 .int],
    .fixSeg false [.group 700 1],
    .fixMsg 2 4 3]⟩

def exCopyOps : List Op :=
  [.new 5, .new 5,
   .assign 0 [.fld 1] 700 (.list [.obj 1 [701, 600] [.int 1, .list [.obj 0 [601] [.int 5]]]]),
   .copy 1 [.fld 1] 700 0 [.fld 1, .fld 700],
   .assign 0 [.fld 1, .fld 700, .idx 0, .fld 600, .idx 0] 601 (.int 9)]

example : encodeInst exNested (run exNested init (exCopyOps.take 4)) 1
    = .ok [55,48,48,61,49,1, 55,48,49,61,49,1, 54,48,48,61,49,1, 54,48,49,61,53,1] := by decide
example : encodeInst exNested (run exNested init exCopyOps) 1
    = .ok [55,48,48,61,49,1, 55,48,49,61,49,1, 54,48,48,61,49,1, 54,48,49,61,53,1] := by decide
example : encodeInst exNested (run exNested init exCopyOps) 0
    = .ok [55,48,48,61,49,1, 55,48,49,61,49,1, 54,48,48,61,49,1, 54,48,49,61,57,1] := by decide

end NasdaqModel.Props.C18
