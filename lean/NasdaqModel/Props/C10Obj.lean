import NasdaqModel.Props.C10
import NasdaqModel.Model.SeqObj
/-
C10, FIX part, on message OBJECTS: "the k-th message written after the logon carries logon MsgSeqNum + k, with no gap or repeat …, and
a send rejected by validation writes nothing and consumes no number" — for every history in which the application sends the same
message object several times, changes it in place between the sends (valid → invalid → valid, serialisable → not serialisable in any
segment), sends messages obtained from the reader (their headers carry the peer's numbers), sets `Header.MsgSeqNum` itself to anything,
and logs on with an object that went through any of this before.  The number an object's header carries is never read by `send_msg`
(only by `login`, for the logon object, as the statement says); a failed send gives back the number saved before the draw.
-/
namespace NasdaqModel.Props.C10Obj
open NasdaqModel SeqNum NasdaqModel.Props.C10

/-- no `login` among the operations -/
def noObjLogin (ops : List ObjOp) : Bool := ops.all (fun op => !op.isLogin)

/-- the heaps hold the same messages, whatever numbers their headers carry -/
def sameMsgs (h h' : Heap) : Prop := h.map Obj.msg = h'.map Obj.msg

/-! ### `send_msg` on an object is `send_msg` on the value the object is at that moment -/

private theorem objSendR_sess (s : FixSt) (o : Obj) : (objSendR s o).1 = (fixSendR s o.msg.toMsg).1 := by
  unfold objSendR fixSendR
  have hv : o.msg.toMsg.bodyValid = o.msg.bodyValid := rfl
  rw [hv]
  cases o.msg.bodyValid <;> simp
  cases s.next <;> simp
  cases o.msg.toMsg.encodable <;> simp

private theorem objSendR_out (s : FixSt) (o : Obj) : (objSendR s o).2.2 = (fixSendR s o.msg.toMsg).2 := by
  unfold objSendR fixSendR
  have hv : o.msg.toMsg.bodyValid = o.msg.bodyValid := rfl
  rw [hv]
  cases o.msg.bodyValid <;> simp
  cases s.next <;> simp
  cases o.msg.toMsg.encodable <;> simp

private theorem objSendR_msg (s : FixSt) (o : Obj) : (objSendR s o).2.1.msg = o.msg := by
  unfold objSendR
  cases o.msg.bodyValid <;> simp
  cases s.next <;> simp
  cases o.msg.toMsg.encodable <;> simp

private theorem objRunR_cons (st : OSt) (op : ObjOp) (rest : List ObjOp) :
    objRunR st (op :: rest) = objRunR (objStepR st op).1 rest := rfl

private theorem objRunR_append (a b : List ObjOp) : ∀ st, objRunR st (a ++ b) = objRunR (objRunR st a) b := by
  intro st; simp [objRunR, List.foldl_append]

private theorem objValueOps_append (a b : List ObjOp) :
    ∀ st, objValueOps st (a ++ b) = objValueOps st a ++ objValueOps (objRunR st a) b := by
  induction a with
  | nil => intro st; rfl
  | cons op rest ih =>
    intro st
    show _ ++ objValueOps (objStepR st op).1 (rest ++ b) = (_ ++ objValueOps (objStepR st op).1 rest) ++ _
    rw [ih, objRunR_cons, List.append_assoc]

/-- **Object identity is invisible to the session.**  For every heap and every history on objects, the session ends in the state the
    value-level model (`fixRunR`, Props/C10) reaches on the history of the values the objects were when they were sent. -/
theorem C10Obj_session_is_value_run (ops : List ObjOp) :
    ∀ st : OSt, (objRunR st ops).sess = fixRunR st.sess (objValueOps st ops) := by
  induction ops with
  | nil => intro st; rfl
  | cons op rest ih =>
    intro st
    rw [objRunR_cons, ih]
    cases op with
    | send i =>
      simp only [objValueOps, objStepR, objStepWith]
      cases h : st.heap[i]? with
      | none => simp
      | some o =>
        simp only [List.singleton_append]
        show _ = fixRunR (fixStepR st.sess (.send o.msg.toMsg)).1 _
        simp only [fixStepR, objSendR_sess]
    | login i =>
      simp only [objValueOps, objStepR, objStepWith]
      cases h : st.heap[i]? with
      | none => simp
      | some o =>
        simp only [List.singleton_append]
        show _ = fixRunR (fixStepR st.sess (.login (logonSeq o.stamp) o.msg.toMsg)).1 _
        simp only [fixStepR, objSendR_sess]
    | heartbeat m =>
      simp only [objValueOps, objStepR, objStepWith, List.singleton_append]
      show _ = fixRunR (fixStepR st.sess (.heartbeat m.toMsg)).1 _
      simp only [fixStepR, objSendR_sess]
    | mutate i m => simp [objValueOps, objStepR, objStepWith]
    | setStamp i n => simp [objValueOps, objStepR, objStepWith]

private theorem noLogin_valueOps (ops : List ObjOp) (h : noObjLogin ops = true) :
    ∀ st, noLogin (objValueOps st ops) = true := by
  induction ops with
  | nil => intro st; rfl
  | cons op rest ih =>
    intro st
    simp only [noObjLogin, List.all_cons, Bool.and_eq_true] at h
    have hr := ih (by simpa [noObjLogin] using h.2) (objStepR st op).1
    simp only [noLogin] at hr ⊢
    cases op with
    | send i =>
      simp only [objValueOps, List.all_append, Bool.and_eq_true]
      refine ⟨?_, hr⟩
      split <;> simp [FixOp.isLogin]
    | login i => simp [ObjOp.isLogin] at h
    | heartbeat m =>
      simp only [objValueOps, List.all_append, Bool.and_eq_true]
      exact ⟨by simp [FixOp.isLogin], hr⟩
    | mutate i m => simpa [objValueOps] using hr
    | setStamp i n => simpa [objValueOps] using hr

/-- **k-th frame carries logon MsgSeqNum + k**, for every history on objects
    `anything before the logon ++ login(obj i) ++ {sends and re-sends of any object in whatever state it is, in-place changes, numbers set
    on headers by hand or by the reader, heartbeats}`; `o` is the logon object as it is at the moment of the logon, the logon MsgSeqNum is
    the number ITS header carries then. -/
theorem C10Obj_fix_kth (heap : Heap) (pre ops : List ObjOp) (i : Nat) (o : Obj)
    (hpre : noObjLogin pre = true) (hops : noObjLogin ops = true)
    (ho : (objRunR ⟨fixInit, heap⟩ pre).heap[i]? = some o) :
    (∀ k, (hk : k < (objRunR ⟨fixInit, heap⟩ (pre ++ .login i :: ops)).sess.frames.length) →
        (objRunR ⟨fixInit, heap⟩ (pre ++ .login i :: ops)).sess.frames[k] = logonSeq o.stamp + k) ∧
    (objRunR ⟨fixInit, heap⟩ (pre ++ .login i :: ops)).sess.next
      = some (logonSeq o.stamp + (objRunR ⟨fixInit, heap⟩ (pre ++ .login i :: ops)).sess.frames.length) := by
  have e : (objRunR ⟨fixInit, heap⟩ (pre ++ .login i :: ops)).sess
      = fixRunR fixInit (objValueOps ⟨fixInit, heap⟩ pre ++ .login (logonSeq o.stamp) o.msg.toMsg ::
          objValueOps (objStepR (objRunR ⟨fixInit, heap⟩ pre) (.login i)).1 ops) := by
    rw [C10Obj_session_is_value_run, objValueOps_append]
    simp only [objValueOps, ho, List.singleton_append]
  rw [e]
  exact C10_fix_kth_repaired _ _ _ _ (noLogin_valueOps pre hpre _) (noLogin_valueOps ops hops _)

/-- **A send that writes nothing consumes no number** — rejected by validation or not serialisable in any segment, whatever object it
    is and whatever number its header carries. -/
theorem C10Obj_failed_send_consumes_nothing (st : OSt) (i : Nat)
    (h : ∀ n, (objStepR st (.send i)).2 ≠ some (.written n)) : (objStepR st (.send i)).1.sess = st.sess := by
  simp only [objStepR, objStepWith] at h ⊢
  cases ho : st.heap[i]? with
  | none => simp
  | some o =>
    simp only [ho] at h ⊢
    rw [objSendR_sess]
    apply C10_fix_repaired_failed_send_consumes_nothing
    intro n hn
    apply h n
    rw [objSendR_out, hn]

/-- a send rejected by validation touches nothing at all: the session is as before and so is the object (the number its header
    carries from earlier stays where it is and is never looked at) -/
theorem C10Obj_rejected_send_changes_nothing (st : OSt) (i : Nat) (o : Obj)
    (ho : st.heap[i]? = some o) (hv : o.msg.bodyValid = false) :
    objStepR st (.send i) = (st, some .rejected) := by
  simp only [objStepR, objStepWith, ho, objSendR, hv, Bool.not_false, if_true]
  have : st.heap.set i o = st.heap := by
    obtain ⟨hi, rfl⟩ := List.getElem?_eq_some_iff.mp ho
    exact List.set_getElem_self hi
  rw [this]

/-- after a send that was written, the object carries the number of its frame (and the session has moved on by one) -/
theorem C10Obj_written_stamps_object (st : OSt) (i : Nat) (n : Int)
    (h : (objStepR st (.send i)).2 = some (.written n)) :
    ((objStepR st (.send i)).1.heap[i]?).map Obj.stamp = some (some n) ∧ st.sess.next = some n ∧
    (objStepR st (.send i)).1.sess.next = some (n + 1) := by
  simp only [objStepR, objStepWith] at h ⊢
  cases ho : st.heap[i]? with
  | none => simp [ho] at h
  | some o =>
    have hi : i < st.heap.length := (List.getElem?_eq_some_iff.mp ho).1
    simp only [ho] at h ⊢
    simp only [Option.some.injEq] at h
    unfold objSendR at h ⊢
    cases hv : o.msg.bodyValid <;> simp [hv] at h ⊢
    cases hn : st.sess.next <;> simp [hn] at h ⊢
    cases he : o.msg.toMsg.encodable <;> simp [he] at h ⊢
    subst h
    simp [hi]

/-! ### the numbers objects carry are never read by `send_msg` -/

private theorem sameMsgs_get {h h' : Heap} (hm : sameMsgs h h') (i : Nat) :
    (h[i]?).map Obj.msg = (h'[i]?).map Obj.msg := by
  have := congrArg (fun l => l[i]?) hm
  simpa [List.getElem?_map] using this

private theorem sameMsgs_set {h h' : Heap} (hm : sameMsgs h h') (i : Nat) (o o' : Obj) (ho : o.msg = o'.msg) :
    sameMsgs (h.set i o) (h'.set i o') := by
  unfold sameMsgs at hm ⊢
  rw [List.map_set, List.map_set, hm, ho]

private theorem objSendR_sess_msg (s : FixSt) (o o' : Obj) (h : o.msg = o'.msg) :
    (objSendR s o).1 = (objSendR s o').1 ∧ (objSendR s o).2.2 = (objSendR s o').2.2 := by
  rw [objSendR_sess, objSendR_sess, objSendR_out, objSendR_out, h]
  exact ⟨rfl, rfl⟩

private theorem sameMsgs_upd {h h' : Heap} (hm : sameMsgs h h') (i : Nat) (f g : Obj → Obj)
    (hf : ∀ o o' : Obj, o.msg = o'.msg → (f o).msg = (g o').msg) : sameMsgs (updObj h i f) (updObj h' i g) := by
  have hg := sameMsgs_get hm i
  unfold updObj
  cases ho : h[i]? with
  | none =>
    cases ho' : h'[i]? with
    | none => simpa using hm
    | some o' => simp [ho, ho'] at hg
  | some o =>
    cases ho' : h'[i]? with
    | none => simp [ho, ho'] at hg
    | some o' =>
      have : o.msg = o'.msg := by simpa [ho, ho'] using hg
      exact sameMsgs_set hm i _ _ (hf o o' this)

private theorem sameMsgs_upd_self (h : Heap) (i : Nat) (f : Obj → Obj) (hf : ∀ o, (f o).msg = o.msg) :
    sameMsgs (updObj h i f) h := by
  unfold updObj
  cases ho : h[i]? with
  | none => rfl
  | some o =>
    obtain ⟨hi, rfl⟩ := List.getElem?_eq_some_iff.mp ho
    unfold sameMsgs
    rw [List.map_set, hf]
    apply List.ext_getElem?
    intro j
    by_cases hj : i = j
    · subst hj; simp [hi]
    · simp [hj]

private theorem step_ignores_stamps (st st' : OSt) (op : ObjOp) (hs : st.sess = st'.sess) (hm : sameMsgs st.heap st'.heap)
    (hop : op.isLogin = false) :
    (objStepR st op).1.sess = (objStepR st' op).1.sess ∧ sameMsgs (objStepR st op).1.heap (objStepR st' op).1.heap ∧
    (objStepR st op).2 = (objStepR st' op).2 := by
  cases op with
  | login i => simp [ObjOp.isLogin] at hop
  | send i =>
    have hg := sameMsgs_get hm i
    simp only [objStepR, objStepWith]
    cases ho : st.heap[i]? with
    | none =>
      cases ho' : st'.heap[i]? with
      | none => exact ⟨hs, hm, rfl⟩
      | some o' => simp [ho, ho'] at hg
    | some o =>
      cases ho' : st'.heap[i]? with
      | none => simp [ho, ho'] at hg
      | some o' =>
        have e : o.msg = o'.msg := by simpa [ho, ho'] using hg
        have := objSendR_sess_msg st.sess o o' e
        refine ⟨?_, ?_, ?_⟩
        · show (objSendR st.sess o).1 = (objSendR st'.sess o').1
          rw [← hs]; exact this.1
        · show sameMsgs (st.heap.set i (objSendR st.sess o).2.1) (st'.heap.set i (objSendR st'.sess o').2.1)
          exact sameMsgs_set hm i _ _ (by rw [objSendR_msg, objSendR_msg, e])
        · show some (objSendR st.sess o).2.2 = some (objSendR st'.sess o').2.2
          rw [← hs, this.2]
  | heartbeat m =>
    simp only [objStepR, objStepWith]
    refine ⟨by rw [hs], hm, by rw [hs]⟩
  | mutate i m =>
    simp only [objStepR, objStepWith]
    exact ⟨hs, sameMsgs_upd hm i _ _ (fun _ _ _ => rfl), trivial⟩
  | setStamp i n =>
    simp only [objStepR, objStepWith]
    exact ⟨hs, sameMsgs_upd hm i _ _ (fun _ _ h => h), trivial⟩

/-- **The number a message object carries is never read by `send_msg`.**  Two runs of the same history (no logon in it) that start
    from the same session state and from heaps holding the same messages — with ANY numbers on their headers, and whatever numbers the
    history itself sets on them — end in the same session state: same frames written, same counter. -/
theorem C10Obj_session_ignores_stamps (ops : List ObjOp) (hl : noObjLogin ops = true) :
    ∀ st st' : OSt, st.sess = st'.sess → sameMsgs st.heap st'.heap →
      (objRunR st ops).sess = (objRunR st' ops).sess := by
  induction ops with
  | nil => intro st st' hs _; exact hs
  | cons op rest ih =>
    intro st st' hs hm
    simp only [noObjLogin, List.all_cons, Bool.and_eq_true] at hl
    have := step_ignores_stamps st st' op hs hm (by simpa using hl.1)
    rw [objRunR_cons, objRunR_cons]
    exact ih (by simpa [noObjLogin] using hl.2) _ _ this.1 this.2.1

/-- … in particular setting numbers on headers (by hand, or by taking the object from the reader) changes nothing the session does -/
theorem C10Obj_setStamp_invisible (st : OSt) (i : Nat) (n : Option Int) (ops : List ObjOp) (hl : noObjLogin ops = true) :
    (objRunR st (.setStamp i n :: ops)).sess = (objRunR st ops).sess := by
  rw [objRunR_cons]
  apply C10Obj_session_ignores_stamps ops hl
  · rfl
  · exact sameMsgs_upd_self st.heap i _ (fun _ => rfl)

/-! ### non-vacuity -/
example : noObjLogin [.send 1, .mutate 1 ⟨false, true, true, true⟩, .send 1, .setStamp 2 (some 7), .send 2, .heartbeat okMsg,
    .mutate 1 okMsg, .send 1] = true := by decide
-- the logon object was sent (TypeError) and numbered by hand before the logon; objects are re-sent valid, invalid, valid again, with a
-- header that cannot be serialised, with a number set by hand: 41, 42, … with no gap or repeat
example : (objRunR ⟨fixInit, [⟨none, okMsg⟩, ⟨none, okMsg⟩, ⟨some 3, ⟨false, true, true, true⟩⟩]⟩
    ([.send 0, .setStamp 0 (some 41), .send 2] ++ .login 0 ::
     [.send 1, .send 2, .mutate 1 ⟨false, true, true, true⟩, .send 1, .mutate 2 okMsg, .send 2, .mutate 1 ⟨true, false, true, true⟩, .send 1,
      .setStamp 1 (some 41), .mutate 1 okMsg, .heartbeat okMsg, .send 1, .send 0])).sess.frames = [41, 42, 43, 44, 45, 46] := by decide
example : (objRunR ⟨fixInit, witnessResend.1⟩ witnessResend.2).sess.frames = [20, 21, 22, 23] := by decide

end NasdaqModel.Props.C10Obj
