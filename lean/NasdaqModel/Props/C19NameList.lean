import NasdaqModel.Props.C19ByName
import NasdaqModel.Props.C19Classes
/-
C19, the three views agree: whatever `get_msg_cls_by_name` returns for an application is a class `get_msg_classes` lists for
that application, hence (by `C19_classes_iff_lookup`) a class some id of that application resolves to — after ANY program.
A by-name lookup can therefore never hand out a class of another application or a class whose registration was refused.
-/
namespace NasdaqModel.Props.C19NameList
open NasdaqModel Registry NasdaqModel.Props.C19 NasdaqModel.Props.C19Classes

/-- every named class has an id entry in the same application -/
def NamesListed (r : Reg) : Prop :=
  ∀ a n c, (a, n, c) ∈ r.names → ∃ e ∈ r.ids, e.app = a ∧ e.cls = c

private theorem mem_setName (l : List (Nat × Nat × Nat)) (a n c : Nat) (x : Nat × Nat × Nat)
    (hx : x ∈ setName l a n c) : x ∈ l ∨ x = (a, n, c) := by
  induction l with
  | nil => simp [setName] at hx; exact Or.inr hx
  | cons y rest ih =>
    obtain ⟨a', n', c'⟩ := y
    unfold setName at hx
    by_cases h : a' = a ∧ n' = n
    · simp only [h, and_self, if_true, List.mem_cons] at hx
      rcases hx with hx | hx
      · exact Or.inr hx
      · exact Or.inl (List.mem_cons_of_mem _ hx)
    · simp only [h, if_false, List.mem_cons] at hx
      rcases hx with hx | hx
      · exact Or.inl (by rw [hx]; exact List.mem_cons_self)
      · rcases ih hx with h1 | h1
        · exact Or.inl (List.mem_cons_of_mem _ h1)
        · exact Or.inr h1

private theorem step_listed (r : Reg) (d : Decl) (h : NamesListed r) : NamesListed (step r d) := by
  unfold step defineMsg
  cases hr : resolve d with
  | error e => exact h
  | ok t =>
    cases t with
    | none => exact h
    | some ak =>
      obtain ⟨a, k⟩ := ak
      simp only
      unfold register
      cases hl : lookupId r a k with
      | none =>
        simp only
        intro a' n' c' hm
        rcases mem_setName _ _ _ _ _ hm with h1 | h1
        · obtain ⟨e, he, h2⟩ := h a' n' c' h1
          exact ⟨e, List.mem_append_left _ he, h2⟩
        · simp only [Prod.mk.injEq] at h1
          obtain ⟨rfl, rfl, rfl⟩ := h1
          exact ⟨{ app := a', key := k, cls := d.cid }, by simp, rfl, rfl⟩
      | some c =>
        by_cases hc' : c = d.cid
        · have hb : (c != d.cid) = false := by simp [hc']
          simp only [hb]
          intro a' n' c' hm
          rcases mem_setName _ _ _ _ _ hm with h1 | h1
          · exact h a' n' c' h1
          · simp only [Prod.mk.injEq] at h1
            obtain ⟨rfl, rfl, rfl⟩ := h1
            unfold lookupId at hl
            simp only [Option.map_eq_some_iff] at hl
            obtain ⟨e, hf, hcl⟩ := hl
            have hm' := List.mem_of_find?_eq_some hf
            have hp := List.find?_some hf
            simp only [Bool.and_eq_true, beq_iff_eq] at hp
            exact ⟨e, hm', hp.1, by rw [hcl, hc']⟩
        · have hb : (c != d.cid) = true := by simp [hc']
          simp only [hb]
          exact h

/-- the invariant holds in every reachable registry -/
theorem C19_names_listed_inv (ds : List Decl) : NamesListed (run Reg.empty ds) := by
  have : ∀ (ds : List Decl) (r : Reg), NamesListed r → NamesListed (run r ds) := by
    intro ds
    induction ds with
    | nil => intro r h; exact h
    | cons d rest ih => intro r h; exact ih (step r d) (step_listed r d h)
  exact this ds Reg.empty (by intro a n c hm; simp [Reg.empty] at hm)

/-- **By name ⊆ listed.** After any program, a class `get_msg_cls_by_name` returns for application `a` is one
    `get_msg_classes()` of `a` lists. -/
theorem C19_named_is_listed (ds : List Decl) (a n c : Nat) (h : byName (run Reg.empty ds) a n = .ok c) :
    c ∈ classes (run Reg.empty ds) a := by
  unfold byName at h
  split at h
  · rename_i e hf
    simp only [Except.ok.injEq] at h
    have hm := List.mem_of_find?_eq_some hf
    have hp := List.find?_some hf
    simp only [Bool.and_eq_true, beq_iff_eq] at hp
    obtain ⟨ea, en, ec⟩ := e
    simp only at hp h
    obtain ⟨rfl, rfl⟩ := hp
    subst h
    obtain ⟨e', he', h1, h2⟩ := C19_names_listed_inv ds _ _ _ hm
    unfold classes
    simp only [List.mem_map, List.mem_filter, beq_iff_eq]
    exact ⟨e', ⟨he', h1⟩, h2⟩
  · cases h

/-- … hence one an id of `a` resolves to: the by-name view never reaches outside the application's id namespace. -/
theorem C19_named_is_resolvable (ds : List Decl) (a n c : Nat) (h : byName (run Reg.empty ds) a n = .ok c) :
    ∃ k, lookupId (run Reg.empty ds) a k = some c :=
  (C19_classes_iff_lookup ds a c).mp (C19_named_is_listed ds a n c h)

example : byName (run Reg.empty
    [{ cid := 1, name := 7, base := { proto := .itch, app := 5, style := .generated }, ind := some 65, dir := none, appKw := none }]) 5 7 = .ok 1 := by
  decide

end NasdaqModel.Props.C19NameList
