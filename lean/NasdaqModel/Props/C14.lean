import NasdaqModel.Lemmas.PyLemmas
import NasdaqModel.Model.FixFrame
namespace NasdaqModel.Props.C14
open NasdaqModel Py Fix FixFrame

theorem C14_stub : byteSum [] = 0 := rfl

end NasdaqModel.Props.C14
