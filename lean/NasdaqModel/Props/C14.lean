import NasdaqModel.Lemmas.FixFrameLemmas
import NasdaqModel.Props.C13
/-
C14 — every FIX frame a session writes carries correct BodyLength, MsgType and CheckSum, and the library's own reader
frames it back, whatever the segmentation.
Only property theorems (`C14_*`), the predicates they are stated with, and non-vacuity examples live here;
the lemmas are in Lemmas/FixFrameLemmas.lean, the model in Model/FixFrame.lean.
-/
namespace NasdaqModel.Props.C14
open NasdaqModel Py Fix FixFrame

/-
`frame ver d se seq time m = .ok (f, m')` is the model of `FixSession.send_msg`: `f` are the bytes given to
`transport.write`, `m'` the message as mutated by the header stamping (`se` = the comp/sub ids the session took from the
logon message, `seq` = the sequence number drawn, `time` = SendingTime).  Automatic heartbeats go through the same
function with the empty Heartbeat message.
The hypotheses (decidable, defined in Lemmas/FixFrameLemmas.lean and Lemmas/FixLemmas.lean):
  wfVer ver           — no `=` in the session's version string (true of `FIX.4.4` and `FIXT.1.1`, examples below);
  for `C14_decodes_to_sent` additionally: the C13 hypotheses on the dictionary and the stamped message (`wfDef`, `wfMsg`),
  `wfText` of version and type (ASCII, no SOH), `framingEntries d` (header knows 8 string / 9 int / 35 string, trailer
  knows 10 string), and the user did not set 8, 9, 35 or 10 himself.
`fixCut` is the find-logic of `FixMessageReader.deserialize` (a copy local to Model/FixFrame.lean), `feed` applies it after
every arriving segment.
-/

/-- **Shape.** Every frame written is
    `8=<version>SOH 9=<n>SOH 35=<type>SOH <encoded message> 10=<ccc>SOH` where `n` (plain decimal) is exactly the number of
    bytes between the end of the BodyLength field and the start of the CheckSum field, and `ccc` is three decimal digits
    whose value is the sum of all bytes before the CheckSum field modulo 256 — for any message, any header values
    (which change the length of the header and so the number of digits of `n`), both versions. -/
theorem C14_shape (ver : Str) (d : MsgDef) (se : Sess) (seq : Int) (time : Str) (m m' : Msg) (f : Bytes)
    (h : frame ver d se seq time m = .ok (f, m')) :
    ∃ body ck : Bytes, encMsg d m' = .ok body ∧
      f = ([56, 61] ++ ver ++ [1]) ++ ([57, 61] ++ natDigits ([51, 53, 61] ++ d.type ++ 1 :: body).length ++ [1]) ++
            ([51, 53, 61] ++ d.type ++ 1 :: body) ++ ([49, 48, 61] ++ ck ++ [1]) ∧
      ck.length = 3 ∧ (∀ c ∈ ck, isDigit c = true) ∧
      digitsVal ck = byteSum (([56, 61] ++ ver ++ [1]) ++
            ([57, 61] ++ natDigits ([51, 53, 61] ++ d.type ++ 1 :: body).length ++ [1]) ++
            ([51, 53, 61] ++ d.type ++ 1 :: body)) % 256 := by
  obtain ⟨hd, body, _, _, hbody, hprep⟩ := frame_inv h
  obtain ⟨hf, _, _⟩ := prepare_eq hprep
  have hp := pad3 (x := byteSum (summed ver d.type body) % 256) (by omega)
  have hs : summed ver d.type body = ([56, 61] ++ ver ++ [1]) ++
      ([57, 61] ++ natDigits ([51, 53, 61] ++ d.type ++ 1 :: body).length ++ [1]) ++ ([51, 53, 61] ++ d.type ++ 1 :: body) := by
    simp [summed, counted]
  refine ⟨body, rjust0 (natDigits (byteSum (summed ver d.type body) % 256)) 3, hbody, ?_, hp.1, hp.2.1, ?_⟩
  · rw [hf, hs]
  · rw [hp.2.2, hs]

/-- **Read back.** On a buffer that begins with a frame the session wrote (followed by anything: the next frame, a part
    of it, nothing) `FixMessageReader.deserialize` cuts exactly that frame and leaves the rest. -/
theorem C14_read_back (ver : Str) (d : MsgDef) (se : Sess) (seq : Int) (time : Str) (m m' : Msg) (f rest : Bytes)
    (hv : wfVer ver = true) (h : frame ver d se seq time m = .ok (f, m')) :
    fixCut (f ++ rest) = .ok (some (f, rest)) := by
  obtain ⟨_, body, _, _, _, hprep⟩ := frame_inv h
  exact fixCut_frame hprep (wfVer_iff hv) rest

/-- **Nothing early.** While only a proper prefix of the frame has arrived the reader frames nothing and raises nothing. -/
theorem C14_no_early (ver : Str) (d : MsgDef) (se : Sess) (seq : Int) (time : Str) (m m' : Msg) (f p q : Bytes)
    (hv : wfVer ver = true) (h : frame ver d se seq time m = .ok (f, m')) (hpq : f = p ++ q) (hq : q ≠ []) :
    fixCut p = .ok none := by
  obtain ⟨_, body, _, _, _, hprep⟩ := frame_inv h
  exact fixCut_prefix hprep (wfVer_iff hv) p q hpq hq

/-- **Any segmentation.** Feeding the frame to the reader cut into arbitrary pieces (empty ones included), deserialising
    after every piece, frames exactly one message — the frame — and leaves an empty buffer. -/
theorem C14_segmentation (ver : Str) (d : MsgDef) (se : Sess) (seq : Int) (time : Str) (m m' : Msg) (f : Bytes)
    (hv : wfVer ver = true) (h : frame ver d se seq time m = .ok (f, m')) (segs : List Bytes) (hs : segs.flatten = f) :
    feed segs [] [] = .ok ([f], []) := by
  obtain ⟨_, body, _, _, _, hprep⟩ := frame_inv h
  have hne : segs.flatten ≠ [] := by
    rw [hs]; intro hf
    have := frame_length hprep
    rw [hf] at this
    simp at this
  have := feed_frame hprep (wfVer_iff hv) segs [] [] (by simpa using hs) hne
  simpa using this

/-- **Decodes to what was sent.**  `Message.from_bytes` on the frame returns the class of the sent message, consumes the
    whole frame, and yields the sent message (as left by the header stamping; groups in dictionary order) with the four
    framing fields added: `8`, `9`, `35` in front of the header, `10` at the end of the trailer. -/
theorem C14_decodes_to_sent (reg : List MsgDef) (ver : Str) (d : MsgDef) (se : Sess) (seq : Int) (time : Str)
    (m m' : Msg) (f : Bytes)
    (hv : wfVer ver = true) (hvt : wfText ver = true) (hty : wfText d.type = true)
    (hd : wfDef d = true) (he : framingEntries d) (hm' : wfMsg d m' = true)
    (hk : 8 ∉ keysOf m'.hdr ∧ 9 ∉ keysOf m'.hdr ∧ 35 ∉ keysOf m'.hdr ∧ 10 ∉ keysOf m'.trl)
    (hreg : lookupReg reg d.type = some d)
    (h : frame ver d se seq time m = .ok (f, m')) :
    ∃ body, encMsg d m' = .ok body ∧
      decodeMsg reg f = .ok (f.length, d,
        framed ver (counted d.type body).length d.type
          (rjust0 (natDigits (byteSum (summed ver d.type body) % 256)) 3) (canonMsg d m')) := by
  obtain ⟨_, body, _, _, hbody, hprep⟩ := frame_inv h
  refine ⟨body, hbody, ?_⟩
  obtain ⟨hf, hta, hva⟩ := prepare_eq hprep
  have hx : byteSum (summed ver d.type body) % 256 < 1000 := by omega
  have hck : wfText (rjust0 (natDigits (byteSum (summed ver d.type body) % 256)) 3) = true := by
    simp only [wfText, List.all_eq_true, Bool.and_eq_true, decide_eq_true_eq]
    intro c hc
    have := (pad3 hx).2.1 c hc
    simp [isDigit] at this
    omega
  have hcka : (rjust0 (natDigits (byteSum (summed ver d.type body) % 256)) 3).all (· < 128) = true := (wfText_iff hck).1
  have hwf := wfMsg_framed he (counted d.type body).length hvt hty hck hm' hk
  -- the frame is the encoding of the framed message
  obtain ⟨fh, fb, ft, hfh, hfb, hft, hbs⟩ := encMsg_wire hd hm' hbody
  obtain ⟨bs, henc⟩ := C13.C13_encodes d _ hd hwf
  obtain ⟨fh', fb', ft', hfh', hfb', hft', hbs'⟩ := encMsg_wire hd hwf henc
  have e1 := encSegFields_framed_hdr he (counted d.type body).length hva hta hfh
  have e3 := encSegFields_framed_trl he hcka hft
  simp only [framed] at hfh' hfb' hft'
  rw [e1] at hfh'; rw [hfb] at hfb'; rw [e3] at hft'
  injection hfh' with hfh'; injection hfb' with hfb'; injection hft' with hft'
  subst hfh'; subst hfb'; subst hft'
  have hbf : bs = f := by
    rw [hbs', hf, hbs]
    simp [termAll_cons, termAll_append, termAll_nil, summed, counted]
  subst hbf
  -- the first `35=` is the MsgType field
  have hmt : getMsgType bs = .ok d.type := by
    have e : bs = ([56, 61] ++ ver ++ 1 :: ([57, 61] ++ natDigits (counted d.type body).length)) ++ [1] ++ [51, 53, 61] ++
        (d.type ++ 1 :: (body ++ ([49, 48, 61] ++ rjust0 (natDigits (byteSum (summed ver d.type body) % 256)) 3 ++ [1]))) := by
      rw [hf]; simp [summed, counted]
    rw [e]
    refine getMsgType_at _ _ _ ?_ (wfText_iff hty).2 hta
    have hn := noAdj_head ver (by
      intro hm; simp only [wfVer, List.all_eq_true, decide_eq_true_eq] at hv; exact hv 61 hm rfl) (counted d.type body).length
    have e2 : ([56, 61] ++ ver ++ 1 :: ([57, 61] ++ natDigits (counted d.type body).length)) ++ [1]
        = [56, 61] ++ ver ++ 1 :: ([57, 61] ++ natDigits (counted d.type body).length ++ [1]) := by simp
    rw [e2]; exact hn
  rw [C13.C13_roundtrip reg d _ bs hd hwf henc hmt hreg, canonMsg_framed he]

/-! ### non-vacuity: a session dictionary, a message with a repeating group, the frame it is sent as -/

/-- standard header (8, 9, 35, 49, 56, 34, 50, 52), body: Text(58), group 453 { 448 string, 447 char }, trailer: 10 -/
def exDef : MsgDef :=
  { name := [68], type := [68],
    hdr := [.field 8 .string true, .field 9 .int true, .field 35 .string true, .field 49 .string true,
            .field 56 .string true, .field 34 .int true, .field 50 .string false, .field 52 .string true],
    body := [.field 58 .string false, .group 453 [.field 448 .string true, .field 447 .char false] false],
    trl := [.field 10 .string true] }

def exSess : Sess := { senderSub := [], target := [83, 82, 86], sender := [67, 76, 73] }      -- '', 'SRV', 'CLI'
def exTime : Str := [50,48,50,54,48,57,50,57,45,49,50,58,48,48,58,48,48]                     -- 20260929-12:00:00
def exVer : Str := [70, 73, 88, 46, 52, 46, 52]
/-- group instance assigned `447` before `448` -/
def exMsg : Msg :=
  { hdr := [], body := [(453, .grp [[(447, .str [88]), (448, .str [97])], [(448, .str [98])]]), (58, .str [104, 105])],
    trl := [] }

/-- the frame exists, is `8=FIX.4.4|9=80|35=D|50=|56=SRV|49=CLI|34=99|52=20260929-12:00:00|453=2|448=a|447=X|448=b|58=hi|10=014|`
    (102 bytes: BodyLength 80, CheckSum zero-padded), and the stamped message satisfies the hypotheses of `C14_decodes_to_sent` -/
example : (match frame exVer exDef exSess 99 exTime exMsg with
    | .ok (f, m') => wfMsg exDef m' && decide (f.length = 102) && f.take 16 == [56,61,70,73,88,46,52,46,52,1,57,61,56,48,1,51]
        && f.drop 95 == [49,48,61,48,49,52,1]
        && !hasKey m'.hdr 8 && !hasKey m'.hdr 9 && !hasKey m'.hdr 35 && !hasKey m'.trl 10
    | .error _ => false) = true := by decide +kernel
example : framingEntries exDef := ⟨⟨true, rfl⟩, ⟨true, rfl⟩, ⟨true, rfl⟩, ⟨true, rfl⟩⟩
example : wfDef exDef = true ∧ wfText exDef.type = true ∧ wfText exVer = true := by decide
example : lookupReg [exDef] exDef.type = some exDef := rfl
example : wfVer [70, 73, 88, 46, 52, 46, 52] = true := by decide            -- FIX.4.4
example : wfVer [70, 73, 88, 84, 46, 49, 46, 49] = true := by decide        -- FIXT.1.1

end NasdaqModel.Props.C14
