import NasdaqModel.Props.C12
import NasdaqModel.Props.C12Table
import NasdaqModel.Model.SoupVia
import NasdaqModel.Extracted.SoupViaTable
/-
C12 — every decode ENTRY POINT.  The statement's last clause, "decoding never returns a packet of a type other than the one named by the
type character", and its round-trip clause speak about decoding, not about one spelling of it: `from_bytes` is a classmethod that the ten
packet classes inherit, so `LogoutRequest.from_bytes(b)`, `SequencedData.from_bytes(b)` … are decode calls the library offers next to
`SoupMessage.from_bytes(b)`.  `Model/SoupVia.lean` models the entry points (`decodeVia cls b`: dispatch on the type character through
`classByIndicator`, then the selected class's `unpack`, `unpackAs`) and this file proves

  * the receiver is irrelevant: `decodeVia cls b = decode b` for every class and every byte string — so every theorem of `Props/C12.lean`
    about `decode` is a theorem about each of the eleven entry points (kind, round trip, exact payload are restated below);
  * `unpackAs k` only ever builds a packet of class `k` — which is why the dispatch on the type character is what makes the kind clause
    true, and why a receiver-directed ("typed") decode breaks it (`Witness/C12Via.lean`);
  * the complete probe tables of `<Class>.from_bytes` (10 classes x 256 type bytes x lengths) and `<Class>.unpack`, regenerated from the
    live library on every run (`Extracted/SoupViaTable.lean`), agree with the model on EVERY row (`decide +kernel`).
-/
namespace NasdaqModel.Props.C12Via
open NasdaqModel Py Soup

/-- index in harness/extract_c12.py `KINDS` -/
def kindOfIdx : Nat → Option Kind
  | 0 => some .loginReq | 1 => some .loginAcc | 2 => some .loginRej | 3 => some .seqData | 4 => some .unseqData | 5 => some .debug
  | 6 => some .clientHb | 7 => some .serverHb | 8 => some .endOfSession | 9 => some .logoutReq | _ => none

def outcomeOf (r : Except Err Pkt) : Nat :=
  match r with
  | .ok p => C12Table.kindIdx p + (if p.isHeartbeat then 10 else 0) + (if p.isLogout then 20 else 0)
  | .error e => 100 + C12Table.errIdx e

def viaRowOK (r : Nat × Nat × Nat × Nat × Nat) : Bool :=
  match kindOfIdx r.1 with
  | none => false
  | some k => outcomeOf (decodeVia (some k) (C12Table.probeBytes r.2.1 r.2.2.1 r.2.2.2.1)) == r.2.2.2.2

/-- one row of `soupViaByType`: 256 outcome codes, the i-th for type byte i -/
def viaByTypeRowOK (r : Nat × Nat × Nat × List Nat) : Bool :=
  match kindOfIdx r.1 with
  | none => false
  | some k => r.2.2.2.length == 256 &&
      (List.range 256).all (fun t => some (outcomeOf (decodeVia (some k) (C12Table.probeBytes t r.2.1 r.2.2.1))) == r.2.2.2[t]?)

/-- harness/extract_c12.py `unpack_probe` -/
def unpackProbe (t n fill : Nat) : Bytes :=
  if n ≥ 2 then ([(n - 2) / 256 % 256, (n - 2) % 256, t] ++ List.replicate (n - 3) fill).take n else List.replicate n 0

def unpackRowOK (r : Nat × Nat × Nat × Nat × Nat) : Bool :=
  match kindOfIdx r.1 with
  | none => false
  | some k => outcomeOf (unpackAs k (unpackProbe r.2.1 r.2.2.1 r.2.2.2.1)) == r.2.2.2.2

private theorem bind_ok_inv {α β : Type} {x : Except Err α} {f : α → Except Err β} {b : β}
    (h : (x >>= f) = .ok b) : ∃ a, x = .ok a ∧ f a = .ok b := by
  cases x with
  | ok a => exact ⟨a, rfl, by simpa using h⟩
  | error e => simp at h

private theorem classByIndicator_ind (k : Kind) : classByIndicator k.ind = some k := by cases k <;> rfl

private theorem classByIndicator_some {t : Nat} {k : Kind} (h : classByIndicator t = some k) : t = k.ind := by
  unfold classByIndicator at h
  repeat' split at h
  all_goals first | (cases h; subst_vars; rfl) | cases h

private theorem length_of_getElem? {b : Bytes} {t : Nat} (h : b[2]? = some t) : ¬ b.length < 3 := by
  intro hl
  have : b[2]? = none := List.getElem?_eq_none (by omega)
  rw [this] at h; cases h

/-- **The receiver is irrelevant.**  `<Class>.from_bytes` and `SoupMessage.from_bytes` are the same function of the bytes, for every
    class and every byte string. -/
theorem C12Via_entry_point_irrelevant (cls : Option Kind) (b : Bytes) : decodeVia cls b = decode b := by
  unfold decodeVia decode
  cases hb : b[2]? with
  | none => rfl
  | some t =>
    have hl := length_of_getElem? hb
    have hlen : unpackLength b = .ok (lenField b) := by simp only [unpackLength, if_neg hl]
    show (match classByIndicator t with | none => _ | some k => unpackAs k b) = _
    by_cases h76 : t = 76
    · subst h76; rfl
    by_cases h65 : t = 65
    · subst h65; rfl
    by_cases h74 : t = 74
    · subst h74; rfl
    by_cases h83 : t = 83
    · subst h83
      show unpackAs .seqData b = _
      simp only [unpackAs, hlen, ok_bind]; rfl
    by_cases h85 : t = 85
    · subst h85
      show unpackAs .unseqData b = _
      simp only [unpackAs, hlen, ok_bind]; rfl
    by_cases h43 : t = 43
    · subst h43
      show unpackAs .debug b = _
      simp only [unpackAs, hlen, ok_bind]; rfl
    by_cases h82 : t = 82
    · subst h82
      show unpackAs .clientHb b = _
      simp only [unpackAs]; rfl
    by_cases h72 : t = 72
    · subst h72
      show unpackAs .serverHb b = _
      simp only [unpackAs]; rfl
    by_cases h90 : t = 90
    · subst h90
      show unpackAs .endOfSession b = _
      simp only [unpackAs]; rfl
    by_cases h79 : t = 79
    · subst h79
      show unpackAs .logoutReq b = _
      simp only [unpackAs]; rfl
    have hn : classByIndicator t = none := by
      simp only [classByIndicator, if_neg h76, if_neg h65, if_neg h74, if_neg h83, if_neg h85, if_neg h43, if_neg h82, if_neg h72,
        if_neg h90, if_neg h79]
    rw [hn]
    simp only [if_neg h76, if_neg h65, if_neg h74, if_neg h83, if_neg h85, if_neg h43]
    rw [if_neg (by omega)]

/-- every entry point: a successful decode is a packet of the type named by the type character -/
theorem C12Via_kind (cls : Option Kind) (bs : Bytes) (p : Pkt) (h : decodeVia cls bs = .ok p) : bs[2]? = some p.ty := by
  rw [C12Via_entry_point_irrelevant] at h
  exact C12.C12_kind bs p h

/-- every entry point decodes the encoding of a well-formed packet to that packet (in particular: same class, whatever the receiver) -/
theorem C12Via_roundtrip (cls : Option Kind) (p : Pkt) (h : C12.wfPkt p = true) (bs : Bytes) (he : encode p = .ok bs) :
    decodeVia cls bs = .ok p := by
  rw [C12Via_entry_point_irrelevant]
  exact C12.C12_roundtrip p h bs he

/-- `<Class>.unpack` only ever builds an instance of its own class: the type character is honoured by the DISPATCH, not by `unpack` -/
theorem C12Via_unpack_own_class (k : Kind) (b : Bytes) (p : Pkt) (h : unpackAs k b = .ok p) : p.kind = k := by
  cases k <;> simp only [unpackAs] at h
  case loginReq =>
    obtain ⟨_, _, h⟩ := bind_ok_inv h
    obtain ⟨_, _, h⟩ := bind_ok_inv h
    obtain ⟨_, _, h⟩ := bind_ok_inv h
    obtain ⟨_, _, h⟩ := bind_ok_inv h
    obtain ⟨_, _, h⟩ := bind_ok_inv h
    cases h; rfl
  case loginAcc =>
    obtain ⟨_, _, h⟩ := bind_ok_inv h
    obtain ⟨_, _, h⟩ := bind_ok_inv h
    obtain ⟨_, _, h⟩ := bind_ok_inv h
    cases h; rfl
  case loginRej =>
    obtain ⟨_, _, h⟩ := bind_ok_inv h
    obtain ⟨r, _, h⟩ := bind_ok_inv h
    split at h
    · cases h; rfl
    · split at h
      · cases h; rfl
      · cases h
  case seqData => obtain ⟨_, _, h⟩ := bind_ok_inv h; cases h; rfl
  case unseqData => obtain ⟨_, _, h⟩ := bind_ok_inv h; cases h; rfl
  case debug =>
    obtain ⟨_, _, h⟩ := bind_ok_inv h
    split at h
    · obtain ⟨_, _, h⟩ := bind_ok_inv h; cases h; rfl
    · cases h; rfl
  all_goals (split at h <;> cases h; rfl)

/-- **Every row of the probed `<Class>.from_bytes` table** (each of the ten classes x all 256 type bytes x lengths 3 and 4): same packet
    kind with the same flags, or the same exception class, as the running library — and, by `C12Via_kind`, never a foreign kind. -/
theorem C12Via_from_bytes_table_agrees : Extracted.soupViaByType.all viaByTypeRowOK = true := by decide +kernel

/-- … and at the lengths where a login struct fits (5, 33, 49), for every class x every registered type byte -/
theorem C12Via_from_bytes_sizes_agree : Extracted.soupViaTable.all viaRowOK = true := by decide +kernel

/-- **Every row of the probed `<Class>.unpack` table**: `unpackAs` is the library's per-class `unpack` on short, exact-size and over-long
    inputs of every registered (and some unregistered) type byte -/
theorem C12Via_unpack_table_agrees : Extracted.soupUnpackTable.all unpackRowOK = true := by decide +kernel

/-- the `from_bytes` table is the whole domain it claims: each of the ten classes at lengths 3 and 4 (256 type bytes per row) -/
theorem C12Via_table_covers_all_classes :
    (List.range 10).all (fun c => Extracted.soupViaByType.any (fun r => r.1 == c && r.2.1 == 3) &&
                                  Extracted.soupViaByType.any (fun r => r.1 == c && r.2.1 == 4)) = true := by decide +kernel

example : outcomeOf (decodeVia (some .logoutReq) [0, 1, 82]) = 16 := by decide     -- LogoutRequest.from_bytes(b'\x00\x01R') is a ClientHeartbeat
example : outcomeOf (unpackAs .logoutReq [0, 1, 82]) = 29 := by decide              -- LogoutRequest.unpack(b'\x00\x01R') is a LogoutRequest
example : unpackProbe 83 5 49 = [0, 3, 83, 49, 49] := by decide

end NasdaqModel.Props.C12Via
