import NasdaqModel.Model.ParserDecl
import NasdaqModel.Extracted.TypeTable
/-
C02, field declarations: "integers in the declared width, signedness and byte order … arrays as an element count in the declared
2-byte count type followed by the elements".  The `endian` attribute of an array field selects the byte order of the COUNT only
(documentation of the array attribute: "you can control the endian of this length by adding the endian attribute"); the elements
are of the declared DATATYPE, whose layout is the documented table's.  Proved for the model of `parser.py`'s selection, and
checked row by row on what the running parser generates (`Extracted.arrayElemTable`, regenerated on every run: endian attribute
× declaration form × declared element DATATYPE, each element type probed behaviourally).
-/
namespace NasdaqModel.Props.C02Decl
open NasdaqModel BinCodec ParserDecl Spec.Layout

/-- The element type of the generated field is the declared DATATYPE — for every value of `endian` and `array`. -/
theorem C02_decl_elem (d : FieldDecl) : (fieldType d).elem = d.type := by
  unfold fieldType
  cases d.array with
  | none => rfl
  | some a =>
    by_cases h : a = "double"
    · simp [h, TyExpr.elem]
    · simp [h, TyExpr.elem]

/-- Every array level counts its elements in the documented count type of the `endian` attribute. -/
theorem C02_decl_counts (d : FieldDecl) :
    ∀ c ∈ (fieldType d).counts, c = documentedArrayCount (d.endian.getD "") := by
  have hc : arrayCountType d.endian = documentedArrayCount (d.endian.getD "") := by
    unfold arrayCountType documentedArrayCount
    cases d.endian with
    | none => simp
    | some a => simp
  unfold fieldType
  cases d.array with
  | none => simp [TyExpr.counts]
  | some a =>
    by_cases h : a = "double"
    · simp [h, TyExpr.counts, hc]
    · simp [h, TyExpr.counts, hc]

/-- Two declarations that differ in the `endian` attribute only generate the same element type. -/
theorem C02_decl_endian_irrelevant (t : String) (a : Option String) (e e' : Option String) :
    (fieldType ⟨t, a, e⟩).elem = (fieldType ⟨t, a, e'⟩).elem := by
  rw [C02_decl_elem, C02_decl_elem]

set_option maxRecDepth 100000 in
/-- …and that is what the running parser does: every probed row (endian attribute × declaration form × declared DATATYPE id)
    generated an element type that behaves as the documented table says for the DECLARED id. -/
theorem C02_array_elem_extracted :
    ∀ row ∈ Extracted.arrayElemTable, documentedTable.lookup row.2.2.1 = some row.2.2.2 := by decide

set_option maxRecDepth 100000 in
/-- the probe covers every documented id, for each endian attribute (rows are not vacuous) -/
theorem C02_array_elem_rows_cover :
    ∀ a ∈ ["big", "little", "none"], ∀ r ∈ documentedTable,
      (Extracted.arrayElemTable.any fun row => row.1 == a && row.2.2.1 == r.1) = true := by decide

/-! ### non-vacuity -/
example : fieldType ⟨"int_4", some "true", some "big"⟩ = .array (.prim "int_4") "uint_2_be" := by decide
example : fieldType ⟨"int_4", some "double", none⟩ = .array (.array (.prim "int_4") "uint_2") "uint_2" := by decide
set_option maxRecDepth 100000 in
example : Extracted.arrayElemTable.length = 576 := by decide

end NasdaqModel.Props.C02Decl
