import NasdaqModel.Props.C04App
import NasdaqModel.Lemmas.AppSessionHead
import NasdaqModel.Witness.C05App
/-
C04, application sessions — the second dispatcher delivers the head of the second queue and leaves the rest as it is, **for
every behaviour of the message callback**, the one that closes the session at once included.

`Props/C04App.lean` `C04App_dispatch_delivers_head` states "the rest of the queue stays as it is" only for callbacks that do not
close the session at once: since /repo 4b4f253 such a callback carries out `soup_session.close()` within the very step of the
second dispatcher that entered it (`Model/AppSession.lean` `closeOnD2`): the inner event `callClose d2u` and, if the close body
does not suspend, `_on_soup_close` and the closer's inner step out of the callback stage.  The missing fact is that none of these
inner steps enters an inner message callback (`Lemmas/AppSessionHead.lean`: `callClose` runs the close body only; once the inner
queue is stopped no step enters a message callback), so `_on_soup_message` is not run and nothing is put on the second queue.
The only extra hypothesis is that the soup session beneath is a legal one (`IReachable`: reached by an inner event sequence —
true of every reachable product state, `C04App_inner_reachable`); without it the statement is false: a made-up inner state
"in the callback stage, closer = the inner dispatcher, queue not stopped" would let the closer's step deliver an inner message.
-/
namespace NasdaqModel.Props.C04AppHead
open NasdaqModel App C04App

/-- the step of the second dispatcher that takes `v` off the queue, whatever the callback does -/
private theorem step_eq (a : ACfg) (s : St) (v : Nat) (q : List Nat)
    (hD : s.astatus .D2 = .ready) (hp : s.aprog .D2 = .dispLoop) (hq : s.q2Closed = false) (hb : s.rcv2Busy = false)
    (hv : s.vres2 = none) (hqu : s.q2 = v :: q) :
    step a s (.run .D2) = dispHandle2 a
      (({ s with imm2 := false, q2 := q, gone2 := s.gone2 ++ [(v, true)] } : St).emit2 (.msgEnter v)) v := by
  simp [step, runnable2, hD, stepRun2, hp, stepDisp2, hq, hb, hv, hqu]

/-- **The rest of the queue stays as it is, whatever the message callback does** (over a legal soup session). -/
theorem C04AppHead_dispatch_keeps_rest (a : ACfg) (s : St) (v : Nat) (q : List Nat)
    (hD : s.astatus .D2 = .ready) (hp : s.aprog .D2 = .dispLoop) (hq : s.q2Closed = false) (hb : s.rcv2Busy = false)
    (hv : s.vres2 = none) (hqu : s.q2 = v :: q) (hr : IReachable a s.inner) :
    (step a s (.run .D2)).q2 = q := by
  rw [step_eq a s v q hD hp hq hb hv hqu]
  exact dispHandle2_q2
    (s := ({ s with imm2 := false, q2 := q, gone2 := s.gone2 ++ [(v, true)] } : St).emit2 (.msgEnter v)) hr v

/-- **The missing case of `C04App_dispatch_delivers_head`: a callback that closes the session at once.** The close of the soup
    session that the callback carries out within this very step hands no further message to the second queue: after the step
    the queue is exactly the rest. -/
theorem C04AppHead_closing_callback_keeps_rest (a : ACfg) (s : St) (v : Nat) (q : List Nat)
    (hD : s.astatus .D2 = .ready) (hp : s.aprog .D2 = .dispLoop) (hq : s.q2Closed = false) (hb : s.rcv2Busy = false)
    (hv : s.vres2 = none) (hqu : s.q2 = v :: q) (hr : IReachable a s.inner) (_hc : a.msgBeh v = .close) :
    (step a s (.run .D2)).q2 = q :=
  C04AppHead_dispatch_keeps_rest a s v q hD hp hq hb hv hqu hr

/-- **The second dispatcher delivers the head of the second queue — every callback behaviour**: a step of `D2` on a non-stopped
    application queue with `v` at its head enters the application message callback for `v` and for no other value, and the
    rest of the queue stays as it is. -/
theorem C04AppHead_dispatch_delivers_head_all (a : ACfg) (s : St) (v : Nat) (q : List Nat)
    (hD : s.astatus .D2 = .ready) (hp : s.aprog .D2 = .dispLoop) (hq : s.q2Closed = false) (hb : s.rcv2Busy = false)
    (hv : s.vres2 = none) (hqu : s.q2 = v :: q) (hi : InvF a s) (hr : IReachable a s.inner) :
    appDelivered (step a s (.run .D2)).trace2 = appDelivered s.trace2 ++ [v] ∧
    (step a s (.run .D2)).q2 = q :=
  ⟨(C04App_dispatch_delivers_head a s v q hD hp hq hb hv hqu hi).1,
   C04AppHead_dispatch_keeps_rest a s v q hD hp hq hb hv hqu hr⟩

/-- the same in every reachable state of the product machine: no invariant is left as a hypothesis -/
theorem C04AppHead_dispatch_delivers_head_reach (a : ACfg) (evs : List Ev) (v : Nat) (q : List Nat)
    (hD : (reach a evs).astatus .D2 = .ready) (hp : (reach a evs).aprog .D2 = .dispLoop)
    (hq : (reach a evs).q2Closed = false) (hb : (reach a evs).rcv2Busy = false)
    (hv : (reach a evs).vres2 = none) (hqu : (reach a evs).q2 = v :: q) :
    appDelivered (reach a (evs ++ [.run .D2])).trace2 = appDelivered (reach a evs).trace2 ++ [v] ∧
    (reach a (evs ++ [.run .D2])).q2 = q := by
  rw [reach_snoc]
  exact C04AppHead_dispatch_delivers_head_all a (reach a evs) v q hD hp hq hb hv hqu (runEvs_InvF a evs)
    (runEvs_InvL a evs).reach

/-! ### non-vacuity: the recorded close-from-handler history (`Witness.C05App.historyA`) -/

open Witness.C05App in
set_option maxRecDepth 100000 in
/-- step 16 of `historyA` is the dispatch of `3`, whose callback awaits `app.close()`: the hypotheses hold before it (queue
    `[3, 4]`), the callback does close, the close is carried out in that step (`D2` is `inSoup` after it) and the queue is `[4]` -/
example :
    (reach cfgA (historyA.take 15)).astatus .D2 = .ready ∧ (reach cfgA (historyA.take 15)).aprog .D2 = .dispLoop ∧
    (reach cfgA (historyA.take 15)).q2Closed = false ∧ (reach cfgA (historyA.take 15)).rcv2Busy = false ∧
    (reach cfgA (historyA.take 15)).vres2 = none ∧ (reach cfgA (historyA.take 15)).q2 = [3, 4] ∧
    cfgA.msgBeh 3 = .close ∧ historyA.take 16 = historyA.take 15 ++ [.run .D2] ∧
    (reach cfgA (historyA.take 16)).astatus .D2 = .inSoup ∧ (reach cfgA (historyA.take 16)).inner.closed = true ∧
    (reach cfgA (historyA.take 16)).q2 = [4] ∧
    appDelivered (reach cfgA (historyA.take 16)).trace2 = [3] := by decide

open Witness.C05App in
set_option maxRecDepth 100000 in
/-- the theorem applied to it -/
example : appDelivered (reach cfgA (historyA.take 15 ++ [.run .D2])).trace2
      = appDelivered (reach cfgA (historyA.take 15)).trace2 ++ [3] ∧
    (reach cfgA (historyA.take 15 ++ [.run .D2])).q2 = [4] :=
  C04AppHead_dispatch_delivers_head_reach cfgA (historyA.take 15) 3 [4] (by decide) (by decide) (by decide) (by decide)
    (by decide) (by decide)

end NasdaqModel.Props.C04AppHead
