import NasdaqModel.Lemmas.GenSoupAppLemmas
/-
C15 — code generated from an ITCH/OUCH/SQF XML specification implements exactly that specification.

Model: `Model/GenSoupApp.lean` (`gen` = parser.py + the mustache templates + the `generate` entry points, at the level of
abstract generated code; `evalModule` = importing that code; `denote` = the reference semantics written from the documented
XML format).  Only property theorems and their non-vacuity examples live here; the proof is in
`Lemmas/GenSoupAppLemmas.lean`.  The specifications that were counterexamples before the repairs of the generator are
kept as computed regressions in `Witness/C15.lean`.
-/
namespace NasdaqModel.Props.C15
open NasdaqModel GenSoupApp

/-- **Main theorem.**  For every well-formed specification, for each of the three protocols, any application name and
    either setting of `--override-messages`: the generator succeeds, the module it writes imports, and what the import
    defines — `__all__`, the enum classes with their members and values, the record classes, the message classes with
    message id, direction, and for every class the fields in order with their types (datatype class, fixed length,
    record class, array element and count type) and defaults — is exactly the schema the specification denotes. -/
theorem C15_gen_denotes (impl : Impl) (app : Str) (override : Bool) (s : Spec) (h : wfSpec impl s = true) :
    ∃ m sch, gen impl app override s = .ok m ∧ evalModule m = .ok sch ∧ denote impl s = .ok sch :=
  ⟨_, _, gen_eval_denote app override h⟩

/-- the same as one equation between the two pipelines (and the reference semantics is defined on the specification) -/
theorem C15_gen_denotes_eq (impl : Impl) (app : Str) (override : Bool) (s : Spec) (h : wfSpec impl s = true) :
    (gen impl app override s >>= evalModule) = denote impl s ∧ ∃ sch, denote impl s = .ok sch := by
  obtain ⟨h1, h2, h3⟩ := gen_eval_denote app override h
  rw [h1, h3]
  exact ⟨h2, _, rfl⟩

/-- the generated module does not depend on `--override-messages` or on anything but the specification, the protocol
    and the application name (for well-formed specifications) -/
theorem C15_override_irrelevant (impl : Impl) (app : Str) (s : Spec) (h : wfSpec impl s = true) :
    gen impl app true s = gen impl app false s := by
  rw [(gen_eval_denote app true h).1, (gen_eval_denote app false h).1]

/-! ### what the denoted (hence the generated) schema contains — the clauses of the statement, read off `denote` -/

/-- "exports one class per enum, record and message": `__all__` is the three fixed names followed by every enum, record
    and message name in document order, and the classes are exactly those, in that order -/
theorem C15_one_class_each (impl : Impl) (app : Str) (override : Bool) (s : Spec) (h : wfSpec impl s = true) :
    ∃ m sch, gen impl app override s = .ok m ∧ evalModule m = .ok sch
      ∧ sch.exports = [cp "Message", cp "ClientSession", cp "connect_async"] ++ classNames s
      ∧ sch.enums.map (·.name) = s.enums.map (·.name)
      ∧ sch.records.map (·.name) = s.records.map (·.name)
      ∧ sch.messages.map (·.name) = s.messages.map (·.name) := by
  obtain ⟨h1, h2, _⟩ := gen_eval_denote app override h
  have hw := wfSpec_inv h
  refine ⟨_, _, h1, h2, ?_, ?_, ?_, ?_⟩
  · simp [specSchema, classNames, List.append_assoc]
  · simp only [specSchema, List.map_map]
    exact List.map_congr_left (fun e he => (enum_facts hw he).2.2.1)
  · simp [specSchema, List.map_map, Function.comp_def, recSem]
  · simp [specSchema, List.map_map, Function.comp_def, msgSem]

/-- the name a field denotes is the `name` attribute, or the name of the referenced definition when there is none -/
theorem C15_field_name {s : Spec} {f0 : FieldEl} {fs : FieldS} (h : denoteField s f0 = .ok fs) :
    fs.name = resolvedName s f0 := by
  unfold denoteField at h
  unfold resolvedName
  cases hr : resolveDef s f0 with
  | error e => rw [hr] at h; cases h
  | ok f =>
    rw [hr] at h
    simp only at h
    unfold denoteResolved at h
    cases hd : docElemTy s f with
    | error e => rw [hd] at h; cases h
    | ok td =>
      obtain ⟨t, dom⟩ := td
      rw [hd] at h
      simp only at h
      cases hn : f.name with
      | none => rw [hn] at h; cases h
      | some name =>
        rw [hn] at h
        simp only [hn, orEmpty]
        simp only at h
        split at h
        · split at h
          · cases h
          · cases h; rfl
        · split at h
          · cases h; rfl
          · split at h
            · cases h
            · cases h; rfl
          · cases h

/-- "each message class has exactly the specified fields in the specified order … message id and direction":
    the k-th generated message class has the k-th message's name, its id as a number (a one-character id is its code
    point), its direction (OUCH, SQF), and its fields are the message's `<field>`s in document order under their
    resolved names -/
theorem C15_messages_as_specified (impl : Impl) (app : Str) (override : Bool) (s : Spec) (h : wfSpec impl s = true) :
    ∃ m sch, gen impl app override s = .ok m ∧ evalModule m = .ok sch
      ∧ sch.messages.map (fun g => (g.name, g.id, g.dir, g.fields.map (·.name)))
        = s.messages.map (fun g => (g.name, msgIdVal g, (if impl = .itch then none else g.direction),
                                     g.fields.map (resolvedName s)))
      ∧ ∀ g ∈ s.messages, denoteMsgId g.msgId = .ok (msgIdVal g) ∧ msgIdVal g < 256 := by
  obtain ⟨h1, h2, _⟩ := gen_eval_denote app override h
  have hw := wfSpec_inv h
  refine ⟨_, _, h1, h2, ?_, ?_⟩
  · simp only [specSchema, List.map_map]
    apply List.map_congr_left
    intro g hg
    have hwg := hw.msgs g hg
    have hwg' := hwg
    simp only [wfMessage, Bool.and_eq_true, wfFields] at hwg'
    obtain ⟨⟨_, hdir⟩, hfields, _⟩ := hwg'
    obtain ⟨_, _, d3⟩ := direction_facts hdir
    have hnames : (g.fields.map (fieldSem s)).map (·.name) = g.fields.map (resolvedName s) := by
      rw [List.map_map]
      apply List.map_congr_left
      intro f0 hf0
      have hwf := List.all_eq_true.mp hfields f0 hf0
      -- the denotation of a well-formed field exists (main theorem, field level)
      have hseen : ∀ n ∈ s.records.map (·.name), ∃ r, findRecord? s n = some r := by
        intro n hn
        obtain ⟨r, hr, rfl⟩ := List.mem_map.mp hn
        exact findRecord?_of_mem hr
      -- any namespace in which the record names are bound will do; use the one the import reaches
      obtain ⟨env1, _, henv1⟩ := enums_ok hw s.enums [] (initEnv impl) (fun _ hx => hx) (EnvOk.initial impl)
      have henv1' : EnvOk impl (s.enums.map (·.name)) [] env1 := henv1.mono (fun n hn => by simpa using hn) (fun _ hn => hn)
      obtain ⟨env2, _, henv2, _⟩ := records_ok hw s.records [] env1 (fun _ hx => hx) (fun _ hn => by cases hn) henv1' hw.recs
      have henv2' : EnvOk impl (s.enums.map (·.name)) (s.records.map (·.name)) env2 :=
        henv2.mono (fun _ hn => hn) (fun n hn => by simpa using hn)
      obtain ⟨_, sem, _, _, _, _, h5⟩ := field_ok henv2' hseen hwf
      have : fieldSem s f0 = sem := getOk_eq h5
      simp only [Function.comp_apply, this]
      exact C15_field_name h5
    simp only [Function.comp_apply, msgSem, hnames]
    cases impl <;> simp [d3.symm]
  · intro g hg
    obtain ⟨n, hid, hlt⟩ := wfMessage_id (hw.msgs g hg)
    simp only [msgIdVal, hid]
    exact ⟨trivial, hlt⟩

/-- "Enum members … encode as their underlying value": in the generated module the value of every member of a character
    enum is the one-character text written in the `<value>` element (no escaping, no quoting artefacts), member names and
    order as in the document -/
theorem C15_char_enum_values (impl : Impl) (app : Str) (override : Bool) (s : Spec) (h : wfSpec impl s = true) :
    ∃ m sch, gen impl app override s = .ok m ∧ evalModule m = .ok sch
      ∧ sch.enums.length = s.enums.length
      ∧ ∀ e ∈ s.enums, ∀ p : Prim, e.ty = some p.id → p.isChar = true →
          (⟨e.name, e.values.map fun v => (v.name, DVal.str v.value)⟩ : EnumS) ∈ sch.enums
            ∧ ∀ v ∈ e.values, v.value.length = 1 := by
  obtain ⟨h1, h2, _⟩ := gen_eval_denote app override h
  have hw := wfSpec_inv h
  refine ⟨_, _, h1, h2, by simp [specSchema], ?_⟩
  intro e he p hty hch
  have hk : p.kind = .text := by cases p <;> first | rfl | cases hch
  have hden : denoteEnum e = .ok ⟨e.name, e.values.map fun v => (v.name, DVal.str v.value)⟩ := by
    have hm : mapE (fun (v : EnumVal) => do
          let d ← docValue p.kind v.value
          pure (v.name, d)) e.values = .ok (e.values.map fun v => (v.name, DVal.str v.value)) := by
      apply mapE_ok
      intro v _
      rw [hk]
      rfl
    unfold denoteEnum
    rw [hty]
    simp only [Option.bind_some, docPrim_id]
    rw [hm]
    rfl
  have hsem : enumSem e = ⟨e.name, e.values.map fun v => (v.name, DVal.str v.value)⟩ := getOk_eq hden
  refine ⟨?_, ?_⟩
  · rw [← hsem]
    exact List.mem_map.mpr ⟨e, he, rfl⟩
  · intro v hv
    have hwe := hw.enums e he
    unfold wfEnum at hwe
    rw [hty] at hwe
    simp only [Option.bind_some, docPrim_id, Bool.and_eq_true, List.all_eq_true] at hwe
    have := (hwe.1.2 v hv).2
    rw [hk, hch] at this
    simp only [wfConst, Bool.not_true, Bool.false_or, Bool.and_eq_true, beq_iff_eq] at this
    exact this.2

/-- "unset fields encode their declared default": the default a field denotes — hence, by `C15_gen_denotes`, the
    `default_value` of the generated `Field` — is the `default` attribute read in the field's datatype: the text itself for
    character and string types, the integer it spells for integer types; no attribute, no default -/
theorem C15_default_as_declared {s : Spec} {f0 : FieldEl} {fs : FieldS} (h : denoteField s f0 = .ok fs) :
    match (resolvedF s f0).dflt with
    | none => fs.dflt = none
    | some v => fs.dflt = some (.str v) ∨ ∃ i, parseInt? v = some i ∧ fs.dflt = some (.int i) := by
  unfold denoteField at h
  unfold resolvedF
  cases hr : resolveDef s f0 with
  | error e => rw [hr] at h; cases h
  | ok f =>
    rw [hr] at h
    simp only at h ⊢
    unfold denoteResolved at h
    cases hd : docElemTy s f with
    | error e => rw [hd] at h; cases h
    | ok td =>
      obtain ⟨t, dom⟩ := td
      rw [hd] at h
      simp only at h
      cases hn : f.name with
      | none => rw [hn] at h; cases h
      | some name =>
        rw [hn] at h
        simp only at h
        cases harr : f.array with
        | some a =>
          rw [harr] at h
          cases hdf : f.dflt with
          | none => rw [hdf] at h; simp only at h ⊢; cases h; rfl
          | some v => rw [hdf] at h; simp only at h; cases h
        | none =>
          rw [harr] at h
          cases hdf : f.dflt with
          | none => rw [hdf] at h; simp only at h ⊢; cases h; rfl
          | some v =>
            rw [hdf] at h
            cases dom with
            | none => simp only at h; cases h
            | some k =>
              simp only at h ⊢
              cases k with
              | bool => simp [docValue] at h
              | text => simp only [docValue] at h; cases h; exact Or.inl rfl
              | int =>
                simp only [docValue] at h
                cases hp : parseInt? v with
                | none => rw [hp] at h; cases h
                | some i => rw [hp] at h; cases h; exact Or.inr ⟨i, rfl, rfl⟩

/-- "big/little-endian array counts": the count class the generator writes is `UnsignedShortBE` exactly for
    `endian="big"`, and `UnsignedShort` for every other or no `endian` attribute -/
theorem C15_array_count (e : Option Str) :
    countCls e = (if e = some (cp "big") then Prim.uint2be.cls else Prim.uint2.cls)
    ∧ Prim.uint2be.id = cp "uint_2_be" ∧ Prim.uint2.id = cp "uint_2" := by
  refine ⟨?_, rfl, rfl⟩
  unfold countCls
  by_cases h : e = some (cp "big") <;> simp [h]

/-- the datatype table the generator uses (`TypeDefinition.Definitions`: id ↦ class name) covers exactly the documented
    ids, and every id resolves to its own class -/
theorem C15_table :
    typeDefs.map (·.1) = [cp "boolean", cp "byte", cp "int_2", cp "int_2_be", cp "uint_2", cp "uint_2_be", cp "int_4",
      cp "int_4_be", cp "uint_4", cp "uint_4_be", cp "int_8", cp "int_8_be", cp "uint_8", cp "uint_8_be", cp "char_ascii",
      cp "char_iso-8859-1", cp "str_ascii", cp "str_iso-8859-1", cp "str_ascii_n", cp "str_iso-8859-1_n"]
    ∧ (∀ p : Prim, typeDef (some p.id) = .ok (.prim p) ∧ docPrim p.id = some p)
    ∧ (∀ iso : Bool, typeDef (some (fixedId iso)) = .ok (.fixed iso) ∧ docFixed (fixedId iso) = some iso) := by
  refine ⟨by decide, fun p => ⟨typeDef_prim p, docPrim_id p⟩, fun iso => ⟨typeDef_fixed iso, ?_⟩⟩
  cases iso <;> decide

/-! ### non-vacuity: a specification that uses every construct is well-formed, for each protocol -/

/-- enums of a character and of an integer type; reusable field definitions; a record that uses an earlier record;
    messages with scalar, enum, record, array (big-endian, little-endian, of records, of enums) and fixed-length string
    fields, `def=` references with and without rename, defaults (integer, character enum, string, fixed string), a numeric
    and a character message id -/
def demo : Spec where
  enums := [
    ⟨cp "Side", some (cp "char_iso-8859-1"), [⟨cp "Buy", cp "B"⟩, ⟨cp "Sell", cp "S"⟩]⟩,
    ⟨cp "Tif", some (cp "uint_2_be"), [⟨cp "Day", cp "0"⟩, ⟨cp "Ioc", cp "3"⟩]⟩]
  fielddefs := [
    { name := some (cp "price"), ty := some (cp "int_8_be"), dflt := some (cp "-1") },
    { name := some (cp "account"), ty := some (cp "str_iso-8859-1_n"), length := some (cp "16"), dflt := some (cp "ACC 1") }]
  records := [
    ⟨cp "Leg", [{ defn := some (cp "price") }, { name := some (cp "side"), ty := some (cp "enum:Side"), dflt := some (cp "B") }]⟩,
    ⟨cp "Strategy", [{ name := some (cp "legs"), ty := some (cp "record:Leg"), array := some (cp "true"), endian := some (cp "big") },
                     { name := some (cp "first"), ty := some (cp "record:Leg") }]⟩]
  messages := [
    ⟨cp "EnterOrder", cp "69", none, some (cp "incoming"), [
      { name := some (cp "token"), ty := some (cp "uint_4") },
      { name := some (cp "limit"), defn := some (cp "price") },
      { defn := some (cp "account") },
      { name := some (cp "tif"), ty := some (cp "enum:Tif"), dflt := some (cp "3") },
      { name := some (cp "sides"), ty := some (cp "enum:Side"), array := some (cp "true") },
      { name := some (cp "strategy"), ty := some (cp "record:Strategy") },
      { name := some (cp "text"), ty := some (cp "str_ascii"), dflt := some (cp "n/a") },
      { name := some (cp "flag"), ty := some (cp "boolean") }]⟩,
    ⟨cp "Accepted", cp "A", some (cp "g1"), some (cp "outgoing"), [
      { name := some (cp "ids"), ty := some (cp "int_4_be"), array := some (cp "true"), endian := some (cp "little") }]⟩]

example : wfSpec .itch demo = true ∧ wfSpec .ouch demo = true ∧ wfSpec .sqf demo = true := by decide

/-- the three pipelines on the demo specification, computed (independently of the theorem) -/
example : (gen .ouch (cp "oe") true demo >>= evalModule) = denote .ouch demo := by decide

example : ∃ sch, denote .ouch demo = .ok sch
    ∧ sch.messages.map (fun g => (g.id, g.dir)) = [(69, some (cp "incoming")), (65, some (cp "outgoing"))]
    ∧ sch.records.map (fun r => r.fields.map (·.ty))
        = [[.prim .int8be, .prim .charIso], [.array (.record (cp "Leg")) (.prim .uint2be), .record (cp "Leg")]] :=
  ⟨_, rfl, by decide, by decide⟩

end NasdaqModel.Props.C15
