import NasdaqModel.Model.GenSoupApp
/-
C15 — code generated from an ITCH/OUCH/SQF XML specification implements exactly that specification.
(theorems under construction)
-/
namespace NasdaqModel.Props.C15
open NasdaqModel GenSoupApp

theorem C15_table_ids : ∀ p : Prim, dictGet? typeDefs p.id = some (.prim p) := by
  intro p; cases p <;> decide

end NasdaqModel.Props.C15
