import NasdaqModel.Lemmas.BinCodecLemmas
import NasdaqModel.Extracted.TypeTable
/-
C02 — the binary encoding is exactly the documented wire layout.

`Spec/Layout.lean` is the independent reference (written from the DATATYPES documentation, digit-wise integers, positional
text).  The theorems say that the model of the codec (`Model/BinCodec.lean`, transcribed from the code) produces exactly those
bytes and decodes them, for every schema tree, every in-domain value and every tail; and that the registered type ids and the
array count selection are the documented ones (`Extracted/TypeTable.lean` is regenerated from the live library on every run).

Only property theorems and their non-vacuity examples live here.
-/
namespace NasdaqModel.Props.C02
open NasdaqModel BinCodec Spec.Layout

/-- The encoder produces exactly the documented layout, and reports its length. -/
theorem C02_encode_is_layout (t : Ty) (v : Val) (hwf : wf t v = true) :
    encode t v = .ok ((layout t v).length, layout t v) :=
  encLayout_all.1 t v hwf

/-- The decoder reads the documented layout — whatever follows it — back to the value, consuming exactly the layout. -/
theorem C02_decode_layout (t : Ty) (v : Val) (tail : Bytes) (hwf : wf t v = true) :
    decode t (layout t v ++ tail) = .ok (((layout t v).length : Int), norm t v) :=
  decLayout_all.1 t v hwf tail

/-- Messages: one message-type byte, then the fields in declaration order. -/
theorem C02_msg_encode_is_layout (m : MsgDef) (v : Val) (hwf : wfMsg m v = true) :
    encodeMsg m v = .ok ((msgLayout m v).length, msgLayout m v) :=
  encodeMsg_layout m v hwf

theorem C02_msg_decode_layout (reg : List MsgDef) (m : MsgDef) (v : Val) (tail : Bytes)
    (hreg : findMsg reg (m.ind : Int) = some m) (hwf : wfMsg m v = true) :
    decodeMsg reg (msgLayout m v ++ tail) = .ok (((msgLayout m v).length : Int), m.cls, norm (.record m.fs) v) :=
  decodeMsg_layout reg m v tail hreg hwf

/-- The layout determines the value up to `norm`: two in-domain values with the same bytes decode to the same thing. -/
theorem C02_layout_injective (t : Ty) (v w : Val) (hv : wf t v = true) (hw : wf t w = true)
    (h : layout t v = layout t w) : norm t v = norm t w := by
  have a := decLayout_all.1 t v hv []
  have b := decLayout_all.1 t w hw []
  rw [h, b] at a
  injection a with a
  injection a with _ a
  exact a.symm

/-- Every type id the library registers is bound to the documented size / signedness / byte order / charset, and nothing else
    is registered (20 rows; the left side is probed from the running library before each build). -/
theorem C02_table : Extracted.typeTable = documentedTable := by decide

/-- The count type `parser.py` selects for an array field is the documented one, for every value of the `endian` attribute. -/
theorem C02_array_count (endianAttr : Option String) :
    arrayCountType endianAttr = documentedArrayCount (endianAttr.getD "") := by
  unfold arrayCountType documentedArrayCount
  cases endianAttr with
  | none => simp
  | some a => simp

/-- …and that is what the running parser does (probed rows). -/
theorem C02_array_count_extracted :
    ∀ row ∈ Extracted.arrayCountTable, row.2 = documentedArrayCount row.1 := by decide

/-! ### non-vacuity -/

def exTy : Ty :=
  .record (.cons 1 (.int 4 true true) .none
          (.cons 2 (.str true) .none
          (.cons 3 (.optrec (.cons 1 (.int 2 false false) .none .nil)) .none
          (.cons 4 (.arr (.int 2 false true) 2 false true) .none
          (.cons 5 (.fixed false 3 true) (.str [120]) .nil)))))

def exVal : Val := .recd [(1, .int (-2)), (2, .str [233]), (3, .recd [(1, .int 513)]), (4, .list [.int 1, .int 65535])]

example : wf exTy exVal = true := by decide
example : layout exTy exVal = [255, 255, 255, 254,  1, 0, 233,  1, 1, 2,  0, 2, 0, 1, 255, 255,  32, 32, 120] := by decide
example : msgLayout { ind := 65, cls := 0, fs := .cons 1 .bool .none .nil } (.recd [(1, .bool true)]) = [65, 1] := by decide
example : documentedTable.length = 20 := by decide

end NasdaqModel.Props.C02
