import NasdaqModel.Props.C19
/-
C19, the by-name view of the registry (`get_msg_cls_by_name`).

`MsgNameToMsgMap[app][cls.__name__] = cls` is assigned by every class statement that registers; unlike the id map it is
overwritten.  These theorems pin down exactly that: after a statement that registers in application `a`, its name resolves —
in `a` — to the class it created; no other (application, name) pair changes; a statement that raises or registers nothing
changes no name at all.

  * `C19_byName_after_define`        the registering statement's name resolves to its class, in its own application
  * `C19_byName_frame`               every other (application, name) resolves as before
  * `C19_byName_untouched`           a statement that raises, or has no id, changes no by-name lookup
-/
namespace NasdaqModel.Props.C19ByName
open NasdaqModel Registry NasdaqModel.Props.C19

private theorem find_setName_same (l : List (Nat × Nat × Nat)) (a n c : Nat) :
    (setName l a n c).find? (fun e => e.1 == a && e.2.1 == n) = some (a, n, c) := by
  induction l with
  | nil => simp [setName]
  | cons x rest ih =>
    obtain ⟨a', n', c'⟩ := x
    unfold setName
    by_cases h : a' = a ∧ n' = n
    · simp [h]
    · have hb : (a' == a && n' == n) = false := by
        rcases Classical.not_and_iff_not_or_not.mp h with h1 | h1 <;> simp [h1]
      simp only [h, if_false, List.find?, hb]
      exact ih

private theorem find_setName_other (l : List (Nat × Nat × Nat)) (a n c a' n' : Nat) (hne : ¬ (a' = a ∧ n' = n)) :
    (setName l a n c).find? (fun e => e.1 == a' && e.2.1 == n') = l.find? (fun e => e.1 == a' && e.2.1 == n') := by
  have hb : (a == a' && n == n') = false := by
    rcases Classical.not_and_iff_not_or_not.mp hne with h1 | h1
    · have : ¬ a = a' := fun h => h1 h.symm
      simp [this]
    · have : ¬ n = n' := fun h => h1 h.symm
      simp [this]
  induction l with
  | nil => simp [setName, List.find?, hb]
  | cons x rest ih =>
    obtain ⟨a0, n0, c0⟩ := x
    unfold setName
    by_cases h : a0 = a ∧ n0 = n
    · obtain ⟨rfl, rfl⟩ := h
      simp [List.find?, hb]
    · simp only [h, if_false, List.find?]
      cases (a0 == a' && n0 == n') <;> simp [ih]

/-- what a successful registering statement does to the name map -/
private theorem names_after (r r' : Reg) (d : Decl) (a : Nat) (k : Key)
    (ht : target d = some (a, k)) (h : defineMsg r d = .ok r') :
    r'.names = setName r.names a d.name d.cid := by
  unfold target at ht
  unfold defineMsg at h
  cases hr : resolve d with
  | error e => rw [hr] at ht; simp at ht
  | ok t =>
    rw [hr] at ht h
    simp only at ht
    subst ht
    simp only at h
    unfold register at h
    cases hl : lookupId r a k with
    | none => rw [hl] at h; simp only [Except.ok.injEq] at h; rw [← h]
    | some c =>
      rw [hl] at h
      simp only at h
      split at h
      · cases h
      · simp only [Except.ok.injEq] at h; rw [← h]

/-- **The statement's name resolves to its class.** -/
theorem C19_byName_after_define (r r' : Reg) (d : Decl) (a : Nat) (k : Key)
    (ht : target d = some (a, k)) (h : defineMsg r d = .ok r') :
    byName r' a d.name = .ok d.cid := by
  unfold byName
  rw [names_after r r' d a k ht h, find_setName_same]

/-- **Frame.** Every other (application, name) pair resolves exactly as before. -/
theorem C19_byName_frame (r r' : Reg) (d : Decl) (a : Nat) (k : Key)
    (ht : target d = some (a, k)) (h : defineMsg r d = .ok r') (a' n' : Nat) (hne : ¬ (a' = a ∧ n' = d.name)) :
    byName r' a' n' = byName r a' n' := by
  unfold byName
  rw [names_after r r' d a k ht h, find_setName_other _ _ _ _ _ _ hne]

/-- **Untouched.** A statement that raises, or that carries no id, changes no by-name lookup. -/
theorem C19_byName_untouched (r : Reg) (d : Decl) (hn : target d = none) (a n : Nat) :
    byName (step r d) a n = byName r a n := by
  unfold step defineMsg
  unfold target at hn
  cases hr : resolve d with
  | error e => rfl
  | ok t =>
    rw [hr] at hn
    simp only at hn
    subst hn
    rfl

/-! ### the premises are met -/

example : ∃ r', defineMsg Reg.empty
    { cid := 1, name := 7, base := { proto := .itch, app := 5, style := .generated }, ind := some 65, dir := none, appKw := none } = .ok r' ∧
    byName r' 5 7 = .ok 1 := ⟨_, rfl, by decide⟩

end NasdaqModel.Props.C19ByName
