import NasdaqModel.Props.C09
import NasdaqModel.Props.C08Flow
/-
C09 under transport flow control and slow application callbacks.

Write side: `pause_writing()` / `resume_writing()` (Model/MonitorFlow.lean) are no-ops on the session, so by
`C08Flow_erasable` both clauses of C09 hold for every history with such callbacks anywhere (`C09Flow_silence_closes`,
`C09Flow_live_never_dropped`).

Read side and callbacks — why there is nothing more to put into the model.  In the code every byte the peer writes reaches
`AsyncSession.data_received` as soon as the loop runs (the session never calls `transport.pause_reading()`: there is no such
call anywhere in the library), and `data_received` pings the remote monitor *before* the bytes go to the reader, the queue and
the application's callback.  The remote monitor's trip action is `close()`, unconditionally; it looks at nothing but `_pinged`.
So neither how many parsed messages wait in the queue nor whether the dispatcher is awaiting inside the application's callback
occurs in any transition of `Monitor.Sess`: a `recv k` event *is* the arrival, whatever the application then does with the
message, and `C09_silence_closes` / `C09_live_never_dropped` already quantify over all of that.  What a seeded change can break
is exactly this independence (a trip that consults the dispatcher: C09i; a session that stops reading when its queue is long:
C09j) — that is a property of the implementation's wiring, checked by running the real sessions with awaiting callbacks and
bursts through a transport that honours `pause_reading()` (harness/c09.py, families `latency` and `burst`).
-/
namespace NasdaqModel.Props.C09Flow
open NasdaqModel.Monitor NasdaqModel.MonitorFlow NasdaqModel.Props.C09 NasdaqModel.Props.C08Flow

/-- **C09Flow_silence_closes.**  No byte from the peer during `(t, t + 2·P]` ⇒ closed by `t + 2·P`, on a transport that calls
    `pause_writing()` / `resume_writing()` at any moments. -/
theorem C09Flow_silence_closes (role : Role) (c : Cfg) (hc : wfCfg c = true) (evs : List FEv) (t : Nat)
    (hlong : t + 2 * peerInterval role c ≤ ((loginF role c).run evs).s.now)
    (hsilent : ∀ x ∈ ((loginF role c).run evs).s.recvs, ¬ (t < x.1 ∧ x.1 ≤ t + 2 * peerInterval role c)) :
    ((loginF role c).run evs).s.closed = true ∧ ((loginF role c).run evs).s.closeT ≤ t + 2 * peerInterval role c := by
  rw [C08Flow_erasable] at hlong hsilent ⊢
  exact C09_silence_closes role c hc (baseOnly evs) t hlong hsilent

/-- **C09Flow_live_never_dropped.**  A peer that delivers a byte in every window of one peer-role interval is never closed for
    inactivity, however long the session's own transport stays paused for writing. -/
theorem C09Flow_live_never_dropped (role : Role) (c : Cfg) (hc : wfCfg c = true) (evs : List FEv)
    (hlive : ∀ τ, τ + peerInterval role c ≤ ((loginF role c).run evs).s.now →
      ∃ x ∈ ((loginF role c).run evs).s.recvs, τ ≤ x.1 ∧ x.1 < τ + peerInterval role c) :
    ¬ (((loginF role c).run evs).s.closed = true ∧ ((loginF role c).run evs).s.closedByMon = true) := by
  rw [C08Flow_erasable] at hlive ⊢
  exact C09_live_never_dropped role c hc (baseOnly evs) hlive

set_option maxRecDepth 100000 in
/-- non-vacuity: a client (peer interval 4) on a transport paused from 1 on hears nothing and is closed at 8 -/
example :
    let x := (loginF .soupClient ⟨100, 4⟩).run ([.base .adv, .pauseWriting] ++ List.replicate 9 (.base .adv))
    x.s.closed = true ∧ x.s.closeT = 8 ∧ x.s.closedByMon = true ∧ x.writingPaused = true := by decide

end NasdaqModel.Props.C09Flow
