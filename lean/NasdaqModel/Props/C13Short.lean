import NasdaqModel.Props.C13
/-
C13 for the SHORTEST wire forms: a field is `tag` `=` `value` SOH, so with a one-digit tag and the empty text (String / char; "empty
strings" are named in the property's quantifier) a field - and a group instance that holds its first field and nothing else - is
THREE bytes, and a message may end in any number of such instances.  The decoder of the model (`grpLoop` / `containerFromBytes`,
transcribed from `GroupContainer.from_bytes`) has no "enough bytes left for the announced count" test, and the theorems of
`Props/C13.lean` have no hypothesis on the width of tags or values: `wfText []` holds, `wfDef` / `wfMsg` say nothing about the
size of a tag.  So `C13_roundtrip` / `C13_statement` already cover these messages; nothing had to be weakened or extended.

What is here makes that explicit, for all sizes:
  * `C13_short_field_bytes`       - a field with tag `t < 10` and the empty text is exactly the two bytes `t` `=` (+ SOH on the wire);
  * `C13_short_instance_bytes`    - an instance holding only such a first field is written as that one field, whatever other
                                    (optional) entries the group has;
  * `C13_short_family_statement`  - for EVERY count tag `c`, first-field tag `t`, further group entries `rest` (distinct tags) and EVERY
                                    number `n` of instances `t=<SOH>` closing the message (empty trailer): the message encodes, decodes
                                    through the registry to the same class with every byte consumed, to itself (the instances are
                                    already in dictionary order), re-encodes identically and compares equal - a corollary of
                                    `C13_statement`;
  * `C13_short_wire_*`            - the wire form of the family for concrete sizes (3 bytes per instance), decided by the kernel.
`Witness/C13Short.lean` shows what a decoder with a minimum-instance-length guard of 4 does on the same messages.
-/
namespace NasdaqModel.Props.C13Short
open NasdaqModel Py Fix Props.C13

/-- a field with a one-digit tag and an empty value: `t=` (two bytes; the SOH that follows it on the wire is the third) -/
theorem C13_short_field_bytes (t : Nat) (ht : t < 10) : fieldBytes t [] = [48 + t, 61] := by
  simp [fieldBytes, natDigits_eq t, ht]

/-- an instance that holds only its first field, with the empty text, is written as exactly that field - the other entries of the
    group (tags different from the first one) contribute nothing -/
theorem C13_short_instance_bytes (t : Nat) (ht : t < 10) (r : Bool) (rest : List Entry) (hrest : ∀ e ∈ rest, e.tag ≠ t) :
    encGroupFields (.field t .string r :: rest) [(t, .str [])] = .ok [[48 + t, 61]] := by
  have hr : ∀ (rest : List Entry), (∀ e ∈ rest, e.tag ≠ t) → encGroupFields rest [(t, .str [])] = .ok [] := by
    intro rest
    induction rest with
    | nil => intro _; rfl
    | cons e es ih =>
      intro h
      have he : e.tag ≠ t := h e (by simp)
      have : lookupV [(t, Val.str [])] e.tag = none := by simp [lookupV, Ne.symm he]
      rw [encGroupFields, this]
      exact ih (fun x hx => h x (by simp [hx]))
  have hl : lookupV [(t, Val.str [])] (Entry.field t .string r).tag = some (.str []) := by simp [lookupV, Entry.tag]
  rw [encGroupFields, hl]
  simp only [encEntry, tyToBytes, encodeAscii, List.all_nil, if_true, ok_bind, pure_eq_ok, hr rest hrest,
    C13_short_field_bytes t ht]

/-- header `35`, body = one group `c` whose first entry is the String field `t`, any further entries `rest`; empty trailer -/
def shortDef (c t : Nat) (rest : List Entry) : MsgDef :=
  { name := [83], type := [83], hdr := [.field 35 .string true], body := [.group c (.field t .string true :: rest) false], trl := [] }

/-- `n` instances holding only the first field with the empty text, the group the last thing of the message -/
def shortMsg (c t n : Nat) : Msg :=
  { hdr := [(35, .str [83])], body := [(c, .grp (List.replicate n [(t, .str [])]))], trl := [] }

private theorem wfInsts_replicate (t : Nat) (rest : List Entry) (n : Nat) :
    wfInsts (.field t .string true :: rest) (List.replicate n [(t, .str [])]) = true := by
  induction n with
  | zero => simp [wfInsts]
  | succ k ih =>
    rw [List.replicate_succ, wfInsts, ih]
    simp [wfFields, lookupE, Entry.tag, wfVal, wfPrim, wfText, firstPresent, hasKey, lookupV, keysOf]

private theorem canon_replicate (t : Nat) (rest : List Entry) (hrest : ∀ e ∈ rest, e.tag ≠ t) (n : Nat) :
    (List.replicate n [(t, Val.str [])]).map (fun i => canonFields (.field t .string true :: rest) i)
      = List.replicate n [(t, Val.str [])] := by
  have hr : ∀ (rest : List Entry), (∀ e ∈ rest, e.tag ≠ t) → canonFields rest [(t, Val.str [])] = [] := by
    intro rest
    induction rest with
    | nil => intro _; rfl
    | cons e es ih =>
      intro h
      have he : e.tag ≠ t := h e (by simp)
      have : lookupV [(t, Val.str [])] e.tag = none := by simp [lookupV, Ne.symm he]
      rw [canonFields, this]
      exact ih (fun x hx => h x (by simp [hx]))
  have h1 : canonFields (.field t .string true :: rest) [(t, Val.str [])] = [(t, Val.str [])] := by
    have hl : lookupV [(t, Val.str [])] (Entry.field t .string true).tag = some (.str []) := by simp [lookupV, Entry.tag]
    rw [canonFields, hl]
    simp [hr rest hrest, canonVal, Entry.tag]
  simp [List.map_replicate, h1]

/-- the family is inside the quantifier of `Props/C13.lean` for every size -/
theorem C13_short_family_wf (c t : Nat) (rest : List Entry) (n : Nat) : wfMsg (shortDef c t rest) (shortMsg c t n) = true := by
  simp [wfMsg, wfSeg, wfFields, shortDef, shortMsg, lookupE, Entry.tag, wfVal, wfPrim, wfText, keysOf, wfInsts_replicate]

/-- the decoded form of a message of the family is the message itself -/
theorem C13_short_family_canon (c t : Nat) (rest : List Entry) (hrest : ∀ e ∈ rest, e.tag ≠ t) (n : Nat) :
    canonMsg (shortDef c t rest) (shortMsg c t n) = shortMsg c t n := by
  simp [canonMsg, canonSeg, shortDef, shortMsg, lookupE, Entry.tag, canonVal, canon_replicate t rest hrest n]

/-- **Any number of minimal instances closing the message round-trips.**  For every count tag `c`, first-field tag `t` (one digit or
    not), further entries `rest` of the group, and every `n`: the message with `n` instances `t=<SOH>` as its last bytes encodes; the
    bytes decode through the registry to the same class, every byte consumed, to the message itself; it re-encodes identically and
    compares `==`.  There is no lower bound on the bytes an instance occupies beyond the three bytes a field needs. -/
theorem C13_short_family_statement (c t : Nat) (rest : List Entry) (n : Nat)
    (hd : wfDef (shortDef c t rest) = true) (hrest : ∀ e ∈ rest, e.tag ≠ t) :
    ∃ bs, encMsg (shortDef c t rest) (shortMsg c t n) = .ok bs ∧
      decodeMsg [shortDef c t rest] bs = .ok (bs.length, shortDef c t rest, shortMsg c t n) ∧
      encMsg (shortDef c t rest) (shortMsg c t n) = .ok bs ∧
      pyEqDict (shortMsg c t n) (shortMsg c t n) = true := by
  have hreg : lookupReg [shortDef c t rest] (shortDef c t rest).type = some (shortDef c t rest) := by
    simp [lookupReg, shortDef]
  have hentry : lookupE (shortDef c t rest).hdr 35 = some (.field 35 .string true) := by simp [shortDef, lookupE, Entry.tag]
  obtain ⟨bs, h1, h2, h3, h4⟩ := C13_statement [shortDef c t rest] (shortDef c t rest) (shortMsg c t n) hd
    (C13_short_family_wf c t rest n) true [] rfl hentry hreg
  rw [C13_short_family_canon c t rest hrest n] at h2 h3 h4
  exact ⟨bs, h1, h2, h3, h4⟩

/-! ### non-vacuity and the wire form: three bytes per instance -/

/-- `Alloc`-like group: count 78, Account(1) String first, AllocQty(80) float optional -/
def allocRest : List Entry := [.field 80 .float false]

example : wfDef (shortDef 78 1 allocRest) = true := by decide
example : ∀ e ∈ allocRest, e.tag ≠ 1 := by decide

/-- `35=S|78=1|1=|` : the bytes after the count field are ONE instance of three bytes -/
theorem C13_short_wire_one : encMsg (shortDef 78 1 allocRest) (shortMsg 78 1 1)
    = .ok [51,53,61,83,1, 55,56,61,49,1, 49,61,1] := by decide +kernel

/-- `35=S|78=3|1=|1=|1=|` : three instances, nine bytes -/
theorem C13_short_wire_three : encMsg (shortDef 78 1 allocRest) (shortMsg 78 1 3)
    = .ok [51,53,61,83,1, 55,56,61,51,1, 49,61,1, 49,61,1, 49,61,1] := by decide +kernel

/-- twenty-one instances: 5 + 6 + 21 * 3 bytes, and the round trip of the model, decided on the concrete message -/
theorem C13_short_wire_twentyone :
    (match encMsg (shortDef 78 1 allocRest) (shortMsg 78 1 21) with
     | .ok bs => bs.length == 5 + 6 + 21 * 3 &&
                 (match decodeMsg [shortDef 78 1 allocRest] bs with
                  | .ok r => r.1 == bs.length && pyEq r.2.2 (shortMsg 78 1 21)
                  | .error _ => false)
     | .error _ => false) = true := by decide +kernel

/-- a group nested in a group, the inner one (first field `1`, String) closing the last outer instance, CheckSum-free trailer:
    `35=N|555=1|600=X|78=2|1=|1=|` -/
def nestedDef : MsgDef :=
  { name := [78], type := [78], hdr := [.field 35 .string true], trl := [.field 10 .string false],
    body := [.field 58 .string false,
             .group 555 [.field 600 .string true, .field 687 .int false,
                         .group 78 [.field 1 .string true, .field 80 .float false] false] false] }
def nestedMsg : Msg :=
  { hdr := [(35, .str [78])], trl := [],
    body := [(555, .grp [[(600, .str [88]), (78, .grp [[(1, .str [])], [(1, .str [])]])]])] }
/-- nine minimal instances in front of a 7-byte trailer `10=077|`: 9 * 4 > 9 * 3 + 7 -/
def nineMsg : Msg :=
  { hdr := [(35, .str [78])], trl := [(10, .str [48, 55, 55])],
    body := [(555, .grp [[(600, .str [88]), (78, .grp (List.replicate 9 [(1, .str [])]))]])] }

theorem C13_short_nested_wf : wfDef nestedDef = true ∧ wfMsg nestedDef nestedMsg = true ∧ wfMsg nestedDef nineMsg = true := by
  decide

/-- both are instances of `C13_statement`: -/
example : ∃ bs, encMsg nestedDef nestedMsg = .ok bs ∧ decodeMsg [nestedDef] bs = .ok (bs.length, nestedDef, canonMsg nestedDef nestedMsg) ∧
    encMsg nestedDef (canonMsg nestedDef nestedMsg) = .ok bs ∧ pyEqDict (canonMsg nestedDef nestedMsg) nestedMsg = true :=
  C13_statement [nestedDef] nestedDef nestedMsg C13_short_nested_wf.1 C13_short_nested_wf.2.1 true [] rfl rfl rfl

theorem C13_short_wire_nested : encMsg nestedDef nestedMsg
    = .ok [51,53,61,78,1, 53,53,53,61,49,1, 54,48,48,61,88,1, 55,56,61,50,1, 49,61,1, 49,61,1] := by decide +kernel

end NasdaqModel.Props.C13Short
