import NasdaqModel.Model.HeapCut
import NasdaqModel.Lemmas.HeapLemmas
/-
Lemmas for `Model/HeapCut.lean` (C18, short frames).

Part 1: one operation of `HeapCut.stepC` does nothing, adds a buffer of the caller, or is an operation of `Model/Heap.lean`
(`stepC_cases`); hence invariant and frame for one step.  The lemmas about `addBuf` and `stepD_cases` restate, publicly, what
`Props/C18Defaults.lean` proves privately for `HeapD.stepD` (same proofs).

Part 2: what a NEWLY BUILT object graph reads does not depend on the heap it was built in (`allocTree_obs`): it is `treeObs` of the
pure tree it was built from — the fact behind "a fresh instance / a decoded message reads the same after any history".
-/
namespace NasdaqModel.HeapCut
open NasdaqModel Heap HeapD

/-! ## part 1: one step -/

theorem addBuf_get_old {H : Heap} {bs : Bytes} {a : Addr} {c : Cell} (hc : H.cells[a]? = some c) :
    (addBuf H bs).cells[a]? = some c := by
  simp only [addBuf]
  rw [List.getElem?_append_left (getElem?_lt hc)]; exact hc

theorem addBuf_inv {H : Heap} (bs : Bytes) (hi : Inv H) : Inv (addBuf H bs) := by
  refine ⟨?_, ?_, ?_, ?_, ?_⟩
  · intro a c hc
    by_cases hlt : a < H.cells.length
    · have hc0 : H.cells[a]? = some c := by
        simpa only [addBuf, List.getElem?_append_left hlt] using hc
      exact RefsIn.append _ (hi.closed a c hc0)
    · have hle := Nat.le_of_not_lt hlt
      simp only [addBuf] at hc
      rw [List.getElem?_append_right hle] at hc
      have : c = ⟨.ext, .buf bs⟩ := by
        cases hk : a - H.cells.length with
        | zero => simp [hk] at hc; exact hc.symm
        | succ k => simp [hk] at hc
      subst this
      intro r hr; simp [Body.refs] at hr
  · obtain ⟨c, hc, ho⟩ := hi.cls0
    exact ⟨c, addBuf_get_old hc, ho⟩
  · intro i cr h
    obtain ⟨c, hc, ho⟩ := hi.roots i cr (by simpa [addBuf] using h)
    exact ⟨c, addBuf_get_old hc, ho⟩
  · intro a c i hc ho
    by_cases hlt : a < H.cells.length
    · have hc0 : H.cells[a]? = some c := by
        simpa only [addBuf, List.getElem?_append_left hlt] using hc
      simpa [addBuf] using hi.bound a c i hc0 ho
    · have hle := Nat.le_of_not_lt hlt
      simp only [addBuf] at hc
      rw [List.getElem?_append_right hle] at hc
      have : c = ⟨.ext, .buf bs⟩ := by
        cases hk : a - H.cells.length with
        | zero => simp [hk] at hc; exact hc.symm
        | succ k => simp [hk] at hc
      subst this
      cases ho
  · intro j a h
    simp only [addBuf] at h
    by_cases hlt : j < H.bufs.length
    · rw [List.getElem?_append_left hlt] at h
      obtain ⟨c, hc, ho⟩ := hi.bufs j a h
      exact ⟨c, addBuf_get_old hc, ho⟩
    · have hle := Nat.le_of_not_lt hlt
      rw [List.getElem?_append_right hle] at h
      have ha : a = H.cells.length := by
        cases hk : j - H.bufs.length with
        | zero => simp [hk] at h; exact h.symm
        | succ k => simp [hk] at h
      subst ha
      exact ⟨⟨.ext, .buf bs⟩, by simp [addBuf], rfl⟩

theorem addBuf_deref (S : Schema) {H : Heap} (bs : Bytes) (hi : Inv H) (n : Nat) (v : Val)
    (hv : RefsIn (fun _ => True) H.cells v.refs) :
    deref S n (addBuf H bs).cells v = deref S n H.cells v := by
  apply deref_agree S (fun _ => True) H.cells (addBuf H bs).cells ?_ hi.closed ?_ n v hv
  · intro a c hc _; exact addBuf_get_old hc
  · intro r hr
    simp at hr; subst hr
    obtain ⟨c, hc, _⟩ := hi.cls0
    exact ⟨c, hc, trivial⟩

theorem root_refs {H : Heap} (hi : Inv H) {b : Nat} {cr : Nat × Addr} (hcr : H.insts[b]? = some cr) :
    RefsIn (fun _ => True) H.cells (Val.ref cr.2).refs := by
  obtain ⟨c, hc, _⟩ := hi.roots b cr hcr
  intro r hr
  simp [Val.refs] at hr; subst hr
  exact ⟨c, hc, trivial⟩

/-- what `stepD` can do: nothing, add a buffer of the caller, or the operation of `Model/Heap.lean` -/
theorem stepD_cases {S : Schema} {D : Defaults} {H H' : Heap} {op : Op} (hs : stepD S D H op = .ok H') :
    H' = H ∨ (∃ bs, H' = addBuf H bs) ∨ step S H op = .ok H' := by
  cases op with
  | read a p =>
    simp only [stepD] at hs
    obtain ⟨_, _, hs⟩ := bind_ok hs
    injection hs with hs; exact Or.inl hs.symm
  | assign a p k t =>
    simp only [stepD] at hs
    obtain ⟨r, _, hs⟩ := bind_ok hs
    cases r with
    | heap v => exact Or.inr (Or.inr hs)
    | tmp t' =>
      cases t' with
      | obj c ks ts =>
        simp only at hs
        obtain ⟨_, _, hs⟩ := bind_ok hs
        injection hs with hs; exact Or.inl hs.symm
      | int i => simp at hs
      | str s => simp at hs
      | none => simp at hs
      | list xs => simp at hs
  | append a p t =>
    simp only [stepD] at hs
    obtain ⟨r, _, hs⟩ := bind_ok hs
    cases r with
    | heap v => exact Or.inr (Or.inr hs)
    | tmp t' =>
      cases t' with
      | list xs => simp only at hs; injection hs with hs; exact Or.inl hs.symm
      | int i => simp at hs
      | str s => simp at hs
      | none => simp at hs
      | obj c ks ts => simp at hs
  | setIdx a p i t =>
    simp only [stepD] at hs
    obtain ⟨r, _, hs⟩ := bind_ok hs
    cases r with
    | heap v => exact Or.inr (Or.inr hs)
    | tmp t' =>
      cases t' with
      | list xs =>
        simp only at hs
        split at hs
        · injection hs with hs; exact Or.inl hs.symm
        · simp at hs
      | int i => simp at hs
      | str s => simp at hs
      | none => simp at hs
      | obj c ks ts => simp at hs
  | encode a =>
    simp only [stepD] at hs
    obtain ⟨_, _, hs⟩ := bind_ok hs
    injection hs with hs; exact Or.inl hs.symm
  | mkbuf a =>
    simp only [stepD] at hs
    obtain ⟨bs, _, hs⟩ := bind_ok hs
    injection hs with hs; exact Or.inr (Or.inl ⟨bs, hs.symm⟩)
  | new c => exact Or.inr (Or.inr hs)
  | decode c b => exact Or.inr (Or.inr hs)
  | scribble b => exact Or.inr (Or.inr hs)
  | copy b pb k a pa => exact Or.inr (Or.inr hs)
  | clone a => exact Or.inr (Or.inr hs)

/-- what `stepC` can do: nothing, add a buffer of the caller (`mkbuf`, `cut`), or an operation of `Model/Heap.lean` -/
theorem stepC_cases {S : Schema} {D : Defaults} {H H' : Heap} {op : OpC} (hs : stepC S D H op = .ok H') :
    H' = H ∨ (∃ bs, H' = addBuf H bs) ∨ (∃ o, op = .op o ∧ step S H o = .ok H') := by
  cases op with
  | op o =>
    simp only [stepC] at hs
    rcases stepD_cases hs with h | h | h
    · exact Or.inl h
    · exact Or.inr (Or.inl h)
    · exact Or.inr (Or.inr ⟨o, rfl, h⟩)
  | cut b n =>
    simp only [stepC] at hs
    split at hs
    · simp at hs
    · split at hs
      · injection hs with hs; exact Or.inr (Or.inl ⟨_, hs.symm⟩)
      · simp at hs

theorem stepC_inv {S : Schema} (hS : S.freshArrayDefault = true) {D : Defaults} {H H' : Heap} {op : OpC} (hi : Inv H)
    (hs : stepC S D H op = .ok H') : Inv H' := by
  rcases stepC_cases hs with h | ⟨bs, h⟩ | ⟨o, _, h⟩
  · rw [h]; exact hi
  · rw [h]; exact addBuf_inv bs hi
  · exact (step_sound hi h (classSafe_of_fresh hS hi o)).2.1

/-- the instance table entry and the stored graph of every instance the operation is not about -/
theorem stepC_frame_core {S : Schema} (hS : S.freshArrayDefault = true) {D : Defaults} {H H' : Heap} {op : OpC}
    (hi : Inv H) (hs : stepC S D H op = .ok H') {b : Nat} (hb : b ≠ op.target H) :
    H'.insts[b]? = H.insts[b]? ∧
    ∀ (n : Nat) (cr : Nat × Addr), H.insts[b]? = some cr → deref S n H'.cells (.ref cr.2) = deref S n H.cells (.ref cr.2) := by
  rcases stepC_cases hs with h | ⟨bs, h⟩ | ⟨o, ho, h⟩
  · subst h; exact ⟨rfl, fun _ _ _ => rfl⟩
  · subst h
    exact ⟨by simp [addBuf], fun n cr hcr => addBuf_deref S bs hi n _ (root_refs hi hcr)⟩
  · subst ho
    obtain ⟨hins, hd⟩ := frame_core hi h (classSafe_of_fresh hS hi o) hb
    refine ⟨hins, fun n cr hcr => hd n _ ?_⟩
    obtain ⟨c, hc, ho⟩ := hi.roots b cr hcr
    intro r hr
    simp [Val.refs] at hr; subst hr
    exact ⟨c, hc, Or.inl ho⟩

theorem stepKC_inv {S : Schema} (hS : S.freshArrayDefault = true) {D : Defaults} {H : Heap} (op : OpC) (hi : Inv H) :
    Inv (stepKC S D H op) := by
  unfold stepKC
  cases hs : stepC S D H op with
  | ok H' => exact stepC_inv hS hi hs
  | error e => exact hi

theorem runC_inv {S : Schema} (hS : S.freshArrayDefault = true) (D : Defaults) :
    ∀ (ops : List OpC) (H : Heap), Inv H → Inv (runC S D H ops)
  | [], _, hi => hi
  | op :: ops, _, hi => runC_inv hS D ops _ (stepKC_inv hS op hi)

theorem runC_append (S : Schema) (D : Defaults) (H : Heap) (ops : List OpC) (op : OpC) :
    runC S D H (ops ++ [op]) = stepKC S D (runC S D H ops) op := by
  simp [runC, List.foldl_append]

/-! ## part 2: what a newly built object graph reads -/

/-- the declared keys of class `c` that are not among `keys`, with what they read as -/
def unassignedK (S : Schema) (c : Nat) (keys : List Key) : List (Key × Val) :=
  (S.declared c).filter (fun kd => !(keys.any (fun k => k == kd.1)))

/-- what an object graph built from the pure tree `t` reads, to depth `n` (`deref` on the graph `allocTree` builds) -/
def treeObs (S : Schema) : Nat → Tree → DVal
  | _, .int i => .int i
  | _, .str s => .str s
  | _, .none => .none
  | 0, .list _ => .cut
  | 0, .obj _ _ _ => .cut
  | n + 1, .list xs => .list (xs.map (treeObs S n))
  | n + 1, .obj c ks ts =>
    .obj c ((ks.zip ts).map (·.1)) ((ks.zip ts).map (fun kt => treeObs S n kt.2))
      ((unassignedK S c ((ks.zip ts).map (·.1))).map (·.1))
      ((unassignedK S c ((ks.zip ts).map (·.1))).map (fun kd => deref S n [] kd.2))

theorem unassigned_eq (S : Schema) (c : Nat) (st : List (Key × Val)) :
    unassigned S c st = unassignedK S c (st.map (·.1)) := by
  simp [unassigned, unassignedK, List.any_map, Function.comp_def]

theorem deref_noRefs (S : Schema) (n : Nat) (h h' : Cells) (v : Val) (hv : v.refs = []) :
    deref S n h v = deref S n h' v := by
  cases v with
  | ref a => simp [Val.refs] at hv
  | int i => cases n <;> rfl
  | str s => cases n <;> rfl
  | none => cases n <;> rfl
  | elist => cases n <;> rfl

theorem deref_append (S : Schema) {h : Cells} (e : Cells) (hcl : Closed h) (h0 : ∃ c, h[0]? = some c) (n : Nat) (v : Val)
    (hv : RefsIn (fun _ => True) h v.refs) : deref S n (h ++ e) v = deref S n h v := by
  apply deref_agree S (fun _ => True) h (h ++ e) ?_ hcl ?_ n v hv
  · intro a c hc _
    rw [List.getElem?_append_left (getElem?_lt hc)]; exact hc
  · intro r hr
    simp at hr; subst hr
    obtain ⟨c, hc⟩ := h0
    exact ⟨c, hc, trivial⟩

theorem allocList_length (o : Owner) : ∀ (ts : List Tree) (h : Cells), (allocList o ts h).2.length = ts.length
  | [], _ => by simp [allocList]
  | t :: ts, h => by simp [allocList, allocList_length o ts]

theorem zip_fst_of_length {α β γ : Type} : ∀ (ks : List α) (vs : List β) (ts : List γ), vs.length = ts.length →
    (ks.zip vs).map (·.1) = (ks.zip ts).map (·.1)
  | [], _, _, _ => by simp
  | _ :: _, [], [], _ => by simp
  | _ :: _, [], _ :: _, h => by simp at h
  | _ :: _, _ :: _, [], h => by simp at h
  | k :: ks, v :: vs, t :: ts, h => by
      simp only [List.zip_cons_cons, List.map_cons]
      rw [zip_fst_of_length ks vs ts (by simpa using h)]

theorem zip_snd_map {α β γ δ : Type} (f : β → δ) (g : γ → δ) : ∀ (ks : List α) (vs : List β) (ts : List γ),
    vs.map f = ts.map g → (ks.zip vs).map (fun kv => f kv.2) = (ks.zip ts).map (fun kt => g kt.2)
  | [], _, _, _ => by simp
  | _ :: _, [], [], _ => by simp
  | _ :: _, [], _ :: _, h => by simp at h
  | _ :: _, _ :: _, [], h => by simp at h
  | k :: ks, v :: vs, t :: ts, h => by
      simp only [List.map_cons, List.cons.injEq] at h
      simp only [List.zip_cons_cons, List.map_cons, h.1]
      rw [zip_snd_map f g ks vs ts h.2]

private theorem cell0_append {h e : Cells} (h0 : ∃ c, h[0]? = some c) : ∃ c, (h ++ e)[0]? = some c := by
  obtain ⟨c, hc⟩ := h0
  exact ⟨c, by rw [List.getElem?_append_left (getElem?_lt hc)]; exact hc⟩

/-- the elements of a list of newly built graphs, observed in any later extension of the heap -/
theorem allocList_obs (S : Schema) (o : Owner) (n : Nat)
    (ih : ∀ (t : Tree) (h : Cells), Closed h → (∃ c, h[0]? = some c) →
      deref S n (allocTree o t h).1 (allocTree o t h).2 = treeObs S n t) :
    ∀ (ts : List Tree) (h e : Cells), Closed h → (∃ c, h[0]? = some c) →
      (allocList o ts h).2.map (deref S n ((allocList o ts h).1 ++ e)) = ts.map (treeObs S n)
  | [], _, _, _, _ => by simp [allocList]
  | t :: ts, h, e, hcl, h0 => by
      have a1 := allocTree_ok o t h
      have hcl1 : Closed (allocTree o t h).1 := a1.1.closed hcl
      have h01 : ∃ c, (allocTree o t h).1[0]? = some c := by
        obtain ⟨e1, he1, _⟩ := a1.1
        rw [he1]; exact cell0_append h0
      obtain ⟨e2, he2, _⟩ := (allocList_ok o ts (allocTree o t h).1).1
      have hhead : deref S n ((allocList o ts (allocTree o t h).1).1 ++ e) (allocTree o t h).2 = treeObs S n t := by
        rw [he2, List.append_assoc]
        rw [deref_append S (e2 ++ e) hcl1 h01 n _ ?_]
        · exact ih t h hcl h0
        · intro r hr
          obtain ⟨c, hc, _⟩ := a1.2 r hr
          exact ⟨c, hc, trivial⟩
      simp only [allocList, List.map_cons, hhead]
      rw [allocList_obs S o n ih ts (allocTree o t h).1 e hcl1 h01]

/-- **what a newly built object graph reads is a function of the tree it was built from** (repaired array default: no declared
    default is a reference): independent of the heap it was built in and of its owner -/
theorem allocTree_obs (S : Schema) (hS : S.freshArrayDefault = true) (o : Owner) :
    ∀ (n : Nat) (t : Tree) (h : Cells), Closed h → (∃ c, h[0]? = some c) →
      deref S n (allocTree o t h).1 (allocTree o t h).2 = treeObs S n t := by
  intro n
  induction n with
  | zero =>
    intro t h _ _
    cases t <;> simp [allocTree, deref, treeObs]
  | succ n ih =>
    intro t h hcl h0
    cases t with
    | int i => simp [allocTree, deref, treeObs]
    | str s => simp [allocTree, deref, treeObs]
    | none => simp [allocTree, deref, treeObs]
    | list xs =>
      have hl := allocList_obs S o n ih xs h [⟨o, .list (allocList o xs h).2⟩] hcl h0
      simp only [allocTree, deref, treeObs, List.getElem?_concat_length]
      rw [hl]
    | obj c ks ts =>
      have hl := allocList_obs S o n ih ts h [⟨o, .obj c (ks.zip (allocList o ts h).2)⟩] hcl h0
      have hlen := allocList_length o ts h
      simp only [allocTree, deref, treeObs, List.getElem?_concat_length]
      rw [unassigned_eq, zip_fst_of_length ks _ ts hlen]
      congr 1
      · exact zip_snd_map _ _ ks _ ts hl
      · apply List.map_congr_left
        intro kd hkd
        apply deref_noRefs
        exact declared_refs_fresh S hS c kd (List.mem_filter.mp hkd).1

end NasdaqModel.HeapCut
