import NasdaqModel.Lemmas.FixAnchor
import NasdaqModel.Lemmas.FixSharedAux
/-
`Lemmas/FixAnchor.lean` (the anchored `get_msg_type` finds the MsgType field wherever it stands in the header) for level-distinct
dictionaries (W-C13S).  With tags shared between levels one more hypothesis is needed, and it is a real one: tag 35 must not occur
INSIDE a group of the header (`35 ∉ innerTags e` for the header's entries) - a header group assigned before MsgType whose instances
hold a field 35 puts `SOH 35=` on the wire in front of the MsgType field (`Props/C13SharedGen.lean`, `C13Shared_msgtype_nested_35`).
-/
namespace NasdaqModel.Fix
open NasdaqModel Py

theorem atomsOK_allS : ∀ e : Entry, ldEntry e = true → AtomsOK e := by
  apply ld_ind
  · intro t ty r v b hwf henc
    simp only [wfVal] at hwf
    simp only [encEntry] at henc
    obtain ⟨vb, hvb, h⟩ := bind_ok henc
    simp only [pure_eq_ok] at h
    injection h with h
    subst h
    refine ⟨[(t, vb)], by simp [termAtoms_cons, termAtoms_nil], ?_⟩
    intro a ha
    simp only [List.mem_singleton] at ha
    subst ha
    exact ⟨by simp [deepTags], (prim_roundtrip hwf hvb).1⟩
  · intro t sub r htn _ ih v b hwf henc
    cases v with
    | grp insts =>
      simp only [wfVal] at hwf
      simp only [encEntry] at henc
      obtain ⟨gs, hgs, h⟩ := bind_ok henc
      simp only [pure_eq_ok] at h
      injection h with h
      subst h
      have hall := mapE_all₂ hgs
      have key : ∀ {is : List Seg} {gl : List Bytes},
          All₂ (fun a b => (encGroupFields sub a >>= fun fs => pure (joinSOH fs)) = Except.ok b) is gl →
          wfInsts sub is = true → ∀ x ∈ gl, ∃ A, x ++ [1] = termAtoms A ∧ AtomsIn (· ∈ deepTagsL sub) A := by
        intro is gl hal
        induction hal with
        | nil => intro _ x hx; simp at hx
        | @cons inst g insts' gs' hg _ ih2 =>
          intro hwf x hx
          simp only [wfInsts, Bool.and_eq_true, decide_eq_true_eq] at hwf
          obtain ⟨⟨⟨hwff, hfirst⟩, _⟩, hwf'⟩ := hwf
          rcases List.mem_cons.mp hx with hx | hx
          · subst hx
            obtain ⟨fbs, hf, hh⟩ := bind_ok hg
            simp only [pure_eq_ok] at hh
            injection hh with hh
            subst hh
            obtain ⟨fs, h1, h2, h3, _⟩ := encGroupFields_items sub htn inst hwff sub fbs (fun e he => he) hf
            have hne : fbs ≠ [] := by
              cases sub with
              | nil => simp [firstPresent] at hfirst
              | cons e1 sub' =>
                simp only [firstPresent] at hfirst
                simp only [List.filter_cons, hfirst, if_true, List.map_cons] at h3
                intro hnil
                rw [hnil] at h1
                simp at h1
                rw [h1] at h3
                simp [itemTags] at h3
            obtain ⟨A, hA, tA⟩ := atoms_of_parts (· ∈ deepTagsL sub) fbs (by
              intro y hy
              rw [← h1] at hy
              obtain ⟨it, hit, rfl⟩ := List.mem_map.mp hy
              obtain ⟨hm, hw, he⟩ := h2 it hit
              obtain ⟨A, hA, tA⟩ := ih it.1 hm it.2.1 it.2.2 hw he
              exact ⟨A, hA, tA.mono (fun t ht => deepTags_sub_deepTagsL hm t ht)⟩)
            refine ⟨A, ?_, tA⟩
            cases fbs with
            | nil => exact absurd rfl hne
            | cons f0 fl => rw [joinSOH_term, hA]
          · exact ih2 hwf' x hx
      obtain ⟨A, hA, tA⟩ := atoms_of_parts (· ∈ deepTagsL sub) gs (key hall hwf)
      refine ⟨(t, intStr (insts.length : Int)) :: A, ?_, ?_⟩
      · rw [joinSOH_term, termAll_cons, termAtoms_cons, hA]
      · intro a ha
        rcases List.mem_cons.mp ha with ha | ha
        · subst ha
          exact ⟨by simp [deepTags], intStr_no_soh (insts.length : Int)⟩
        · exact ⟨by simp only [deepTags, List.mem_cons]; exact Or.inr (tA a ha).1, (tA a ha).2⟩
    | int _ => simp [wfVal] at hwf
    | flt _ => simp [wfVal] at hwf
    | bool _ => simp [wfVal] at hwf
    | str _ => simp [wfVal] at hwf

theorem seg_atomsS (es : List Entry) (hld : ∀ e ∈ es, ldEntry e = true) (s : Seg) (fbs : List Bytes)
    (hwf : wfFields es s = true) (henc : encSegFields es s = .ok fbs) (T : Nat → Prop)
    (hT : ∀ e ∈ es, e.tag ∈ keysOf s → ∀ t ∈ deepTags e, T t) :
    ∃ A, termAll fbs = termAtoms A ∧ AtomsIn T A := by
  obtain ⟨fs, h1, h2, h3, _⟩ := encSegFields_items es s fbs hwf henc
  apply atoms_of_parts T fbs
  intro y hy
  rw [← h1] at hy
  obtain ⟨it, hit, rfl⟩ := List.mem_map.mp hy
  obtain ⟨hm, hw, he⟩ := h2 it hit
  obtain ⟨A, hA, tA⟩ := atomsOK_allS it.1 (hld _ hm) it.2.1 it.2.2 hw he
  refine ⟨A, hA, tA.mono (hT it.1 hm ?_)⟩
  rw [← h3]
  exact List.mem_map.mpr ⟨it, hit, rfl⟩

/-- **`get_msg_type` on the bytes of a well-formed message**, level-distinct dictionary, tag 35 not nested inside a header group:
    the header holds `35 = <type>` at any position -/
theorem getMsgType_encMsgS {d : MsgDef} {m : Msg} {bs : Bytes} (hd : wfDefLevels d = true) (hm : wfMsg d m = true)
    (henc : encMsg d m = .ok bs) {ty : Str} (hmem : (35, Val.str ty) ∈ m.hdr) {r : Bool}
    (hentry : lookupE d.hdr 35 = some (.field 35 .string r)) (h35 : ∀ e ∈ d.hdr, 35 ∉ innerTags e) :
    getMsgType bs = .ok ty := by
  obtain ⟨fh, fb, ft, hfh, _, _, rfl⟩ := encMsg_wireS hd hm henc
  obtain ⟨lh, _, _⟩ := wfDefLevels_parts hd
  simp only [wfMsg, Bool.and_eq_true] at hm
  obtain ⟨⟨⟨wh, _⟩, _⟩, _⟩ := hm
  simp only [wfSeg, Bool.and_eq_true, decide_eq_true_eq] at wh
  obtain ⟨wf, nk⟩ := wh
  obtain ⟨s1, s2, hs⟩ := List.append_of_mem hmem
  rw [hs] at wf nk hfh
  obtain ⟨w1, w2⟩ := wfFields_append_inv wf
  obtain ⟨f1, f2', hf1, hf2, rfl⟩ := mapE_append_ok (show mapE _ (s1 ++ (35, Val.str ty) :: s2) = .ok fh from hfh)
  obtain ⟨b, f2, hb, _, rfl⟩ := mapE_cons_ok hf2
  simp only [wfFields, hentry, wfVal, wfPrim, Bool.and_eq_true] at w2
  obtain ⟨hta, ht1⟩ := wfText_iff w2.1
  simp only [hentry, encEntry, tyToBytes, encodeAscii, hta, if_true, ok_bind, pure_eq_ok] at hb
  injection hb with hb
  subst hb
  have hk : 35 ∉ keysOf s1 := by
    simp only [keysOf, List.map_append, List.map_cons] at nk
    rw [List.nodup_append] at nk
    intro h35
    exact nk.2.2 35 h35 35 (by simp) rfl
  obtain ⟨A, hA, tA⟩ := seg_atomsS d.hdr (ldLevel_parts lh).2 s1 f1 w1 hf1 (· ≠ 35) (by
    intro e he hek t ht h35'
    subst h35'
    rw [deepTags_eq] at ht
    rcases List.mem_cons.mp ht with ht | ht
    · rw [← ht] at hek; exact hk hek
    · exact h35 e he ht)
  have hbytes : termAll (f1 ++ fieldBytes 35 ty :: f2) ++ termAll fb ++ termAll ft
      = termAtoms A ++ ([51, 53, 61] ++ ty ++ 1 :: (termAll f2 ++ termAll fb ++ termAll ft)) := by
    rw [termAll_append, termAll_cons, hA]
    simp [fieldBytes, natDigits_35]
  rw [hbytes]
  exact getMsgType_atoms A ty _ tA ht1 hta

end NasdaqModel.Fix
