import NasdaqModel.Lemmas.FixLemmas
/-
FIX codec, dictionaries whose repeating groups SHARE tags with what surrounds them (W-C13S).

`Lemmas/FixLemmas.lean` proves the decode-what-you-encoded families under `(deepTagsL es).Nodup` (all tags of a segment, nested ones
included, pairwise distinct).  Here the hypothesis is per LEVEL only (`ldEntry` / `ldLevel`: the entries of one segment / one group
have distinct tags, at every depth) and what ends a group instance / a group is carried by a value-dependent condition:

  `ceVal e v nxt`   - `nxt` is the tag that follows the value `v` of entry `e` on the wire (`none`: end of the bytes).  For a group:
                      every instance, looked at together with the tag that follows IT (`instFollows`: the group's first tag between
                      two instances, `nxt` after the last one), satisfies `levelOK` (that tag is no entry of the group, or the
                      instance already holds it: the instance loop stops there) and, recursively, `ceFields` (the same for every
                      nested group value, read in dictionary order).
  `Next nxt rest`   - the bytes `rest` begin with `<nxt>=` (or are empty for `none`): replaces `Starts P rest`.
  `DecOKS e`        - the decoding statement for one entry under that condition; replaces `DecOK` (whose side condition
                      `t ∉ innerTags e` needs globally distinct tags).
The invariant that replaces `Nodup (deepTagsL es)` in `segLoop_itemsS`: `(itemTags fs ++ keysOf acc).Nodup` (unchanged: the pending
items are new to the accumulated instance), `ceItemsL fs follow` (each pending item is followed by a tag that ends it) and the stop
clause "the tag after the last item is held already, or is pending - impossible -, or is unknown to this level".
-/
namespace NasdaqModel.Fix
open NasdaqModel Py

/-! ### per-level distinctness, any depth -/

mutual
/-- inside the entry, the entries of every group have distinct tags (at every depth) -/
def ldEntry : Entry → Bool
  | .field .. => true
  | .group _ sub _ => decide (tagsOf sub).Nodup && ldList sub
def ldList : List Entry → Bool
  | [] => true
  | e :: es => ldEntry e && ldList es
end

/-- a segment: its own entries have distinct tags and so have the entries of every group nested in it -/
def ldLevel (es : List Entry) : Bool := decide (tagsOf es).Nodup && ldList es

theorem ldList_mem {es : List Entry} (h : ldList es = true) : ∀ e ∈ es, ldEntry e = true := by
  induction es with
  | nil => intro e he; simp at he
  | cons x xs ih =>
    simp only [ldList, Bool.and_eq_true] at h
    intro e he
    rcases List.mem_cons.mp he with he | he
    · rw [he]; exact h.1
    · exact ih h.2 e he

/-- induction over the entries of a level-distinct dictionary -/
theorem ld_ind {P : Entry → Prop} (hf : ∀ t ty r, P (.field t ty r))
    (hg : ∀ t sub r, (tagsOf sub).Nodup → (∀ e ∈ sub, ldEntry e = true) → (∀ e ∈ sub, P e) → P (.group t sub r)) :
    ∀ e : Entry, ldEntry e = true → P e := by
  apply entry_ind
  · intro t ty r _; exact hf t ty r
  · intro t sub r ih h
    simp only [ldEntry, Bool.and_eq_true, decide_eq_true_eq] at h
    exact hg t sub r h.1 (ldList_mem h.2) (fun e he => ih e he (ldList_mem h.2 e he))

theorem ldLevel_parts {es : List Entry} (h : ldLevel es = true) : (tagsOf es).Nodup ∧ ∀ e ∈ es, ldEntry e = true := by
  simp only [ldLevel, Bool.and_eq_true, decide_eq_true_eq] at h
  exact ⟨h.1, ldList_mem h.2⟩

/-! ### what follows a value on the wire -/

/-- `rest` is empty (`none`) or begins with `<t>=` (`some t`) -/
def Next : Option Nat → Bytes → Prop
  | none, rest => rest = []
  | some t, rest => ∃ tail, rest = natDigits t ++ 61 :: tail

/-- the tag that follows on the wire when the items `fs` and then `follow` are pending -/
def headTag (fs : List Item) (follow : Option Nat) : Option Nat :=
  match fs with
  | [] => follow
  | x :: _ => some x.1.tag

theorem next_wireItems (fs : List Item) (rest : Bytes) (follow : Option Nat)
    (hfs : ∀ x ∈ fs, encEntry x.1 x.2.1 = .ok x.2.2) (h : Next follow rest) :
    Next (headTag fs follow) (wireItems fs ++ rest) := by
  cases fs with
  | nil => simpa [wireItems, termAll, headTag] using h
  | cons x fs =>
    obtain ⟨tl, htl⟩ := enc_head (hfs x (by simp))
    refine ⟨tl ++ 1 :: (wireItems fs ++ rest), ?_⟩
    rw [wireItems_cons, htl]
    simp

/-- every instance of a group value with the tag that follows it: the group's first tag, `nxt` after the last instance -/
def instFollows (first : Option Nat) : List Seg → Option Nat → List (Seg × Option Nat)
  | [], _ => []
  | [i], nxt => [(i, nxt)]
  | i :: j :: r, nxt => (i, first) :: instFollows first (j :: r) nxt

/-- the tag that follows a segment / an instance ends it: it is no entry of this level or the instance holds it already -/
def levelOK (es : List Entry) (s : Seg) : Option Nat → Bool
  | none => true
  | some f => !((tagsOf es).contains f && !hasKey s f)

/-- the tag of the first of the entries present in the instance, `follow` when there is none -/
def nextTag : List Entry → Seg → Option Nat → Option Nat
  | [], _, follow => follow
  | e :: es, inst, follow => if hasKey inst e.tag then some e.tag else nextTag es inst follow

mutual
/-- the count is what ends the group value `v` (and every group nested in it) when `nxt` follows it on the wire -/
def ceVal : Entry → Val → Option Nat → Bool
  | .group _ sub _, .grp insts, nxt =>
      (instFollows (sub.head?.map Entry.tag) insts nxt).all (fun p => levelOK sub p.1 p.2 && ceFields sub p.1 p.2)
  | _, _, _ => true
/-- the same for the values an instance holds, in dictionary (= wire) order -/
def ceFields : List Entry → Seg → Option Nat → Bool
  | [], _, _ => true
  | e :: es, inst, follow =>
      match lookupV inst e.tag with
      | some v => ceVal e v (nextTag es inst follow) && ceFields es inst follow
      | none => ceFields es inst follow
end

/-- the same for a list of pending items -/
def ceItemsL : List Item → Option Nat → Bool
  | [], _ => true
  | x :: r, follow => ceVal x.1 x.2.1 (headTag r follow) && ceItemsL r follow

/-- the first of the tags, `follow` when there is none -/
def tagOr (l : List Nat) (follow : Option Nat) : Option Nat :=
  match l with
  | [] => follow
  | t :: _ => some t

/-- the same for a top-level segment (wire order = insertion order) -/
def ceTop (es : List Entry) : Seg → Option Nat → Bool
  | [], _ => true
  | (t, v) :: rest, follow =>
      (match lookupE es t with
       | some e => ceVal e v (tagOr (keysOf rest) follow)
       | none => true) && ceTop es rest follow

/-! ### the segment loop -/

/-- the decoding statement for one entry: its encoding, followed by SOH and by bytes that begin with a tag which ends the value,
    is read back completely, as the canonical value -/
def DecOKS (e : Entry) : Prop :=
  ∀ v b rest nxt, wfVal e v = true → encEntry e v = .ok b → Next nxt rest → ceVal e v nxt = true →
    entryDec e (b ++ 1 :: rest) = .ok (b.length + 1, canonVal e v)

theorem segLoop_itemsS (es : List Entry) (htn : (tagsOf es).Nodup) (hP : ∀ e ∈ es, DecOKS e) :
    ∀ (fs : List Item) (acc : Seg) (c fuel : Nat) (rest : Bytes) (follow : Option Nat),
      (∀ x ∈ fs, x.1 ∈ es ∧ wfVal x.1 x.2.1 = true ∧ encEntry x.1 x.2.1 = .ok x.2.2) →
      (itemTags fs ++ keysOf acc).Nodup →
      fs.length < fuel →
      Next follow rest →
      ceItemsL fs follow = true →
      (∀ t, follow = some t → t ∈ keysOf acc ∨ t ∈ itemTags fs ∨ t ∉ tagsOf es) →
      segLoop (tableOf es) fuel (wireItems fs ++ rest) c acc
        = .ok (c + (wireItems fs).length, acc ++ canonItems fs) := by
  intro fs
  induction fs with
  | nil =>
    intro acc c fuel rest follow _ _ hfuel hnext _ hstop
    obtain ⟨fuel, rfl⟩ : ∃ f, fuel = f + 1 := ⟨fuel - 1, by simp at hfuel; omega⟩
    simp only [wireItems, List.map_nil, termAll_nil, List.nil_append, List.length_nil, Nat.add_zero, canonItems,
      List.append_nil]
    cases follow with
    | none =>
      simp only [Next] at hnext
      subst hnext
      rw [segLoop]
      simp
    | some t =>
      obtain ⟨tail, hrest⟩ := hnext
      subst hrest
      rw [segLoop_step]
      by_cases hk : t ∈ keysOf acc
      · simp [hasKey_iff.mpr hk]
      · rw [hasKey_false hk]
        have : t ∉ tagsOf es := by
          rcases hstop t rfl with hq | hq | hq
          · exact absurd hq hk
          · simp [itemTags] at hq
          · exact hq
        simp [lookupT_tableOf_none this]
  | cons x fs ih =>
    intro acc c fuel rest follow hfs hnodup hfuel hnext hce hstop
    obtain ⟨fuel, rfl⟩ : ∃ f, fuel = f + 1 := ⟨fuel - 1, by simp at hfuel; omega⟩
    obtain ⟨hxes, hxwf, hxenc⟩ := hfs x (by simp)
    obtain ⟨tl, htl⟩ := enc_head hxenc
    simp only [ceItemsL, Bool.and_eq_true] at hce
    have hform : x.2.2 ++ 1 :: (wireItems fs ++ rest)
        = natDigits x.1.tag ++ 61 :: (tl ++ 1 :: (wireItems fs ++ rest)) := by rw [htl]; simp
    -- the tag of `x` is new
    have hxk : x.1.tag ∉ keysOf acc := by
      intro hk
      simp only [itemTags, List.map_cons, List.cons_append, List.nodup_cons, List.mem_append, not_or] at hnodup
      exact hnodup.1.2 hk
    -- what follows `x` ends it
    have hfollow : Next (headTag fs follow) (wireItems fs ++ rest) :=
      next_wireItems fs rest follow (fun y hy => (hfs y (by simp [hy])).2.2) hnext
    have hdec := hP x.1 hxes x.2.1 x.2.2 (wireItems fs ++ rest) (headTag fs follow) hxwf hxenc hfollow hce.1
    rw [wireItems_cons, List.append_assoc, List.cons_append, hform, segLoop_step, hasKey_false hxk,
      lookupT_tableOf htn hxes]
    simp only [Bool.false_eq_true, if_false]
    rw [← hform, hdec]
    simp only [ok_bind]
    have hdrop : (x.2.2 ++ 1 :: (wireItems fs ++ rest)).drop (x.2.2.length + 1) = wireItems fs ++ rest := by
      have : x.2.2 ++ 1 :: (wireItems fs ++ rest) = (x.2.2 ++ [1]) ++ (wireItems fs ++ rest) := by simp
      rw [this, List.drop_left']
      simp
    rw [hdrop]
    have hnodup' : (itemTags fs ++ keysOf (acc ++ [(x.1.tag, canonVal x.1 x.2.1)])).Nodup := by
      simp only [itemTags, List.map_cons, List.cons_append, List.nodup_cons] at hnodup
      have h2 := hnodup.2
      have h1 := hnodup.1
      simp only [keysOf, List.map_append, List.map_cons, List.map_nil] at h1 h2 ⊢
      rw [← List.append_assoc]
      rw [List.nodup_append]
      refine ⟨h2, by simp, ?_⟩
      intro a ha b hb
      simp at hb
      subst hb
      intro hab
      subst hab
      exact h1 ha
    have hstop' : ∀ t, follow = some t →
        t ∈ keysOf (acc ++ [(x.1.tag, canonVal x.1 x.2.1)]) ∨ t ∈ itemTags fs ∨ t ∉ tagsOf es := by
      intro t ht
      rcases hstop t ht with h | h | h
      · exact Or.inl (by simp [keysOf] at h ⊢; exact Or.inl h)
      · simp only [itemTags, List.map_cons, List.mem_cons] at h
        rcases h with h | h
        · exact Or.inl (by simp [keysOf, h])
        · exact Or.inr (Or.inl h)
      · exact Or.inr (Or.inr h)
    rw [ih (acc ++ [(x.1.tag, canonVal x.1 x.2.1)]) (c + (x.2.2.length + 1)) fuel rest follow
      (fun y hy => hfs y (by simp [hy])) hnodup' (by simp at hfuel; omega) hnext hce.2 hstop']
    simp only [canonItems, List.map_cons, List.length_append, List.length_cons, List.append_assoc,
      List.cons_append, List.nil_append]
    congr 2
    omega

/-! ### group instances -/

theorem headTag_eq (fs : List Item) (follow : Option Nat) : headTag fs follow = tagOr (itemTags fs) follow := by
  cases fs <;> simp [headTag, itemTags, tagOr]

theorem nextTag_eq (es : List Entry) (inst : Seg) (follow : Option Nat) :
    nextTag es inst follow = tagOr ((es.filter (fun e => hasKey inst e.tag)).map Entry.tag) follow := by
  induction es with
  | nil => simp [nextTag, tagOr]
  | cons e es ih =>
    simp only [nextTag, List.filter_cons]
    by_cases hk : hasKey inst e.tag = true
    · simp [hk, tagOr]
    · simp only [hk, Bool.false_eq_true, if_false]
      exact ih

/-- the items `Group.to_bytes` writes for one instance: the entries present in it, in dictionary order; the
    count-ends condition of the instance is the one of its items -/
theorem encGroupFields_itemsS (sub : List Entry) (hnd : (tagsOf sub).Nodup) (inst : Seg) (hwf : wfFields sub inst = true) :
    ∀ (es' : List Entry) (fbs : List Bytes), (∀ e ∈ es', e ∈ sub) → encGroupFields es' inst = .ok fbs →
      ∃ fs : List Item, fs.map (fun x => x.2.2) = fbs ∧
        (∀ x ∈ fs, x.1 ∈ sub ∧ wfVal x.1 x.2.1 = true ∧ encEntry x.1 x.2.1 = .ok x.2.2) ∧
        itemTags fs = (es'.filter (fun e => hasKey inst e.tag)).map Entry.tag ∧
        canonFields es' inst = canonItems fs ∧
        ∀ follow, ceFields es' inst follow = ceItemsL fs follow := by
  intro es'
  induction es' with
  | nil =>
    intro fbs _ h
    simp only [encGroupFields, pure_eq_ok] at h
    injection h with h
    exact ⟨[], by simp [h], by simp, by simp [itemTags], by simp [canonFields, canonItems],
      by intro f; simp [ceFields, ceItemsL]⟩
  | cons e es' ih =>
    intro fbs hsub h
    have he : e ∈ sub := hsub e (by simp)
    simp only [encGroupFields] at h
    cases hl : lookupV inst e.tag with
    | none =>
      rw [hl] at h
      obtain ⟨fs, h1, h2, h3, h4, h5⟩ := ih fbs (fun x hx => hsub x (by simp [hx])) h
      have hk : hasKey inst e.tag = false := by simp [hasKey, hl]
      exact ⟨fs, h1, h2, by simp [h3, hk], by simp [canonFields, hl, h4], by intro f; simp [ceFields, hl, h5]⟩
    | some v =>
      rw [hl] at h
      simp only at h
      obtain ⟨b, hb, hh⟩ := bind_ok h
      obtain ⟨r, hr, hh2⟩ := bind_ok hh
      simp only [pure_eq_ok] at hh2
      injection hh2 with hfb
      obtain ⟨fs, h1, h2, h3, h4, h5⟩ := ih r (fun x hx => hsub x (by simp [hx])) hr
      have hk : hasKey inst e.tag = true := by simp [hasKey, hl]
      obtain ⟨e', hle, hwv⟩ := wfFields_mem hwf (lookupV_mem hl)
      have : e' = e := by
        have := lookupE_mem hnd he
        rw [hle] at this
        injection this
      subst this
      refine ⟨(e', v, b) :: fs, by simp [h1, ← hfb], ?_, by simp [itemTags, hk] at h3 ⊢; exact h3,
        by simp [canonFields, hl, h4, canonItems], ?_⟩
      · intro x hx
        rcases List.mem_cons.mp hx with hx | hx
        · subst hx; exact ⟨he, hwv, hb⟩
        · exact h2 x hx
      · intro f
        simp only [ceFields, hl, ceItemsL, h5]
        rw [nextTag_eq, headTag_eq, h3]

theorem mem_itemTags_of {sub : List Entry} {inst : Seg} {fs : List Item} {t : Nat}
    (h3 : itemTags fs = (sub.filter (fun e => hasKey inst e.tag)).map Entry.tag)
    (ht : t ∈ tagsOf sub) (hk : hasKey inst t = true) : t ∈ itemTags fs := by
  rw [h3]
  obtain ⟨e, he, rfl⟩ := List.mem_map.mp ht
  exact List.mem_map.mpr ⟨e, List.mem_filter.mpr ⟨he, hk⟩, rfl⟩

/-- the stop clause of the segment loop from `levelOK` -/
theorem stop_of_levelOK {sub : List Entry} {inst : Seg} {fs : List Item} {f : Option Nat}
    (h3 : itemTags fs = (sub.filter (fun e => hasKey inst e.tag)).map Entry.tag)
    (hl : levelOK sub inst f = true) :
    ∀ t, f = some t → t ∈ keysOf ([] : Seg) ∨ t ∈ itemTags fs ∨ t ∉ tagsOf sub := by
  intro t ht
  subst ht
  simp only [levelOK, Bool.not_eq_true', Bool.and_eq_false_iff, List.contains_eq_mem, decide_eq_false_iff_not,
    Bool.not_eq_false'] at hl
  rcases hl with hl | hl
  · exact Or.inr (Or.inr hl)
  · by_cases hm : t ∈ tagsOf sub
    · exact Or.inr (Or.inl (mem_itemTags_of h3 hm hl))
    · exact Or.inr (Or.inr hm)

/-- the instance loop of `GroupContainer.from_bytes` on the encodings of well-formed instances, each followed by a tag that ends it -/
theorem grpLoop_instsS (sub : List Entry) (htn : (tagsOf sub).Nodup) (hP : ∀ e ∈ sub, DecOKS e) :
    ∀ (insts : List Seg) (gs : List Bytes) (acc : List Seg) (c : Nat) (rest : Bytes) (nxt : Option Nat),
      wfInsts sub insts = true →
      All₂ (fun inst g => ∃ fbs, encGroupFields sub inst = .ok fbs ∧ g = joinSOH fbs) insts gs →
      Next nxt rest →
      (instFollows (sub.head?.map Entry.tag) insts nxt).all (fun p => levelOK sub p.1 p.2 && ceFields sub p.1 p.2) = true →
      grpLoop (tableOf sub) insts.length (termAll gs ++ rest) c acc
        = .ok (c + (termAll gs).length, acc ++ insts.map (canonFields sub)) := by
  intro insts
  induction insts with
  | nil =>
    intro gs acc c rest nxt _ hgs _ _
    cases hgs
    simp [grpLoop, termAll]
  | cons inst insts ih =>
    intro gs acc c rest nxt hwf hgs hrest hce
    cases hgs with
    | @cons _ g _ gs' hg hgs' =>
      obtain ⟨fbs, hfbs, rfl⟩ := hg
      simp only [wfInsts, Bool.and_eq_true, decide_eq_true_eq] at hwf
      obtain ⟨⟨⟨hwff, hfirst⟩, hkeys⟩, hwf'⟩ := hwf
      obtain ⟨fs, h1, h2, h3, h4, h5⟩ := encGroupFields_itemsS sub htn inst hwff sub fbs (fun e he => he) hfbs
      -- the first entry of the group is the first item
      cases sub with
      | nil => simp [firstPresent] at hfirst
      | cons e1 sub' =>
        simp only [firstPresent] at hfirst
        have hfs : ∃ x fs', fs = x :: fs' ∧ x.1.tag = e1.tag := by
          simp only [List.filter_cons, hfirst, if_true, List.map_cons] at h3
          cases fs with
          | nil => simp [itemTags] at h3
          | cons x fs' =>
            simp only [itemTags, List.map_cons] at h3
            injection h3 with h3 _
            exact ⟨x, fs', rfl, h3⟩
        obtain ⟨x, fs', rfl, hx1⟩ := hfs
        have hfbs_ne : fbs = x.2.2 :: fs'.map (fun x => x.2.2) := by rw [← h1]; simp
        have hg1 : joinSOH fbs ++ [1] = wireItems (x :: fs') := by
          rw [hfbs_ne, joinSOH_term]; simp [wireItems]
        have hbs : termAll (joinSOH fbs :: gs') ++ rest = wireItems (x :: fs') ++ (termAll gs' ++ rest) := by
          rw [termAll_cons, ← hg1]; simp
        have hne : (termAll (joinSOH fbs :: gs') ++ rest).isEmpty = false := by
          rw [termAll_cons]; simp
        -- the tag that follows this instance, and the condition for the remaining instances
        have hnext : ∃ f, Next f (termAll gs' ++ rest) ∧ levelOK (e1 :: sub') inst f = true ∧
            ceFields (e1 :: sub') inst f = true ∧
            (instFollows ((e1 :: sub').head?.map Entry.tag) insts nxt).all
              (fun p => levelOK (e1 :: sub') p.1 p.2 && ceFields (e1 :: sub') p.1 p.2) = true := by
          cases hgs' with
          | nil =>
            simp only [instFollows, List.all_cons, List.all_nil, Bool.and_true, Bool.and_eq_true] at hce
            exact ⟨nxt, by simpa [termAll_nil] using hrest, hce.1, hce.2, by simp [instFollows]⟩
          | @cons inst2 g2 insts2 gs2 hg2 _ =>
            simp only [instFollows, List.all_cons, Bool.and_eq_true] at hce
            refine ⟨some e1.tag, ?_, by simpa using hce.1.1, by simpa using hce.1.2, by simpa using hce.2⟩
            obtain ⟨fbs2, hfbs2, rfl⟩ := hg2
            simp only [wfInsts, Bool.and_eq_true, decide_eq_true_eq] at hwf'
            obtain ⟨⟨⟨hwff2, hfirst2⟩, _⟩, _⟩ := hwf'
            simp only [firstPresent] at hfirst2
            obtain ⟨fs2, k1, k2, k3, _⟩ := encGroupFields_items (e1 :: sub') htn inst2 hwff2 (e1 :: sub') fbs2 (fun e he => he) hfbs2
            simp only [List.filter_cons, hfirst2, if_true, List.map_cons] at k3
            cases fs2 with
            | nil => simp [itemTags] at k3
            | cons y fs2' =>
              simp only [itemTags, List.map_cons] at k3
              injection k3 with k3 _
              obtain ⟨tl, htl⟩ := enc_head (k2 y (by simp)).2.2
              have hf2 : fbs2 = y.2.2 :: fs2'.map (fun x => x.2.2) := by rw [← k1]; simp
              obtain ⟨tl2, htl2⟩ := joinSOH_cons_head y.2.2 (fs2'.map (fun x => x.2.2))
              refine ⟨tl ++ tl2 ++ 1 :: termAll gs2 ++ rest, ?_⟩
              rw [termAll_cons, hf2, htl2, htl, k3]; simp
        obtain ⟨f, hnf, hlev, hcef, hce'⟩ := hnext
        have hnodup : (itemTags (x :: fs') ++ keysOf ([] : Seg)).Nodup := by
          simp only [keysOf, List.map_nil, List.append_nil]
          rw [h3]
          exact (List.filter_sublist.map Entry.tag).nodup htn
        have hseg := segLoop_itemsS (e1 :: sub') htn hP (x :: fs') [] 0
          ((termAll (joinSOH fbs :: gs') ++ rest).length + 1) (termAll gs' ++ rest) f h2 hnodup
          (by rw [hbs]; have := wireItems_length_ge (x :: fs'); simp only [List.length_append]; omega) hnf
          (by rw [← h5]; exact hcef) (stop_of_levelOK h3 hlev)
        simp only [List.length_cons]
        rw [grpLoop, hne]
        simp only [Bool.false_eq_true, if_false, segFromBytes]
        rw [hbs] at hseg ⊢
        rw [hseg]
        simp only [ok_bind, Nat.zero_add, List.nil_append]
        rw [if_neg (by have := wireItems_length_ge (x :: fs'); simp only [List.length_cons] at this; omega)]
        rw [List.drop_left']
        · rw [ih gs' (acc ++ [canonItems (x :: fs')]) (c + (wireItems (x :: fs')).length) rest nxt hwf' hgs' hrest hce']
          rw [← h4]
          simp only [List.map_cons, List.append_assoc, List.cons_append, List.nil_append, termAll_cons, ← hg1,
            List.length_append, List.length_cons, List.length_nil]
          congr 2
          omega
        · rfl

/-! ### every entry decodes its own encoding -/

theorem decOKS_field (t : Nat) (ty : FTy) (r : Bool) : DecOKS (.field t ty r) := by
  intro v b rest nxt hwf henc _ _
  simp only [wfVal] at hwf
  simp only [encEntry] at henc
  obtain ⟨vb, hvb, h'⟩ := bind_ok henc
  simp only [pure_eq_ok] at h'
  injection h' with h'
  subst h'
  obtain ⟨h1, hback⟩ := prim_roundtrip hwf hvb
  simp only [entryDec]
  rw [fieldFromBytes_field ty t vb rest v h1 hback]
  cases v <;> simp [canonVal]

theorem decOKS_group (t : Nat) (sub : List Entry) (r : Bool) (htn : (tagsOf sub).Nodup)
    (hP : ∀ e ∈ sub, DecOKS e) : DecOKS (.group t sub r) := by
  intro v b rest nxt hwf henc hrest hce
  cases v with
  | grp insts =>
    simp only [wfVal] at hwf
    simp only [ceVal] at hce
    simp only [encEntry] at henc
    obtain ⟨gs, hgs, h⟩ := bind_ok henc
    simp only [pure_eq_ok] at h
    injection h with h
    subst h
    have hall := mapE_all₂ hgs
    have hall' : All₂ (fun inst g => ∃ fbs, encGroupFields sub inst = .ok fbs ∧ g = joinSOH fbs) insts gs := by
      apply hall.imp
      intro a b hab
      obtain ⟨fbs, hf, hh⟩ := bind_ok hab
      simp only [pure_eq_ok] at hh
      injection hh with hh
      exact ⟨fbs, hf, hh.symm⟩
    have hcnt : fieldFromBytes .int (fieldBytes t (intStr (insts.length : Int)) ++ 1 :: (termAll gs ++ rest))
        = .ok ((fieldBytes t (intStr (insts.length : Int))).length + 1, .int (insts.length : Int)) := by
      apply fieldFromBytes_field
      · exact intStr_no_soh _
      · simp only [tyFromBytes, decodeAscii, intStr_all_lt', if_true, ok_bind, parseIntAscii_intStr, pure_eq_ok]
    have hb : joinSOH (fieldBytes t (intStr (insts.length : Int)) :: gs) ++ 1 :: rest
        = fieldBytes t (intStr (insts.length : Int)) ++ 1 :: (termAll gs ++ rest) := by
      have := joinSOH_term (fieldBytes t (intStr (insts.length : Int))) gs
      have e : joinSOH (fieldBytes t (intStr (insts.length : Int)) :: gs) ++ 1 :: rest
          = (joinSOH (fieldBytes t (intStr (insts.length : Int)) :: gs) ++ [1]) ++ rest := by simp
      rw [e, this, termAll_cons]
      simp
    have hlen : (joinSOH (fieldBytes t (intStr (insts.length : Int)) :: gs)).length + 1
        = (fieldBytes t (intStr (insts.length : Int))).length + 1 + (termAll gs).length := by
      have := congrArg List.length (joinSOH_term (fieldBytes t (intStr (insts.length : Int))) gs)
      rw [termAll_cons] at this
      simp only [List.length_append, List.length_cons, List.length_nil] at this
      omega
    simp only [entryDec, containerFromBytes]
    rw [hb, hcnt]
    simp only [ok_bind, Int.toNat_natCast]
    have hdrop : (fieldBytes t (intStr (insts.length : Int)) ++ 1 :: (termAll gs ++ rest)).drop
        ((fieldBytes t (intStr (insts.length : Int))).length + 1) = termAll gs ++ rest := by
      have e : fieldBytes t (intStr (insts.length : Int)) ++ 1 :: (termAll gs ++ rest)
          = (fieldBytes t (intStr (insts.length : Int)) ++ [1]) ++ (termAll gs ++ rest) := by simp
      rw [e, List.drop_left']
      simp
    rw [hdrop, grpLoop_instsS sub htn hP insts gs [] _ rest nxt hwf hall' hrest hce]
    simp only [ok_bind, List.nil_append, List.length_map, ne_eq, not_true_eq_false, if_false, pure_eq_ok, canonVal]
    rw [hlen]
  | int _ => simp [wfVal] at hwf
  | flt _ => simp [wfVal] at hwf
  | bool _ => simp [wfVal] at hwf
  | str _ => simp [wfVal] at hwf

/-- **every entry of a level-distinct dictionary reads back what it wrote, when the count is what ends its groups** -/
theorem decOKS_all : ∀ e : Entry, ldEntry e = true → DecOKS e := by
  apply ld_ind
  · intro t ty r
    exact decOKS_field t ty r
  · intro t sub r htn _ ih
    exact decOKS_group t sub r htn ih

theorem decOKS_of_mem {es : List Entry} (h : ∀ e ∈ es, ldEntry e = true) : ∀ e ∈ es, DecOKS e :=
  fun e he => decOKS_all e (h e he)

/-! ### top-level segments -/

/-- the items `DataSegment.to_bytes` writes: the values in insertion order -/
theorem encSegFields_itemsS (es : List Entry) :
    ∀ (s : Seg) (fbs : List Bytes), wfFields es s = true → encSegFields es s = .ok fbs →
      ∃ fs : List Item, fs.map (fun x => x.2.2) = fbs ∧
        (∀ x ∈ fs, x.1 ∈ es ∧ wfVal x.1 x.2.1 = true ∧ encEntry x.1 x.2.1 = .ok x.2.2) ∧
        itemTags fs = keysOf s ∧ canonSeg es s = canonItems fs ∧
        ∀ follow, ceTop es s follow = ceItemsL fs follow := by
  intro s
  induction s with
  | nil =>
    intro fbs _ h
    have := mapE_nil_ok h
    exact ⟨[], by simp [this], by simp, by simp [itemTags, keysOf], by simp [canonSeg, canonItems],
      by intro f; simp [ceTop, ceItemsL]⟩
  | cons p s ih =>
    intro fbs hwf h
    obtain ⟨k, v⟩ := p
    obtain ⟨b, bs, hb, hbs, rfl⟩ := mapE_cons_ok h
    simp only [wfFields, Bool.and_eq_true] at hwf
    cases hl : lookupE es k with
    | none => rw [hl] at hwf; simp at hwf
    | some e =>
      rw [hl] at hwf
      simp only [hl] at hb
      obtain ⟨hmem, htag⟩ := lookupE_some hl
      obtain ⟨fs, h1, h2, h3, h4, h5⟩ := ih bs hwf.2 hbs
      refine ⟨(e, v, b) :: fs, by simp [h1], ?_, by simp [itemTags, keysOf, htag] at h3 ⊢; exact h3, ?_, ?_⟩
      · intro x hx
        rcases List.mem_cons.mp hx with hx | hx
        · subst hx; exact ⟨hmem, hwf.1, hb⟩
        · exact h2 x hx
      · simp only [canonSeg, List.map_cons, hl, canonItems, htag] at h4 ⊢
        rw [h4]
      · intro f
        simp only [ceTop, hl, ceItemsL, h5]
        rw [headTag_eq, h3]

theorem segFromBytes_segS (es : List Entry) (hld : ldLevel es = true) (s : Seg) (fbs : List Bytes)
    (hwf : wfSeg es s = true) (henc : encSegFields es s = .ok fbs) (rest : Bytes) (follow : Option Nat)
    (hrest : Next follow rest) (hlev : levelOK es s follow = true) (hce : ceTop es s follow = true) :
    segFromBytes (tableOf es) (termAll fbs ++ rest) = .ok ((termAll fbs).length, canonSeg es s) := by
  obtain ⟨htn, hlds⟩ := ldLevel_parts hld
  simp only [wfSeg, Bool.and_eq_true, decide_eq_true_eq] at hwf
  obtain ⟨fs, h1, h2, h3, h4, h5⟩ := encSegFields_itemsS es s fbs hwf.1 henc
  have hw : termAll fbs = wireItems fs := by simp [wireItems, h1]
  have hstop : ∀ t, follow = some t → t ∈ keysOf ([] : Seg) ∨ t ∈ itemTags fs ∨ t ∉ tagsOf es := by
    intro t ht
    subst ht
    simp only [levelOK, Bool.not_eq_true', Bool.and_eq_false_iff, List.contains_eq_mem, decide_eq_false_iff_not,
      Bool.not_eq_false'] at hlev
    rcases hlev with hl | hl
    · exact Or.inr (Or.inr hl)
    · exact Or.inr (Or.inl (by rw [h3]; exact hasKey_iff.mp hl))
  have := segLoop_itemsS es htn (decOKS_of_mem hlds) fs [] 0 ((termAll fbs ++ rest).length + 1) rest follow h2
    (by simpa [keysOf, h3] using hwf.2)
    (by rw [hw]; have := wireItems_length_ge fs; simp only [List.length_append]; omega)
    hrest (by rw [← h5]; exact hce) hstop
  unfold segFromBytes
  rw [hw] at this ⊢
  rw [this, h4]
  simp

end NasdaqModel.Fix
