import NasdaqModel.Model.Session
/-
Invariants of the session machine, proved for every event sequence (`runEvs`).

Part A — the close bookkeeping: `closed`, the close stage, and the shape of the observable trace
(transport closed once, close callback entered once after it, exited once after that, no message callback
started once the transport is closed).
-/
namespace NasdaqModel.Sess

/-! ### a monitor automaton over the observable trace -/

/-- phases: 0 open, 1 transport closed, 2 inside the close callback, 3 close callback returned; 9 = violation -/
def mon (p : Nat) (o : Obs) : Nat :=
  match o with
  | .tclose => if p = 0 then 1 else 9
  | .cbEnter => if p = 1 then 2 else 9
  | .cbExit => if p = 2 then 3 else 9
  | .msgEnter _ => if p = 0 then 0 else 9
  | _ => p

def monRun (l : List Obs) : Nat := l.foldl mon 0

theorem monRun_append (l : List Obs) (o : Obs) : monRun (l ++ [o]) = mon (monRun l) o := by
  simp [monRun, List.foldl_append]

/-- the phase the trace must be in, given the close stage -/
def phaseOf (cfg : Cfg) : CStage → Nat
  | .idle => 0
  | .body _ _ _ => 0
  | .cb _ _ _ => 2
  | .aborted => 2
  | .finished => if cfg.hasCb then 3 else 1

structure InvA (cfg : Cfg) (s : St) : Prop where
  closed_iff : s.closed = true ↔ s.cstage ≠ .idle
  qclosed : s.cstage ≠ .idle → s.qClosed = true
  phase : monRun s.trace = phaseOf cfg s.cstage
  hascb : (∃ t k c, s.cstage = .cb t k c) → cfg.hasCb = true

/-- the part of the state `InvA` talks about -/
def core (s : St) : Bool × CStage × Bool × List Obs := (s.closed, s.cstage, s.qClosed, s.trace)

theorem InvA.of_core {cfg : Cfg} {s s' : St} (h : core s' = core s) (i : InvA cfg s) : InvA cfg s' := by
  simp only [core, Prod.mk.injEq] at h
  obtain ⟨h1, h2, h3, h4⟩ := h
  exact ⟨by rw [h1, h2]; exact i.closed_iff, by rw [h2, h3]; exact i.qclosed, by rw [h4, h2]; exact i.phase,
    by rw [h2]; exact i.hascb⟩

/-! ### frame lemmas: helpers that do not touch the core -/

@[simp] theorem core_setStatus (s : St) (t : Tid) (x : Status) : core (s.setStatus t x) = core s := rfl
@[simp] theorem core_setProg (s : St) (t : Tid) (p : Prog) : core (s.setProg t p) = core s := rfl
@[simp] theorem core_spawn (s : St) (t : Tid) (p : Prog) : core (s.spawn t p) = core s := rfl
@[simp] theorem core_finish (s : St) (t : Tid) : core (s.finish t) = core s := rfl

@[simp] theorem core_cancelTask (s : St) (t : Tid) : core (s.cancelTask t) = core s := by
  unfold St.cancelTask
  split <;> try rfl
  split <;> rfl

@[simp] theorem core_wakeGetter (s : St) (t : Tid) : core (s.wakeGetter t) = core s := by
  unfold St.wakeGetter
  split <;> rfl

@[simp] theorem core_put (s : St) (m : Nat) : core (s.put m) = core s := by
  unfold St.put
  rw [core_wakeGetter, core_wakeGetter]; rfl

@[simp] theorem core_initiateClose (s : St) : core s.initiateClose = core s := by
  unfold St.initiateClose
  split <;> rfl

@[simp] theorem core_startDispatching (s : St) (cfg : Cfg) : core (s.startDispatching cfg) = core s := by
  unfold St.startDispatching
  split <;> rfl

@[simp] theorem core_startHeartbeats (s : St) : core s.startHeartbeats = core s := rfl

/-- emitting an observable that the monitor ignores -/
def neutral (o : Obs) : Bool :=
  match o with
  | .tclose => false | .cbEnter => false | .cbExit => false | .msgEnter _ => false
  | _ => true

theorem mon_neutral {o : Obs} (h : neutral o = true) (p : Nat) : mon p o = p := by
  cases o <;> simp_all [neutral, mon]

theorem InvA.emit_neutral {cfg : Cfg} {s : St} (i : InvA cfg s) {o : Obs} (h : neutral o = true) :
    InvA cfg (s.emit o) :=
  ⟨i.closed_iff, i.qclosed, by
    show monRun (s.trace ++ [o]) = _
    rw [monRun_append, mon_neutral h]; exact i.phase, i.hascb⟩

/-! ### the close body -/

theorem InvA.runCont {cfg : Cfg} {s : St} (i : InvA cfg s) (t : Tid) (c : Cont) : InvA cfg (runCont s t c) := by
  cases c with
  | readerTail => exact InvA.of_core (s := s) rfl i
  | handlerTail n =>
      have := i.emit_neutral (o := .msgExit n) rfl
      exact InvA.of_core (s := s.emit (.msgExit n)) rfl this
  | monitorTail => exact InvA.of_core (s := s) rfl i
  | closingTail => exact InvA.of_core (s := s) rfl i
  | userTail u r =>
      have := i.emit_neutral (o := .ret u r.toRes) rfl
      exact InvA.of_core (s := s.emit (.ret u r.toRes)) rfl this

/-- what `execClose` needs of the state it starts from: the body is in progress, nothing of the
    closing sequence is in the trace yet -/
structure PreClose (s : St) (t : Tid) (c : Cont) : Prop where
  closed : s.closed = true
  stage : ∃ pc, s.cstage = .body t pc c
  phase0 : monRun s.trace = 0
  qclosed : s.qClosed = true

theorem PreClose.of_core {s s' : St} {t : Tid} {c : Cont} (h : core s' = core s) (p : PreClose s t c) : PreClose s' t c := by
  simp only [core, Prod.mk.injEq] at h
  obtain ⟨h1, h2, h3, h4⟩ := h
  exact ⟨by rw [h1]; exact p.closed, by rw [h2]; exact p.stage, by rw [h4]; exact p.phase0, by rw [h3]; exact p.qclosed⟩

/-- **Proof rule for the close body.** To show `Q` of the state in which `execClose` stops, it is enough that `P` is kept
    by the stage bookkeeping and that `Q` holds where the closer suspends and where the body ends. -/
theorem execClose_rule (cfg : Cfg) (t : Tid) (c : Cont) (P Q : St → Prop)
    (hd : ∀ s, P s → P { s with dispSet := false })
    (hr : ∀ s, P s → P { s with rStopped := true })
    (hsusp : ∀ s x pc, P s → stopTarget pc = some x → x ≠ t → alive (s.status x) = true → Q (suspendOn s t x pc c))
    (htail : ∀ s, P s → Q (closeTail cfg s t c)) :
    ∀ (pc : Nat) (s : St), P s → Q (execClose cfg s t c pc) := by
  have stage : ∀ (s : St) (j : Nat) (x : Tid) (next : St → St), stopTarget j = some x → P s →
      (∀ s', P s' → Q (next s')) → Q (stopStage s t c j x next) := by
    intro s j x next hj p hn
    unfold stopStage
    split
    · exact hn s p
    · rename_i hx
      simp only [Bool.or_eq_true, decide_eq_true_eq, Bool.not_eq_true', not_or] at hx
      exact hsusp s x j p hj hx.1 (by simpa using hx.2)
  have h6 : ∀ s, P s → Q (ec6 cfg t c s) := fun s p => htail s p
  have h5 : ∀ s, P s → Q (ec5 cfg t c s) := fun s p => h6 _ (hr s p)
  have h4 : ∀ s, P s → Q (ec4 cfg t c s) := by
    intro s p
    unfold ec4
    split
    · exact h6 s p
    · exact stage s 4 .R _ rfl p h5
  have h3 : ∀ s, P s → Q (ec3 cfg t c s) := fun s p => stage s 3 .M _ rfl p h4
  have h2 : ∀ s, P s → Q (ec2 cfg t c s) := fun s p => stage s 2 .L _ rfl p h3
  have h1 : ∀ s, P s → Q (ec1 cfg t c s) := fun s p => stage s 1 .V _ rfl p h2
  have h0 : ∀ s, P s → Q (ec0 cfg t c s) := fun s p => stage s 0 .D _ rfl p (fun s' p' => h1 _ (hd s' p'))
  intro pc s p
  unfold execClose
  split
  · exact h0 s p
  · exact h1 s p
  · exact h2 s p
  · exact h3 s p
  · exact h4 s p
  · exact h5 s p
  · exact h6 s p

theorem closeTail_InvA {cfg : Cfg} {s : St} {t : Tid} {c : Cont} (p : PreClose s t c) : InvA cfg (closeTail cfg s t c) := by
  unfold closeTail
  have ph1 : monRun (s.emit .tclose).trace = 1 := by
    show monRun (s.trace ++ [.tclose]) = 1
    rw [monRun_append, p.phase0]; rfl
  simp only
  split
  · rename_i hcb
    have hcb' : cfg.hasCb = false := by simpa using hcb
    apply InvA.runCont
    exact ⟨by simp [St.emit, p.closed], fun _ => p.qclosed, by
      show monRun (s.emit .tclose).trace = phaseOf cfg .finished
      rw [ph1]; simp [phaseOf, hcb'], by simp⟩
  · rename_i hcb
    have hcb' : cfg.hasCb = true := by simpa using hcb
    have ph2 : monRun ((s.emit .tclose).emit .cbEnter).trace = 2 := by
      show monRun ((s.emit .tclose).trace ++ [.cbEnter]) = 2
      rw [monRun_append, ph1]; rfl
    split
    · exact ⟨by simp [St.emit, St.setProg, St.setStatus, p.closed], fun _ => p.qclosed, by
        show monRun ((s.emit .tclose).emit .cbEnter).trace = phaseOf cfg (.cb t _ c)
        rw [ph2]; rfl, fun _ => hcb'⟩
    · apply InvA.runCont
      exact ⟨by simp [St.emit, p.closed], fun _ => p.qclosed, by
        show monRun (((s.emit .tclose).emit .cbEnter).trace ++ [.cbExit]) = phaseOf cfg .finished
        rw [monRun_append, ph2]; simp [phaseOf, hcb', mon], by simp⟩

theorem execClose_InvA (cfg : Cfg) (t : Tid) (c : Cont) (pc : Nat) (s : St) (p : PreClose s t c) :
    InvA cfg (execClose cfg s t c pc) := by
  refine execClose_rule cfg t c (fun s => PreClose s t c) (InvA cfg) ?_ ?_ ?_ ?_ pc s p
  · intro s p; exact ⟨p.closed, p.stage, p.phase0, p.qclosed⟩
  · intro s p; exact ⟨p.closed, p.stage, p.phase0, p.qclosed⟩
  · intro s x pc p _ _ _
    have hc : core (s.cancelTask x) = core s := core_cancelTask s x
    simp only [core, Prod.mk.injEq] at hc
    refine ⟨?_, ?_, ?_, by simp [suspendOn]⟩
    · simp only [suspendOn, St.setProg, St.setStatus, hc.1, p.closed]; simp
    · intro _; show (s.cancelTask x).qClosed = true; rw [hc.2.2.1]; exact p.qclosed
    · show monRun (s.cancelTask x).trace = phaseOf cfg (.body t (pc + 1) c)
      rw [hc.2.2.2]; exact p.phase0
  · intro s p; exact closeTail_InvA p

theorem enterClose_InvA {cfg : Cfg} {s : St} (i : InvA cfg s) (t : Tid) (c : Cont) :
    InvA cfg (enterClose cfg s t c) := by
  unfold enterClose
  split
  · exact i.runCont t c
  · rename_i hc
    have hidle : s.cstage = .idle := by
      by_cases h : s.cstage = .idle
      · exact h
      · exact absurd (i.closed_iff.mpr h) hc
    apply execClose_InvA
    exact ⟨rfl, ⟨0, rfl⟩, by show monRun s.trace = 0; rw [i.phase, hidle]; rfl, rfl⟩

theorem stepInClose_InvA {cfg : Cfg} {s : St} (i : InvA cfg s) (t : Tid) (b : Bool) :
    InvA cfg (stepInClose cfg s t b) := by
  unfold stepInClose
  split
  · rename_i t' pc c hs
    split
    · rename_i htt; subst htt
      unfold resumeClose
      have hne : s.cstage ≠ .idle := by rw [hs]; simp
      have hcl : s.closed = true := i.closed_iff.mpr hne
      have hq : s.qClosed = true := i.qclosed hne
      have hph : monRun s.trace = 0 := by rw [i.phase, hs]; rfl
      apply execClose_InvA
      split
      · exact ⟨hcl, ⟨pc, hs⟩, hph, hq⟩
      · exact ⟨hcl, ⟨pc, hs⟩, hph, hq⟩
    · exact i
  · rename_i t' k c hs
    have hne : s.cstage ≠ .idle := by rw [hs]; simp
    have hcl : s.closed = true := i.closed_iff.mpr hne
    have hq : s.qClosed = true := i.qclosed hne
    have hph : monRun s.trace = 2 := by rw [i.phase, hs]; rfl
    have hcb : cfg.hasCb = true := i.hascb ⟨t', k, c, hs⟩
    split
    · split
      · split
        · rename_i u r
          refine ⟨by simp [St.finish, St.emit, hcl], fun _ => hq, ?_, by simp [St.finish, St.emit]⟩
          show monRun (s.trace ++ [.ret u .cancelled]) = phaseOf cfg .aborted
          rw [monRun_append, hph]; rfl
        · exact ⟨by simp [St.finish, hcl], fun _ => hq, by show monRun s.trace = 2; exact hph, by simp [St.finish]⟩
      · split
        · apply InvA.runCont
          refine ⟨by simp [St.emit, hcl], fun _ => hq, ?_, by simp [St.emit]⟩
          show monRun (s.trace ++ [.cbExit]) = phaseOf cfg .finished
          rw [monRun_append, hph]; simp [phaseOf, hcb, mon]
        · exact ⟨by simp [hcl], fun _ => hq, by show monRun s.trace = 2; exact hph, fun _ => hcb⟩
    · exact i
  · exact i

theorem InvA.of_core_emit {cfg : Cfg} {s s' : St} {o : Obs}
    (h : core s' = (s.closed, s.cstage, s.qClosed, s.trace ++ [o])) (hn : neutral o = true) (i : InvA cfg s) :
    InvA cfg s' :=
  InvA.of_core (s := s.emit o) h (i.emit_neutral hn)

theorem InvA.emit_msgEnter {cfg : Cfg} {s : St} (i : InvA cfg s) (hq : s.qClosed = false) (n : Nat) :
    InvA cfg (s.emit (.msgEnter n)) := by
  have hidle : s.cstage = .idle := by
    by_cases h : s.cstage = .idle
    · exact h
    · have := i.qclosed h; rw [hq] at this; contradiction
  refine ⟨i.closed_iff, i.qclosed, ?_, i.hascb⟩
  show monRun (s.trace ++ [.msgEnter n]) = phaseOf cfg s.cstage
  rw [monRun_append, i.phase, hidle]; rfl

/-- An invariant that reads only the core of the state and is kept by the close body: the whole `step` keeps it. -/
structure CoreInv (cfg : Cfg) (J : St → Prop) : Prop where
  of_core : ∀ {s s' : St}, core s' = core s → J s → J s'
  emit_neutral : ∀ {s : St} {o : Obs}, neutral o = true → J s → J (s.emit o)
  emit_msgEnter : ∀ (s : St) (n : Nat), s.qClosed = false → J s → J (s.emit (.msgEnter n))
  enterClose' : ∀ {s : St}, J s → ∀ (t : Tid) (c : Cont), J (enterClose cfg s t c)
  stepInClose' : ∀ {s : St}, J s → ∀ (t : Tid) (b : Bool), J (stepInClose cfg s t b)

theorem CoreInv.of_core_emit {cfg : Cfg} {J : St → Prop} (h : CoreInv cfg J) {s s' : St} {o : Obs}
    (hc : core s' = (s.closed, s.cstage, s.qClosed, s.trace ++ [o])) (hn : neutral o = true) (i : J s) : J s' :=
  h.of_core (s := s.emit o) hc (h.emit_neutral hn i)

/-- closing tactic for goals `J s'` where `s'` is `s` (with `i : J s` in scope) changed outside the
    core, possibly after emitting one neutral observable -/
macro "inva" i:ident : tactic => `(tactic| first
  | exact $i
  | (refine CoreInv.of_core ‹CoreInv _ _› ?_ $i; rfl)
  | (refine CoreInv.of_core_emit ‹CoreInv _ _› (o := ?o) ?h ?hn $i; (case h => rfl); (case hn => rfl)))

theorem stepReader_J {cfg : Cfg} {J : St → Prop} (h : CoreInv cfg J) {s : St} (i : J s) : J (stepReader cfg s) := by
  unfold stepReader
  split
  · inva i
  · split
    · exact i
    · rename_i f rest _
      cases f with
      | msg n => exact h.of_core (core_put _ n) (by inva i)
      | hb => inva i
      | logout => exact h.enterClose' (by inva i) _ _
      | bad => exact h.enterClose' (by inva i) _ _

theorem dispHandle_J {cfg : Cfg} {J : St → Prop} (h : CoreInv cfg J) {s : St} (i : J s) (n : Nat) : J (dispHandle cfg s n) := by
  unfold dispHandle
  split
  · inva i
  · inva i
  · exact h.enterClose' i _ _
  · have i2 : J s.initiateClose := h.of_core (core_initiateClose _) i
    inva i2
  · inva i
  · have i2 : J (s.emit (.write .reply)).startHeartbeats := by inva i
    inva i2
  · exact h.enterClose' (by inva i) _ _

theorem stepDisp_J {cfg : Cfg} {J : St → Prop} (h : CoreInv cfg J) {s : St} (i : J s) : J (stepDisp cfg s) := by
  unfold stepDisp
  split
  · inva i
  · rename_i hq
    have hq' : s.qClosed = false := by simpa using hq
    split
    · exact i
    · split
      · inva i
      · apply dispHandle_J h
        exact h.of_core (s := s.emit (.msgEnter _)) rfl (h.emit_msgEnter _ _ hq' i)

theorem stepMon_J {cfg : Cfg} {J : St → Prop} (h : CoreInv cfg J) {s : St} (i : J s) (b : Bool) : J (stepMon cfg s b) := by
  unfold stepMon
  split
  · split
    · inva i
    · inva i
  · split
    · inva i
    · exact h.enterClose' i _ _

theorem loginResume_J {cfg : Cfg} {J : St → Prop} (h : CoreInv cfg J) {s : St} (i : J s) (t : Tid) (u : Nat) :
    J (loginResume cfg s t u) := by
  unfold loginResume
  split
  · rename_i n _
    have i1 : J ((({ s with vres := none, rcvBusy := false, gone := s.gone ++ [(n, true)] } : St)).emit (.loginReply n)) := by inva i
    simp only
    split
    · have i2 := h.of_core (core_startDispatching _ cfg) (h.of_core (core_startHeartbeats _) i1)
      inva i2
    · exact h.enterClose' i1 _ _
  · split
    · inva i
    · exact h.enterClose' (by inva i) _ _

theorem stepRun_J {cfg : Cfg} {J : St → Prop} (h : CoreInv cfg J) {s : St} (i : J s) (t : Tid) : J (stepRun cfg s t) := by
  unfold stepRun
  have i0 : J { s with imm := none } := by inva i
  generalize ({ s with imm := none } : St) = s0 at i0
  simp only
  split
  · -- cancelled
    split
    · inva i0
    · inva i0
    · split <;> inva i0
    · split
      · inva i0
      · exact h.enterClose' (by inva i0) _ _
    · exact h.stepInClose' i0 _ _
    · inva i0
  · -- ready
    split
    · split
      · exact stepReader_J h i0
      · exact i0
    · split
      · exact stepDisp_J h i0
      · exact i0
    · split <;> inva i0
    · inva i0
    · split
      · exact stepMon_J h i0 _
      · split
        · exact stepMon_J h i0 _
        · exact i0
    · exact h.enterClose' i0 _ _
    · exact h.stepInClose' i0 _ _
    · split
      · inva i0
      · split <;> inva i0
    · split
      · inva i0
      · split <;> inva i0
    · exact loginResume_J h i0 _ _
    · exact i0
  · exact i0

theorem startRecv_J {cfg : Cfg} {J : St → Prop} (h : CoreInv cfg J) {s : St} (i : J s) (u : Nat) (b : Bool) : J (startRecv s u b) := by
  unfold startRecv
  split
  · exact i
  · split
    · inva i
    · split
      · inva i
      · split
        · split <;> inva i
        · inva i

theorem step_J {cfg : Cfg} {J : St → Prop} (h : CoreInv cfg J) {s : St} (i : J s) (ev : Ev) : J (step cfg s ev) := by
  cases ev with
  | connect =>
    simp only [step]
    split
    · exact i
    · split
      · exact h.of_core (core_startDispatching _ _) (by inva i)
      · inva i
  | data fs => inva i
  | eof => exact h.of_core (core_initiateClose _) i
  | run t =>
    simp only [step]
    split
    · exact stepRun_J h i t
    · exact i
  | callClose u =>
    simp only [step]
    split
    · exact i
    · exact h.enterClose' (by inva i) _ _
  | callInitiateClose => exact h.of_core (core_initiateClose _) i
  | callLogout =>
    have i1 : J ({ (s.emit (.write .logout)) with pingL := true }) := by inva i
    exact h.of_core (core_initiateClose _) i1
  | callRecv u =>
    simp only [step]
    split
    · exact i
    · exact startRecv_J h i u false
  | callRecvNowait u =>
    simp only [step]
    split
    · exact i
    · split
      · inva i
      · split
        · inva i
        · split <;> inva i
  | callLogin u =>
    simp only [step]
    split
    · exact i
    · exact startRecv_J h (by inva i) u true
  | callSend => inva i
  | cancel u => exact h.of_core (core_cancelTask _ _) i

theorem InvA.coreInv (cfg : Cfg) : CoreInv cfg (InvA cfg) where
  of_core := InvA.of_core
  emit_neutral := fun hn i => i.emit_neutral hn
  emit_msgEnter := fun _ n hq i => i.emit_msgEnter hq n
  enterClose' := fun i t c => enterClose_InvA i t c
  stepInClose' := fun i t b => stepInClose_InvA i t b

theorem step_InvA {cfg : Cfg} {s : St} (i : InvA cfg s) (ev : Ev) : InvA cfg (step cfg s ev) :=
  step_J (InvA.coreInv cfg) i ev

theorem InvA.init (cfg : Cfg) : InvA cfg {} :=
  ⟨by simp, by simp, rfl, by simp⟩

/-- **Invariant A holds in every reachable state.** -/
theorem runEvs_InvA (cfg : Cfg) (evs : List Ev) : InvA cfg (runEvs cfg {} evs) := by
  have : ∀ (s : St), InvA cfg s → InvA cfg (runEvs cfg s evs) := by
    induction evs with
    | nil => intro s i; exact i
    | cons ev evs ih => intro s i; exact ih _ (step_InvA i ev)
  exact this _ (InvA.init cfg)

end NasdaqModel.Sess
