import NasdaqModel.Lemmas.FixLemmas
/-
Lemmas for C13 at full strength (`Props/C13Anchor.lean`): the anchored `Message.get_msg_type` (after /repo a2cfe01) finds the
MsgType field of an encoded message wherever it stands in the header.

  * the wire of any well-formed value is a sequence of *atoms* `tag=value SOH` whose values contain no SOH and whose tags
    are tags of the dictionary (`atomsOK_all`, nested groups included);
  * `SOH 35=` can begin only at an atom boundary, and there only when the whole tag is 35 (`isPrefix35_natDigits`:
    decimal tags have no leading zeros) — `findSub_s35_atoms` skips every atom with another tag, whatever its value;
  * the two branches of the code (`startswith` / `find(SOH + b'35=') + 3`) are one search in `SOH + bytes`
    (`getMsgType_atoms`).
-/
namespace NasdaqModel.Fix
open NasdaqModel Py

/-! ### atoms -/

/-- one `tag=value` -/
abbrev Atom := Nat × Bytes

/-- the atoms on the wire, each followed by SOH -/
def termAtoms (A : List Atom) : Bytes := termAll (A.map (fun a => fieldBytes a.1 a.2))

/-- the atoms, each *preceded* by SOH -/
def ledAtoms : List Atom → Bytes
  | [] => []
  | a :: A => 1 :: (fieldBytes a.1 a.2 ++ ledAtoms A)

theorem termAtoms_nil : termAtoms [] = [] := rfl

theorem termAtoms_cons (a : Atom) (A : List Atom) : termAtoms (a :: A) = fieldBytes a.1 a.2 ++ 1 :: termAtoms A := by
  simp [termAtoms, termAll_cons]

theorem termAtoms_append (A B : List Atom) : termAtoms (A ++ B) = termAtoms A ++ termAtoms B := by
  simp [termAtoms, termAll_append]

/-- moving every SOH from behind its atom to the front of the next one -/
theorem led_term (A : List Atom) : 1 :: termAtoms A = ledAtoms A ++ [1] := by
  induction A with
  | nil => rfl
  | cons a A ih =>
    rw [termAtoms_cons, ledAtoms]
    simp only [List.cons_append, List.append_assoc]
    rw [← ih]

/-- `P` holds of every atom's tag, and no value contains SOH -/
def AtomsIn (T : Nat → Prop) (A : List Atom) : Prop := ∀ a ∈ A, T a.1 ∧ 1 ∉ a.2

theorem AtomsIn.mono {T U : Nat → Prop} {A : List Atom} (h : AtomsIn T A) (htu : ∀ t, T t → U t) : AtomsIn U A :=
  fun a ha => ⟨htu _ (h a ha).1, (h a ha).2⟩

theorem AtomsIn.append {T : Nat → Prop} {A B : List Atom} (ha : AtomsIn T A) (hb : AtomsIn T B) : AtomsIn T (A ++ B) := by
  intro a hm
  rcases List.mem_append.mp hm with hm | hm
  · exact ha a hm
  · exact hb a hm

/-- parts that are atoms (once terminated) concatenate to atoms -/
theorem atoms_of_parts (T : Nat → Prop) : ∀ (parts : List Bytes),
    (∀ p ∈ parts, ∃ A, p ++ [1] = termAtoms A ∧ AtomsIn T A) → ∃ A, termAll parts = termAtoms A ∧ AtomsIn T A
  | [], _ => ⟨[], rfl, fun a ha => absurd ha (by simp)⟩
  | p :: ps, h => by
    obtain ⟨A, hA, tA⟩ := h p (by simp)
    obtain ⟨B, hB, tB⟩ := atoms_of_parts T ps (fun q hq => h q (by simp [hq]))
    refine ⟨A ++ B, ?_, tA.append tB⟩
    rw [termAll_cons, termAtoms_append, ← hA, ← hB]
    simp

/-- the encoding of a well-formed value, terminated, is a sequence of atoms with tags of the entry -/
def AtomsOK (e : Entry) : Prop :=
  ∀ v b, wfVal e v = true → encEntry e v = .ok b → ∃ A, b ++ [1] = termAtoms A ∧ AtomsIn (· ∈ deepTags e) A

theorem atomsOK_all : ∀ e : Entry, (deepTags e).Nodup → AtomsOK e := by
  apply entry_ind
  · intro t ty r _ v b hwf henc
    simp only [wfVal] at hwf
    simp only [encEntry] at henc
    obtain ⟨vb, hvb, h⟩ := bind_ok henc
    simp only [pure_eq_ok] at h
    injection h with h
    subst h
    refine ⟨[(t, vb)], by simp [termAtoms_cons, termAtoms_nil], ?_⟩
    intro a ha
    simp only [List.mem_singleton] at ha
    subst ha
    exact ⟨by simp [deepTags], (prim_roundtrip hwf hvb).1⟩
  · intro t sub r ih hnd v b hwf henc
    simp only [deepTags, List.nodup_cons] at hnd
    cases v with
    | grp insts =>
      simp only [wfVal] at hwf
      simp only [encEntry] at henc
      obtain ⟨gs, hgs, h⟩ := bind_ok henc
      simp only [pure_eq_ok] at h
      injection h with h
      subst h
      have hall := mapE_all₂ hgs
      have key : ∀ {is : List Seg} {gl : List Bytes},
          All₂ (fun a b => (encGroupFields sub a >>= fun fs => pure (joinSOH fs)) = Except.ok b) is gl →
          wfInsts sub is = true → ∀ x ∈ gl, ∃ A, x ++ [1] = termAtoms A ∧ AtomsIn (· ∈ deepTagsL sub) A := by
        intro is gl hal
        induction hal with
        | nil => intro _ x hx; simp at hx
        | @cons inst g insts' gs' hg _ ih2 =>
          intro hwf x hx
          simp only [wfInsts, Bool.and_eq_true, decide_eq_true_eq] at hwf
          obtain ⟨⟨⟨hwff, hfirst⟩, _⟩, hwf'⟩ := hwf
          rcases List.mem_cons.mp hx with hx | hx
          · subst hx
            obtain ⟨fbs, hf, hh⟩ := bind_ok hg
            simp only [pure_eq_ok] at hh
            injection hh with hh
            subst hh
            obtain ⟨fs, h1, h2, h3, _⟩ := encGroupFields_items sub (nodup_tagsOf hnd.2) inst hwff sub fbs (fun e he => he) hf
            have hne : fbs ≠ [] := by
              cases sub with
              | nil => simp [firstPresent] at hfirst
              | cons e1 sub' =>
                simp only [firstPresent] at hfirst
                simp only [List.filter_cons, hfirst, if_true, List.map_cons] at h3
                intro hnil
                rw [hnil] at h1
                simp at h1
                rw [h1] at h3
                simp [itemTags] at h3
            obtain ⟨A, hA, tA⟩ := atoms_of_parts (· ∈ deepTagsL sub) fbs (by
              intro y hy
              rw [← h1] at hy
              obtain ⟨it, hit, rfl⟩ := List.mem_map.mp hy
              obtain ⟨hm, hw, he⟩ := h2 it hit
              obtain ⟨A, hA, tA⟩ := ih it.1 hm (nodup_deepTags_of_mem hm hnd.2) it.2.1 it.2.2 hw he
              exact ⟨A, hA, tA.mono (fun t ht => deepTags_sub_deepTagsL hm t ht)⟩)
            refine ⟨A, ?_, tA⟩
            cases fbs with
            | nil => exact absurd rfl hne
            | cons f0 fl => rw [joinSOH_term, hA]
          · exact ih2 hwf' x hx
      obtain ⟨A, hA, tA⟩ := atoms_of_parts (· ∈ deepTagsL sub) gs (key hall hwf)
      refine ⟨(t, intStr (insts.length : Int)) :: A, ?_, ?_⟩
      · rw [joinSOH_term, termAll_cons, termAtoms_cons, hA]
      · intro a ha
        rcases List.mem_cons.mp ha with ha | ha
        · subst ha
          exact ⟨by simp [deepTags], intStr_no_soh (insts.length : Int)⟩
        · exact ⟨by simp only [deepTags, List.mem_cons]; exact Or.inr (tA a ha).1, (tA a ha).2⟩
    | int _ => simp [wfVal] at hwf
    | flt _ => simp [wfVal] at hwf
    | bool _ => simp [wfVal] at hwf
    | str _ => simp [wfVal] at hwf

theorem deepTags_eq (e : Entry) : deepTags e = e.tag :: innerTags e := by
  cases e <;> simp [deepTags, innerTags, Entry.tag]

/-- the fields of a well-formed segment (a part of one, in assignment order), terminated, are atoms whose tags belong to
    the entries that were assigned -/
theorem seg_atoms (es : List Entry) (hnd : (deepTagsL es).Nodup) (s : Seg) (fbs : List Bytes)
    (hwf : wfFields es s = true) (henc : encSegFields es s = .ok fbs) (T : Nat → Prop)
    (hT : ∀ e ∈ es, e.tag ∈ keysOf s → ∀ t ∈ deepTags e, T t) :
    ∃ A, termAll fbs = termAtoms A ∧ AtomsIn T A := by
  obtain ⟨fs, h1, h2, h3, _⟩ := encSegFields_items es s fbs hwf henc
  apply atoms_of_parts T fbs
  intro y hy
  rw [← h1] at hy
  obtain ⟨it, hit, rfl⟩ := List.mem_map.mp hy
  obtain ⟨hm, hw, he⟩ := h2 it hit
  obtain ⟨A, hA, tA⟩ := atomsOK_all it.1 (nodup_deepTags_of_mem hm hnd) it.2.1 it.2.2 hw he
  refine ⟨A, hA, tA.mono (hT it.1 hm ?_)⟩
  rw [← h3]
  exact List.mem_map.mpr ⟨it, hit, rfl⟩

/-! ### splitting a segment at one of its fields -/

theorem mapE_append_ok {α β : Type} {f : α → Except Err β} : ∀ {l₁ l₂ : List α} {r : List β},
    mapE f (l₁ ++ l₂) = .ok r → ∃ r₁ r₂, mapE f l₁ = .ok r₁ ∧ mapE f l₂ = .ok r₂ ∧ r = r₁ ++ r₂
  | [], _, r, h => ⟨[], r, rfl, by simpa using h, rfl⟩
  | a :: as, l₂, r, h => by
    obtain ⟨b, bs, hb, hbs, rfl⟩ := mapE_cons_ok (show mapE f (a :: (as ++ l₂)) = .ok r from h)
    obtain ⟨r₁, r₂, h1, h2, rfl⟩ := mapE_append_ok hbs
    exact ⟨b :: r₁, r₂, by simp only [mapE, hb, h1, ok_bind, pure_eq_ok], h2, rfl⟩

theorem wfFields_append_inv {es : List Entry} : ∀ {a b : Seg}, wfFields es (a ++ b) = true →
    wfFields es a = true ∧ wfFields es b = true
  | [], _, h => ⟨rfl, by simpa using h⟩
  | (t, v) :: a, b, h => by
    simp only [List.cons_append, wfFields, Bool.and_eq_true] at h
    obtain ⟨h1, h2⟩ := wfFields_append_inv h.2
    exact ⟨by simp only [wfFields, Bool.and_eq_true]; exact ⟨h.1, h1⟩, h2⟩

/-! ### where `SOH 35=` can occur -/

/-- decimal tags have no leading zeros and contain no `=`: a field that begins with `35=` has tag 35 -/
theorem isPrefix35_natDigits (t : Nat) (Z : Bytes) (h : List.isPrefixOf [51, 53, 61] (natDigits t ++ 61 :: Z) = true) :
    t = 35 := by
  have hd := natDigits_all_digit t
  have hv := digitsVal_natDigits t
  match hl : natDigits t, hd, hv with
  | [], _, _ => rw [hl] at h; simp [List.isPrefixOf] at h
  | [a], _, _ => rw [hl] at h; simp [List.isPrefixOf] at h
  | [a, b], _, hv =>
    rw [hl] at h
    simp only [List.cons_append, List.nil_append, List.isPrefixOf, Bool.and_eq_true, beq_iff_eq] at h
    obtain ⟨ha, hb, _⟩ := h
    subst ha; subst hb
    rw [← hv]; rfl
  | a :: b :: c :: l, hd, _ =>
    rw [hl] at h
    simp only [List.cons_append, List.isPrefixOf, Bool.and_eq_true, beq_iff_eq] at h
    have := hd c (by simp)
    rw [← h.2.2.1] at this
    exact absurd this (by decide)

/-- the tag 35 is written `35` -/
theorem natDigits_35 : natDigits 35 = [51, 53] := by decide

/-- no match of `SOH 35=` begins inside bytes that contain no SOH -/
theorem findSub_s35_skip (u X : Bytes) (h : 1 ∉ u) :
    findSub [1, 51, 53, 61] (u ++ X) = (findSub [1, 51, 53, 61] X).map (· + u.length) := by
  induction u with
  | nil => simp
  | cons c u ih =>
    have hc : ¬ (1 = c) := by intro e; exact h (by simp [e])
    have hu : 1 ∉ u := by intro e; exact h (by simp [e])
    have hp : List.isPrefixOf [1, 51, 53, 61] (c :: (u ++ X)) = false := by
      simp [List.isPrefixOf, hc]
    simp only [List.cons_append, findSub, hp, Bool.false_eq_true, if_false, ih hu, List.length_cons]
    cases findSub [1, 51, 53, 61] X with
    | none => rfl
    | some k => simp; omega

/-- `SOH tag=value` with another tag than 35 and a value without SOH is skipped by the search, whatever the value holds
    (`35=` included) and whatever the tag ends in (`135`) -/
theorem findSub_s35_atom (t : Nat) (v X : Bytes) (ht : t ≠ 35) (hv : 1 ∉ v) :
    findSub [1, 51, 53, 61] (1 :: (fieldBytes t v ++ X))
      = (findSub [1, 51, 53, 61] X).map (· + ((fieldBytes t v).length + 1)) := by
  have hp : List.isPrefixOf [1, 51, 53, 61] (1 :: (fieldBytes t v ++ X)) = false := by
    cases hh : List.isPrefixOf [1, 51, 53, 61] (1 :: (fieldBytes t v ++ X)) with
    | false => rfl
    | true =>
      have e : fieldBytes t v ++ X = natDigits t ++ 61 :: (v ++ X) := by simp [fieldBytes]
      rw [e] at hh
      simp only [List.isPrefixOf, beq_self_eq_true, Bool.true_and] at hh
      exact absurd (isPrefix35_natDigits t (v ++ X) (by simpa [List.isPrefixOf] using hh)) ht
  have h1 : 1 ∉ fieldBytes t v := by
    intro hm
    simp only [fieldBytes, List.mem_append, List.mem_cons] at hm
    rcases hm with hm | hm | hm
    · exact natDigits_no t 1 (by decide) hm
    · exact absurd hm (by decide)
    · exact hv hm
  simp only [findSub, hp, Bool.false_eq_true, if_false, findSub_s35_skip _ X h1]
  cases findSub [1, 51, 53, 61] X with
  | none => rfl
  | some k => simp; omega

theorem findSub_s35_atoms (A : List Atom) (X : Bytes) (hA : AtomsIn (· ≠ 35) A) :
    findSub [1, 51, 53, 61] (ledAtoms A ++ X) = (findSub [1, 51, 53, 61] X).map (· + (ledAtoms A).length) := by
  induction A with
  | nil => simp [ledAtoms]
  | cons a A ih =>
    have ih' := ih (fun x hx => hA x (by simp [hx]))
    obtain ⟨ht, hv⟩ := hA a (by simp)
    simp only [ledAtoms, List.cons_append, List.append_assoc]
    rw [findSub_s35_atom a.1 a.2 _ ht hv, ih']
    cases findSub [1, 51, 53, 61] X with
    | none => rfl
    | some k => simp; omega

/-! ### `get_msg_type` -/

/-- the two branches of the code are one search in `SOH + bytes`: when the first `SOH 35=` of `SOH + bytes` is the one after
    `Q`, `get_msg_type` returns the value of that field -/
theorem getMsgType_at' (Q ty rest : Bytes)
    (hfind : findSub [1, 51, 53, 61] (1 :: (Q ++ [1] ++ [51, 53, 61] ++ (ty ++ 1 :: rest))) = some (Q.length + 1))
    (h1 : 1 ∉ ty) (ha : ty.all (· < 128) = true) :
    getMsgType (Q ++ [1] ++ [51, 53, 61] ++ (ty ++ 1 :: rest)) = .ok ty := by
  simp only [findSub] at hfind
  split at hfind
  · simp at hfind
  · rename_i hp
    have ep : List.isPrefixOf [51, 53, 61] (Q ++ [1] ++ [51, 53, 61] ++ (ty ++ 1 :: rest)) = false := by
      have e : List.isPrefixOf [1, 51, 53, 61] (1 :: (Q ++ [1] ++ [51, 53, 61] ++ (ty ++ 1 :: rest)))
          = List.isPrefixOf [51, 53, 61] (Q ++ [1] ++ [51, 53, 61] ++ (ty ++ 1 :: rest)) := by
        simp only [List.isPrefixOf, beq_self_eq_true, Bool.true_and]
      rw [e] at hp
      exact Bool.eq_false_iff.mpr hp
    have e0 : findSub [1, 51, 53, 61] (Q ++ [1] ++ [51, 53, 61] ++ (ty ++ 1 :: rest)) = some Q.length := by
      cases hf : findSub [1, 51, 53, 61] (Q ++ [1] ++ [51, 53, 61] ++ (ty ++ 1 :: rest)) with
      | none => rw [hf] at hfind; simp at hfind
      | some k => rw [hf] at hfind; simp at hfind; rw [hfind]
    have e1 : findFrom [1] (Q ++ [1] ++ [51, 53, 61] ++ (ty ++ 1 :: rest)) (Q.length + 3) = some (Q.length + 4 + ty.length) := by
      rw [findFrom_eq _ _ _ (by simp)]
      have : (Q ++ [1] ++ [51, 53, 61] ++ (ty ++ 1 :: rest)).drop (Q.length + 3) = (61 :: ty) ++ 1 :: rest := by
        have e : Q ++ [1] ++ [51, 53, 61] ++ (ty ++ 1 :: rest) = (Q ++ [1, 51, 53]) ++ ((61 :: ty) ++ 1 :: rest) := by simp
        rw [e, List.drop_left' (by simp)]
      rw [this, findSub_one_append 1 (61 :: ty) rest (by
        intro hm; rcases List.mem_cons.mp hm with hm | hm
        · exact absurd hm (by decide)
        · exact h1 hm)]
      simp; omega
    unfold getMsgType
    simp only [ep, Bool.false_eq_true, if_false, e0, e1]
    have : (List.take (Q.length + 4 + ty.length) (Q ++ [1] ++ [51, 53, 61] ++ (ty ++ 1 :: rest))).drop (Q.length + 3 + 1) = ty := by
      have e : Q ++ [1] ++ [51, 53, 61] ++ (ty ++ 1 :: rest) = (Q ++ [1] ++ [51, 53, 61] ++ ty) ++ 1 :: rest := by simp
      rw [e, List.take_left' (by simp; omega)]
      have e2 : Q ++ [1] ++ [51, 53, 61] ++ ty = (Q ++ [1] ++ [51, 53, 61]) ++ ty := by simp
      rw [e2, List.drop_left' (by simp)]
    rw [this]
    unfold decodeAscii
    rw [if_pos ha]

/-- **the MsgType field behind any atoms with other tags.**  Bytes that consist of fields with tags other than 35 (values
    without SOH, otherwise arbitrary) followed by `35=<type>SOH` name that type. -/
theorem getMsgType_atoms (A : List Atom) (ty R : Bytes) (hA : AtomsIn (· ≠ 35) A) (h1 : 1 ∉ ty)
    (ha : ty.all (· < 128) = true) :
    getMsgType (termAtoms A ++ ([51, 53, 61] ++ ty ++ 1 :: R)) = .ok ty := by
  cases A with
  | nil => simpa [termAtoms_nil] using getMsgType_first ty R h1 ha
  | cons a A =>
    -- `termAtoms (a :: A) = Q ++ [SOH]`
    have hq : termAtoms (a :: A) = (fieldBytes a.1 a.2 ++ ledAtoms A) ++ [1] := by
      have := led_term (a :: A)
      simp only [ledAtoms, List.cons_append] at this
      injection this with _ this
    have hbytes : termAtoms (a :: A) ++ ([51, 53, 61] ++ ty ++ 1 :: R)
        = (fieldBytes a.1 a.2 ++ ledAtoms A) ++ [1] ++ [51, 53, 61] ++ (ty ++ 1 :: R) := by
      rw [hq]; simp
    rw [hbytes]
    apply getMsgType_at' _ _ _ _ h1 ha
    have e : 1 :: ((fieldBytes a.1 a.2 ++ ledAtoms A) ++ [1] ++ [51, 53, 61] ++ (ty ++ 1 :: R))
        = ledAtoms (a :: A) ++ ([1, 51, 53, 61] ++ (ty ++ 1 :: R)) := by
      simp [ledAtoms]
    rw [e, findSub_s35_atoms (a :: A) _ hA]
    have : findSub [1, 51, 53, 61] ([1, 51, 53, 61] ++ (ty ++ 1 :: R)) = some 0 := by
      simp [findSub, List.isPrefixOf]
    rw [this]
    simp [ledAtoms]

/-! ### the MsgType field of an encoded message -/

/-- **`get_msg_type` on the bytes of a well-formed message** whose header holds `35 = <type>` at any position: the fields
    assigned before it are atoms with other tags (keys of a segment are distinct, tags of the dictionary are distinct at
    every depth), so the first anchored `35=` is the MsgType field. -/
theorem getMsgType_encMsg {d : MsgDef} {m : Msg} {bs : Bytes} (hd : wfDef d = true) (hm : wfMsg d m = true)
    (henc : encMsg d m = .ok bs) {ty : Str} (hmem : (35, Val.str ty) ∈ m.hdr) {r : Bool}
    (hentry : lookupE d.hdr 35 = some (.field 35 .string r)) :
    getMsgType bs = .ok ty := by
  obtain ⟨fh, fb, ft, hfh, _, _, rfl⟩ := encMsg_wire hd hm henc
  obtain ⟨nh, _, _, _, _, _⟩ := wfDef_parts hd
  simp only [wfMsg, Bool.and_eq_true] at hm
  obtain ⟨⟨⟨wh, _⟩, _⟩, _⟩ := hm
  simp only [wfSeg, Bool.and_eq_true, decide_eq_true_eq] at wh
  obtain ⟨wf, nk⟩ := wh
  obtain ⟨s1, s2, hs⟩ := List.append_of_mem hmem
  rw [hs] at wf nk hfh
  -- the three parts of the header
  obtain ⟨w1, w2⟩ := wfFields_append_inv wf
  obtain ⟨f1, f2', hf1, hf2, rfl⟩ := mapE_append_ok (show mapE _ (s1 ++ (35, Val.str ty) :: s2) = .ok fh from hfh)
  obtain ⟨b, f2, hb, _, rfl⟩ := mapE_cons_ok hf2
  -- the MsgType field itself
  simp only [wfFields, hentry, wfVal, wfPrim, Bool.and_eq_true] at w2
  obtain ⟨hta, ht1⟩ := wfText_iff w2.1
  simp only [hentry, encEntry, tyToBytes, encodeAscii, hta, if_true, ok_bind, pure_eq_ok] at hb
  injection hb with hb
  subst hb
  -- 35 is not among the keys assigned before it
  have hk : 35 ∉ keysOf s1 := by
    simp only [keysOf, List.map_append, List.map_cons] at nk
    rw [List.nodup_append] at nk
    intro h35
    exact nk.2.2 35 h35 35 (by simp) rfl
  obtain ⟨h35mem, _⟩ := lookupE_some hentry
  obtain ⟨A, hA, tA⟩ := seg_atoms d.hdr nh s1 f1 w1 hf1 (· ≠ 35) (by
    intro e he hek t ht h35
    subst h35
    rw [deepTags_eq] at ht
    rcases List.mem_cons.mp ht with ht | ht
    · rw [← ht] at hek; exact hk hek
    · exact tag_not_inner nh e he _ h35mem (by simpa [Entry.tag] using ht))
  have hbytes : termAll (f1 ++ fieldBytes 35 ty :: f2) ++ termAll fb ++ termAll ft
      = termAtoms A ++ ([51, 53, 61] ++ ty ++ 1 :: (termAll f2 ++ termAll fb ++ termAll ft)) := by
    rw [termAll_append, termAll_cons, hA]
    simp [fieldBytes, natDigits_35]
  rw [hbytes]
  exact getMsgType_atoms A ty _ tA ht1 hta

end NasdaqModel.Fix
