import NasdaqModel.Lemmas.AppSessionLemmasK
import NasdaqModel.Lemmas.MonitorLemmas
/-
Invariants of the application-session product machine, part 4: the position inside `_on_soup_close` follows the inner close
stage (`InvY`).
-/
namespace NasdaqModel.App
open NasdaqModel

/-- what one run of (a piece of) `_on_soup_close` by closer `t` leaves behind: still inside (inner state untouched), or returned —
    the closer's inner step has happened -/
def SeqOut (a : ACfg) (s : St) (t : Sess.Tid) (s' : St) : Prop :=
  (s'.inner = s.inner ∧ midStage s'.cpc = true) ∨
  (s'.inner = Sess.step (innerCfg a) s.inner (.run t) ∧ s'.cpc = .finished)

theorem innerStep_cpc (a : ACfg) (s : St) (e : Sess.Ev) : (innerStep a s e).cpc = s.cpc := by
  rw [innerStep_eq]
  generalize (entered _) = ns
  have : ∀ (ns : List Nat) (s1 : St), (feed a s1 ns).cpc = s1.cpc := by
    intro ns
    induction ns with
    | nil => intro s1; rfl
    | cons n ns ih =>
      intro s1
      show (feed a (feed1 a s1 n) ns).cpc = s1.cpc
      rw [ih]
      unfold feed1
      split
      · unfold St.put2 St.wake2; split <;> split <;> rfl
      · rfl
  rw [this]; rfl

theorem construct_cpc (a : ACfg) (s : St) : (construct a s).cpc = s.cpc := by
  unfold construct
  split
  · simp only; split <;> rfl
  · rfl

@[simp] theorem cpc_d2Return (s : St) : (d2Return s).cpc = s.cpc := by
  unfold d2Return
  split
  · split
    · split <;> rfl
    · rfl
    · rfl
  · rfl

theorem finishClose_out (a : ACfg) (s : St) (t : Sess.Tid) : SeqOut a s t (finishClose a s t) := by
  refine Or.inr ⟨?_, ?_⟩
  · unfold finishClose; rw [inner_d2Return, innerStep_inner]
  · unfold finishClose; rw [cpc_d2Return, innerStep_cpc]

theorem SeqOut.pre {a : ACfg} {s s0 s' : St} {t : Sess.Tid} (h0 : s0.inner = s.inner) (h : SeqOut a s0 t s') : SeqOut a s t s' := by
  unfold SeqOut at h ⊢
  rw [h0] at h; exact h

theorem endCb_out (a : ACfg) (s : St) (t : Sess.Tid) : SeqOut a s t (endCb a s t) :=
  SeqOut.pre (s0 := (s.emit2 .cbExit).setEvent) (by simp) (finishClose_out a _ t)

theorem afterStop_out (a : ACfg) (s : St) (t : Sess.Tid) : SeqOut a s t (afterStop a s t) := by
  unfold afterStop
  simp only
  split
  · exact SeqOut.pre (by simp) (finishClose_out a _ t)
  · split
    · exact Or.inl ⟨rfl, rfl⟩
    · exact SeqOut.pre (by simp) (endCb_out a _ t)
    · exact SeqOut.pre (by simp) (endCb_out a _ t)

theorem stopV2_out (a : ACfg) (s : St) (t : Sess.Tid) : SeqOut a s t (stopV2 a s t) := by
  unfold stopV2
  split
  · exact Or.inl ⟨by simp, rfl⟩
  · exact afterStop_out a s t

theorem stopD2_out (a : ACfg) (s : St) (t : Sess.Tid) : SeqOut a s t (stopD2 a s t) := by
  unfold stopD2
  split
  · exact Or.inl ⟨by simp, rfl⟩
  · exact SeqOut.pre (s0 := { s with disp2Set := false }) rfl (stopV2_out a _ t)

theorem onSoupClose_out (a : ACfg) (s : St) (t : Sess.Tid) : SeqOut a s t (onSoupClose a s t) := by
  unfold onSoupClose
  split
  · exact finishClose_out a s t
  · have key : ∀ s1 : St, s1.inner = s.inner →
        SeqOut a s t (if s1.q2Closed = true then afterStop a s1 t else stopD2 a { s1 with q2Closed := true } t) := by
      intro s1 h1
      split
      · exact SeqOut.pre h1 (afterStop_out a _ t)
      · exact SeqOut.pre (s0 := { s1 with q2Closed := true }) h1 (stopD2_out a _ t)
    exact key _ (by split <;> rfl)

/-- the closer resumes: still inside, returned, or — cancelled by the user inside the user's callback — aborted -/
theorem resumeSoupClose_out (a : ACfg) (s : St) (t : Sess.Tid) (hm : midStage s.cpc = true) :
    SeqOut a s t (resumeSoupClose a s t) ∨
    (s.inner.status t = .cancelled ∧ (resumeSoupClose a s t).inner = Sess.step (innerCfg a) s.inner (.run t) ∧
      (resumeSoupClose a s t).cpc = .aborted) := by
  unfold resumeSoupClose
  split
  · exact Or.inl (SeqOut.pre (s0 := { s with disp2Set := false }) rfl (stopV2_out a _ t))
  · exact Or.inl (afterStop_out a s t)
  · split
    · rename_i hc
      refine Or.inr ⟨hc, ?_, ?_⟩
      · rw [innerStep_inner]
      · rw [innerStep_cpc]
    · split
      · exact Or.inl (endCb_out a s t)
      · exact Or.inl (Or.inl ⟨rfl, rfl⟩)
  · exact Or.inl (Or.inl ⟨rfl, hm⟩)

/-! ### facts about the inner state from its reachability -/

def IReachable (a : ACfg) (i : Sess.St) : Prop := ∃ es, i = Sess.runEvs (innerCfg a) {} es

theorem IReachable.step {a : ACfg} {i : Sess.St} (h : IReachable a i) (e : Sess.Ev) :
    IReachable a (Sess.step (innerCfg a) i e) := by
  obtain ⟨es, h⟩ := h
  exact ⟨es ++ [e], by rw [h]; simp [Sess.runEvs, List.foldl_append]⟩

theorem IReachable.invs {a : ACfg} {i : Sess.St} (h : IReachable a i) :
    Sess.InvA (innerCfg a) i ∧ Sess.InvR i ∧ Sess.InvB i := by
  obtain ⟨es, h⟩ := h
  rw [h]; exact Sess.runEvs_InvARB _ es

/-- inside the inner close callback: the session reports closed, the transport has been closed, the closer is runnable -/
theorem cb_facts {a : ACfg} {i : Sess.St} (h : IReachable a i) {t : Sess.Tid} {k : Nat} {c : Sess.Cont}
    (hs : i.cstage = .cb t k c) :
    i.closed = true ∧ Sess.Obs.tclose ∈ i.trace ∧ i.prog t = .inClose ∧ (i.status t = .ready ∨ i.status t = .cancelled) := by
  obtain ⟨ia, _, ibb⟩ := h.invs
  have hne : i.cstage ≠ .idle := by rw [hs]; simp
  have hph : Sess.monRun i.trace = 2 := by rw [ia.phase, hs]; rfl
  obtain ⟨hp, hst, _⟩ := ibb.cb t k c hs
  refine ⟨ia.closed_iff.mpr hne, ?_, hp, hst⟩
  apply Sess.tclose_mem_of_phase
  · show Sess.monRun i.trace ≠ 9; rw [hph]; simp
  · show 1 ≤ Sess.monRun i.trace; rw [hph]; simp

/-- the closer's inner step out of the callback stage `cb t 0 c` ends the close: finished, or aborted -/
theorem closer_step_final {a : ACfg} {i : Sess.St} (h : IReachable a i) {t : Sess.Tid} {c : Sess.Cont}
    (hs : i.cstage = .cb t 0 c) :
    (i.status t = .ready → (Sess.step (innerCfg a) i (.run t)).cstage = .finished) ∧
    (i.status t = .cancelled → (Sess.step (innerCfg a) i (.run t)).cstage = .aborted) := by
  obtain ⟨_, _, hp, _⟩ := cb_facts h hs
  exact ⟨fun hst => Sess.step_closer_ready _ i t c hs hp hst, fun hst => Sess.step_closer_cancelled _ i t c hs hp hst⟩

/-! ### `InvY` -/

theorem InvY.frame {a : ACfg} {s s' : St} (i : InvY a s) (h1 : s'.inner = s.inner) (h2 : s'.cpc = s.cpc) : InvY a s' := by
  obtain ⟨r, s1, s2, s3, s4⟩ := i
  exact ⟨by rw [h1]; exact r, by rw [h1, h2]; exact s1, by rw [h1, h2]; exact s2, by rw [h1, h2]; exact s3,
    by rw [h1, h2]; exact s4⟩

theorem InvY.reachable {a : ACfg} {s : St} (i : InvY a s) : IReachable a s.inner := i.reach

/-- `InvY` for a state whose inner close has just ended with `cpc = finished` -/
theorem InvY.of_finished {a : ACfg} {s' : St} (hr : IReachable a s'.inner) (hc : s'.cpc = .finished)
    (hs : s'.inner.cstage = .finished ∨ s'.inner.cstage = .aborted) : InvY a s' := by
  refine ⟨hr, ?_, ?_, fun _ => hc, fun _ => Or.inl hc⟩
  · rintro (h | ⟨t, pc, c, h⟩) <;> rcases hs with hs | hs <;> rw [hs] at h <;> contradiction
  · intro t k c h; rcases hs with hs | hs <;> rw [hs] at h <;> contradiction

/-- a piece of `_on_soup_close` run by the closer `t` of the callback stage `cb t 0 c` -/
theorem InvY.of_out {a : ACfg} {s s' : St} {t : Sess.Tid} {c : Sess.Cont} (hr : IReachable a s.inner)
    (hs : s.inner.cstage = .cb t 0 c) (h : SeqOut a s t s') : InvY a s' := by
  rcases h with ⟨h1, h2⟩ | ⟨h1, h2⟩
  · refine ⟨by rw [h1]; exact hr, ?_, ?_, ?_, ?_⟩
    · rw [h1]; rintro (h | ⟨t', pc, c', h⟩) <;> rw [hs] at h <;> contradiction
    · rw [h1]; intro t' k c' h; rw [hs] at h; cases h; exact ⟨rfl, h2⟩
    · rw [h1, hs]; intro h; contradiction
    · rw [h1, hs]; intro h; contradiction
  · refine InvY.of_finished (by rw [h1]; exact hr.step _) h2 ?_
    rw [h1]
    obtain ⟨_, _, _, hst⟩ := cb_facts hr hs
    obtain ⟨f1, f2⟩ := closer_step_final hr hs
    rcases hst with hst | hst
    · exact Or.inl (f1 hst)
    · exact Or.inr (f2 hst)

theorem passInner_inner_pre (a : ACfg) (s : St) (e : Sess.Ev) :
    (construct a (innerStep a s e)).inner = Sess.step (innerCfg a) s.inner e ∧
    (construct a (innerStep a s e)).cpc = s.cpc := by
  rw [construct_inner, innerStep_inner, construct_cpc, innerStep_cpc]
  exact ⟨rfl, rfl⟩

theorem passInner_Y {a : ACfg} {s : St} (i : InvY a s) (e : Sess.Ev)
    (hne : ∀ t, closerOf s.inner = some t → e ≠ .run t) : InvY a (passInner a s e) := by
  obtain ⟨hi, hc⟩ := passInner_inner_pre a s e
  have hr' : IReachable a (Sess.step (innerCfg a) s.inner e) := i.reachable.step e
  obtain ⟨ia, _, _⟩ := i.reachable.invs
  unfold passInner
  simp only
  generalize construct a (innerStep a s e) = s2 at hi hc
  -- where the inner machine was
  cases hst : s.inner.cstage with
  | cb t k c =>
    obtain ⟨hk, hm⟩ := i.s2 t k c hst
    have hcl : s.inner.closed = true := ia.closed_iff.mpr (by rw [hst]; simp)
    have hfr : (Sess.step (innerCfg a) s.inner e).cstage = .cb t k c :=
      Sess.step_cb_frame _ _ t k c e hcl hst (hne t (by simp [closerOf, hst]))
    have hcpc : s2.cpc ≠ .idle := by rw [hc]; intro h; rw [h] at hm; simp [midStage] at hm
    have hres : InvY a s2 := by
      refine ⟨by rw [hi]; exact hr', ?_, ?_, ?_, ?_⟩
      · rw [hi]; rintro (h | ⟨t', pc, c', h⟩) <;> rw [hfr] at h <;> contradiction
      · rw [hi, hc]; intro t' k' c' h; rw [hfr] at h; cases h; exact ⟨hk, hm⟩
      · rw [hi, hfr]; intro h; contradiction
      · rw [hi, hfr]; intro h; contradiction
    split
    · rename_i h2; exact absurd h2 hcpc
    · exact hres
  | finished =>
    have hcl : s.inner.closed = true := ia.closed_iff.mpr (by rw [hst]; simp)
    have hfin := Sess.step_finished_final (innerCfg a) s.inner e hcl hst
    have hcf : s2.cpc = .finished := by rw [hc]; exact i.s3 hst
    split
    · rename_i h2; rw [hcf] at h2; contradiction
    · exact InvY.of_finished (by rw [hi]; exact hr') hcf (Or.inl (by rw [hi]; exact hfin))
  | aborted =>
    have hcl : s.inner.closed = true := ia.closed_iff.mpr (by rw [hst]; simp)
    have hfin := Sess.step_aborted_final (innerCfg a) s.inner e hcl hst
    have hcf : s2.cpc = .finished ∨ s2.cpc = .aborted := by rw [hc]; exact i.s4 hst
    split
    · rename_i h2; rcases hcf with h | h <;> rw [h] at h2 <;> contradiction
    · refine ⟨by rw [hi]; exact hr', ?_, ?_, ?_, fun _ => hcf⟩
      · rw [hi]; rintro (h | ⟨t', pc, c', h⟩) <;> rw [hfin] at h <;> contradiction
      · rw [hi]; intro t' k' c' h; rw [hfin] at h; contradiction
      · rw [hi, hfin]; intro h; contradiction
  | _ =>
    -- idle / body: the callback has not been entered
    all_goals
      have hpre : Sess.preCb s.inner := by
        first
          | exact Or.inl hst
          | exact Or.inr ⟨_, _, _, hst⟩
      have hidle : s2.cpc = .idle := by rw [hc]; exact i.s1 hpre
      have hpost := Sess.step_postCb (innerCfg a) rfl rfl s.inner e ia hpre
      rcases hpost with hp | ⟨t, c, hcb⟩
      · have hcl : closerOf s2.inner = none := by
          rw [hi]; unfold closerOf
          rcases hp with h | ⟨t', pc, c', h⟩ <;> rw [h]
        split
        · rename_i h1 _; rw [hcl] at h1; contradiction
        · refine ⟨by rw [hi]; exact hr', fun _ => hidle, ?_, ?_, ?_⟩
          · rw [hi]; intro t' k' c' h; rcases hp with h' | ⟨t'', pc, c'', h'⟩ <;> rw [h'] at h <;> contradiction
          · rw [hi]; intro h; rcases hp with h' | ⟨t'', pc, c'', h'⟩ <;> rw [h'] at h <;> contradiction
          · rw [hi]; intro h; rcases hp with h' | ⟨t'', pc, c'', h'⟩ <;> rw [h'] at h <;> contradiction
      · have hcl : closerOf s2.inner = some t := by rw [hi]; unfold closerOf; rw [hcb]
        split
        · rename_i t' h1 _
          rw [hcl] at h1; cases h1
          exact InvY.of_out (s := s2) (by rw [hi]; exact hr') (by rw [hi]; exact hcb) (onSoupClose_out a s2 t)
        · rename_i hno
          exact absurd hidle (hno t hcl)

end NasdaqModel.App
