import NasdaqModel.Lemmas.AppSessionLemmasY
/-
Invariants of the application-session product machine, part 5: every event keeps `InvY`, `InvB2`, `InvS`.
-/
namespace NasdaqModel.App
open NasdaqModel

/-! ### inner events -/

theorem resumeSoupClose_Y {a : ACfg} {s : St} (i : InvY a s) {t : Sess.Tid} (hcl : closerOf s.inner = some t) :
    InvY a (resumeSoupClose a s t) := by
  obtain ⟨k, c, hs⟩ : ∃ k c, s.inner.cstage = .cb t k c := by
    unfold closerOf at hcl
    split at hcl
    · rename_i t' k c h; cases hcl; exact ⟨k, c, h⟩
    · contradiction
  obtain ⟨hk, hm⟩ := i.s2 t k c hs
  subst hk
  rcases resumeSoupClose_out a s t hm with h | ⟨hst, h1, h2⟩
  · exact InvY.of_out i.reachable hs h
  · have hfin := (closer_step_final i.reachable hs).2 hst
    refine ⟨by rw [h1]; exact i.reachable.step _, ?_, ?_, ?_, fun _ => Or.inr h2⟩
    · rw [h1]; rintro (h | ⟨t', pc, c', h⟩) <;> rw [hfin] at h <;> contradiction
    · rw [h1]; intro t' k' c' h; rw [hfin] at h; contradiction
    · rw [h1, hfin]; intro h; contradiction

theorem stepInner_Y {a : ACfg} {s : St} (i : InvY a s) (e : Sess.Ev) : InvY a (stepInner a s e) := by
  have hmid : ∀ t, closerOf s.inner = some t → s.cpc ≠ .idle := by
    intro t hcl
    unfold closerOf at hcl
    split at hcl
    · rename_i t' k c h
      have := (i.s2 t' k c h).2
      intro hh; rw [hh] at this; simp [midStage] at this
    · contradiction
  unfold stepInner
  split
  · rename_i t
    split
    · rename_i h
      split
      · exact resumeSoupClose_Y i h.1
      · exact i
    · rename_i h
      apply passInner_Y i
      intro t' hcl heq
      have ht : t' = t := by cases heq; rfl
      subst ht
      exact h ⟨hcl, hmid _ hcl⟩
  · split
    · exact i.frame (by simp) (by simp)
    · split
      · exact i.frame (by simp) (by simp)
      · exact passInner_Y i _ (fun _ _ h => by cases h)
  · rename_i hnr hnc
    apply passInner_Y i
    intro t' _ heq
    exact hnr t' heq

theorem startClose_Y {a : ACfg} {s : St} (i : InvY a s) (t : ATid) (p : AProg) : InvY a (startClose a s t p) := by
  unfold startClose
  have hcore := Sess.step_initiateClose_core (innerCfg a) s.inner
  simp only [Sess.core, Prod.mk.injEq] at hcore
  have h1 : (innerStep a { s with evt := some false } .callInitiateClose).inner
      = Sess.step (innerCfg a) s.inner .callInitiateClose := innerStep_inner a _ _
  have h2 : (innerStep a { s with evt := some false } .callInitiateClose).cpc = s.cpc := innerStep_cpc a _ _
  obtain ⟨r, s1, s2, s3, s4⟩ := i
  refine ⟨?_, ?_, ?_, ?_, ?_⟩
  · show IReachable a _
    simp only [inner_setP, inner_setA]
    rw [h1]; exact IReachable.step r _
  · show Sess.preCb (innerStep a { s with evt := some false } .callInitiateClose).inner →
      (innerStep a { s with evt := some false } .callInitiateClose).cpc = .idle
    rw [h1, h2]; unfold Sess.preCb; rw [hcore.2.1]; exact s1
  · show ∀ t k c, (innerStep a { s with evt := some false } .callInitiateClose).inner.cstage = .cb t k c → k = 0 ∧
      midStage (innerStep a { s with evt := some false } .callInitiateClose).cpc = true
    rw [h1, h2, hcore.2.1]; exact s2
  · show (innerStep a { s with evt := some false } .callInitiateClose).inner.cstage = .finished →
      (innerStep a { s with evt := some false } .callInitiateClose).cpc = .finished
    rw [h1, h2, hcore.2.1]; exact s3
  · show (innerStep a { s with evt := some false } .callInitiateClose).inner.cstage = .aborted →
      (innerStep a { s with evt := some false } .callInitiateClose).cpc = .finished ∨
      (innerStep a { s with evt := some false } .callInitiateClose).cpc = .aborted
    rw [h1, h2, hcore.2.1]; exact s4

theorem passInner_K {a : ACfg} {s : St} (iy : InvY a s) (ib : InvB2 a s) (is : InvS a s) (e : Sess.Ev) :
    InvB2 a (passInner a s e) ∧ InvS a (passInner a s e) := by
  obtain ⟨h1b, h1s⟩ := innerStep_K e ib is
  obtain ⟨h2b, h2s⟩ := construct_K h1b h1s
  obtain ⟨hi, _⟩ := passInner_inner_pre a s e
  have hr' : IReachable a (Sess.step (innerCfg a) s.inner e) := iy.reachable.step e
  unfold passInner
  simp only
  generalize construct a (innerStep a s e) = s2 at hi h2b h2s
  split
  · rename_i t hcl hidle
    have hs : ∃ k c, s2.inner.cstage = .cb t k c := by
      unfold closerOf at hcl
      split at hcl
      · rename_i t' k c h; cases hcl; exact ⟨k, c, h⟩
      · contradiction
    obtain ⟨k, c, hs⟩ := hs
    obtain ⟨f1, f2, _, _⟩ := cb_facts (by rw [hi]; exact hr') hs
    exact onSoupClose_K t h2b h2s hidle f1 f2
  · exact ⟨h2b, h2s⟩

theorem cancel2_mid_K {a : ACfg} {s : St} (ib : InvB2 a s) (is : InvS a s) (x : ATid)
    (hx : (x = .D2 ∧ s.cpc = .waitD2) ∨ (x = .V2 ∧ s.cpc = .waitV2)) :
    InvB2 a (s.cancel2 x) ∧ InvS a (s.cancel2 x) := by
  have hb : InvB2 a (s.cancel2 x) := InvB2.of_core (bcore2_cancel2 s x) ib
  refine ⟨hb, ?_⟩
  have hnv : s.astatus x ≠ .waitV := by
    intro h; obtain ⟨_, u, hu⟩ := is.wv _ h
    rcases hx with ⟨rfl, _⟩ | ⟨rfl, _⟩ <;> cases hu
  cases hal : alive2 (s.astatus x) with
  | false =>
    have : s.cancel2 x = s := by
      unfold St.cancel2
      cases h : s.astatus x <;> simp_all [alive2]
    rw [this]; exact is
  | true =>
    have hni : s.astatus x ≠ .inSoup := by
      intro h
      rcases hx with ⟨rfl, hcp⟩ | ⟨rfl, _⟩
      · rcases is.d2 hcp with h' | h' | ⟨h', _⟩
        · rw [h] at h'; cases h'
        · rw [hal] at h'; cases h'
        · rw [h] at h'; cases h'
      · have := (is.ip _ h).1; cases this
    rw [cancel2_alive s x hal hnv hni]
    obtain ⟨nb, we, wv, ty, wq, d2, cc, hc', can, v2, dn, vn, da, vs, dnf, ip, ds, hs⟩ := is
    obtain ⟨b, tc, bu, q, q', ac1, ac2, ac3, ev1, ev2, ev0, ub, ph⟩ := ib
    rcases hx with ⟨rfl, hcp⟩ | ⟨rfl, hcp⟩
    · refine ⟨?_, ?_, ?_, ?_, ?_, ?_, ?_, ?_, ?_, ?_, ?_, ?_, ?_, ?_, ?_, ?_, ?_, ?_⟩ <;> simp only [St.setA] <;>
        grind [midStage, lateStage, alive2]
    · refine ⟨?_, ?_, ?_, ?_, ?_, ?_, ?_, ?_, ?_, ?_, ?_, ?_, ?_, ?_, ?_, ?_, ?_, ?_⟩ <;> simp only [St.setA] <;>
        grind [midStage, lateStage, alive2]

theorem stepInner_K {a : ACfg} {s : St} (iy : InvY a s) (ib : InvB2 a s) (is : InvS a s) (e : Sess.Ev) :
    InvB2 a (stepInner a s e) ∧ InvS a (stepInner a s e) := by
  unfold stepInner
  split
  · rename_i t
    split
    · rename_i h
      split
      · rename_i hr
        have hnb : closerBlocked s = false := by
          unfold runnableI at hr
          simp only [Bool.and_eq_true, Bool.not_eq_true', Bool.and_eq_false_iff] at hr
          rcases hr.2 with h' | h'
          · simp [h.1] at h'
          · exact h'
        exact resumeSoupClose_K t ib is hnb
      · exact ⟨ib, is⟩
    · exact passInner_K iy ib is _
  · split
    · rename_i h; exact cancel2_mid_K ib is .D2 (Or.inl ⟨rfl, h.2⟩)
    · split
      · rename_i h; exact cancel2_mid_K ib is .V2 (Or.inr ⟨rfl, h.2⟩)
      · exact passInner_K iy ib is _
  · exact passInner_K iy ib is _

end NasdaqModel.App
