import NasdaqModel.Lemmas.SessionLemmas
/-
Part B of the session-machine invariants.

`InvR` — while the session is open and connected its reader task is alive and polling (C07: never open-and-deaf).
-/
namespace NasdaqModel.Sess

/-- the reader of an open session is alive, in its poll loop, not stopped; and while the session is open the only
    task anybody waits for is the receive helper -/
def InvR (s : St) : Prop :=
  s.closed = false →
    s.rStopped = false ∧
    (s.status .R = .absent ∨ (s.status .R = .ready ∧ s.prog .R = .readerLoop)) ∧
    (∀ x y, s.status x = .waitT y → y = .V)

/-! `close()` always leaves `_closed` set -/

theorem runCont_closed (s : St) (t : Tid) (c : Cont) : (runCont s t c).closed = s.closed := by
  cases c <;> rfl

theorem closeTail_closed (cfg : Cfg) (s : St) (t : Tid) (c : Cont) : (closeTail cfg s t c).closed = s.closed := by
  unfold closeTail
  simp only
  split
  · rw [runCont_closed]; rfl
  · split
    · rfl
    · rw [runCont_closed]; rfl

theorem suspendOn_closed (s : St) (t x : Tid) (pc : Nat) (c : Cont) : (suspendOn s t x pc c).closed = s.closed := by
  have hc := core_cancelTask s x
  simp only [core, Prod.mk.injEq] at hc
  exact hc.1

theorem execClose_closed (cfg : Cfg) (t : Tid) (c : Cont) (pc : Nat) (s : St) (h : s.closed = true) :
    (execClose cfg s t c pc).closed = true := by
  refine execClose_rule cfg t c (fun s => s.closed = true) (fun s => s.closed = true) ?_ ?_ ?_ ?_ pc s h
  · intro s h; exact h
  · intro s h; exact h
  · intro s x pc h _ _ _; rw [suspendOn_closed]; exact h
  · intro s h; rw [closeTail_closed]; exact h

theorem enterClose_closed (cfg : Cfg) (s : St) (t : Tid) (c : Cont) : (enterClose cfg s t c).closed = true := by
  unfold enterClose
  split
  · rename_i h; rw [runCont_closed]; exact h
  · exact execClose_closed cfg t c 0 _ rfl

theorem InvR.of_closed {s : St} (h : s.closed = true) : InvR s := by
  intro hc; rw [h] at hc; contradiction

/-- frame rule: the fields `InvR` reads are unchanged and no new waiting relation appears (except on the receive helper) -/
theorem InvR.frame {s s' : St} (i : InvR s) (h1 : s'.closed = s.closed) (h2 : s'.rStopped = s.rStopped)
    (h3 : s'.status .R = s.status .R) (h4 : s'.prog .R = s.prog .R)
    (h5 : ∀ x y, s'.status x = .waitT y → y = .V ∨ s.status x = .waitT y) : InvR s' := by
  intro hc
  rw [h1] at hc
  obtain ⟨a, b, c⟩ := i hc
  refine ⟨by rw [h2]; exact a, by rw [h3, h4]; exact b, ?_⟩
  intro x y hxy
  rcases h5 x y hxy with h | h
  · exact h
  · exact c x y h

theorem not_R_of_prog {s : St} (i : InvR s) (hc : s.closed = false) {t : Tid} {p : Prog}
    (hst : s.status t ≠ .absent) (hp : s.prog t = p) (hne : p ≠ .readerLoop) : t ≠ .R := by
  intro h; subst h
  rcases (i hc).2.1 with h | h
  · exact hst h
  · rw [h.2] at hp; exact hne hp.symm

theorem not_R_of_status {s : St} (i : InvR s) (hc : s.closed = false) {t : Tid}
    (hst : s.status t ≠ .absent) (hst' : s.status t ≠ .ready) : t ≠ .R := by
  intro h; subst h
  rcases (i hc).2.1 with h | h
  · exact hst h
  · exact hst' h.1

/-- `finish t` for a task other than the reader -/
theorem InvR.finish {s : St} {t : Tid} (hne : t ≠ .R) (i : InvR s) : InvR (s.finish t) := by
  by_cases hc : s.closed = true
  · exact InvR.of_closed hc
  · have hc' : s.closed = false := by simpa using hc
    have hR : s.status .R ≠ .waitT t := by
      rcases (i hc').2.1 with h | h
      · rw [h]; simp
      · rw [h.1]; simp
    refine i.frame rfl rfl ?_ rfl ?_
    · simp [St.finish, Ne.symm hne, hR]
    · intro x y h
      right
      simp only [St.finish] at h
      split at h
      · simp at h
      · split at h
        · simp at h
        · exact h

theorem InvR.setStatus {s : St} {t : Tid} {x : Status} (hne : t ≠ .R) (hx : ∀ y, x ≠ .waitT y) (i : InvR s) :
    InvR (s.setStatus t x) := by
  refine i.frame rfl rfl ?_ rfl ?_
  · simp [St.setStatus, Ne.symm hne]
  · intro a y h
    right
    simp only [St.setStatus] at h
    split at h
    · exact absurd h (hx y)
    · exact h

theorem InvR.setProg {s : St} {t : Tid} {p : Prog} (hne : t ≠ .R) (i : InvR s) : InvR (s.setProg t p) := by
  refine i.frame rfl rfl rfl ?_ (fun _ _ h => Or.inr h)
  simp [St.setProg, Ne.symm hne]

theorem InvR.spawn {s : St} {t : Tid} {p : Prog} (hne : t ≠ .R) (i : InvR s) : InvR (s.spawn t p) :=
  InvR.setProg hne (InvR.setStatus hne (by simp) i)

theorem InvR.emit {s : St} {o : Obs} (i : InvR s) : InvR (s.emit o) :=
  i.frame rfl rfl rfl rfl (fun _ _ h => Or.inr h)

/-- any change to fields `InvR` does not read -/
theorem InvR.same {s s' : St} (i : InvR s) (h1 : s'.closed = s.closed) (h2 : s'.rStopped = s.rStopped)
    (h3 : s'.status = s.status) (h4 : s'.prog = s.prog) : InvR s' :=
  i.frame h1 h2 (by rw [h3]) (by rw [h4]) (fun x y h => Or.inr (by rw [h3] at h; exact h))

/-- close a goal `InvR s'` from `i : InvR s` when `s'` differs from `s` only in fields `InvR` does not read -/
macro "ir" i:ident : tactic => `(tactic| first | exact $i | exact InvR.same $i rfl rfl rfl rfl)

theorem InvR.wakeGetter {s : St} {t : Tid} (hne : t ≠ .R) (i : InvR s) : InvR (s.wakeGetter t) := by
  unfold St.wakeGetter
  split
  · exact InvR.setStatus hne (by simp) i
  · exact i

theorem InvR.put {s : St} {m : Nat} (i : InvR s) : InvR (s.put m) := by
  unfold St.put
  apply InvR.wakeGetter (by decide)
  apply InvR.wakeGetter (by decide)
  ir i

theorem InvR.initiateClose {s : St} (i : InvR s) : InvR s.initiateClose := by
  unfold St.initiateClose
  split
  · exact i
  · apply InvR.spawn (by decide)
    ir i

theorem InvR.startDispatching {s : St} {cfg : Cfg} (i : InvR s) : InvR (s.startDispatching cfg) := by
  unfold St.startDispatching
  split
  · apply InvR.spawn (by decide)
    ir i
  · exact i

theorem InvR.startHeartbeats {s : St} (i : InvR s) : InvR s.startHeartbeats := by
  unfold St.startHeartbeats
  apply InvR.spawn (by decide)
  apply InvR.spawn (by decide)
  ir i

theorem InvR.enterClose (cfg : Cfg) (s : St) (t : Tid) (c : Cont) : InvR (enterClose cfg s t c) :=
  InvR.of_closed (enterClose_closed cfg s t c)

theorem idle_of_open {cfg : Cfg} {s : St} (a : InvA cfg s) (hc : s.closed = false) : s.cstage = .idle := by
  by_cases h : s.cstage = .idle
  · exact h
  · have := a.closed_iff.mpr h; rw [hc] at this; contradiction

theorem stepInClose_open {cfg : Cfg} {s : St} (a : InvA cfg s) (hc : s.closed = false) (t : Tid) (b : Bool) :
    stepInClose cfg s t b = s := by
  unfold stepInClose
  rw [idle_of_open a hc]

theorem stepInClose_closed (cfg : Cfg) (s : St) (t : Tid) (b : Bool) (h : s.closed = true) :
    (stepInClose cfg s t b).closed = true := by
  unfold stepInClose
  split
  · split
    · unfold resumeClose
      apply execClose_closed
      split <;> exact h
    · exact h
  · split
    · split
      · split <;> exact h
      · split
        · rw [runCont_closed]; exact h
        · exact h
    · exact h
  · exact h

/-- once closed, always closed -/
theorem closedInv (cfg : Cfg) : CoreInv cfg (fun s => s.closed = true) where
  of_core := by
    intro s s' hc h
    simp only [core, Prod.mk.injEq] at hc
    rw [hc.1]; exact h
  emit_neutral := fun _ h => h
  emit_msgEnter := fun _ _ _ h => h
  enterClose' := fun _ t c => enterClose_closed cfg _ t c
  stepInClose' := fun h t b => stepInClose_closed cfg _ t b h

theorem step_closed_mono (cfg : Cfg) (s : St) (ev : Ev) (h : s.closed = true) : (step cfg s ev).closed = true :=
  step_J (closedInv cfg) h ev

theorem stepReader_InvR {cfg : Cfg} {s : St} (i : InvR s) (hc' : s.closed = false) : InvR (stepReader cfg s) := by
  have hr := (i hc').1
  unfold stepReader
  rw [if_neg (by simp [hr])]
  split
  · exact i
  · split
    · apply InvR.put; ir i
    · ir i
    · exact InvR.enterClose _ _ _ _
    · exact InvR.enterClose _ _ _ _

theorem dispHandle_InvR {cfg : Cfg} {s : St} (i : InvR s) (n : Nat) : InvR (dispHandle cfg s n) := by
  unfold dispHandle
  split
  · have := i.emit (o := .msgExit n); ir this
  · exact InvR.setProg (by decide) i
  · exact InvR.enterClose _ _ _ _
  · have := i.initiateClose.emit (o := .msgExit n); ir this
  · have := i.emit (o := .msgRaise n); ir this
  · have := ((i.emit (o := .write .reply)).startHeartbeats).emit (o := .msgExit n); ir this
  · exact InvR.enterClose _ _ _ _

theorem stepDisp_InvR {cfg : Cfg} {s : St} (i : InvR s) : InvR (stepDisp cfg s) := by
  unfold stepDisp
  split
  · exact InvR.finish (by decide) i
  · split
    · exact i
    · split
      · exact InvR.setStatus (by decide) (by simp) i
      · apply dispHandle_InvR
        apply InvR.emit
        ir i

theorem stepMon_InvR {cfg : Cfg} {s : St} (i : InvR s) (b : Bool) : InvR (stepMon cfg s b) := by
  unfold stepMon
  split
  · split
    · ir i
    · exact i.emit
  · split
    · ir i
    · exact InvR.enterClose _ _ _ _

theorem loginResume_InvR {cfg : Cfg} {s : St} (i : InvR s) {t : Tid} (hne : t ≠ .R) (u : Nat) :
    InvR (loginResume cfg s t u) := by
  unfold loginResume
  split
  · simp only
    split
    · apply InvR.finish hne
      apply InvR.emit
      apply InvR.startDispatching
      apply InvR.startHeartbeats
      apply InvR.emit
      ir i
    · exact InvR.enterClose _ _ _ _
  · split
    · apply InvR.finish hne
      apply InvR.emit
      ir i
    · exact InvR.enterClose _ _ _ _

theorem stepRun_InvR {cfg : Cfg} {s : St} (a : InvA cfg s) (i : InvR s) (hc : s.closed = false) (t : Tid) :
    InvR (stepRun cfg s t) := by
  unfold stepRun
  have i0 : InvR { s with imm := none } := by ir i
  have a0 : InvA cfg { s with imm := none } := InvA.of_core (s := s) rfl a
  have hc0 : ({ s with imm := none } : St).closed = false := hc
  generalize ({ s with imm := none } : St) = s0 at i0 a0 hc0
  simp only
  split
  · -- cancelled: not the reader
    rename_i hst
    have hne : t ≠ .R := not_R_of_status i0 hc0 (by rw [hst]; simp) (by rw [hst]; simp)
    split
    · exact InvR.finish hne i0.emit
    · apply InvR.finish hne; ir i0
    · split
      · apply InvR.finish hne; apply InvR.emit; ir i0
      · apply InvR.finish hne; apply InvR.emit; ir i0
    · split
      · apply InvR.finish hne; apply InvR.emit; ir i0
      · exact InvR.enterClose _ _ _ _
    · rw [stepInClose_open a0 hc0]; exact i0
    · exact InvR.finish hne i0
  · -- ready
    rename_i hst
    have hab : s0.status t ≠ .absent := by rw [hst]; simp
    split
    · split
      · exact stepReader_InvR i0 hc0
      · exact i0
    · split
      · exact stepDisp_InvR i0
      · exact i0
    · rename_i hp
      have hne : t ≠ .R := not_R_of_prog i0 hc0 hab hp (by simp)
      split
      · rename_i n _
        have := InvR.setProg (p := .dispLoop) hne (i0.emit (o := .msgExit n)); ir this
      · exact InvR.setProg hne i0
    · rename_i hp
      exact InvR.setProg (not_R_of_prog i0 hc0 hab hp (by simp)) i0
    · split
      · exact stepMon_InvR i0 _
      · split
        · exact stepMon_InvR i0 _
        · exact i0
    · exact InvR.enterClose _ _ _ _
    · rw [stepInClose_open a0 hc0]; exact i0
    · rename_i hp
      have hne : t ≠ .R := not_R_of_prog i0 hc0 hab hp (by simp)
      split
      · exact InvR.setStatus hne (by simp) i0
      · split
        · exact i0
        · apply InvR.finish hne; ir i0
    · rename_i hp
      have hne : t ≠ .R := not_R_of_prog i0 hc0 hab hp (by simp)
      split
      · apply InvR.finish hne; apply InvR.emit; ir i0
      · split
        · apply InvR.finish hne; apply InvR.emit; ir i0
        · apply InvR.finish hne; apply InvR.emit; ir i0
    · rename_i hp
      exact loginResume_InvR i0 (not_R_of_prog i0 hc0 hab hp (by simp)) _
    · exact i0
  · exact i0

theorem startRecv_InvR {s : St} (i : InvR s) (u : Nat) (b : Bool) : InvR (startRecv s u b) := by
  unfold startRecv
  split
  · exact i
  · split
    · exact InvR.setStatus (by simp) (by simp) i.emit
    · split
      · apply InvR.setProg (by simp)
        apply InvR.setStatus (by simp) (by simp)
        ir i
      · split
        · split
          · exact InvR.setStatus (by simp) (by simp) i.emit
          · exact InvR.setStatus (by simp) (by simp) i.emit
        · -- the caller waits for the helper task
          have i1 : InvR (({ s with rcvBusy := true } : St).spawn .V .vget) := by
            apply InvR.spawn (by decide); ir i
          apply InvR.setProg (by simp)
          refine InvR.frame i1 rfl rfl ?_ rfl ?_
          · simp [St.setStatus]
          · intro x y h
            simp only [St.setStatus] at h
            split at h
            · left; injection h with h; exact h.symm
            · right; exact h

theorem step_InvR {cfg : Cfg} {s : St} (a : InvA cfg s) (i : InvR s) (ev : Ev) : InvR (step cfg s ev) := by
  by_cases hc : s.closed = true
  · exact InvR.of_closed (step_closed_mono cfg s ev hc)
  · have hc' : s.closed = false := by simpa using hc
    cases ev with
    | connect =>
      simp only [step]
      split
      · exact i
      · have i1 : InvR (s.spawn .R .readerLoop) := by
          intro _
          obtain ⟨r, _, w⟩ := i hc'
          refine ⟨r, Or.inr ⟨by simp [St.spawn, St.setStatus, St.setProg], by simp [St.spawn, St.setProg]⟩, ?_⟩
          intro x y hxy
          simp only [St.spawn, St.setProg, St.setStatus] at hxy
          split at hxy
          · simp at hxy
          · exact w x y hxy
        split
        · exact i1.startDispatching
        · exact i1
    | data fs => ir i
    | eof => exact i.initiateClose
    | run t =>
      simp only [step]
      split
      · exact stepRun_InvR a i hc' t
      · exact i
    | callClose u =>
      simp only [step]
      split
      · exact i
      · exact InvR.enterClose _ _ _ _
    | callInitiateClose => exact i.initiateClose
    | callLogout =>
      simp only [step]
      apply InvR.initiateClose
      have := i.emit (o := .write .logout); ir this
    | callRecv u =>
      simp only [step]
      split
      · exact i
      · exact startRecv_InvR i u false
    | callRecvNowait u =>
      simp only [step]
      split
      · exact i
      · split
        · exact i.emit
        · split
          · apply InvR.emit; ir i
          · split <;> exact i.emit
    | callLogin u =>
      simp only [step]
      split
      · exact i
      · apply startRecv_InvR
        have := i.emit (o := .write .login); ir this
    | callSend =>
      have := i.emit (o := .write .data); ir this
    | cancel u =>
      simp only [step]
      -- cancelling a user task: the only task it can be waiting for is the receive helper
      obtain ⟨r, rr, w⟩ := i hc'
      unfold St.cancelTask
      split
      · exact InvR.setStatus (by simp) (by simp) i
      · exact InvR.setStatus (by simp) (by simp) i
      · rename_i w0 hw
        have hV : w0 = .V := w _ _ hw
        subst hV
        split
        · exact InvR.setStatus (by decide) (by simp) i
        · exact InvR.setStatus (by decide) (by simp) i
        · exact i
      · exact i

theorem InvR.init : InvR {} := by
  intro _
  exact ⟨rfl, Or.inl rfl, by intro x y h; simp at h⟩

/-- **`InvR` holds in every reachable state.** -/
theorem runEvs_InvR (cfg : Cfg) (evs : List Ev) : InvR (runEvs cfg {} evs) := by
  have : ∀ (s : St), InvA cfg s → InvR s → InvA cfg (runEvs cfg s evs) ∧ InvR (runEvs cfg s evs) := by
    induction evs with
    | nil => intro s a i; exact ⟨a, i⟩
    | cons ev evs ih => intro s a i; exact ih _ (step_InvA a ev) (step_InvR a i ev)
  exact (this _ (InvA.init cfg) InvR.init).2

end NasdaqModel.Sess
