import NasdaqModel.Lemmas.AppSessionLemmasF
/-
Invariants of the application-session product machine, part 3: the close bookkeeping (C05App, C06App).

  InvY   how the position inside `_on_soup_close` (`cpc`) follows the inner close stage
  InvB2  the flags (`closed`, queue stopped, close event) and the shape of the application-level trace
  InvS   the application-level tasks: who is alive, who waits for what
-/
namespace NasdaqModel.App
open NasdaqModel

def midStage : CPc → Bool
  | .waitD2 => true | .waitV2 => true | .user _ => true
  | _ => false

def lateStage : CPc → Bool
  | .user _ => true | .finished => true | .aborted => true
  | _ => false

/-- which programs an application-level task may be in -/
def allowed2 : ATid → AProg → Bool
  | .D2, .dispLoop => true | .D2, .handler _ _ => true | .D2, .handlerClose _ => true
  | .D2, .handlerCC _ _ => true | .D2, .cleanupClose _ => true
  | .V2, .vget => true
  | .W u, .recvWait u' => u == u' | .W u, .closeWait u' => u == u'
  | _, _ => false

/-- monitor over the application-level trace: 0 nothing yet, 1 inside the user's close callback, 2 it has returned; 9 = violation
    (close callback entered twice / left without being entered / a message callback started after it was entered) -/
def mon2 (p : Nat) (o : AObs) : Nat :=
  match o with
  | .cbEnter => if p = 0 then 1 else 9
  | .cbExit => if p = 1 then 2 else 9
  | .msgEnter _ => if p = 0 then 0 else 9
  | _ => p

def mon2Run (l : List AObs) : Nat := l.foldl mon2 0

theorem mon2Run_append (l : List AObs) (o : AObs) : mon2Run (l ++ [o]) = mon2 (mon2Run l) o := by
  simp [mon2Run, List.foldl_append]

def phase2 (a : ACfg) (s : St) : Nat :=
  match s.cpc with
  | .user _ => 1
  | .aborted => 1
  | .finished => if a.hasCb && s.built then 2 else 0
  | _ => 0

structure InvY (a : ACfg) (s : St) : Prop where
  reach : ∃ es, s.inner = Sess.runEvs (innerCfg a) {} es
  s1 : Sess.preCb s.inner → s.cpc = .idle
  s2 : ∀ t k c, s.inner.cstage = .cb t k c → k = 0 ∧ midStage s.cpc = true
  s3 : s.inner.cstage = .finished → s.cpc = .finished
  s4 : s.inner.cstage = .aborted → s.cpc = .finished ∨ s.cpc = .aborted

structure InvB2 (a : ACfg) (s : St) : Prop where
  b : s.cpc ≠ .idle → s.inner.closed = true
  tc : s.cpc ≠ .idle → Sess.Obs.tclose ∈ s.inner.trace
  bu : midStage s.cpc = true ∨ s.cpc = .aborted → s.built = true
  q : s.built = true → s.cpc ≠ .idle → s.q2Closed = true
  q' : s.q2Closed = true → s.built = true ∧ s.cpc ≠ .idle
  ac1 : s.appClosed = true → s.built = true ∧ s.cpc ≠ .idle
  ac2 : s.built = true → lateStage s.cpc = true → s.appClosed = true
  ac3 : a.closedFirst = true → s.built = true → s.cpc ≠ .idle → s.appClosed = true
  ev1 : s.evt = some true → s.cpc = .finished
  ev2 : s.cpc = .finished → s.evt ≠ some false
  ev0 : s.built = false → s.evt = none
  ub : ∀ k, s.cpc = .user k → a.hasCb = true ∧ ∃ k0, a.cbBeh = .await k0
  ph : mon2Run s.trace2 = phase2 a s

structure InvS (a : ACfg) (s : St) : Prop where
  nb : s.built = false → ∀ t, s.astatus t = .absent
  we : ∀ t, s.astatus t = .waitE → s.evt = some false
  wv : ∀ t, s.astatus t = .waitV → alive2 (s.astatus .V2) = true ∧ ∃ u, t = .W u
  ty : ∀ t, alive2 (s.astatus t) = true → allowed2 t (s.aprog t) = true
  wq : ∀ t, s.astatus t = .waitQ → t = .D2 ∨ t = .V2
  d2 : s.cpc = .waitD2 → s.astatus .D2 = .cancelled ∨ alive2 (s.astatus .D2) = false ∨
        (s.astatus .D2 = .waitE ∧ ∃ v, s.aprog .D2 = .cleanupClose v)
  cc : ∀ v, s.aprog .D2 = .cleanupClose v → alive2 (s.astatus .D2) = true → a.closedFirst = false
  hc : ∀ v, s.aprog .D2 = .handlerClose v → alive2 (s.astatus .D2) = true → a.msgBeh v = .close
  can : s.astatus .D2 = .cancelled → s.cpc = .waitD2
  v2 : s.cpc = .waitV2 → s.astatus .V2 = .cancelled ∨ alive2 (s.astatus .V2) = false
  dn : s.built = true → (s.cpc = .waitV2 ∨ lateStage s.cpc = true) → alive2 (s.astatus .D2) = false ∧ s.disp2Set = false
  vn : s.built = true → lateStage s.cpc = true → alive2 (s.astatus .V2) = false

/-! ### frames -/

/-- the part of the state `InvB2` reads -/
def bcore2 (s : St) : Bool × List Sess.Obs × CPc × Bool × Bool × Bool × Option Bool × List AObs :=
  (s.inner.closed, s.inner.trace, s.cpc, s.built, s.q2Closed, s.appClosed, s.evt, s.trace2)

theorem InvB2.of_core {a : ACfg} {s s' : St} (h : bcore2 s' = bcore2 s) (i : InvB2 a s) : InvB2 a s' := by
  simp only [bcore2, Prod.mk.injEq] at h
  obtain ⟨h1, h2, h3, h4, h5, h6, h7, h8⟩ := h
  obtain ⟨b, tc, bu, q, q', ac1, ac2, ac3, ev1, ev2, ev0, ub, ph⟩ := i
  refine ⟨?_, ?_, ?_, ?_, ?_, ?_, ?_, ?_, ?_, ?_, ?_, ?_, ?_⟩
  · rw [h3, h1]; exact b
  · rw [h3, h2]; exact tc
  · rw [h3, h4]; exact bu
  · rw [h3, h4, h5]; exact q
  · rw [h3, h4, h5]; exact q'
  · rw [h3, h4, h6]; exact ac1
  · rw [h3, h4, h6]; exact ac2
  · rw [h3, h4, h6]; exact ac3
  · rw [h3, h7]; exact ev1
  · rw [h3, h7]; exact ev2
  · rw [h4, h7]; exact ev0
  · rw [h3]; exact ub
  · unfold phase2; rw [h8, h3, h4]; exact ph

/-- the part of the state `InvS` reads -/
def score (s : St) : (ATid → AStatus) × (ATid → AProg) × CPc × Bool × Option Bool × Bool :=
  (s.astatus, s.aprog, s.cpc, s.built, s.evt, s.disp2Set)

theorem InvS.of_core {a : ACfg} {s s' : St} (h : score s' = score s) (i : InvS a s) : InvS a s' := by
  simp only [score, Prod.mk.injEq] at h
  obtain ⟨h1, h2, h3, h4, h5, h6⟩ := h
  obtain ⟨nb, we, wv, ty, wq, d2, cc, hc, can, v2, dn, vn⟩ := i
  refine ⟨?_, ?_, ?_, ?_, ?_, ?_, ?_, ?_, ?_, ?_, ?_, ?_⟩
  · rw [h1, h4]; exact nb
  · rw [h1, h5]; exact we
  · rw [h1]; exact wv
  · rw [h1, h2]; exact ty
  · rw [h1]; exact wq
  · rw [h1, h2, h3]; exact d2
  · rw [h1, h2]; exact cc
  · rw [h1, h2]; exact hc
  · rw [h1, h3]; exact can
  · rw [h1, h3]; exact v2
  · rw [h1, h3, h4, h6]; exact dn
  · rw [h1, h3, h4]; exact vn

@[simp] theorem score_emit2 (s : St) (o : AObs) : score (s.emit2 o) = score s := rfl

theorem InvS.emit2 {a : ACfg} {s : St} {o : AObs} (i : InvS a s) : InvS a (s.emit2 o) := InvS.of_core (s := s) rfl i

/-- an application observable the monitor ignores -/
def neutral2 (o : AObs) : Bool :=
  match o with
  | .cbEnter => false | .cbExit => false | .msgEnter _ => false
  | _ => true

theorem mon2_neutral {o : AObs} (h : neutral2 o = true) (p : Nat) : mon2 p o = p := by
  cases o <;> simp_all [neutral2, mon2]

theorem InvB2.emit2 {a : ACfg} {s : St} {o : AObs} (h : neutral2 o = true) (i : InvB2 a s) : InvB2 a (s.emit2 o) := by
  obtain ⟨b, tc, bu, q, q', ac1, ac2, ac3, ev1, ev2, ev0, ub, ph⟩ := i
  refine ⟨b, tc, bu, q, q', ac1, ac2, ac3, ev1, ev2, ev0, ub, ?_⟩
  rw [trace2_emit2, mon2Run_append, mon2_neutral h]
  exact ph

/-! ### `_on_soup_message` wakes a waiting getter; an inner step moves no flag of the application layer -/

theorem InvS.wake2 {a : ACfg} {s : St} (i : InvS a s) (t : ATid) : InvS a (s.wake2 t) := by
  unfold St.wake2
  split
  · rename_i hw
    obtain ⟨nb, we, wv, ty, wq, d2, cc, hc, can, v2, dn, vn⟩ := i
    refine ⟨?_, ?_, ?_, ?_, ?_, ?_, ?_, ?_, ?_, ?_, ?_, ?_⟩ <;> simp only [St.setA] <;> grind [alive2]
  · exact i

theorem bcore2_wake2 (s : St) (t : ATid) : bcore2 (s.wake2 t) = bcore2 s := by
  unfold St.wake2; split <;> rfl

theorem put2_K {a : ACfg} {s : St} (v : Nat) (ib : InvB2 a s) (is : InvS a s) :
    InvB2 a (s.put2 v) ∧ InvS a (s.put2 v) := by
  unfold St.put2
  constructor
  · refine InvB2.of_core ?_ ib
    rw [bcore2_wake2, bcore2_wake2]; rfl
  · apply InvS.wake2
    apply InvS.wake2
    exact InvS.of_core (s := s) rfl is

theorem feed_K {a : ACfg} (ns : List Nat) {s : St} (ib : InvB2 a s) (is : InvS a s) :
    InvB2 a (feed a s ns) ∧ InvS a (feed a s ns) := by
  induction ns generalizing s with
  | nil => exact ⟨ib, is⟩
  | cons n ns ih =>
    have e : feed a s (n :: ns) = feed a (feed1 a s n) ns := rfl
    rw [e]
    have h1 : InvB2 a (feed1 a s n) ∧ InvS a (feed1 a s n) := by
      unfold feed1
      split
      · exact put2_K _ ib is
      · exact ⟨ib, is⟩
    exact ih h1.1 h1.2

theorem innerStep_trace2 (a : ACfg) (s : St) (e : Sess.Ev) : (innerStep a s e).trace2 = s.trace2 := by
  unfold innerStep
  simp only
  obtain ⟨_, _, _, _, f5, _⟩ := feed_fields a
    (entered ((Sess.step (innerCfg a) s.inner e).trace.drop s.inner.trace.length))
    { s with inner := Sess.step (innerCfg a) s.inner e,
             tr := s.tr ++ ((Sess.step (innerCfg a) s.inner e).trace.drop s.inner.trace.length).map .inner }
  unfold St.trace2
  rw [f5]
  exact trace2_tr_inner s _

/-- the state after the inner step proper, before `_on_soup_message` runs -/
def innerPart (a : ACfg) (s : St) (e : Sess.Ev) : St :=
  { s with inner := Sess.step (innerCfg a) s.inner e,
           tr := s.tr ++ ((Sess.step (innerCfg a) s.inner e).trace.drop s.inner.trace.length).map .inner }

theorem innerStep_eq (a : ACfg) (s : St) (e : Sess.Ev) :
    innerStep a s e = feed a (innerPart a s e)
      (entered ((Sess.step (innerCfg a) s.inner e).trace.drop s.inner.trace.length)) := rfl

/-- an inner step keeps the flag and task invariants (the stage synchronisation is the business of the callers) -/
theorem innerStep_K {a : ACfg} {s : St} (e : Sess.Ev) (ib : InvB2 a s) (is : InvS a s) :
    InvB2 a (innerStep a s e) ∧ InvS a (innerStep a s e) := by
  have hb0 : InvB2 a (innerPart a s e) := by
    obtain ⟨b, tc, bu, q, q', ac1, ac2, ac3, ev1, ev2, ev0, ub, ph⟩ := ib
    refine ⟨?_, ?_, bu, q, q', ac1, ac2, ac3, ev1, ev2, ev0, ub, ?_⟩
    · intro h; exact Sess.step_closed_mono _ _ _ (b h)
    · intro h
      obtain ⟨d, hd⟩ := Sess.step_trace_prefix (innerCfg a) s.inner e
      show Sess.Obs.tclose ∈ (Sess.step (innerCfg a) s.inner e).trace
      rw [← hd]; exact List.mem_append_left _ (tc h)
    · have : (innerPart a s e).trace2 = s.trace2 :=
        trace2_tr_inner { s with inner := Sess.step (innerCfg a) s.inner e } _
      unfold phase2
      rw [this]; exact ph
  have hs0 : InvS a (innerPart a s e) := InvS.of_core (s := s) rfl is
  rw [innerStep_eq]
  exact feed_K _ hb0 hs0

end NasdaqModel.App
