import NasdaqModel.Lemmas.AppSessionLemmasF
/-
Invariants of the application-session product machine, part 3: the close bookkeeping (C05App, C06App).

  InvY   how the position inside `_on_soup_close` (`cpc`) follows the inner close stage
  InvB2  the flags (`closed`, queue stopped, close event) and the shape of the application-level trace
  InvS   the application-level tasks: who is alive, who waits for what
-/
namespace NasdaqModel.App
open NasdaqModel

def midStage : CPc → Bool
  | .waitD2 => true | .waitV2 => true | .user _ => true
  | _ => false

def lateStage : CPc → Bool
  | .user _ => true | .finished => true | .aborted => true
  | _ => false

/-- which programs an application-level task may be in -/
def allowed2 : ATid → AProg → Bool
  | .D2, .dispLoop => true | .D2, .handler _ _ => true | .D2, .handlerClose _ => true
  | .D2, .handlerCC _ _ => true | .D2, .cleanupClose _ => true
  | .V2, .vget => true
  | .W u, .recvWait u' => u == u' | .W u, .closeWait u' => u == u'
  | _, _ => false

/-- monitor over the application-level trace: 0 nothing yet, 1 inside the user's close callback, 2 it has returned; 9 = violation
    (close callback entered twice / left without being entered / a message callback started after it was entered) -/
def mon2 (p : Nat) (o : AObs) : Nat :=
  match o with
  | .cbEnter => if p = 0 then 1 else 9
  | .cbExit => if p = 1 then 2 else 9
  | .msgEnter _ => if p = 0 then 0 else 9
  | _ => p

def mon2Run (l : List AObs) : Nat := l.foldl mon2 0

theorem mon2Run_append (l : List AObs) (o : AObs) : mon2Run (l ++ [o]) = mon2 (mon2Run l) o := by
  simp [mon2Run, List.foldl_append]

def phase2 (a : ACfg) (s : St) : Nat :=
  match s.cpc with
  | .user _ => 1
  | .aborted => 1
  | .finished => if a.hasCb && s.built then 2 else 0
  | _ => 0

structure InvY (a : ACfg) (s : St) : Prop where
  reach : ∃ es, s.inner = Sess.runEvs (innerCfg a) {} es
  s1 : Sess.preCb s.inner → s.cpc = .idle
  s2 : ∀ t k c, s.inner.cstage = .cb t k c → k = 0 ∧ midStage s.cpc = true
  s3 : s.inner.cstage = .finished → s.cpc = .finished
  s4 : s.inner.cstage = .aborted → s.cpc = .finished ∨ s.cpc = .aborted

structure InvB2 (a : ACfg) (s : St) : Prop where
  b : s.cpc ≠ .idle → s.inner.closed = true
  tc : s.cpc ≠ .idle → Sess.Obs.tclose ∈ s.inner.trace
  bu : midStage s.cpc = true ∨ s.cpc = .aborted → s.built = true
  q : s.built = true → s.cpc ≠ .idle → s.q2Closed = true
  q' : s.q2Closed = true → s.built = true ∧ s.cpc ≠ .idle
  ac1 : s.appClosed = true → s.built = true ∧ s.cpc ≠ .idle
  ac2 : s.built = true → lateStage s.cpc = true → s.appClosed = true
  ac3 : a.closedFirst = true → s.built = true → s.cpc ≠ .idle → s.appClosed = true
  ev1 : s.evt = some true → s.cpc = .finished
  ev2 : s.cpc = .finished → s.evt ≠ some false
  ev0 : s.built = false → s.evt = none
  ub : (∃ k, s.cpc = .user k) ∨ s.cpc = .aborted → a.hasCb = true ∧ ∃ k0, a.cbBeh = .await k0
  ph : mon2Run s.trace2 = phase2 a s

/-- `strict = false`: the state between the closer's last inner step and the return of a `close()` awaited from the message callback
    (`finishClose`: `cpc = finished` while `D2` is still `inSoup`); every state at the end of an event satisfies `InvS = InvSg true` -/
structure InvSg (strict : Bool) (a : ACfg) (s : St) : Prop where
  nb : s.built = false → ∀ t, s.astatus t = .absent
  we : ∀ t, s.astatus t = .waitE → s.evt = some false
  wv : ∀ t, s.astatus t = .waitV → alive2 (s.astatus .V2) = true ∧ ∃ u, t = .W u
  ty : ∀ t, alive2 (s.astatus t) = true → allowed2 t (s.aprog t) = true
  wq : ∀ t, s.astatus t = .waitQ → t = .D2 ∨ t = .V2
  d2 : s.cpc = .waitD2 → s.astatus .D2 = .cancelled ∨ alive2 (s.astatus .D2) = false ∨
        (s.astatus .D2 = .waitE ∧ ∃ v, s.aprog .D2 = .cleanupClose v)
  cc : ∀ v, s.aprog .D2 = .cleanupClose v → alive2 (s.astatus .D2) = true → a.closedFirst = false
  hc : ∀ v, s.aprog .D2 = .handlerClose v → alive2 (s.astatus .D2) = true → a.msgBeh v = .close ∨ ∃ k, a.msgBeh v = .awaitClose k
  can : s.astatus .D2 = .cancelled → s.cpc = .waitD2
  v2 : s.cpc = .waitV2 → s.astatus .V2 = .cancelled ∨ alive2 (s.astatus .V2) = false
  dn : s.built = true → (s.cpc = .waitV2 ∨ lateStage s.cpc = true) →
        (alive2 (s.astatus .D2) = false ∨ s.astatus .D2 = .inSoup) ∧ s.disp2Set = false
  vn : s.built = true → lateStage s.cpc = true → alive2 (s.astatus .V2) = false
  da : alive2 (s.astatus .D2) = true → s.astatus .D2 ≠ .inSoup → s.disp2Set = true
  vs : s.astatus .V2 ≠ .waitE
  dnf : strict = true → s.built = true → s.cpc = .finished → alive2 (s.astatus .D2) = false
  ip : ∀ t, s.astatus t = .inSoup → t = .D2 ∧ ((∃ v, s.aprog .D2 = .handlerClose v) ∨ ∃ v, s.aprog .D2 = .cleanupClose v)
  ds : s.astatus .D2 ≠ .waitE
  hs : ∀ v, s.aprog .D2 = .handlerClose v ∨ s.aprog .D2 = .cleanupClose v → alive2 (s.astatus .D2) = true → s.astatus .D2 = .inSoup

abbrev InvS := InvSg true

/-! ### frames -/

/-- the part of the state `InvB2` reads -/
def bcore2 (s : St) : Bool × List Sess.Obs × CPc × Bool × Bool × Bool × Option Bool × List AObs :=
  (s.inner.closed, s.inner.trace, s.cpc, s.built, s.q2Closed, s.appClosed, s.evt, s.trace2)

theorem InvB2.of_core {a : ACfg} {s s' : St} (h : bcore2 s' = bcore2 s) (i : InvB2 a s) : InvB2 a s' := by
  simp only [bcore2, Prod.mk.injEq] at h
  obtain ⟨h1, h2, h3, h4, h5, h6, h7, h8⟩ := h
  obtain ⟨b, tc, bu, q, q', ac1, ac2, ac3, ev1, ev2, ev0, ub, ph⟩ := i
  refine ⟨?_, ?_, ?_, ?_, ?_, ?_, ?_, ?_, ?_, ?_, ?_, ?_, ?_⟩
  · rw [h3, h1]; exact b
  · rw [h3, h2]; exact tc
  · rw [h3, h4]; exact bu
  · rw [h3, h4, h5]; exact q
  · rw [h3, h4, h5]; exact q'
  · rw [h3, h4, h6]; exact ac1
  · rw [h3, h4, h6]; exact ac2
  · rw [h3, h4, h6]; exact ac3
  · rw [h3, h7]; exact ev1
  · rw [h3, h7]; exact ev2
  · rw [h4, h7]; exact ev0
  · rw [h3]; exact ub
  · unfold phase2; rw [h8, h3, h4]; exact ph

/-- the part of the state `InvS` reads -/
def score (s : St) : (ATid → AStatus) × (ATid → AProg) × CPc × Bool × Option Bool × Bool :=
  (s.astatus, s.aprog, s.cpc, s.built, s.evt, s.disp2Set)

theorem InvS.of_core {st : Bool} {a : ACfg} {s s' : St} (h : score s' = score s) (i : InvSg st a s) : InvSg st a s' := by
  simp only [score, Prod.mk.injEq] at h
  obtain ⟨h1, h2, h3, h4, h5, h6⟩ := h
  obtain ⟨nb, we, wv, ty, wq, d2, cc, hc, can, v2, dn, vn, da, vs, dnf, ip, ds, hs⟩ := i
  refine ⟨?_, ?_, ?_, ?_, ?_, ?_, ?_, ?_, ?_, ?_, ?_, ?_, ?_, ?_, ?_, ?_, ?_, ?_⟩
  · rw [h1, h4]; exact nb
  · rw [h1, h5]; exact we
  · rw [h1]; exact wv
  · rw [h1, h2]; exact ty
  · rw [h1]; exact wq
  · rw [h1, h2, h3]; exact d2
  · rw [h1, h2]; exact cc
  · rw [h1, h2]; exact hc
  · rw [h1, h3]; exact can
  · rw [h1, h3]; exact v2
  · rw [h1, h3, h4, h6]; exact dn
  · rw [h1, h3, h4]; exact vn
  · rw [h1, h6]; exact da
  · rw [h1]; exact vs
  · rw [h1, h3, h4]; exact dnf
  · rw [h1, h2]; exact ip
  · rw [h1]; exact ds
  · rw [h1, h2]; exact hs

@[simp] theorem score_emit2 (s : St) (o : AObs) : score (s.emit2 o) = score s := rfl

theorem InvS.emit2 {st : Bool} {a : ACfg} {s : St} {o : AObs} (i : InvSg st a s) : InvSg st a (s.emit2 o) := InvS.of_core (s := s) rfl i

/-- an application observable the monitor ignores -/
def neutral2 (o : AObs) : Bool :=
  match o with
  | .cbEnter => false | .cbExit => false | .msgEnter _ => false
  | _ => true

theorem mon2_neutral {o : AObs} (h : neutral2 o = true) (p : Nat) : mon2 p o = p := by
  cases o <;> simp_all [neutral2, mon2]

theorem InvB2.emit2 {a : ACfg} {s : St} {o : AObs} (h : neutral2 o = true) (i : InvB2 a s) : InvB2 a (s.emit2 o) := by
  obtain ⟨b, tc, bu, q, q', ac1, ac2, ac3, ev1, ev2, ev0, ub, ph⟩ := i
  refine ⟨b, tc, bu, q, q', ac1, ac2, ac3, ev1, ev2, ev0, ub, ?_⟩
  rw [trace2_emit2, mon2Run_append, mon2_neutral h]
  exact ph

/-! ### `_on_soup_message` wakes a waiting getter; an inner step moves no flag of the application layer -/

theorem InvS.wake2 {st : Bool} {a : ACfg} {s : St} (i : InvSg st a s) (t : ATid) : InvSg st a (s.wake2 t) := by
  unfold St.wake2
  split
  · rename_i hw
    obtain ⟨nb, we, wv, ty, wq, d2, cc, hc, can, v2, dn, vn, da, vs, dnf, ip, ds, hs⟩ := i
    refine ⟨?_, ?_, ?_, ?_, ?_, ?_, ?_, ?_, ?_, ?_, ?_, ?_, ?_, ?_, ?_, ?_, ?_, ?_⟩ <;> simp only [St.setA] <;> grind [alive2]
  · exact i

theorem bcore2_wake2 (s : St) (t : ATid) : bcore2 (s.wake2 t) = bcore2 s := by
  unfold St.wake2; split <;> rfl

theorem put2_K {st : Bool} {a : ACfg} {s : St} (v : Nat) (ib : InvB2 a s) (is : InvSg st a s) :
    InvB2 a (s.put2 v) ∧ InvSg st a (s.put2 v) := by
  unfold St.put2
  constructor
  · refine InvB2.of_core ?_ ib
    rw [bcore2_wake2, bcore2_wake2]; rfl
  · apply InvS.wake2
    apply InvS.wake2
    exact InvS.of_core (s := s) rfl is

theorem feed_K {st : Bool} {a : ACfg} (ns : List Nat) {s : St} (ib : InvB2 a s) (is : InvSg st a s) :
    InvB2 a (feed a s ns) ∧ InvSg st a (feed a s ns) := by
  induction ns generalizing s with
  | nil => exact ⟨ib, is⟩
  | cons n ns ih =>
    have e : feed a s (n :: ns) = feed a (feed1 a s n) ns := rfl
    rw [e]
    have h1 : InvB2 a (feed1 a s n) ∧ InvSg st a (feed1 a s n) := by
      unfold feed1
      split
      · exact put2_K _ ib is
      · exact ⟨ib, is⟩
    exact ih h1.1 h1.2

theorem innerStep_trace2 (a : ACfg) (s : St) (e : Sess.Ev) : (innerStep a s e).trace2 = s.trace2 := by
  unfold innerStep
  simp only
  obtain ⟨_, _, _, _, f5, _⟩ := feed_fields a
    (entered ((Sess.step (innerCfg a) s.inner e).trace.drop s.inner.trace.length))
    { s with inner := Sess.step (innerCfg a) s.inner e,
             tr := s.tr ++ ((Sess.step (innerCfg a) s.inner e).trace.drop s.inner.trace.length).map .inner }
  unfold St.trace2
  rw [f5]
  exact trace2_tr_inner s _

/-- the state after the inner step proper, before `_on_soup_message` runs -/
def innerPart (a : ACfg) (s : St) (e : Sess.Ev) : St :=
  { s with inner := Sess.step (innerCfg a) s.inner e,
           tr := s.tr ++ ((Sess.step (innerCfg a) s.inner e).trace.drop s.inner.trace.length).map .inner }

theorem innerStep_eq (a : ACfg) (s : St) (e : Sess.Ev) :
    innerStep a s e = feed a (innerPart a s e)
      (entered ((Sess.step (innerCfg a) s.inner e).trace.drop s.inner.trace.length)) := rfl

/-- an inner step keeps the flag and task invariants (the stage synchronisation is the business of the callers) -/
theorem innerStep_K {st : Bool} {a : ACfg} {s : St} (e : Sess.Ev) (ib : InvB2 a s) (is : InvSg st a s) :
    InvB2 a (innerStep a s e) ∧ InvSg st a (innerStep a s e) := by
  have hb0 : InvB2 a (innerPart a s e) := by
    obtain ⟨b, tc, bu, q, q', ac1, ac2, ac3, ev1, ev2, ev0, ub, ph⟩ := ib
    refine ⟨?_, ?_, bu, q, q', ac1, ac2, ac3, ev1, ev2, ev0, ub, ?_⟩
    · intro h; exact Sess.step_closed_mono _ _ _ (b h)
    · intro h
      obtain ⟨d, hd⟩ := Sess.step_trace_prefix (innerCfg a) s.inner e
      show Sess.Obs.tclose ∈ (Sess.step (innerCfg a) s.inner e).trace
      rw [← hd]; exact List.mem_append_left _ (tc h)
    · have : (innerPart a s e).trace2 = s.trace2 :=
        trace2_tr_inner { s with inner := Sess.step (innerCfg a) s.inner e } _
      unfold phase2
      rw [this]; exact ph
  have hs0 : InvSg st a (innerPart a s e) := InvS.of_core (s := s) rfl is
  rw [innerStep_eq]
  exact feed_K _ hb0 hs0


/-! ### the application-level close sequence -/

@[simp] theorem trace2_setA (s : St) (t : ATid) (x : AStatus) : (s.setA t x).trace2 = s.trace2 := rfl
@[simp] theorem trace2_setP (s : St) (t : ATid) (p : AProg) : (s.setP t p).trace2 = s.trace2 := rfl
@[simp] theorem trace2_finish2 (s : St) (t : ATid) : (s.finish2 t).trace2 = s.trace2 := rfl
@[simp] theorem trace2_setEvent (s : St) : s.setEvent.trace2 = s.trace2 := by
  unfold St.setEvent; split <;> rfl
@[simp] theorem trace2_cancel2 (s : St) (t : ATid) : (s.cancel2 t).trace2 = s.trace2 := by
  unfold St.cancel2; split <;> try rfl
  split <;> rfl

@[simp] theorem built_setEvent (s : St) : s.setEvent.built = s.built := by unfold St.setEvent; split <;> rfl
@[simp] theorem cpc_setEvent (s : St) : s.setEvent.cpc = s.cpc := by unfold St.setEvent; split <;> rfl
@[simp] theorem tr_setEvent (s : St) : s.setEvent.tr = s.tr := by unfold St.setEvent; split <;> rfl

/-- inside `_on_soup_close`, before the user's close callback: what holds whatever the position -/
structure PreC (a : ACfg) (s : St) : Prop where
  built : s.built = true
  qc : s.q2Closed = true
  cl : s.inner.closed = true
  tc : Sess.Obs.tclose ∈ s.inner.trace
  ev : s.evt ≠ some true
  cf : a.closedFirst = true → s.appClosed = true
  we : ∀ t, s.astatus t = .waitE → s.evt = some false
  wv : ∀ t, s.astatus t = .waitV → alive2 (s.astatus .V2) = true ∧ ∃ u, t = .W u
  ty : ∀ t, alive2 (s.astatus t) = true → allowed2 t (s.aprog t) = true
  wq : ∀ t, s.astatus t = .waitQ → t = .D2 ∨ t = .V2
  cc : ∀ v, s.aprog .D2 = .cleanupClose v → alive2 (s.astatus .D2) = true → a.closedFirst = false
  hc : ∀ v, s.aprog .D2 = .handlerClose v → alive2 (s.astatus .D2) = true → a.msgBeh v = .close ∨ ∃ k, a.msgBeh v = .awaitClose k
  da : alive2 (s.astatus .D2) = true → s.astatus .D2 ≠ .inSoup → s.disp2Set = true
  vs : s.astatus .V2 ≠ .waitE
  ip : ∀ t, s.astatus t = .inSoup → t = .D2 ∧ ((∃ v, s.aprog .D2 = .handlerClose v) ∨ ∃ v, s.aprog .D2 = .cleanupClose v)
  ds : s.astatus .D2 ≠ .waitE
  hs : ∀ v, s.aprog .D2 = .handlerClose v ∨ s.aprog .D2 = .cleanupClose v → alive2 (s.astatus .D2) = true → s.astatus .D2 = .inSoup

/-- `D2` is out of the way of `queue.stop()`: it has ended, or it is the closer itself (`stop_task` skips the current task) -/
def d2Out (s : St) : Prop := alive2 (s.astatus .D2) = false ∨ s.astatus .D2 = .inSoup

/-- the flag and task invariants at the state in which the closer is about to return from `_on_soup_close`
    (`cpc := finished`, event set): what `finishClose` needs -/
theorem finished_K {a : ACfg} {s : St} (p : PreC a s) (hD : alive2 (s.astatus .D2) = false ∨ s.astatus .D2 = .inSoup) (hds : s.disp2Set = false)
    (hV : alive2 (s.astatus .V2) = false) (hac : s.appClosed = true)
    (hph : mon2Run s.trace2 = if a.hasCb then 2 else 0) :
    InvB2 a { s.setEvent with cpc := .finished } ∧ InvSg false a { s.setEvent with cpc := .finished } := by
  obtain ⟨built, qc, cl, tc, ev, cf, we, wv, ty, wq, cc, hc, da, vs, ip, ds, hs⟩ := p
  have hph' : mon2Run ({ s.setEvent with cpc := .finished } : St).trace2 = phase2 a { s.setEvent with cpc := .finished } := by
    show mon2Run s.setEvent.trace2 = _
    rw [trace2_setEvent, hph]
    simp [phase2, built]
  have hip' : ∀ t, ({ s.setEvent with cpc := .finished } : St).astatus t = .inSoup →
      t = .D2 ∧ ((∃ v, ({ s.setEvent with cpc := .finished } : St).aprog .D2 = .handlerClose v) ∨
        ∃ v, ({ s.setEvent with cpc := .finished } : St).aprog .D2 = .cleanupClose v) := by
    intro t ht
    have ha : s.setEvent.aprog = s.aprog := by unfold St.setEvent; split <;> rfl
    have hs : s.astatus t = .inSoup := by
      revert ht
      show s.setEvent.astatus t = _ → _
      unfold St.setEvent
      split
      · simp only
        split
        · intro h; cases h
        · exact id
      · exact id
    show t = .D2 ∧ ((∃ v, s.setEvent.aprog .D2 = _) ∨ ∃ v, s.setEvent.aprog .D2 = _)
    rw [ha]; exact ip t hs
  constructor
  · refine ⟨?_, ?_, ?_, ?_, ?_, ?_, ?_, ?_, ?_, ?_, ?_, ?_, hph'⟩ <;> unfold St.setEvent <;> grind [midStage, lateStage]
  · refine ⟨?_, ?_, ?_, ?_, ?_, ?_, ?_, ?_, ?_, ?_, ?_, ?_, ?_, ?_, ?_, hip', ?_, ?_⟩ <;> unfold St.setEvent <;> grind [midStage, lateStage, alive2]


theorem feed_cpcK (a : ACfg) (ns : List Nat) (s1 : St) : (feed a s1 ns).cpc = s1.cpc := by
  induction ns generalizing s1 with
  | nil => rfl
  | cons n ns ih =>
    show (feed a (feed1 a s1 n) ns).cpc = s1.cpc
    rw [ih]
    unfold feed1
    split
    · unfold St.put2 St.wake2; split <;> split <;> rfl
    · rfl

theorem innerStep_fields2K (a : ACfg) (s : St) (e : Sess.Ev) : (innerStep a s e).cpc = s.cpc := by
  rw [innerStep_eq, feed_cpcK]; rfl

/-- `soup_session.close()` has returned to the message callback: the callback goes on and — the queue being stopped — the second
    dispatcher ends in the same step -/
theorem d2Return_K {a : ACfg} {s : St} (ib : InvB2 a s) (is : InvSg false a s) (hc : s.cpc = .finished) :
    InvB2 a (d2Return s) ∧ InvS a (d2Return s) := by
  unfold d2Return
  split
  · rename_i hin
    have hb : s.built = true := by
      cases hb : s.built with
      | true => rfl
      | false => have := is.nb hb .D2; rw [hin] at this; contradiction
    have hq : s.q2Closed = true := ib.q hb (by rw [hc]; simp)
    have hip := (is.ip .D2 hin).2
    split
    · rename_i v hp
      rw [if_pos hq]
      refine ⟨InvB2.of_core (s := (s.emit2 (.closeRet (.handler v) .ok)).emit2 (.msgExit v)) rfl ((ib.emit2 rfl).emit2 rfl), ?_⟩
      obtain ⟨nb, we, wv, ty, wq, d2, cc, hc', can, v2, dn, vn, da, vs, dnf, ip, ds, hs⟩ := is
      refine ⟨?_, ?_, ?_, ?_, ?_, ?_, ?_, ?_, ?_, ?_, ?_, ?_, ?_, ?_, ?_, ?_, ?_, ?_⟩ <;> simp only [St.finish2, St.emit2] <;>
        grind [midStage, lateStage, alive2]
    · rename_i v hp
      refine ⟨InvB2.of_core (s := (s.emit2 (.closeRet (.handler v) .ok)).emit2 (.msgAbandon v)) rfl ((ib.emit2 rfl).emit2 rfl), ?_⟩
      obtain ⟨nb, we, wv, ty, wq, d2, cc, hc', can, v2, dn, vn, da, vs, dnf, ip, ds, hs⟩ := is
      refine ⟨?_, ?_, ?_, ?_, ?_, ?_, ?_, ?_, ?_, ?_, ?_, ?_, ?_, ?_, ?_, ?_, ?_, ?_⟩ <;> simp only [St.finish2, St.emit2] <;>
        grind [midStage, lateStage, alive2]
    · rename_i h1 h2
      rcases hip with ⟨v, hv⟩ | ⟨v, hv⟩
      · exact absurd hv (h1 v)
      · exact absurd hv (h2 v)
  · rename_i hin
    refine ⟨ib, ?_⟩
    have hb0 := is.dn
    obtain ⟨nb, we, wv, ty, wq, d2, cc, hc', can, v2, dn, vn, da, vs, dnf, ip, ds, hs⟩ := is
    refine ⟨nb, we, wv, ty, wq, d2, cc, hc', can, v2, dn, vn, da, vs, ?_, ip, ds, hs⟩
    intro _ hb hcf
    rcases (hb0 hb (Or.inr (by rw [hcf]; rfl))).1 with h | h
    · exact h
    · exact absurd h hin

theorem PreC.emit2 {a : ACfg} {s : St} (p : PreC a s) (o : AObs) : PreC a (s.emit2 o) := by
  obtain ⟨built, qc, cl, tc, ev, cf, we, wv, ty, wq, cc, hc, da, vs, ip, ds, hs⟩ := p
  exact ⟨built, qc, cl, tc, ev, cf, we, wv, ty, wq, cc, hc, da, vs, ip, ds, hs⟩

theorem finishClose_K {a : ACfg} {s : St} (t : Sess.Tid) (p : PreC a s) (hD : alive2 (s.astatus .D2) = false ∨ s.astatus .D2 = .inSoup)
    (hds : s.disp2Set = false) (hV : alive2 (s.astatus .V2) = false) (hac : s.appClosed = true)
    (hph : mon2Run s.trace2 = if a.hasCb then 2 else 0) :
    InvB2 a (finishClose a s.setEvent t) ∧ InvS a (finishClose a s.setEvent t) := by
  obtain ⟨h1, h2⟩ := finished_K p hD hds hV hac hph
  obtain ⟨h3, h4⟩ := innerStep_K (.run t) h1 h2
  exact d2Return_K h3 h4 (by rw [innerStep_fields2K])

theorem endCb_K {a : ACfg} {s : St} (t : Sess.Tid) (p : PreC a s) (hD : alive2 (s.astatus .D2) = false ∨ s.astatus .D2 = .inSoup)
    (hds : s.disp2Set = false) (hV : alive2 (s.astatus .V2) = false) (hac : s.appClosed = true)
    (hcb : a.hasCb = true) (hph : mon2Run s.trace2 = 1) :
    InvB2 a (endCb a s t) ∧ InvS a (endCb a s t) := by
  unfold endCb
  refine finishClose_K t (p.emit2 _) hD hds hV hac ?_
  rw [trace2_emit2, mon2Run_append, hph, hcb]
  rfl

theorem afterStop_K {a : ACfg} {s : St} (t : Sess.Tid) (p : PreC a s) (hD : alive2 (s.astatus .D2) = false ∨ s.astatus .D2 = .inSoup)
    (hds : s.disp2Set = false) (hV : alive2 (s.astatus .V2) = false) (hph : mon2Run s.trace2 = 0) :
    InvB2 a (afterStop a s t) ∧ InvS a (afterStop a s t) := by
  unfold afterStop
  have p1 : PreC a { s with appClosed := true } := by
    obtain ⟨built, qc, cl, tc, ev, cf, we, wv, ty, wq, cc, hc, da, vs, ip, ds, hs⟩ := p
    exact ⟨built, qc, cl, tc, ev, fun _ => rfl, we, wv, ty, wq, cc, hc, da, vs, ip, ds, hs⟩
  simp only
  split
  · rename_i hcb
    refine finishClose_K t p1 hD hds hV rfl ?_
    show mon2Run s.trace2 = _
    rw [hph]; simp at hcb; simp [hcb]
  · rename_i hcb
    have hcb' : a.hasCb = true := by simpa using hcb
    have hph1 : mon2Run (({ s with appClosed := true } : St).emit2 .cbEnter).trace2 = 1 := by
      rw [trace2_emit2, mon2Run_append]
      show mon2 (mon2Run s.trace2) .cbEnter = 1
      rw [hph]; rfl
    split
    · -- the user's close callback suspends
      rename_i k hk
      obtain ⟨built, qc, cl, tc, ev, cf, we, wv, ty, wq, cc, hc, da, vs, ip, ds, hs⟩ := p
      have hph' : mon2Run ({ (({ s with appClosed := true } : St).emit2 .cbEnter) with cpc := .user k } : St).trace2
          = phase2 a { (({ s with appClosed := true } : St).emit2 .cbEnter) with cpc := .user k } := hph1
      constructor
      · refine ⟨?_, ?_, ?_, ?_, ?_, ?_, ?_, ?_, ?_, ?_, ?_, ?_, hph'⟩ <;> simp only [St.emit2] <;> grind [midStage, lateStage]
      · refine ⟨?_, ?_, ?_, ?_, ?_, ?_, ?_, ?_, ?_, ?_, ?_, ?_, ?_, ?_, ?_, ?_, ?_, ?_⟩ <;> simp only [St.emit2] <;> grind [midStage, lateStage, alive2]
    · refine endCb_K t ((p1.emit2 _).emit2 _) hD hds hV rfl hcb' ?_
      rw [trace2_emit2, mon2Run_append, hph1]; rfl
    · exact endCb_K t (p1.emit2 _) hD hds hV rfl hcb' hph1

@[simp] theorem cpc_cancel2 (s : St) (t : ATid) : (s.cancel2 t).cpc = s.cpc := by
  unfold St.cancel2; split <;> try rfl
  split <;> rfl

theorem bcore2_cancel2 (s : St) (t : ATid) : bcore2 (s.cancel2 t) = bcore2 s := by
  unfold St.cancel2; split <;> try rfl
  split <;> rfl

/-- cancelling a live task that is not awaiting the helper: it is runnable with the cancellation pending -/
theorem cancel2_alive (s : St) (t : ATid) (h : alive2 (s.astatus t) = true) (hv : s.astatus t ≠ .waitV)
    (hi : s.astatus t ≠ .inSoup) : s.cancel2 t = s.setA t .cancelled := by
  unfold St.cancel2
  cases hs : s.astatus t with
  | absent => rw [hs] at h; simp [alive2] at h
  | done => rw [hs] at h; simp [alive2] at h
  | waitV => exact absurd hs hv
  | inSoup => exact absurd hs hi
  | cancelled =>
    simp only
    cases s
    simp only [St.setA, St.mk.injEq, true_and, and_true]
    funext x
    split
    · rename_i e; subst e; exact hs
    · rfl
  | _ => rfl

theorem stopV2_K {a : ACfg} {s : St} (t : Sess.Tid) (p : PreC a s) (hD : alive2 (s.astatus .D2) = false ∨ s.astatus .D2 = .inSoup)
    (hds : s.disp2Set = false) (hph : mon2Run s.trace2 = 0) :
    InvB2 a (stopV2 a s t) ∧ InvS a (stopV2 a s t) := by
  unfold stopV2
  split
  · rename_i hV
    obtain ⟨built, qc, cl, tc, ev, cf, we, wv, ty, wq, cc, hc, da, vs, ip, ds, hs⟩ := p
    have hph' : mon2Run ({ (s.cancel2 .V2) with cpc := .waitV2 } : St).trace2
        = phase2 a { (s.cancel2 .V2) with cpc := .waitV2 } := by
      show mon2Run (s.cancel2 .V2).trace2 = 0
      rw [trace2_cancel2]; exact hph
    have hvv : s.astatus .V2 ≠ .waitV := by
      intro h; obtain ⟨_, u, hu⟩ := wv _ h; cases hu
    have hvi : s.astatus .V2 ≠ .inSoup := by
      intro h; have := (ip _ h).1; cases this
    rw [cancel2_alive s .V2 hV hvv hvi] at hph' ⊢
    constructor
    · refine ⟨?_, ?_, ?_, ?_, ?_, ?_, ?_, ?_, ?_, ?_, ?_, ?_, hph'⟩ <;> simp only [St.setA] <;> grind [midStage, lateStage]
    · refine ⟨?_, ?_, ?_, ?_, ?_, ?_, ?_, ?_, ?_, ?_, ?_, ?_, ?_, ?_, ?_, ?_, ?_, ?_⟩ <;> simp only [St.setA] <;>
        grind [midStage, lateStage, alive2]
  · rename_i hV
    exact afterStop_K t p hD hds (by simpa using hV) hph

theorem stopD2_K {a : ACfg} {s : St} (t : Sess.Tid) (p : PreC a s) (hph : mon2Run s.trace2 = 0) :
    InvB2 a (stopD2 a s t) ∧ InvS a (stopD2 a s t) := by
  unfold stopD2
  split
  · rename_i hDa
    obtain ⟨built, qc, cl, tc, ev, cf, we, wv, ty, wq, cc, hc, da, vs, ip, ds, hs⟩ := p
    have hph' : mon2Run ({ (s.cancel2 .D2) with cpc := .waitD2 } : St).trace2
        = phase2 a { (s.cancel2 .D2) with cpc := .waitD2 } := by
      show mon2Run (s.cancel2 .D2).trace2 = 0
      rw [trace2_cancel2]; exact hph
    have hDa' : alive2 (s.astatus .D2) = true := by simp at hDa; exact hDa.1.2
    have hdi : s.astatus .D2 ≠ .inSoup := by simp at hDa; exact hDa.2
    have hdv : s.astatus .D2 ≠ .waitV := by
      intro h; obtain ⟨_, u, hu⟩ := wv _ h; cases hu
    rw [cancel2_alive s .D2 hDa' hdv hdi] at hph' ⊢
    constructor
    · refine ⟨?_, ?_, ?_, ?_, ?_, ?_, ?_, ?_, ?_, ?_, ?_, ?_, hph'⟩ <;> simp only [St.setA] <;> grind [midStage, lateStage]
    · refine ⟨?_, ?_, ?_, ?_, ?_, ?_, ?_, ?_, ?_, ?_, ?_, ?_, ?_, ?_, ?_, ?_, ?_, ?_⟩ <;> simp only [St.setA] <;>
        grind [midStage, lateStage, alive2]
  · rename_i hDa
    have hD : alive2 (s.astatus .D2) = false ∨ s.astatus .D2 = .inSoup := by
      cases h : alive2 (s.astatus .D2) with
      | false => exact Or.inl rfl
      | true =>
        by_cases h2 : s.astatus .D2 = .inSoup
        · exact Or.inr h2
        · have := p.da h h2; simp [this, h, h2] at hDa
    have p1 : PreC a { s with disp2Set := false } := by
      obtain ⟨built, qc, cl, tc, ev, cf, we, wv, ty, wq, cc, hc, da, vs, ip, ds, hs⟩ := p
      refine ⟨built, qc, cl, tc, ev, cf, we, wv, ty, wq, cc, hc, ?_, vs, ip, ds, hs⟩
      intro h h2
      rcases hD with h' | h'
      · rw [h'] at h; contradiction
      · exact absurd h' h2
    exact stopV2_K t p1 hD rfl hph


/-- the invariants give the common facts of the close sequence -/
theorem PreC.of_inv {a : ACfg} {s : St} (ib : InvB2 a s) (is : InvS a s) (hb : s.built = true) (hq : s.q2Closed = true)
    (hc : s.cpc ≠ .idle) (hnf : s.cpc ≠ .finished) : PreC a s :=
  ⟨hb, hq, ib.b hc, ib.tc hc, fun h => hnf (ib.ev1 h), fun h => ib.ac3 h hb hc, is.we, is.wv, is.ty, is.wq, is.cc, is.hc, is.da,
    is.vs, is.ip, is.ds, is.hs⟩

theorem onSoupClose_K {a : ACfg} {s : St} (t : Sess.Tid) (ib : InvB2 a s) (is : InvS a s) (hidle : s.cpc = .idle)
    (hcl : s.inner.closed = true) (htc : Sess.Obs.tclose ∈ s.inner.trace) :
    InvB2 a (onSoupClose a s t) ∧ InvS a (onSoupClose a s t) := by
  unfold onSoupClose
  have hph0 : mon2Run s.trace2 = 0 := by rw [ib.ph]; simp [phase2, hidle]
  split
  · -- no application session yet: no close callback on the soup session
    rename_i hb
    have hb' : s.built = false := by simpa using hb
    have h1 : InvB2 a { s with cpc := .finished } ∧ InvSg false a { s with cpc := .finished } := by
      obtain ⟨b, tc, bu, q, q', ac1, ac2, ac3, ev1, ev2, ev0, ub, ph⟩ := ib
      obtain ⟨nb, we, wv, ty, wq, d2, cc, hc, can, v2, dn, vn, da, vs, dnf, ip, ds, hs⟩ := is
      have hph' : mon2Run ({ s with cpc := .finished } : St).trace2 = phase2 a { s with cpc := .finished } := by
        show mon2Run s.trace2 = _
        rw [hph0]; simp [phase2, hb']
      constructor
      · refine ⟨?_, ?_, ?_, ?_, ?_, ?_, ?_, ?_, ?_, ?_, ?_, ?_, hph'⟩ <;> grind [midStage, lateStage]
      · refine ⟨?_, ?_, ?_, ?_, ?_, ?_, ?_, ?_, ?_, ?_, ?_, ?_, ?_, ?_, ?_, ?_, ?_, ?_⟩ <;> grind [midStage, lateStage, alive2]
    obtain ⟨h3, h4⟩ := innerStep_K (.run t) h1.1 h1.2
    exact d2Return_K h3 h4 (by rw [innerStep_fields2K])
  · rename_i hb
    have hb' : s.built = true := by simpa using hb
    have hq0 : s.q2Closed = false := by
      cases h : s.q2Closed with
      | false => rfl
      | true => exact absurd hidle (ib.q' h).2
    have hev : s.evt ≠ some true := fun h => by have := ib.ev1 h; rw [hidle] at this; contradiction
    have key : ∀ s1 : St, s1.inner = s.inner → s1.built = s.built → s1.q2Closed = s.q2Closed → s1.evt = s.evt →
        s1.astatus = s.astatus → s1.aprog = s.aprog → s1.disp2Set = s.disp2Set → s1.trace2 = s.trace2 →
        (a.closedFirst = true → s1.appClosed = true) →
        InvB2 a (if s1.q2Closed = true then afterStop a s1 t else stopD2 a { s1 with q2Closed := true } t) ∧
        InvS a (if s1.q2Closed = true then afterStop a s1 t else stopD2 a { s1 with q2Closed := true } t) := by
      intro s1 e1 e2 e3 e4 e5 e6 e7 e8 hcf
      rw [e3, hq0]
      simp only [Bool.false_eq_true, if_false]
      have p : PreC a { s1 with q2Closed := true } :=
        ⟨by show s1.built = true; rw [e2]; exact hb', rfl, by show s1.inner.closed = true; rw [e1]; exact hcl,
          by show _ ∈ s1.inner.trace; rw [e1]; exact htc, by show s1.evt ≠ _; rw [e4]; exact hev, hcf,
          by show ∀ t, s1.astatus t = _ → s1.evt = _; rw [e5, e4]; exact is.we,
          by show ∀ t, s1.astatus t = _ → alive2 (s1.astatus .V2) = true ∧ _; rw [e5]; exact is.wv,
          by show ∀ t, alive2 (s1.astatus t) = true → allowed2 t (s1.aprog t) = true; rw [e5, e6]; exact is.ty,
          by show ∀ t, s1.astatus t = _ → _; rw [e5]; exact is.wq,
          by show ∀ v, s1.aprog .D2 = _ → alive2 (s1.astatus .D2) = true → _; rw [e5, e6]; exact is.cc,
          by show ∀ v, s1.aprog .D2 = _ → alive2 (s1.astatus .D2) = true → _; rw [e5, e6]; exact is.hc,
          by show alive2 (s1.astatus .D2) = true → s1.astatus .D2 ≠ _ → s1.disp2Set = true; rw [e5, e7]; exact is.da,
          by show s1.astatus .V2 ≠ _; rw [e5]; exact is.vs,
          by show ∀ t, s1.astatus t = _ → t = .D2 ∧ ((∃ v, s1.aprog .D2 = _) ∨ ∃ v, s1.aprog .D2 = _); rw [e5, e6]; exact is.ip,
          by show s1.astatus .D2 ≠ _; rw [e5]; exact is.ds,
          by show ∀ v, s1.aprog .D2 = _ ∨ s1.aprog .D2 = _ → alive2 (s1.astatus .D2) = true → s1.astatus .D2 = _; rw [e5, e6]; exact is.hs⟩
      exact stopD2_K t p (by show mon2Run s1.trace2 = 0; rw [e8]; exact hph0)
    apply key
    all_goals first | (split <;> rfl) | skip
    intro hcf
    rw [if_pos hcf]


theorem resumeSoupClose_K {a : ACfg} {s : St} (t : Sess.Tid) (ib : InvB2 a s) (is : InvS a s)
    (hnb : closerBlocked s = false) :
    InvB2 a (resumeSoupClose a s t) ∧ InvS a (resumeSoupClose a s t) := by
  unfold resumeSoupClose
  split
  · -- resumed after the second dispatcher ended
    rename_i hc
    have hD : alive2 (s.astatus .D2) = false := by simpa [closerBlocked, hc] using hnb
    have hb : s.built = true := ib.bu (Or.inl (by rw [hc]; rfl))
    have p := PreC.of_inv ib is hb (ib.q hb (by rw [hc]; simp)) (by rw [hc]; simp) (by rw [hc]; simp)
    have p1 : PreC a { s with disp2Set := false } := by
      obtain ⟨built, qc, cl, tc, ev, cf, we, wv, ty, wq, cc, hc, da, vs, ip, ds, hs⟩ := p
      exact ⟨built, qc, cl, tc, ev, cf, we, wv, ty, wq, cc, hc, fun h _ => by rw [hD] at h; contradiction, vs, ip, ds, hs⟩
    exact stopV2_K t p1 (Or.inl hD) rfl (by show mon2Run s.trace2 = 0; rw [ib.ph]; simp [phase2, hc])
  · -- resumed after the receive helper ended
    rename_i hc
    have hV : alive2 (s.astatus .V2) = false := by simpa [closerBlocked, hc] using hnb
    have hb : s.built = true := ib.bu (Or.inl (by rw [hc]; rfl))
    have p := PreC.of_inv ib is hb (ib.q hb (by rw [hc]; simp)) (by rw [hc]; simp) (by rw [hc]; simp)
    obtain ⟨hD, hds⟩ := is.dn hb (Or.inl hc)
    exact afterStop_K t p hD hds hV (by rw [ib.ph]; simp [phase2, hc])
  · -- inside the user's close callback
    rename_i k hc
    have hb : s.built = true := ib.bu (Or.inl (by rw [hc]; rfl))
    have hph1 : mon2Run s.trace2 = 1 := by rw [ib.ph]; simp [phase2, hc]
    split
    · have h1 : InvB2 a { s with cpc := .aborted } ∧ InvS a { s with cpc := .aborted } := by
        obtain ⟨b, tc, bu, q, q', ac1, ac2, ac3, ev1, ev2, ev0, ub, ph⟩ := ib
        obtain ⟨nb, we, wv, ty, wq, d2, cc, hc', can, v2, dn, vn, da, vs, dnf, ip, ds, hs⟩ := is
        have hub := ub (Or.inl ⟨_, hc⟩)
        have hph' : mon2Run ({ s with cpc := .aborted } : St).trace2 = phase2 a { s with cpc := .aborted } := hph1
        constructor
        · refine ⟨?_, ?_, ?_, ?_, ?_, ?_, ?_, ?_, ?_, ?_, ?_, ?_, hph'⟩ <;> grind [midStage, lateStage]
        · refine ⟨?_, ?_, ?_, ?_, ?_, ?_, ?_, ?_, ?_, ?_, ?_, ?_, ?_, ?_, ?_, ?_, ?_, ?_⟩ <;> grind [midStage, lateStage, alive2]
      exact innerStep_K _ h1.1 h1.2
    · split
      · have p := PreC.of_inv ib is hb (ib.q hb (by rw [hc]; simp)) (by rw [hc]; simp) (by rw [hc]; simp)
        obtain ⟨hD, hds⟩ := is.dn hb (Or.inr (by rw [hc]; rfl))
        exact endCb_K t p hD hds (is.vn hb (by rw [hc]; rfl)) (ib.ac2 hb (by rw [hc]; rfl)) (ib.ub (Or.inl ⟨_, hc⟩)).1 hph1
      · rename_i k'
        obtain ⟨b, tc, bu, q, q', ac1, ac2, ac3, ev1, ev2, ev0, ub, ph⟩ := ib
        obtain ⟨nb, we, wv, ty, wq, d2, cc, hc', can, v2, dn, vn, da, vs, dnf, ip, ds, hs⟩ := is
        have hub := ub (Or.inl ⟨_, hc⟩)
        have hph' : mon2Run ({ s with cpc := .user k' } : St).trace2 = phase2 a { s with cpc := .user k' } := hph1
        constructor
        · refine ⟨?_, ?_, ?_, ?_, ?_, ?_, ?_, ?_, ?_, ?_, ?_, ?_, hph'⟩ <;> grind [midStage, lateStage]
        · refine ⟨?_, ?_, ?_, ?_, ?_, ?_, ?_, ?_, ?_, ?_, ?_, ?_, ?_, ?_, ?_, ?_, ?_, ?_⟩ <;> grind [midStage, lateStage, alive2]
  · exact ⟨ib, is⟩

theorem construct_K {a : ACfg} {s : St} (ib : InvB2 a s) (is : InvS a s) :
    InvB2 a (construct a s) ∧ InvS a (construct a s) := by
  unfold construct
  split
  · rename_i hg
    simp only [Bool.and_eq_true, Bool.not_eq_true', bne_iff_ne, ne_eq] at hg
    obtain ⟨⟨⟨hb, _⟩, hcl⟩, _⟩ := hg
    have hidle : s.cpc = .idle := by
      cases h : s.cpc with
      | idle => rfl
      | _ => have := ib.b (by rw [h]; simp); rw [hcl] at this; contradiction
    obtain ⟨b, tc, bu, q, q', ac1, ac2, ac3, ev1, ev2, ev0, ub, ph⟩ := ib
    obtain ⟨nb, we, wv, ty, wq, d2, cc, hc', can, v2, dn, vn, da, vs, dnf, ip, ds, hs⟩ := is
    have hph0 : mon2Run s.trace2 = 0 := by rw [ph]; simp [phase2, hidle]
    simp only
    split
    · have hph' : mon2Run (({ s with built := true, disp2Set := true } : St).spawn2 .D2 .dispLoop).trace2
          = phase2 a (({ s with built := true, disp2Set := true } : St).spawn2 .D2 .dispLoop) := by
        show mon2Run s.trace2 = _
        rw [hph0]; simp [phase2, St.spawn2, St.setA, St.setP, hidle]
      constructor
      · refine ⟨?_, ?_, ?_, ?_, ?_, ?_, ?_, ?_, ?_, ?_, ?_, ?_, hph'⟩ <;> simp only [St.spawn2, St.setA, St.setP] <;>
          grind [midStage, lateStage]
      · refine ⟨?_, ?_, ?_, ?_, ?_, ?_, ?_, ?_, ?_, ?_, ?_, ?_, ?_, ?_, ?_, ?_, ?_, ?_⟩ <;> simp only [St.spawn2, St.setA, St.setP] <;>
          grind [midStage, lateStage, alive2, allowed2]
    · have hph' : mon2Run ({ s with built := true } : St).trace2 = phase2 a { s with built := true } := by
        show mon2Run s.trace2 = _
        rw [hph0]; simp [phase2, hidle]
      constructor
      · refine ⟨?_, ?_, ?_, ?_, ?_, ?_, ?_, ?_, ?_, ?_, ?_, ?_, hph'⟩ <;> grind [midStage, lateStage]
      · refine ⟨?_, ?_, ?_, ?_, ?_, ?_, ?_, ?_, ?_, ?_, ?_, ?_, ?_, ?_, ?_, ?_, ?_, ?_⟩ <;> grind [midStage, lateStage, alive2]
  · exact ⟨ib, is⟩

end NasdaqModel.App
