import NasdaqModel.Lemmas.SyncFacadeLemmas
/-
Termination measure of the C20 transition system: every transition (of any thread, the loop, the peer) strictly
decreases `mu`, for EVERY state (no invariant needed) — so every run is finite and bounded by `mu (init cfg)`.
-/
namespace NasdaqModel.SyncFacade

def pcRank : Pc → Nat
  | .idle => 0
  | .acq => 12 | .chkEvt => 11 | .chk1 => 10 | .chk2 => 9 | .submit => 8 | .wait => 5
  | .rel => 4 | .waitEvt => 3 | .join => 2

def jobRank : Job → Nat
  | .none => 0 | .submitted _ => 2 | .blocked _ => 1 | .running => 1 | .done _ => 0

/-- statements (and loop steps on its behalf) a caller thread still has before it: 14 per call not yet started -/
def callerMu (c : Caller) : Nat :=
  (match c.pc with
   | .idle => 14 * c.prog.length
   | pc => pcRank pc + 14 * (c.prog.length - 1)) + jobRank c.job

def closeRank : ClosePc → Nat
  | .idle => 5 | .spawned => 4 | .begun => 3 | .inCb => 2 | .stopCalled => 1 | .done => 0

def sumMu : List Caller → Nat
  | [] => 0
  | c :: cs => callerMu c + sumMu cs

def mu (s : St) : Nat :=
  sumMu s.callers + closeRank s.closePc + (if s.loopAlive then 1 else 0) + s.peer.length

theorem sumMu_updAt_le (l : List Caller) (k : Nat) (f : Caller → Caller)
    (h : ∀ c, l[k]? = some c → callerMu (f c) ≤ callerMu c) : sumMu (updAt l k f) ≤ sumMu l := by
  induction l generalizing k with
  | nil => simp [updAt]
  | cons c cs ih =>
    cases k with
    | zero => have := h c (by simp); simp only [updAt, sumMu]; omega
    | succ k =>
      have := ih k (fun c hc => h c (by simpa using hc))
      simp only [updAt, sumMu]; omega

theorem sumMu_updAt_lt (l : List Caller) (k : Nat) (f : Caller → Caller) (c : Caller)
    (hc : l[k]? = some c) (h : callerMu (f c) < callerMu c) : sumMu (updAt l k f) < sumMu l := by
  induction l generalizing k with
  | nil => simp at hc
  | cons c0 cs ih =>
    cases k with
    | zero => simp at hc; subst hc; simp only [updAt, sumMu]; omega
    | succ k =>
      have := ih k (by simpa using hc)
      simp only [updAt, sumMu]; omega

theorem callerMu_setJob (j : Job) (c : Caller) : callerMu (setJob j c) + jobRank c.job = callerMu c + jobRank j := by
  simp only [callerMu, setJob]; omega

theorem callerMu_resolveBlocked_le (o : Outcome) (c : Caller) : callerMu (resolveBlocked o c) ≤ callerMu c := by
  unfold resolveBlocked
  split
  · rename_i t ht; simp only [callerMu, ht, jobRank]; omega
  · exact Nat.le_refl _

theorem closeRank_initiate_le (p : ClosePc) : closeRank p.initiate ≤ closeRank p := by
  cases p <;> simp [ClosePc.initiate, closeRank]

theorem callerStep_mu {lock : Option Tid} {evt alive : Bool} {i : Nat} {c c' : Caller} {lk : Option Tid}
    (h : callerStep lock evt alive i c = some (c', lk)) : callerMu c' < callerMu c := by
  unfold callerStep at h
  rcases c with ⟨prog, pc, job, hist⟩
  cases prog with
  | nil => simp at h
  | cons op rest =>
    cases pc <;> cases op <;> simp only [] at h <;> (repeat' (split at h)) <;>
      first
      | (simp only [reduceCtorEq] at h; done)
      | (simp only [Option.some.injEq, Prod.mk.injEq] at h
         obtain ⟨rfl, rfl⟩ := h
         simp_all [callerMu, pcRank, jobRank, finish] <;> omega)

theorem stepCaller_mu {s s' : St} {i : Nat} (h : stepCaller s i = some s') : mu s' < mu s := by
  obtain ⟨c, c', lk, hc, hcs, rfl⟩ := stepCaller_spec h
  have := sumMu_updAt_lt s.callers i (fun _ => c') c hc (callerStep_mu hcs)
  simp only [mu]; omega

theorem stepJob_mu {s s' : St} {i : Nat} (h : stepJob s i = some s') : mu s' < mu s := by
  unfold stepJob at h
  split at h
  · split at h
    · simp at h
    · rename_i c hc
      have key : ∀ (k : JobKind) (j : Job), c.job = .submitted k → jobRank j ≤ 1 →
          sumMu (updAt s.callers i (setJob j)) < sumMu s.callers := by
        intro k j hk hj
        apply sumMu_updAt_lt _ _ _ c hc
        have := callerMu_setJob j c
        have e : jobRank c.job = 2 := by rw [hk]; rfl
        omega
      have hin := closeRank_initiate_le s.closePc
      split at h
      · rename_i hjob
        split at h
        · simp only [Option.some.injEq] at h; subst h
          have := key _ (.done .msg) hjob (by simp [jobRank]); simp only [mu]; omega
        · split at h
          · simp only [Option.some.injEq] at h; subst h
            have := key _ (.done .eoq) hjob (by simp [jobRank]); simp only [mu]; omega
          · simp only [Option.some.injEq] at h; subst h
            have := key _ (.blocked s.nextTicket) hjob (by simp [jobRank]); simp only [mu]; omega
      · rename_i hjob
        simp only [Option.some.injEq] at h; subst h
        have := key _ (.done .ok) hjob (by simp [jobRank]); simp only [mu]; omega
      · rename_i hjob
        simp only [Option.some.injEq] at h; subst h
        have := key _ (.done .ok) hjob (by simp [jobRank]); simp only [mu]; omega
      · rename_i hjob
        simp only [Option.some.injEq] at h; subst h
        have := key _ (.done .ok) hjob (by simp [jobRank]); simp only [mu, List.length_nil]; omega
      · rename_i hjob
        simp only [Option.some.injEq] at h; subst h
        have := key _ .running hjob (by simp [jobRank]); simp only [mu]; omega
      · simp at h
  · simp at h

theorem stepClose_mu {s s' : St} (h : stepClose s = some s') : mu s' < mu s := by
  unfold stepClose at h
  split at h <;> rename_i hpc
  · simp at h
  · split at h
    · simp at h
    · split at h
      · rename_i jj _
        simp only [Option.some.injEq] at h; subst h
        have := sumMu_updAt_le s.callers jj (resolveBlocked .eoq) (fun c _ => callerMu_resolveBlocked_le _ c)
        simp only [mu, hpc, closeRank]; omega
      · simp only [Option.some.injEq] at h; subst h
        simp only [mu, hpc, closeRank]; omega
  all_goals
    ((repeat' split at h) <;> first
      | (simp at h; done)
      | (simp only [Option.some.injEq] at h; subst h; simp only [mu, hpc, closeRank]; omega))

theorem stepStop_mu {s s' : St} (h : stepStop s = some s') : mu s' < mu s := by
  unfold stepStop at h
  split at h
  · rename_i hc
    simp only [Option.some.injEq] at h; subst h
    have : s.loopAlive = true := by simp_all
    simp [mu, this]
  · simp at h

theorem stepPeer_mu {s s' : St} (h : stepPeer s = some s') : mu s' < mu s := by
  unfold stepPeer at h
  have hin := closeRank_initiate_le s.closePc
  split at h
  · simp at h
  · rename_i ev rest hp
    split at h
    · simp at h
    · split at h
      · simp only [Option.some.injEq] at h; subst h
        cases ev <;> simp only [mu, hp, List.length_cons, List.length_nil] <;> omega
      · split at h
        · split at h
          · simp only [Option.some.injEq] at h; subst h; simp only [mu, hp, List.length_cons]; omega
          · split at h
            · rename_i hh t hm
              simp only [Option.some.injEq] at h; subst h
              obtain ⟨ch, hch, hjb⟩ := minBlocked_some hm
              have u1 : sumMu (updAt s.callers hh (setJob (.done .msg))) ≤ sumMu s.callers := by
                apply sumMu_updAt_le
                intro c0 hc0; rw [hch] at hc0; cases hc0
                have := callerMu_setJob (.done .msg) ch
                have e1 : jobRank ch.job = 1 := by rw [hjb]; rfl
                have e2 : jobRank (.done .msg) = 0 := rfl
                omega
              simp only [mu, hp, List.length_cons]
              split
              · split
                · omega
                · rename_i jj _ _
                  have := sumMu_updAt_le (updAt s.callers hh (setJob (.done .msg))) jj (resolveBlocked .cancelled)
                    (fun c _ => callerMu_resolveBlocked_le _ c)
                  omega
              · omega
            · simp only [Option.some.injEq] at h; subst h; simp only [mu, hp, List.length_cons]; omega
        all_goals
          (simp only [Option.some.injEq] at h; subst h; simp only [mu, hp, List.length_cons, List.length_nil]; omega)

theorem step_mu {s s' : St} {l : Label} (h : step s l = some s') : mu s' < mu s := by
  cases l with
  | caller i => exact stepCaller_mu h
  | job i => exact stepJob_mu h
  | close => exact stepClose_mu h
  | stop => exact stepStop_mu h
  | peer => exact stepPeer_mu h

theorem exec_length_le {s s' : St} {ls : List Label} (h : exec s ls = some s') : ls.length + mu s' ≤ mu s := by
  induction ls generalizing s with
  | nil => simp [exec] at h; subst h; simp
  | cons l ls ih =>
    simp only [exec] at h
    cases hs : step s l with
    | none => simp [hs] at h
    | some s1 =>
      simp only [hs] at h
      have := ih h
      have := step_mu hs
      simp only [List.length_cons]; omega

end NasdaqModel.SyncFacade
