import NasdaqModel.Lemmas.SessionDrainInv
/-
The session machine refines the abstract pipeline — part 2: **every** event.  From a reachable state of an open session in callback
mode with no receive pending (`CbLive`), any event that leaves the session open is a reader tick, a dispatcher step or a data
arrival of the pipeline, or does not touch the pipeline at all (`sim_any`); hence along any run that ends open (`sim_run_open`).
-/
namespace NasdaqModel.Sess

/-- open, connected, in callback mode, no receive pending -/
structure CbLive (s : St) : Prop where
  op : s.closed = false
  conn : s.status .R ≠ .absent
  disp : s.dispSet = true
  busy : s.rcvBusy = false
  vres : s.vres = none

/-- the structural facts follow from the invariants -/
theorem CbLive.live {s : St} (c : CbLive s) (r : InvR s) (w : InvW s) (p : InvP s) : Live s := by
  obtain ⟨hrs, hR, _⟩ := r c.op
  have hR' := hR.resolve_left c.conn
  refine ⟨hR'.1, hR'.2, hrs, ?_, c.busy, c.vres, (p c.op).1 c.disp⟩
  cases h : s.qClosed with
  | false => rfl
  | true => have := w.qc h; rw [c.op] at this; cases this

/-- no receive pending ⇒ no receive helper alive -/
theorem CbLive.vdead {s : St} (c : CbLive s) (w : InvW s) (p : InvP s) : alive (s.status .V) = false := by
  cases h : alive (s.status .V) with
  | false => rfl
  | true =>
    obtain ⟨a, ha, hp⟩ := (p c.op).2.1 h
    have := w.busy a ⟨by rw [ha]; rfl, hp⟩
    rw [c.busy] at this; cases this

/-- the pipeline view, the flags and the pending-receive slots are the same; a connected session stays connected -/
def Same (s s' : St) : Prop :=
  pcore s' = pcore s ∧ s'.rcvBusy = s.rcvBusy ∧ s'.vres = s.vres ∧ (s.status .R ≠ .absent → s'.status .R ≠ .absent)

theorem Same.refl (s : St) : Same s s := ⟨rfl, rfl, rfl, id⟩

theorem Same.trans {s s1 s2 : St} (h1 : Same s s1) (h2 : Same s1 s2) : Same s s2 :=
  ⟨h2.1.trans h1.1, h2.2.1.trans h1.2.1, h2.2.2.1.trans h1.2.2.1, fun h => h2.2.2.2 (h1.2.2.2 h)⟩

/-- a change outside everything `Same` reads -/
theorem Same.of_eq {s s' : St} (h1 : s'.buf = s.buf) (h2 : s'.queue = s.queue) (h3 : s'.prog = s.prog) (h4 : s'.status = s.status)
    (h5 : s'.trace = s.trace) (h6 : s'.closed = s.closed) (h7 : s'.dispSet = s.dispSet) (h8 : s'.rcvBusy = s.rcvBusy)
    (h9 : s'.vres = s.vres) (h10 : s'.gone = s.gone) : Same s s' :=
  ⟨by simp only [pcore, h1, h2, h3, h4, h5, h6, h7, lost_of_gone h10], h8, h9, by rw [h4]; exact id⟩

theorem Same.emit (s : St) (o : Obs) (h : deliveredObs o = none) : Same s (s.emit o) :=
  ⟨pcore_emit s o h, rfl, rfl, id⟩

theorem Same.setStatus (s : St) {t : Tid} (htD : t ≠ .D) (x : Status) (hR : t = .R → x ≠ .absent) : Same s (s.setStatus t x) := by
  refine ⟨by simp [pcore, St.setStatus, Ne.symm htD, St.lost], rfl, rfl, ?_⟩
  intro h
  simp only [St.setStatus]
  split
  · rename_i e; exact hR e.symm
  · exact h

theorem Same.setProg (s : St) {t : Tid} (htD : t ≠ .D) (x : Prog) : Same s (s.setProg t x) :=
  ⟨by simp [pcore, St.setProg, Ne.symm htD, St.lost], rfl, rfl, id⟩

theorem Same.spawn (s : St) {t : Tid} (htD : t ≠ .D) (x : Prog) : Same s (s.spawn t x) :=
  (Same.setStatus s htD .ready (by simp)).trans (Same.setProg _ htD x)

theorem Same.finish (s : St) {t : Tid} (htD : t ≠ .D) (hdw : s.status .D ≠ .waitT t) : Same s (s.finish t) := by
  refine ⟨by simp [pcore, St.finish, Ne.symm htD, hdw, St.lost], rfl, rfl, ?_⟩
  intro h
  rw [finish_status]
  split
  · simp
  · split
    · simp
    · exact h

theorem Same.initiateClose (s : St) : Same s s.initiateClose := by
  unfold St.initiateClose
  split
  · exact Same.refl s
  · exact (Same.of_eq (s := s) (s' := { s with closingTask := true }) rfl rfl rfl rfl rfl rfl rfl rfl rfl rfl).trans (Same.spawn _ (by simp) _)

theorem Same.cancelUser {s : St} (u : Nat) (hwv : ∀ x y, s.status x = .waitT y → y = .V) : Same s (s.cancelTask (.U u)) := by
  unfold St.cancelTask
  split
  · exact Same.setStatus s (by simp) _ (by simp)
  · exact Same.setStatus s (by simp) _ (by simp)
  · rename_i w0 hw
    have := hwv _ _ hw; subst this
    split
    · exact Same.setStatus s (by simp) _ (by simp)
    · exact Same.setStatus s (by simp) _ (by simp)
    · exact Same.refl s
  · exact Same.refl s


/-! ### events that do not touch the pipeline -/

theorem stepMon_same {cfg : Cfg} {s : St} (isLocal : Bool) :
    (stepMon cfg s isLocal).closed = false → Same s (stepMon cfg s isLocal) := by
  unfold stepMon
  split
  · split
    · intro _; exact Same.of_eq rfl rfl rfl rfl rfl rfl rfl rfl rfl rfl
    · intro _; exact Same.emit s _ rfl
  · split
    · intro _; exact Same.of_eq rfl rfl rfl rfl rfl rfl rfl rfl rfl rfl
    · intro h; exact closed_elim h

theorem stepRun_other {cfg : Cfg} {s : St} (a : InvA cfg s) (b : InvB s) (w : InvW s) (o : OpenFacts s)
    (hc : s.closed = false) (hbusy : s.rcvBusy = false) (hvd : alive (s.status .V) = false) (t : Tid) (htR : t ≠ .R) (htD : t ≠ .D) :
    (stepRun cfg s t).closed = false → Same s (stepRun cfg s t) := by
  unfold stepRun
  have e0 : Same s ({ s with imm := none } : St) := Same.of_eq rfl rfl rfl rfl rfl rfl rfl rfl rfl rfl
  have o0 : OpenFacts ({ s with imm := none } : St) := ⟨o.idle, o.qc, o.dw, o.vw, o.wv, o.rs, o.dal⟩
  have b0 : InvB ({ s with imm := none } : St) := InvB.of_bcore (s := s) rfl b
  have a0 : InvA cfg ({ s with imm := none } : St) := InvA.of_core (s := s) rfl a
  have w0 : InvW ({ s with imm := none } : St) := by iw w
  have hc0 : ({ s with imm := none } : St).closed = false := hc
  have hb0 : ({ s with imm := none } : St).rcvBusy = false := hbusy
  have hv0 : alive (({ s with imm := none } : St).status .V) = false := hvd
  generalize ({ s with imm := none } : St) = s0 at e0 o0 b0 a0 w0 hc0 hb0 hv0
  -- a task inside a receive contradicts `rcvBusy = false`
  have norecv : ∀ u, alive (s0.status (.U u)) = true → (s0.prog (.U u) = .loginWait u ∨ s0.prog (.U u) = .recvWait u) → False := by
    intro u h1 h2
    have := w0.busy u ⟨h1, h2⟩
    rw [hb0] at this; cases this
  simp only
  split
  · rename_i hst
    have hal : alive (s0.status t) = true := by rw [hst]; rfl
    have typ := b0.typ t hal
    split
    · rename_i hp; exact absurd (allowed_handler (by rw [hp] at typ; exact typ)) htD
    · rename_i hp
      have := allowed_vget (by rw [hp] at typ; exact typ); subst this
      rw [hal] at hv0; cases hv0
    · rename_i u hp
      have := allowed_recvWait (by rw [hp] at typ; exact typ); subst this
      exact (norecv u hal (Or.inr hp)).elim
    · rename_i u hp
      have := allowed_loginWait (by rw [hp] at typ; exact typ); subst this
      exact (norecv u hal (Or.inl hp)).elim
    · rw [stepInClose_open a0 hc0]; intro _; exact e0
    · intro _; exact e0.trans (Same.finish s0 htD (o0.dw t))
  · rename_i hst
    have hal : alive (s0.status t) = true := by rw [hst]; rfl
    have typ := b0.typ t hal
    split
    · rw [if_neg htR]; intro _; exact e0
    · rw [if_neg htD]; intro _; exact e0
    · rename_i hp; exact absurd (allowed_handler (by rw [hp] at typ; exact typ)) htD
    · intro _; exact e0.trans (Same.setProg s0 htD _)
    · split
      · intro h; exact e0.trans (stepMon_same _ h)
      · split
        · intro h; exact e0.trans (stepMon_same _ h)
        · intro _; exact e0
    · intro h; exact closed_elim h
    · rw [stepInClose_open a0 hc0]; intro _; exact e0
    · rename_i hp
      have := allowed_vget (by rw [hp] at typ; exact typ); subst this
      rw [hal] at hv0; cases hv0
    · rename_i u hp
      have := allowed_recvWait (by rw [hp] at typ; exact typ); subst this
      exact (norecv u hal (Or.inr hp)).elim
    · rename_i u hp
      have := allowed_loginWait (by rw [hp] at typ; exact typ); subst this
      exact (norecv u hal (Or.inl hp)).elim
    · intro _; exact e0
  · intro _; exact e0

/-- a user call that starts a receive on a session in callback mode fails at once with `StateError` -/
theorem startRecv_same {s : St} (u : Nat) (isLogin : Bool) (hd : s.dispSet = true) : Same s (startRecv s u isLogin) := by
  unfold startRecv
  split
  · exact Same.refl s
  · exact (Same.emit s _ rfl).trans (Same.setStatus _ (by simp) _ (by simp))

/-- **Every event that is not a reader tick, a dispatcher step or a data arrival leaves the pipeline alone** (as long as the
    session stays open). -/
theorem step_other {cfg : Cfg} {s : St} (a : InvA cfg s) (r : InvR s) (b : InvB s) (w : InvW s) (p : InvP s) (c : CbLive s)
    (ev : Ev) (hev : absEv ev = .nop) : (step cfg s ev).closed = false → Same s (step cfg s ev) := by
  have o := OpenFacts.of_inv a r b w c.op
  have hvd := c.vdead w p
  cases ev with
  | connect =>
    simp only [step]
    rw [if_pos (by simp [c.conn])]
    intro _; exact Same.refl s
  | data fs => simp [absEv] at hev
  | eof => intro _; exact Same.initiateClose s
  | run t =>
    have htR : t ≠ .R := by intro e; subst e; simp [absEv] at hev
    have htD : t ≠ .D := by intro e; subst e; simp [absEv] at hev
    simp only [step]
    split
    · exact stepRun_other a b w o c.op c.busy hvd t htR htD
    · intro _; exact Same.refl s
  | callClose u =>
    simp only [step]
    split
    · intro _; exact Same.refl s
    · intro h; exact closed_elim h
  | callInitiateClose => intro _; exact Same.initiateClose s
  | callLogout =>
    intro _
    exact ((Same.emit s (.write .logout) rfl).trans
      (Same.of_eq (s := s.emit (.write .logout)) (s' := { (s.emit (.write .logout)) with pingL := true }) rfl rfl rfl rfl rfl rfl rfl rfl rfl rfl)).trans
      (Same.initiateClose _)
  | callRecv u =>
    simp only [step]
    split
    · intro _; exact Same.refl s
    · intro _; exact startRecv_same u false c.disp
  | callRecvNowait u =>
    simp only [step]
    split
    · intro _; exact Same.refl s
    · rw [if_pos c.disp]; intro _; exact Same.emit s _ rfl
  | callLogin u =>
    simp only [step]
    split
    · intro _; exact Same.refl s
    · intro _
      exact ((Same.emit s (.write .login) rfl).trans
        (Same.of_eq (s := s.emit (.write .login)) (s' := { (s.emit (.write .login)) with pingL := true }) rfl rfl rfl rfl rfl rfl rfl rfl rfl rfl)).trans
        (startRecv_same u true c.disp)
  | callSend =>
    intro _
    exact (Same.emit s (.write .data) rfl).trans
      (Same.of_eq (s := s.emit (.write .data)) (s' := { (s.emit (.write .data)) with pingL := true }) rfl rfl rfl rfl rfl rfl rfl rfl rfl rfl)
  | cancel u => intro _; exact Same.cancelUser u o.wv


/-! ### every event -/

theorem CbLive.of_live {s s' : St} (c : CbLive s) (l' : Live s') (f : flags s' = flags s) : CbLive s' ∧ s'.lost = s.lost := by
  simp only [flags, Prod.mk.injEq] at f
  exact ⟨⟨by rw [f.1]; exact c.op, by rw [l'.rst]; simp, by rw [f.2.1]; exact c.disp, l'.busy, l'.vres⟩, f.2.2⟩

theorem CbLive.of_same {s s' : St} (c : CbLive s) (h : Same s s') : CbLive s' ∧ pipeOf s' = pipeOf s ∧ s'.lost = s.lost := by
  obtain ⟨h1, h2, h3, h4⟩ := h
  have := pipeOf_of_pcore h1
  simp only [pcore, Prod.mk.injEq] at h1
  exact ⟨⟨by rw [h1.2.2.2.2.2.1]; exact c.op, h4 c.conn, by rw [h1.2.2.2.2.2.2.1]; exact c.disp, by rw [h2]; exact c.busy,
    by rw [h3]; exact c.vres⟩, this.1, h1.2.2.2.2.2.2.2⟩

/-- **One event of a session in callback mode that stays open is one step of the pipeline.** -/
theorem sim_any {cfg : Cfg} {s : St} (a : InvA cfg s) (r : InvR s) (b : InvB s) (w : InvW s) (p : InvP s) (c : CbLive s)
    (ev : Ev) (hc' : (step cfg s ev).closed = false) :
    CbLive (step cfg s ev) ∧ pipeOf (step cfg s ev) = astep cfg.msgBeh (pipeOf s) (absEv ev) ∧ (step cfg s ev).lost = s.lost := by
  have l := c.live r w p
  have other : absEv ev = .nop →
      CbLive (step cfg s ev) ∧ pipeOf (step cfg s ev) = astep cfg.msgBeh (pipeOf s) (absEv ev) ∧ (step cfg s ev).lost = s.lost := by
    intro hev
    obtain ⟨c', p', g'⟩ := c.of_same (step_other a r b w p c ev hev hc')
    exact ⟨c', by rw [p', hev]; rfl, g'⟩
  cases ev with
  | data fs =>
    obtain ⟨l', p', f', _⟩ := sim_data (cfg := cfg) l fs
    exact ⟨(c.of_live l' f').1, p', (c.of_live l' f').2⟩
  | run t =>
    cases t with
    | R =>
      -- a logout or malformed frame at the head of the buffer would have closed the session
      have hg : ∀ f ∈ s.buf.take 1, goodFrame f = true := by
        intro f hf
        cases hb : s.buf with
        | nil => rw [hb] at hf; simp at hf
        | cons f0 rest =>
          rw [hb] at hf
          simp at hf
          subst hf
          cases f with
          | msg n => rfl
          | hb => rfl
          | logout =>
            exfalso
            have e : step cfg s (.run .R) = enterClose cfg { s with imm := none, buf := rest, consumed := s.consumed ++ [.logout] } .R .readerTail := by
              simp [step, runnable, l.rst, stepRun, l.rpr, stepReader, l.rs, hb]
            rw [e] at hc'; exact closed_elim hc'
          | bad =>
            exfalso
            have e : step cfg s (.run .R) = enterClose cfg { s with imm := none, buf := rest, consumed := s.consumed ++ [.bad] } .R .readerTail := by
              simp [step, runnable, l.rst, stepRun, l.rpr, stepReader, l.rs, hb]
            rw [e] at hc'; exact closed_elim hc'
      obtain ⟨l', p', f', _⟩ := sim_runR (cfg := cfg) l hg
      exact ⟨(c.of_live l' f').1, p', (c.of_live l' f').2⟩
    | D =>
      -- a callback that closes the session would have closed it
      have hg : ∀ n q, s.queue = n :: q → s.prog .D = .dispLoop → (cfg.msgBeh n).closes = false := by
        intro n q hq hpr
        have hst : s.status .D = .ready := by
          rcases l.dok with ⟨h, _⟩ | ⟨_, _, h⟩
          · exact h
          · rw [hq] at h; cases h
        have e : step cfg s (.run .D) = dispHandle cfg
            (({ s with imm := none, queue := q, gone := s.gone ++ [(n, true)] } : St).emit (.msgEnter n)) n := by
          simp [step, runnable, hst, stepRun, hpr, stepDisp, l.qc, l.busy, l.vres, hq]
        cases hb : cfg.msgBeh n with
        | close => exfalso; rw [e] at hc'; unfold dispHandle at hc'; rw [hb] at hc'; exact closed_elim hc'
        | reject => exfalso; rw [e] at hc'; unfold dispHandle at hc'; rw [hb] at hc'; exact closed_elim hc'
        | _ => rfl
      obtain ⟨l', p', f'⟩ := sim_runD (cfg := cfg) l hg
      exact ⟨(c.of_live l' f').1, p', (c.of_live l' f').2⟩
    | L => exact other rfl
    | M => exact other rfl
    | C => exact other rfl
    | V => exact other rfl
    | U i => exact other rfl
  | connect => exact other rfl
  | eof => exact other rfl
  | callClose u => exact other rfl
  | callInitiateClose => exact other rfl
  | callLogout => exact other rfl
  | callRecv u => exact other rfl
  | callRecvNowait u => exact other rfl
  | callLogin u => exact other rfl
  | callSend => exact other rfl
  | cancel u => exact other rfl

theorem runEvs_closed_mono (cfg : Cfg) : ∀ (evs : List Ev) (s : St), s.closed = true → (runEvs cfg s evs).closed = true := by
  intro evs
  induction evs with
  | nil => intro s h; exact h
  | cons ev evs ih => intro s h; exact ih _ (step_closed_mono cfg s ev h)

/-- **Along any run that ends open**, from a reachable state in callback mode: the session machine follows the pipeline, event by
    event. -/
theorem sim_run_open (cfg : Cfg) : ∀ (evs' evs0 : List Ev), CbLive (runEvs cfg {} evs0) →
    (runEvs cfg (runEvs cfg {} evs0) evs').closed = false →
    CbLive (runEvs cfg (runEvs cfg {} evs0) evs') ∧
    pipeOf (runEvs cfg (runEvs cfg {} evs0) evs') = arun cfg.msgBeh (pipeOf (runEvs cfg {} evs0)) (evs'.map absEv) ∧
    (runEvs cfg (runEvs cfg {} evs0) evs').lost = (runEvs cfg {} evs0).lost := by
  intro evs'
  induction evs' with
  | nil => intro evs0 c _; exact ⟨c, rfl, rfl⟩
  | cons ev evs' ih =>
    intro evs0 c hopen
    have hs : step cfg (runEvs cfg {} evs0) ev = runEvs cfg {} (evs0 ++ [ev]) := by simp [runEvs, List.foldl_append]
    have hc1 : (step cfg (runEvs cfg {} evs0) ev).closed = false := by
      cases h : (step cfg (runEvs cfg {} evs0) ev).closed with
      | false => rfl
      | true =>
        have := runEvs_closed_mono cfg evs' _ h
        have e : runEvs cfg (runEvs cfg {} evs0) (ev :: evs') = runEvs cfg (step cfg (runEvs cfg {} evs0) ev) evs' := rfl
        rw [e, this] at hopen; cases hopen
    obtain ⟨a, r, b⟩ := runEvs_InvARB cfg evs0
    obtain ⟨c1, p1, g1⟩ := sim_any a r b (runEvs_InvW cfg evs0) (runEvs_InvP cfg evs0) c ev hc1
    have e : runEvs cfg (runEvs cfg {} evs0) (ev :: evs') = runEvs cfg (runEvs cfg {} (evs0 ++ [ev])) evs' := by rw [← hs]; rfl
    rw [e]
    rw [hs] at c1 p1 g1
    obtain ⟨c2, p2, g2⟩ := ih (evs0 ++ [ev]) c1 (by rw [← e]; exact hopen)
    refine ⟨c2, ?_, by rw [g2, g1]⟩
    rw [p2, p1]; rfl


/-- dispatcher steps that deliver everything queued and everything among the first `k` buffered frames: what the handler in
    progress still needs, plus one step per message and `j + 1` more for a callback that awaits `j + 1` times -/
def drainCost (cfg : Cfg) (s : St) (k : Nat) : Nat :=
  phCost (phaseOfProg (s.prog .D)) + cost cfg.msgBeh (s.queue ++ msgsOf (s.buf.take k))

theorem map_absEv_sched (k m : Nat) :
    (List.replicate k (Ev.run .R) ++ List.replicate m (Ev.run .D)).map absEv = List.replicate k AEv.r ++ List.replicate m AEv.d := by
  simp [absEv]

/-- **Callback mode, any continuation.** From a reachable state in callback mode, along *any* events after which the session is
    still open and which contain — in this order, interleaved with anything — `k` reader ticks and then `drainCost` dispatcher
    steps: the queued messages and the messages among the first `k` buffered frames have been delivered, in order, right after
    what had been delivered before. -/
theorem drain_mono (cfg : Cfg) (evs0 evs' : List Ev) (k m : Nat) (c : CbLive (runEvs cfg {} evs0))
    (hopen : (runEvs cfg (runEvs cfg {} evs0) evs').closed = false)
    (hsub : (List.replicate k (Ev.run .R) ++ List.replicate m (Ev.run .D)).Sublist evs')
    (hm : drainCost cfg (runEvs cfg {} evs0) k ≤ m) :
    delivered (runEvs cfg {} evs0).trace ++ (runEvs cfg {} evs0).queue ++ msgsOf ((runEvs cfg {} evs0).buf.take k)
      <+: delivered (runEvs cfg (runEvs cfg {} evs0) evs').trace ∧
    CbLive (runEvs cfg (runEvs cfg {} evs0) evs') ∧
    (runEvs cfg (runEvs cfg {} evs0) evs').lost = (runEvs cfg {} evs0).lost := by
  obtain ⟨c', p', g'⟩ := sim_run_open cfg evs' evs0 c hopen
  obtain ⟨_, r, _⟩ := runEvs_InvARB cfg evs0
  have l := c.live r (runEvs_InvW cfg evs0) (runEvs_InvP cfg evs0)
  generalize runEvs cfg {} evs0 = s at *
  have hd := arun_delivers cfg.msgBeh (evs'.map absEv) (pipeOf s) k (s.queue.length + (msgsOf (s.buf.take k)).length) m
    ⟨pipeOf_ok l.dok, Nat.le_refl _, Or.inr (by
      have := take_pend (pipeOf s) k
      simp only [pipeOf] at this ⊢
      rw [this]; exact hm)⟩
    (by rw [← map_absEv_sched]; exact hsub.map absEv)
  rw [← p'] at hd
  have ht : target (pipeOf s) (s.queue.length + (msgsOf (s.buf.take k)).length) =
      delivered s.trace ++ s.queue ++ msgsOf (s.buf.take k) := by
    have := take_pend (pipeOf s) k
    simp only [pipeOf] at this
    simp only [target, pipeOf, this, List.append_assoc]
  rw [ht] at hd
  exact ⟨hd, c', g'⟩

end NasdaqModel.Sess
