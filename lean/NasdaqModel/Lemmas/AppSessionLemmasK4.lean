import NasdaqModel.Lemmas.AppSessionLemmasK3
/-
Invariants of the application-session product machine, part 7: user calls; all invariants in every reachable state.
-/
namespace NasdaqModel.App
open NasdaqModel

theorem startRecv2_K {a : ACfg} {s : St} (ib : InvB2 a s) (is : InvS a s) (u : Nat)
    (hW : s.astatus (.W u) = .absent) (hb : s.built = true) :
    InvB2 a (startRecv2 s u) ∧ InvS a (startRecv2 s u) := by
  unfold startRecv2
  split
  · exact ⟨ib, is⟩
  · rename_i hg
    simp only [Bool.or_eq_true, not_or, Bool.not_eq_true] at hg
    obtain ⟨⟨hbusy, hvres⟩, hV⟩ := hg
    split
    · refine ⟨InvB2.of_core (s := s.emit2 (.ret u .state)) rfl (ib.emit2 rfl), ?_⟩
      obtain ⟨nb, we, wv, ty, wq, d2, cc, hc', can, v2, dn, vn, da, vs, dnf, ip, ds, hs⟩ := is
      ksolve
    · split
      · rename_i v q hq
        refine ⟨InvB2.of_core (s := ({ s with q2 := q, gone2 := s.gone2 ++ [(v, true)] } : St).emit2 (.ret u (.msg v))) rfl (InvB2.emit2 rfl (InvB2.of_core (s' := { s with q2 := q, gone2 := s.gone2 ++ [(v, true)] }) (s := s) rfl ib)), ?_⟩
        obtain ⟨nb, we, wv, ty, wq, d2, cc, hc', can, v2, dn, vn, da, vs, dnf, ip, ds, hs⟩ := is
        ksolve
      · split
        · refine ⟨InvB2.of_core (s := s.emit2 (.ret u .eoq)) rfl (ib.emit2 rfl), ?_⟩
          obtain ⟨nb, we, wv, ty, wq, d2, cc, hc', can, v2, dn, vn, da, vs, dnf, ip, ds, hs⟩ := is
          ksolve
        · rename_i hq
          refine ⟨InvB2.of_core (s := s) rfl ib, ?_⟩
          have hidle : s.cpc = .idle := by
            cases h : s.cpc with
            | idle => rfl
            | _ => have := ib.q hb (by rw [h]; simp); rw [this] at hq; contradiction
          obtain ⟨nb, we, wv, ty, wq, d2, cc, hc', can, v2, dn, vn, da, vs, dnf, ip, ds, hs⟩ := is
          ksolve

theorem cancel2_user_K {a : ACfg} {s : St} (ib : InvB2 a s) (is : InvS a s) (u : Nat) :
    InvB2 a (s.cancel2 (.W u)) ∧ InvS a (s.cancel2 (.W u)) := by
  refine ⟨InvB2.of_core (bcore2_cancel2 s _) ib, ?_⟩
  obtain ⟨nb, we, wv, ty, wq, d2, cc, hc', can, v2, dn, vn, da, vs, dnf, ip, ds, hs⟩ := is
  unfold St.cancel2
  split
  · ksolve
  · ksolve
  · ksolve
  · split
    · ksolve
    · ksolve
    · exact ⟨nb, we, wv, ty, wq, d2, cc, hc', can, v2, dn, vn, da, vs, dnf, ip, ds, hs⟩
  · exact ⟨nb, we, wv, ty, wq, d2, cc, hc', can, v2, dn, vn, da, vs, dnf, ip, ds, hs⟩

theorem closeOnD2_Y {a : ACfg} {s : St} (i : InvY a s) (p : AProg) : InvY a (closeOnD2 a s p) := by
  unfold closeOnD2
  simp only
  split
  · exact i.frame (by simp) (by simp [St.setA, St.setP])
  · exact passInner_Y (s := (({ s with evt := some false } : St).setA .D2 .inSoup).setP .D2 p) (i.frame rfl rfl) _
      (fun _ _ h => by cases h)

theorem dispHandle2_Y {a : ACfg} {s : St} (i : InvY a s) (v : Nat) : InvY a (dispHandle2 a s v) := by
  unfold dispHandle2
  split
  · exact i.frame rfl rfl
  · exact i.frame rfl rfl
  · exact i.frame rfl rfl
  · split
    · exact i.frame rfl rfl
    · exact closeOnD2_Y i _
  · exact i.frame rfl rfl
  · exact i.frame rfl rfl

theorem handlerDone_Y {a : ACfg} {s : St} (i : InvY a s) (t : ATid) (v : Nat) : InvY a (handlerDone a s t v) := by
  unfold handlerDone
  split
  · split
    · exact i.frame rfl rfl
    · exact closeOnD2_Y i _
  · exact i.frame rfl rfl

theorem stepDisp2_Y {a : ACfg} {s : St} (i : InvY a s) : InvY a (stepDisp2 a s) := by
  unfold stepDisp2
  split
  · exact i.frame rfl rfl
  · split
    · exact i
    · split
      · exact i.frame rfl rfl
      · rename_i v q _
        exact dispHandle2_Y (s := ({ s with q2 := q, gone2 := s.gone2 ++ [(v, true)] } : St).emit2 (.msgEnter v)) (i.frame rfl rfl) v

theorem stepRun2_Y {a : ACfg} {s : St} (i : InvY a s) (t : ATid) : InvY a (stepRun2 a s t) := by
  unfold stepRun2
  have i0 : InvY a { s with imm2 := false } := i.frame rfl rfl
  generalize ({ s with imm2 := false } : St) = s0 at i0
  simp only
  split
  · split
    · exact i0.frame rfl rfl
    · split
      · exact i0.frame rfl rfl
      · exact closeOnD2_Y i0 _
    · split <;> exact i0.frame rfl rfl
    · exact i0.frame rfl rfl
    · exact i0.frame rfl rfl
  · split
    · split
      · exact stepDisp2_Y i0
      · exact i0
    · split
      · exact handlerDone_Y i0 _ _
      · exact i0.frame rfl rfl
    · split <;> exact i0.frame rfl rfl
    · split
      · exact i0.frame rfl rfl
      · split
        · exact i0
        · exact i0.frame rfl rfl
    · split
      · exact i0.frame rfl rfl
      · split <;> exact i0.frame rfl rfl
    · exact i0.frame rfl rfl
    · exact i0
  · exact i0

theorem startRecv2_Y {a : ACfg} {s : St} (i : InvY a s) (u : Nat) : InvY a (startRecv2 s u) := by
  unfold startRecv2
  split
  · exact i
  · split
    · exact i.frame rfl rfl
    · split
      · exact i.frame rfl rfl
      · split <;> exact i.frame rfl rfl

/-- all invariants of the product machine -/
structure Inv (a : ACfg) (s : St) : Prop where
  yy : InvY a s
  bb : InvB2 a s
  ss : InvS a s
  ff : InvF a s

theorem step_Inv {a : ACfg} {s : St} (i : Inv a s) (ev : Ev) : Inv a (step a s ev) := by
  obtain ⟨iy, ib, is, iF⟩ := i
  refine ⟨?_, ?_, ?_, step_InvF iF ev⟩
  · -- InvY
    cases ev with
    | inner e =>
      simp only [step]
      split
      · exact iy
      · exact stepInner_Y iy e
    | run t =>
      simp only [step]
      split
      · exact stepRun2_Y iy t
      · split
        · exact stepInner_Y (s := { s with imm2 := false }) (iy.frame rfl rfl) _
        · exact iy
    | appClose u =>
      simp only [step]
      split
      · exact iy
      · split
        · exact iy.frame rfl rfl
        · exact startClose_Y iy _ _
    | appRecv u =>
      simp only [step]
      split
      · exact iy
      · exact startRecv2_Y iy u
    | appCancel u => exact iy.frame (by simp [step]) (by simp [step])
  · -- InvB2
    cases ev with
    | inner e =>
      simp only [step]
      split
      · exact ib
      · exact (stepInner_K iy ib is e).1
    | run t =>
      simp only [step]
      split
      · exact (stepRun2_K iy ib is t).1
      · split
        · exact (stepInner_K (s := { s with imm2 := false }) (iy.frame rfl rfl) (InvB2.of_core (s := s) rfl ib)
            (InvS.of_core (s := s) rfl is) _).1
        · exact ib
    | appClose u =>
      simp only [step]
      split
      · exact ib
      · rename_i hg
        simp only [bne_iff_ne, ne_eq, Bool.or_eq_true, not_or, Decidable.not_not, Bool.not_eq_true', Bool.not_eq_false] at hg
        split
        · exact InvB2.of_core (s := s.emit2 (.closeRet (.user u) .ok)) rfl (ib.emit2 rfl)
        · rename_i hg2
          simp only [Bool.or_eq_true, not_or, Bool.not_eq_true, Option.isSome_eq_false_iff, Option.isNone_iff_eq_none] at hg2
          exact (startClose_K ib is _ _ hg2.1 hg2.2 ⟨u, rfl, hg.1, rfl, hg.2⟩).1
    | appRecv u =>
      simp only [step]
      split
      · exact ib
      · rename_i hg
        simp only [bne_iff_ne, ne_eq, Bool.or_eq_true, not_or, Decidable.not_not, Bool.not_eq_true', Bool.not_eq_false] at hg
        exact (startRecv2_K ib is u hg.1 hg.2).1
    | appCancel u => exact (cancel2_user_K ib is u).1
  · -- InvS
    cases ev with
    | inner e =>
      simp only [step]
      split
      · exact is
      · exact (stepInner_K iy ib is e).2
    | run t =>
      simp only [step]
      split
      · exact (stepRun2_K iy ib is t).2
      · split
        · exact (stepInner_K (s := { s with imm2 := false }) (iy.frame rfl rfl) (InvB2.of_core (s := s) rfl ib)
            (InvS.of_core (s := s) rfl is) _).2
        · exact is
    | appClose u =>
      simp only [step]
      split
      · exact is
      · rename_i hg
        simp only [bne_iff_ne, ne_eq, Bool.or_eq_true, not_or, Decidable.not_not, Bool.not_eq_true', Bool.not_eq_false] at hg
        split
        · obtain ⟨nb, we, wv, ty, wq, d2, cc, hc', can, v2, dn, vn, da, vs, dnf, ip, ds, hs⟩ := is
          ksolve
        · rename_i hg2
          simp only [Bool.or_eq_true, not_or, Bool.not_eq_true, Option.isSome_eq_false_iff, Option.isNone_iff_eq_none] at hg2
          exact (startClose_K ib is _ _ hg2.1 hg2.2 ⟨u, rfl, hg.1, rfl, hg.2⟩).2
    | appRecv u =>
      simp only [step]
      split
      · exact is
      · rename_i hg
        simp only [bne_iff_ne, ne_eq, Bool.or_eq_true, not_or, Decidable.not_not, Bool.not_eq_true', Bool.not_eq_false] at hg
        exact (startRecv2_K ib is u hg.1 hg.2).2
    | appCancel u => exact (cancel2_user_K ib is u).2

theorem Inv.init (a : ACfg) : Inv a {} := by
  refine ⟨⟨⟨[], rfl⟩, fun _ => rfl, ?_, ?_, ?_⟩, ?_, ?_, InvF.init a⟩
  · intro t k c h; cases h
  · intro h; cases h
  · intro h; cases h
  · refine ⟨?_, ?_, ?_, ?_, ?_, ?_, ?_, ?_, ?_, ?_, ?_, ?_, rfl⟩ <;> simp [midStage, lateStage]
  · refine ⟨?_, ?_, ?_, ?_, ?_, ?_, ?_, ?_, ?_, ?_, ?_, ?_, ?_, ?_, ?_, ?_, ?_, ?_⟩ <;> simp [lateStage, alive2]

/-- **All invariants hold in every reachable state of the product machine.** -/
theorem runEvs_Inv (a : ACfg) (evs : List Ev) : Inv a (runEvs a {} evs) := by
  have : ∀ (s : St), Inv a s → Inv a (runEvs a s evs) := by
    induction evs with
    | nil => intro s i; exact i
    | cons ev evs ih => intro s i; exact ih _ (step_Inv i ev)
  exact this _ (Inv.init a)

end NasdaqModel.App
