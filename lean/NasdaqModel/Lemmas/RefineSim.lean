import NasdaqModel.Lemmas.Refine
import NasdaqModel.Lemmas.RefineSess
/-
The simulation: the byte-level reader machine (`Framing.step`, C03) against the reader of the session machine
(`Sess.step … (.data fs)` / `(.run .R)`), and the invariant of one byte-level history driving both (`Refine.bstep`).
-/
namespace NasdaqModel.Refine
open NasdaqModel Py
open NasdaqModel.Framing (Proto R Consuming Settled)
open NasdaqModel.Sess (St Cfg Frame Tid msgsOf rcore atLoop)

variable {μ : Type}

/-! ### the relation -/

/-- **the simulation relation**: the session machine's token buffer is the tokenisation of the reader's byte buffer; once the
    byte-level reader has stopped (logout or malformed frame met) the token buffer is empty and the session is flagged closed
    (`Reader._stopped` itself is set only after `close()` returned to the reader — `s.rStopped` lags behind `r.stopped`, `s.closed`
    does not); the messages handed on are the same. -/
structure Rel (P : Proto μ) (num : μ → Nat) (r : R μ) (s : St) : Prop where
  live : r.stopped = false → s.buf = (tokens P r.buf).frames num
  dead : r.stopped = true → s.buf = [] ∧ s.closed = true
  out : s.recvd = r.out.map num

theorem polls_iff (s : St) : polls s = true ↔ (atLoop s ∧ s.rStopped = false) := by
  simp [polls, atLoop, and_assoc]

theorem frames_length (num : μ → Nat) (t : Toks μ) : (t.frames num).length = t.toks.length := by
  simp [Toks.frames]

/-- the frames a segment completes are exactly what the tokenisation of the buffer gains -/
theorem newFrames_spec {P : Proto μ} {st : Bytes → Bool} (F : Framer P st) (num : μ → Nat) (r : R μ) (seg : Bytes)
    (hst : r.stopped = false) (hs : stable P st (r.buf ++ seg) = true) :
    (tokens P r.buf).frames num ++ newFrames P num r seg = (tokens P (r.buf ++ seg)).frames num := by
  unfold newFrames
  rw [if_neg (by simp [hst])]
  have pre : (tokens P r.buf).frames num <+: (tokens P (r.buf ++ seg)).frames num :=
    (tokens_toks_prefix F r.buf seg hs).map _
  have := List.prefix_iff_eq_append.mp pre
  rw [frames_length] at this
  exact this

/-- … and what an incremental tokeniser (keep the remainder, append the segment, cut) produces -/
theorem newFrames_incremental {P : Proto μ} {st : Bytes → Bool} (F : Framer P st) (num : μ → Nat) (r : R μ) (seg : Bytes)
    (hst : r.stopped = false) (hs : stable P st (r.buf ++ seg) = true) :
    newFrames P num r seg =
      if (tokens P r.buf).fin then [] else (tokens P ((tokens P r.buf).rest ++ seg)).frames num := by
  have h := newFrames_spec F num r seg hst hs
  rw [tokens_append F r.buf seg hs] at h
  cases hf : (tokens P r.buf).fin with
  | true =>
    rw [Toks.extend_fin _ _ _ hf] at h
    simp only [Toks.frames] at h
    simpa using h
  | false =>
    rw [Toks.extend_nfin _ _ _ hf, Toks.frames_prepend] at h
    simp only [Toks.frames] at h ⊢
    simpa using h

/-- **Simulation, data.**  `on_data(seg)` on the byte level is matched by the delivery of the frames `seg` completes. -/
theorem Rel.data {P : Proto μ} {st : Bytes → Bool} (F : Framer P st) (num : μ → Nat) (cfg : Cfg) {r : R μ} {s : St}
    (h : Rel P num r s) (seg : Bytes) (hs : r.stopped = false → stable P st (r.buf ++ seg) = true) :
    Rel P num (Framing.step P r (.data seg)) (Sess.step cfg s (.data (newFrames P num r seg))) := by
  refine ⟨?_, ?_, ?_⟩
  · intro hst
    rw [Framing.step_data_stopped] at hst
    rw [Framing.step_data_buf]
    show s.buf ++ newFrames P num r seg = _
    rw [h.live hst]
    exact newFrames_spec F num r seg hst (hs hst)
  · intro hst
    rw [Framing.step_data_stopped] at hst
    obtain ⟨h1, h2⟩ := h.dead hst
    refine ⟨?_, h2⟩
    show s.buf ++ newFrames P num r seg = []
    rw [h1]; simp [newFrames, hst]
  · rw [Framing.step_data_out]; exact h.out

/-! ### one poll, byte level -/

/-- what one poll of a running byte-level reader does, in terms of the tokenisation of its buffer -/
theorem tick_toks (P : Proto μ) (hC : Consuming P) (r : R μ) (hst : r.stopped = false) :
    (tokens P r.buf = ⟨[], r.buf, false⟩ ∧ Settled P r ∧ Framing.step P r .tick = r) ∨
    (∃ k, (tokens P r.buf).toks = [k] ∧ (k = .bad ∨ k = .logout) ∧ (tokens P r.buf).fin = true ∧
      (Framing.step P r .tick).stopped = true ∧ (Framing.step P r .tick).buf = (tokens P r.buf).rest ∧
      (Framing.step P r .tick).out = r.out) ∨
    (∃ m rest, r.buf ≠ [] ∧ P.deser r.buf = .ok (some (m, rest)) ∧ P.isLogout m = false ∧
      tokens P r.buf = (tokens P rest).prepend [classify P m] ∧
      (Framing.step P r .tick).stopped = false ∧ (Framing.step P r .tick).buf = rest ∧
      (Framing.step P r .tick).out = r.out ++ tokMsgs [classify P m]) := by
  by_cases hb : r.buf = []
  · left
    refine ⟨by rw [hb]; rfl, Or.inr (Or.inl hb), Framing.step_tick_empty P r hb⟩
  · have hl : ¬ r.buf.length = 0 := fun h0 => hb (List.eq_nil_of_length_eq_zero h0)
    cases hd : P.deser r.buf with
    | error e =>
      right; left
      refine ⟨.bad, by rw [tokens_err P hb hd], Or.inl rfl, by rw [tokens_err P hb hd], ?_, ?_, ?_⟩ <;>
        simp [Framing.step, Framing.stepObs, hst, hl, hd, tokens_err P hb hd]
    | ok o =>
      cases o with
      | none =>
        left
        exact ⟨tokens_none P hd, Or.inr (Or.inr hd), Framing.step_tick_none P r hst hd⟩
      | some mr =>
        obtain ⟨m, rest⟩ := mr
        have hstep := Framing.step_tick_some P r hst hb hd
        cases hlo : P.isLogout m with
        | true =>
          right; left
          rw [hlo, if_pos rfl] at hstep
          refine ⟨.logout, by rw [tokens_logout P hb hd hlo], Or.inr rfl, by rw [tokens_logout P hb hd hlo], ?_, ?_, ?_⟩ <;>
            rw [hstep]
          rw [tokens_logout P hb hd hlo]
        | false =>
          right; right
          rw [hlo] at hstep
          simp only [Bool.false_eq_true, if_false] at hstep
          refine ⟨m, rest, hb, rfl, hlo, tokens_cons P hC hb hd hlo, ?_, ?_, ?_⟩
          · rw [hstep]; split <;> exact hst
          · rw [hstep]; split <;> rfl
          · rw [hstep]
            cases hhb : P.isHeartbeat m with
            | true => simp [classify, hlo, hhb, tokMsgs]
            | false => simp [classify, hlo, hhb, tokMsgs]

/-- **`tokens` is the reader loop run to quiescence**: `len(buffer)` polls of a running byte-level reader with no data in
    between hand on exactly the messages of the tokenisation of its buffer, leave its remainder, and stop iff it ends in a
    logout / malformed frame -/
theorem ticks_tokens (P : Proto μ) (hC : Consuming P) : ∀ (n : Nat) (r : R μ), r.stopped = false → r.buf.length ≤ n →
    (Framing.ticks P n r).out = r.out ++ (tokens P r.buf).msgs ∧ (Framing.ticks P n r).buf = (tokens P r.buf).rest ∧
    (Framing.ticks P n r).stopped = (tokens P r.buf).fin := by
  intro n
  induction n with
  | zero =>
    intro r hst hn
    have hb : r.buf = [] := List.eq_nil_of_length_eq_zero (Nat.le_zero.mp hn)
    rw [hb]
    exact ⟨by simp [Framing.ticks, Toks.msgs, tokMsgs], by simpa [Framing.ticks] using hb, by simpa [Framing.ticks] using hst⟩
  | succ n ih =>
    intro r hst hn
    rw [Framing.ticks_succ]
    rcases tick_toks P hC r hst with ⟨h1, h2, h3⟩ | ⟨k, h1, h2, h3, h4, h5, h6⟩ | ⟨m, rest, hne, hd, hlo, h4, h5, h6, h7⟩
    · rw [h3, Framing.ticks_settled P n h2, h1]
      exact ⟨by simp [Toks.msgs, tokMsgs], rfl, hst⟩
    · rw [Framing.ticks_settled P n (Or.inl h4)]
      refine ⟨?_, h5, by rw [h4, h3]⟩
      rw [h6, Toks.msgs, h1]
      rcases h2 with rfl | rfl <;> simp [tokMsgs]
    · have hlt := hC _ _ _ hd
      obtain ⟨i1, i2, i3⟩ := ih (Framing.step P r .tick) h5 (by rw [h6]; omega)
      rw [h6] at i1 i2 i3
      rw [h4]
      refine ⟨?_, i2, i3⟩
      rw [i1, h7, Toks.msgs_prepend, List.append_assoc]

/-- **Simulation, poll.**  One poll of the reader task is one `tick` of the byte-level reader: one frame on both sides. -/
theorem Rel.tick {P : Proto μ} (hC : Consuming P) (num : μ → Nat) (cfg : Cfg) {r : R μ} {s : St}
    (h : Rel P num r s) (hl : atLoop s) (hs : s.rStopped = false) :
    Rel P num (Framing.step P r .tick) (Sess.step cfg s (.run .R)) := by
  cases hst : r.stopped with
  | true =>
    rw [Framing.step_tick_stopped P r hst]
    obtain ⟨h1, h2⟩ := h.dead hst
    have hc := Sess.poll_nil cfg s hl h1
    simp only [rcore, Prod.mk.injEq] at hc
    refine ⟨(fun h0 => by rw [hst] at h0; cases h0), fun _ => ⟨by rw [hc.1]; exact h1, Sess.step_closed_mono cfg s _ h2⟩, ?_⟩
    rw [hc.2.2.2]; exact h.out
  | false =>
    have hbuf := h.live hst
    rcases tick_toks P hC r hst with ⟨h1, _, h3⟩ | ⟨k, h1, h2, h3, h4, h5, h6⟩ | ⟨m, rest, _, _, _, h4, h5, h6, h7⟩
    · rw [h3]
      have hb : s.buf = [] := by rw [hbuf, h1]; rfl
      have hc := Sess.poll_nil cfg s hl hb
      simp only [rcore, Prod.mk.injEq] at hc
      refine ⟨(fun _ => by rw [hc.1]; exact hbuf), (fun h0 => by rw [hst] at h0; cases h0), ?_⟩
      rw [hc.2.2.2]; exact h.out
    · have hb : s.buf = [k.frame num] := by rw [hbuf, Toks.frames, h1]; rfl
      obtain ⟨c1, _, _, c4, c5⟩ := Sess.poll_cons cfg s hl hs hb
      refine ⟨(fun h0 => by rw [h4] at h0; cases h0), fun _ => ⟨c1, c5 ?_⟩, ?_⟩
      · rcases h2 with rfl | rfl
        · exact Or.inr rfl
        · exact Or.inl rfl
      · rw [c4, h6, h.out]
        rcases h2 with rfl | rfl <;> simp [msgsOf, Tok.frame]
    · have hb : s.buf = (classify P m).frame num :: (tokens P rest).frames num := by
        rw [hbuf, h4]; rfl
      obtain ⟨c1, _, _, c4, _⟩ := Sess.poll_cons cfg s hl hs hb
      refine ⟨(fun _ => by rw [c1, h6]), (fun h0 => by rw [h5] at h0; cases h0), ?_⟩
      rw [c4, h7, h.out, List.map_append]
      congr 1
      exact msgsOf_frames num [classify P m]

/-- **Simulation, everything else.**  No other event of the session machine touches what the relation reads (a close may set
    the closed flag, never clears it). -/
theorem Rel.other {P : Proto μ} (num : μ → Nat) (cfg : Cfg) {r : R μ} {s : St} (h : Rel P num r s) (ev : Sess.Ev)
    (hd : ∀ fs, ev ≠ .data fs) (hr : ev = .run .R → ¬ atLoop s) : Rel P num r (Sess.step cfg s ev) := by
  have hc := Sess.rcore_step_other cfg s ev hd hr
  simp only [rcore, Prod.mk.injEq] at hc
  refine ⟨(fun h0 => by rw [hc.1]; exact h.live h0), fun h0 => ?_, by rw [hc.2.2.2]; exact h.out⟩
  obtain ⟨h1, h2⟩ := h.dead h0
  exact ⟨by rw [hc.1]; exact h1, Sess.step_closed_mono cfg s ev h2⟩

/-- a poll of a reader whose `_stopped` flag is already set ends the task and reads nothing -/
theorem Rel.poll_stopped {P : Proto μ} (num : μ → Nat) (cfg : Cfg) {r : R μ} {s : St} (h : Rel P num r s)
    (hl : atLoop s) (hs : s.rStopped = true) : Rel P num r (Sess.step cfg s (.run .R)) := by
  have hc := Sess.poll_stopped cfg s hl hs
  simp only [rcore, Prod.mk.injEq] at hc
  refine ⟨(fun h0 => by rw [hc.1]; exact h.live h0), fun h0 => ?_, by rw [hc.2.2.2]; exact h.out⟩
  obtain ⟨h1, h2⟩ := h.dead h0
  exact ⟨by rw [hc.1]; exact h1, Sess.step_closed_mono cfg s _ h2⟩

end NasdaqModel.Refine
