import NasdaqModel.Lemmas.FixShared
/-
The remaining families of `Lemmas/FixLemmas.lean` (End / Enc / Re / EqD, `encMsg_wire`) under per-level distinctness (`ldEntry`,
`ldLevel`) instead of `(deepTags e).Nodup`: copies of the proofs with the induction principle `ld_ind` (W-C13S).
-/
namespace NasdaqModel.Fix
open NasdaqModel Py

/-! ### last byte of an encoding -/

theorem endOK_allS : ∀ e : Entry, ldEntry e = true → EndOK e := by
  apply ld_ind
  · intro t ty r v b hwf henc
    simp only [wfVal] at hwf
    simp only [encEntry] at henc
    obtain ⟨vb, hvb, h⟩ := bind_ok henc
    simp only [pure_eq_ok] at h
    injection h with h
    subst h
    exact goodEnd_fieldBytes t (prim_roundtrip hwf hvb).1
  · intro t sub r htn _ ih v b hwf henc
    cases v with
    | grp insts =>
      simp only [wfVal] at hwf
      simp only [encEntry] at henc
      obtain ⟨gs, hgs, h⟩ := bind_ok henc
      simp only [pure_eq_ok] at h
      injection h with h
      subst h
      have hall := mapE_all₂ hgs
      have key : ∀ {is : List Seg} {gl : List Bytes},
          All₂ (fun a b => (encGroupFields sub a >>= fun fs => pure (joinSOH fs)) = Except.ok b) is gl →
          wfInsts sub is = true → ∀ x ∈ gl, GoodEnd x := by
        intro is gl hal
        induction hal with
        | nil => intro _ x hx; simp at hx
        | @cons inst g insts' gs' hg _ ih2 =>
          intro hwf x hx
          simp only [wfInsts, Bool.and_eq_true, decide_eq_true_eq] at hwf
          obtain ⟨⟨⟨hwff, hfirst⟩, _⟩, hwf'⟩ := hwf
          rcases List.mem_cons.mp hx with hx | hx
          · subst hx
            obtain ⟨fbs, hf, hh⟩ := bind_ok hg
            simp only [pure_eq_ok] at hh
            injection hh with hh
            subst hh
            obtain ⟨fs, h1, h2, h3, _⟩ := encGroupFields_items sub htn inst hwff sub fbs (fun e he => he) hf
            have hne : fbs ≠ [] := by
              cases sub with
              | nil => simp [firstPresent] at hfirst
              | cons e1 sub' =>
                simp only [firstPresent] at hfirst
                simp only [List.filter_cons, hfirst, if_true, List.map_cons] at h3
                intro hnil
                rw [hnil] at h1
                simp at h1
                rw [h1] at h3
                simp [itemTags] at h3
            apply goodEnd_joinSOH _ hne
            intro y hy
            rw [← h1] at hy
            obtain ⟨it, hit, rfl⟩ := List.mem_map.mp hy
            obtain ⟨hm, hw, he⟩ := h2 it hit
            exact ih it.1 hm it.2.1 it.2.2 hw he
          · exact ih2 hwf' x hx
      apply goodEnd_joinSOH _ (by simp)
      intro x hx
      rcases List.mem_cons.mp hx with hx | hx
      · subst hx; exact goodEnd_fieldBytes t (intStr_no_soh _)
      · exact key hall hwf x hx
    | int _ => simp [wfVal] at hwf
    | flt _ => simp [wfVal] at hwf
    | bool _ => simp [wfVal] at hwf
    | str _ => simp [wfVal] at hwf

/-- the encoded fields of a well-formed segment -/
theorem encSegFields_goodS (es : List Entry) (hld : ∀ e ∈ es, ldEntry e = true) (s : Seg) (fbs : List Bytes)
    (hwf : wfSeg es s = true) (henc : encSegFields es s = .ok fbs) :
    (∀ x ∈ fbs, GoodEnd x) ∧ (fbs = [] ↔ s = []) := by
  simp only [wfSeg, Bool.and_eq_true, decide_eq_true_eq] at hwf
  obtain ⟨fs, h1, h2, h3, _⟩ := encSegFields_items es s fbs hwf.1 henc
  constructor
  · intro x hx
    rw [← h1] at hx
    obtain ⟨it, hit, rfl⟩ := List.mem_map.mp hx
    obtain ⟨hm, hw, he⟩ := h2 it hit
    exact endOK_allS it.1 (hld _ hm) it.2.1 it.2.2 hw he
  · have hl : fbs.length = s.length := by
      rw [← h1, List.length_map]
      have := congrArg List.length h3
      simpa [itemTags, keysOf] using this
    constructor
    · intro h; rw [h] at hl; exact List.eq_nil_of_length_eq_zero hl.symm
    · intro h; rw [h] at hl; exact List.eq_nil_of_length_eq_zero hl

/-! ### re-encoding -/

theorem reOK_allS : ∀ e : Entry, ldEntry e = true → ReOK e := by
  apply ld_ind
  · intro t ty r v
    cases v <;> simp [canonVal]
  · intro t sub r htn _ ih v
    cases v with
    | grp insts =>
      have hfields : ∀ (inst : Seg) (es' : List Entry), (∀ e ∈ es', e ∈ sub) →
          encGroupFields es' (canonFields sub inst) = encGroupFields es' inst := by
        intro inst es'
        induction es' with
        | nil => intro _; simp [encGroupFields]
        | cons x xs ihx =>
          intro hsub
          have hx : x ∈ sub := hsub x (by simp)
          simp only [encGroupFields]
          rw [lookupV_canonFields htn inst hx, ihx (fun e he => hsub e (by simp [he]))]
          cases hl : lookupV inst x.tag with
          | none => simp
          | some v =>
            simp only [Option.map_some]
            rw [ih x hx v]
      simp only [canonVal, encEntry, List.length_map]
      rw [mapE_map]
      rw [mapE_congr insts (g := fun inst => do let fs ← encGroupFields sub inst; pure (joinSOH fs))]
      intro inst _
      simp only [hfields inst sub (fun e he => he)]
    | int _ => simp [canonVal]
    | flt _ => simp [canonVal]
    | bool _ => simp [canonVal]
    | str _ => simp [canonVal]

theorem encSegFields_canonS (es : List Entry) (hld : ∀ e ∈ es, ldEntry e = true) (s : Seg) :
    encSegFields es (canonSeg es s) = encSegFields es s := by
  simp only [encSegFields, canonSeg]
  rw [mapE_map]
  apply mapE_congr
  intro p _
  simp only
  cases hl : lookupE es p.1 with
  | none => rfl
  | some e =>
    simp only
    exact reOK_allS e (hld _ (lookupE_some hl).1) p.2

/-! ### encoding never raises on well-formed values -/

theorem encOK_allS : ∀ e : Entry, ldEntry e = true → EncOK e := by
  apply ld_ind
  · intro t ty r v hwf
    simp only [wfVal] at hwf
    obtain ⟨b, hb⟩ := tyToBytes_ok hwf
    exact ⟨fieldBytes t b, by simp [encEntry, hb]⟩
  · intro t sub r htn _ ih v hwf
    cases v with
    | grp insts =>
      simp only [wfVal] at hwf
      have hfields : ∀ (inst : Seg), wfFields sub inst = true → ∀ (es' : List Entry), (∀ e ∈ es', e ∈ sub) →
          ∃ fbs, encGroupFields es' inst = .ok fbs := by
        intro inst hwff es'
        induction es' with
        | nil => intro _; exact ⟨[], rfl⟩
        | cons x xs ihx =>
          intro hsub
          have hx : x ∈ sub := hsub x (by simp)
          obtain ⟨r', hr'⟩ := ihx (fun e he => hsub e (by simp [he]))
          simp only [encGroupFields]
          cases hl : lookupV inst x.tag with
          | none => exact ⟨r', hr'⟩
          | some v =>
            obtain ⟨e', hle, hwv⟩ := wfFields_mem hwff (lookupV_mem hl)
            have : e' = x := by
              have := lookupE_mem htn hx
              rw [hle] at this
              injection this
            subst this
            obtain ⟨b, hb⟩ := ih e' hx v hwv
            exact ⟨b :: r', by simp [hb, hr']⟩
      have hall : ∀ inst ∈ insts, wfFields sub inst = true := by
        clear hfields
        induction insts with
        | nil => intro _ h; simp at h
        | cons i is ihi =>
          simp only [wfInsts, Bool.and_eq_true] at hwf
          intro inst hin
          rcases List.mem_cons.mp hin with h | h
          · subst h; exact hwf.1.1.1
          · exact ihi hwf.2 inst h
      obtain ⟨gs, hgs⟩ := mapE_ok_of_forall (f := fun inst => do let fs ← encGroupFields sub inst; pure (joinSOH fs)) insts
        (by
          intro inst hin
          obtain ⟨fbs, hf⟩ := hfields inst (hall inst hin) sub (fun e he => he)
          exact ⟨joinSOH fbs, by simp [hf]⟩)
      exact ⟨joinSOH (fieldBytes t (intStr (insts.length : Int)) :: gs), by simp only [encEntry]; rw [hgs]; rfl⟩
    | int _ => simp [wfVal] at hwf
    | flt _ => simp [wfVal] at hwf
    | bool _ => simp [wfVal] at hwf
    | str _ => simp [wfVal] at hwf

theorem encSegFields_okS (es : List Entry) (hld : ∀ e ∈ es, ldEntry e = true) (s : Seg) (hwf : wfFields es s = true) :
    ∃ fbs, encSegFields es s = .ok fbs := by
  apply mapE_ok_of_forall
  intro p hp
  obtain ⟨e, hle, hwv⟩ := wfFields_mem hwf (show (p.1, p.2) ∈ s from hp)
  simp only [hle]
  exact encOK_allS e (hld _ (lookupE_some hle).1) p.2 hwv

/-! ### equality with group instances compared as dicts -/

theorem eqDOK_allS : ∀ e : Entry, ldEntry e = true → EqDOK e := by
  apply ld_ind
  · intro t ty r v hwf
    simp only [wfVal] at hwf
    cases ty <;> cases v <;> simp [wfPrim] at hwf <;> simp [canonVal, valEqD, primEq]
  · intro t sub r htn _ ih v hwf
    cases v with
    | grp insts =>
      simp only [wfVal] at hwf
      simp only [canonVal, valEqD]
      induction insts with
      | nil => simp [instsEqD]
      | cons inst insts ihi =>
        simp only [wfInsts, Bool.and_eq_true, decide_eq_true_eq] at hwf
        obtain ⟨⟨⟨hwff, _⟩, hkeys⟩, hwf'⟩ := hwf
        simp only [List.map_cons, instsEqD, Bool.and_eq_true, decide_eq_true_eq]
        refine ⟨⟨canonFields_length htn hwff hkeys, ?_⟩, ihi hwf'⟩
        have key : ∀ es' : List Entry, (∀ e ∈ es', e ∈ sub) → subDictD (canonFields es' inst) inst = true := by
          intro es'
          induction es' with
          | nil => intro _; simp [canonFields, subDictD]
          | cons x xs ihx =>
            intro hsub
            have hx : x ∈ sub := hsub x (by simp)
            simp only [canonFields]
            cases hl : lookupV inst x.tag with
            | none => exact ihx (fun e he => hsub e (by simp [he]))
            | some v =>
              simp only [subDictD, hl, Bool.and_eq_true]
              refine ⟨?_, ihx (fun e he => hsub e (by simp [he]))⟩
              rw [valEqDAux_eq]
              obtain ⟨e', hle, hwv⟩ := wfFields_mem hwff (lookupV_mem hl)
              have : e' = x := by
                have := lookupE_mem htn hx
                rw [hle] at this
                injection this
              subst this
              exact ih e' hx v hwv
        exact key sub (fun e he => he)
    | int _ => simp [wfVal] at hwf
    | flt _ => simp [wfVal] at hwf
    | bool _ => simp [wfVal] at hwf
    | str _ => simp [wfVal] at hwf

theorem segEqTop_canonS (es : List Entry) (hld : ∀ e ∈ es, ldEntry e = true) :
    ∀ (s : Seg), wfFields es s = true → segEqTop (canonSeg es s) s = true
  | [], _ => by simp [canonSeg, segEqTop]
  | (k, v) :: s, hwf => by
    simp only [wfFields, Bool.and_eq_true] at hwf
    cases hl : lookupE es k with
    | none => rw [hl] at hwf; simp at hwf
    | some e =>
      rw [hl] at hwf
      have ih := segEqTop_canonS es hld s hwf.2
      simp only [canonSeg, List.map_cons, hl, segEqTop, beq_self_eq_true, Bool.true_and, Bool.and_eq_true] at ih ⊢
      exact ⟨eqDOK_allS e (hld _ (lookupE_some hl).1) v hwf.1, ih⟩

/-! ### whole messages -/

/-- every segment of the message class is level-distinct (tags may recur at different levels and in different groups) -/
def wfDefLevels (d : MsgDef) : Bool := ldLevel d.hdr && ldLevel d.body && ldLevel d.trl

theorem wfDefLevels_parts {d : MsgDef} (h : wfDefLevels d = true) :
    ldLevel d.hdr = true ∧ ldLevel d.body = true ∧ ldLevel d.trl = true := by
  simp only [wfDefLevels, Bool.and_eq_true] at h
  exact ⟨h.1.1, h.1.2, h.2⟩

/-- the bytes of a well-formed message are its fields, each followed by SOH: header, body, trailer -/
theorem encMsg_wireS {d : MsgDef} {m : Msg} {bs : Bytes} (hd : wfDefLevels d = true) (hm : wfMsg d m = true)
    (henc : encMsg d m = .ok bs) :
    ∃ fh fb ft, encSegFields d.hdr m.hdr = .ok fh ∧ encSegFields d.body m.body = .ok fb ∧
      encSegFields d.trl m.trl = .ok ft ∧ bs = termAll fh ++ termAll fb ++ termAll ft := by
  obtain ⟨lh, lb, lt⟩ := wfDefLevels_parts hd
  have nh := (ldLevel_parts lh).2
  have nb := (ldLevel_parts lb).2
  have nt := (ldLevel_parts lt).2
  simp only [wfMsg, Bool.and_eq_true, Bool.not_eq_true', Bool.and_eq_false_iff] at hm
  obtain ⟨⟨⟨wh, wb⟩, wt⟩, hne⟩ := hm
  simp only [encMsg, encSeg] at henc
  obtain ⟨h, hh, henc⟩ := bind_ok henc
  obtain ⟨fh, hfh, hh⟩ := bind_ok hh
  obtain ⟨b, hb, henc⟩ := bind_ok henc
  obtain ⟨fb, hfb, hb⟩ := bind_ok hb
  obtain ⟨t, ht, henc⟩ := bind_ok henc
  obtain ⟨ft, hft, ht⟩ := bind_ok ht
  simp only [pure_eq_ok] at hh hb ht henc
  injection hh with hh; injection hb with hb; injection ht with ht; injection henc with henc
  subst hh; subst hb; subst ht
  obtain ⟨gh, eh⟩ := encSegFields_goodS d.hdr nh m.hdr fh wh hfh
  obtain ⟨gb, eb⟩ := encSegFields_goodS d.body nb m.body fb wb hfb
  obtain ⟨gt, et⟩ := encSegFields_goodS d.trl nt m.trl ft wt hft
  refine ⟨fh, fb, ft, hfh, hfb, hft, ?_⟩
  rw [← henc, assemble _ _ _ (joinSOH_nil_or_good fh gh) (joinSOH_nil_or_good fb gb) (joinSOH_nil_or_good ft gt),
    termSeg_joinSOH fh gh, termSeg_joinSOH fb gb, termSeg_joinSOH ft gt]
  intro ⟨a1, a2, a3⟩
  have e1 : m.hdr = [] := eh.mp ((joinSOH_eq_nil_iff fh (fun x hx => (gh x hx).1)).mp a1)
  have e2 : m.body = [] := eb.mp ((joinSOH_eq_nil_iff fb (fun x hx => (gb x hx).1)).mp a2)
  have e3 : m.trl = [] := et.mp ((joinSOH_eq_nil_iff ft (fun x hx => (gt x hx).1)).mp a3)
  simp [e1, e2, e3] at hne

/-- the first tag a segment puts on the wire -/
def firstKey (s : Seg) : Option Nat := s.head?.map Prod.fst

/-- the tag that follows a top-level segment ends it, and the count ends every group value in it -/
def ceSeg (es : List Entry) (s : Seg) (follow : Option Nat) : Bool := levelOK es s follow && ceTop es s follow

/-- **the count is what ends every group of the message** (any depth): the fuel-free form of `Props.C13Shared.countEnds` -/
def countEndsS (d : MsgDef) (m : Msg) : Bool :=
  ceSeg d.hdr m.hdr ((firstKey m.body).orElse fun _ => firstKey m.trl) &&
  ceSeg d.body m.body (firstKey m.trl) && ceSeg d.trl m.trl none

theorem firstKey_orElse (s : Seg) (follow : Option Nat) : ((firstKey s).orElse fun _ => follow) = tagOr (keysOf s) follow := by
  cases s with
  | nil => simp [firstKey, keysOf, tagOr]
  | cons p s => simp [firstKey, keysOf, tagOr]

/-- what follows a segment on the wire begins with the first tag of the next non-empty segment -/
theorem next_of_fields {es : List Entry} {s : Seg} {fbs : List Bytes} {rest : Bytes} {follow : Option Nat}
    (hwf : wfFields es s = true) (henc : encSegFields es s = .ok fbs) (h : Next follow rest) :
    Next ((firstKey s).orElse fun _ => follow) (termAll fbs ++ rest) := by
  obtain ⟨fs, h1, h2, h3, _, _⟩ := encSegFields_itemsS es s fbs hwf henc
  have hw : termAll fbs = wireItems fs := by simp [wireItems, h1]
  rw [hw, firstKey_orElse, ← h3, ← headTag_eq]
  exact next_wireItems fs rest follow (fun x hx => (h2 x hx).2.2) h

/-- **round trip of a whole message, tags shared between levels**: level-distinct dictionary, well-formed message, the count ends
    every group -/
theorem decodeMsg_shared (reg : List MsgDef) (d : MsgDef) (m : Msg) (bs : Bytes)
    (hd : wfDefLevels d = true) (hm : wfMsg d m = true) (hc : countEndsS d m = true) (henc : encMsg d m = .ok bs)
    (hty : getMsgType bs = .ok d.type) (hreg : lookupReg reg d.type = some d) :
    decodeMsg reg bs = .ok (bs.length, d, canonMsg d m) := by
  obtain ⟨fh, fb, ft, hfh, hfb, hft, rfl⟩ := encMsg_wireS hd hm henc
  obtain ⟨lh, lb, lt⟩ := wfDefLevels_parts hd
  simp only [wfMsg, Bool.and_eq_true] at hm
  obtain ⟨⟨⟨wh, wb⟩, wt⟩, _⟩ := hm
  have wh' := wh; have wb' := wb; have wt' := wt
  simp only [wfSeg, Bool.and_eq_true] at wh' wb' wt'
  simp only [countEndsS, ceSeg, Bool.and_eq_true] at hc
  obtain ⟨⟨⟨ch1, ch2⟩, ⟨cb1, cb2⟩⟩, ⟨ct1, ct2⟩⟩ := hc
  simp only [decodeMsg, hty, ok_bind, hreg, msgFromBytes]
  have n3 : Next (firstKey m.trl) (termAll ft) := by
    have := next_of_fields (rest := []) (follow := none) wt'.1 hft rfl
    simpa using this
  have n2 : Next ((firstKey m.body).orElse fun _ => firstKey m.trl) (termAll fb ++ termAll ft) :=
    next_of_fields wb'.1 hfb n3
  have s1 : segFromBytes (tableOf d.hdr) (termAll fh ++ (termAll fb ++ termAll ft))
      = .ok ((termAll fh).length, canonSeg d.hdr m.hdr) :=
    segFromBytes_segS d.hdr lh m.hdr fh wh hfh _ _ n2 ch1 ch2
  have s2 : segFromBytes (tableOf d.body) (termAll fb ++ termAll ft)
      = .ok ((termAll fb).length, canonSeg d.body m.body) :=
    segFromBytes_segS d.body lb m.body fb wb hfb _ _ n3 cb1 cb2
  have s3 : segFromBytes (tableOf d.trl) (termAll ft) = .ok ((termAll ft).length, canonSeg d.trl m.trl) := by
    have := segFromBytes_segS d.trl lt m.trl ft wt hft [] none rfl ct1 ct2
    simpa using this
  rw [List.append_assoc, s1]
  simp only [ok_bind, List.drop_left', s2, s3, pure_eq_ok, canonMsg, List.length_append, Nat.add_assoc]

theorem encMsg_canonS (d : MsgDef) (m : Msg) (hd : wfDefLevels d = true) : encMsg d (canonMsg d m) = encMsg d m := by
  obtain ⟨lh, lb, lt⟩ := wfDefLevels_parts hd
  simp only [encMsg, encSeg, canonMsg, encSegFields_canonS _ (ldLevel_parts lh).2, encSegFields_canonS _ (ldLevel_parts lb).2,
    encSegFields_canonS _ (ldLevel_parts lt).2]

theorem pyEqDict_canonS (d : MsgDef) (m : Msg) (hd : wfDefLevels d = true) (hm : wfMsg d m = true) :
    pyEqDict (canonMsg d m) m = true := by
  obtain ⟨lh, lb, lt⟩ := wfDefLevels_parts hd
  simp only [wfMsg, wfSeg, Bool.and_eq_true] at hm
  obtain ⟨⟨⟨wh, wb⟩, wt⟩, _⟩ := hm
  simp only [pyEqDict, canonMsg, segEqTop_canonS _ (ldLevel_parts lh).2 _ wh.1, segEqTop_canonS _ (ldLevel_parts lb).2 _ wb.1,
    segEqTop_canonS _ (ldLevel_parts lt).2 _ wt.1, Bool.and_self]

theorem encMsg_okS (d : MsgDef) (m : Msg) (hd : wfDefLevels d = true) (hm : wfMsg d m = true) : ∃ bs, encMsg d m = .ok bs := by
  obtain ⟨lh, lb, lt⟩ := wfDefLevels_parts hd
  simp only [wfMsg, wfSeg, Bool.and_eq_true] at hm
  obtain ⟨⟨⟨wh, wb⟩, wt⟩, _⟩ := hm
  obtain ⟨fh, hfh⟩ := encSegFields_okS d.hdr (ldLevel_parts lh).2 m.hdr wh.1
  obtain ⟨fb, hfb⟩ := encSegFields_okS d.body (ldLevel_parts lb).2 m.body wb.1
  obtain ⟨ft, hft⟩ := encSegFields_okS d.trl (ldLevel_parts lt).2 m.trl wt.1
  exact ⟨_, by simp only [encMsg, encSeg, hfh, hfb, hft, ok_bind, pure_eq_ok]; rfl⟩

end NasdaqModel.Fix
