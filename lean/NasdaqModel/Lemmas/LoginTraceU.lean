import NasdaqModel.Lemmas.LoginTraceT
import NasdaqModel.Lemmas.MonitorLemmas
/-
Login at trace level (C11), part 3: the invariant of one login caller.

`u` is a user task that is used for `login()` only (no `callClose u`, `callRecv u`, `callRecvNowait u` event occurs: user tasks are
single-use in the model and `ret u r` is the result of the call made by task `u`).  For every reachable state:

  rets      every `ret u r` in the trace has `r ∈ {ok, refused, cancelled, state}`; a `ret u ok` is immediately preceded by
            `loginReply 0`, no message callback was entered and the transport was not closed before it, and the login request
            was written before it; a `ret u state` happens only with a message callback configured and dispatching switched on
            by the configuration or by an earlier accepted login
  failed    `ret u refused` / `ret u cancelled` in the trace ⇒ the session is closed
  hb        `ret u ok` in the trace ⇒ both heartbeat monitors were started
  ncan … rcan   unless the caller cancelled `u` (`can`): `u` is never delivered a cancellation, and never returns `cancelled`
  spent1/2  (parameters `sp`, `sp2`, used from an arbitrary reachable state) once `u`'s attempt is past its receive without having
            returned the session, it never returns it
-/
namespace NasdaqModel.Sess

def okRes (r : Res) : Prop := r = .ok ∨ r = .refused ∨ r = .cancelled ∨ r = .state

/-- what must hold of the trace `l` that precedes an observable `y = ret u r` -/
def PRet (cfg : Cfg) (u : Nat) (l : List Obs) (y : Obs) : Prop :=
  ∀ r, y = .ret u r →
    okRes r ∧
    (r = .ok → (∃ l0, l = l0 ++ [Obs.loginReply 0]) ∧ (∀ n, Obs.msgEnter n ∉ l) ∧ Obs.tclose ∉ l ∧ Obs.write .login ∈ l) ∧
    (r = .state → cfg.hasMsgCb = true ∧ (cfg.dispatchOnConnect = true ∨ AcceptedIn l))

/-- the step in which `login()` of user task `u` consumes an acceptance on an active session -/
def AcceptCond (s : St) (ev : Ev) (u : Nat) : Prop :=
  ev = .run (.U u) ∧ s.status (.U u) = .ready ∧ s.prog (.U u) = .loginWait u ∧ s.vres = some 0 ∧ s.closed = false ∧
    s.closingTask = false

structure InvU (cfg : Cfg) (u : Nat) (can lg sp sp2 : Prop) (s : St) : Prop where
  nrecv : s.prog (.U u) ≠ .recvWait u
  nidle : alive (s.status (.U u)) = true → s.prog (.U u) = .loginWait u ∨ s.prog (.U u) = .inClose
  cont : ∀ r, contOf s.cstage = some (.userTail u r) → r = .refused ∨ (r = .cancelled ∧ can)
  rets : Before (PRet cfg u) s.trace
  failed : (Obs.ret u .refused ∈ s.trace ∨ Obs.ret u .cancelled ∈ s.trace) → s.closed = true
  hb : Obs.ret u .ok ∈ s.trace → s.status .L ≠ .absent ∧ s.status .M ≠ .absent
  called : s.status (.U u) ≠ .absent → lg
  retst : ∀ r, Obs.ret u r ∈ s.trace → s.status (.U u) ≠ .absent
  ncan : s.status (.U u) = .cancelled → can
  vcan : s.status (.U u) = .waitT .V → s.status .V = .cancelled → s.qClosed = true ∨ can
  noreply : s.status (.U u) = .ready → s.prog (.U u) = .loginWait u → s.vres = none → s.qClosed = true ∨ can
  rcan : Obs.ret u .cancelled ∈ s.trace → can
  spent1 : sp → Obs.ret u .ok ∉ s.trace
  spent2 : sp2 → s.status (.U u) ≠ .absent ∧ (s.prog (.U u) ≠ .loginWait u ∨ s.status (.U u) = .done)

variable {cfg : Cfg} {u : Nat} {can lg sp sp2 : Prop}

theorem mem_append_ret {tr l : List Obs} {u : Nat} (hl : ∀ o ∈ l, ∀ r, o ≠ .ret u r) {r : Res} (h : Obs.ret u r ∈ tr ++ l) :
    Obs.ret u r ∈ tr := by
  rcases List.mem_append.mp h with h | h
  · exact h
  · exact absurd rfl (hl _ h r)

/-- extension of the trace by observables other than `ret u _`, with a state change that does not touch task `u` -/
theorem InvU.ext {s s' : St} (i : InvU cfg u can lg sp sp2 s) (l : List Obs)
    (htr : s'.trace = s.trace ++ l) (hl : ∀ o ∈ l, ∀ r, o ≠ .ret u r)
    (hp : s'.prog (.U u) = s.prog (.U u)) (hs : s'.status (.U u) = s.status (.U u))
    (hc : contOf s'.cstage = contOf s.cstage) (hcl : s.closed = true → s'.closed = true)
    (hL : s'.status .L = .absent → s.status .L = .absent) (hM : s'.status .M = .absent → s.status .M = .absent)
    (hV : s.status (.U u) = .waitT .V → s'.status .V = .cancelled → s.status .V = .cancelled ∨ s'.qClosed = true ∨ can)
    (hq : s.qClosed = true → s'.qClosed = true)
    (hv : s.status (.U u) = .ready → s.prog (.U u) = .loginWait u → s'.vres = none → s.vres = none) :
    InvU cfg u can lg sp sp2 s' := by
  refine ⟨by rw [hp]; exact i.nrecv, by rw [hs, hp]; exact i.nidle, by rw [hc]; exact i.cont, ?_, ?_, ?_, by rw [hs]; exact i.called, ?_, by rw [hs]; exact i.ncan,
    ?_, ?_, ?_, ?_, by rw [hs, hp]; exact i.spent2⟩
  · rw [htr]; exact before_append i.rets (fun o ho l' r e => absurd e (hl o ho r))
  · rw [htr]; intro h
    exact hcl (i.failed (h.imp (mem_append_ret hl) (mem_append_ret hl)))
  · rw [htr]; intro h
    obtain ⟨a, b⟩ := i.hb (mem_append_ret hl h)
    exact ⟨fun e => a (hL e), fun e => b (hM e)⟩
  · rw [htr, hs]; intro r h; exact i.retst r (mem_append_ret hl h)
  · rw [hs]; intro h1 h2
    rcases hV h1 h2 with h | h | h
    · exact (i.vcan h1 h).imp hq id
    · exact Or.inl h
    · exact Or.inr h
  · rw [hs, hp]; intro h1 h2 h3
    exact (i.noreply h1 h2 (hv h1 h2 h3)).imp hq id
  · rw [htr]; intro h; exact i.rcan (mem_append_ret hl h)
  · rw [htr]; intro h1 h2; exact i.spent1 h1 (mem_append_ret hl h2)

/-- what `InvU` reads -/
def uv (u : Nat) (s : St) :=
  (s.trace, s.prog (.U u), s.status (.U u), contOf s.cstage, s.closed, s.status .L, s.status .M, s.status .V, s.qClosed, s.vres)

theorem InvU.of_uv_ext {s s' : St} (l : List Obs)
    (h : uv u s' = (s.trace ++ l, s.prog (.U u), s.status (.U u), contOf s.cstage, s.closed, s.status .L, s.status .M, s.status .V,
      s.qClosed, s.vres)) (hl : ∀ o ∈ l, ∀ r, o ≠ .ret u r) (i : InvU cfg u can lg sp sp2 s) : InvU cfg u can lg sp sp2 s' := by
  simp only [uv, Prod.mk.injEq] at h
  obtain ⟨h1, h2, h3, h4, h5, h6, h7, h8, h9, h10⟩ := h
  exact i.ext l h1 hl h2 h3 h4 (by rw [h5]; exact id) (by rw [h6]; exact id) (by rw [h7]; exact id)
    (by rw [h8]; exact fun _ h => Or.inl h) (by rw [h9]; exact id) (by rw [h10]; exact fun _ _ h => h)

theorem uboring_nil (u : Nat) : ∀ o ∈ ([] : List Obs), ∀ r, o ≠ .ret u r := by intro o h; simp at h

theorem uboring_one {u : Nat} {o : Obs} (h : ∀ r, o ≠ .ret u r) : ∀ o' ∈ [o], ∀ r, o' ≠ .ret u r := by
  intro o' h'; simp at h'; subst h'; exact h

theorem ret_ne {a u : Nat} (h : a ≠ u) (x : Res) : ∀ r, Obs.ret a x ≠ .ret u r := by
  intro r e; injection e with e; exact h e

/-- `iu i`: the goal `InvU … s'` follows from `i : InvU … s` because `s'` differs from `s` outside what `InvU` reads, possibly
    after one observable that is not a `ret` was emitted -/
macro "iu" i:ident : tactic => `(tactic| first
  | exact $i
  | (refine InvU.of_uv_ext [] ?_ (uboring_nil _) $i; simp only [List.append_nil]; rfl)
  | (refine InvU.of_uv_ext [?o] ?h ?hb $i; (case h => rfl); (case hb => exact uboring_one (by simp)))
  | (refine InvU.of_uv_ext [] ?_ (uboring_nil _) $i
     simp [uv, St.setStatus, St.setProg, St.spawn, St.emit]; done))

/-! ### the close machinery -/

theorem closeObs_ret {c : Cont} {u : Nat} {r : Res} (h : closeObs c (.ret u r)) : ∃ r', c = .userTail u r' ∧ r = r'.toRes := by
  rcases h with h | h | h | ⟨n, _, h⟩ | ⟨u', r', hc, h⟩
  · simp at h
  · simp at h
  · simp at h
  · simp at h
  · injection h with h1 h2; subst h1; exact ⟨r', hc, h2⟩

theorem contOk_user {t : Tid} {u : Nat} {r : CRes} (h : contOk t (.userTail u r)) : t = .U u := h

theorem contOk_of_user {c : Cont} {u : Nat} (h : contOk (.U u) c) : ∃ r, c = .userTail u r := by
  cases c with
  | userTail u' r => simp only [contOk] at h; injection h with h; subst h; exact ⟨r, rfl⟩
  | _ => simp [contOk] at h

/-- the close body run by task `t` with a continuation that, if it belongs to `u`, is a refusal (or the caller's cancellation) -/
structure CloseFacts (ab : Bool) (t : Tid) (c : Cont) (s s' : St) : Prop where
  other : ∀ y, y ≠ t → (∀ j, stageOf y ≠ some j) → s'.status y = s.status y ∧ s'.prog y = s.prog y
  nabs : ∀ y, s'.status y = .absent ↔ s.status y = .absent
  sprog : s'.prog t = s.prog t ∨ s'.prog t = .inClose ∨ t = .R ∨ t = .D
  tr : ∃ l, s'.trace = s.trace ++ l ∧
    ∀ o ∈ l, closeObs c o ∨ (ab = true ∧ ∃ u r, c = .userTail u r ∧ o = .ret u .cancelled)

theorem CE.facts {ab : Bool} {t : Tid} {c : Cont} {s s' : St} (e : CE ab t c s s') : CloseFacts ab t c s s' :=
  ⟨e.other, e.nabs, e.sprog, e.tr⟩

/-- the specification of `close()` seen from a state `s0` that agrees with `s` on statuses, programs and trace -/
theorem EnterSpec.facts {t : Tid} {c : Cont} {s0 s s' : St} (e : EnterSpec t c s s') (h1 : s0.status = s.status)
    (h2 : s0.prog = s.prog) (h3 : s0.trace = s.trace) : CloseFacts false t c s0 s' := by
  obtain ⟨l, el, ol⟩ := e.tr
  exact ⟨by rw [h1, h2]; exact e.other, by rw [h1]; exact e.nabs, by rw [h2]; exact e.sprog,
    ⟨l, by rw [h3]; exact el, fun o ho => Or.inl (ol o ho)⟩⟩

theorem InvU.close {s s' : St} {ab : Bool} {t : Tid} {c : Cont} (i : InvU cfg u can lg sp sp2 s)
    (hcok : contOk t c) (hc : ∀ r, c = .userTail u r → r = .refused ∨ (r = .cancelled ∧ can))
    (hst : alive (s.status t) = true) (hpt : t = .U u → s.prog t ≠ .recvWait u)
    (hab : ab = true → s.status t = .cancelled)
    (e : CloseFacts ab t c s s') (f : Fin t s') (hcl : s'.closed = true) (hq : s'.qClosed = true)
    (hstage : s'.cstage = s.cstage ∨ contOf s'.cstage = some c ∨ contOf s'.cstage = none) :
    InvU cfg u can lg sp sp2 s' := by
  obtain ⟨l, el, ol⟩ := e.tr
  -- what `u` can get out of this step
  have hret : ∀ r, Obs.ret u r ∈ l → t = .U u ∧ (r = .refused ∨ (r = .cancelled ∧ can)) := by
    intro r hr
    rcases ol _ hr with h | ⟨hb, u', r', hc', h⟩
    · obtain ⟨r', hc', hr'⟩ := closeObs_ret h
      subst hc'
      refine ⟨contOk_user hcok, ?_⟩
      rcases hc r' rfl with h1 | ⟨h1, h2⟩
      · subst h1; exact Or.inl hr'
      · subst h1; exact Or.inr ⟨hr', h2⟩
    · injection h with h1 h2; subst h1; subst h2; subst hc'
      have htu : t = .U u := contOk_user hcok
      refine ⟨htu, Or.inr ⟨rfl, ?_⟩⟩
      exact i.ncan (by rw [← htu]; exact hab hb)
  have hnotok : Obs.ret u .ok ∉ l := by
    intro h
    rcases (hret _ h).2 with h | ⟨h, _⟩ <;> simp at h
  have hmem : ∀ r, Obs.ret u r ∈ s'.trace → Obs.ret u r ∈ s.trace ∨ Obs.ret u r ∈ l := by
    intro r h; rw [el] at h; exact List.mem_append.mp h
  -- `u`'s own status and program
  have hother : Tid.U u ≠ t → s'.status (.U u) = s.status (.U u) ∧ s'.prog (.U u) = s.prog (.U u) :=
    fun h => e.other (.U u) h (stageOf_user u)
  refine ⟨?_, ?_, ?_, ?_, fun _ => hcl, ?_, ?_, ?_, ?_, fun _ _ => Or.inl hq, fun _ _ _ => Or.inl hq, ?_, ?_, ?_⟩
  · by_cases htu : Tid.U u = t
    · subst htu
      rcases e.sprog with h | h | h | h
      · rw [h]; exact hpt rfl
      · rw [h]; simp
      · simp at h
      · simp at h
    · rw [(hother htu).2]; exact i.nrecv
  · intro hal'
    by_cases htu : Tid.U u = t
    · subst htu
      rcases e.sprog with h | h | h | h
      · rw [h]; exact i.nidle hst
      · exact Or.inr h
      · simp at h
      · simp at h
    · rw [(hother htu).1] at hal'; rw [(hother htu).2]; exact i.nidle hal'
  · intro r hr
    rcases hstage with h | h | h
    · rw [h] at hr; exact i.cont r hr
    · rw [h] at hr; injection hr with hr; exact hc r hr
    · rw [h] at hr; simp at hr
  · rw [el]
    apply before_append i.rets
    intro o ho l' r er
    subst er
    rcases (hret r ho).2 with h | ⟨h, _⟩ <;> subst h <;>
      exact ⟨by simp [okRes], by intro h; simp at h, by intro h; simp at h⟩
  · intro h
    rcases hmem _ h with h | h
    · obtain ⟨a, b⟩ := i.hb h
      exact ⟨fun e' => a ((e.nabs .L).mp e'), fun e' => b ((e.nabs .M).mp e')⟩
    · exact absurd h hnotok
  · intro h; exact i.called (fun e' => h ((e.nabs _).mpr e'))
  · intro r h
    rcases hmem _ h with h | h
    · exact fun e' => i.retst r h ((e.nabs _).mp e')
    · intro e'
      have htu := (hret r h).1
      have := (e.nabs (.U u)).mp e'
      rw [htu] at hst; rw [this] at hst; simp [alive] at hst
  · intro h
    by_cases htu : Tid.U u = t
    · exfalso
      rcases f with f | f | f | f
      · rw [← htu] at f; rw [f] at h; simp at h
      · rw [← htu] at f; exact f.2 h
      · rw [← htu] at f; simp at f
      · rw [← htu] at f; simp at f
    · rw [(hother htu).1] at h; exact i.ncan h
  · intro h
    rcases hmem _ h with h | h
    · exact i.rcan h
    · rcases (hret _ h).2 with h' | ⟨_, h'⟩
      · simp at h'
      · exact h'
  · intro hsp h
    rcases hmem _ h with h | h
    · exact i.spent1 hsp h
    · exact hnotok h
  · intro hsp
    obtain ⟨a, b⟩ := i.spent2 hsp
    refine ⟨fun e' => a ((e.nabs _).mp e'), ?_⟩
    by_cases htu : Tid.U u = t
    · rcases f with f | f | f | f
      · rw [← htu] at f; exact Or.inr f
      · rw [← htu] at f; left; rw [f.1]; simp
      · rw [← htu] at f; simp at f
      · rw [← htu] at f; simp at f
    · rw [(hother htu).1, (hother htu).2]; exact b

/-- `close()` called by the running task `t` in state `s`; the invariant is given for a state `s0` that agrees with `s` on
    statuses, programs, trace and close stage (the pending-receive slot may differ: `login()` has just emptied it) -/
theorem InvU.enter {s0 s s' : St} {t : Tid} {c : Cont} (i : InvU cfg u can lg sp sp2 s0)
    (h1 : s0.status = s.status) (h2 : s0.prog = s.prog) (h3 : s0.trace = s.trace) (h4 : s0.cstage = s.cstage)
    (hcok : contOk t c) (hc : ∀ r, c = .userTail u r → r = .refused ∨ (r = .cancelled ∧ can))
    (hst : s.status t = .ready) (hpt : t = .U u → s.prog t ≠ .recvWait u) (e : EnterSpec t c s s') :
    InvU cfg u can lg sp sp2 s' := by
  refine i.close hcok hc (by rw [h1, hst]; rfl) (by rw [h2]; exact hpt) (by simp) (e.facts h1 h2 h3) e.fin e.closed e.qclosed ?_
  rw [h4]
  rcases e.stage with ⟨_, h⟩ | ⟨pc, h⟩ | ⟨k, h⟩ | h
  · exact Or.inl h
  · exact Or.inr (Or.inl (by rw [h]; rfl))
  · exact Or.inr (Or.inl (by rw [h]; rfl))
  · exact Or.inr (Or.inr (by rw [h]; rfl))

/-- a step of the task that is inside `close()` -/
theorem InvU.ce {s s' : St} {ab : Bool} {t : Tid} {c : Cont} (i : InvU cfg u can lg sp sp2 s) (a : InvA cfg s)
    (hcont : contOf s.cstage = some c) (hcok : contOk t c) (hal : alive (s.status t) = true) (hprog : s.prog t = .inClose)
    (hab : ab = true → s.status t = .cancelled) (e : CE ab t c s s') (f : Fin t s') : InvU cfg u can lg sp sp2 s' := by
  have hne : s.cstage ≠ .idle := by intro h; rw [h] at hcont; simp [contOf] at hcont
  have hcl : s.closed = true := a.closed_iff.mpr hne
  have hq : s.qClosed = true := a.qclosed hne
  refine i.close hcok (fun r hr => i.cont r (by rw [hcont, hr])) hal (fun _ => by rw [hprog]; simp) hab e.facts f
    (by rw [e.closed]; exact hcl) (by rw [e.qclosed]; exact hq) ?_
  rcases e.stage with h | ⟨pc, h⟩ | ⟨k, h⟩ | h | ⟨_, h⟩
  · exact Or.inl h
  · exact Or.inr (Or.inl (by rw [h]; rfl))
  · exact Or.inr (Or.inl (by rw [h]; rfl))
  · exact Or.inr (Or.inr (by rw [h]; rfl))
  · exact Or.inr (Or.inr (by rw [h]; rfl))

/-! ### tasks ending, receives ending -/

theorem absent_of_finish {s : St} {t y : Tid} (h : (s.finish t).status y = .absent) : s.status y = .absent := by
  rw [finish_status] at h
  split at h
  · simp at h
  · split at h
    · simp at h
    · exact h

theorem foldl_mon_tclose (l : List Obs) : ∀ p, Obs.tclose ∈ l → l.foldl mon p ≠ 0 := by
  induction l with
  | nil => intro p h; simp at h
  | cons o l ih =>
    intro p h
    simp only [List.foldl_cons]
    rcases List.mem_cons.mp h with h | h
    · subst h
      apply foldl_mon_ne_zero
      simp only [mon]; split <;> omega
    · exact ih _ h

/-- the transport of an open session has not been closed -/
theorem tclose_not_mem_of_open {cfg : Cfg} {s : St} (a : InvA cfg s) (h : s.closed = false) : Obs.tclose ∉ s.trace := by
  intro hm
  have := a.phase
  rw [idle_of_open a h] at this
  exact foldl_mon_tclose _ 0 hm this

/-- a task other than `u` ends -/
theorem InvU.finish {s : St} (i : InvU cfg u can lg sp sp2 s) {t : Tid} (hne : t ≠ .U u)
    (hw : s.status (.U u) = .waitT t → t = .V ∨ s.prog (.U u) = .inClose)
    (hV : t = .V → s.status (.U u) = .waitT .V → s.vres = none → s.qClosed = true ∨ can) :
    InvU cfg u can lg sp sp2 (s.finish t) := by
  have hun : Tid.U u ≠ t := fun e => hne e.symm
  have hst : (s.finish t).status (.U u) = if s.status (.U u) = .waitT t then .ready else s.status (.U u) := by
    rw [finish_status]; simp [hun]
  refine ⟨i.nrecv, ?_, i.cont, i.rets, i.failed, ?_, ?_, ?_, ?_, ?_, ?_, i.rcan, i.spent1, ?_⟩
  · intro h
    apply i.nidle
    rw [hst] at h
    split at h
    · rename_i hw'; rw [hw']; rfl
    · exact h
  · intro h
    obtain ⟨a1, a2⟩ := i.hb h
    exact ⟨fun e => a1 (absent_of_finish e), fun e => a2 (absent_of_finish e)⟩
  · intro h; apply i.called; intro e; apply h; rw [hst, e]; simp
  · intro r h e; exact i.retst r h (absent_of_finish e)
  · intro h; rw [hst] at h; split at h
    · simp at h
    · exact i.ncan h
  · intro h1 h2
    have h1' := waitT_of_finish h1
    apply i.vcan h1'
    rw [finish_status] at h2
    split at h2
    · simp at h2
    · split at h2
      · simp at h2
      · exact h2
  · intro h1 h2 h3
    rw [hst] at h1
    split at h1
    · rename_i hwt
      rcases hw hwt with hV' | hpc
      · exact hV hV' (by rw [← hV']; exact hwt) h3
      · have h2' : s.prog (.U u) = .loginWait u := h2
        rw [hpc] at h2'; simp at h2'
    · exact i.noreply h1 h2 h3
  · intro hsp
    obtain ⟨a1, a2⟩ := i.spent2 hsp
    refine ⟨fun e => a1 (absent_of_finish e), a2.imp id ?_⟩
    intro hd; rw [hst, hd]; simp

theorem waits_of_invB {s : St} (b : InvB s) {x t : Tid} (h : s.status x = .waitT t) : t = .V ∨ s.prog x = .inClose := by
  rcases b.waitt _ _ h with ⟨pc, c, hb⟩ | ⟨_, _, hV⟩
  · exact Or.inr (b.bst _ pc c hb).1
  · exact Or.inl hV

/-- while a user other than `u` is inside a receive, `u` is not about to resume its `login()` -/
theorem not_resuming {s : St} (w : InvW s) {a : Nat} (hra : rcving s a) (hau : a ≠ u) :
    ¬ (s.status (.U u) = .ready ∧ s.prog (.U u) = .loginWait u) := by
  rintro ⟨h1, h2⟩
  exact hau (w.uniq a u hra ⟨by rw [h1]; rfl, Or.inl h2⟩)

/-- a receive of a user other than `u` ends: the pending slot is cleared, a result is returned, the task ends -/
theorem InvU.other_leave {s : St} (i : InvU cfg u can lg sp sp2 s) (b : InvB s) (w : InvW s) {a : Nat} (hra : rcving s a)
    (hau : a ≠ u) (q : List Nat) (g : List (Nat × Bool)) (x : Res) :
    InvU cfg u can lg sp sp2 ((({ s with vres := none, rcvBusy := false, queue := q, gone := g } : St).emit (.ret a x)).finish (.U a)) := by
  have hnr := not_resuming (u := u) w hra hau
  have i1 : InvU cfg u can lg sp sp2 (({ s with vres := none, rcvBusy := false, queue := q, gone := g } : St).emit (.ret a x)) :=
    i.ext [.ret a x] rfl (uboring_one (ret_ne hau x)) rfl rfl rfl id id id (fun _ h => Or.inl h) id
      (fun h1 h2 _ => absurd ⟨h1, h2⟩ hnr)
  exact i1.finish (by intro e; injection e with e; exact hau e) (fun h => waits_of_invB b h) (by intro e; simp at e)

/-- same, when only the busy flag is cleared (the pending slot was empty) -/
theorem InvU.other_leave' {s : St} (i : InvU cfg u can lg sp sp2 s) (b : InvB s) {a : Nat} (hau : a ≠ u) (x : Res) :
    InvU cfg u can lg sp sp2 ((({ s with rcvBusy := false } : St).emit (.ret a x)).finish (.U a)) := by
  have i1 : InvU cfg u can lg sp sp2 (({ s with rcvBusy := false } : St).emit (.ret a x)) :=
    i.ext [.ret a x] rfl (uboring_one (ret_ne hau x)) rfl rfl rfl id id id (fun _ h => Or.inl h) id (fun _ _ h => h)
  exact i1.finish (by intro e; injection e with e; exact hau e) (fun h => waits_of_invB b h) (by intro e; simp at e)

/-- `u`'s own `login()` ends with a refusal: the session is closed -/
theorem InvU.self_refused {s s1 : St} (i : InvU cfg u can lg sp sp2 s) (b : InvB s)
    (hal : alive (s.status (.U u)) = true) (hcl : s.closed = true)
    (h : uv u s1 = (s.trace ++ [.ret u .refused], s.prog (.U u), s.status (.U u), contOf s.cstage, s.closed, s.status .L,
      s.status .M, s.status .V, s.qClosed, s1.vres)) (hst : s1.status = s.status) :
    InvU cfg u can lg sp sp2 (s1.finish (.U u)) := by
  simp only [uv, Prod.mk.injEq] at h
  obtain ⟨h1, h2, h3, h4, h5, h6, h7, h8, h9, _⟩ := h
  have hlg : lg := i.called (by intro e; rw [e] at hal; simp [alive] at hal)
  have hdone : (s1.finish (.U u)).status (.U u) = .done := by rw [finish_status]; simp
  have hmem : ∀ r, Obs.ret u r ∈ s1.trace → Obs.ret u r ∈ s.trace ∨ r = .refused := by
    intro r hr; rw [h1] at hr
    rcases mem_snoc.mp hr with h | h
    · exact Or.inl h
    · injection h with _ h; exact Or.inr h
  have hLM : ∀ y, y = .L ∨ y = .M → (s1.finish (.U u)).status y = .absent → s.status y = .absent := by
    intro y _ e
    have := absent_of_finish e
    rw [hst] at this; exact this
  refine ⟨by show s1.prog _ ≠ _; rw [h2]; exact i.nrecv, by rw [hdone]; intro h; simp [alive] at h,
    by show ∀ r, contOf s1.cstage = _ → _; rw [h4]; exact i.cont, ?_,
    fun _ => by show s1.closed = true; rw [h5]; exact hcl, ?_, fun _ => hlg, fun _ _ => by rw [hdone]; simp,
    by rw [hdone]; simp, by rw [hdone]; simp, by rw [hdone]; simp, ?_, ?_, ?_⟩
  · show Before _ s1.trace
    rw [h1]
    refine before_snoc.mpr ⟨i.rets, ?_⟩
    intro r e; injection e with _ e; subst e
    exact ⟨by simp [okRes], by simp, by simp⟩
  · intro h
    have h' : Obs.ret u .ok ∈ s1.trace := h
    rcases hmem _ h' with h' | h'
    · obtain ⟨a1, a2⟩ := i.hb h'
      exact ⟨fun e => a1 (hLM .L (Or.inl rfl) e), fun e => a2 (hLM .M (Or.inr rfl) e)⟩
    · simp at h'
  · intro h
    have h' : Obs.ret u .cancelled ∈ s1.trace := h
    rcases hmem _ h' with h' | h'
    · exact i.rcan h'
    · simp at h'
  · intro hsp h
    have h' : Obs.ret u .ok ∈ s1.trace := h
    rcases hmem _ h' with h' | h'
    · exact i.spent1 hsp h'
    · simp at h'
  · intro _; rw [hdone]; exact ⟨by simp, Or.inr rfl⟩

/-- `u`'s own `login()` consumes the acceptance on an active session and returns it -/
theorem InvU.accept {s s2 : St} (i : InvU cfg u can lg sp sp2 s) (a : InvA cfg s) (w : InvW s) {sd lo : Prop}
    (tt : InvT cfg sd lo s) (hst : s.status (.U u) = .ready) (hp : s.prog (.U u) = .loginWait u) (hopen : s.closed = false)
    (hsp : sp → False)
    (etr : s2.trace = s.trace ++ [.loginReply 0])
    (e1 : s2.prog (.U u) = s.prog (.U u)) (e2 : s2.cstage = s.cstage) (e3 : s2.closed = s.closed)
    (eL : s2.status .L = .ready) (eM : s2.status .M = .ready) :
    InvU cfg u can lg sp sp2 ((s2.emit (.ret u .ok)).finish (.U u)) := by
  have hal : alive (s.status (.U u)) = true := by rw [hst]; rfl
  have hlg : lg := i.called (by rw [hst]; simp)
  have hdone : ((s2.emit (.ret u .ok)).finish (.U u)).status (.U u) = .done := by rw [finish_status]; simp
  have htr : ((s2.emit (.ret u .ok)).finish (.U u)).trace = (s.trace ++ [.loginReply 0]) ++ [.ret u .ok] := by
    show s2.trace ++ [.ret u .ok] = _
    rw [etr]
  have hmem : ∀ r, Obs.ret u r ∈ ((s2.emit (.ret u .ok)).finish (.U u)).trace → Obs.ret u r ∈ s.trace ∨ r = .ok := by
    intro r hr; rw [htr] at hr
    rcases mem_snoc.mp hr with h | h
    · rcases mem_snoc.mp h with h | h
      · exact Or.inl h
      · simp at h
    · injection h with _ h; exact Or.inr h
  have hbusy : s.rcvBusy = true := w.busy u ⟨hal, Or.inl hp⟩
  refine ⟨by show s2.prog _ ≠ _; rw [e1]; exact i.nrecv, by rw [hdone]; intro h; simp [alive] at h,
    by show ∀ r, contOf s2.cstage = _ → _; rw [e2]; exact i.cont, ?_, ?_, ?_,
    fun _ => hlg, fun _ _ => by rw [hdone]; simp, by rw [hdone]; simp, by rw [hdone]; simp, by rw [hdone]; simp, ?_,
    fun h => absurd h hsp, fun _ => by rw [hdone]; exact ⟨by simp, Or.inr rfl⟩⟩
  · rw [htr]
    refine before_snoc.mpr ⟨before_snoc.mpr ⟨i.rets, by intro r e; simp at e⟩, ?_⟩
    intro r e; injection e with _ e; subst e
    refine ⟨by simp [okRes], fun _ => ⟨⟨s.trace, rfl⟩, ?_, ?_, ?_⟩, by simp⟩
    · intro n hn
      rcases mem_snoc.mp hn with h | h
      · exact tt.quiet hbusy hopen n h
      · simp at h
    · intro hn
      rcases mem_snoc.mp hn with h | h
      · exact tclose_not_mem_of_open a hopen h
      · simp at h
    · exact List.mem_append_left _ (tt.lw u hal hp)
  · intro h
    have : Obs.ret u .refused ∈ s.trace ∨ Obs.ret u .cancelled ∈ s.trace := by
      rcases h with h | h
      · rcases hmem _ h with h | h
        · exact Or.inl h
        · simp at h
      · rcases hmem _ h with h | h
        · exact Or.inr h
        · simp at h
    have := i.failed this
    rw [hopen] at this; simp at this
  · intro _
    constructor
    · intro e; have := absent_of_finish e
      have : s2.status .L = .absent := this
      rw [eL] at this; simp at this
    · intro e; have := absent_of_finish e
      have : s2.status .M = .absent := this
      rw [eM] at this; simp at this
  · intro h
    rcases hmem _ h with h | h
    · exact i.rcan h
    · simp at h

/-! ### the steps -/

/-- the event is not another kind of call made by task `u` -/
def okEv (u : Nat) (ev : Ev) : Prop := ev ≠ .callClose u ∧ ev ≠ .callRecv u ∧ ev ≠ .callRecvNowait u

theorem stepReader_U {s : St} (a : InvA cfg s) (b : InvB s) (i : InvU cfg u can lg sp sp2 s)
    (hst : s.status .R = .ready) : InvU cfg u can lg sp sp2 (stepReader cfg s) := by
  unfold stepReader
  split
  · exact i.finish (by simp) (fun h => waits_of_invB b h) (by simp)
  · split
    · exact i
    · have p : ClosePre s .R := ClosePre.of_inv a b hst (c := .readerTail) rfl
      split
      · rename_i n _
        -- `queue.put`: a waiting getter is woken
        obtain ⟨f1, f2, f3, f4, f5, f6, f7, f8⟩ := put_frame ({ s with buf := _, consumed := s.consumed ++ [.msg n], recvd := s.recvd ++ [n] } : St) n
        refine InvU.ext (s := ({ s with buf := _, consumed := _, recvd := _ } : St)) (by iu i) [] (by rw [f1]; simp) (uboring_nil u)
          (by rw [f2]) (f3 _ (by simp) (by simp)) (by rw [f4]) (by rw [f5]; exact id) (by rw [f3 .L (by simp) (by simp)]; exact id)
          (by rw [f3 .M (by simp) (by simp)]; exact id) (fun _ h => Or.inl (f8 h)) (by rw [f6]; exact id) (by rw [f7]; exact fun _ _ h => h)
      · iu i
      · refine i.enter ?_ ?_ ?_ ?_ (c := .readerTail) rfl (by simp) ?_ (by simp) (enterClose_spec (c := .readerTail) ?_ rfl) <;>
          first | rfl | exact hst | exact p.same rfl rfl rfl
      · refine i.enter ?_ ?_ ?_ ?_ (c := .readerTail) rfl (by simp) ?_ (by simp) (enterClose_spec (c := .readerTail) ?_ rfl) <;>
          first | rfl | exact hst | exact p.same rfl rfl rfl

theorem InvU.initiateClose {s : St} (i : InvU cfg u can lg sp sp2 s) : InvU cfg u can lg sp sp2 s.initiateClose := by
  unfold St.initiateClose
  split
  · exact i
  · iu i

theorem InvU.startHeartbeats {s : St} (i : InvU cfg u can lg sp sp2 s) : InvU cfg u can lg sp sp2 s.startHeartbeats :=
  i.ext [] (by simp [St.startHeartbeats, St.spawn, St.setStatus, St.setProg]) (uboring_nil u) rfl rfl rfl id
    (by simp [St.startHeartbeats, St.spawn, St.setStatus, St.setProg]) (by simp [St.startHeartbeats, St.spawn, St.setStatus, St.setProg])
    (fun _ h => Or.inl h) id (fun _ _ h => h)

theorem dispHandle_U {s : St} (i : InvU cfg u can lg sp sp2 s) (p : ClosePre s .D) (n : Nat) :
    InvU cfg u can lg sp sp2 (dispHandle cfg s n) := by
  unfold dispHandle
  split
  · iu i
  · iu i
  · exact i.enter rfl rfl rfl rfl (c := .handlerTail n) rfl (by simp) p.hst (by simp) (enterClose_spec p rfl)
  · have := i.initiateClose; iu this
  · iu i
  · have i1 : InvU cfg u can lg sp sp2 (s.emit (.write .reply)) := by iu i
    have := i1.startHeartbeats; iu this
  · have i1 : InvU cfg u can lg sp sp2 (s.emit (.write .reply)) := by iu i
    exact i1.enter rfl rfl rfl rfl (c := .handlerTail n) rfl (by simp) p.hst (by simp) (enterClose_spec (p.same rfl rfl rfl) rfl)

theorem stepDisp_U {s : St} (a : InvA cfg s) (b : InvB s) (i : InvU cfg u can lg sp sp2 s)
    (hst : s.status .D = .ready) : InvU cfg u can lg sp sp2 (stepDisp cfg s) := by
  unfold stepDisp
  split
  · exact i.finish (by simp) (fun h => waits_of_invB b h) (by simp)
  · split
    · exact i
    · split
      · iu i
      · have p : ClosePre s .D := ClosePre.of_inv a b hst (c := .handlerTail 0) rfl
        exact dispHandle_U (s := ({ s with queue := _, gone := _ } : St).emit (.msgEnter _)) (by iu i) (p.same rfl rfl rfl) _

theorem stepMon_U {s : St} (a : InvA cfg s) (b : InvB s) (i : InvU cfg u can lg sp sp2 s) (isLocal : Bool)
    (hst : s.status .M = .ready) : InvU cfg u can lg sp sp2 (stepMon cfg s isLocal) := by
  unfold stepMon
  split
  · split
    · iu i
    · iu i
  · split
    · iu i
    · exact i.enter rfl rfl rfl rfl (c := .monitorTail) rfl (by simp) hst (by simp)
        (enterClose_spec (ClosePre.of_inv a b hst (c := .monitorTail) rfl) rfl)

/-- `login()` of user task `a` resumes after its receive -/
theorem loginResume_U {s : St} {sd lo : Prop} (a : InvA cfg s) (b : InvB s) (w : InvW s) (tt : InvT cfg sd lo s)
    (i : InvU cfg u can lg sp sp2 s) (x : Nat)
    (hst : s.status (.U x) = .ready) (hp : s.prog (.U x) = .loginWait x)
    (hsp : sp → ¬ AcceptCond s (.run (.U x)) u) : InvU cfg u can lg sp sp2 (loginResume cfg s (.U x) x) := by
  have hal : alive (s.status (.U x)) = true := by rw [hst]; rfl
  have hrx : rcving s x := ⟨hal, Or.inl hp⟩
  have p : ClosePre s (.U x) := ClosePre.of_inv a b hst (c := .userTail x .refused) rfl
  by_cases hxu : x = u
  · -- `u` itself
    subst hxu
    unfold loginResume
    split
    · rename_i n hv
      simp only
      split
      · rename_i hacc
        simp only [St.emit, Bool.and_eq_true, decide_eq_true_eq, Bool.not_eq_true', Bool.or_eq_false_iff] at hacc
        obtain ⟨hn, hopen, hct⟩ := hacc
        subst hn
        obtain ⟨f1, f2, _, _, _, f6, _, f8, _⟩ := startDispatching_frame
          ((({ s with vres := none, rcvBusy := false, gone := s.gone ++ [(0, true)] } : St).emit (.loginReply 0)).startHeartbeats) cfg
        exact i.accept a w tt hst hp hopen (fun h => hsp h ⟨rfl, hst, hp, hv, hopen, hct⟩) f6 (f1 _ (by simp)).2 f8 f2
          (f1 .L (by simp)).1 (f1 .M (by simp)).1
      · have i1 : InvU cfg x can lg sp sp2 (s.emit (.loginReply n)) := by iu i
        exact i1.enter (s := ({ s with vres := none, rcvBusy := false, gone := _ } : St).emit (.loginReply _)) rfl rfl rfl rfl
          (c := .userTail x .refused) rfl (by intro r e; injection e with _ e; exact Or.inl e.symm) hst (by intro _; show s.prog _ ≠ _; rw [hp]; simp)
          (enterClose_spec (p.same rfl rfl rfl) rfl)
    · rename_i hv
      split
      · rename_i hq
        exact i.self_refused b hal (w.qc hq) (s1 := ({ s with rcvBusy := false } : St).emit (.ret x .refused)) rfl rfl
      · rename_i hq
        have hcan : can := (i.noreply hst hp hv).resolve_left hq
        exact i.enter (s := ({ s with rcvBusy := false } : St)) rfl rfl rfl rfl
          (c := .userTail x .cancelled) rfl (by intro r e; injection e with _ e; exact Or.inr ⟨e.symm, hcan⟩) hst
          (by intro _; show s.prog _ ≠ _; rw [hp]; simp) (enterClose_spec (p.same rfl rfl rfl) rfl)
  · -- another user
    have hnr := not_resuming (u := u) w hrx hxu
    have hne : Tid.U x ≠ Tid.U u := by intro e; injection e with e; exact hxu e
    have hcx : ∀ (r0 : CRes) r, Cont.userTail x r0 = .userTail u r → r = .refused ∨ (r = .cancelled ∧ can) := by
      intro r0 r e; injection e with e _; exact absurd e hxu
    unfold loginResume
    split
    · rename_i n hv
      have i1 : InvU cfg u can lg sp sp2 (({ s with vres := none, rcvBusy := false, gone := s.gone ++ [(n, true)] } : St).emit (.loginReply n)) :=
        i.ext [.loginReply n] rfl (uboring_one (by simp)) rfl rfl rfl id id id (fun _ h => Or.inl h) id
          (fun h1 h2 _ => absurd ⟨h1, h2⟩ hnr)
      simp only
      split
      · obtain ⟨f1, f2, f3, _, f5, f6, _, f8, _⟩ := startDispatching_frame
          ((({ s with vres := none, rcvBusy := false, gone := s.gone ++ [(n, true)] } : St).emit (.loginReply n)).startHeartbeats) cfg
        have i2 := i1.startHeartbeats
        have i3 : InvU cfg u can lg sp sp2 ((((({ s with vres := none, rcvBusy := false, gone := s.gone ++ [(n, true)] } : St).emit
            (.loginReply n)).startHeartbeats).startDispatching cfg).emit (.ret x .ok)) :=
          i2.ext [.ret x .ok] (by show _ ++ [_] = _ ++ [_]; rw [f6]) (uboring_one (ret_ne hxu _)) (f1 _ (by simp)).2 (f1 _ (by simp)).1
            (by show contOf (St.startDispatching _ cfg).cstage = _; rw [f8]) (by show _ → (St.startDispatching _ cfg).closed = true; rw [f2]; exact id)
            (by show (St.startDispatching _ cfg).status .L = _ → _; rw [(f1 .L (by simp)).1]; exact id)
            (by show (St.startDispatching _ cfg).status .M = _ → _; rw [(f1 .M (by simp)).1]; exact id)
            (by intro _ h; left; have h' : (St.startDispatching _ cfg).status .V = .cancelled := h; rw [(f1 .V (by simp)).1] at h'; exact h')
            (by show _ → (St.startDispatching _ cfg).qClosed = true; rw [f3]; exact id)
            (by intro _ _ h; have h' : (St.startDispatching _ cfg).vres = none := h; rw [f5] at h'; exact h')
        refine i3.finish hne ?_ (by intro e; simp at e)
        intro h
        have h' : (St.startDispatching _ cfg).status (.U u) = .waitT (.U x) := h
        rw [(f1 _ (by simp)).1] at h'
        have := waits_of_invB b (show s.status (.U u) = .waitT (.U x) from h')
        rcases this with h'' | h''
        · exact Or.inl h''
        · right; show (St.startDispatching _ cfg).prog (.U u) = _; rw [(f1 _ (by simp)).2]; exact h''
      · exact i1.enter rfl rfl rfl rfl (c := .userTail x .refused) rfl (hcx _) hst (by intro e; exact absurd e hne) (enterClose_spec (p.same rfl rfl rfl) rfl)
    · split
      · exact i.other_leave' b hxu _
      · exact i.enter (s := ({ s with rcvBusy := false } : St)) rfl rfl rfl rfl (c := .userTail x .cancelled) rfl (hcx _) hst
          (by intro e; exact absurd e hne) (enterClose_spec (p.same rfl rfl rfl) rfl)

/-- a cancellation is delivered to `u` at its `login()` receive: it runs again (then closes the session and re-raises) -/
theorem InvU.wake_cancelled {s s1 : St} (i : InvU cfg u can lg sp sp2 s) (hst : s.status (.U u) = .cancelled)
    (h : uv u s1 = (s.trace, s.prog (.U u), .ready, contOf s.cstage, s.closed, s.status .L, s.status .M, s.status .V, s.qClosed,
      s1.vres)) : InvU cfg u can lg sp sp2 s1 := by
  simp only [uv, Prod.mk.injEq] at h
  obtain ⟨h1, h2, h3, h4, h5, h6, h7, h8, h9, _⟩ := h
  have hcan : can := i.ncan hst
  have hal : alive (s.status (.U u)) = true := by rw [hst]; rfl
  refine ⟨by rw [h2]; exact i.nrecv, by rw [h2]; intro _; exact i.nidle hal, by rw [h4]; exact i.cont, by rw [h1]; exact i.rets,
    by rw [h1, h5]; exact i.failed, by rw [h1, h6, h7]; exact i.hb, fun _ => i.called (by rw [hst]; simp),
    by rw [h3]; intro _ _; simp, fun _ => hcan, fun _ _ => Or.inr hcan, fun _ _ _ => Or.inr hcan, fun _ => hcan,
    by rw [h1]; exact i.spent1, ?_⟩
  intro hsp
  obtain ⟨_, a2⟩ := i.spent2 hsp
  rw [h3, h2]
  refine ⟨by simp, Or.inl ?_⟩
  rcases a2 with a2 | a2
  · exact a2
  · rw [hst] at a2; simp at a2

theorem stepRun_U {s : St} {sd lo : Prop} (a : InvA cfg s) (b : InvB s) (w : InvW s) (tt : InvT cfg sd lo s)
    (i : InvU cfg u can lg sp sp2 s) (t : Tid) (hsp : sp → ¬ AcceptCond s (.run t) u) :
    InvU cfg u can lg sp sp2 (stepRun cfg s t) := by
  unfold stepRun
  have i0 : InvU cfg u can lg sp sp2 ({ s with imm := none } : St) := by iu i
  have w0 : InvW ({ s with imm := none } : St) := by iw w
  have t0 : InvT cfg sd lo ({ s with imm := none } : St) := by it tt
  have b0 : InvB ({ s with imm := none } : St) := InvB.of_bcore (s := s) rfl b
  have a0 : InvA cfg ({ s with imm := none } : St) := InvA.of_core (s := s) rfl a
  have hsp0 : sp → ¬ AcceptCond ({ s with imm := none } : St) (.run t) u := hsp
  generalize ({ s with imm := none } : St) = s0 at i0 a0 w0 b0 t0 hsp0
  simp only
  split
  · -- cancelled
    rename_i hst
    have hal : alive (s0.status t) = true := by rw [hst]; rfl
    have htyp := b0.typ t hal
    split
    · rename_i n k hp
      have htD : t = .D := allowed_handler (by rw [hp] at htyp; exact htyp)
      subst htD
      exact InvU.finish (s := s0.emit (.msgAbandon n)) (by iu i0) (by simp) (fun h => waits_of_invB b0 h) (by simp)
    · rename_i hp
      have htV : t = .V := allowed_vget (by rw [hp] at htyp; exact htyp)
      subst htV
      exact i0.finish (by simp) (fun _ => Or.inl rfl) (fun _ h1 _ => i0.vcan h1 hst)
    · rename_i x hp
      have htx : t = .U x := allowed_recvWait (by rw [hp] at htyp; exact htyp)
      subst htx
      have hxu : x ≠ u := by intro e; subst e; exact i0.nrecv hp
      split
      · exact i0.other_leave b0 w0 ⟨hal, Or.inr hp⟩ hxu _ _ _
      · exact i0.other_leave b0 w0 ⟨hal, Or.inr hp⟩ hxu _ _ _
    · rename_i x hp
      have htx : t = .U x := allowed_loginWait (by rw [hp] at htyp; exact htyp)
      subst htx
      have hrx : rcving s0 x := ⟨hal, Or.inl hp⟩
      by_cases hxu : x = u
      · subst hxu
        split
        · rename_i hq
          exact i0.self_refused b0 hal (w0.qc hq)
            (s1 := ({ s0 with vres := none, rcvBusy := false, queue := _ } : St).emit (.ret x .refused)) rfl rfl
        · have hcan : can := i0.ncan hst
          have i1 : InvU cfg x can lg sp sp2
              (({ s0 with vres := none, rcvBusy := false, queue := s0.vres.toList ++ s0.queue } : St).setStatus (.U x) .ready) :=
            i0.wake_cancelled hst (by simp [uv, St.setStatus])
          exact i1.enter rfl rfl rfl rfl (c := .userTail x .cancelled) rfl
            (by intro r e; injection e with _ e; exact Or.inr ⟨e.symm, hcan⟩) (by simp [St.setStatus])
            (by intro _; show s0.prog _ ≠ _; rw [hp]; simp)
            (enterClose_spec (ClosePre.of_cancelled a0 b0 (c := .userTail x .cancelled) rfl (stageOf_user x) rfl rfl (fun _ => rfl)) rfl)
      · have hne : Tid.U x ≠ Tid.U u := by intro e; injection e with e; exact hxu e
        have hnr := not_resuming (u := u) w0 hrx hxu
        split
        · exact i0.other_leave b0 w0 hrx hxu _ _ _
        · have i1 : InvU cfg u can lg sp sp2
              (({ s0 with vres := none, rcvBusy := false, queue := s0.vres.toList ++ s0.queue } : St).setStatus (.U x) .ready) :=
            i0.ext [] (by simp [St.setStatus]) (uboring_nil u) rfl (by simp [St.setStatus, Ne.symm hne]) rfl id
              (by simp [St.setStatus]) (by simp [St.setStatus]) (fun _ h => Or.inl (by simpa [St.setStatus] using h)) id
              (fun h1 h2 _ => absurd ⟨h1, h2⟩ hnr)
          exact i1.enter rfl rfl rfl rfl (c := .userTail x .cancelled) rfl
            (by intro r e; injection e with e _; exact absurd e hxu) (by simp [St.setStatus])
            (by intro e; exact absurd e hne)
            (enterClose_spec (ClosePre.of_cancelled a0 b0 (c := .userTail x .cancelled) rfl (stageOf_user x) rfl rfl (fun _ => rfl)) rfl)
    · rename_i hp
      rcases stepInClose_spec (cfg := cfg) b0 t true (Or.inr hst) (by simp) with h | ⟨c, hc, hcok, e, f⟩
      · rw [h]; exact i0
      · exact i0.ce a0 hc hcok hal hp (fun _ => hst) e f
    · rename_i h1 h2 h3 h4 h5
      have hne : t ≠ .U u := by
        intro e; subst e
        rcases i0.nidle hal with h | h
        · exact h4 u h
        · exact h5 h
      exact i0.finish hne (fun h => waits_of_invB b0 h) (by intro e; subst e; intro h1' _; exact i0.vcan h1' hst)
  · -- ready
    rename_i hst
    have hal : alive (s0.status t) = true := by rw [hst]; rfl
    have htyp := b0.typ t hal
    split
    · split
      · rename_i htR; subst htR; exact stepReader_U a0 b0 i0 hst
      · exact i0
    · split
      · rename_i htD; subst htD; exact stepDisp_U a0 b0 i0 hst
      · exact i0
    · rename_i n k hp
      have htD : t = .D := allowed_handler (by rw [hp] at htyp; exact htyp)
      subst htD
      split
      · iu i0
      · iu i0
    · rename_i hp
      rcases allowed_monStart (by rw [hp] at htyp; exact htyp) with h | h <;> subst h <;> iu i0
    · split
      · rename_i htL; subst htL
        unfold stepMon; simp only [if_true]; split
        · iu i0
        · iu i0
      · split
        · rename_i htM; subst htM; exact stepMon_U a0 b0 i0 false hst
        · exact i0
    · rename_i c hp
      obtain ⟨htC, hcc⟩ := allowed_closeEntry (by rw [hp] at htyp; exact htyp)
      subst htC; subst hcc
      exact i0.enter rfl rfl rfl rfl (c := .closingTail) rfl (by simp) hst (by simp)
        (enterClose_spec (ClosePre.of_inv a0 b0 hst (c := .closingTail) rfl) rfl)
    · rename_i hp
      rcases stepInClose_spec (cfg := cfg) b0 t false (Or.inl hst) (fun _ => hst) with h | ⟨c, hc, hcok, e, f⟩
      · rw [h]; exact i0
      · exact i0.ce a0 hc hcok hal hp (by simp) e f
    · rename_i hp
      have htV : t = .V := allowed_vget (by rw [hp] at htyp; exact htyp)
      subst htV
      split
      · exact i0.ext [] (by simp [St.setStatus]) (uboring_nil u) rfl (by simp [St.setStatus]) rfl id (by simp [St.setStatus])
          (by simp [St.setStatus]) (fun _ h => by simp [St.setStatus] at h) id (fun _ _ h => h)
      · split
        · exact i0
        · rename_i n q _ _
          have i1 : InvU cfg u can lg sp sp2 ({ s0 with queue := q, vres := some n } : St) :=
            i0.ext [] (by simp) (uboring_nil u) rfl rfl rfl id id id (fun _ h => Or.inl h) id (fun _ _ h => by simp at h)
          exact i1.finish (by simp) (fun _ => Or.inl rfl) (fun _ _ h => by simp at h)
    · rename_i x hp
      have htx : t = .U x := allowed_recvWait (by rw [hp] at htyp; exact htyp)
      subst htx
      have hxu : x ≠ u := by intro e; subst e; exact i0.nrecv hp
      split
      · exact i0.other_leave b0 w0 ⟨hal, Or.inr hp⟩ hxu _ _ _
      · split
        · exact i0.other_leave' b0 hxu _
        · exact i0.other_leave' b0 hxu _
    · rename_i x hp
      have htx : t = .U x := allowed_loginWait (by rw [hp] at htyp; exact htyp)
      subst htx
      exact loginResume_U a0 b0 w0 t0 i0 x hst hp hsp0
    · exact i0
  · exact i0

/-- a call of user task `x` starts its receive (`x = u` only for `login()`) -/
theorem startRecv_U {s : St} {sd lo : Prop} (w : InvW s) (tt : InvT cfg sd lo s) (i : InvU cfg u can lg sp sp2 s)
    (x : Nat) (isLogin : Bool) (hx : s.status (.U x) = .absent) (hxu : x = u → isLogin = true ∧ lg) :
    InvU cfg u can lg sp sp2 (startRecv s x isLogin) := by
  by_cases hu : x = u
  · -- `u` calls `login()`
    subst hu
    obtain ⟨hL, hlg⟩ := hxu rfl
    subst hL
    have hnsp : sp2 → False := fun h => (i.spent2 h).1 hx
    -- no `ret x _` so far
    have hnoret : ∀ r, Obs.ret x r ∉ s.trace := fun r h => i.retst r h hx
    -- the call ends at once with result `r`
    have ended : ∀ (r : Res), (r = .state ∨ r = .refused) → PRet cfg x s.trace (.ret x r) → (r = .refused → s.closed = true) →
        InvU cfg x can lg sp sp2 ((s.emit (.ret x r)).setStatus (.U x) .done) := by
      intro r hr hP hcl
      have hdone : ((s.emit (.ret x r)).setStatus (.U x) .done).status (.U x) = .done := by simp [St.setStatus]
      have hmem : ∀ r', Obs.ret x r' ∈ ((s.emit (.ret x r)).setStatus (.U x) .done).trace → r' = r := by
        intro r' h
        have h' : Obs.ret x r' ∈ s.trace ++ [.ret x r] := h
        rcases mem_snoc.mp h' with h' | h'
        · exact absurd h' (hnoret r')
        · injection h' with _ h'
      refine ⟨i.nrecv, by rw [hdone]; intro h; simp [alive] at h, i.cont, before_snoc.mpr ⟨i.rets, hP⟩, ?_, ?_, fun _ => hlg,
        fun _ _ => by rw [hdone]; simp, by rw [hdone]; simp, by rw [hdone]; simp, by rw [hdone]; simp, ?_, ?_,
        fun h => absurd h hnsp⟩
      · intro h
        apply hcl
        rcases h with h | h
        · exact hmem _ h ▸ rfl
        · have := hmem _ h; rcases hr with hr | hr <;> rw [hr] at this <;> simp at this
      · intro h; have := hmem _ h; rcases hr with hr | hr <;> rw [hr] at this <;> simp at this
      · intro h; have := hmem _ h; rcases hr with hr | hr <;> rw [hr] at this <;> simp at this
      · intro _ h; have := hmem _ h; rcases hr with hr | hr <;> rw [hr] at this <;> simp at this
    -- the call suspends / is about to resume
    have started : ∀ (s1 : St) (st : Status), s1.trace = s.trace → s1.cstage = s.cstage → s1.closed = s.closed →
        s1.status .L = s.status .L → s1.status .M = s.status .M →
        (st = .ready ∧ s1.vres ≠ none ∨ st = .waitT .V ∧ s1.status .V = .ready) →
        InvU cfg x can lg sp sp2 ((s1.setStatus (.U x) st).setProg (.U x) (.loginWait x)) := by
      intro s1 st h1 h2 h3 h4 h5 h6
      have hst : ((s1.setStatus (.U x) st).setProg (.U x) (.loginWait x)).status (.U x) = st := by simp [St.setStatus, St.setProg]
      have hpr : ((s1.setStatus (.U x) st).setProg (.U x) (.loginWait x)).prog (.U x) = .loginWait x := by simp [St.setProg]
      refine ⟨by rw [hpr]; simp, fun _ => Or.inl hpr, by show ∀ r, contOf s1.cstage = _ → _; rw [h2]; exact i.cont,
        by show Before _ s1.trace; rw [h1]; exact i.rets, ?_, ?_, fun _ => hlg, ?_, ?_, ?_, ?_, ?_, ?_, fun h => absurd h hnsp⟩
      · intro h
        have h' : Obs.ret x .refused ∈ s1.trace ∨ Obs.ret x .cancelled ∈ s1.trace := h
        rw [h1] at h'
        rcases h' with h' | h' <;> exact absurd h' (hnoret _)
      · intro h
        have h' : Obs.ret x .ok ∈ s1.trace := h
        rw [h1] at h'; exact absurd h' (hnoret _)
      · intro r h
        have h' : Obs.ret x r ∈ s1.trace := h
        rw [h1] at h'; exact absurd h' (hnoret _)
      · rw [hst]; intro h; rcases h6 with ⟨h6, _⟩ | ⟨h6, _⟩ <;> rw [h6] at h <;> simp at h
      · rw [hst]; intro h hv
        rcases h6 with ⟨h6, _⟩ | ⟨_, h6⟩
        · rw [h6] at h; simp at h
        · have hv' : s1.status .V = .cancelled := by simpa [St.setStatus, St.setProg] using hv
          rw [h6] at hv'; simp at hv'
      · rw [hst]; intro h _ hv
        rcases h6 with ⟨_, h6⟩ | ⟨h6, _⟩
        · exact absurd hv h6
        · rw [h6] at h; simp at h
      · intro h
        have h' : Obs.ret x .cancelled ∈ s1.trace := h
        rw [h1] at h'; exact absurd h' (hnoret _)
      · intro _ h
        have h' : Obs.ret x .ok ∈ s1.trace := h
        rw [h1] at h'; exact absurd h' (hnoret _)
    unfold startRecv
    split
    · exact i
    · split
      · rename_i hds
        refine ended .state (Or.inl rfl) ?_ (by simp)
        intro r e; injection e with _ e; subst e
        exact ⟨by simp [okRes], by simp, fun _ => tt.dset hds⟩
      · split
        · exact started ({ s with queue := _, vres := some _, rcvBusy := true, imm := _ } : St) .ready rfl rfl rfl rfl rfl (Or.inl ⟨rfl, by simp⟩)
        · split
          · rename_i hq
            simp only [if_true]
            refine ended .refused (Or.inr rfl) ?_ (fun _ => w.qc hq)
            intro r e; injection e with _ e; subst e
            exact ⟨by simp [okRes], by simp, by simp⟩
          · simp only [if_true]
            exact started (({ s with rcvBusy := true } : St).spawn .V .vget) (.waitT .V) rfl rfl rfl rfl rfl (Or.inr ⟨rfl, rfl⟩)
  · -- another user's call
    have hne : Tid.U x ≠ Tid.U u := by intro e; injection e with e; exact hu e
    have hneu : Tid.U u ≠ Tid.U x := fun e => hne e.symm
    unfold startRecv
    split
    · exact i
    · split
      · exact i.ext [.ret x .state] rfl (uboring_one (ret_ne hu _)) rfl (by simp [St.setStatus, St.emit, hneu]) rfl id
          (by simp [St.setStatus, St.emit]) (by simp [St.setStatus, St.emit]) (fun _ h => Or.inl (by simpa [St.setStatus, St.emit] using h)) id
          (fun _ _ h => h)
      · split
        · exact i.ext [] (by simp [St.setStatus, St.setProg]) (uboring_nil u) (by simp [St.setStatus, St.setProg, hneu])
            (by simp [St.setStatus, St.setProg, hneu]) rfl id (by simp [St.setStatus, St.setProg]) (by simp [St.setStatus, St.setProg])
            (fun _ h => Or.inl (by simpa [St.setStatus, St.setProg] using h)) id (fun _ _ h => by simp [St.setStatus, St.setProg] at h)
        · split
          · split
            · exact i.ext [.ret x .refused] rfl (uboring_one (ret_ne hu _)) rfl (by simp [St.setStatus, St.emit, hneu]) rfl id
                (by simp [St.setStatus, St.emit]) (by simp [St.setStatus, St.emit]) (fun _ h => Or.inl (by simpa [St.setStatus, St.emit] using h)) id
                (fun _ _ h => h)
            · exact i.ext [.ret x .eoq] rfl (uboring_one (ret_ne hu _)) rfl (by simp [St.setStatus, St.emit, hneu]) rfl id
                (by simp [St.setStatus, St.emit]) (by simp [St.setStatus, St.emit]) (fun _ h => Or.inl (by simpa [St.setStatus, St.emit] using h)) id
                (fun _ _ h => h)
          · exact i.ext [] (by simp [St.setStatus, St.setProg, St.spawn]) (uboring_nil u) (by simp [St.setStatus, St.setProg, St.spawn, hneu])
              (by simp [St.setStatus, St.setProg, St.spawn, hneu]) rfl id (by simp [St.setStatus, St.setProg, St.spawn])
              (by simp [St.setStatus, St.setProg, St.spawn]) (fun _ h => by simp [St.setStatus, St.setProg, St.spawn] at h) id (fun _ _ h => h)

/-- how `task.cancel()` changes a status: not at all, or a runnable / queue-waiting task (the target, or the task the target
    awaits) becomes cancelled -/
theorem cancelTask_cases (s : St) (x y : Tid) :
    (s.cancelTask x).status y = s.status y ∨
    ((s.cancelTask x).status y = .cancelled ∧ (s.status y = .ready ∨ s.status y = .waitQ) ∧ (y = x ∨ s.status x = .waitT y)) := by
  unfold St.cancelTask
  split
  · rename_i h; simp only [St.setStatus]; split
    · rename_i e; subst e; exact Or.inr ⟨rfl, Or.inl h, Or.inl rfl⟩
    · exact Or.inl rfl
  · rename_i h; simp only [St.setStatus]; split
    · rename_i e; subst e; exact Or.inr ⟨rfl, Or.inr h, Or.inl rfl⟩
    · exact Or.inl rfl
  · rename_i w hw
    split
    · rename_i h; simp only [St.setStatus]; split
      · rename_i e; subst e; exact Or.inr ⟨rfl, Or.inl h, Or.inr hw⟩
      · exact Or.inl rfl
    · rename_i h; simp only [St.setStatus]; split
      · rename_i e; subst e; exact Or.inr ⟨rfl, Or.inr h, Or.inr hw⟩
      · exact Or.inl rfl
    · exact Or.inl rfl
  · exact Or.inl rfl

theorem step_U {s : St} {sd lo : Prop} (a : InvA cfg s) (b : InvB s) (w : InvW s) (tt : InvT cfg sd lo s)
    (i : InvU cfg u can lg sp sp2 s) (ev : Ev) (hev : okEv u ev) (hcan : ev = .cancel u → can) (hlg : ev = .callLogin u → lg)
    (hsp : sp → ¬ AcceptCond s ev u) : InvU cfg u can lg sp sp2 (step cfg s ev) := by
  cases ev with
  | connect =>
    simp only [step]
    split
    · exact i
    · have i1 : InvU cfg u can lg sp sp2 (s.spawn .R .readerLoop) := by iu i
      split
      · obtain ⟨f1, f2, f3, _, f5, f6, _, f8, _⟩ := startDispatching_frame (s.spawn .R .readerLoop) cfg
        exact i1.ext [] (by rw [f6]; simp) (uboring_nil u) (f1 _ (by simp)).2 (f1 _ (by simp)).1 (by rw [f8]) (by rw [f2]; exact id)
          (by rw [(f1 .L (by simp)).1]; exact id) (by rw [(f1 .M (by simp)).1]; exact id)
          (by rw [(f1 .V (by simp)).1]; exact fun _ h => Or.inl h) (by rw [f3]; exact id) (by rw [f5]; exact fun _ _ h => h)
      · exact i1
  | data fs => iu i
  | eof => exact i.initiateClose
  | run t =>
    simp only [step]
    split
    · exact stepRun_U a b w tt i t hsp
    · exact i
  | callClose x =>
    have hxu : x ≠ u := by intro e; subst e; exact hev.1 rfl
    have hne : Tid.U u ≠ Tid.U x := by intro e; injection e with e; exact hxu e.symm
    simp only [step]
    split
    · exact i
    · rename_i hx
      have hx' : s.status (.U x) = .absent := by simpa using hx
      have b1 := b.userStart x .idle hx' rfl (by simp)
      have a1 : InvA cfg ((s.setStatus (.U x) .ready).setProg (.U x) .idle) := InvA.of_core (s := s) rfl a
      have i1 : InvU cfg u can lg sp sp2 ((s.setStatus (.U x) .ready).setProg (.U x) .idle) :=
        i.ext [] (by simp [St.setStatus, St.setProg]) (uboring_nil u) (by simp [St.setStatus, St.setProg, hne])
          (by simp [St.setStatus, St.setProg, hne]) rfl id (by simp [St.setStatus, St.setProg]) (by simp [St.setStatus, St.setProg])
          (fun _ h => Or.inl (by simpa [St.setStatus, St.setProg] using h)) id (fun _ _ h => h)
      exact i1.enter rfl rfl rfl rfl (c := .userTail x .ok) rfl (by intro r e; injection e with e _; exact absurd e hxu)
        (by simp [St.setStatus, St.setProg]) (by intro e; exact absurd e.symm hne)
        (enterClose_spec (ClosePre.of_inv a1 b1 (c := .userTail x .ok) (by simp [St.setStatus, St.setProg]) rfl) rfl)
  | callInitiateClose => exact i.initiateClose
  | callLogout =>
    simp only [step]
    apply InvU.initiateClose
    iu i
  | callRecv x =>
    have hxu : x ≠ u := by intro e; subst e; exact hev.2.1 rfl
    simp only [step]
    split
    · exact i
    · rename_i hx
      exact startRecv_U w tt i x false (by simpa using hx) (fun e => absurd e hxu)
  | callRecvNowait x =>
    have hxu : x ≠ u := by intro e; subst e; exact hev.2.2 rfl
    simp only [step]
    split
    · exact i
    · split
      · exact i.ext [.ret x .state] rfl (uboring_one (ret_ne hxu _)) rfl rfl rfl id id id (fun _ h => Or.inl h) id (fun _ _ h => h)
      · split
        · exact i.ext [.ret x (.msg _)] rfl (uboring_one (ret_ne hxu _)) rfl rfl rfl id id id (fun _ h => Or.inl h) id (fun _ _ h => h)
        · split
          · exact i.ext [.ret x .eoq] rfl (uboring_one (ret_ne hxu _)) rfl rfl rfl id id id (fun _ h => Or.inl h) id (fun _ _ h => h)
          · exact i.ext [.ret x .none] rfl (uboring_one (ret_ne hxu _)) rfl rfl rfl id id id (fun _ h => Or.inl h) id (fun _ _ h => h)
  | callLogin x =>
    simp only [step]
    split
    · exact i
    · rename_i hx
      simp only [bne_iff_ne, ne_eq, Bool.or_eq_true, not_or, Decidable.not_not] at hx
      have i1 : InvU cfg u can lg sp sp2 ({ (s.emit (.write .login)) with pingL := true } : St) := by iu i
      have w1 : InvW ({ (s.emit (.write .login)) with pingL := true } : St) := by iw w
      have t1 : InvT cfg sd lo ({ (s.emit (.write .login)) with pingL := true } : St) :=
        tt.emit_write .login rfl (fun _ => Or.inl (Or.inl rfl)) (by simp) (by simp)
      exact startRecv_U w1 t1 i1 x true hx.1.1 (fun e => ⟨rfl, hlg (by rw [e])⟩)
  | callSend => iu i
  | cancel x =>
    simp only [step]
    obtain ⟨_, _, _, f4, _, f6, f7, f8, f9⟩ := cancelTask_flags s (.U x)
    have hpr := cancelTask_prog s (.U x)
    have hcases := cancelTask_cases s (.U x)
    have habs : ∀ y, (s.cancelTask (.U x)).status y = .absent ↔ s.status y = .absent := by
      intro y
      rcases hcases y with h | ⟨h1, h2, _⟩
      · rw [h]
      · rw [h1]; rcases h2 with h2 | h2 <;> rw [h2] <;> simp
    -- the target of a `cancel` is a user task, or the receive helper / a stop target it awaits: never another user task
    have hu_status : x ≠ u → (s.cancelTask (.U x)).status (.U u) = s.status (.U u) := by
      intro hxu
      rcases hcases (.U u) with h | ⟨_, _, h3⟩
      · exact h
      · exfalso
        rcases h3 with h3 | h3
        · injection h3 with h3; exact hxu h3.symm
        · rcases b.waitt _ _ h3 with ⟨pc, c, hb⟩ | ⟨_, _, hV⟩
          · exact stageOf_user u _ (b.bwait _ pc c _ hb h3).1
          · simp at hV
    by_cases hxu : x = u
    · -- the caller cancels `u`
      subst hxu
      have hc : can := hcan rfl
      refine ⟨by rw [hpr]; exact i.nrecv, ?_, by rw [f9]; exact i.cont, by rw [f8]; exact i.rets, by rw [f8, f6]; exact i.failed, ?_,
        fun h => i.called (fun e => h ((habs _).mpr e)), fun r h e => i.retst r (by rw [f8] at h; exact h) ((habs _).mp e),
        fun _ => hc, fun _ _ => Or.inr hc, fun _ _ _ => Or.inr hc, fun _ => hc, by rw [f8]; exact i.spent1, ?_⟩
      · rw [hpr, alive_cancelTask]; exact i.nidle
      · rw [f8]; intro h
        obtain ⟨a1, a2⟩ := i.hb h
        exact ⟨fun e => a1 ((habs _).mp e), fun e => a2 ((habs _).mp e)⟩
      · intro h
        obtain ⟨a1, a2⟩ := i.spent2 h
        refine ⟨fun e => a1 ((habs _).mp e), ?_⟩
        rw [hpr]
        refine a2.imp id ?_
        intro hd
        rcases hcases (.U x) with h' | ⟨_, h', _⟩
        · rw [h', hd]
        · rw [hd] at h'; simp at h'
    · have hs := hu_status hxu
      refine i.ext [] (by rw [f8]; simp) (uboring_nil u) (by rw [hpr]) hs (by rw [f9]) (by rw [f6]; exact id)
        (fun e => (habs _).mp e) (fun e => (habs _).mp e) ?_ (by rw [f7]; exact id) (by rw [f4]; exact fun _ _ h => h)
      intro hw hv
      rcases hcases .V with h | ⟨_, _, h3⟩
      · rw [h] at hv; exact Or.inl hv
      · -- the helper is newly cancelled: by the cancellation of the (one) user that awaits it
        right; left
        rw [f7]
        apply Classical.byContradiction
        intro hq
        have hq' : s.qClosed = false := by simpa using hq
        obtain ⟨_, hopen⟩ := open_of_not_qClosed a hq'
        rcases h3 with h3 | h3
        · simp at h3
        · have r1 : rcving s x := ⟨by rw [h3]; rfl, w.wprog x h3 hopen⟩
          have r2 : rcving s u := ⟨by rw [hw]; rfl, w.wprog u hw hopen⟩
          exact hxu (w.uniq x u r1 r2)

theorem InvU.init (cfg : Cfg) (u : Nat) (can lg sp : Prop) : InvU cfg u can lg sp False {} :=
  ⟨by simp, by intro h; simp [alive] at h, by intro r h; simp [contOf] at h, before_nil _, by intro h; simp at h, by intro h; simp at h,
    by intro h; simp at h, by intro r h; simp at h, by simp, by simp, by simp, by simp, by intro _ h; simp at h, fun h => h.elim⟩

/-! ### all invariants together, along a run -/


/-- the parameters of the invariants can be weakened / re-chosen -/
theorem InvU.weaken {can' lg' sp' sp2' : Prop} {s : St} (i : InvU cfg u can lg sp sp2 s) (hc : can → can') (hl : lg → lg')
    (h1 : sp' → Obs.ret u .ok ∉ s.trace)
    (h2 : sp2' → s.status (.U u) ≠ .absent ∧ (s.prog (.U u) ≠ .loginWait u ∨ s.status (.U u) = .done)) :
    InvU cfg u can' lg' sp' sp2' s :=
  ⟨i.nrecv, i.nidle, fun r h => (i.cont r h).imp id (fun ⟨a, b⟩ => ⟨a, hc b⟩), i.rets, i.failed, i.hb, fun h => hl (i.called h), i.retst,
    fun h => hc (i.ncan h), fun h1' h2' => (i.vcan h1' h2').imp id hc, fun h1' h2' h3' => (i.noreply h1' h2' h3').imp id hc,
    fun h => hc (i.rcan h), h1, h2⟩

theorem InvT.weaken {sd lo sd' lo' : Prop} {s : St} (i : InvT cfg sd lo s) (h1 : sd → sd') (h2 : lo → lo') : InvT cfg sd' lo' s :=
  ⟨i.msgd, i.quiet, i.lw, i.reply, i.dset, i.fresh, i.fw, fun h => h1 (i.sent h), fun h => h2 (i.logged h)⟩

/-- the invariants A, R, B (close bookkeeping, reader, tasks), W, T (receive bookkeeping, trace) and U (login caller `u`) -/
structure LoginInv (cfg : Cfg) (u : Nat) (sd lo can lg sp sp2 : Prop) (s : St) : Prop where
  a : InvA cfg s
  r : InvR s
  b : InvB s
  w : InvW s
  t : InvT cfg sd lo s
  u : InvU cfg u can lg sp sp2 s

theorem LoginInv.step {sd lo : Prop} {s : St} (i : LoginInv cfg u sd lo can lg sp sp2 s) (ev : Ev) (hev : okEv u ev)
    (hsd : ev = .callSend → sd) (hlo : ev = .callLogout → lo) (hcan : ev = .cancel u → can) (hlg : ev = .callLogin u → lg)
    (hsp : sp → ¬ AcceptCond s ev u) : LoginInv cfg u sd lo can lg sp sp2 (step cfg s ev) :=
  ⟨step_InvA i.a ev, step_InvR i.a i.r ev, step_InvB i.a i.r i.b ev, step_W i.a i.r i.b i.w ev, step_T i.a i.b i.w i.t ev hsd hlo,
    step_U i.a i.b i.w i.t i.u ev hev hcan hlg hsp⟩

/-- once `u` is past its receive it cannot be the task that consumes an acceptance -/
theorem InvU.not_accept {s : St} (i : InvU cfg u can lg sp True s) (ev : Ev) : ¬ AcceptCond s ev u := by
  rintro ⟨_, h1, h2, _⟩
  rcases (i.spent2 trivial).2 with h | h
  · exact h h2
  · rw [h1] at h; simp at h

/-- a run from a state that satisfies the invariants; `sp` is either impossible, or `u` is already past its receive -/
theorem LoginInv.run {sd lo : Prop} (l : List Ev) : ∀ {s : St}, LoginInv cfg u sd lo can lg sp sp2 s → (∀ ev ∈ l, okEv u ev) →
    (Ev.callSend ∈ l → sd) → (Ev.callLogout ∈ l → lo) → (Ev.cancel u ∈ l → can) → (Ev.callLogin u ∈ l → lg) →
    ((sp → False) ∨ sp2) → LoginInv cfg u sd lo can lg sp sp2 (runEvs cfg s l) := by
  induction l with
  | nil => intro s i _ _ _ _ _ _; exact i
  | cons ev l ih =>
    intro s i hev hsd hlo hcan hlg hsp
    refine ih (s := Sess.step cfg s ev) (i.step ev (hev ev (List.mem_cons_self ..)) (fun e => hsd (e ▸ List.mem_cons_self ..))
      (fun e => hlo (e ▸ List.mem_cons_self ..)) (fun e => hcan (e ▸ List.mem_cons_self ..))
      (fun e => hlg (e ▸ List.mem_cons_self ..)) ?_)
      (fun e he => hev e (List.mem_cons_of_mem _ he)) (fun h => hsd (List.mem_cons_of_mem _ h))
      (fun h => hlo (List.mem_cons_of_mem _ h)) (fun h => hcan (List.mem_cons_of_mem _ h)) (fun h => hlg (List.mem_cons_of_mem _ h)) hsp
    intro h
    rcases hsp with hsp | hsp
    · exact absurd h hsp
    · have i' : InvU cfg u can lg sp True s := by
        have iu := i.u
        exact ⟨iu.nrecv, iu.nidle, iu.cont, iu.rets, iu.failed, iu.hb, iu.called, iu.retst, iu.ncan, iu.vcan, iu.noreply, iu.rcan,
          iu.spent1, fun _ => iu.spent2 hsp⟩
      exact i'.not_accept ev

theorem LoginInv.init (cfg : Cfg) (u : Nat) (sd lo can lg : Prop) : LoginInv cfg u sd lo can lg False False {} :=
  ⟨InvA.init cfg, InvR.init, InvB.init, InvW.init, InvT.init cfg sd lo, InvU.init cfg u can lg False⟩

/-- **every state reachable by an event list in which task `u` makes no call other than `login()` satisfies all invariants** -/
theorem runEvs_LoginInv (cfg : Cfg) (u : Nat) (evs : List Ev) (h : ∀ ev ∈ evs, okEv u ev) :
    LoginInv cfg u (Ev.callSend ∈ evs) (Ev.callLogout ∈ evs) (Ev.cancel u ∈ evs) (Ev.callLogin u ∈ evs) False False
      (runEvs cfg {} evs) :=
  (LoginInv.init cfg u _ _ _ _).run evs h id id id id (Or.inl id)

theorem runEvs_append (cfg : Cfg) (s : St) (l1 l2 : List Ev) : runEvs cfg s (l1 ++ l2) = runEvs cfg (runEvs cfg s l1) l2 := by
  simp [runEvs, List.foldl_append]

end NasdaqModel.Sess
