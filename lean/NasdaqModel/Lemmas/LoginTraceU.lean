import NasdaqModel.Lemmas.LoginTraceT
import NasdaqModel.Lemmas.MonitorLemmas
/-
Login at trace level (C11), part 3: the invariant of one login caller.

`u` is a user task that is used for `login()` only (no `callClose u`, `callRecv u`, `callRecvNowait u` event occurs: user tasks are
single-use in the model and `ret u r` is the result of the call made by task `u`).  For every reachable state:

  rets      every `ret u r` in the trace has `r ∈ {ok, refused, cancelled, state}`; a `ret u ok` is immediately preceded by
            `loginReply 0`, no message callback was entered and the transport was not closed before it, and the login request
            was written before it; a `ret u state` happens only with a message callback configured and dispatching switched on
            by the configuration or by an earlier accepted login
  failed    `ret u refused` / `ret u cancelled` in the trace ⇒ the session is closed
  hb        `ret u ok` in the trace ⇒ both heartbeat monitors were started
  ncan … rcan   unless the caller cancelled `u` (`can`): `u` is never delivered a cancellation, and never returns `cancelled`
  spent1/2  (parameters `sp`, `sp2`, used from an arbitrary reachable state) once `u`'s attempt is past its receive without having
            returned the session, it never returns it
-/
namespace NasdaqModel.Sess

def okRes (r : Res) : Prop := r = .ok ∨ r = .refused ∨ r = .cancelled ∨ r = .state

/-- what must hold of the trace `l` that precedes an observable `y = ret u r` -/
def PRet (cfg : Cfg) (u : Nat) (l : List Obs) (y : Obs) : Prop :=
  ∀ r, y = .ret u r →
    okRes r ∧
    (r = .ok → (∃ l0, l = l0 ++ [Obs.loginReply 0]) ∧ (∀ n, Obs.msgEnter n ∉ l) ∧ Obs.tclose ∉ l ∧ Obs.write .login ∈ l) ∧
    (r = .state → cfg.hasMsgCb = true ∧ (cfg.dispatchOnConnect = true ∨ AcceptedIn l))

/-- the step in which `login()` of user task `u` consumes an acceptance on an active session -/
def AcceptCond (s : St) (ev : Ev) (u : Nat) : Prop :=
  ev = .run (.U u) ∧ s.status (.U u) = .ready ∧ s.prog (.U u) = .loginWait u ∧ s.vres = some 0 ∧ s.closed = false ∧
    s.closingTask = false

structure InvU (cfg : Cfg) (u : Nat) (can lg sp sp2 : Prop) (s : St) : Prop where
  nrecv : s.prog (.U u) ≠ .recvWait u
  cont : ∀ r, contOf s.cstage = some (.userTail u r) → r = .refused ∨ (r = .cancelled ∧ can)
  rets : Before (PRet cfg u) s.trace
  failed : (Obs.ret u .refused ∈ s.trace ∨ Obs.ret u .cancelled ∈ s.trace) → s.closed = true
  hb : Obs.ret u .ok ∈ s.trace → s.status .L ≠ .absent ∧ s.status .M ≠ .absent
  called : s.status (.U u) ≠ .absent → lg
  retst : ∀ r, Obs.ret u r ∈ s.trace → s.status (.U u) ≠ .absent
  ncan : s.status (.U u) = .cancelled → can
  vcan : s.status (.U u) = .waitT .V → s.status .V = .cancelled → s.qClosed = true ∨ can
  noreply : s.status (.U u) = .ready → s.prog (.U u) = .loginWait u → s.vres = none → s.qClosed = true ∨ can
  rcan : Obs.ret u .cancelled ∈ s.trace → can
  spent1 : sp → Obs.ret u .ok ∉ s.trace
  spent2 : sp2 → s.status (.U u) ≠ .absent ∧ (s.prog (.U u) ≠ .loginWait u ∨ s.status (.U u) = .done)

variable {cfg : Cfg} {u : Nat} {can lg sp sp2 : Prop}

theorem mem_append_ret {tr l : List Obs} {u : Nat} (hl : ∀ o ∈ l, ∀ r, o ≠ .ret u r) {r : Res} (h : Obs.ret u r ∈ tr ++ l) :
    Obs.ret u r ∈ tr := by
  rcases List.mem_append.mp h with h | h
  · exact h
  · exact absurd rfl (hl _ h r)

/-- extension of the trace by observables other than `ret u _`, with a state change that does not touch task `u` -/
theorem InvU.ext {s s' : St} (i : InvU cfg u can lg sp sp2 s) (l : List Obs)
    (htr : s'.trace = s.trace ++ l) (hl : ∀ o ∈ l, ∀ r, o ≠ .ret u r)
    (hp : s'.prog (.U u) = s.prog (.U u)) (hs : s'.status (.U u) = s.status (.U u))
    (hc : contOf s'.cstage = contOf s.cstage) (hcl : s.closed = true → s'.closed = true)
    (hL : s'.status .L = .absent → s.status .L = .absent) (hM : s'.status .M = .absent → s.status .M = .absent)
    (hV : s.status (.U u) = .waitT .V → s'.status .V = .cancelled → s.status .V = .cancelled ∨ s'.qClosed = true ∨ can)
    (hq : s.qClosed = true → s'.qClosed = true)
    (hv : s.status (.U u) = .ready → s.prog (.U u) = .loginWait u → s'.vres = none → s.vres = none) :
    InvU cfg u can lg sp sp2 s' := by
  refine ⟨by rw [hp]; exact i.nrecv, by rw [hc]; exact i.cont, ?_, ?_, ?_, by rw [hs]; exact i.called, ?_, by rw [hs]; exact i.ncan,
    ?_, ?_, ?_, ?_, by rw [hs, hp]; exact i.spent2⟩
  · rw [htr]; exact before_append i.rets (fun o ho l' r e => absurd e (hl o ho r))
  · rw [htr]; intro h
    exact hcl (i.failed (h.imp (mem_append_ret hl) (mem_append_ret hl)))
  · rw [htr]; intro h
    obtain ⟨a, b⟩ := i.hb (mem_append_ret hl h)
    exact ⟨fun e => a (hL e), fun e => b (hM e)⟩
  · rw [htr, hs]; intro r h; exact i.retst r (mem_append_ret hl h)
  · rw [hs]; intro h1 h2
    rcases hV h1 h2 with h | h | h
    · exact (i.vcan h1 h).imp hq id
    · exact Or.inl h
    · exact Or.inr h
  · rw [hs, hp]; intro h1 h2 h3
    exact (i.noreply h1 h2 (hv h1 h2 h3)).imp hq id
  · rw [htr]; intro h; exact i.rcan (mem_append_ret hl h)
  · rw [htr]; intro h1 h2; exact i.spent1 h1 (mem_append_ret hl h2)

/-- what `InvU` reads -/
def uv (u : Nat) (s : St) :=
  (s.trace, s.prog (.U u), s.status (.U u), contOf s.cstage, s.closed, s.status .L, s.status .M, s.status .V, s.qClosed, s.vres)

theorem InvU.of_uv_ext {s s' : St} (l : List Obs)
    (h : uv u s' = (s.trace ++ l, s.prog (.U u), s.status (.U u), contOf s.cstage, s.closed, s.status .L, s.status .M, s.status .V,
      s.qClosed, s.vres)) (hl : ∀ o ∈ l, ∀ r, o ≠ .ret u r) (i : InvU cfg u can lg sp sp2 s) : InvU cfg u can lg sp sp2 s' := by
  simp only [uv, Prod.mk.injEq] at h
  obtain ⟨h1, h2, h3, h4, h5, h6, h7, h8, h9, h10⟩ := h
  exact i.ext l h1 hl h2 h3 h4 (by rw [h5]; exact id) (by rw [h6]; exact id) (by rw [h7]; exact id)
    (by rw [h8]; exact fun _ h => Or.inl h) (by rw [h9]; exact id) (by rw [h10]; exact fun _ _ h => h)

theorem uboring_nil (u : Nat) : ∀ o ∈ ([] : List Obs), ∀ r, o ≠ .ret u r := by intro o h; simp at h

theorem uboring_one {u : Nat} {o : Obs} (h : ∀ r, o ≠ .ret u r) : ∀ o' ∈ [o], ∀ r, o' ≠ .ret u r := by
  intro o' h'; simp at h'; subst h'; exact h

theorem ret_ne {a u : Nat} (h : a ≠ u) (x : Res) : ∀ r, Obs.ret a x ≠ .ret u r := by
  intro r e; injection e with e; exact h e

/-- `iu i`: the goal `InvU … s'` follows from `i : InvU … s` because `s'` differs from `s` outside what `InvU` reads, possibly
    after one observable that is not a `ret` was emitted -/
macro "iu" i:ident : tactic => `(tactic| first
  | exact $i
  | (refine InvU.of_uv_ext [] ?_ (uboring_nil _) $i; simp only [List.append_nil]; rfl)
  | (refine InvU.of_uv_ext [?o] ?h ?hb $i; (case h => rfl); (case hb => exact uboring_one (by simp)))
  | (refine InvU.of_uv_ext [] ?_ (uboring_nil _) $i
     simp [uv, St.setStatus, St.setProg, St.spawn, St.emit]; done))

/-! ### the close machinery -/

theorem closeObs_ret {c : Cont} {u : Nat} {r : Res} (h : closeObs c (.ret u r)) : ∃ r', c = .userTail u r' ∧ r = r'.toRes := by
  rcases h with h | h | h | ⟨n, _, h⟩ | ⟨u', r', hc, h⟩
  · simp at h
  · simp at h
  · simp at h
  · simp at h
  · injection h with h1 h2; subst h1; exact ⟨r', hc, h2⟩

theorem contOk_user {t : Tid} {u : Nat} {r : CRes} (h : contOk t (.userTail u r)) : t = .U u := h

theorem contOk_of_user {c : Cont} {u : Nat} (h : contOk (.U u) c) : ∃ r, c = .userTail u r := by
  cases c with
  | userTail u' r => simp only [contOk] at h; injection h with h; subst h; exact ⟨r, rfl⟩
  | _ => simp [contOk] at h

/-- the close body run by task `t` with a continuation that, if it belongs to `u`, is a refusal (or the caller's cancellation) -/
structure CloseFacts (ab : Bool) (t : Tid) (c : Cont) (s s' : St) : Prop where
  other : ∀ y, y ≠ t → (∀ j, stageOf y ≠ some j) → s'.status y = s.status y ∧ s'.prog y = s.prog y
  nabs : ∀ y, s'.status y = .absent ↔ s.status y = .absent
  sprog : s'.prog t = s.prog t ∨ s'.prog t = .inClose ∨ t = .R ∨ t = .D
  tr : ∃ l, s'.trace = s.trace ++ l ∧
    ∀ o ∈ l, closeObs c o ∨ (ab = true ∧ ∃ u r, c = .userTail u r ∧ o = .ret u .cancelled)

theorem CE.facts {ab : Bool} {t : Tid} {c : Cont} {s s' : St} (e : CE ab t c s s') : CloseFacts ab t c s s' :=
  ⟨e.other, e.nabs, e.sprog, e.tr⟩

/-- the specification of `close()` seen from a state `s0` that agrees with `s` on statuses, programs and trace -/
theorem EnterSpec.facts {t : Tid} {c : Cont} {s0 s s' : St} (e : EnterSpec t c s s') (h1 : s0.status = s.status)
    (h2 : s0.prog = s.prog) (h3 : s0.trace = s.trace) : CloseFacts false t c s0 s' := by
  obtain ⟨l, el, ol⟩ := e.tr
  exact ⟨by rw [h1, h2]; exact e.other, by rw [h1]; exact e.nabs, by rw [h2]; exact e.sprog,
    ⟨l, by rw [h3]; exact el, fun o ho => Or.inl (ol o ho)⟩⟩

theorem InvU.close {s s' : St} {ab : Bool} {t : Tid} {c : Cont} (i : InvU cfg u can lg sp sp2 s)
    (hcok : contOk t c) (hc : ∀ r, c = .userTail u r → r = .refused ∨ (r = .cancelled ∧ can))
    (hst : alive (s.status t) = true) (hpt : t = .U u → s.prog t ≠ .recvWait u)
    (hab : ab = true → s.status t = .cancelled)
    (e : CloseFacts ab t c s s') (f : Fin t s') (hcl : s'.closed = true) (hq : s'.qClosed = true)
    (hstage : s'.cstage = s.cstage ∨ contOf s'.cstage = some c ∨ contOf s'.cstage = none) :
    InvU cfg u can lg sp sp2 s' := by
  obtain ⟨l, el, ol⟩ := e.tr
  -- what `u` can get out of this step
  have hret : ∀ r, Obs.ret u r ∈ l → t = .U u ∧ (r = .refused ∨ (r = .cancelled ∧ can)) := by
    intro r hr
    rcases ol _ hr with h | ⟨hb, u', r', hc', h⟩
    · obtain ⟨r', hc', hr'⟩ := closeObs_ret h
      subst hc'
      refine ⟨contOk_user hcok, ?_⟩
      rcases hc r' rfl with h1 | ⟨h1, h2⟩
      · subst h1; exact Or.inl hr'
      · subst h1; exact Or.inr ⟨hr', h2⟩
    · injection h with h1 h2; subst h1; subst h2; subst hc'
      have htu : t = .U u := contOk_user hcok
      refine ⟨htu, Or.inr ⟨rfl, ?_⟩⟩
      exact i.ncan (by rw [← htu]; exact hab hb)
  have hnotok : Obs.ret u .ok ∉ l := by
    intro h
    rcases (hret _ h).2 with h | ⟨h, _⟩ <;> simp at h
  have hmem : ∀ r, Obs.ret u r ∈ s'.trace → Obs.ret u r ∈ s.trace ∨ Obs.ret u r ∈ l := by
    intro r h; rw [el] at h; exact List.mem_append.mp h
  -- `u`'s own status and program
  have hother : Tid.U u ≠ t → s'.status (.U u) = s.status (.U u) ∧ s'.prog (.U u) = s.prog (.U u) :=
    fun h => e.other (.U u) h (stageOf_user u)
  refine ⟨?_, ?_, ?_, fun _ => hcl, ?_, ?_, ?_, ?_, fun _ _ => Or.inl hq, fun _ _ _ => Or.inl hq, ?_, ?_, ?_⟩
  · by_cases htu : Tid.U u = t
    · subst htu
      rcases e.sprog with h | h | h | h
      · rw [h]; exact hpt rfl
      · rw [h]; simp
      · simp at h
      · simp at h
    · rw [(hother htu).2]; exact i.nrecv
  · intro r hr
    rcases hstage with h | h | h
    · rw [h] at hr; exact i.cont r hr
    · rw [h] at hr; injection hr with hr; exact hc r hr
    · rw [h] at hr; simp at hr
  · rw [el]
    apply before_append i.rets
    intro o ho l' r er
    subst er
    rcases (hret r ho).2 with h | ⟨h, _⟩ <;> subst h <;>
      exact ⟨by simp [okRes], by intro h; simp at h, by intro h; simp at h⟩
  · intro h
    rcases hmem _ h with h | h
    · obtain ⟨a, b⟩ := i.hb h
      exact ⟨fun e' => a ((e.nabs .L).mp e'), fun e' => b ((e.nabs .M).mp e')⟩
    · exact absurd h hnotok
  · intro h; exact i.called (fun e' => h ((e.nabs _).mpr e'))
  · intro r h
    rcases hmem _ h with h | h
    · exact fun e' => i.retst r h ((e.nabs _).mp e')
    · intro e'
      have htu := (hret r h).1
      have := (e.nabs (.U u)).mp e'
      rw [htu] at hst; rw [this] at hst; simp [alive] at hst
  · intro h
    by_cases htu : Tid.U u = t
    · exfalso
      rcases f with f | f | f | f
      · rw [← htu] at f; rw [f] at h; simp at h
      · rw [← htu] at f; exact f.2 h
      · rw [← htu] at f; simp at f
      · rw [← htu] at f; simp at f
    · rw [(hother htu).1] at h; exact i.ncan h
  · intro h
    rcases hmem _ h with h | h
    · exact i.rcan h
    · rcases (hret _ h).2 with h' | ⟨_, h'⟩
      · simp at h'
      · exact h'
  · intro hsp h
    rcases hmem _ h with h | h
    · exact i.spent1 hsp h
    · exact hnotok h
  · intro hsp
    obtain ⟨a, b⟩ := i.spent2 hsp
    refine ⟨fun e' => a ((e.nabs _).mp e'), ?_⟩
    by_cases htu : Tid.U u = t
    · rcases f with f | f | f | f
      · rw [← htu] at f; exact Or.inr f
      · rw [← htu] at f; left; rw [f.1]; simp
      · rw [← htu] at f; simp at f
      · rw [← htu] at f; simp at f
    · rw [(hother htu).1, (hother htu).2]; exact b

/-- `close()` called by the running task `t` in state `s`; the invariant is given for a state `s0` that agrees with `s` on
    statuses, programs, trace and close stage (the pending-receive slot may differ: `login()` has just emptied it) -/
theorem InvU.enter {s0 s s' : St} {t : Tid} {c : Cont} (i : InvU cfg u can lg sp sp2 s0)
    (h1 : s0.status = s.status) (h2 : s0.prog = s.prog) (h3 : s0.trace = s.trace) (h4 : s0.cstage = s.cstage)
    (hcok : contOk t c) (hc : ∀ r, c = .userTail u r → r = .refused ∨ (r = .cancelled ∧ can))
    (hst : s.status t = .ready) (hpt : t = .U u → s.prog t ≠ .recvWait u) (e : EnterSpec t c s s') :
    InvU cfg u can lg sp sp2 s' := by
  refine i.close hcok hc (by rw [h1, hst]; rfl) (by rw [h2]; exact hpt) (by simp) (e.facts h1 h2 h3) e.fin e.closed e.qclosed ?_
  rw [h4]
  rcases e.stage with ⟨_, h⟩ | ⟨pc, h⟩ | ⟨k, h⟩ | h
  · exact Or.inl h
  · exact Or.inr (Or.inl (by rw [h]; rfl))
  · exact Or.inr (Or.inl (by rw [h]; rfl))
  · exact Or.inr (Or.inr (by rw [h]; rfl))

/-- a step of the task that is inside `close()` -/
theorem InvU.ce {s s' : St} {ab : Bool} {t : Tid} {c : Cont} (i : InvU cfg u can lg sp sp2 s) (a : InvA cfg s)
    (hcont : contOf s.cstage = some c) (hcok : contOk t c) (hal : alive (s.status t) = true) (hprog : s.prog t = .inClose)
    (hab : ab = true → s.status t = .cancelled) (e : CE ab t c s s') (f : Fin t s') : InvU cfg u can lg sp sp2 s' := by
  have hne : s.cstage ≠ .idle := by intro h; rw [h] at hcont; simp [contOf] at hcont
  have hcl : s.closed = true := a.closed_iff.mpr hne
  have hq : s.qClosed = true := a.qclosed hne
  refine i.close hcok (fun r hr => i.cont r (by rw [hcont, hr])) hal (fun _ => by rw [hprog]; simp) hab e.facts f
    (by rw [e.closed]; exact hcl) (by rw [e.qclosed]; exact hq) ?_
  rcases e.stage with h | ⟨pc, h⟩ | ⟨k, h⟩ | h | ⟨_, h⟩
  · exact Or.inl h
  · exact Or.inr (Or.inl (by rw [h]; rfl))
  · exact Or.inr (Or.inl (by rw [h]; rfl))
  · exact Or.inr (Or.inr (by rw [h]; rfl))
  · exact Or.inr (Or.inr (by rw [h]; rfl))

/-! ### tasks ending, receives ending -/

theorem absent_of_finish {s : St} {t y : Tid} (h : (s.finish t).status y = .absent) : s.status y = .absent := by
  rw [finish_status] at h
  split at h
  · simp at h
  · split at h
    · simp at h
    · exact h

theorem foldl_mon_tclose (l : List Obs) : ∀ p, Obs.tclose ∈ l → l.foldl mon p ≠ 0 := by
  induction l with
  | nil => intro p h; simp at h
  | cons o l ih =>
    intro p h
    simp only [List.foldl_cons]
    rcases List.mem_cons.mp h with h | h
    · subst h
      apply foldl_mon_ne_zero
      simp only [mon]; split <;> omega
    · exact ih _ h

/-- the transport of an open session has not been closed -/
theorem tclose_not_mem_of_open {cfg : Cfg} {s : St} (a : InvA cfg s) (h : s.closed = false) : Obs.tclose ∉ s.trace := by
  intro hm
  have := a.phase
  rw [idle_of_open a h] at this
  exact foldl_mon_tclose _ 0 hm this

/-- a task other than `u` ends -/
theorem InvU.finish {s : St} (i : InvU cfg u can lg sp sp2 s) {t : Tid} (hne : t ≠ .U u)
    (hw : s.status (.U u) = .waitT t → t = .V ∨ s.prog (.U u) = .inClose)
    (hV : t = .V → s.status (.U u) = .waitT .V → s.vres = none → s.qClosed = true ∨ can) :
    InvU cfg u can lg sp sp2 (s.finish t) := by
  have hun : Tid.U u ≠ t := fun e => hne e.symm
  have hst : (s.finish t).status (.U u) = if s.status (.U u) = .waitT t then .ready else s.status (.U u) := by
    rw [finish_status]; simp [hun]
  refine ⟨i.nrecv, i.cont, i.rets, i.failed, ?_, ?_, ?_, ?_, ?_, ?_, i.rcan, i.spent1, ?_⟩
  · intro h
    obtain ⟨a1, a2⟩ := i.hb h
    exact ⟨fun e => a1 (absent_of_finish e), fun e => a2 (absent_of_finish e)⟩
  · intro h; apply i.called; intro e; apply h; rw [hst, e]; simp
  · intro r h e; exact i.retst r h (absent_of_finish e)
  · intro h; rw [hst] at h; split at h
    · simp at h
    · exact i.ncan h
  · intro h1 h2
    have h1' := waitT_of_finish h1
    apply i.vcan h1'
    rw [finish_status] at h2
    split at h2
    · simp at h2
    · split at h2
      · simp at h2
      · exact h2
  · intro h1 h2 h3
    rw [hst] at h1
    split at h1
    · rename_i hwt
      rcases hw hwt with hV' | hpc
      · exact hV hV' (by rw [← hV']; exact hwt) h3
      · have h2' : s.prog (.U u) = .loginWait u := h2
        rw [hpc] at h2'; simp at h2'
    · exact i.noreply h1 h2 h3
  · intro hsp
    obtain ⟨a1, a2⟩ := i.spent2 hsp
    refine ⟨fun e => a1 (absent_of_finish e), a2.imp id ?_⟩
    intro hd; rw [hst, hd]; simp

theorem waits_of_invB {s : St} (b : InvB s) {x t : Tid} (h : s.status x = .waitT t) : t = .V ∨ s.prog x = .inClose := by
  rcases b.waitt _ _ h with ⟨pc, c, hb⟩ | ⟨_, _, hV⟩
  · exact Or.inr (b.bst _ pc c hb).1
  · exact Or.inl hV

/-- while a user other than `u` is inside a receive, `u` is not about to resume its `login()` -/
theorem not_resuming {s : St} (w : InvW s) {a : Nat} (hra : rcving s a) (hau : a ≠ u) :
    ¬ (s.status (.U u) = .ready ∧ s.prog (.U u) = .loginWait u) := by
  rintro ⟨h1, h2⟩
  exact hau (w.uniq a u hra ⟨by rw [h1]; rfl, Or.inl h2⟩)

/-- a receive of a user other than `u` ends: the pending slot is cleared, a result is returned, the task ends -/
theorem InvU.other_leave {s : St} (i : InvU cfg u can lg sp sp2 s) (b : InvB s) (w : InvW s) {a : Nat} (hra : rcving s a)
    (hau : a ≠ u) (g : List (Nat × Bool)) (x : Res) :
    InvU cfg u can lg sp sp2 ((({ s with vres := none, rcvBusy := false, gone := g } : St).emit (.ret a x)).finish (.U a)) := by
  have hnr := not_resuming (u := u) w hra hau
  have i1 : InvU cfg u can lg sp sp2 (({ s with vres := none, rcvBusy := false, gone := g } : St).emit (.ret a x)) :=
    i.ext [.ret a x] rfl (uboring_one (ret_ne hau x)) rfl rfl rfl id id id (fun _ h => Or.inl h) id
      (fun h1 h2 _ => absurd ⟨h1, h2⟩ hnr)
  exact i1.finish (by intro e; injection e with e; exact hau e) (fun h => waits_of_invB b h) (by intro e; simp at e)

/-- same, when only the busy flag is cleared (the pending slot was empty) -/
theorem InvU.other_leave' {s : St} (i : InvU cfg u can lg sp sp2 s) (b : InvB s) {a : Nat} (hau : a ≠ u) (x : Res) :
    InvU cfg u can lg sp sp2 ((({ s with rcvBusy := false } : St).emit (.ret a x)).finish (.U a)) := by
  have i1 : InvU cfg u can lg sp sp2 (({ s with rcvBusy := false } : St).emit (.ret a x)) :=
    i.ext [.ret a x] rfl (uboring_one (ret_ne hau x)) rfl rfl rfl id id id (fun _ h => Or.inl h) id (fun _ _ h => h)
  exact i1.finish (by intro e; injection e with e; exact hau e) (fun h => waits_of_invB b h) (by intro e; simp at e)

/-- `u`'s own `login()` ends with a refusal: the session is closed -/
theorem InvU.self_refused {s s1 : St} (i : InvU cfg u can lg sp sp2 s) (b : InvB s)
    (hal : alive (s.status (.U u)) = true) (hcl : s.closed = true)
    (h : uv u s1 = (s.trace ++ [.ret u .refused], s.prog (.U u), s.status (.U u), contOf s.cstage, s.closed, s.status .L,
      s.status .M, s.status .V, s.qClosed, s1.vres)) (hst : s1.status = s.status) :
    InvU cfg u can lg sp sp2 (s1.finish (.U u)) := by
  simp only [uv, Prod.mk.injEq] at h
  obtain ⟨h1, h2, h3, h4, h5, h6, h7, h8, h9, _⟩ := h
  have hlg : lg := i.called (by intro e; rw [e] at hal; simp [alive] at hal)
  have hdone : (s1.finish (.U u)).status (.U u) = .done := by rw [finish_status]; simp
  have hmem : ∀ r, Obs.ret u r ∈ s1.trace → Obs.ret u r ∈ s.trace ∨ r = .refused := by
    intro r hr; rw [h1] at hr
    rcases mem_snoc.mp hr with h | h
    · exact Or.inl h
    · injection h with _ h; exact Or.inr h
  have hLM : ∀ y, y = .L ∨ y = .M → (s1.finish (.U u)).status y = .absent → s.status y = .absent := by
    intro y _ e
    have := absent_of_finish e
    rw [hst] at this; exact this
  refine ⟨by show s1.prog _ ≠ _; rw [h2]; exact i.nrecv, by show ∀ r, contOf s1.cstage = _ → _; rw [h4]; exact i.cont, ?_,
    fun _ => by show s1.closed = true; rw [h5]; exact hcl, ?_, fun _ => hlg, fun _ _ => by rw [hdone]; simp,
    by rw [hdone]; simp, by rw [hdone]; simp, by rw [hdone]; simp, ?_, ?_, ?_⟩
  · show Before _ s1.trace
    rw [h1]
    refine before_snoc.mpr ⟨i.rets, ?_⟩
    intro r e; injection e with _ e; subst e
    exact ⟨by simp [okRes], by simp, by simp⟩
  · intro h
    have h' : Obs.ret u .ok ∈ s1.trace := h
    rcases hmem _ h' with h' | h'
    · obtain ⟨a1, a2⟩ := i.hb h'
      exact ⟨fun e => a1 (hLM .L (Or.inl rfl) e), fun e => a2 (hLM .M (Or.inr rfl) e)⟩
    · simp at h'
  · intro h
    have h' : Obs.ret u .cancelled ∈ s1.trace := h
    rcases hmem _ h' with h' | h'
    · exact i.rcan h'
    · simp at h'
  · intro hsp h
    have h' : Obs.ret u .ok ∈ s1.trace := h
    rcases hmem _ h' with h' | h'
    · exact i.spent1 hsp h'
    · simp at h'
  · intro _; rw [hdone]; exact ⟨by simp, Or.inr rfl⟩

/-- `u`'s own `login()` consumes the acceptance on an active session and returns it -/
theorem InvU.accept {s s2 : St} (i : InvU cfg u can lg sp sp2 s) (a : InvA cfg s) (w : InvW s) {sd lo : Prop}
    (tt : InvT cfg sd lo s) (hst : s.status (.U u) = .ready) (hp : s.prog (.U u) = .loginWait u) (hopen : s.closed = false)
    (hsp : sp → False)
    (etr : s2.trace = s.trace ++ [.loginReply 0])
    (e1 : s2.prog (.U u) = s.prog (.U u)) (e2 : s2.cstage = s.cstage) (e3 : s2.closed = s.closed)
    (eL : s2.status .L = .ready) (eM : s2.status .M = .ready) :
    InvU cfg u can lg sp sp2 ((s2.emit (.ret u .ok)).finish (.U u)) := by
  have hal : alive (s.status (.U u)) = true := by rw [hst]; rfl
  have hlg : lg := i.called (by rw [hst]; simp)
  have hdone : ((s2.emit (.ret u .ok)).finish (.U u)).status (.U u) = .done := by rw [finish_status]; simp
  have htr : ((s2.emit (.ret u .ok)).finish (.U u)).trace = (s.trace ++ [.loginReply 0]) ++ [.ret u .ok] := by
    show s2.trace ++ [.ret u .ok] = _
    rw [etr]
  have hmem : ∀ r, Obs.ret u r ∈ ((s2.emit (.ret u .ok)).finish (.U u)).trace → Obs.ret u r ∈ s.trace ∨ r = .ok := by
    intro r hr; rw [htr] at hr
    rcases mem_snoc.mp hr with h | h
    · rcases mem_snoc.mp h with h | h
      · exact Or.inl h
      · simp at h
    · injection h with _ h; exact Or.inr h
  have hbusy : s.rcvBusy = true := w.busy u ⟨hal, Or.inl hp⟩
  refine ⟨by show s2.prog _ ≠ _; rw [e1]; exact i.nrecv, by show ∀ r, contOf s2.cstage = _ → _; rw [e2]; exact i.cont, ?_, ?_, ?_,
    fun _ => hlg, fun _ _ => by rw [hdone]; simp, by rw [hdone]; simp, by rw [hdone]; simp, by rw [hdone]; simp, ?_,
    fun h => absurd h hsp, fun _ => by rw [hdone]; exact ⟨by simp, Or.inr rfl⟩⟩
  · rw [htr]
    refine before_snoc.mpr ⟨before_snoc.mpr ⟨i.rets, by intro r e; simp at e⟩, ?_⟩
    intro r e; injection e with _ e; subst e
    refine ⟨by simp [okRes], fun _ => ⟨⟨s.trace, rfl⟩, ?_, ?_, ?_⟩, by simp⟩
    · intro n hn
      rcases mem_snoc.mp hn with h | h
      · exact tt.quiet hbusy hopen n h
      · simp at h
    · intro hn
      rcases mem_snoc.mp hn with h | h
      · exact tclose_not_mem_of_open a hopen h
      · simp at h
    · exact List.mem_append_left _ (tt.lw u hal hp)
  · intro h
    have : Obs.ret u .refused ∈ s.trace ∨ Obs.ret u .cancelled ∈ s.trace := by
      rcases h with h | h
      · rcases hmem _ h with h | h
        · exact Or.inl h
        · simp at h
      · rcases hmem _ h with h | h
        · exact Or.inr h
        · simp at h
    have := i.failed this
    rw [hopen] at this; simp at this
  · intro _
    constructor
    · intro e; have := absent_of_finish e
      have : s2.status .L = .absent := this
      rw [eL] at this; simp at this
    · intro e; have := absent_of_finish e
      have : s2.status .M = .absent := this
      rw [eM] at this; simp at this
  · intro h
    rcases hmem _ h with h | h
    · exact i.rcan h
    · simp at h

/-! ### the steps -/

/-- the event is not another kind of call made by task `u` -/
def okEv (u : Nat) (ev : Ev) : Prop := ev ≠ .callClose u ∧ ev ≠ .callRecv u ∧ ev ≠ .callRecvNowait u

theorem stepReader_U {s : St} (a : InvA cfg s) (b : InvB s) (i : InvU cfg u can lg sp sp2 s)
    (hst : s.status .R = .ready) : InvU cfg u can lg sp sp2 (stepReader cfg s) := by
  unfold stepReader
  split
  · exact i.finish (by simp) (fun h => waits_of_invB b h) (by simp)
  · split
    · exact i
    · have p : ClosePre s .R := ClosePre.of_inv a b hst (c := .readerTail) rfl
      split
      · rename_i n _
        -- `queue.put`: a waiting getter is woken
        obtain ⟨f1, f2, f3, f4, f5, f6, f7, f8⟩ := put_frame ({ s with buf := _, consumed := s.consumed ++ [.msg n], recvd := s.recvd ++ [n] } : St) n
        refine InvU.ext (s := ({ s with buf := _, consumed := _, recvd := _ } : St)) (by iu i) [] (by rw [f1]; simp) (uboring_nil u)
          (by rw [f2]) (f3 _ (by simp) (by simp)) (by rw [f4]) (by rw [f5]; exact id) (by rw [f3 .L (by simp) (by simp)]; exact id)
          (by rw [f3 .M (by simp) (by simp)]; exact id) (fun _ h => Or.inl (f8 h)) (by rw [f6]; exact id) (by rw [f7]; exact fun _ _ h => h)
      · iu i
      · exact i.enter (s := { s with buf := _, consumed := _ }) rfl rfl rfl rfl (c := .readerTail) rfl (by simp) hst (by simp)
          (enterClose_spec (c := .readerTail) (p.same rfl rfl rfl) rfl)
      · exact i.enter (s := { s with buf := _, consumed := _ }) rfl rfl rfl rfl (c := .readerTail) rfl (by simp) hst (by simp)
          (enterClose_spec (c := .readerTail) (p.same rfl rfl rfl) rfl)

theorem InvU.initiateClose {s : St} (i : InvU cfg u can lg sp sp2 s) : InvU cfg u can lg sp sp2 s.initiateClose := by
  unfold St.initiateClose
  split
  · exact i
  · iu i

theorem InvU.startHeartbeats {s : St} (i : InvU cfg u can lg sp sp2 s) : InvU cfg u can lg sp sp2 s.startHeartbeats :=
  i.ext [] (by simp [St.startHeartbeats, St.spawn, St.setStatus, St.setProg]) (uboring_nil u) rfl rfl rfl id
    (by simp [St.startHeartbeats, St.spawn, St.setStatus, St.setProg]) (by simp [St.startHeartbeats, St.spawn, St.setStatus, St.setProg])
    (fun _ h => Or.inl h) id (fun _ _ h => h)

theorem dispHandle_U {s : St} (i : InvU cfg u can lg sp sp2 s) (p : ClosePre s .D) (n : Nat) :
    InvU cfg u can lg sp sp2 (dispHandle cfg s n) := by
  unfold dispHandle
  split
  · iu i
  · iu i
  · exact i.enter rfl rfl rfl rfl (c := .handlerTail n) rfl (by simp) p.hst (by simp) (enterClose_spec p rfl)
  · have := i.initiateClose; iu this
  · iu i
  · have i1 : InvU cfg u can lg sp sp2 (s.emit (.write .reply)) := by iu i
    have := i1.startHeartbeats; iu this
  · have i1 : InvU cfg u can lg sp sp2 (s.emit (.write .reply)) := by iu i
    exact i1.enter rfl rfl rfl rfl (c := .handlerTail n) rfl (by simp) p.hst (by simp) (enterClose_spec (p.same rfl rfl rfl) rfl)

theorem stepDisp_U {s : St} (a : InvA cfg s) (b : InvB s) (i : InvU cfg u can lg sp sp2 s)
    (hst : s.status .D = .ready) : InvU cfg u can lg sp sp2 (stepDisp cfg s) := by
  unfold stepDisp
  split
  · exact i.finish (by simp) (fun h => waits_of_invB b h) (by simp)
  · split
    · exact i
    · split
      · iu i
      · have p : ClosePre s .D := ClosePre.of_inv a b hst (c := .handlerTail 0) rfl
        exact dispHandle_U (s := ({ s with queue := _, gone := _ } : St).emit (.msgEnter _)) (by iu i) (p.same rfl rfl rfl) _

theorem stepMon_U {s : St} (a : InvA cfg s) (b : InvB s) (i : InvU cfg u can lg sp sp2 s) (isLocal : Bool)
    (hst : s.status .M = .ready) : InvU cfg u can lg sp sp2 (stepMon cfg s isLocal) := by
  unfold stepMon
  split
  · split
    · iu i
    · iu i
  · split
    · iu i
    · exact i.enter rfl rfl rfl rfl (c := .monitorTail) rfl (by simp) hst (by simp)
        (enterClose_spec (ClosePre.of_inv a b hst (c := .monitorTail) rfl) rfl)

/-- `login()` of user task `a` resumes after its receive -/
theorem loginResume_U {s : St} {sd lo : Prop} (a : InvA cfg s) (b : InvB s) (w : InvW s) (tt : InvT cfg sd lo s)
    (i : InvU cfg u can lg sp sp2 s) (x : Nat)
    (hst : s.status (.U x) = .ready) (hp : s.prog (.U x) = .loginWait x)
    (hsp : sp → ¬ AcceptCond s (.run (.U x)) u) : InvU cfg u can lg sp sp2 (loginResume cfg s (.U x) x) := by
  have hal : alive (s.status (.U x)) = true := by rw [hst]; rfl
  have hrx : rcving s x := ⟨hal, Or.inl hp⟩
  have p : ClosePre s (.U x) := ClosePre.of_inv a b hst (c := .userTail x .refused) rfl
  by_cases hxu : x = u
  · -- `u` itself
    subst hxu
    unfold loginResume
    split
    · rename_i n hv
      simp only
      split
      · rename_i hacc
        simp only [St.emit, Bool.and_eq_true, decide_eq_true_eq, Bool.not_eq_true', Bool.or_eq_false_iff] at hacc
        obtain ⟨hn, hopen, hct⟩ := hacc
        subst hn
        obtain ⟨f1, f2, _, _, _, f6, _, f8, _⟩ := startDispatching_frame
          ((({ s with vres := none, rcvBusy := false, gone := s.gone ++ [(0, true)] } : St).emit (.loginReply 0)).startHeartbeats) cfg
        exact i.accept a w tt hst hp hopen (fun h => hsp h ⟨rfl, hst, hp, hv, hopen, hct⟩) f6 (f1 _ (by simp)).2 f8 f2
          (f1 .L (by simp)).1 (f1 .M (by simp)).1
      · have i1 : InvU cfg x can lg sp sp2 (s.emit (.loginReply n)) := by iu i
        exact i1.enter (s := ({ s with vres := none, rcvBusy := false, gone := _ } : St).emit (.loginReply _)) rfl rfl rfl rfl
          (c := .userTail x .refused) rfl (by intro r e; injection e with _ e; exact Or.inl e.symm) hst (by intro _; show s.prog _ ≠ _; rw [hp]; simp)
          (enterClose_spec (p.same rfl rfl rfl) rfl)
    · rename_i hv
      split
      · rename_i hq
        exact i.self_refused b hal (w.qc hq) (s1 := ({ s with rcvBusy := false } : St).emit (.ret x .refused)) rfl rfl
      · rename_i hq
        have hcan : can := (i.noreply hst hp hv).resolve_left hq
        exact i.enter (s := ({ s with rcvBusy := false } : St)) rfl rfl rfl rfl
          (c := .userTail x .cancelled) rfl (by intro r e; injection e with _ e; exact Or.inr ⟨e.symm, hcan⟩) hst
          (by intro _; show s.prog _ ≠ _; rw [hp]; simp) (enterClose_spec (p.same rfl rfl rfl) rfl)
  · -- another user
    have hnr := not_resuming (u := u) w hrx hxu
    have hne : Tid.U x ≠ Tid.U u := by intro e; injection e with e; exact hxu e
    have hcx : ∀ (r0 : CRes) r, Cont.userTail x r0 = .userTail u r → r = .refused ∨ (r = .cancelled ∧ can) := by
      intro r0 r e; injection e with e _; exact absurd e hxu
    unfold loginResume
    split
    · rename_i n hv
      have i1 : InvU cfg u can lg sp sp2 (({ s with vres := none, rcvBusy := false, gone := s.gone ++ [(n, true)] } : St).emit (.loginReply n)) :=
        i.ext [.loginReply n] rfl (uboring_one (by simp)) rfl rfl rfl id id id (fun _ h => Or.inl h) id
          (fun h1 h2 _ => absurd ⟨h1, h2⟩ hnr)
      simp only
      split
      · obtain ⟨f1, f2, f3, _, f5, f6, _, f8, _⟩ := startDispatching_frame
          ((({ s with vres := none, rcvBusy := false, gone := s.gone ++ [(n, true)] } : St).emit (.loginReply n)).startHeartbeats) cfg
        have i2 := i1.startHeartbeats
        have i3 : InvU cfg u can lg sp sp2 ((((({ s with vres := none, rcvBusy := false, gone := s.gone ++ [(n, true)] } : St).emit
            (.loginReply n)).startHeartbeats).startDispatching cfg).emit (.ret x .ok)) :=
          i2.ext [.ret x .ok] (by show _ ++ [_] = _ ++ [_]; rw [f6]) (uboring_one (ret_ne hxu _)) (f1 _ (by simp)).2 (f1 _ (by simp)).1
            (by show contOf (St.startDispatching _ cfg).cstage = _; rw [f8]) (by show _ → (St.startDispatching _ cfg).closed = true; rw [f2]; exact id)
            (by show (St.startDispatching _ cfg).status .L = _ → _; rw [(f1 .L (by simp)).1]; exact id)
            (by show (St.startDispatching _ cfg).status .M = _ → _; rw [(f1 .M (by simp)).1]; exact id)
            (by intro _ h; left; have h' : (St.startDispatching _ cfg).status .V = .cancelled := h; rw [(f1 .V (by simp)).1] at h'; exact h')
            (by show _ → (St.startDispatching _ cfg).qClosed = true; rw [f3]; exact id)
            (by intro _ _ h; have h' : (St.startDispatching _ cfg).vres = none := h; rw [f5] at h'; exact h')
        refine i3.finish hne ?_ (by intro e; simp at e)
        intro h
        have h' : (St.startDispatching _ cfg).status (.U u) = .waitT (.U x) := h
        rw [(f1 _ (by simp)).1] at h'
        have := waits_of_invB b (show s.status (.U u) = .waitT (.U x) from h')
        rcases this with h'' | h''
        · exact Or.inl h''
        · right; show (St.startDispatching _ cfg).prog (.U u) = _; rw [(f1 _ (by simp)).2]; exact h''
      · exact i1.enter rfl rfl rfl rfl (c := .userTail x .refused) rfl (hcx _) hst (by intro e; exact absurd e hne) (enterClose_spec (p.same rfl rfl rfl) rfl)
    · split
      · exact i.other_leave' b hxu _
      · exact i.enter (s := ({ s with rcvBusy := false } : St)) rfl rfl rfl rfl (c := .userTail x .cancelled) rfl (hcx _) hst
          (by intro e; exact absurd e hne) (enterClose_spec (p.same rfl rfl rfl) rfl)

end NasdaqModel.Sess
