import NasdaqModel.Model.SyncFacade
/-
Lemmas about the C20 transition system: list update algebra, induction over runs, the basic invariant
(global flags as a function of the close procedure's program counter, lock discipline, pc/job consistency).
-/
namespace NasdaqModel.SyncFacade

/-! ### `updAt` -/

@[simp] theorem length_updAt (l : List Caller) (i : Nat) (f : Caller → Caller) : (updAt l i f).length = l.length := by
  induction l generalizing i with
  | nil => simp [updAt]
  | cons c cs ih => cases i <;> simp [updAt, ih]

theorem getElem?_updAt (l : List Caller) (i j : Nat) (f : Caller → Caller) :
    (updAt l i f)[j]? = if j = i then (l[j]?).map f else l[j]? := by
  induction l generalizing i j with
  | nil => simp [updAt]
  | cons c cs ih =>
    cases i with
    | zero => cases j <;> simp [updAt]
    | succ i => cases j <;> simp [updAt, ih]

theorem getElem?_updAt_self (l : List Caller) (i : Nat) (f : Caller → Caller) :
    (updAt l i f)[i]? = (l[i]?).map f := by simp [getElem?_updAt]

theorem getElem?_updAt_ne (l : List Caller) {i j : Nat} (f : Caller → Caller) (h : j ≠ i) :
    (updAt l i f)[j]? = l[j]? := by simp [getElem?_updAt, h]

/-! ### runs -/

/-- the states reachable from the initial state of a configuration -/
def Reachable (cfg : Cfg) (s : St) : Prop := ∃ ls, exec (init cfg) ls = some s

theorem exec_cons (s : St) (l : Label) (ls : List Label) :
    exec s (l :: ls) = (step s l).bind fun s' => exec s' ls := by
  simp only [exec]; cases step s l <;> rfl

theorem exec_append (s : St) (xs ys : List Label) :
    exec s (xs ++ ys) = (exec s xs).bind fun s' => exec s' ys := by
  induction xs generalizing s with
  | nil => simp [exec]
  | cons l ls ih =>
    simp only [List.cons_append, exec]
    cases step s l with
    | none => simp
    | some s' => simp [ih]

/-- invariants are proved per step and lifted over runs -/
theorem exec_invariant (P : St → Prop) (hstep : ∀ s l s', P s → step s l = some s' → P s') :
    ∀ ls s0 s, P s0 → exec s0 ls = some s → P s := by
  intro ls
  induction ls with
  | nil => intro s0 s h0 h; simp [exec] at h; exact h ▸ h0
  | cons l ls ih =>
    intro s0 s h0 h
    simp only [exec] at h
    cases hs : step s0 l with
    | none => simp [hs] at h
    | some s1 => simp only [hs] at h; exact ih s1 s (hstep s0 l s1 h0 hs) h

theorem reachable_invariant (P : St → Prop) (cfg : Cfg) (h0 : P (init cfg))
    (hstep : ∀ s l s', P s → step s l = some s' → P s') : ∀ s, Reachable cfg s → P s := by
  intro s ⟨ls, h⟩
  exact exec_invariant P hstep ls _ s h0 h

theorem execOk_exec {s s' : St} {ls : List Label} (h : execOk s ls = some s') : exec s ls = some s' := by
  induction ls generalizing s with
  | nil => simpa [execOk, exec] using h
  | cons l ls ih =>
    simp only [execOk] at h
    split at h
    · cases hs : step s l with
      | none => simp [hs] at h
      | some s1 => simp only [hs] at h; simp [exec, hs, ih h]
    · simp at h

/-- invariants along runs that stay outside the excluded region -/
theorem execOk_invariant (P : St → Prop)
    (hstep : ∀ s l s', P s → okStep s l = true → step s l = some s' → P s') :
    ∀ ls s0 s, P s0 → execOk s0 ls = some s → P s := by
  intro ls
  induction ls with
  | nil => intro s0 s h0 h; simp [execOk] at h; exact h ▸ h0
  | cons l ls ih =>
    intro s0 s h0 h
    simp only [execOk] at h
    split at h
    · rename_i hok
      cases hs : step s0 l with
      | none => simp [hs] at h
      | some s1 => simp only [hs] at h; exact ih s1 s (hstep s0 l s1 h0 hok hs) h
    · simp at h

/-! ### shape of the steps -/

/-- the fields of a caller that only the caller itself changes -/
def Caller.own (c : Caller) : List Op × Pc × List (Op × Outcome) := (c.prog, c.pc, c.hist)

@[simp] theorem own_setJob (j : Job) (c : Caller) : (setJob j c).own = c.own := rfl
@[simp] theorem own_resolveBlocked (o : Outcome) (c : Caller) : (resolveBlocked o c).own = c.own := by
  unfold resolveBlocked; split <;> rfl

theorem stepCaller_spec {s s' : St} {i : Nat} (h : stepCaller s i = some s') :
    ∃ c c' lk, s.callers[i]? = some c ∧ callerStep s.lock s.closedEvent s.loopAlive i c = some (c', lk) ∧
      s' = { s with callers := updAt s.callers i (fun _ => c'), lock := lk } := by
  unfold stepCaller at h
  split at h
  · simp at h
  · rename_i c hc
    split at h
    · simp at h
    · rename_i c' lk hcs
      exact ⟨c, c', lk, hc, hcs, by simpa using h.symm⟩

end NasdaqModel.SyncFacade
