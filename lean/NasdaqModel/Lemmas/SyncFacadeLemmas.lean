import NasdaqModel.Model.SyncFacade
/-
Lemmas about the C20 transition system: list update algebra, induction over runs, the basic invariant
(global flags as a function of the close procedure's program counter, lock discipline, pc/job consistency).
-/
namespace NasdaqModel.SyncFacade

/-! ### `updAt` -/

@[simp] theorem length_updAt (l : List Caller) (i : Nat) (f : Caller → Caller) : (updAt l i f).length = l.length := by
  induction l generalizing i with
  | nil => simp [updAt]
  | cons c cs ih => cases i <;> simp [updAt, ih]

theorem getElem?_updAt (l : List Caller) (i j : Nat) (f : Caller → Caller) :
    (updAt l i f)[j]? = if j = i then (l[j]?).map f else l[j]? := by
  induction l generalizing i j with
  | nil => simp [updAt]
  | cons c cs ih =>
    cases i with
    | zero => cases j <;> simp [updAt]
    | succ i => cases j <;> simp [updAt, ih]

theorem getElem?_updAt_self (l : List Caller) (i : Nat) (f : Caller → Caller) :
    (updAt l i f)[i]? = (l[i]?).map f := by simp [getElem?_updAt]

theorem getElem?_updAt_ne (l : List Caller) {i j : Nat} (f : Caller → Caller) (h : j ≠ i) :
    (updAt l i f)[j]? = l[j]? := by simp [getElem?_updAt, h]

/-! ### runs -/

/-- the states reachable from the initial state of a configuration -/
def Reachable (cfg : Cfg) (s : St) : Prop := ∃ ls, exec (init cfg) ls = some s

theorem exec_cons (s : St) (l : Label) (ls : List Label) :
    exec s (l :: ls) = (step s l).bind fun s' => exec s' ls := by
  simp only [exec]; cases step s l <;> rfl

theorem exec_append (s : St) (xs ys : List Label) :
    exec s (xs ++ ys) = (exec s xs).bind fun s' => exec s' ys := by
  induction xs generalizing s with
  | nil => simp [exec]
  | cons l ls ih =>
    simp only [List.cons_append, exec]
    cases step s l with
    | none => simp
    | some s' => simp [ih]

/-- invariants are proved per step and lifted over runs -/
theorem exec_invariant (P : St → Prop) (hstep : ∀ s l s', P s → step s l = some s' → P s') :
    ∀ ls s0 s, P s0 → exec s0 ls = some s → P s := by
  intro ls
  induction ls with
  | nil => intro s0 s h0 h; simp [exec] at h; exact h ▸ h0
  | cons l ls ih =>
    intro s0 s h0 h
    simp only [exec] at h
    cases hs : step s0 l with
    | none => simp [hs] at h
    | some s1 => simp only [hs] at h; exact ih s1 s (hstep s0 l s1 h0 hs) h

theorem reachable_invariant (P : St → Prop) (cfg : Cfg) (h0 : P (init cfg))
    (hstep : ∀ s l s', P s → step s l = some s' → P s') : ∀ s, Reachable cfg s → P s := by
  intro s ⟨ls, h⟩
  exact exec_invariant P hstep ls _ s h0 h

theorem execOk_exec {s s' : St} {ls : List Label} (h : execOk s ls = some s') : exec s ls = some s' := by
  induction ls generalizing s with
  | nil => simpa [execOk, exec] using h
  | cons l ls ih =>
    simp only [execOk] at h
    split at h
    · cases hs : step s l with
      | none => simp [hs] at h
      | some s1 => simp only [hs] at h; simp [exec, hs, ih h]
    · simp at h

/-- invariants along runs that stay outside the excluded region -/
theorem execOk_invariant (P : St → Prop)
    (hstep : ∀ s l s', P s → okStep s l = true → step s l = some s' → P s') :
    ∀ ls s0 s, P s0 → execOk s0 ls = some s → P s := by
  intro ls
  induction ls with
  | nil => intro s0 s h0 h; simp [execOk] at h; exact h ▸ h0
  | cons l ls ih =>
    intro s0 s h0 h
    simp only [execOk] at h
    split at h
    · rename_i hok
      cases hs : step s0 l with
      | none => simp [hs] at h
      | some s1 => simp only [hs] at h; exact ih s1 s (hstep s0 l s1 h0 hok hs) h
    · simp at h

/-! ### shape of the steps -/

/-- the fields of a caller that only the caller itself changes -/
def Caller.own (c : Caller) : List Op × Pc × List (Op × Outcome) := (c.prog, c.pc, c.hist)

@[simp] theorem own_setJob (j : Job) (c : Caller) : (setJob j c).own = c.own := rfl
@[simp] theorem own_resolveBlocked (o : Outcome) (c : Caller) : (resolveBlocked o c).own = c.own := by
  unfold resolveBlocked; split <;> rfl

theorem stepCaller_spec {s s' : St} {i : Nat} (h : stepCaller s i = some s') :
    ∃ c c' lk, s.callers[i]? = some c ∧ callerStep s.lock s.closedEvent s.loopAlive i c = some (c', lk) ∧
      s' = { s with callers := updAt s.callers i (fun _ => c'), lock := lk } := by
  unfold stepCaller at h
  split at h
  · simp at h
  · rename_i c hc
    split at h
    · simp at h
    · rename_i c' lk hcs
      exact ⟨c, c', lk, hc, hcs, by simpa using h.symm⟩

/-! ### the basic invariant -/

/-- the caller is between acquiring and releasing `close_lock` -/
def critPc (c : Caller) : Bool :=
  match c.pc with
  | .chkEvt | .rel => true
  | .chk1 | .chk2 | .submit | .wait =>
    match c.prog with
    | op :: _ => op.isClose
    | [] => false
  | _ => false

/-- the program counter is one the current call can be at -/
def pcOk (c : Caller) : Bool :=
  match c.prog with
  | [] => c.pc == .idle
  | op :: _ =>
    match c.pc with
    | .idle => true
    | .acq | .chkEvt | .rel | .waitEvt | .join => op.isClose
    | .chk1 => op == .send || op == .sendUnseq || op.isClose
    | .chk2 | .submit | .wait => true

/-- a future exists exactly while the caller is at `future.result()` -/
def jobOk (c : Caller) : Bool :=
  match c.pc with
  | .wait => c.job != .none
  | _ => c.job == .none

/-- flags of the executor / facade as a function of where the close procedure stands -/
def ginv (s : St) : Bool :=
  s.lock != some .loop &&
  match s.closePc with
  | .idle | .spawned | .begun | .inCb => !s.stopReq && !s.closedEvent && s.loopAlive
  | .stopCalled => s.stopReq && !s.closedEvent && s.loopAlive
  | .done => s.stopReq && s.closedEvent

def cinv (lock : Option Tid) (i : Nat) (c : Caller) : Prop :=
  pcOk c = true ∧ jobOk c = true ∧ (critPc c = true ↔ lock = some (.caller i))

def Inv1 (s : St) : Prop :=
  ginv s = true ∧ ∀ i c, s.callers[i]? = some c → cinv s.lock i c

/-- what a caller step does to the lock -/
inductive LockEff (lock : Option Tid) (i : Nat) : Option Tid → Prop
  | same : LockEff lock i lock
  | acq : lock = none → LockEff lock i (some (.caller i))
  | rel : lock = some (.caller i) → LockEff lock i none

theorem callerStep_cinv {lock : Option Tid} {evt alive : Bool} {i : Nat} {c c' : Caller} {lk : Option Tid}
    (hc : cinv lock i c) (h : callerStep lock evt alive i c = some (c', lk)) :
    cinv lk i c' ∧ LockEff lock i lk := by
  obtain ⟨h1, h2, h3⟩ := hc
  unfold callerStep at h
  rcases c with ⟨prog, pc, job, hist⟩
  cases prog with
  | nil => simp at h
  | cons op rest =>
    cases pc <;> cases op <;> simp only [] at h <;> (repeat' (split at h)) <;>
      first
      | (simp only [reduceCtorEq] at h; done)
      | (simp only [Option.some.injEq, Prod.mk.injEq] at h
         obtain ⟨rfl, rfl⟩ := h
         refine ⟨?_, ?_⟩
         · simp_all [cinv, pcOk, jobOk, critPc, finish, Op.isClose] <;> (try (cases rest <;> simp))
         · first
           | exact LockEff.same
           | exact LockEff.acq (by simp_all)
           | exact LockEff.rel (by simp_all [critPc, Op.isClose]))

theorem forall_updAt {P : Nat → Caller → Prop} (l : List Caller) (k : Nat) (f : Caller → Caller)
    (hP : ∀ i c, i ≠ k → l[i]? = some c → P i c) (hk : ∀ c, l[k]? = some c → P k (f c)) :
    ∀ i c, (updAt l k f)[i]? = some c → P i c := by
  intro i c h
  rw [getElem?_updAt] at h
  split at h
  · subst i
    cases hl : l[k]? with
    | none => simp [hl] at h
    | some c0 => simp [hl] at h; exact h ▸ hk c0 hl
  · rename_i hne; exact hP i c hne h

theorem cinv_jobUpd {lock : Option Tid} {i : Nat} {c c' : Caller} (h : cinv lock i c)
    (ho : c'.own = c.own) (hj : c'.job = .none ↔ c.job = .none) : cinv lock i c' := by
  rcases c with ⟨p, pc, j, hi⟩
  rcases c' with ⟨p', pc', j', hi'⟩
  simp only [Caller.own, Prod.mk.injEq] at ho
  obtain ⟨rfl, rfl, rfl⟩ := ho
  simp only at hj
  obtain ⟨h1, h2, h3⟩ := h
  refine ⟨h1, ?_, h3⟩
  revert h2
  cases pc' <;> simp [jobOk, hj]

theorem cinv_setJob {lock : Option Tid} {i : Nat} {c : Caller} {j : Job} (h : cinv lock i c)
    (hc : c.job ≠ .none) (hj : j ≠ .none) : cinv lock i (setJob j c) :=
  cinv_jobUpd h rfl (by simp [setJob, hc, hj])

theorem cinv_resolveBlocked {lock : Option Tid} {i : Nat} {c : Caller} {o : Outcome} (h : cinv lock i c) :
    cinv lock i (resolveBlocked o c) := by
  apply cinv_jobUpd h (own_resolveBlocked o c)
  unfold resolveBlocked
  split <;> simp_all

theorem cinv_lock_irrelevant {lock lock' : Option Tid} {i : Nat} {c : Caller} (h : cinv lock i c)
    (hl : lock = some (.caller i) ↔ lock' = some (.caller i)) : cinv lock' i c :=
  ⟨h.1, h.2.1, h.2.2.trans hl⟩

theorem minBlocked_some {cs : List Caller} {h t : Nat} (hm : minBlocked cs = some (h, t)) :
    ∃ c, cs[h]? = some c ∧ c.job = .blocked t := by
  induction cs generalizing h t with
  | nil => simp [minBlocked] at hm
  | cons c cs ih =>
    unfold minBlocked at hm
    split at hm
    · rename_i t0 j t' hj hr
      split at hm
      · simp only [Option.some.injEq, Prod.mk.injEq] at hm
        obtain ⟨rfl, rfl⟩ := hm
        exact ⟨c, by simp, hj⟩
      · simp only [Option.some.injEq, Prod.mk.injEq] at hm
        obtain ⟨rfl, rfl⟩ := hm
        obtain ⟨c1, h1, h2⟩ := ih hr
        exact ⟨c1, by simpa using h1, h2⟩
    · rename_i t0 hj hr
      simp only [Option.some.injEq, Prod.mk.injEq] at hm
      obtain ⟨rfl, rfl⟩ := hm
      exact ⟨c, by simp, hj⟩
    · rename_i j t' hr _
      simp only [Option.some.injEq, Prod.mk.injEq] at hm
      obtain ⟨rfl, rfl⟩ := hm
      obtain ⟨c1, h1, h2⟩ := ih hr
      exact ⟨c1, by simpa using h1, h2⟩
    · simp at hm

theorem minBlocked_none {cs : List Caller} (hm : minBlocked cs = none) :
    ∀ (i : Nat) (c : Caller), cs[i]? = some c → ∀ t : Nat, c.job ≠ Job.blocked t := by
  induction cs with
  | nil => simp
  | cons c cs ih =>
    unfold minBlocked at hm
    split at hm
    · split at hm <;> simp at hm
    · simp at hm
    · simp at hm
    · rename_i hr hnb
      intro i c1 hi t
      cases i with
      | zero =>
        simp at hi; subst hi
        intro hb
        exact hnb t hb
      | succ i => exact ih hr i c1 (by simpa using hi) t

/-! ### preservation of the basic invariant -/

theorem ginv_lockEff {s : St} {i : Nat} {lk : Option Tid} {cs : List Caller} (hg : ginv s = true)
    (he : LockEff s.lock i lk) : ginv { s with callers := cs, lock := lk } = true := by
  cases he with
  | same => simpa [ginv] using hg
  | acq h => revert hg; simp only [ginv]; cases s.closePc <;> simp_all
  | rel h => revert hg; simp only [ginv]; cases s.closePc <;> simp_all

theorem cinv_other_lockEff {lock lk : Option Tid} {i j : Nat} {c : Caller} (hne : j ≠ i)
    (hc : cinv lock j c) (he : LockEff lock i lk) : cinv lk j c := by
  cases he with
  | same => exact hc
  | acq h => exact cinv_lock_irrelevant hc (by subst h; simp; exact fun e => hne e.symm)
  | rel h => exact cinv_lock_irrelevant hc (by subst h; simp; exact fun e => hne e.symm)

theorem inv1_stepCaller {s s' : St} {i : Nat} (hI : Inv1 s) (h : stepCaller s i = some s') : Inv1 s' := by
  obtain ⟨c, c', lk, hc, hcs, rfl⟩ := stepCaller_spec h
  obtain ⟨hg, hcall⟩ := hI
  obtain ⟨hc', he⟩ := callerStep_cinv (hcall i c hc) hcs
  refine ⟨ginv_lockEff hg he, ?_⟩
  simp only
  apply forall_updAt (P := fun j cj => cinv lk j cj)
  · intro j cj hne hj
    exact cinv_other_lockEff hne (hcall j cj hj) he
  · intro _ _; exact hc'

theorem ginv_callers {s : St} {cs : List Caller} (hg : ginv s = true) : ginv { s with callers := cs } = true := by
  simpa [ginv] using hg

theorem inv1_stepJob {s s' : St} {i : Nat} (hI : Inv1 s) (h : stepJob s i = some s') : Inv1 s' := by
  obtain ⟨hg, hcall⟩ := hI
  unfold stepJob at h
  split at h
  · split at h
    · simp at h
    · rename_i c hc
      have hci := hcall i c hc
      split at h
      · -- recv
        rename_i hjob
        split at h
        · simp only [Option.some.injEq] at h; subst h
          refine ⟨by simpa [ginv] using hg, ?_⟩
          apply forall_updAt (P := fun j cj => cinv s.lock j cj)
          · intro j cj _ hj; exact hcall j cj hj
          · intro c0 hc0; rw [hc] at hc0; cases hc0; exact cinv_setJob hci (by simp [hjob]) (by simp)
        · split at h
          · simp only [Option.some.injEq] at h; subst h
            refine ⟨by simpa [ginv] using hg, ?_⟩
            apply forall_updAt (P := fun j cj => cinv s.lock j cj)
            · intro j cj _ hj; exact hcall j cj hj
            · intro c0 hc0; rw [hc] at hc0; cases hc0; exact cinv_setJob hci (by simp [hjob]) (by simp)
          · simp only [Option.some.injEq] at h; subst h
            refine ⟨by simpa [ginv] using hg, ?_⟩
            apply forall_updAt (P := fun j cj => cinv s.lock j cj)
            · intro j cj _ hj; exact hcall j cj hj
            · intro c0 hc0; rw [hc] at hc0; cases hc0; exact cinv_setJob hci (by simp [hjob]) (by simp)
      · rename_i hjob
        simp only [Option.some.injEq] at h; subst h
        refine ⟨by simpa [ginv] using hg, ?_⟩
        apply forall_updAt (P := fun j cj => cinv s.lock j cj)
        · intro j cj _ hj; exact hcall j cj hj
        · intro c0 hc0; rw [hc] at hc0; cases hc0; exact cinv_setJob hci (by simp [hjob]) (by simp)
      · rename_i hjob
        simp only [Option.some.injEq] at h; subst h
        refine ⟨by revert hg; simp only [ginv, ClosePc.initiate]; cases s.closePc <;> simp, ?_⟩
        apply forall_updAt (P := fun j cj => cinv s.lock j cj)
        · intro j cj _ hj; exact hcall j cj hj
        · intro c0 hc0; rw [hc] at hc0; cases hc0; exact cinv_setJob hci (by simp [hjob]) (by simp)
      · rename_i hjob
        simp only [Option.some.injEq] at h; subst h
        refine ⟨by revert hg; simp only [ginv, ClosePc.initiate]; cases s.closePc <;> simp, ?_⟩
        apply forall_updAt (P := fun j cj => cinv s.lock j cj)
        · intro j cj _ hj; exact hcall j cj hj
        · intro c0 hc0; rw [hc] at hc0; cases hc0; exact cinv_setJob hci (by simp [hjob]) (by simp)
      · rename_i hjob
        simp only [Option.some.injEq] at h; subst h
        refine ⟨by simpa [ginv] using hg, ?_⟩
        apply forall_updAt (P := fun j cj => cinv s.lock j cj)
        · intro j cj _ hj; exact hcall j cj hj
        · intro c0 hc0; rw [hc] at hc0; cases hc0; exact cinv_setJob hci (by simp [hjob]) (by simp)
      · simp at h
  · simp at h

/-! ### what the loop thread can do to a caller record: only its future changes, and a future never appears or disappears -/

/-- what running a submitted coroutine of kind `k` can leave in the future -/
def JobRes : JobKind → Job → Prop
  | .recv, j => (∃ t, j = .blocked t) ∨ (∃ o, j = .done o)
  | .send, j => j = .done .ok
  | .initClose, j => j = .done .ok
  | .logout, j => j = .done .ok
  | .slow, j => j = .running

theorem JobRes.ne_none {k : JobKind} {j : Job} (h : JobRes k j) : j ≠ .none := by
  cases k <;> simp only [JobRes] at h
  · rcases h with ⟨t, rfl⟩ | ⟨o, rfl⟩ <;> simp
  all_goals (subst h; simp)

/-- `r` = the step may run submitted coroutines (only `Label.job` does) -/
def JobUpd (r : Bool) (c c' : Caller) : Prop :=
  c'.own = c.own ∧
    (c'.job = c.job ∨ (∃ t o, c.job = .blocked t ∧ c'.job = .done o) ∨
      (r = true ∧ ∃ k, c.job = .submitted k ∧ JobRes k c'.job))

theorem JobUpd.refl (r : Bool) (c : Caller) : JobUpd r c c := ⟨rfl, Or.inl rfl⟩

theorem JobUpd.trans {r : Bool} {a b c : Caller} (h1 : JobUpd r a b) (h2 : JobUpd r b c) : JobUpd r a c := by
  refine ⟨h2.1.trans h1.1, ?_⟩
  rcases h1.2 with e1 | ⟨t, o, hb, hd⟩ | ⟨hr1, k, hs, hr⟩
  · have := h2.2; rw [e1] at this; exact this
  · rcases h2.2 with e2 | ⟨t2, o2, hb2, _⟩ | ⟨_, k2, hs2, _⟩
    · exact Or.inr (Or.inl ⟨t, o, hb, e2.trans hd⟩)
    · rw [hd] at hb2; simp at hb2
    · rw [hd] at hs2; simp at hs2
  · rcases h2.2 with e2 | ⟨t2, o2, hb2, hd2⟩ | ⟨_, k2, hs2, _⟩
    · exact Or.inr (Or.inr ⟨hr1, k, hs, e2 ▸ hr⟩)
    · refine Or.inr (Or.inr ⟨hr1, k, hs, ?_⟩)
      cases k <;> simp only [JobRes] at hr
      · simp only [JobRes]; exact Or.inr ⟨o2, hd2⟩
      all_goals (rw [hr] at hb2; simp at hb2)
    · exfalso
      cases k <;> simp only [JobRes] at hr
      · rcases hr with ⟨t, ht⟩ | ⟨o, ho⟩
        · rw [ht] at hs2; simp at hs2
        · rw [ho] at hs2; simp at hs2
      all_goals (rw [hr] at hs2; simp at hs2)

theorem JobUpd.none_iff {r : Bool} {c c' : Caller} (h : JobUpd r c c') : c'.job = .none ↔ c.job = .none := by
  rcases h.2 with e | ⟨t, o, hb, hd⟩ | ⟨_, k, hs, hr⟩
  · rw [e]
  · simp [hb, hd]
  · simp [hs, hr.ne_none]

theorem jobUpd_run {c : Caller} {k : JobKind} {j : Job} (hc : c.job = .submitted k) (hr : JobRes k j) :
    JobUpd true c (setJob j c) := ⟨rfl, Or.inr (Or.inr ⟨rfl, k, hc, hr⟩)⟩

theorem jobUpd_wake {r : Bool} {c : Caller} {t : Nat} {o : Outcome} (hc : c.job = .blocked t) :
    JobUpd r c (setJob (.done o) c) := ⟨rfl, Or.inr (Or.inl ⟨t, o, hc, rfl⟩)⟩

theorem jobUpd_resolveBlocked (r : Bool) (o : Outcome) (c : Caller) : JobUpd r c (resolveBlocked o c) := by
  refine ⟨own_resolveBlocked o c, ?_⟩
  unfold resolveBlocked
  split
  · rename_i t ht; exact Or.inr (Or.inl ⟨t, o, ht, rfl⟩)
  · exact Or.inl rfl

/-- pointwise relation between the caller lists of two states -/
def CallersUpd (r : Bool) (l l' : List Caller) : Prop :=
  ∀ (j : Nat) (c' : Caller), l'[j]? = some c' → ∃ c : Caller, l[j]? = some c ∧ JobUpd r c c'

theorem CallersUpd.refl (r : Bool) (l : List Caller) : CallersUpd r l l := by
  intro _ c' h; exact ⟨c', h, JobUpd.refl r c'⟩

theorem CallersUpd.trans {r : Bool} {a b c : List Caller} (h1 : CallersUpd r a b) (h2 : CallersUpd r b c) :
    CallersUpd r a c := by
  unfold CallersUpd; intro j c'' h
  obtain ⟨c', hc', u2⟩ := h2 j c'' h
  obtain ⟨c0, hc0, u1⟩ := h1 j c' hc'
  exact ⟨c0, hc0, u1.trans u2⟩

theorem callersUpd_updAt (r : Bool) (l : List Caller) (k : Nat) (f : Caller → Caller)
    (hk : ∀ c, l[k]? = some c → JobUpd r c (f c)) : CallersUpd r l (updAt l k f) := by
  unfold CallersUpd; intro j c' h
  rw [getElem?_updAt] at h
  split at h
  · subst j
    cases hl : l[k]? with
    | none => simp [hl] at h
    | some c0 => simp [hl] at h; exact ⟨c0, rfl, h ▸ hk c0 hl⟩
  · exact ⟨c', h, JobUpd.refl r c'⟩

theorem stepJob_callers {s s' : St} {i : Nat} (h : stepJob s i = some s') : CallersUpd true s.callers s'.callers := by
  unfold stepJob at h
  split at h
  · split at h
    · simp at h
    · rename_i c hc
      have key : ∀ (k : JobKind) (j : Job), c.job = .submitted k → JobRes k j →
          CallersUpd true s.callers (updAt s.callers i (setJob j)) := by
        intro k j hcj hj
        apply callersUpd_updAt
        intro c0 hc0; rw [hc] at hc0; cases hc0; exact jobUpd_run hcj hj
      split at h
      · rename_i hjob
        split at h
        · simp only [Option.some.injEq] at h; subst h; exact key _ _ hjob (by simp [JobRes])
        · split at h <;> (simp only [Option.some.injEq] at h; subst h; exact key _ _ hjob (by simp [JobRes]))
      all_goals first
        | (rename_i hjob; simp only [Option.some.injEq] at h; subst h; exact key _ _ hjob (by simp [JobRes]))
        | simp at h
  · simp at h

theorem stepClose_callers {s s' : St} (h : stepClose s = some s') : CallersUpd false s.callers s'.callers := by
  unfold stepClose at h
  split at h
  · simp at h
  · split at h
    · simp at h
    · simp only [Option.some.injEq] at h; subst h
      simp only
      split
      · exact callersUpd_updAt _ _ _ _ (fun c _ => jobUpd_resolveBlocked _ _ c)
      · exact CallersUpd.refl _ _
  all_goals first
    | (simp only [Option.some.injEq] at h; subst h; exact CallersUpd.refl _ _)
    | (split at h <;> first | (simp only [Option.some.injEq] at h; subst h; exact CallersUpd.refl _ _) | simp at h)
    | simp at h

theorem stepStop_callers {s s' : St} (h : stepStop s = some s') : CallersUpd false s.callers s'.callers := by
  unfold stepStop at h
  split at h
  · simp only [Option.some.injEq] at h; subst h; exact CallersUpd.refl _ _
  · simp at h

theorem stepPeer_callers {s s' : St} (h : stepPeer s = some s') : CallersUpd false s.callers s'.callers := by
  unfold stepPeer at h
  split at h
  · simp at h
  · rename_i ev rest hp
    split at h
    · simp at h
    · split at h
      · simp only [Option.some.injEq] at h; subst h; exact CallersUpd.refl _ _
      · split at h
        · split at h
          · simp only [Option.some.injEq] at h; subst h; exact CallersUpd.refl _ _
          · split at h
            · rename_i hh t hm
              simp only [Option.some.injEq] at h; subst h
              simp only
              obtain ⟨ch, hch, hjb⟩ := minBlocked_some hm
              have u1 : CallersUpd false s.callers (updAt s.callers hh (setJob (.done .msg))) := by
                apply callersUpd_updAt
                intro c0 hc0; rw [hch] at hc0; cases hc0; exact jobUpd_wake hjb
              split
              · split
                · exact u1
                · exact u1.trans (callersUpd_updAt _ _ _ _ (fun c _ => jobUpd_resolveBlocked _ _ c))
              · exact u1
            · simp only [Option.some.injEq] at h; subst h; exact CallersUpd.refl _ _
        · simp only [Option.some.injEq] at h; subst h; exact CallersUpd.refl _ _
        · simp only [Option.some.injEq] at h; subst h; exact CallersUpd.refl _ _

def LockIff (s s' : St) : Prop := ∀ j : Nat, s.lock = some (.caller j) ↔ s'.lock = some (.caller j)

theorem inv1_of_callersUpd {s s' : St} {r : Bool} (hI : Inv1 s) (hu : CallersUpd r s.callers s'.callers)
    (hg : ginv s' = true) (hl : LockIff s s') : Inv1 s' := by
  refine ⟨hg, ?_⟩
  intro j c' hc'
  obtain ⟨c, hc, u⟩ := hu j c' hc'
  exact cinv_lock_irrelevant (cinv_jobUpd (hI.2 j c hc) u.1 u.none_iff) (hl j)

theorem stepJob_glob {s s' : St} {i : Nat} (hg : ginv s = true) (h : stepJob s i = some s') :
    ginv s' = true ∧ LockIff s s' := by
  unfold stepJob at h
  split at h
  · split at h
    · simp at h
    · split at h
      · split at h
        · simp only [Option.some.injEq] at h; subst h; exact ⟨by simpa [ginv] using hg, fun _ => Iff.rfl⟩
        · split at h <;>
            (simp only [Option.some.injEq] at h; subst h; exact ⟨by simpa [ginv] using hg, fun _ => Iff.rfl⟩)
      all_goals first
        | (simp only [Option.some.injEq] at h; subst h
           exact ⟨by revert hg; simp only [ginv, ClosePc.initiate]; cases s.closePc <;> simp, fun _ => Iff.rfl⟩)
        | simp at h
  · simp at h

theorem stepClose_glob {s s' : St} (hg : ginv s = true) (h : stepClose s = some s') :
    ginv s' = true ∧ LockIff s s' := by
  unfold stepClose at h
  split at h <;> rename_i hpc <;> (repeat' split at h) <;>
    first
    | (simp at h; done)
    | (simp only [Option.some.injEq] at h; subst h
       refine ⟨?_, fun _ => Iff.rfl⟩
       revert hg; simp [ginv, hpc] <;> (intros; simp_all))

theorem stepStop_glob {s s' : St} (hg : ginv s = true) (h : stepStop s = some s') :
    ginv s' = true ∧ LockIff s s' := by
  unfold stepStop at h
  split at h
  · rename_i hc
    simp only [Option.some.injEq] at h; subst h
    refine ⟨?_, fun _ => Iff.rfl⟩
    revert hg hc; simp only [ginv, ClosePc.busy]; cases s.closePc <;> simp_all
  · simp at h

theorem stepPeer_glob {s s' : St} (hg : ginv s = true) (h : stepPeer s = some s') :
    ginv s' = true ∧ LockIff s s' := by
  unfold stepPeer at h
  split at h
  · simp at h
  · split at h
    · simp at h
    · split at h
      · simp only [Option.some.injEq] at h; subst h; exact ⟨by simpa [ginv] using hg, fun _ => Iff.rfl⟩
      · split at h
        · split at h
          · simp only [Option.some.injEq] at h; subst h; exact ⟨by simpa [ginv] using hg, fun _ => Iff.rfl⟩
          · split at h <;>
              (simp only [Option.some.injEq] at h; subst h; exact ⟨by simpa [ginv] using hg, fun _ => Iff.rfl⟩)
        all_goals
          (simp only [Option.some.injEq] at h; subst h
           exact ⟨by revert hg; simp only [ginv, ClosePc.initiate]; cases s.closePc <;> simp, fun _ => Iff.rfl⟩)

theorem inv1_step {s s' : St} {l : Label} (hI : Inv1 s) (h : step s l = some s') : Inv1 s' := by
  cases l with
  | caller i => exact inv1_stepCaller hI h
  | job i => exact inv1_of_callersUpd hI (stepJob_callers h) (stepJob_glob hI.1 h).1 (stepJob_glob hI.1 h).2
  | close => exact inv1_of_callersUpd hI (stepClose_callers h) (stepClose_glob hI.1 h).1 (stepClose_glob hI.1 h).2
  | stop => exact inv1_of_callersUpd hI (stepStop_callers h) (stepStop_glob hI.1 h).1 (stepStop_glob hI.1 h).2
  | peer => exact inv1_of_callersUpd hI (stepPeer_callers h) (stepPeer_glob hI.1 h).1 (stepPeer_glob hI.1 h).2

theorem inv1_init (cfg : Cfg) : Inv1 (init cfg) := by
  refine ⟨by simp [ginv, init], ?_⟩
  intro i c hc
  simp only [init, List.getElem?_map] at hc
  cases hp : cfg.progs[i]? with
  | none => simp [hp] at hc
  | some p =>
    simp [hp] at hc; subst hc
    cases p <;> simp [cinv, initCaller, pcOk, jobOk, critPc, init]

theorem inv1_reachable {cfg : Cfg} {s : St} (h : Reachable cfg s) : Inv1 s :=
  reachable_invariant Inv1 cfg (inv1_init cfg) (fun _ _ _ hI hs => inv1_step hI hs) s h

/-! ### monotone facts: the thread never comes back, the close procedure never goes back to `idle` -/

theorem initiate_ne_idle (p : ClosePc) : p.initiate ≠ .idle := by cases p <;> simp [ClosePc.initiate]

theorem step_mono {s s' : St} {l : Label} (h : step s l = some s') :
    (s.loopAlive = false → s'.loopAlive = false) ∧ (s.closePc ≠ .idle → s'.closePc ≠ .idle) := by
  cases l with
  | caller i => obtain ⟨c, c', lk, _, _, rfl⟩ := stepCaller_spec h; simp
  | job i =>
    simp only [step] at h; unfold stepJob at h
    (repeat' split at h) <;> first
      | (simp at h; done)
      | (simp only [Option.some.injEq] at h; subst h; simp_all [initiate_ne_idle])
  | close =>
    simp only [step] at h; unfold stepClose at h
    (repeat' split at h) <;> first
      | (simp at h; done)
      | (simp only [Option.some.injEq] at h; subst h; simp_all)
  | stop =>
    simp only [step] at h; unfold stepStop at h
    (repeat' split at h) <;> first
      | (simp at h; done)
      | (simp only [Option.some.injEq] at h; subst h; simp_all)
  | peer =>
    simp only [step] at h; unfold stepPeer at h
    (repeat' split at h) <;> first
      | (simp at h; done)
      | (simp only [Option.some.injEq] at h; subst h; simp_all [initiate_ne_idle])

/-- running an `initiate_close` / `logout` coroutine leaves the close procedure started -/
theorem stepJob_closeKind {s s' : St} {i : Nat} {c : Caller} {k : JobKind} (h : stepJob s i = some s')
    (hc : s.callers[i]? = some c) (hk : c.job = .submitted k) (hcl : k = .initClose ∨ k = .logout) :
    s'.closePc ≠ .idle := by
  unfold stepJob at h
  rw [hc] at h
  simp only [hk] at h
  rcases hcl with rfl | rfl <;> simp only at h <;> split at h <;>
    first
      | (simp at h; done)
      | (simp only [Option.some.injEq] at h; subst h; exact initiate_ne_idle _)

/-- the only caller whose future a `job i` step changes is `i` -/
theorem stepJob_others {s s' : St} {i j : Nat} (h : stepJob s i = some s') (hne : j ≠ i) :
    s'.callers[j]? = s.callers[j]? := by
  unfold stepJob at h
  (repeat' split at h) <;> first
    | (simp at h; done)
    | (simp only [Option.some.injEq] at h; subst h; simp [getElem?_updAt_ne _ _ hne])

end NasdaqModel.SyncFacade
