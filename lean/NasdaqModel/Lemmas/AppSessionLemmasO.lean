import NasdaqModel.Lemmas.AppSessionLemmasK4
/-
Invariants of the application-session product machine, part 8: properties of every observable of the application-level trace
(`InvO`), used for "close calls never raise" (C05App).
-/
namespace NasdaqModel.App
open NasdaqModel

/-- the observables a step can append: everything except an `await app.close()` that ended with something else than a normal
    return or the cancellation of a user task.  (Before the repair of C05-app-close-from-message-callback two transitions emitted
    "`close()` of a message callback ended with `CancelledError`"; they are gone: `Witness/C05AppOld.lean`.) -/
def plainObs : AObs → Bool
  | .closeRet _ .ok => true
  | .closeRet (.user _) .cancelled => true
  | .closeRet _ _ => false
  | _ => true

/-- `P` holds of every application-level observable so far -/
def InvO (P : AObs → Prop) (s : St) : Prop := ∀ o ∈ s.trace2, P o

section
variable {a : ACfg} {P : AObs → Prop}

theorem InvO.of_trace2 {s s' : St} (h : s'.trace2 = s.trace2) (i : InvO P s) : InvO P s' := by
  unfold InvO; rw [h]; exact i

theorem InvO.emit2 {s : St} {o : AObs} (i : InvO P s) (ho : P o) : InvO P (s.emit2 o) := by
  unfold InvO
  rw [trace2_emit2]
  intro x hx
  rcases List.mem_append.mp hx with h | h
  · exact i x h
  · simp at h; rw [h]; exact ho

theorem innerStep_O {s : St} (i : InvO P s) (e : Sess.Ev) : InvO P (innerStep a s e) :=
  InvO.of_trace2 (innerStep_trace2 a s e) i

variable (hpl : ∀ o, plainObs o = true → P o)
include hpl

theorem d2Return_O {s : St} (i : InvO P s) : InvO P (d2Return s) := by
  unfold d2Return
  split
  · split
    · rename_i v _
      split
      · exact InvO.of_trace2 (trace2_finish2 _ _) ((i.emit2 (hpl _ rfl)).emit2 (hpl _ rfl))
      · exact InvO.of_trace2 (s := (s.emit2 (.closeRet (.handler v) .ok)).emit2 (.msgExit v)) rfl
          ((i.emit2 (hpl _ rfl)).emit2 (hpl _ rfl))
    · exact InvO.of_trace2 (trace2_finish2 _ _) ((i.emit2 (hpl _ rfl)).emit2 (hpl _ rfl))
    · exact i
  · exact i

theorem finishClose_O {s : St} (i : InvO P s) (t : Sess.Tid) : InvO P (finishClose a s t) :=
  d2Return_O hpl (innerStep_O (s := { s with cpc := .finished }) (InvO.of_trace2 (s := s) rfl i) _)

theorem endCb_O {s : St} (i : InvO P s) (t : Sess.Tid) : InvO P (endCb a s t) :=
  finishClose_O hpl (InvO.of_trace2 (trace2_setEvent _) (i.emit2 (hpl _ rfl))) t

theorem afterStop_O {s : St} (i : InvO P s) (t : Sess.Tid) : InvO P (afterStop a s t) := by
  unfold afterStop
  have i1 : InvO P { s with appClosed := true } := InvO.of_trace2 (s := s) rfl i
  simp only
  split
  · exact finishClose_O hpl (InvO.of_trace2 (trace2_setEvent _) i1) t
  · have i2 := i1.emit2 (o := .cbEnter) (hpl _ rfl)
    split
    · exact InvO.of_trace2 (s := ({ s with appClosed := true } : St).emit2 .cbEnter) rfl i2
    · exact endCb_O hpl (i2.emit2 (hpl _ rfl)) t
    · exact endCb_O hpl i2 t

theorem stopV2_O {s : St} (i : InvO P s) (t : Sess.Tid) : InvO P (stopV2 a s t) := by
  unfold stopV2
  split
  · exact InvO.of_trace2 (s := s) (trace2_cancel2 s .V2) i
  · exact afterStop_O hpl i t

theorem stopD2_O {s : St} (i : InvO P s) (t : Sess.Tid) : InvO P (stopD2 a s t) := by
  unfold stopD2
  split
  · exact InvO.of_trace2 (s := s) (trace2_cancel2 s .D2) i
  · exact stopV2_O hpl (s := { s with disp2Set := false }) (InvO.of_trace2 (s := s) rfl i) t

theorem onSoupClose_O {s : St} (i : InvO P s) (t : Sess.Tid) : InvO P (onSoupClose a s t) := by
  unfold onSoupClose
  split
  · exact finishClose_O hpl i t
  · have key : ∀ s1 : St, InvO P s1 →
        InvO P (if s1.q2Closed = true then afterStop a s1 t else stopD2 a { s1 with q2Closed := true } t) := by
      intro s1 i1
      split
      · exact afterStop_O hpl i1 t
      · exact stopD2_O hpl (s := { s1 with q2Closed := true }) (InvO.of_trace2 (s := s1) rfl i1) t
    apply key
    split
    · exact InvO.of_trace2 (s := s) rfl i
    · exact i

theorem resumeSoupClose_O {s : St} (i : InvO P s) (t : Sess.Tid) : InvO P (resumeSoupClose a s t) := by
  unfold resumeSoupClose
  split
  · exact stopV2_O hpl (s := { s with disp2Set := false }) (InvO.of_trace2 (s := s) rfl i) t
  · exact afterStop_O hpl i t
  · split
    · exact innerStep_O (s := { s with cpc := .aborted }) (InvO.of_trace2 (s := s) rfl i) _
    · split
      · exact endCb_O hpl i t
      · exact InvO.of_trace2 (s := s) rfl i
  · exact i

theorem construct_O {s : St} (i : InvO P s) : InvO P (construct a s) := by
  unfold construct
  split
  · simp only
    split
    · exact InvO.of_trace2 (s := s) rfl i
    · exact InvO.of_trace2 (s := s) rfl i
  · exact i

theorem passInner_O {s : St} (i : InvO P s) (e : Sess.Ev) : InvO P (passInner a s e) := by
  unfold passInner
  simp only
  have h1 : InvO P (construct a (innerStep a s e)) := construct_O hpl (innerStep_O i e)
  split
  · exact onSoupClose_O hpl h1 _
  · exact h1

theorem stepInner_O {s : St} (i : InvO P s) (e : Sess.Ev) : InvO P (stepInner a s e) := by
  unfold stepInner
  split
  · split
    · split
      · exact resumeSoupClose_O hpl i _
      · exact i
    · exact passInner_O hpl i _
  · split
    · exact InvO.of_trace2 (trace2_cancel2 _ _) i
    · split
      · exact InvO.of_trace2 (trace2_cancel2 _ _) i
      · exact passInner_O hpl i _
  · exact passInner_O hpl i _

theorem startClose_O {s : St} (i : InvO P s) (t : ATid) (p : AProg) : InvO P (startClose a s t p) := by
  unfold startClose
  have h1 : InvO P (innerStep a { s with evt := some false } .callInitiateClose) :=
    innerStep_O (s := { s with evt := some false }) (InvO.of_trace2 (s := s) rfl i) _
  exact InvO.of_trace2 (s := innerStep a { s with evt := some false } .callInitiateClose) rfl h1

theorem closeOnD2_O {s : St} (i : InvO P s) (p : AProg) : InvO P (closeOnD2 a s p) := by
  unfold closeOnD2
  have i1 : InvO P ((({ s with evt := some false } : St).setA .D2 .inSoup).setP .D2 p) := InvO.of_trace2 (s := s) rfl i
  simp only
  split
  · exact d2Return_O hpl i1
  · exact passInner_O hpl i1 _

theorem dispHandle2_O {s : St} (i : InvO P s) (v : Nat) : InvO P (dispHandle2 a s v) := by
  unfold dispHandle2
  split
  · exact InvO.of_trace2 (s := s.emit2 (.msgExit v)) rfl (i.emit2 (hpl _ rfl))
  · exact InvO.of_trace2 (s := s) rfl i
  · exact InvO.of_trace2 (s := s.emit2 (.msgRaise v)) rfl (i.emit2 (hpl _ rfl))
  · split
    · exact InvO.of_trace2 (s := (s.emit2 (.closeRet (.handler v) .ok)).emit2 (.msgExit v)) rfl
        ((i.emit2 (hpl _ rfl)).emit2 (hpl _ rfl))
    · exact closeOnD2_O hpl i _
  · exact InvO.of_trace2 (s := s) rfl i
  · exact InvO.of_trace2 (s := s) rfl i

theorem handlerDone_O {s : St} (i : InvO P s) (t : ATid) (v : Nat) : InvO P (handlerDone a s t v) := by
  unfold handlerDone
  split
  · split
    · exact InvO.of_trace2 (s := (s.emit2 (.closeRet (.handler v) .ok)).emit2 (.msgExit v)) rfl
        ((i.emit2 (hpl _ rfl)).emit2 (hpl _ rfl))
    · exact closeOnD2_O hpl i _
  · exact InvO.of_trace2 (s := s.emit2 (.msgExit v)) rfl (i.emit2 (hpl _ rfl))

theorem stepDisp2_O {s : St} (i : InvO P s) : InvO P (stepDisp2 a s) := by
  unfold stepDisp2
  split
  · exact InvO.of_trace2 (s := s) rfl i
  · split
    · exact i
    · split
      · exact InvO.of_trace2 (s := s) rfl i
      · rename_i v q _
        exact dispHandle2_O hpl (s := ({ s with q2 := q, gone2 := s.gone2 ++ [(v, true)] } : St).emit2 (.msgEnter v))
          (InvO.emit2 (s := { s with q2 := q, gone2 := s.gone2 ++ [(v, true)] }) (InvO.of_trace2 (s := s) rfl i) (hpl _ rfl)) v

end

/-- **Every step keeps a property of the application-level observables**, provided it holds of the plain ones. -/
theorem step_InvO {a : ACfg} {P : AObs → Prop} (hpl : ∀ o, plainObs o = true → P o)
    {s : St} (i : InvO P s) (ev : Ev) : InvO P (step a s ev) := by
  cases ev with
  | inner e =>
    simp only [step]
    split
    · exact i
    · exact stepInner_O hpl i e
  | run t =>
    simp only [step]
    split
    · unfold stepRun2
      have i0 : InvO P { s with imm2 := false } := InvO.of_trace2 (s := s) rfl i
      generalize ({ s with imm2 := false } : St) = s0 at i0
      simp only
      split
      · split
        · exact InvO.of_trace2 (trace2_finish2 _ _) (i0.emit2 (hpl _ rfl))
        · split
          · exact InvO.of_trace2 (trace2_finish2 _ _) ((i0.emit2 (hpl _ rfl)).emit2 (hpl _ rfl))
          · exact closeOnD2_O hpl i0 _
        · rename_i u hp
          have i1 : InvO P { s0 with vres2 := none, rcv2Busy := false, q2 := s0.vres2.toList ++ s0.q2 } := InvO.of_trace2 (s := s0) rfl i0
          split
          · exact InvO.of_trace2 (trace2_finish2 _ _) (i1.emit2 (hpl _ rfl))
          · exact InvO.of_trace2 (trace2_finish2 _ _) (i1.emit2 (hpl _ rfl))
        · exact InvO.of_trace2 (trace2_finish2 _ _) (i0.emit2 (hpl _ rfl))
        · exact InvO.of_trace2 (trace2_finish2 _ _) i0
      · split
        · split
          · exact stepDisp2_O hpl i0
          · exact i0
        · split
          · exact handlerDone_O hpl i0 _ _
          · exact InvO.of_trace2 (s := s0) rfl i0
        · split
          · rename_i v _ _
            exact InvO.of_trace2 (s := s0.emit2 (.msgExit v)) rfl (i0.emit2 (hpl _ rfl))
          · exact InvO.of_trace2 (s := s0) rfl i0
        · split
          · exact InvO.of_trace2 (s := s0) rfl i0
          · split
            · exact i0
            · exact InvO.of_trace2 (s := s0) rfl i0
        · rename_i u _
          split
          · rename_i v _
            exact InvO.of_trace2 (trace2_finish2 _ _)
              (InvO.emit2 (s := { s0 with vres2 := none, rcv2Busy := false, gone2 := s0.gone2 ++ [(v, true)] })
                (InvO.of_trace2 (s := s0) rfl i0) (hpl _ rfl))
          · split
            · exact InvO.of_trace2 (trace2_finish2 _ _)
                (InvO.emit2 (s := { s0 with rcv2Busy := false }) (InvO.of_trace2 (s := s0) rfl i0) (hpl _ rfl))
            · exact InvO.of_trace2 (trace2_finish2 _ _)
                (InvO.emit2 (s := { s0 with rcv2Busy := false }) (InvO.of_trace2 (s := s0) rfl i0) (hpl _ rfl))
        · exact InvO.of_trace2 (trace2_finish2 _ _) (i0.emit2 (hpl _ rfl))
        · exact i0
      · exact i0
    · split
      · exact stepInner_O hpl (s := { s with imm2 := false }) (InvO.of_trace2 (s := s) rfl i) _
      · exact i
  | appClose u =>
    simp only [step]
    split
    · exact i
    · split
      · exact InvO.of_trace2 (s := s.emit2 (.closeRet (.user u) .ok)) rfl (i.emit2 (hpl _ rfl))
      · exact startClose_O hpl i _ _
  | appRecv u =>
    simp only [step]
    split
    · exact i
    · unfold startRecv2
      split
      · exact i
      · split
        · exact InvO.of_trace2 (s := s.emit2 (.ret u .state)) rfl (i.emit2 (hpl _ rfl))
        · split
          · rename_i v q _
            exact InvO.of_trace2 (s := ({ s with q2 := q, gone2 := s.gone2 ++ [(v, true)] } : St).emit2 (.ret u (.msg v))) rfl
              (InvO.emit2 (s := { s with q2 := q, gone2 := s.gone2 ++ [(v, true)] }) (InvO.of_trace2 (s := s) rfl i) (hpl _ rfl))
          · split
            · exact InvO.of_trace2 (s := s.emit2 (.ret u .eoq)) rfl (i.emit2 (hpl _ rfl))
            · exact InvO.of_trace2 (s := s) rfl i
  | appCancel u => exact InvO.of_trace2 (by simp [step]) i

theorem runEvs_InvO {a : ACfg} {P : AObs → Prop} (hpl : ∀ o, plainObs o = true → P o)
    (evs : List Ev) : InvO P (runEvs a {} evs) := by
  have : ∀ (s : St), InvO P s → InvO P (runEvs a s evs) := by
    induction evs with
    | nil => intro s o; exact o
    | cons ev evs ih => intro s o; exact ih _ (step_InvO hpl o ev)
  exact this _ (by intro o h; simp [St.trace2] at h)

end NasdaqModel.App
