import NasdaqModel.Lemmas.RefineRun
import NasdaqModel.Lemmas.RefineReader
/-
`Refine.bstep` gives the byte-level reader a `tick` exactly when the reader task runs its loop body (`polls`: runnable at the top
of `_process`, `_stopped` false) — the condition under which the real reader calls `deserialize()`.  The C03 machine
additionally ignores ticks once ITS `stopped` flag is set (set when `stop()` is entered, earlier than `_stopped`).  This file
shows the two never disagree: in every reachable state, a byte-level reader that has stopped is never polled again — its task is
inside `close()` until `_stopped` is set.
-/
namespace NasdaqModel.Refine
open NasdaqModel Py
open NasdaqModel.Framing (Proto R Consuming Settled)
open NasdaqModel.Sess (St Cfg Frame Tid msgsOf rcore atLoop RGone RFrame)

variable {μ : Type}

theorem RGone.of_frame {s s' : St} (f : RFrame s s') (h : RGone s) : RGone s' := by
  rcases h with h | h
  · exact Or.inl (f.2 h)
  · exact Or.inr (f.1.trans h)

theorem RGone.not_polls {s : St} (h : RGone s) : polls s = false := by
  cases hp : polls s with
  | false => rfl
  | true =>
    obtain ⟨⟨_, h2⟩, h3⟩ := (polls_iff s).1 hp
    rcases h with h | h
    · rw [h3] at h; cases h
    · rw [h2] at h; cases h

theorem stepReader_terminal (cfg : Cfg) (s : St) (hs : s.rStopped = false) {f : Frame} {rest : List Frame}
    (hb : s.buf = f :: rest) (hf : f = .logout ∨ f = .bad) :
    RGone (Sess.stepReader cfg s) := by
  unfold Sess.stepReader
  rw [if_neg (by simp [hs])]
  split
  · rename_i h0; rw [hb] at h0; cases h0
  · rename_i f' rest' h0
    rw [hb] at h0
    injection h0 with e1 e2
    subst e1; subst e2
    rcases hf with rfl | rfl <;> exact Sess.rg_enterClose cfg _

/-- the gate: a stopped byte-level reader's task is on its way through `close()` -/
def Gate (b : BSt μ) : Prop := b.r.stopped = true → RGone b.s

theorem Gate.step {P : Proto μ} {st : Bytes → Bool} (F : Framer P st) (num : μ → Nat) (cfg : Cfg) {b : BSt μ}
    (h : PInv P num st b) (hB : Sess.InvB b.s) (g : Gate b) (e : BEv) : Gate (bstep P num cfg b e) := by
  intro hst'
  cases e with
  | bytes seg =>
    rw [bstep_bytes] at hst' ⊢
    simp only [Framing.step_data_stopped] at hst'
    exact RGone.of_frame (Sess.rf_step cfg b.s (.data (newFrames P num b.r seg)) (by simp) (by simp)) (g hst')
  | ev e =>
    by_cases hd : ∃ fs, e = .data fs
    · obtain ⟨fs, rfl⟩ := hd
      rw [bstep_data] at hst' ⊢
      exact g hst'
    · have hd' : ∀ fs, e ≠ .data fs := fun fs he => hd ⟨fs, he⟩
      rw [bstep_ev_s P num cfg b e hd']
      cases hst : b.r.stopped with
      | true => exact Sess.rg_step cfg b.s hB (h.rel.dead hst).2 (g hst) e
      | false =>
        -- the byte-level reader stops in this very step: it is the poll that meets the logout / malformed frame
        by_cases hR : e = .run .R ∧ polls b.s = true
        · obtain ⟨rfl, hp⟩ := hR
          rw [bstep_run_R, hp] at hst'
          simp only [if_true] at hst'
          obtain ⟨hl, hrs⟩ := (polls_iff _).1 hp
          rcases tick_toks P F.consuming b.r hst with ⟨_, _, h3⟩ | ⟨k, h1, h2, _⟩ | ⟨m, rest, _, _, _, _, h5, _⟩
          · rw [h3, hst] at hst'; cases hst'
          · have hb : b.s.buf = [k.frame num] := by rw [h.rel.live hst, Toks.frames, h1]; rfl
            rw [Sess.step_run_R_atLoop cfg b.s hl]
            refine stepReader_terminal cfg _ hrs hb ?_
            rcases h2 with rfl | rfl
            · exact Or.inr rfl
            · exact Or.inl rfl
          · rw [h5] at hst'; cases hst'
        · exfalso
          have : (bstep P num cfg b (.ev e)).r = b.r := by
            by_cases he : e = .run .R
            · subst he
              have hp : polls b.s = false := by
                cases hp : polls b.s with
                | false => rfl
                | true => exact absurd ⟨rfl, hp⟩ hR
              rw [bstep_run_R, hp]; rfl
            · exact bstep_ev_r P num cfg b e he
          rw [this, hst] at hst'; cases hst'

theorem gate_fold {P : Proto μ} {st : Bytes → Bool} (F : Framer P st) (num : μ → Nat) (cfg : Cfg) :
    ∀ (evs : List BEv) (b : BSt μ), PInv P num st b → Sess.InvA cfg b.s → Sess.InvR b.s → Sess.InvB b.s → Gate b →
      stable P st (b.all ++ bytesOf evs) = true → Gate (bfold P num cfg b evs) := by
  intro evs
  induction evs with
  | nil => intro b _ _ _ _ g _; exact g
  | cons e es ih =>
    intro b h ha hr hB g hs
    rw [bfold_cons]
    have hall : (bstep P num cfg b e).all ++ bytesOf es = b.all ++ bytesOf (e :: es) := by
      cases e with
      | bytes seg => simp [bstep_bytes, bytesOf]
      | ev e => rw [bstep_ev_all]; rfl
    have h1 : PInv P num st (bstep P num cfg b e) :=
      h.step F num cfg e (stable_prefix F _ (bytesOf es) (by rw [hall]; exact hs))
    have inv : Sess.InvA cfg (bstep P num cfg b e).s ∧ Sess.InvR (bstep P num cfg b e).s ∧ Sess.InvB (bstep P num cfg b e).s := by
      cases e with
      | bytes seg =>
        rw [bstep_bytes]
        exact ⟨Sess.step_InvA ha (.data (newFrames P num b.r seg)), Sess.step_InvR ha hr (.data (newFrames P num b.r seg)),
          Sess.step_InvB ha hr hB (.data (newFrames P num b.r seg))⟩
      | ev e =>
        by_cases hd : ∃ fs, e = .data fs
        · obtain ⟨fs, rfl⟩ := hd
          rw [bstep_data]; exact ⟨ha, hr, hB⟩
        · rw [bstep_ev_s P num cfg b e (fun fs he => hd ⟨fs, he⟩)]
          exact ⟨Sess.step_InvA ha _, Sess.step_InvR ha hr _, Sess.step_InvB ha hr hB _⟩
    exact ih _ h1 inv.1 inv.2.1 inv.2.2 (g.step F num cfg h hB e) (by rw [hall]; exact hs)

/-- **a byte-level reader that has stopped is never polled again**: in every reachable state of every byte-level history the
    tick gate of `bstep` (`polls`) and the C03 machine's own `stopped` check agree -/
theorem stopped_never_polls {P : Proto μ} {st : Bytes → Bool} (F : Framer P st) (num : μ → Nat) (cfg : Cfg) (evs : List BEv)
    (hs : stable P st (bytesOf evs) = true) (h : (brun P num cfg evs).r.stopped = true) :
    polls (brun P num cfg evs).s = false := by
  have g := gate_fold F num cfg evs {} (PInv.init P num st) (Sess.InvA.init cfg) Sess.InvR.init Sess.InvB.init
    (fun h0 => by cases h0) (by simpa using hs)
  exact RGone.not_polls (g h)

end NasdaqModel.Refine
