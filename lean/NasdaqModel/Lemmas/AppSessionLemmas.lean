import NasdaqModel.Model.AppSession
import NasdaqModel.Lemmas.AppSessionLemmas0
/-
Invariants of the application-session product machine (`Model/AppSession.lean`), part 1:

* the inner component of every reachable product state is a state of the inner session machine reached by a legal inner event
  sequence (`runEvs_reach`) — so every theorem about `Sess` holds for it;
* the flow of messages through the second stage (`InvF`, C04App).
-/
namespace NasdaqModel.App
open NasdaqModel

/-! ### projections of the small state algebra -/

@[simp] theorem inner_setA (s : St) (t : ATid) (x : AStatus) : (s.setA t x).inner = s.inner := rfl
@[simp] theorem inner_setP (s : St) (t : ATid) (p : AProg) : (s.setP t p).inner = s.inner := rfl
@[simp] theorem inner_emit2 (s : St) (o : AObs) : (s.emit2 o).inner = s.inner := rfl
@[simp] theorem inner_spawn2 (s : St) (t : ATid) (p : AProg) : (s.spawn2 t p).inner = s.inner := rfl
@[simp] theorem inner_finish2 (s : St) (t : ATid) : (s.finish2 t).inner = s.inner := rfl
@[simp] theorem inner_cancel2 (s : St) (t : ATid) : (s.cancel2 t).inner = s.inner := by
  unfold St.cancel2; split <;> try rfl
  split <;> rfl
@[simp] theorem inner_wake2 (s : St) (t : ATid) : (s.wake2 t).inner = s.inner := by
  unfold St.wake2; split <;> rfl
@[simp] theorem inner_put2 (s : St) (v : Nat) : (s.put2 v).inner = s.inner := by
  unfold St.put2; rw [inner_wake2, inner_wake2]
@[simp] theorem inner_setEvent (s : St) : s.setEvent.inner = s.inner := by
  unfold St.setEvent; split <;> rfl

@[simp] theorem inner_d2Return (s : St) : (d2Return s).inner = s.inner := by
  unfold d2Return
  split
  · split
    · split <;> rfl
    · rfl
    · rfl
  · rfl

@[simp] theorem inner_feed1 (a : ACfg) (s : St) (n : Nat) : (feed1 a s n).inner = s.inner := by
  unfold feed1; split <;> simp

theorem feed_inner (a : ACfg) (ns : List Nat) (s : St) : (feed a s ns).inner = s.inner := by
  induction ns generalizing s with
  | nil => rfl
  | cons n ns ih =>
    show (feed a (feed1 a s n) ns).inner = s.inner
    rw [ih]; simp

theorem innerStep_inner (a : ACfg) (s : St) (e : Sess.Ev) :
    (innerStep a s e).inner = Sess.step (innerCfg a) s.inner e := by
  simp only [innerStep, feed_inner]

/-! ### the inner component is always a reachable inner state -/

/-- `s'.inner` is reached from `s.inner` by inner events -/
def IReach (a : ACfg) (s s' : St) : Prop := ∃ es, s'.inner = Sess.runEvs (innerCfg a) s.inner es

theorem IReach.refl (a : ACfg) (s : St) : IReach a s s := ⟨[], rfl⟩
theorem IReach.of_eq {a : ACfg} {s s' : St} (h : s'.inner = s.inner) : IReach a s s' := ⟨[], h⟩
theorem IReach.trans {a : ACfg} {s1 s2 s3 : St} (h1 : IReach a s1 s2) (h2 : IReach a s2 s3) : IReach a s1 s3 := by
  obtain ⟨e1, h1⟩ := h1
  obtain ⟨e2, h2⟩ := h2
  exact ⟨e1 ++ e2, by rw [h2, h1]; simp [Sess.runEvs, List.foldl_append]⟩
theorem IReach.innerStep (a : ACfg) (s : St) (e : Sess.Ev) : IReach a s (innerStep a s e) :=
  ⟨[e], by rw [innerStep_inner]; rfl⟩
/-- changing the application part first does not matter -/
theorem IReach.pre {a : ACfg} {s s0 s' : St} (h0 : s0.inner = s.inner) (h : IReach a s0 s') : IReach a s s' := by
  obtain ⟨es, h⟩ := h
  exact ⟨es, by rw [h, h0]⟩

theorem finishClose_reach (a : ACfg) (s : St) (t : Sess.Tid) : IReach a s (finishClose a s t) :=
  (IReach.pre (s0 := { s with cpc := .finished }) rfl (IReach.innerStep a _ _)).trans (IReach.of_eq (inner_d2Return _))

theorem endCb_reach (a : ACfg) (s : St) (t : Sess.Tid) : IReach a s (endCb a s t) :=
  IReach.pre (s0 := (s.emit2 .cbExit).setEvent) (by simp) (finishClose_reach a _ t)

theorem afterStop_reach (a : ACfg) (s : St) (t : Sess.Tid) : IReach a s (afterStop a s t) := by
  unfold afterStop
  simp only
  split
  · exact IReach.pre (by simp) (finishClose_reach a _ t)
  · split
    · exact IReach.of_eq rfl
    · exact IReach.pre (by simp) (endCb_reach a _ t)
    · exact IReach.pre (by simp) (endCb_reach a _ t)

theorem stopV2_reach (a : ACfg) (s : St) (t : Sess.Tid) : IReach a s (stopV2 a s t) := by
  unfold stopV2
  split
  · exact IReach.of_eq (by simp)
  · exact afterStop_reach a s t

theorem stopD2_reach (a : ACfg) (s : St) (t : Sess.Tid) : IReach a s (stopD2 a s t) := by
  unfold stopD2
  split
  · exact IReach.of_eq (by simp)
  · exact IReach.pre rfl (stopV2_reach a _ t)

theorem onSoupClose_reach (a : ACfg) (s : St) (t : Sess.Tid) : IReach a s (onSoupClose a s t) := by
  unfold onSoupClose
  split
  · exact finishClose_reach a s t
  · have key : ∀ s1 : St, s1.inner = s.inner →
        IReach a s (if s1.q2Closed = true then afterStop a s1 t else stopD2 a { s1 with q2Closed := true } t) := by
      intro s1 h1
      split
      · exact IReach.pre h1 (afterStop_reach a _ t)
      · exact IReach.pre (s0 := { s1 with q2Closed := true }) h1 (stopD2_reach a _ t)
    exact key _ (by split <;> rfl)

theorem resumeSoupClose_reach (a : ACfg) (s : St) (t : Sess.Tid) : IReach a s (resumeSoupClose a s t) := by
  unfold resumeSoupClose
  split
  · exact IReach.pre rfl (stopV2_reach a _ t)
  · exact afterStop_reach a s t
  · split
    · exact IReach.pre rfl (IReach.innerStep a _ _)
    · split
      · exact endCb_reach a s t
      · exact IReach.of_eq rfl
  · exact IReach.refl a s

@[simp] theorem construct_inner (a : ACfg) (s : St) : (construct a s).inner = s.inner := by
  unfold construct
  split
  · simp only; split <;> rfl
  · rfl

theorem passInner_reach (a : ACfg) (s : St) (e : Sess.Ev) : IReach a s (passInner a s e) := by
  unfold passInner
  simp only
  have h1 : IReach a s (construct a (innerStep a s e)) :=
    (IReach.innerStep a s e).trans (IReach.of_eq (construct_inner a _))
  split
  · exact h1.trans (onSoupClose_reach a _ _)
  · exact h1

theorem stepInner_reach (a : ACfg) (s : St) (e : Sess.Ev) : IReach a s (stepInner a s e) := by
  unfold stepInner
  split
  · split
    · split
      · exact resumeSoupClose_reach a s _
      · exact IReach.refl a s
    · exact passInner_reach a s _
  · split
    · exact IReach.of_eq (by simp)
    · split
      · exact IReach.of_eq (by simp)
      · exact passInner_reach a s _
  · exact passInner_reach a s _

theorem startClose_reach (a : ACfg) (s : St) (t : ATid) (p : AProg) : IReach a s (startClose a s t p) := by
  unfold startClose
  have h1 : IReach a s (innerStep a { s with evt := some false } .callInitiateClose) :=
    IReach.pre (s0 := { s with evt := some false }) rfl (IReach.innerStep a _ _)
  exact h1.trans (IReach.of_eq (by simp))

theorem closeOnD2_reach (a : ACfg) (s : St) (p : AProg) : IReach a s (closeOnD2 a s p) := by
  unfold closeOnD2
  simp only
  split
  · exact IReach.of_eq (by simp)
  · exact IReach.pre (s0 := (({ s with evt := some false } : St).setA .D2 .inSoup).setP .D2 p) rfl (passInner_reach a _ _)

theorem dispHandle2_reach (a : ACfg) (s : St) (v : Nat) : IReach a s (dispHandle2 a s v) := by
  unfold dispHandle2
  split
  · exact IReach.of_eq rfl
  · exact IReach.of_eq rfl
  · exact IReach.of_eq rfl
  · split
    · exact IReach.of_eq rfl
    · exact closeOnD2_reach a s _
  · exact IReach.of_eq rfl
  · exact IReach.of_eq rfl

theorem handlerDone_reach (a : ACfg) (s : St) (t : ATid) (v : Nat) : IReach a s (handlerDone a s t v) := by
  unfold handlerDone
  split
  · split
    · exact IReach.of_eq rfl
    · exact closeOnD2_reach a s _
  · exact IReach.of_eq rfl

theorem stepDisp2_reach (a : ACfg) (s : St) : IReach a s (stepDisp2 a s) := by
  unfold stepDisp2
  split
  · exact IReach.of_eq rfl
  · split
    · exact IReach.refl a s
    · split
      · exact IReach.of_eq rfl
      · exact IReach.pre rfl (dispHandle2_reach a _ _)

theorem stepRun2_reach (a : ACfg) (s : St) (t : ATid) : IReach a s (stepRun2 a s t) := by
  unfold stepRun2
  simp only
  split
  · split
    · exact IReach.of_eq rfl
    · split
      · exact IReach.of_eq rfl
      · exact IReach.pre (s0 := { s with imm2 := false }) rfl (closeOnD2_reach a _ _)
    · split <;> exact IReach.of_eq rfl
    · exact IReach.of_eq rfl
    · exact IReach.of_eq rfl
  · split
    · split
      · exact IReach.pre rfl (stepDisp2_reach a _)
      · exact IReach.of_eq rfl
    · split
      · exact IReach.pre rfl (handlerDone_reach a _ _ _)
      · exact IReach.of_eq rfl
    · split <;> exact IReach.of_eq rfl
    · split
      · exact IReach.of_eq rfl
      · split <;> exact IReach.of_eq rfl
    · split
      · exact IReach.of_eq rfl
      · split <;> exact IReach.of_eq rfl
    · exact IReach.of_eq rfl
    · exact IReach.of_eq rfl
  · exact IReach.of_eq rfl

theorem startRecv2_inner (s : St) (u : Nat) : (startRecv2 s u).inner = s.inner := by
  unfold startRecv2
  split
  · rfl
  · split
    · rfl
    · split
      · rfl
      · split <;> rfl

theorem step_reach (a : ACfg) (s : St) (ev : Ev) : IReach a s (step a s ev) := by
  cases ev with
  | inner e =>
    simp only [step]
    split
    · exact IReach.refl a s
    · exact stepInner_reach a s e
  | run t =>
    simp only [step]
    split
    · exact stepRun2_reach a s t
    · split
      · exact IReach.pre (s0 := { s with imm2 := false }) rfl (stepInner_reach a _ _)
      · exact IReach.refl a s
  | appClose u =>
    simp only [step]
    split
    · exact IReach.refl a s
    · split
      · exact IReach.of_eq rfl
      · exact startClose_reach a s _ _
  | appRecv u =>
    simp only [step]
    split
    · exact IReach.refl a s
    · exact IReach.of_eq (startRecv2_inner s u)
  | appCancel u => exact IReach.of_eq (by simp [step])

/-- **The inner component of every reachable product state is a reachable state of the inner session machine**: every
    theorem about `Sess.runEvs` (C04–C07, C11) holds for it. -/
theorem runEvs_reach (a : ACfg) (evs : List Ev) :
    ∃ es, (runEvs a {} evs).inner = Sess.runEvs (innerCfg a) {} es := by
  have : ∀ (s : St), IReach a s (runEvs a s evs) := by
    induction evs with
    | nil => intro s; exact IReach.refl a s
    | cons ev evs ih => intro s; exact (step_reach a s ev).trans (ih _)
  exact this {}

end NasdaqModel.App
