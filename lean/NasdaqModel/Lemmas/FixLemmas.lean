import NasdaqModel.Lemmas.PyLemmas
import NasdaqModel.Model.Fix
/-
Lemmas about the FIX codec model (`Model/Fix.lean`): `find`, `SOH.join`, field and value round trips.
-/
namespace NasdaqModel.Fix
open NasdaqModel Py

/-! ### `bytes.find` of a single byte -/

theorem findSub_one_cons (c b : Nat) (bs : Bytes) :
    findSub [c] (b :: bs) = if c = b then some 0 else (findSub [c] bs).map (· + 1) := by
  simp [findSub, List.isPrefixOf]

theorem findSub_one_nil (c : Nat) : findSub [c] [] = none := by
  simp [findSub]

/-- the first occurrence of `c` is right after a prefix that does not contain it -/
theorem findSub_one_append (c : Nat) (a r : Bytes) (h : c ∉ a) :
    findSub [c] (a ++ c :: r) = some a.length := by
  induction a with
  | nil => simp [findSub_one_cons]
  | cons x a ih =>
    have hx : c ≠ x := by intro e; exact h (by simp [e])
    have ha : c ∉ a := by intro e; exact h (by simp [e])
    simp [findSub_one_cons, hx, ih ha]

theorem findSub_one_none (c : Nat) (a : Bytes) (h : c ∉ a) : findSub [c] a = none := by
  induction a with
  | nil => simp [findSub_one_nil]
  | cons x a ih =>
    have hx : c ≠ x := by intro e; exact h (by simp [e])
    have ha : c ∉ a := by intro e; exact h (by simp [e])
    simp [findSub_one_cons, hx, ih ha]

/-! ### digits -/

theorem natDigits_no (t c : Nat) (hc : isDigit c = false) : c ∉ natDigits t := by
  intro h
  have := natDigits_all_digit t c h
  rw [hc] at this
  exact absurd this (by simp)

theorem intStr_natCast (t : Nat) : intStr (t : Int) = natDigits t := by
  unfold intStr
  have : ¬ ((t : Int) < 0) := by omega
  simp [this]

theorem parseIntStr_natDigits (t : Nat) : parseIntStr (natDigits t) = .ok (t : Int) := by
  rw [← intStr_natCast]
  exact parseIntStr_intStr _

theorem natDigits_all_lt (t : Nat) : (natDigits t).all (· < 128) = true := by
  simp only [List.all_eq_true, decide_eq_true_eq]
  intro c hc
  have := natDigits_all_digit t c hc
  simp [isDigit] at this
  omega

theorem decodeAscii_natDigits (t : Nat) : decodeAscii (natDigits t) = .ok (natDigits t) := by
  unfold decodeAscii
  rw [natDigits_all_lt]
  rfl

theorem intStr_no_soh (i : Int) : 1 ∉ intStr i := by
  intro h
  unfold intStr at h
  split at h
  · simp at h
    exact natDigits_no _ 1 (by decide) h
  · exact natDigits_no _ 1 (by decide) h

theorem intStr_all_lt' (i : Int) : (intStr i).all (· < 128) = true := by
  simp only [List.all_eq_true, decide_eq_true_eq]
  exact intStr_all_lt i

/-! ### `SOH.join` -/

/-- terminated form: every part followed by SOH -/
def termAll (l : List Bytes) : Bytes := (l.map (· ++ [1])).flatten

theorem joinSOH_term : ∀ (a : Bytes) (l : List Bytes), joinSOH (a :: l) ++ [1] = termAll (a :: l)
  | a, [] => by simp [joinSOH, termAll]
  | a, b :: l => by
    have ih := joinSOH_term b l
    simp only [joinSOH, termAll, List.map_cons, List.flatten_cons, List.append_assoc, List.cons_append] at ih ⊢
    rw [ih]
    simp

theorem termAll_nil : termAll [] = [] := rfl
theorem termAll_cons (a : Bytes) (l : List Bytes) : termAll (a :: l) = a ++ 1 :: termAll l := by
  simp [termAll]
theorem termAll_append (l₁ l₂ : List Bytes) : termAll (l₁ ++ l₂) = termAll l₁ ++ termAll l₂ := by
  simp [termAll]

theorem termAll_length_ge (l : List Bytes) : l.length ≤ (termAll l).length := by
  induction l with
  | nil => simp [termAll]
  | cons a l ih => rw [termAll_cons]; simp; omega

/-- a byte string that is not empty and does not end with SOH -/
def GoodEnd (b : Bytes) : Prop := b ≠ [] ∧ b.getLast? ≠ some 1

theorem goodEnd_append_right (a : Bytes) {b : Bytes} (h : GoodEnd b) : GoodEnd (a ++ b) := by
  obtain ⟨hne, hl⟩ := h
  refine ⟨by simp [hne], ?_⟩
  have e : (a ++ b).getLast? = b.getLast? := by
    rw [List.getLast?_append]
    cases h : b.getLast? with
    | none => simp [List.getLast?_eq_none_iff] at h; exact absurd h hne
    | some x => simp
  rw [e]
  exact hl

theorem goodEnd_joinSOH : ∀ (l : List Bytes), l ≠ [] → (∀ x ∈ l, GoodEnd x) → GoodEnd (joinSOH l)
  | [], h, _ => absurd rfl h
  | [a], _, h => by simpa [joinSOH] using h a (by simp)
  | a :: b :: l, _, h => by
    have ih := goodEnd_joinSOH (b :: l) (by simp) (fun x hx => h x (by simp [hx]))
    simp only [joinSOH]
    have : a ++ 1 :: joinSOH (b :: l) = (a ++ [1]) ++ joinSOH (b :: l) := by simp
    rw [this]
    exact goodEnd_append_right _ ih

theorem joinSOH_eq_nil_iff (l : List Bytes) (h : ∀ x ∈ l, x ≠ []) : joinSOH l = [] ↔ l = [] := by
  cases l with
  | nil => simp [joinSOH]
  | cons a l =>
    cases l with
    | nil => simpa [joinSOH] using h a (by simp)
    | cons b l => simp [joinSOH]

/-! ### well-formedness predicates and the canonical (decoded) form -/

mutual
/-- all tags of an entry, at any depth -/
def deepTags : Entry → List Nat
  | .field t _ _ => [t]
  | .group t sub _ => t :: deepTagsL sub
def deepTagsL : List Entry → List Nat
  | [] => []
  | e :: es => deepTags e ++ deepTagsL es
end

/-- the tags strictly inside a group entry -/
def innerTags : Entry → List Nat
  | .field .. => []
  | .group _ sub _ => deepTagsL sub

def tagsOf (es : List Entry) : List Nat := es.map Entry.tag

mutual
/-- every group has at least one entry -/
def groupsNonEmpty : Entry → Bool
  | .field .. => true
  | .group _ sub _ => !sub.isEmpty && groupsNonEmptyL sub
def groupsNonEmptyL : List Entry → Bool
  | [] => true
  | e :: es => groupsNonEmpty e && groupsNonEmptyL es
end

/-- a dictionary segment list: all tags (nested ones included) pairwise distinct, no empty group -/
def wfEntries (es : List Entry) : Bool := decide (deepTagsL es).Nodup && groupsNonEmptyL es

/-- ASCII text without SOH -/
def wfText (s : Str) : Bool := s.all (fun c => decide (c < 128) && decide (c ≠ 1))

def wfPrim : FTy → Val → Bool
  | .int, .int _ => true
  | .float, .flt t => wfText t
  | .bool, .bool _ => true
  | .char, .str s => wfText s
  | .string, .str s => wfText s
  | _, _ => false

def keysOf (s : Seg) : List Nat := s.map Prod.fst

def firstPresent : List Entry → Seg → Bool
  | [], _ => false
  | e :: _, inst => hasKey inst e.tag

mutual
/-- the value is one the entry's class accepts and can carry: right Python type, text ASCII without SOH,
    every group instance has distinct keys known to the group and contains the group's first entry -/
def wfVal : Entry → Val → Bool
  | .field _ ty _, v => wfPrim ty v
  | .group _ sub _, .grp insts => wfInsts sub insts
  | .group .., _ => false
def wfInsts : List Entry → List (List (Nat × Val)) → Bool
  | _, [] => true
  | sub, i :: is => wfFields sub i && firstPresent sub i && decide (keysOf i).Nodup && wfInsts sub is
def wfFields : List Entry → List (Nat × Val) → Bool
  | _, [] => true
  | es, (t, v) :: rest => (match lookupE es t with
                           | some e => wfVal e v
                           | none => false) && wfFields es rest
end

def wfSeg (es : List Entry) (s : Seg) : Bool := wfFields es s && decide (keysOf s).Nodup

mutual
/-- what decoding yields: group instances list their fields in dictionary order -/
def canonVal : Entry → Val → Val
  | .group _ sub _, .grp insts => .grp (insts.map (fun i => canonFields sub i))
  | _, v => v
def canonFields : List Entry → Seg → Seg
  | [], _ => []
  | e :: es, inst =>
      match lookupV inst e.tag with
      | some v => (e.tag, canonVal e v) :: canonFields es inst
      | none => canonFields es inst
end

/-- a top-level segment keeps its (insertion = wire) order -/
def canonSeg (es : List Entry) (s : Seg) : Seg :=
  s.map (fun p => (p.1, match lookupE es p.1 with
                        | some e => canonVal e p.2
                        | none => p.2))

/-! ### primitive values -/

theorem wfText_iff {s : Str} (h : wfText s = true) : s.all (· < 128) = true ∧ 1 ∉ s := by
  unfold wfText at h
  simp only [List.all_eq_true, Bool.and_eq_true, decide_eq_true_eq] at h
  constructor
  · simp only [List.all_eq_true, decide_eq_true_eq]
    intro c hc; exact (h c hc).1
  · intro h1; exact (h 1 h1).2 rfl

/-- the bytes of a well-formed primitive value contain no SOH and parse back to the value -/
theorem prim_roundtrip {ty : FTy} {v : Val} {b : Bytes} (hw : wfPrim ty v = true) (he : tyToBytes ty v = .ok b) :
    1 ∉ b ∧ tyFromBytes ty b = .ok v := by
  cases ty <;> cases v <;> simp [wfPrim] at hw
  case int.int i =>
    simp only [tyToBytes, encodeAscii, intStr_all_lt' i, if_true] at he
    injection he with he; subst he
    refine ⟨intStr_no_soh i, ?_⟩
    simp only [tyFromBytes, decodeAscii, intStr_all_lt' i, if_true, ok_bind, parseIntStr_intStr, pure_eq_ok]
  case float.flt t =>
    obtain ⟨ha, h1⟩ := wfText_iff hw
    simp only [tyToBytes, encodeAscii, ha, if_true] at he
    injection he with he; subst he
    refine ⟨h1, ?_⟩
    simp only [tyFromBytes, decodeAscii, ha, if_true, ok_bind, pure_eq_ok]
  case bool.bool x =>
    simp only [tyToBytes] at he
    injection he with he; subst he
    cases x <;> simp [tyFromBytes]
  case char.str t =>
    obtain ⟨ha, h1⟩ := wfText_iff hw
    simp only [tyToBytes, encodeAscii, ha, if_true] at he
    injection he with he; subst he
    refine ⟨h1, ?_⟩
    simp only [tyFromBytes, decodeAscii, ha, if_true, ok_bind, pure_eq_ok]
  case string.str t =>
    obtain ⟨ha, h1⟩ := wfText_iff hw
    simp only [tyToBytes, encodeAscii, ha, if_true] at he
    injection he with he; subst he
    refine ⟨h1, ?_⟩
    simp only [tyFromBytes, decodeAscii, ha, if_true, ok_bind, pure_eq_ok]

/-- `Field.from_bytes` on `tag=value SOH rest` -/
theorem fieldFromBytes_field (ty : FTy) (t : Nat) (vb rest : Bytes) (v : Val)
    (h1 : 1 ∉ vb) (hv : tyFromBytes ty vb = .ok v) :
    fieldFromBytes ty (fieldBytes t vb ++ 1 :: rest) = .ok ((fieldBytes t vb).length + 1, v) := by
  have e61 : findSub [61] (fieldBytes t vb ++ 1 :: rest) = some (natDigits t).length := by
    have : fieldBytes t vb ++ 1 :: rest = natDigits t ++ 61 :: (vb ++ 1 :: rest) := by simp [fieldBytes]
    rw [this]
    exact findSub_one_append 61 _ _ (natDigits_no t 61 (by decide))
  have e1 : findSub [1] (fieldBytes t vb ++ 1 :: rest) = some (fieldBytes t vb).length := by
    apply findSub_one_append
    intro h
    simp only [fieldBytes, List.mem_append, List.mem_cons] at h
    rcases h with h | h | h
    · exact natDigits_no t 1 (by decide) h
    · exact absurd h (by decide)
    · exact h1 h
  unfold fieldFromBytes
  rw [e61]
  simp only [e1]
  have hs : (List.take (fieldBytes t vb).length (fieldBytes t vb ++ 1 :: rest)).drop ((natDigits t).length + 1) = vb := by
    rw [List.take_left']
    · simp [fieldBytes]
    · rfl
  rw [hs, hv]
  rfl

end NasdaqModel.Fix
