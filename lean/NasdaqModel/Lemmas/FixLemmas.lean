import NasdaqModel.Lemmas.PyLemmas
import NasdaqModel.Model.Fix
/-
Lemmas about the FIX codec model (`Model/Fix.lean`): `find`, `SOH.join`, field and value round trips.
-/
namespace NasdaqModel.Fix
open NasdaqModel Py

/-! ### `bytes.find` of a single byte -/

theorem findSub_one_cons (c b : Nat) (bs : Bytes) :
    findSub [c] (b :: bs) = if c = b then some 0 else (findSub [c] bs).map (· + 1) := by
  simp [findSub, List.isPrefixOf]

theorem findSub_one_nil (c : Nat) : findSub [c] [] = none := by
  simp [findSub]

/-- the first occurrence of `c` is right after a prefix that does not contain it -/
theorem findSub_one_append (c : Nat) (a r : Bytes) (h : c ∉ a) :
    findSub [c] (a ++ c :: r) = some a.length := by
  induction a with
  | nil => simp [findSub_one_cons]
  | cons x a ih =>
    have hx : c ≠ x := by intro e; exact h (by simp [e])
    have ha : c ∉ a := by intro e; exact h (by simp [e])
    simp [findSub_one_cons, hx, ih ha]

theorem findSub_one_none (c : Nat) (a : Bytes) (h : c ∉ a) : findSub [c] a = none := by
  induction a with
  | nil => simp [findSub_one_nil]
  | cons x a ih =>
    have hx : c ≠ x := by intro e; exact h (by simp [e])
    have ha : c ∉ a := by intro e; exact h (by simp [e])
    simp [findSub_one_cons, hx, ih ha]

/-! ### digits -/

theorem natDigits_no (t c : Nat) (hc : isDigit c = false) : c ∉ natDigits t := by
  intro h
  have := natDigits_all_digit t c h
  rw [hc] at this
  exact absurd this (by simp)

theorem intStr_natCast (t : Nat) : intStr (t : Int) = natDigits t := by
  unfold intStr
  have : ¬ ((t : Int) < 0) := by omega
  simp [this]

theorem parseIntAscii_intStr (i : Int) : parseIntAscii (intStr i) = .ok i := parseIntBytes_intStr i

theorem parseIntAscii_natDigits (t : Nat) : parseIntAscii (natDigits t) = .ok (t : Int) := by
  rw [← intStr_natCast]
  exact parseIntAscii_intStr _

theorem natDigits_all_lt (t : Nat) : (natDigits t).all (· < 128) = true := by
  simp only [List.all_eq_true, decide_eq_true_eq]
  intro c hc
  have := natDigits_all_digit t c hc
  simp [isDigit] at this
  omega

theorem decodeAscii_natDigits (t : Nat) : decodeAscii (natDigits t) = .ok (natDigits t) := by
  unfold decodeAscii
  rw [natDigits_all_lt]
  rfl

theorem intStr_no_soh (i : Int) : 1 ∉ intStr i := by
  intro h
  unfold intStr at h
  split at h
  · simp at h
    exact natDigits_no _ 1 (by decide) h
  · exact natDigits_no _ 1 (by decide) h

theorem intStr_all_lt' (i : Int) : (intStr i).all (· < 128) = true := by
  simp only [List.all_eq_true, decide_eq_true_eq]
  exact intStr_all_lt i

/-! ### `SOH.join` -/

/-- terminated form: every part followed by SOH -/
def termAll (l : List Bytes) : Bytes := (l.map (· ++ [1])).flatten

theorem joinSOH_term : ∀ (a : Bytes) (l : List Bytes), joinSOH (a :: l) ++ [1] = termAll (a :: l)
  | a, [] => by simp [joinSOH, termAll]
  | a, b :: l => by
    have ih := joinSOH_term b l
    simp only [joinSOH, termAll, List.map_cons, List.flatten_cons, List.append_assoc, List.cons_append] at ih ⊢
    rw [ih]
    simp

theorem termAll_nil : termAll [] = [] := rfl
theorem termAll_cons (a : Bytes) (l : List Bytes) : termAll (a :: l) = a ++ 1 :: termAll l := by
  simp [termAll]
theorem termAll_append (l₁ l₂ : List Bytes) : termAll (l₁ ++ l₂) = termAll l₁ ++ termAll l₂ := by
  simp [termAll]

theorem termAll_length_ge (l : List Bytes) : l.length ≤ (termAll l).length := by
  induction l with
  | nil => simp [termAll]
  | cons a l ih => rw [termAll_cons]; simp; omega

/-- a byte string that is not empty and does not end with SOH -/
def GoodEnd (b : Bytes) : Prop := b ≠ [] ∧ b.getLast? ≠ some 1

theorem goodEnd_append_right (a : Bytes) {b : Bytes} (h : GoodEnd b) : GoodEnd (a ++ b) := by
  obtain ⟨hne, hl⟩ := h
  refine ⟨by simp [hne], ?_⟩
  have e : (a ++ b).getLast? = b.getLast? := by
    rw [List.getLast?_append]
    cases h : b.getLast? with
    | none => simp [List.getLast?_eq_none_iff] at h; exact absurd h hne
    | some x => simp
  rw [e]
  exact hl

theorem goodEnd_joinSOH : ∀ (l : List Bytes), l ≠ [] → (∀ x ∈ l, GoodEnd x) → GoodEnd (joinSOH l)
  | [], h, _ => absurd rfl h
  | [a], _, h => by simpa [joinSOH] using h a (by simp)
  | a :: b :: l, _, h => by
    have ih := goodEnd_joinSOH (b :: l) (by simp) (fun x hx => h x (by simp [hx]))
    simp only [joinSOH]
    have : a ++ 1 :: joinSOH (b :: l) = (a ++ [1]) ++ joinSOH (b :: l) := by simp
    rw [this]
    exact goodEnd_append_right _ ih

theorem joinSOH_eq_nil_iff (l : List Bytes) (h : ∀ x ∈ l, x ≠ []) : joinSOH l = [] ↔ l = [] := by
  cases l with
  | nil => simp [joinSOH]
  | cons a l =>
    cases l with
    | nil => simpa [joinSOH] using h a (by simp)
    | cons b l => simp [joinSOH]

/-! ### well-formedness predicates and the canonical (decoded) form -/

mutual
/-- all tags of an entry, at any depth -/
def deepTags : Entry → List Nat
  | .field t _ _ => [t]
  | .group t sub _ => t :: deepTagsL sub
def deepTagsL : List Entry → List Nat
  | [] => []
  | e :: es => deepTags e ++ deepTagsL es
end

/-- the tags strictly inside a group entry -/
def innerTags : Entry → List Nat
  | .field .. => []
  | .group _ sub _ => deepTagsL sub

def tagsOf (es : List Entry) : List Nat := es.map Entry.tag

/-- ASCII text without SOH -/
def wfText (s : Str) : Bool := s.all (fun c => decide (c < 128) && decide (c ≠ 1))

def wfPrim : FTy → Val → Bool
  | .int, .int _ => true
  | .float, .flt t => wfText t
  | .bool, .bool _ => true
  | .char, .str s => wfText s
  | .string, .str s => wfText s
  | _, _ => false

def keysOf (s : Seg) : List Nat := s.map Prod.fst

def firstPresent : List Entry → Seg → Bool
  | [], _ => false
  | e :: _, inst => hasKey inst e.tag

mutual
/-- the value is one the entry's class accepts and can carry: right Python type, text ASCII without SOH,
    every group instance has distinct keys known to the group and contains the group's first entry -/
def wfVal : Entry → Val → Bool
  | .field _ ty _, v => wfPrim ty v
  | .group _ sub _, .grp insts => wfInsts sub insts
  | .group .., _ => false
def wfInsts : List Entry → List (List (Nat × Val)) → Bool
  | _, [] => true
  | sub, i :: is => wfFields sub i && firstPresent sub i && decide (keysOf i).Nodup && wfInsts sub is
def wfFields : List Entry → List (Nat × Val) → Bool
  | _, [] => true
  | es, (t, v) :: rest => (match lookupE es t with
                           | some e => wfVal e v
                           | none => false) && wfFields es rest
end

def wfSeg (es : List Entry) (s : Seg) : Bool := wfFields es s && decide (keysOf s).Nodup

mutual
/-- what decoding yields: group instances list their fields in dictionary order -/
def canonVal : Entry → Val → Val
  | .group _ sub _, .grp insts => .grp (insts.map (fun i => canonFields sub i))
  | _, v => v
def canonFields : List Entry → Seg → Seg
  | [], _ => []
  | e :: es, inst =>
      match lookupV inst e.tag with
      | some v => (e.tag, canonVal e v) :: canonFields es inst
      | none => canonFields es inst
end

/-- a top-level segment keeps its (insertion = wire) order -/
def canonSeg (es : List Entry) (s : Seg) : Seg :=
  s.map (fun p => (p.1, match lookupE es p.1 with
                        | some e => canonVal e p.2
                        | none => p.2))

/-! ### primitive values -/

theorem wfText_iff {s : Str} (h : wfText s = true) : s.all (· < 128) = true ∧ 1 ∉ s := by
  unfold wfText at h
  simp only [List.all_eq_true, Bool.and_eq_true, decide_eq_true_eq] at h
  constructor
  · simp only [List.all_eq_true, decide_eq_true_eq]
    intro c hc; exact (h c hc).1
  · intro h1; exact (h 1 h1).2 rfl

/-- the bytes of a well-formed primitive value contain no SOH and parse back to the value -/
theorem prim_roundtrip {ty : FTy} {v : Val} {b : Bytes} (hw : wfPrim ty v = true) (he : tyToBytes ty v = .ok b) :
    1 ∉ b ∧ tyFromBytes ty b = .ok v := by
  cases ty <;> cases v <;> simp [wfPrim] at hw
  case int.int i =>
    simp only [tyToBytes, encodeAscii, intStr_all_lt' i, if_true] at he
    injection he with he; subst he
    refine ⟨intStr_no_soh i, ?_⟩
    simp only [tyFromBytes, decodeAscii, intStr_all_lt' i, if_true, ok_bind, parseIntAscii_intStr, pure_eq_ok]
  case float.flt t =>
    obtain ⟨ha, h1⟩ := wfText_iff hw
    simp only [tyToBytes, encodeAscii, ha, if_true] at he
    injection he with he; subst he
    refine ⟨h1, ?_⟩
    simp only [tyFromBytes, decodeAscii, ha, if_true, ok_bind, pure_eq_ok]
  case bool.bool x =>
    simp only [tyToBytes] at he
    injection he with he; subst he
    cases x <;> simp [tyFromBytes]
  case char.str t =>
    obtain ⟨ha, h1⟩ := wfText_iff hw
    simp only [tyToBytes, encodeAscii, ha, if_true] at he
    injection he with he; subst he
    refine ⟨h1, ?_⟩
    simp only [tyFromBytes, decodeAscii, ha, if_true, ok_bind, pure_eq_ok]
  case string.str t =>
    obtain ⟨ha, h1⟩ := wfText_iff hw
    simp only [tyToBytes, encodeAscii, ha, if_true] at he
    injection he with he; subst he
    refine ⟨h1, ?_⟩
    simp only [tyFromBytes, decodeAscii, ha, if_true, ok_bind, pure_eq_ok]

/-- `Field.from_bytes` on `tag=value SOH rest` -/
theorem fieldFromBytes_field (ty : FTy) (t : Nat) (vb rest : Bytes) (v : Val)
    (h1 : 1 ∉ vb) (hv : tyFromBytes ty vb = .ok v) :
    fieldFromBytes ty (fieldBytes t vb ++ 1 :: rest) = .ok ((fieldBytes t vb).length + 1, v) := by
  have e61 : findSub [61] (fieldBytes t vb ++ 1 :: rest) = some (natDigits t).length := by
    have : fieldBytes t vb ++ 1 :: rest = natDigits t ++ 61 :: (vb ++ 1 :: rest) := by simp [fieldBytes]
    rw [this]
    exact findSub_one_append 61 _ _ (natDigits_no t 61 (by decide))
  have e1 : findSub [1] (fieldBytes t vb ++ 1 :: rest) = some (fieldBytes t vb).length := by
    apply findSub_one_append
    intro h
    simp only [fieldBytes, List.mem_append, List.mem_cons] at h
    rcases h with h | h | h
    · exact natDigits_no t 1 (by decide) h
    · exact absurd h (by decide)
    · exact h1 h
  unfold fieldFromBytes
  rw [e61]
  simp only [e1]
  have hs : (List.take (fieldBytes t vb).length (fieldBytes t vb ++ 1 :: rest)).drop ((natDigits t).length + 1) = vb := by
    rw [List.take_left']
    · simp [fieldBytes]
    · rfl
  rw [hs, hv]
  rfl

/-! ### plumbing -/

theorem bind_ok {α β : Type} {x : Except Err α} {f : α → Except Err β} {b : β}
    (h : (x >>= f) = .ok b) : ∃ a, x = .ok a ∧ f a = .ok b := by
  cases x with
  | ok a => exact ⟨a, rfl, by simpa using h⟩
  | error e => simp at h

theorem mapE_cons_ok {α β : Type} {f : α → Except Err β} {a : α} {as : List α} {r : List β}
    (h : mapE f (a :: as) = .ok r) : ∃ b bs, f a = .ok b ∧ mapE f as = .ok bs ∧ r = b :: bs := by
  simp only [mapE] at h
  obtain ⟨b, hb, h⟩ := bind_ok h
  obtain ⟨bs, hbs, h⟩ := bind_ok h
  simp only [pure_eq_ok] at h
  injection h with h
  exact ⟨b, bs, hb, hbs, h.symm⟩

theorem mapE_nil_ok {α β : Type} {f : α → Except Err β} {r : List β} (h : mapE f [] = .ok r) : r = [] := by
  simp only [mapE] at h
  injection h with h
  exact h.symm

mutual
theorem entry_ind {P : Entry → Prop} (hf : ∀ t ty r, P (.field t ty r))
    (hg : ∀ t sub r, (∀ e ∈ sub, P e) → P (.group t sub r)) : (e : Entry) → P e
  | .field t ty r => hf t ty r
  | .group t sub r => hg t sub r (entries_ind hf hg sub)
theorem entries_ind {P : Entry → Prop} (hf : ∀ t ty r, P (.field t ty r))
    (hg : ∀ t sub r, (∀ e ∈ sub, P e) → P (.group t sub r)) : (es : List Entry) → ∀ e ∈ es, P e
  | [] => fun _ h => absurd h (by simp)
  | x :: xs => fun e h => by
    rcases List.mem_cons.mp h with h | h
    · rw [h]; exact entry_ind hf hg x
    · exact entries_ind hf hg xs e h
end

/-! ### dictionary facts -/

theorem tag_mem_deepTags (e : Entry) : e.tag ∈ deepTags e := by
  cases e <;> simp [deepTags, Entry.tag]

theorem innerTags_sub_deepTags (e : Entry) : ∀ t ∈ innerTags e, t ∈ deepTags e := by
  cases e <;> simp [deepTags, innerTags]
  intro t h; exact Or.inr h

theorem deepTags_sub_deepTagsL {e : Entry} {es : List Entry} (h : e ∈ es) : ∀ t ∈ deepTags e, t ∈ deepTagsL es := by
  induction es with
  | nil => simp at h
  | cons x xs ih =>
    intro t ht
    simp only [deepTagsL, List.mem_append]
    rcases List.mem_cons.mp h with h | h
    · subst h; exact Or.inl ht
    · exact Or.inr (ih h t ht)

theorem tagsOf_sub_deepTagsL (es : List Entry) : ∀ t ∈ tagsOf es, t ∈ deepTagsL es := by
  intro t ht
  simp only [tagsOf, List.mem_map] at ht
  obtain ⟨e, he, rfl⟩ := ht
  exact deepTags_sub_deepTagsL he _ (tag_mem_deepTags e)

theorem nodup_tagsOf {es : List Entry} (h : (deepTagsL es).Nodup) : (tagsOf es).Nodup := by
  induction es with
  | nil => simp [tagsOf]
  | cons x xs ih =>
    simp only [deepTagsL] at h
    rw [List.nodup_append] at h
    obtain ⟨_, h2, h3⟩ := h
    simp only [tagsOf, List.map_cons, List.nodup_cons]
    refine ⟨?_, ih h2⟩
    intro hm
    exact h3 _ (tag_mem_deepTags x) _ (tagsOf_sub_deepTagsL xs _ hm) rfl

theorem nodup_deepTags_of_mem {e : Entry} {es : List Entry} (he : e ∈ es) (h : (deepTagsL es).Nodup) :
    (deepTags e).Nodup := by
  induction es with
  | nil => simp at he
  | cons x xs ih =>
    simp only [deepTagsL] at h
    rw [List.nodup_append] at h
    rcases List.mem_cons.mp he with he | he
    · subst he; exact h.1
    · exact ih he h.2.1

/-- a direct tag of a segment is never a tag nested inside one of its groups -/
theorem tag_not_inner {es : List Entry} (h : (deepTagsL es).Nodup) :
    ∀ e ∈ es, ∀ e' ∈ es, e'.tag ∉ innerTags e := by
  induction es with
  | nil => intro e he; simp at he
  | cons x xs ih =>
    simp only [deepTagsL] at h
    rw [List.nodup_append] at h
    obtain ⟨h1, h2, h3⟩ := h
    intro e he e' he' hin
    rcases List.mem_cons.mp he with ha | ha <;> rcases List.mem_cons.mp he' with hb | hb
    · rw [ha] at hin; rw [hb] at hin
      cases x with
      | field => simp [innerTags] at hin
      | group t sub r =>
        simp only [deepTags, List.nodup_cons] at h1
        exact h1.1 (by simpa [innerTags, Entry.tag] using hin)
    · rw [ha] at hin
      exact h3 _ (innerTags_sub_deepTags _ _ hin) _ (tagsOf_sub_deepTagsL xs _ (List.mem_map.mpr ⟨e', hb, rfl⟩)) rfl
    · rw [hb] at hin
      exact h3 _ (tag_mem_deepTags _) _ (deepTags_sub_deepTagsL ha _ (innerTags_sub_deepTags _ _ hin)) rfl
    · exact ih h2 e ha e' hb hin

/-! ### lookups -/

theorem lookupE_some {es : List Entry} {t : Nat} {e : Entry} (h : lookupE es t = some e) : e ∈ es ∧ e.tag = t := by
  induction es with
  | nil => simp [lookupE] at h
  | cons x xs ih =>
    simp only [lookupE] at h
    split at h
    · injection h with h; subst h; exact ⟨by simp, by assumption⟩
    · obtain ⟨h1, h2⟩ := ih h; exact ⟨by simp [h1], h2⟩

theorem lookupE_mem {es : List Entry} (hnd : (tagsOf es).Nodup) {e : Entry} (he : e ∈ es) : lookupE es e.tag = some e := by
  induction es with
  | nil => simp at he
  | cons x xs ih =>
    simp only [tagsOf, List.map_cons, List.nodup_cons] at hnd
    simp only [lookupE]
    rcases List.mem_cons.mp he with he | he
    · subst he; simp
    · have : x.tag ≠ e.tag := by
        intro hx; exact hnd.1 (by rw [hx]; exact List.mem_map.mpr ⟨e, he, rfl⟩)
      simp [this, ih hnd.2 he]

theorem lookupT_tableOf {es : List Entry} (hnd : (tagsOf es).Nodup) {e : Entry} (he : e ∈ es) :
    lookupT (tableOf es) (e.tag : Int) = some (fun bs => entryDec e bs) := by
  induction es with
  | nil => simp at he
  | cons x xs ih =>
    simp only [tagsOf, List.map_cons, List.nodup_cons] at hnd
    simp only [tableOf, lookupT]
    rcases List.mem_cons.mp he with he | he
    · subst he; simp
    · have : x.tag ≠ e.tag := by
        intro hx; exact hnd.1 (by rw [hx]; exact List.mem_map.mpr ⟨e, he, rfl⟩)
      have : ¬ ((x.tag : Int) = (e.tag : Int)) := by omega
      simp [this, ih hnd.2 he]

theorem lookupT_tableOf_none {es : List Entry} {t : Nat} (h : t ∉ tagsOf es) : lookupT (tableOf es) (t : Int) = none := by
  induction es with
  | nil => simp [tableOf, lookupT]
  | cons x xs ih =>
    simp only [tagsOf, List.map_cons, List.mem_cons, not_or] at h
    simp only [tableOf, lookupT]
    have : ¬ ((x.tag : Int) = (t : Int)) := by omega
    simp only [this, if_false]
    exact ih h.2

theorem hasKey_iff {s : Seg} {t : Nat} : hasKey s t = true ↔ t ∈ keysOf s := by
  induction s with
  | nil => simp [hasKey, lookupV, keysOf]
  | cons p s ih =>
    obtain ⟨k, v⟩ := p
    simp only [hasKey, lookupV, keysOf, List.map_cons, List.mem_cons] at ih ⊢
    by_cases hk : k = t
    · simp [hk]
    · have : ¬ t = k := fun h => hk h.symm
      simp [hk, this, ih]

theorem hasKey_false {s : Seg} {t : Nat} (h : t ∉ keysOf s) : hasKey s t = false := by
  cases hh : hasKey s t with
  | false => rfl
  | true => exact absurd (hasKey_iff.mp hh) h

theorem lookupV_mem {s : Seg} {t : Nat} {v : Val} (h : lookupV s t = some v) : (t, v) ∈ s := by
  induction s with
  | nil => simp [lookupV] at h
  | cons p s ih =>
    obtain ⟨k, w⟩ := p
    simp only [lookupV] at h
    split at h
    · injection h with h; subst h; rename_i hk; subst hk; simp
    · simp [ih h]

/-! ### what follows a value on the wire -/

/-- `rest` is empty or begins with `<tag>=` for a tag satisfying `P` -/
def Starts (P : Nat → Prop) (rest : Bytes) : Prop :=
  rest = [] ∨ ∃ t tail, rest = natDigits t ++ 61 :: tail ∧ P t

theorem Starts.mono {P Q : Nat → Prop} {rest : Bytes} (h : Starts P rest) (hpq : ∀ t, P t → Q t) : Starts Q rest := by
  rcases h with h | ⟨t, tail, h, hp⟩
  · exact Or.inl h
  · exact Or.inr ⟨t, tail, h, hpq t hp⟩

theorem joinSOH_cons_head (a : Bytes) (l : List Bytes) : ∃ tail, joinSOH (a :: l) = a ++ tail := by
  cases l with
  | nil => exact ⟨[], by simp [joinSOH]⟩
  | cons b l => exact ⟨1 :: joinSOH (b :: l), by simp [joinSOH]⟩

/-- every encoded entry begins with its own `<tag>=` -/
theorem enc_head {e : Entry} {v : Val} {b : Bytes} (h : encEntry e v = .ok b) :
    ∃ tail, b = natDigits e.tag ++ 61 :: tail := by
  cases e with
  | field t ty r =>
    simp only [encEntry] at h
    obtain ⟨vb, _, h⟩ := bind_ok h
    simp only [pure_eq_ok] at h
    injection h with h
    exact ⟨vb, by simp [← h, fieldBytes, Entry.tag]⟩
  | group t sub r =>
    cases v with
    | grp insts =>
      simp only [encEntry] at h
      obtain ⟨gs, _, h⟩ := bind_ok h
      simp only [pure_eq_ok] at h
      injection h with h
      obtain ⟨tail, ht⟩ := joinSOH_cons_head (fieldBytes t (intStr (insts.length : Int))) gs
      exact ⟨intStr (insts.length : Int) ++ tail, by rw [← h, ht]; simp [fieldBytes, Entry.tag]⟩
    | int _ => simp [encEntry] at h
    | flt _ => simp [encEntry] at h
    | bool _ => simp [encEntry] at h
    | str _ => simp [encEntry] at h

/-- the head of a segment loop iteration: reading the tag in front of `<tag>=…` -/
theorem tag_read (t : Nat) (tail : Bytes) :
    (match findSub [61] (natDigits t ++ 61 :: tail) with
      | some p => (natDigits t ++ 61 :: tail).take p
      | none => (natDigits t ++ 61 :: tail).dropLast) = natDigits t := by
  rw [findSub_one_append 61 _ _ (natDigits_no t 61 (by decide))]
  simp

theorem natDigits_append_ne_nil (t : Nat) (tail : Bytes) : (natDigits t ++ 61 :: tail).isEmpty = false := by
  simp

/-! ### the segment loop on encoded fields -/

/-- one iteration of the `while` loop of `DataSegment.from_bytes` on bytes that begin with `<tag>=` -/
theorem segLoop_step (tbl : Table) (fuel t : Nat) (tail : Bytes) (c : Nat) (acc : Seg) :
    segLoop tbl (fuel + 1) (natDigits t ++ 61 :: tail) c acc =
      if hasKey acc t = true then .ok (c, acc) else
      match lookupT tbl (t : Int) with
      | none => .ok (c, acc)
      | some dec => (dec (natDigits t ++ 61 :: tail)) >>= fun r =>
          segLoop tbl fuel ((natDigits t ++ 61 :: tail).drop r.1) (c + r.1) (acc ++ [(t, r.2)]) := by
  rw [segLoop]
  rw [natDigits_append_ne_nil]
  have e := findSub_one_append 61 (natDigits t) tail (natDigits_no t 61 (by decide))
  have h0 : (0 : Int) ≤ (t : Int) := by omega
  simp only [Bool.false_eq_true, if_false, e, List.take_left', decodeAscii_natDigits, ok_bind, parseIntAscii_natDigits,
    h0, true_and, Int.toNat_natCast]
  by_cases hk : hasKey acc t = true
  · simp only [hk, if_true]
  · simp only [hk]
    cases lookupT tbl (t : Int) <;> rfl

abbrev Item := Entry × Val × Bytes
def itemTags (fs : List Item) : List Nat := fs.map (fun x => x.1.tag)
def wireItems (fs : List Item) : Bytes := termAll (fs.map (fun x => x.2.2))
def canonItems (fs : List Item) : Seg := fs.map (fun x => (x.1.tag, canonVal x.1 x.2.1))

/-- the decoding statement for one entry: its encoding followed by SOH and by bytes that cannot be mistaken for
    more of it is read back completely, as the canonical value -/
def DecOK (e : Entry) : Prop :=
  ∀ v b rest, wfVal e v = true → encEntry e v = .ok b → Starts (fun t => t ∉ innerTags e) rest →
    entryDec e (b ++ 1 :: rest) = .ok (b.length + 1, canonVal e v)

theorem wireItems_cons (x : Item) (fs : List Item) : wireItems (x :: fs) = x.2.2 ++ 1 :: wireItems fs := by
  simp [wireItems, termAll_cons]

theorem wireItems_length_ge (fs : List Item) : fs.length ≤ (wireItems fs).length := by
  have := termAll_length_ge (fs.map (fun x => x.2.2))
  simpa [wireItems] using this

/-- what follows the encoded items begins with the first item's tag -/
theorem starts_wireItems {P : Nat → Prop} (fs : List Item) (rest : Bytes)
    (hfs : ∀ x ∈ fs, encEntry x.1 x.2.1 = .ok x.2.2) (hP : ∀ x ∈ fs, P x.1.tag) (hrest : Starts P rest) :
    Starts P (wireItems fs ++ rest) := by
  cases fs with
  | nil => simpa [wireItems, termAll] using hrest
  | cons x fs =>
    obtain ⟨tl, htl⟩ := enc_head (hfs x (by simp))
    refine Or.inr ⟨x.1.tag, tl ++ 1 :: (wireItems fs ++ rest), ?_, hP x (by simp)⟩
    rw [wireItems_cons, htl]
    simp

theorem segLoop_items (es : List Entry) (hnd : (deepTagsL es).Nodup) (hP : ∀ e ∈ es, DecOK e) :
    ∀ (fs : List Item) (acc : Seg) (c fuel : Nat) (rest : Bytes),
      (∀ x ∈ fs, x.1 ∈ es ∧ wfVal x.1 x.2.1 = true ∧ encEntry x.1 x.2.1 = .ok x.2.2) →
      (itemTags fs ++ keysOf acc).Nodup →
      fs.length < fuel →
      Starts (fun t => (t ∈ keysOf acc ∨ t ∈ itemTags fs ∨ t ∉ tagsOf es) ∧ ∀ e ∈ es, t ∉ innerTags e) rest →
      segLoop (tableOf es) fuel (wireItems fs ++ rest) c acc
        = .ok (c + (wireItems fs).length, acc ++ canonItems fs) := by
  intro fs
  induction fs with
  | nil =>
    intro acc c fuel rest _ _ hfuel hrest
    obtain ⟨fuel, rfl⟩ : ∃ f, fuel = f + 1 := ⟨fuel - 1, by simp at hfuel; omega⟩
    simp only [wireItems, List.map_nil, termAll_nil, List.nil_append, List.length_nil, Nat.add_zero, canonItems,
      List.append_nil]
    rcases hrest with hrest | ⟨t, tail, hrest, ⟨hq, _⟩⟩
    · subst hrest
      rw [segLoop]
      simp
    · subst hrest
      rw [segLoop_step]
      by_cases hk : t ∈ keysOf acc
      · simp [hasKey_iff.mpr hk]
      · rw [hasKey_false hk]
        have : t ∉ tagsOf es := by
          rcases hq with hq | hq | hq
          · exact absurd hq hk
          · simp [itemTags] at hq
          · exact hq
        simp [lookupT_tableOf_none this]
  | cons x fs ih =>
    intro acc c fuel rest hfs hnodup hfuel hrest
    obtain ⟨fuel, rfl⟩ : ∃ f, fuel = f + 1 := ⟨fuel - 1, by simp at hfuel; omega⟩
    obtain ⟨hxes, hxwf, hxenc⟩ := hfs x (by simp)
    obtain ⟨tl, htl⟩ := enc_head hxenc
    have hform : x.2.2 ++ 1 :: (wireItems fs ++ rest)
        = natDigits x.1.tag ++ 61 :: (tl ++ 1 :: (wireItems fs ++ rest)) := by rw [htl]; simp
    have htn : (tagsOf es).Nodup := nodup_tagsOf hnd
    -- the tag of `x` is new
    have hxk : x.1.tag ∉ keysOf acc := by
      intro hk
      simp only [itemTags, List.map_cons, List.cons_append, List.nodup_cons, List.mem_append, not_or] at hnodup
      exact hnodup.1.2 hk
    -- what follows `x` cannot be mistaken for more of `x`
    have hfollow : Starts (fun t => t ∉ innerTags x.1) (wireItems fs ++ rest) := by
      apply starts_wireItems fs rest (fun y hy => (hfs y (by simp [hy])).2.2)
      · intro y hy
        exact tag_not_inner hnd x.1 hxes y.1 (hfs y (by simp [hy])).1
      · exact hrest.mono (fun t ht => ht.2 x.1 hxes)
    have hdec := hP x.1 hxes x.2.1 x.2.2 (wireItems fs ++ rest) hxwf hxenc hfollow
    rw [wireItems_cons, List.append_assoc, List.cons_append, hform, segLoop_step, hasKey_false hxk,
      lookupT_tableOf htn hxes]
    simp only [Bool.false_eq_true, if_false]
    rw [← hform, hdec]
    simp only [ok_bind]
    have hdrop : (x.2.2 ++ 1 :: (wireItems fs ++ rest)).drop (x.2.2.length + 1) = wireItems fs ++ rest := by
      have : x.2.2 ++ 1 :: (wireItems fs ++ rest) = (x.2.2 ++ [1]) ++ (wireItems fs ++ rest) := by simp
      rw [this, List.drop_left']
      simp
    rw [hdrop]
    have hnodup' : (itemTags fs ++ keysOf (acc ++ [(x.1.tag, canonVal x.1 x.2.1)])).Nodup := by
      simp only [itemTags, List.map_cons, List.cons_append, List.nodup_cons] at hnodup
      have h2 := hnodup.2
      have h1 := hnodup.1
      simp only [keysOf, List.map_append, List.map_cons, List.map_nil] at h1 h2 ⊢
      rw [← List.append_assoc]
      rw [List.nodup_append]
      refine ⟨h2, by simp, ?_⟩
      intro a ha b hb
      simp at hb
      subst hb
      intro hab
      subst hab
      exact h1 ha
    have hrest' : Starts (fun t => (t ∈ keysOf (acc ++ [(x.1.tag, canonVal x.1 x.2.1)]) ∨ t ∈ itemTags fs ∨ t ∉ tagsOf es)
        ∧ ∀ e ∈ es, t ∉ innerTags e) rest := by
      apply hrest.mono
      intro t ⟨ht, ht2⟩
      refine ⟨?_, ht2⟩
      rcases ht with ht | ht | ht
      · exact Or.inl (by simp [keysOf] at ht ⊢; exact Or.inl ht)
      · simp only [itemTags, List.map_cons, List.mem_cons] at ht
        rcases ht with ht | ht
        · exact Or.inl (by simp [keysOf, ht])
        · exact Or.inr (Or.inl ht)
      · exact Or.inr (Or.inr ht)
    rw [ih (acc ++ [(x.1.tag, canonVal x.1 x.2.1)]) (c + (x.2.2.length + 1)) fuel rest
      (fun y hy => hfs y (by simp [hy])) hnodup' (by simp at hfuel; omega) hrest']
    simp only [canonItems, List.map_cons, List.length_append, List.length_cons, List.append_assoc,
      List.cons_append, List.nil_append]
    congr 2
    omega

/-! ### group instances -/

/-- element-wise relation between two lists -/
inductive All₂ {α β : Type} (R : α → β → Prop) : List α → List β → Prop
  | nil : All₂ R [] []
  | cons {a : α} {b : β} {as : List α} {bs : List β} : R a b → All₂ R as bs → All₂ R (a :: as) (b :: bs)

theorem mapE_all₂ {α β : Type} {f : α → Except Err β} : ∀ {l : List α} {r : List β}, mapE f l = .ok r →
    All₂ (fun a b => f a = .ok b) l r
  | [], r, h => by rw [mapE_nil_ok h]; exact .nil
  | a :: as, r, h => by
    have h' := mapE_cons_ok h
    obtain ⟨b, bs, hb, hbs, rfl⟩ := h'
    exact .cons hb (mapE_all₂ hbs)

theorem wfFields_mem {es : List Entry} {s : Seg} (h : wfFields es s = true) {t : Nat} {v : Val} (hm : (t, v) ∈ s) :
    ∃ e, lookupE es t = some e ∧ wfVal e v = true := by
  induction s with
  | nil => simp at hm
  | cons p s ih =>
    obtain ⟨k, w⟩ := p
    simp only [wfFields, Bool.and_eq_true] at h
    rcases List.mem_cons.mp hm with hm | hm
    · injection hm with h1 h2
      subst h1; subst h2
      cases hl : lookupE es t with
      | none => rw [hl] at h; simp at h
      | some e => rw [hl] at h; exact ⟨e, rfl, h.1⟩
    · exact ih h.2 hm

/-- the items `Group.to_bytes` writes for one instance: the entries present in it, in dictionary order -/
theorem encGroupFields_items (sub : List Entry) (hnd : (tagsOf sub).Nodup) (inst : Seg) (hwf : wfFields sub inst = true) :
    ∀ (es' : List Entry) (fbs : List Bytes), (∀ e ∈ es', e ∈ sub) → encGroupFields es' inst = .ok fbs →
      ∃ fs : List Item, fs.map (fun x => x.2.2) = fbs ∧
        (∀ x ∈ fs, x.1 ∈ sub ∧ wfVal x.1 x.2.1 = true ∧ encEntry x.1 x.2.1 = .ok x.2.2) ∧
        itemTags fs = (es'.filter (fun e => hasKey inst e.tag)).map Entry.tag ∧
        canonFields es' inst = canonItems fs := by
  intro es'
  induction es' with
  | nil =>
    intro fbs _ h
    simp only [encGroupFields, pure_eq_ok] at h
    injection h with h
    exact ⟨[], by simp [h], by simp, by simp [itemTags], by simp [canonFields, canonItems]⟩
  | cons e es' ih =>
    intro fbs hsub h
    have he : e ∈ sub := hsub e (by simp)
    simp only [encGroupFields] at h
    cases hl : lookupV inst e.tag with
    | none =>
      rw [hl] at h
      obtain ⟨fs, h1, h2, h3, h4⟩ := ih fbs (fun x hx => hsub x (by simp [hx])) h
      have hk : hasKey inst e.tag = false := by simp [hasKey, hl]
      exact ⟨fs, h1, h2, by simp [h3, hk], by simp [canonFields, hl, h4]⟩
    | some v =>
      rw [hl] at h
      simp only at h
      obtain ⟨b, hb, hh⟩ := bind_ok h
      obtain ⟨r, hr, hh2⟩ := bind_ok hh
      simp only [pure_eq_ok] at hh2
      injection hh2 with hfb
      obtain ⟨fs, h1, h2, h3, h4⟩ := ih r (fun x hx => hsub x (by simp [hx])) hr
      have hk : hasKey inst e.tag = true := by simp [hasKey, hl]
      obtain ⟨e', hle, hwv⟩ := wfFields_mem hwf (lookupV_mem hl)
      have : e' = e := by
        have := lookupE_mem hnd he
        rw [hle] at this
        injection this
      subst this
      refine ⟨(e', v, b) :: fs, by simp [h1, ← hfb], ?_, by simp [itemTags, hk] at h3 ⊢; exact h3,
        by simp [canonFields, hl, h4, canonItems]⟩
      intro x hx
      rcases List.mem_cons.mp hx with hx | hx
      · subst hx; exact ⟨he, hwv, hb⟩
      · exact h2 x hx

theorem deepTagsL_inner {sub : List Entry} {e : Entry} (he : e ∈ sub) : ∀ t ∈ innerTags e, t ∈ deepTagsL sub :=
  fun t ht => deepTags_sub_deepTagsL he t (innerTags_sub_deepTags e t ht)

/-- the instance loop of `GroupContainer.from_bytes` on the encodings of well-formed instances -/
theorem grpLoop_insts (sub : List Entry) (hnd : (deepTagsL sub).Nodup) (hP : ∀ e ∈ sub, DecOK e) :
    ∀ (insts : List Seg) (gs : List Bytes) (acc : List Seg) (c : Nat) (rest : Bytes),
      wfInsts sub insts = true →
      All₂ (fun inst g => ∃ fbs, encGroupFields sub inst = .ok fbs ∧ g = joinSOH fbs) insts gs →
      Starts (fun t => t ∉ deepTagsL sub) rest →
      grpLoop (tableOf sub) insts.length (termAll gs ++ rest) c acc
        = .ok (c + (termAll gs).length, acc ++ insts.map (canonFields sub)) := by
  intro insts
  induction insts with
  | nil =>
    intro gs acc c rest _ hgs _
    cases hgs
    simp [grpLoop, termAll]
  | cons inst insts ih =>
    intro gs acc c rest hwf hgs hrest
    cases hgs with
    | @cons _ g _ gs' hg hgs' =>
      obtain ⟨fbs, hfbs, rfl⟩ := hg
      simp only [wfInsts, Bool.and_eq_true, decide_eq_true_eq] at hwf
      obtain ⟨⟨⟨hwff, hfirst⟩, hkeys⟩, hwf'⟩ := hwf
      have htn := nodup_tagsOf hnd
      obtain ⟨fs, h1, h2, h3, h4⟩ := encGroupFields_items sub htn inst hwff sub fbs (fun e he => he) hfbs
      -- the first entry of the group is the first item
      cases sub with
      | nil => simp [firstPresent] at hfirst
      | cons e1 sub' =>
        simp only [firstPresent] at hfirst
        have hfs : ∃ x fs', fs = x :: fs' ∧ x.1.tag = e1.tag := by
          simp only [List.filter_cons, hfirst, if_true, List.map_cons] at h3
          cases fs with
          | nil => simp [itemTags] at h3
          | cons x fs' =>
            simp only [itemTags, List.map_cons] at h3
            injection h3 with h3 _
            exact ⟨x, fs', rfl, h3⟩
        obtain ⟨x, fs', rfl, hx1⟩ := hfs
        have hfbs_ne : fbs = x.2.2 :: fs'.map (fun x => x.2.2) := by rw [← h1]; simp
        have hg1 : joinSOH fbs ++ [1] = wireItems (x :: fs') := by
          rw [hfbs_ne, joinSOH_term]; simp [wireItems]
        have hbs : termAll (joinSOH fbs :: gs') ++ rest = wireItems (x :: fs') ++ (termAll gs' ++ rest) := by
          rw [termAll_cons, ← hg1]; simp
        have hne : (termAll (joinSOH fbs :: gs') ++ rest).isEmpty = false := by
          rw [termAll_cons]; simp
        -- what follows this instance
        have hnext : Starts (fun t => (t ∈ keysOf ([] : Seg) ∨ t ∈ itemTags (x :: fs') ∨ t ∉ tagsOf (e1 :: sub')) ∧
            ∀ e ∈ (e1 :: sub'), t ∉ innerTags e) (termAll gs' ++ rest) := by
          cases hgs' with
          | nil =>
            simp only [termAll_nil, List.nil_append]
            apply hrest.mono
            intro t ht
            refine ⟨Or.inr (Or.inr (fun hm => ht (tagsOf_sub_deepTagsL _ t hm))), ?_⟩
            intro e he hin
            exact ht (deepTagsL_inner he t hin)
          | @cons inst2 g2 insts2 gs2 hg2 _ =>
            obtain ⟨fbs2, hfbs2, rfl⟩ := hg2
            simp only [wfInsts, Bool.and_eq_true, decide_eq_true_eq] at hwf'
            obtain ⟨⟨⟨hwff2, hfirst2⟩, _⟩, _⟩ := hwf'
            simp only [firstPresent] at hfirst2
            obtain ⟨fs2, k1, k2, k3, _⟩ := encGroupFields_items (e1 :: sub') htn inst2 hwff2 (e1 :: sub') fbs2 (fun e he => he) hfbs2
            simp only [List.filter_cons, hfirst2, if_true, List.map_cons] at k3
            cases fs2 with
            | nil => simp [itemTags] at k3
            | cons y fs2' =>
              simp only [itemTags, List.map_cons] at k3
              injection k3 with k3 _
              obtain ⟨tl, htl⟩ := enc_head (k2 y (by simp)).2.2
              have hf2 : fbs2 = y.2.2 :: fs2'.map (fun x => x.2.2) := by rw [← k1]; simp
              obtain ⟨tl2, htl2⟩ := joinSOH_cons_head y.2.2 (fs2'.map (fun x => x.2.2))
              refine Or.inr ⟨e1.tag, tl ++ tl2 ++ 1 :: termAll gs2 ++ rest, ?_, ?_, ?_⟩
              · rw [termAll_cons, hf2, htl2, htl, k3]; simp
              · exact Or.inr (Or.inl (by simp [itemTags, hx1]))
              · intro e he
                exact tag_not_inner hnd e he e1 (by simp)
        have hnodup : (itemTags (x :: fs') ++ keysOf ([] : Seg)).Nodup := by
          simp only [keysOf, List.map_nil, List.append_nil]
          rw [h3]
          exact (List.filter_sublist.map Entry.tag).nodup htn
        have hseg := segLoop_items (e1 :: sub') hnd hP (x :: fs') [] 0
          ((termAll (joinSOH fbs :: gs') ++ rest).length + 1) (termAll gs' ++ rest) h2 hnodup
          (by rw [hbs]; have := wireItems_length_ge (x :: fs'); simp only [List.length_append]; omega) hnext
        simp only [List.length_cons]
        rw [grpLoop, hne]
        simp only [Bool.false_eq_true, if_false, segFromBytes]
        rw [hbs] at hseg ⊢
        rw [hseg]
        simp only [ok_bind, Nat.zero_add, List.nil_append]
        rw [if_neg (by have := wireItems_length_ge (x :: fs'); simp only [List.length_cons] at this; omega)]
        rw [List.drop_left']
        · rw [ih gs' (acc ++ [canonItems (x :: fs')]) (c + (wireItems (x :: fs')).length) rest hwf' hgs' hrest]
          rw [← h4]
          simp only [List.map_cons, List.append_assoc, List.cons_append, List.nil_append, termAll_cons, ← hg1,
            List.length_append, List.length_cons, List.length_nil]
          congr 2
          omega
        · rfl

/-! ### every entry decodes its own encoding -/

theorem All₂.imp {α β : Type} {R S : α → β → Prop} {l : List α} {r : List β} (h : All₂ R l r)
    (hrs : ∀ a b, R a b → S a b) : All₂ S l r := by
  induction h with
  | nil => exact .nil
  | cons hab _ ih => exact .cons (hrs _ _ hab) ih

theorem decOK_field (t : Nat) (ty : FTy) (r : Bool) : DecOK (.field t ty r) := by
  intro v b rest hwf henc _
  simp only [wfVal] at hwf
  simp only [encEntry] at henc
  obtain ⟨vb, hvb, h⟩ := bind_ok henc
  simp only [pure_eq_ok] at h
  injection h with h
  subst h
  obtain ⟨h1, hback⟩ := prim_roundtrip hwf hvb
  simp only [entryDec]
  rw [fieldFromBytes_field ty t vb rest v h1 hback]
  cases v <;> simp [canonVal]

theorem decOK_group (t : Nat) (sub : List Entry) (r : Bool) (hnd : (deepTagsL sub).Nodup)
    (hP : ∀ e ∈ sub, DecOK e) : DecOK (.group t sub r) := by
  intro v b rest hwf henc hrest
  cases v with
  | grp insts =>
    simp only [wfVal] at hwf
    simp only [encEntry] at henc
    obtain ⟨gs, hgs, h⟩ := bind_ok henc
    simp only [pure_eq_ok] at h
    injection h with h
    subst h
    have hall := mapE_all₂ hgs
    have hall' : All₂ (fun inst g => ∃ fbs, encGroupFields sub inst = .ok fbs ∧ g = joinSOH fbs) insts gs := by
      apply hall.imp
      intro a b hab
      obtain ⟨fbs, hf, hh⟩ := bind_ok hab
      simp only [pure_eq_ok] at hh
      injection hh with hh
      exact ⟨fbs, hf, hh.symm⟩
    have hcnt : fieldFromBytes .int (fieldBytes t (intStr (insts.length : Int)) ++ 1 :: (termAll gs ++ rest))
        = .ok ((fieldBytes t (intStr (insts.length : Int))).length + 1, .int (insts.length : Int)) := by
      apply fieldFromBytes_field
      · exact intStr_no_soh _
      · simp only [tyFromBytes, decodeAscii, intStr_all_lt', if_true, ok_bind, parseIntAscii_intStr, pure_eq_ok]
    have hb : joinSOH (fieldBytes t (intStr (insts.length : Int)) :: gs) ++ 1 :: rest
        = fieldBytes t (intStr (insts.length : Int)) ++ 1 :: (termAll gs ++ rest) := by
      have := joinSOH_term (fieldBytes t (intStr (insts.length : Int))) gs
      have e : joinSOH (fieldBytes t (intStr (insts.length : Int)) :: gs) ++ 1 :: rest
          = (joinSOH (fieldBytes t (intStr (insts.length : Int)) :: gs) ++ [1]) ++ rest := by simp
      rw [e, this, termAll_cons]
      simp
    have hlen : (joinSOH (fieldBytes t (intStr (insts.length : Int)) :: gs)).length + 1
        = (fieldBytes t (intStr (insts.length : Int))).length + 1 + (termAll gs).length := by
      have := congrArg List.length (joinSOH_term (fieldBytes t (intStr (insts.length : Int))) gs)
      rw [termAll_cons] at this
      simp only [List.length_append, List.length_cons, List.length_nil] at this
      omega
    simp only [entryDec, containerFromBytes]
    rw [hb, hcnt]
    simp only [ok_bind, Int.toNat_natCast]
    have hdrop : (fieldBytes t (intStr (insts.length : Int)) ++ 1 :: (termAll gs ++ rest)).drop
        ((fieldBytes t (intStr (insts.length : Int))).length + 1) = termAll gs ++ rest := by
      have e : fieldBytes t (intStr (insts.length : Int)) ++ 1 :: (termAll gs ++ rest)
          = (fieldBytes t (intStr (insts.length : Int)) ++ [1]) ++ (termAll gs ++ rest) := by simp
      rw [e, List.drop_left']
      simp
    rw [hdrop, grpLoop_insts sub hnd hP insts gs [] _ rest hwf hall' hrest]
    simp only [ok_bind, List.nil_append, List.length_map, ne_eq, not_true_eq_false, if_false, pure_eq_ok, canonVal]
    rw [hlen]
  | int _ => simp [wfVal] at hwf
  | flt _ => simp [wfVal] at hwf
  | bool _ => simp [wfVal] at hwf
  | str _ => simp [wfVal] at hwf

/-- **every entry of a dictionary with pairwise distinct tags reads back what it wrote** -/
theorem decOK_all : ∀ e : Entry, (deepTags e).Nodup → DecOK e := by
  apply entry_ind
  · intro t ty r _
    exact decOK_field t ty r
  · intro t sub r ih hnd
    simp only [deepTags, List.nodup_cons] at hnd
    exact decOK_group t sub r hnd.2 (fun e he => ih e he (nodup_deepTags_of_mem he hnd.2))

theorem decOK_of_mem {es : List Entry} (hnd : (deepTagsL es).Nodup) : ∀ e ∈ es, DecOK e :=
  fun e he => decOK_all e (nodup_deepTags_of_mem he hnd)

/-! ### top-level segments -/

/-- the items `DataSegment.to_bytes` writes: the values in insertion order -/
theorem encSegFields_items (es : List Entry) :
    ∀ (s : Seg) (fbs : List Bytes), wfFields es s = true → encSegFields es s = .ok fbs →
      ∃ fs : List Item, fs.map (fun x => x.2.2) = fbs ∧
        (∀ x ∈ fs, x.1 ∈ es ∧ wfVal x.1 x.2.1 = true ∧ encEntry x.1 x.2.1 = .ok x.2.2) ∧
        itemTags fs = keysOf s ∧ canonSeg es s = canonItems fs := by
  intro s
  induction s with
  | nil =>
    intro fbs _ h
    have := mapE_nil_ok h
    exact ⟨[], by simp [this], by simp, by simp [itemTags, keysOf], by simp [canonSeg, canonItems]⟩
  | cons p s ih =>
    intro fbs hwf h
    obtain ⟨k, v⟩ := p
    obtain ⟨b, bs, hb, hbs, rfl⟩ := mapE_cons_ok h
    simp only [wfFields, Bool.and_eq_true] at hwf
    cases hl : lookupE es k with
    | none => rw [hl] at hwf; simp at hwf
    | some e =>
      rw [hl] at hwf
      simp only [hl] at hb
      obtain ⟨hmem, htag⟩ := lookupE_some hl
      obtain ⟨fs, h1, h2, h3, h4⟩ := ih bs hwf.2 hbs
      refine ⟨(e, v, b) :: fs, by simp [h1], ?_, by simp [itemTags, keysOf, htag] at h3 ⊢; exact h3, ?_⟩
      · intro x hx
        rcases List.mem_cons.mp hx with hx | hx
        · subst hx; exact ⟨hmem, hwf.1, hb⟩
        · exact h2 x hx
      · simp only [canonSeg, List.map_cons, hl, canonItems, htag] at h4 ⊢
        rw [h4]

theorem segFromBytes_seg (es : List Entry) (hnd : (deepTagsL es).Nodup) (s : Seg) (fbs : List Bytes)
    (hwf : wfSeg es s = true) (henc : encSegFields es s = .ok fbs) (rest : Bytes)
    (hrest : Starts (fun t => t ∉ deepTagsL es) rest) :
    segFromBytes (tableOf es) (termAll fbs ++ rest) = .ok ((termAll fbs).length, canonSeg es s) := by
  simp only [wfSeg, Bool.and_eq_true, decide_eq_true_eq] at hwf
  obtain ⟨fs, h1, h2, h3, h4⟩ := encSegFields_items es s fbs hwf.1 henc
  have hw : termAll fbs = wireItems fs := by simp [wireItems, h1]
  have := segLoop_items es hnd (decOK_of_mem hnd) fs [] 0 ((termAll fbs ++ rest).length + 1) rest h2
    (by simpa [keysOf, h3] using hwf.2)
    (by rw [hw]; have := wireItems_length_ge fs; simp only [List.length_append]; omega)
    (hrest.mono (fun t ht => ⟨Or.inr (Or.inr (fun hm => ht (tagsOf_sub_deepTagsL _ t hm))),
      fun e he hin => ht (deepTagsL_inner he t hin)⟩))
  unfold segFromBytes
  rw [hw] at this ⊢
  rw [this, h4]
  simp

/-! ### last byte of an encoding -/

theorem goodEnd_of_no_soh {l : Bytes} (hne : l ≠ []) (h : 1 ∉ l) : GoodEnd l := by
  refine ⟨hne, ?_⟩
  intro hl
  rw [List.getLast?_eq_some_iff] at hl
  obtain ⟨ys, rfl⟩ := hl
  exact h (by simp)

theorem goodEnd_fieldBytes (t : Nat) {vb : Bytes} (h : 1 ∉ vb) : GoodEnd (fieldBytes t vb) := by
  unfold fieldBytes
  apply goodEnd_append_right
  apply goodEnd_of_no_soh (by simp)
  intro hm
  rcases List.mem_cons.mp hm with hm | hm
  · exact absurd hm (by decide)
  · exact h hm

/-- a well-formed value's encoding is not empty and does not end with SOH -/
def EndOK (e : Entry) : Prop := ∀ v b, wfVal e v = true → encEntry e v = .ok b → GoodEnd b

theorem endOK_all : ∀ e : Entry, (deepTags e).Nodup → EndOK e := by
  apply entry_ind
  · intro t ty r _ v b hwf henc
    simp only [wfVal] at hwf
    simp only [encEntry] at henc
    obtain ⟨vb, hvb, h⟩ := bind_ok henc
    simp only [pure_eq_ok] at h
    injection h with h
    subst h
    exact goodEnd_fieldBytes t (prim_roundtrip hwf hvb).1
  · intro t sub r ih hnd v b hwf henc
    simp only [deepTags, List.nodup_cons] at hnd
    cases v with
    | grp insts =>
      simp only [wfVal] at hwf
      simp only [encEntry] at henc
      obtain ⟨gs, hgs, h⟩ := bind_ok henc
      simp only [pure_eq_ok] at h
      injection h with h
      subst h
      have hall := mapE_all₂ hgs
      have key : ∀ {is : List Seg} {gl : List Bytes},
          All₂ (fun a b => (encGroupFields sub a >>= fun fs => pure (joinSOH fs)) = Except.ok b) is gl →
          wfInsts sub is = true → ∀ x ∈ gl, GoodEnd x := by
        intro is gl hal
        induction hal with
        | nil => intro _ x hx; simp at hx
        | @cons inst g insts' gs' hg _ ih2 =>
          intro hwf x hx
          simp only [wfInsts, Bool.and_eq_true, decide_eq_true_eq] at hwf
          obtain ⟨⟨⟨hwff, hfirst⟩, _⟩, hwf'⟩ := hwf
          rcases List.mem_cons.mp hx with hx | hx
          · subst hx
            obtain ⟨fbs, hf, hh⟩ := bind_ok hg
            simp only [pure_eq_ok] at hh
            injection hh with hh
            subst hh
            obtain ⟨fs, h1, h2, h3, _⟩ := encGroupFields_items sub (nodup_tagsOf hnd.2) inst hwff sub fbs (fun e he => he) hf
            have hne : fbs ≠ [] := by
              cases sub with
              | nil => simp [firstPresent] at hfirst
              | cons e1 sub' =>
                simp only [firstPresent] at hfirst
                simp only [List.filter_cons, hfirst, if_true, List.map_cons] at h3
                intro hnil
                rw [hnil] at h1
                simp at h1
                rw [h1] at h3
                simp [itemTags] at h3
            apply goodEnd_joinSOH _ hne
            intro y hy
            rw [← h1] at hy
            obtain ⟨it, hit, rfl⟩ := List.mem_map.mp hy
            obtain ⟨hm, hw, he⟩ := h2 it hit
            exact ih it.1 hm (nodup_deepTags_of_mem hm hnd.2) it.2.1 it.2.2 hw he
          · exact ih2 hwf' x hx
      apply goodEnd_joinSOH _ (by simp)
      intro x hx
      rcases List.mem_cons.mp hx with hx | hx
      · subst hx; exact goodEnd_fieldBytes t (intStr_no_soh _)
      · exact key hall hwf x hx
    | int _ => simp [wfVal] at hwf
    | flt _ => simp [wfVal] at hwf
    | bool _ => simp [wfVal] at hwf
    | str _ => simp [wfVal] at hwf

/-! ### assembling a message -/

theorem deepTagsL_append (a b : List Entry) : deepTagsL (a ++ b) = deepTagsL a ++ deepTagsL b := by
  induction a with
  | nil => simp [deepTagsL]
  | cons x xs ih => simp [deepTagsL, ih]

/-- a segment's bytes followed by SOH, nothing for an empty segment -/
def termSeg (x : Bytes) : Bytes := if x.isEmpty then [] else x ++ [1]

theorem endsWithSOH_false {b : Bytes} (h : GoodEnd b) : endsWithSOH b = false := by
  unfold endsWithSOH
  cases hb : b.getLast? with
  | none => rfl
  | some x =>
    have : x ≠ 1 := by intro hx; subst hx; exact h.2 hb
    simp [this]

theorem termSeg_nil : termSeg [] = [] := rfl
theorem termSeg_good {b : Bytes} (h : GoodEnd b) : termSeg b = b ++ [1] := by
  unfold termSeg
  have : b.isEmpty = false := by
    cases b with
    | nil => exact absurd rfl h.1
    | cons _ _ => rfl
  simp [this]

theorem isEmpty_good {b : Bytes} (h : GoodEnd b) : b.isEmpty = false := by
  cases b with
  | nil => exact absurd rfl h.1
  | cons _ _ => rfl

/-- `Message.to_bytes`: join of the non-empty segments, then the closing SOH -/
theorem assemble (h b t : Bytes) (hh : h = [] ∨ GoodEnd h) (hb : b = [] ∨ GoodEnd b) (ht : t = [] ∨ GoodEnd t)
    (hne : ¬ (h = [] ∧ b = [] ∧ t = [])) :
    (if endsWithSOH (joinSOH ([h, b, t].filter (fun x => !x.isEmpty))) = true
      then joinSOH ([h, b, t].filter (fun x => !x.isEmpty))
      else joinSOH ([h, b, t].filter (fun x => !x.isEmpty)) ++ [1]) = termSeg h ++ termSeg b ++ termSeg t := by
  rcases hh with rfl | hh <;> rcases hb with rfl | hb <;> rcases ht with rfl | ht
  · exact absurd ⟨rfl, rfl, rfl⟩ hne
  · simp [List.filter, isEmpty_good ht, joinSOH, endsWithSOH_false ht, termSeg_nil, termSeg_good ht]
  · simp [List.filter, isEmpty_good hb, joinSOH, endsWithSOH_false hb, termSeg_nil, termSeg_good hb]
  · have g : GoodEnd (joinSOH [b, t]) := goodEnd_joinSOH _ (by simp) (by intro x hx; simp at hx; rcases hx with rfl | rfl <;> assumption)
    simp only [List.filter, List.isEmpty_nil, Bool.not_true, isEmpty_good hb, isEmpty_good ht, Bool.not_false,
      endsWithSOH_false g, Bool.false_eq_true, if_false, termSeg_nil, termSeg_good hb, termSeg_good ht]
    simp [joinSOH]
  · simp [List.filter, isEmpty_good hh, joinSOH, endsWithSOH_false hh, termSeg_nil, termSeg_good hh]
  · have g : GoodEnd (joinSOH [h, t]) := goodEnd_joinSOH _ (by simp) (by intro x hx; simp at hx; rcases hx with rfl | rfl <;> assumption)
    simp only [List.filter, List.isEmpty_nil, Bool.not_true, isEmpty_good hh, isEmpty_good ht, Bool.not_false,
      endsWithSOH_false g, Bool.false_eq_true, if_false, termSeg_nil, termSeg_good hh, termSeg_good ht]
    simp [joinSOH]
  · have g : GoodEnd (joinSOH [h, b]) := goodEnd_joinSOH _ (by simp) (by intro x hx; simp at hx; rcases hx with rfl | rfl <;> assumption)
    simp only [List.filter, List.isEmpty_nil, Bool.not_true, isEmpty_good hh, isEmpty_good hb, Bool.not_false,
      endsWithSOH_false g, Bool.false_eq_true, if_false, termSeg_nil, termSeg_good hh, termSeg_good hb]
    simp [joinSOH]
  · have g : GoodEnd (joinSOH [h, b, t]) := goodEnd_joinSOH _ (by simp)
      (by intro x hx; simp at hx; rcases hx with rfl | rfl | rfl <;> assumption)
    simp only [List.filter, isEmpty_good hh, isEmpty_good hb, isEmpty_good ht, Bool.not_false,
      endsWithSOH_false g, Bool.false_eq_true, if_false, termSeg_good hh, termSeg_good hb, termSeg_good ht]
    simp [joinSOH]

/-- the encoded fields of a well-formed segment -/
theorem encSegFields_good (es : List Entry) (hnd : (deepTagsL es).Nodup) (s : Seg) (fbs : List Bytes)
    (hwf : wfSeg es s = true) (henc : encSegFields es s = .ok fbs) :
    (∀ x ∈ fbs, GoodEnd x) ∧ (fbs = [] ↔ s = []) := by
  simp only [wfSeg, Bool.and_eq_true, decide_eq_true_eq] at hwf
  obtain ⟨fs, h1, h2, h3, _⟩ := encSegFields_items es s fbs hwf.1 henc
  constructor
  · intro x hx
    rw [← h1] at hx
    obtain ⟨it, hit, rfl⟩ := List.mem_map.mp hx
    obtain ⟨hm, hw, he⟩ := h2 it hit
    exact endOK_all it.1 (nodup_deepTags_of_mem hm hnd) it.2.1 it.2.2 hw he
  · have hl : fbs.length = s.length := by
      rw [← h1, List.length_map]
      have := congrArg List.length h3
      simpa [itemTags, keysOf] using this
    constructor
    · intro h; rw [h] at hl; exact List.eq_nil_of_length_eq_zero hl.symm
    · intro h; rw [h] at hl; exact List.eq_nil_of_length_eq_zero hl

theorem termSeg_joinSOH (fbs : List Bytes) (h : ∀ x ∈ fbs, GoodEnd x) : termSeg (joinSOH fbs) = termAll fbs := by
  cases fbs with
  | nil => rfl
  | cons a l =>
    rw [termSeg_good (goodEnd_joinSOH _ (by simp) h), joinSOH_term]

theorem joinSOH_nil_or_good (fbs : List Bytes) (h : ∀ x ∈ fbs, GoodEnd x) : joinSOH fbs = [] ∨ GoodEnd (joinSOH fbs) := by
  cases fbs with
  | nil => exact Or.inl rfl
  | cons a l => exact Or.inr (goodEnd_joinSOH _ (by simp) h)

/-! ### re-encoding -/

theorem keys_canonFields (es : List Entry) (inst : Seg) : ∀ t ∈ keysOf (canonFields es inst), t ∈ tagsOf es := by
  induction es with
  | nil => intro t ht; simp [canonFields, keysOf] at ht
  | cons x xs ih =>
    intro t ht
    simp only [canonFields] at ht
    cases hl : lookupV inst x.tag with
    | none => rw [hl] at ht; simp [tagsOf]; exact Or.inr (by simpa [tagsOf] using ih t ht)
    | some v =>
      rw [hl] at ht
      simp only [keysOf, List.map_cons, List.mem_cons] at ht
      rcases ht with ht | ht
      · simp [tagsOf, ht]
      · simp [tagsOf]; exact Or.inr (by simpa [tagsOf] using ih t ht)

theorem lookupV_none_of_not_key {s : Seg} {t : Nat} (h : t ∉ keysOf s) : lookupV s t = none := by
  have := hasKey_false h
  simp only [hasKey] at this
  cases hl : lookupV s t with
  | none => rfl
  | some v => rw [hl] at this; simp at this

theorem lookupV_canonFields {sub : List Entry} (hnd : (tagsOf sub).Nodup) (inst : Seg) {e : Entry} (he : e ∈ sub) :
    lookupV (canonFields sub inst) e.tag = (lookupV inst e.tag).map (canonVal e) := by
  induction sub with
  | nil => simp at he
  | cons x xs ih =>
    simp only [tagsOf, List.map_cons, List.nodup_cons] at hnd
    simp only [canonFields]
    rcases List.mem_cons.mp he with hx | hx
    · subst hx
      cases hl : lookupV inst e.tag with
      | none =>
        simp only [Option.map_none]
        apply lookupV_none_of_not_key
        intro hk
        exact hnd.1 (keys_canonFields xs inst _ hk)
      | some v => simp [lookupV]
    · have hne : x.tag ≠ e.tag := by
        intro hh; exact hnd.1 (by rw [hh]; exact List.mem_map.mpr ⟨e, hx, rfl⟩)
      cases hl : lookupV inst x.tag with
      | none => exact ih hnd.2 hx
      | some v =>
        simp only [lookupV, hne, if_false]
        exact ih hnd.2 hx

/-- re-encoding the canonical form of a value gives the same bytes -/
def ReOK (e : Entry) : Prop := ∀ v, encEntry e (canonVal e v) = encEntry e v

theorem mapE_congr {α β : Type} {f g : α → Except Err β} : ∀ (l : List α), (∀ a ∈ l, f a = g a) → mapE f l = mapE g l
  | [], _ => rfl
  | a :: as, h => by
    simp only [mapE]
    rw [h a (by simp), mapE_congr as (fun x hx => h x (by simp [hx]))]

theorem mapE_map {α β γ : Type} (f : β → Except Err γ) (g : α → β) : ∀ (l : List α), mapE f (l.map g) = mapE (fun a => f (g a)) l
  | [] => rfl
  | a :: as => by simp only [List.map_cons, mapE]; rw [mapE_map f g as]

theorem reOK_all : ∀ e : Entry, (deepTags e).Nodup → ReOK e := by
  apply entry_ind
  · intro t ty r _ v
    cases v <;> simp [canonVal]
  · intro t sub r ih hnd v
    simp only [deepTags, List.nodup_cons] at hnd
    have htn := nodup_tagsOf hnd.2
    cases v with
    | grp insts =>
      have hfields : ∀ (inst : Seg) (es' : List Entry), (∀ e ∈ es', e ∈ sub) →
          encGroupFields es' (canonFields sub inst) = encGroupFields es' inst := by
        intro inst es'
        induction es' with
        | nil => intro _; simp [encGroupFields]
        | cons x xs ihx =>
          intro hsub
          have hx : x ∈ sub := hsub x (by simp)
          simp only [encGroupFields]
          rw [lookupV_canonFields htn inst hx, ihx (fun e he => hsub e (by simp [he]))]
          cases hl : lookupV inst x.tag with
          | none => simp
          | some v =>
            simp only [Option.map_some]
            rw [ih x hx (nodup_deepTags_of_mem hx hnd.2) v]
      simp only [canonVal, encEntry, List.length_map]
      rw [mapE_map]
      rw [mapE_congr insts (g := fun inst => do let fs ← encGroupFields sub inst; pure (joinSOH fs))]
      intro inst _
      simp only [hfields inst sub (fun e he => he)]
    | int _ => simp [canonVal]
    | flt _ => simp [canonVal]
    | bool _ => simp [canonVal]
    | str _ => simp [canonVal]

theorem encSegFields_canon (es : List Entry) (hnd : (deepTagsL es).Nodup) (s : Seg) :
    encSegFields es (canonSeg es s) = encSegFields es s := by
  simp only [encSegFields, canonSeg]
  rw [mapE_map]
  apply mapE_congr
  intro p _
  simp only
  cases hl : lookupE es p.1 with
  | none => rfl
  | some e =>
    simp only
    exact reOK_all e (nodup_deepTags_of_mem (lookupE_some hl).1 hnd) p.2

/-! ### equality -/

mutual
theorem valEq_refl : (v : Val) → valEq v v = true
  | .int _ => by simp [valEq, primEq]
  | .flt _ => by simp [valEq, primEq]
  | .bool _ => by simp [valEq, primEq]
  | .str _ => by simp [valEq, primEq]
  | .grp is => by simp only [valEq]; exact instsEq_refl is
theorem instsEq_refl : (is : List (List (Nat × Val))) → instsEq is is = true
  | [] => by simp [instsEq]
  | i :: is => by simp only [instsEq, Bool.and_eq_true]; exact ⟨segEq_refl i, instsEq_refl is⟩
theorem segEq_refl : (s : List (Nat × Val)) → segEq s s = true
  | [] => by simp [segEq]
  | (k, v) :: s => by
    simp only [segEq, Bool.and_eq_true, beq_self_eq_true, true_and]
    exact ⟨valEq_refl v, segEq_refl s⟩
end

theorem pyEq_refl (m : Msg) : pyEq m m = true := by
  simp [pyEq, segEq_refl]

/-! ### the message type -/

theorem findFrom_eq (pat bs : Bytes) (start : Nat) (h : start ≤ bs.length) :
    findFrom pat bs start = (findSub pat (bs.drop start)).map (· + start) := by
  unfold findFrom
  have : ¬ start > bs.length := by omega
  simp [this]

/-- bytes that begin with `35=<type>SOH` name that type -/
theorem getMsgType_first (ty rest : Bytes) (h1 : 1 ∉ ty) (ha : ty.all (· < 128) = true) :
    getMsgType ([51, 53, 61] ++ ty ++ 1 :: rest) = .ok ty := by
  have e0 : List.isPrefixOf [51, 53, 61] ([51, 53, 61] ++ ty ++ 1 :: rest) = true := by
    simp [List.isPrefixOf]
  have e1 : findFrom [1] ([51, 53, 61] ++ ty ++ 1 :: rest) 2 = some (ty.length + 3) := by
    rw [findFrom_eq _ _ _ (by simp)]
    have : ([51, 53, 61] ++ ty ++ 1 :: rest).drop 2 = (61 :: ty) ++ 1 :: rest := by simp
    rw [this, findSub_one_append 1 (61 :: ty) rest (by
      intro hm; rcases List.mem_cons.mp hm with hm | hm
      · exact absurd hm (by decide)
      · exact h1 hm)]
    simp
  unfold getMsgType
  simp only [e0, if_true, e1]
  have : (List.take (ty.length + 3) ([51, 53, 61] ++ ty ++ 1 :: rest)).drop (2 + 1) = ty := by
    have e : [51, 53, 61] ++ ty ++ 1 :: rest = ([51, 53, 61] ++ ty) ++ 1 :: rest := by simp
    rw [e, List.take_left' (by simp)]
    simp
  rw [this]
  unfold decodeAscii
  rw [if_pos ha]

/-! ### encoding never raises on well-formed values -/

theorem mapE_ok_of_forall {α β : Type} {f : α → Except Err β} : ∀ (l : List α), (∀ a ∈ l, ∃ b, f a = .ok b) →
    ∃ r, mapE f l = .ok r
  | [], _ => ⟨[], rfl⟩
  | a :: as, h => by
    obtain ⟨b, hb⟩ := h a (by simp)
    obtain ⟨r, hr⟩ := mapE_ok_of_forall as (fun x hx => h x (by simp [hx]))
    exact ⟨b :: r, by simp [mapE, hb, hr]⟩

theorem tyToBytes_ok {ty : FTy} {v : Val} (hw : wfPrim ty v = true) : ∃ b, tyToBytes ty v = .ok b := by
  cases ty <;> cases v <;> simp [wfPrim] at hw
  case int.int i => exact ⟨intStr i, by simp [tyToBytes, encodeAscii, intStr_all_lt']⟩
  case float.flt t => exact ⟨t, by simp [tyToBytes, encodeAscii, (wfText_iff hw).1]⟩
  case bool.bool x => exact ⟨_, rfl⟩
  case char.str t => exact ⟨t, by simp [tyToBytes, encodeAscii, (wfText_iff hw).1]⟩
  case string.str t => exact ⟨t, by simp [tyToBytes, encodeAscii, (wfText_iff hw).1]⟩

def EncOK (e : Entry) : Prop := ∀ v, wfVal e v = true → ∃ b, encEntry e v = .ok b

theorem encOK_all : ∀ e : Entry, (deepTags e).Nodup → EncOK e := by
  apply entry_ind
  · intro t ty r _ v hwf
    simp only [wfVal] at hwf
    obtain ⟨b, hb⟩ := tyToBytes_ok hwf
    exact ⟨fieldBytes t b, by simp [encEntry, hb]⟩
  · intro t sub r ih hnd v hwf
    simp only [deepTags, List.nodup_cons] at hnd
    have htn := nodup_tagsOf hnd.2
    cases v with
    | grp insts =>
      simp only [wfVal] at hwf
      have hfields : ∀ (inst : Seg), wfFields sub inst = true → ∀ (es' : List Entry), (∀ e ∈ es', e ∈ sub) →
          ∃ fbs, encGroupFields es' inst = .ok fbs := by
        intro inst hwff es'
        induction es' with
        | nil => intro _; exact ⟨[], rfl⟩
        | cons x xs ihx =>
          intro hsub
          have hx : x ∈ sub := hsub x (by simp)
          obtain ⟨r', hr'⟩ := ihx (fun e he => hsub e (by simp [he]))
          simp only [encGroupFields]
          cases hl : lookupV inst x.tag with
          | none => exact ⟨r', hr'⟩
          | some v =>
            obtain ⟨e', hle, hwv⟩ := wfFields_mem hwff (lookupV_mem hl)
            have : e' = x := by
              have := lookupE_mem htn hx
              rw [hle] at this
              injection this
            subst this
            obtain ⟨b, hb⟩ := ih e' hx (nodup_deepTags_of_mem hx hnd.2) v hwv
            exact ⟨b :: r', by simp [hb, hr']⟩
      have hall : ∀ inst ∈ insts, wfFields sub inst = true := by
        clear hfields
        induction insts with
        | nil => intro _ h; simp at h
        | cons i is ihi =>
          simp only [wfInsts, Bool.and_eq_true] at hwf
          intro inst hin
          rcases List.mem_cons.mp hin with h | h
          · subst h; exact hwf.1.1.1
          · exact ihi hwf.2 inst h
      obtain ⟨gs, hgs⟩ := mapE_ok_of_forall (f := fun inst => do let fs ← encGroupFields sub inst; pure (joinSOH fs)) insts
        (by
          intro inst hin
          obtain ⟨fbs, hf⟩ := hfields inst (hall inst hin) sub (fun e he => he)
          exact ⟨joinSOH fbs, by simp [hf]⟩)
      exact ⟨joinSOH (fieldBytes t (intStr (insts.length : Int)) :: gs), by simp only [encEntry]; rw [hgs]; rfl⟩
    | int _ => simp [wfVal] at hwf
    | flt _ => simp [wfVal] at hwf
    | bool _ => simp [wfVal] at hwf
    | str _ => simp [wfVal] at hwf

theorem encSegFields_ok (es : List Entry) (hnd : (deepTagsL es).Nodup) (s : Seg) (hwf : wfFields es s = true) :
    ∃ fbs, encSegFields es s = .ok fbs := by
  apply mapE_ok_of_forall
  intro p hp
  obtain ⟨e, hle, hwv⟩ := wfFields_mem hwf (show (p.1, p.2) ∈ s from hp)
  simp only [hle]
  exact encOK_all e (nodup_deepTags_of_mem (lookupE_some hle).1 hnd) p.2 hwv

/-! ### assignment order of a group instance does not matter -/

theorem lookupV_eq_some_iff {s : Seg} (hnd : (keysOf s).Nodup) {t : Nat} {v : Val} : lookupV s t = some v ↔ (t, v) ∈ s := by
  constructor
  · exact lookupV_mem
  · intro hm
    induction s with
    | nil => simp at hm
    | cons p s ih =>
      obtain ⟨k, w⟩ := p
      simp only [keysOf, List.map_cons, List.nodup_cons] at hnd
      simp only [lookupV]
      rcases List.mem_cons.mp hm with hm | hm
      · injection hm with h1 h2; subst h1; subst h2; simp
      · have : k ≠ t := by
          intro hk; subst hk
          exact hnd.1 (List.mem_map.mpr ⟨(k, v), hm, rfl⟩)
        simp only [this, if_false]
        exact ih hnd.2 hm

theorem lookupV_perm {s s' : Seg} (hp : s'.Perm s) (hnd : (keysOf s).Nodup) (t : Nat) : lookupV s' t = lookupV s t := by
  have hnd' : (keysOf s').Nodup := (hp.map Prod.fst).nodup_iff.mpr hnd
  cases h : lookupV s t with
  | some v =>
    rw [lookupV_eq_some_iff hnd] at h
    rw [lookupV_eq_some_iff hnd']
    exact hp.mem_iff.mpr h
  | none =>
    cases h' : lookupV s' t with
    | none => rfl
    | some v =>
      rw [lookupV_eq_some_iff hnd'] at h'
      have := (lookupV_eq_some_iff hnd).mpr (hp.mem_iff.mp h')
      rw [h] at this
      exact absurd this (by simp)

theorem encGroupFields_perm (es : List Entry) {s s' : Seg} (hp : s'.Perm s) (hnd : (keysOf s).Nodup) :
    encGroupFields es s' = encGroupFields es s := by
  induction es with
  | nil => rfl
  | cons x xs ih => simp only [encGroupFields, lookupV_perm hp hnd, ih]

/-- the fields `Group.to_bytes` writes for one instance, without well-formedness assumptions -/
theorem encGroupFields_layout (inst : Seg) :
    ∀ (es' : List Entry) (fbs : List Bytes), encGroupFields es' inst = .ok fbs →
      ∃ fs : List Item, fs.map (fun x => x.2.2) = fbs ∧
        (∀ x ∈ fs, x.1 ∈ es' ∧ lookupV inst x.1.tag = some x.2.1 ∧ encEntry x.1 x.2.1 = .ok x.2.2) ∧
        itemTags fs = (es'.filter (fun e => hasKey inst e.tag)).map Entry.tag := by
  intro es'
  induction es' with
  | nil =>
    intro fbs h
    simp only [encGroupFields, pure_eq_ok] at h
    injection h with h
    exact ⟨[], by simp [h], by simp, by simp [itemTags]⟩
  | cons e es' ih =>
    intro fbs h
    simp only [encGroupFields] at h
    cases hl : lookupV inst e.tag with
    | none =>
      rw [hl] at h
      obtain ⟨fs, h1, h2, h3⟩ := ih fbs h
      have hk : hasKey inst e.tag = false := by simp [hasKey, hl]
      exact ⟨fs, h1, fun x hx => ⟨by simp [(h2 x hx).1], (h2 x hx).2⟩, by simp [h3, hk]⟩
    | some v =>
      rw [hl] at h
      simp only at h
      obtain ⟨b, hb, hh⟩ := bind_ok h
      obtain ⟨r, hr, hh2⟩ := bind_ok hh
      simp only [pure_eq_ok] at hh2
      injection hh2 with hfb
      obtain ⟨fs, h1, h2, h3⟩ := ih r hr
      have hk : hasKey inst e.tag = true := by simp [hasKey, hl]
      refine ⟨(e, v, b) :: fs, by simp [h1, ← hfb], ?_, by simp [itemTags, hk] at h3 ⊢; exact h3⟩
      intro x hx
      rcases List.mem_cons.mp hx with hx | hx
      · subst hx; exact ⟨by simp, hl, hb⟩
      · exact ⟨by simp [(h2 x hx).1], (h2 x hx).2⟩

/-! ### whole messages -/

/-- the dictionary of a message class: all tags of header, body and trailer (nested groups included) pairwise distinct -/
def wfDef (d : MsgDef) : Bool := decide (deepTagsL (d.hdr ++ d.body ++ d.trl)).Nodup

/-- a message built from valid values: every segment holds values its entries accept (text ASCII without SOH,
    group instances with distinct known keys that contain the group's first entry), at least one field is set -/
def wfMsg (d : MsgDef) (m : Msg) : Bool :=
  wfSeg d.hdr m.hdr && wfSeg d.body m.body && wfSeg d.trl m.trl &&
  !(m.hdr.isEmpty && m.body.isEmpty && m.trl.isEmpty)

/-- the decoded form of `m`: top-level segments in wire (= assignment) order, group instances in dictionary order -/
def canonMsg (d : MsgDef) (m : Msg) : Msg :=
  { hdr := canonSeg d.hdr m.hdr, body := canonSeg d.body m.body, trl := canonSeg d.trl m.trl }

theorem wfDef_parts {d : MsgDef} (h : wfDef d = true) :
    (deepTagsL d.hdr).Nodup ∧ (deepTagsL d.body).Nodup ∧ (deepTagsL d.trl).Nodup ∧
    (∀ t ∈ deepTagsL d.body, t ∉ deepTagsL d.hdr) ∧ (∀ t ∈ deepTagsL d.trl, t ∉ deepTagsL d.hdr) ∧
    (∀ t ∈ deepTagsL d.trl, t ∉ deepTagsL d.body) := by
  simp only [wfDef, decide_eq_true_eq, deepTagsL_append] at h
  rw [List.nodup_append] at h
  obtain ⟨h1, h2, h3⟩ := h
  rw [List.nodup_append] at h1
  obtain ⟨h11, h12, h13⟩ := h1
  refine ⟨h11, h12, h2, ?_, ?_, ?_⟩
  · intro t ht hh; exact h13 t hh t ht rfl
  · intro t ht hh; exact h3 t (by simp [hh]) t ht rfl
  · intro t ht hh; exact h3 t (by simp [hh]) t ht rfl

/-- the bytes of a well-formed message are its fields, each followed by SOH: header, body, trailer -/
theorem encMsg_wire {d : MsgDef} {m : Msg} {bs : Bytes} (hd : wfDef d = true) (hm : wfMsg d m = true)
    (henc : encMsg d m = .ok bs) :
    ∃ fh fb ft, encSegFields d.hdr m.hdr = .ok fh ∧ encSegFields d.body m.body = .ok fb ∧
      encSegFields d.trl m.trl = .ok ft ∧ bs = termAll fh ++ termAll fb ++ termAll ft := by
  obtain ⟨nh, nb, nt, _, _, _⟩ := wfDef_parts hd
  simp only [wfMsg, Bool.and_eq_true, Bool.not_eq_true', Bool.and_eq_false_iff] at hm
  obtain ⟨⟨⟨wh, wb⟩, wt⟩, hne⟩ := hm
  simp only [encMsg, encSeg] at henc
  obtain ⟨h, hh, henc⟩ := bind_ok henc
  obtain ⟨fh, hfh, hh⟩ := bind_ok hh
  obtain ⟨b, hb, henc⟩ := bind_ok henc
  obtain ⟨fb, hfb, hb⟩ := bind_ok hb
  obtain ⟨t, ht, henc⟩ := bind_ok henc
  obtain ⟨ft, hft, ht⟩ := bind_ok ht
  simp only [pure_eq_ok] at hh hb ht henc
  injection hh with hh; injection hb with hb; injection ht with ht; injection henc with henc
  subst hh; subst hb; subst ht
  obtain ⟨gh, eh⟩ := encSegFields_good d.hdr nh m.hdr fh wh hfh
  obtain ⟨gb, eb⟩ := encSegFields_good d.body nb m.body fb wb hfb
  obtain ⟨gt, et⟩ := encSegFields_good d.trl nt m.trl ft wt hft
  refine ⟨fh, fb, ft, hfh, hfb, hft, ?_⟩
  rw [← henc, assemble _ _ _ (joinSOH_nil_or_good fh gh) (joinSOH_nil_or_good fb gb) (joinSOH_nil_or_good ft gt),
    termSeg_joinSOH fh gh, termSeg_joinSOH fb gb, termSeg_joinSOH ft gt]
  intro ⟨a1, a2, a3⟩
  have e1 : m.hdr = [] := eh.mp ((joinSOH_eq_nil_iff fh (fun x hx => (gh x hx).1)).mp a1)
  have e2 : m.body = [] := eb.mp ((joinSOH_eq_nil_iff fb (fun x hx => (gb x hx).1)).mp a2)
  have e3 : m.trl = [] := et.mp ((joinSOH_eq_nil_iff ft (fun x hx => (gt x hx).1)).mp a3)
  simp [e1, e2, e3] at hne

/-- what follows a segment on the wire begins with a tag of a later segment -/
theorem starts_of_fields {es : List Entry} {s : Seg} {fbs : List Bytes} {P : Nat → Prop} {rest : Bytes}
    (hwf : wfSeg es s = true) (henc : encSegFields es s = .ok fbs) (hP : ∀ t ∈ deepTagsL es, P t)
    (hrest : Starts P rest) : Starts P (termAll fbs ++ rest) := by
  simp only [wfSeg, Bool.and_eq_true, decide_eq_true_eq] at hwf
  obtain ⟨fs, h1, h2, _, _⟩ := encSegFields_items es s fbs hwf.1 henc
  have hw : termAll fbs = wireItems fs := by simp [wireItems, h1]
  rw [hw]
  apply starts_wireItems fs rest (fun x hx => (h2 x hx).2.2) _ hrest
  intro x hx
  exact hP _ (deepTags_sub_deepTagsL (h2 x hx).1 _ (tag_mem_deepTags _))

/-! ### equality with group instances compared as dicts (the repaired `__eq__`) -/

theorem valEqDAux_eq (a b : Val) : valEqDAux a b = valEqD a b := by
  cases a <;> cases b <;> simp [valEqDAux, valEqD]

theorem keys_canonFields_eq (es : List Entry) (inst : Seg) :
    keysOf (canonFields es inst) = (es.filter (fun e => hasKey inst e.tag)).map Entry.tag := by
  induction es with
  | nil => simp [canonFields, keysOf]
  | cons x xs ih =>
    simp only [canonFields]
    cases hl : lookupV inst x.tag with
    | none =>
      have hk : hasKey inst x.tag = false := by simp [hasKey, hl]
      simp [hk, ih]
    | some v =>
      have hk : hasKey inst x.tag = true := by simp [hasKey, hl]
      simp only [keysOf, List.map_cons, List.filter_cons, hk, if_true] at ih ⊢
      rw [ih]

theorem wfFields_keys {es : List Entry} {s : Seg} (h : wfFields es s = true) : ∀ t ∈ keysOf s, t ∈ tagsOf es := by
  intro t ht
  simp only [keysOf, List.mem_map] at ht
  obtain ⟨p, hp, rfl⟩ := ht
  obtain ⟨e, hle, _⟩ := wfFields_mem h (show (p.1, p.2) ∈ s from hp)
  obtain ⟨hm, htag⟩ := lookupE_some hle
  exact List.mem_map.mpr ⟨e, hm, htag⟩

/-- the canonical instance has as many items as the original -/
theorem canonFields_length {sub : List Entry} (hnd : (tagsOf sub).Nodup) {inst : Seg} (hwf : wfFields sub inst = true)
    (hk : (keysOf inst).Nodup) : (canonFields sub inst).length = inst.length := by
  have h1 : (keysOf (canonFields sub inst)).Nodup := by
    rw [keys_canonFields_eq]
    exact (List.filter_sublist.map Entry.tag).nodup hnd
  have hperm : (keysOf (canonFields sub inst)).Perm (keysOf inst) := by
    rw [List.perm_ext_iff_of_nodup h1 hk]
    intro t
    rw [keys_canonFields_eq]
    constructor
    · intro ht
      obtain ⟨e, he, rfl⟩ := List.mem_map.mp ht
      simp only [List.mem_filter] at he
      exact hasKey_iff.mp he.2
    · intro ht
      obtain ⟨e, he, rfl⟩ := List.mem_map.mp (wfFields_keys hwf t ht)
      exact List.mem_map.mpr ⟨e, List.mem_filter.mpr ⟨he, hasKey_iff.mpr ht⟩, rfl⟩
  have := hperm.length_eq
  simpa [keysOf] using this

def EqDOK (e : Entry) : Prop := ∀ v, wfVal e v = true → valEqD (canonVal e v) v = true

theorem eqDOK_all : ∀ e : Entry, (deepTags e).Nodup → EqDOK e := by
  apply entry_ind
  · intro t ty r _ v hwf
    simp only [wfVal] at hwf
    cases ty <;> cases v <;> simp [wfPrim] at hwf <;> simp [canonVal, valEqD, primEq]
  · intro t sub r ih hnd v hwf
    simp only [deepTags, List.nodup_cons] at hnd
    have htn := nodup_tagsOf hnd.2
    cases v with
    | grp insts =>
      simp only [wfVal] at hwf
      simp only [canonVal, valEqD]
      induction insts with
      | nil => simp [instsEqD]
      | cons inst insts ihi =>
        simp only [wfInsts, Bool.and_eq_true, decide_eq_true_eq] at hwf
        obtain ⟨⟨⟨hwff, _⟩, hkeys⟩, hwf'⟩ := hwf
        simp only [List.map_cons, instsEqD, Bool.and_eq_true, decide_eq_true_eq]
        refine ⟨⟨canonFields_length htn hwff hkeys, ?_⟩, ihi hwf'⟩
        -- every item of the canonical instance is in the original with an equal value
        have key : ∀ es' : List Entry, (∀ e ∈ es', e ∈ sub) → subDictD (canonFields es' inst) inst = true := by
          intro es'
          induction es' with
          | nil => intro _; simp [canonFields, subDictD]
          | cons x xs ihx =>
            intro hsub
            have hx : x ∈ sub := hsub x (by simp)
            simp only [canonFields]
            cases hl : lookupV inst x.tag with
            | none => exact ihx (fun e he => hsub e (by simp [he]))
            | some v =>
              simp only [subDictD, hl, Bool.and_eq_true]
              refine ⟨?_, ihx (fun e he => hsub e (by simp [he]))⟩
              rw [valEqDAux_eq]
              obtain ⟨e', hle, hwv⟩ := wfFields_mem hwff (lookupV_mem hl)
              have : e' = x := by
                have := lookupE_mem htn hx
                rw [hle] at this
                injection this
              subst this
              exact ih e' hx (nodup_deepTags_of_mem hx hnd.2) v hwv
        exact key sub (fun e he => he)
    | int _ => simp [wfVal] at hwf
    | flt _ => simp [wfVal] at hwf
    | bool _ => simp [wfVal] at hwf
    | str _ => simp [wfVal] at hwf

theorem segEqTop_canon (es : List Entry) (hnd : (deepTagsL es).Nodup) :
    ∀ (s : Seg), wfFields es s = true → segEqTop (canonSeg es s) s = true
  | [], _ => by simp [canonSeg, segEqTop]
  | (k, v) :: s, hwf => by
    simp only [wfFields, Bool.and_eq_true] at hwf
    cases hl : lookupE es k with
    | none => rw [hl] at hwf; simp at hwf
    | some e =>
      rw [hl] at hwf
      have ih := segEqTop_canon es hnd s hwf.2
      simp only [canonSeg, List.map_cons, hl, segEqTop, beq_self_eq_true, Bool.true_and, Bool.and_eq_true] at ih ⊢
      exact ⟨eqDOK_all e (nodup_deepTags_of_mem (lookupE_some hl).1 hnd) v hwf.1, ih⟩

end NasdaqModel.Fix
