import NasdaqModel.Model.GenHistory
/-
Helper lemmas for Props/C17.lean: the file-system algebra (`read` after `set` / `write` / `wipe`), what a list of
truncating writes leaves in a directory, and the facts about `planGen` that hold for every state.
-/
namespace NasdaqModel.GenHistory
open NasdaqModel

/-! ## file system -/

@[simp] theorem read_nil (p : Path) : read [] p = none := rfl

theorem read_set_same (fs : FS) (p : Path) (v : List Chunk) : read (set fs p v) p = some v := by
  induction fs with
  | nil => simp [set, read]
  | cons e rest ih =>
    obtain ⟨q, w⟩ := e
    by_cases h : q = p
    · simp [set, read, h]
    · simp [set, read, h, ih]

theorem read_set_other (fs : FS) (p q : Path) (v : List Chunk) (h : q ≠ p) : read (set fs p v) q = read fs q := by
  induction fs with
  | nil =>
    have : p ≠ q := fun e => h e.symm
    simp [set, read, this]
  | cons e rest ih =>
    obtain ⟨r, w⟩ := e
    by_cases h1 : r = p
    · subst h1
      have : r ≠ q := fun e => h e.symm
      simp [set, read, this]
    · by_cases h2 : r = q
      · subst h2
        simp [set, read, h]
      · simp [set, read, h1, h2, ih]

theorem read_write_other (m : Mode) (fs : FS) (p q : Path) (cs : List Chunk) (h : q ≠ p) :
    read (write m fs p cs) q = read fs q := by
  unfold write
  split <;> first | rfl | exact read_set_other _ _ _ _ h

theorem read_write_truncate (fs : FS) (p q : Path) (cs : List Chunk) :
    read (write .truncate fs p cs) q = if q = p then some cs else read fs q := by
  by_cases h : q = p
  · subst h
    simp [write, read_set_same]
  · simp [h, read_write_other _ _ _ _ _ h]

/-- on a file that does not exist every mode writes the same -/
theorem read_write_absent (m : Mode) (fs : FS) (p : Path) (cs : List Chunk) (h : read fs p = none) :
    read (write m fs p cs) p = some cs := by
  unfold write
  cases m <;> simp [h, read_set_same]

theorem read_wipe (fs : FS) (d : Dir) (p : Path) :
    read (wipe fs d) p = if p.1.under d then none else read fs p := by
  induction fs with
  | nil => simp [wipe]
  | cons e rest ih =>
    obtain ⟨q, w⟩ := e
    unfold wipe at ih ⊢
    by_cases hq : q.1.under d = true
    · by_cases hp : q = p
      · subst hp
        simp [List.filter, hq, ih]
      · simp [List.filter, hq, ih, read, hp]
    · have hq' : q.1.under d = false := by simpa using hq
      by_cases hp : q = p
      · subst hp
        simp [List.filter, hq', read]
      · simp [List.filter, hq', read, hp, ih]

theorem under_self (d : Dir) : d.under d = true := by simp [Dir.under]

/-- `dirOnly` in terms of `read` -/
theorem read_none_of_dirOnly (fs : FS) (d : Dir) (names : List Str) (h : dirOnly fs d names = true) (n : Str)
    (hn : n ∉ names) : read fs (d, n) = none := by
  induction fs with
  | nil => rfl
  | cons e rest ih =>
    obtain ⟨q, w⟩ := e
    simp only [dirOnly, List.all_cons, Bool.and_eq_true] at h
    have ih' := ih (by simpa [dirOnly] using h.2)
    by_cases hq : q = (d, n)
    · subst hq
      simp at h
      exact absurd h.1 hn
    · simp [read, hq, ih']

/-! ## truncating writes -/

def truncOnly (acts : List RelAction) : Bool := acts.all fun a => a.mode = .truncate

theorem lastByName_cons (a : RelAction) (rest : List RelAction) (n : Str) :
    lastByName (a :: rest) n =
      match lastByName rest n with
      | some cs => some cs
      | none => if a.name = n then some a.chunks else none := rfl

theorem lastByName_none (acts : List RelAction) (n : Str) (h : n ∉ acts.map (·.name)) : lastByName acts n = none := by
  induction acts with
  | nil => rfl
  | cons a rest ih =>
    simp only [List.map_cons, List.mem_cons, not_or] at h
    have hne : a.name ≠ n := fun e => h.1 e.symm
    simp [lastByName, ih h.2, hne]

theorem lastByName_some (acts : List RelAction) (n : Str) (h : n ∈ acts.map (·.name)) : (lastByName acts n).isSome = true := by
  induction acts with
  | nil => simp at h
  | cons a rest ih =>
    simp only [List.map_cons, List.mem_cons] at h
    rw [lastByName_cons]
    cases hr : lastByName rest n with
    | some cs => rfl
    | none =>
      rcases h with h | h
      · simp [h]
      · have := ih h
        simp [hr] at this

/-- a list of truncating writes into directory `d`: each file ends up with what the last write to it wrote -/
theorem read_applyActs_trunc (d : Dir) (acts : List RelAction) (ht : truncOnly acts = true) (fs : FS) (n : Str) :
    read (applyActs fs (acts.map (RelAction.at d))) (d, n) =
      match lastByName acts n with
      | some cs => some cs
      | none => read fs (d, n) := by
  induction acts generalizing fs with
  | nil => rfl
  | cons a rest ih =>
    simp only [truncOnly, List.all_cons, Bool.and_eq_true, decide_eq_true_eq] at ht
    have ih' := ih (by simpa [truncOnly] using ht.2) (write a.mode fs (d, a.name) a.chunks)
    simp only [List.map_cons, applyActs, List.foldl_cons, RelAction.at] at ih' ⊢
    rw [ih', lastByName_cons]
    cases hl : lastByName rest n with
    | some cs => rfl
    | none =>
      simp only []
      rw [ht.1, read_write_truncate]
      by_cases h : a.name = n
      · subst h; simp
      · have : (d, n) ≠ (d, a.name) := fun e => h (by injection e with _ e2; exact e2.symm)
        simp [h, this]

/-- writes into directory `d` leave every other directory alone (any mode) -/
theorem read_applyActs_other (d : Dir) (acts : List RelAction) (fs : FS) (p : Path) (h : p.1 ≠ d) :
    read (applyActs fs (acts.map (RelAction.at d))) p = read fs p := by
  induction acts generalizing fs with
  | nil => rfl
  | cons a rest ih =>
    simp only [List.map_cons, applyActs, List.foldl_cons, RelAction.at] at ih ⊢
    rw [ih]
    apply read_write_other
    intro e
    exact h (by rw [e])

/-- writes into an empty directory: every mode behaves like truncation when no file is written twice -/
theorem read_applyActs_absent (d : Dir) (acts : List RelAction) (hnd : (acts.map (·.name)).Nodup) (fs : FS)
    (hempty : ∀ n, n ∈ acts.map (·.name) → read fs (d, n) = none) (n : Str) :
    read (applyActs fs (acts.map (RelAction.at d))) (d, n) =
      match lastByName acts n with
      | some cs => some cs
      | none => read fs (d, n) := by
  induction acts generalizing fs with
  | nil => rfl
  | cons a rest ih =>
    simp only [List.map_cons, List.nodup_cons] at hnd
    have hfs : ∀ m, m ∈ rest.map (·.name) → read (write a.mode fs (d, a.name) a.chunks) (d, m) = none := by
      intro m hm
      have hne : (d, m) ≠ (d, a.name) := by
        intro e
        injection e with _ e2
        exact hnd.1 (e2 ▸ hm)
      rw [read_write_other _ _ _ _ _ hne]
      exact hempty m (by simp [hm])
    have ih' := ih hnd.2 (write a.mode fs (d, a.name) a.chunks) hfs
    simp only [List.map_cons, applyActs, List.foldl_cons, RelAction.at] at ih' ⊢
    rw [ih', lastByName_cons]
    cases hl : lastByName rest n with
    | some cs => rfl
    | none =>
      simp only []
      by_cases h : a.name = n
      · subst h
        simp [read_write_absent _ _ _ _ (hempty a.name (by simp))]
      · have : (d, n) ≠ (d, a.name) := fun e => h (by injection e with _ e2; exact e2.symm)
        simp [h, read_write_other _ _ _ _ _ this]

/-! ## facts about the generators' plans -/

theorem pure_flags {sem : Semantics} (hp : pureGen sem = true) :
    sem.genMode = .truncate ∧ sem.resetFieldDefs = true ∧ sem.resetContexts = true ∧ sem.resetCounter = true
      ∧ sem.rebindContexts = true ∧ sem.freshTypeTables = true := by
  simp [pureGen] at hp
  obtain ⟨⟨⟨⟨⟨h1, h2⟩, h3⟩, h4⟩, h5⟩, h6⟩ := hp
  exact ⟨h1, h2, h3, h4, h5, h6⟩

/-- with reset-at-start semantics the outcome and everything written are independent of the process state -/
theorem planGen_snd_indep (sem : Semantics) (hp : pureGen sem = true) (st : ProcState) (i : Inv) :
    (planGen sem st i).2 = (planGen sem st0 i).2 := by
  obtain ⟨_, h2, h3, h4, _, h6⟩ := pure_flags hp
  cases i with
  | soup impl spec o =>
    simp only [planGen, planSoup, h2, if_true]
    split
    · rfl
    · split <;> rfl
  | fix spec o =>
    simp only [planGen, planFix, typesFor, h3, h4, h6, if_true]
    cases tableOf spec.version with
    | error e => rfl
    | ok tbl =>
      simp only []
      cases resolveTypes tbl (declared spec) with
      | error e => rfl
      | ok resolved =>
        simp only []
        split <;> rfl
  | asn1 spec pdu pk o => rfl
  | newProject t n a => rfl
  | userEdit p n => rfl

/-- the generators never touch the table of live generator objects while planning -/
theorem planGen_gens (sem : Semantics) (st : ProcState) (i : Inv) : (planGen sem st i).1.gens = st.gens := by
  cases i with
  | soup impl spec o =>
    simp only [planGen, planSoup]
    split
    · rfl
    · split <;> rfl
  | fix spec o =>
    simp only [planGen, planFix]
    split
    · rfl
    · split
      · rfl
      · split <;> rfl
  | asn1 spec pdu pk o => rfl
  | newProject t n a => rfl
  | userEdit p n => rfl

theorem planGen_acts_trunc (sem : Semantics) (hp : pureGen sem = true) (st : ProcState) (i : Inv) (rp : RelPlan)
    (h : (planGen sem st i).2 = .ok rp) : truncOnly rp.acts = true := by
  obtain ⟨h1, _, _, _, _, _⟩ := pure_flags hp
  cases i with
  | soup impl spec o =>
    simp only [planGen, planSoup] at h
    split at h
    · cases h
    · split at h
      · cases h
      · injection h with h; subst h
        cases o.init <;> simp [truncOnly, h1]
  | fix spec o =>
    simp only [planGen, planFix] at h
    split at h
    · cases h
    · split at h
      · cases h
      · split at h
        · cases h
        · injection h with h; subst h
          cases o.init <;> simp [truncOnly, h1]
  | asn1 spec pdu pk o =>
    simp only [planGen, planAsn1] at h
    injection h with h; subst h
    cases o.init <;> simp [truncOnly, h1, List.all_map]
  | newProject t n a => simp only [planGen] at h; injection h with h; subst h; rfl
  | userEdit p n => simp only [planGen] at h; injection h with h; subst h; rfl

/-- the files a generator writes are the syntactic `targetNames` (for every semantics and state) -/
theorem planGen_acts_names (sem : Semantics) (st : ProcState) (i : Inv) (hg : i.isGen = true) (rp : RelPlan)
    (h : (planGen sem st i).2 = .ok rp) : rp.acts.map (·.name) = targetNames i := by
  cases i with
  | soup impl spec o =>
    obtain ⟨app, pfx, init, dir, ov⟩ := o
    simp only [planGen, planSoup] at h
    split at h
    · cases h
    · split at h
      · cases h
      · injection h with h; subst h
        cases init <;> simp [targetNames]
  | fix spec o =>
    obtain ⟨app, pfx, init, dir, ov⟩ := o
    simp only [planGen, planFix] at h
    split at h
    · cases h
    · split at h
      · cases h
      · split at h
        · cases h
        · injection h with h; subst h
          cases init <;> simp [targetNames]
  | asn1 spec pdu pk o =>
    obtain ⟨app, pfx, init, dir, ov⟩ := o
    simp only [planGen, planAsn1] at h
    injection h with h; subst h
    cases init <;> simp [targetNames, Function.comp_def]
  | newProject t n a => simp [Inv.isGen] at hg
  | userEdit p n => simp [Inv.isGen] at hg

end NasdaqModel.GenHistory
