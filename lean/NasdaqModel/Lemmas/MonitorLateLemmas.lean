import NasdaqModel.Lemmas.HeartbeatLemmas
import NasdaqModel.Model.MonitorLate
/-
Invariant of Model/MonitorLate.lean (heartbeat monitors on an event loop that can be held up), C09.

The heart is `InvLate.due`: the deadline of the remote monitor's pending sleep is at least one interval after its last check
(`lastCheck + r ≤ now + left`) — true because `Mon.wake` starts the next sleep *when the check ran* (`left := interval`), however
late that was.  Everything else is bookkeeping: no byte reached the socket since the last check unless the monitor is pinged or
the bytes still wait in the socket (`quiet`), and what was true at the moment the monitor closed the session (`trip`).
-/
namespace NasdaqModel.MonitorLate
open NasdaqModel.Monitor

/-! ### the remote monitor's check (`Mon.wake` and its trip action) -/

/-- the remote monitor's sleep has returned: it looks at `_pinged`; trip ⇒ `close()` -/
def remCheck (s : Sess) : Sess :=
  let r := s.rem.wake
  let s1 := { s with rem := r.1 }
  if r.2 then s1.close true else s1

theorem wake_interval (m : Mon) : m.wake.1.interval = m.interval := by
  unfold Mon.wake; grind
theorem wake_pinged (m : Mon) : m.wake.1.pinged = false := by
  unfold Mon.wake; grind
theorem wake_left (m : Mon) (h : m.wake.1.running = true) : m.wake.1.left = m.interval := by
  unfold Mon.wake at *; grind
theorem wake_trip (m : Mon) (h : m.wake.2 = true) : m.pinged = false := by
  unfold Mon.wake at *; grind

theorem close_rem_interval (s : Sess) (b : Bool) : (s.close b).rem.interval = s.rem.interval := by
  unfold Sess.close; split <;> rfl
theorem close_rem_pinged (s : Sess) (b : Bool) : (s.close b).rem.pinged = s.rem.pinged := by
  unfold Sess.close; split <;> rfl
theorem close_rem_left (s : Sess) (b : Bool) : (s.close b).rem.left = s.rem.left := by
  unfold Sess.close; split <;> rfl
theorem close_rem_running (s : Sess) (b : Bool) (h : (s.close b).rem.running = true) : s.rem.running = true := by
  unfold Sess.close at h; split at h
  · exact h
  · simp at h

theorem remCheck_now (s : Sess) : (remCheck s).now = s.now := by
  unfold remCheck; simp only []; split <;> simp
theorem remCheck_interval (s : Sess) : (remCheck s).rem.interval = s.rem.interval := by
  unfold remCheck; simp only []; split
  · rw [close_rem_interval]; exact wake_interval _
  · exact wake_interval _
theorem remCheck_pinged (s : Sess) : (remCheck s).rem.pinged = false := by
  unfold remCheck; simp only []; split
  · rw [close_rem_pinged]; exact wake_pinged _
  · exact wake_pinged _
theorem remCheck_left (s : Sess) (h : (remCheck s).rem.running = true) : (remCheck s).rem.left = s.rem.interval := by
  unfold remCheck at *; simp only [] at *; split at h
  · next ht => rw [if_pos ht, close_rem_left]; exact wake_left _ (close_rem_running _ _ h)
  · next ht => rw [if_neg ht]; exact wake_left _ h

/-- the check either leaves the close flags alone or — on an open session whose monitor was not pinged — closes it now -/
theorem remCheck_flags (s : Sess) :
    ((remCheck s).closed = s.closed ∧ (remCheck s).closeT = s.closeT ∧ (remCheck s).closedByMon = s.closedByMon) ∨
    (s.closed = false ∧ s.rem.pinged = false ∧ (remCheck s).closed = true ∧ (remCheck s).closeT = s.now ∧
      (remCheck s).closedByMon = true) := by
  unfold remCheck; simp only []
  split
  · next ht =>
    by_cases hc : s.closed = true
    · left
      have e : Sess.close { s with rem := s.rem.wake.1 } true = { s with rem := s.rem.wake.1 } := close_of_closed _ _ hc
      rw [e]; exact ⟨rfl, rfl, rfl⟩
    · have hc : s.closed = false := by simpa using hc
      right
      have e := close_of_open { s with rem := s.rem.wake.1 } true hc
      refine ⟨hc, wake_trip _ ht, ?_, ?_, ?_⟩ <;> rw [e]
  · left; exact ⟨rfl, rfl, rfl⟩

/-! ### the small steps in terms of `remCheck` -/

theorem fireRemote_idle (s : Sess) (h : remDue s 0 = false) : fireRemote s = s := by
  have : (s.rem.running && s.rem.left == 0) = false := by
    simp only [remDue, Nat.le_zero_eq] at h
    cases hr : s.rem.running <;> simp_all
  simp [fireRemote, fireMon, this]

theorem fireRemote_due (s : Sess) (h : remDue s 0 = true) : fireRemote s = remCheck s := by
  have : (s.rem.running && s.rem.left == 0) = true := by
    simp only [remDue, Nat.le_zero_eq, Bool.and_eq_true, decide_eq_true_eq] at h
    simp [h.1, h.2]
  simp [fireRemote, fireMon, this, remCheck]

theorem tickRemote_due (s : Sess) (h : remDue s 1 = true) : s.tickRemote = remCheck s := by
  simp only [remDue, Bool.and_eq_true, decide_eq_true_eq] at h
  simp [Sess.tickRemote, Mon.adv, h.1, h.2, remCheck]

theorem tickRemote_notdue (s : Sess) (h : remDue s 1 = false) :
    s.tickRemote = s ∨ (s.rem.running = true ∧ 1 < s.rem.left ∧ s.tickRemote = { s with rem := { s.rem with left := s.rem.left - 1 } }) := by
  cases hr : s.rem.running with
  | false => left; exact tickRemote_stopped s hr
  | true =>
    right
    have hl : 1 < s.rem.left := by
      simp only [remDue, hr, Bool.true_and, decide_eq_false_iff_not] at h; omega
    exact ⟨rfl, hl, tickRemote_wait s hr hl⟩

theorem fireLocal_now (s : Sess) : (fireLocal s).now = s.now := by
  unfold fireLocal; simp only []; split <;> rfl
theorem fireLocal_rem (s : Sess) : (fireLocal s).rem = s.rem := by
  unfold fireLocal; simp only []; split <;> rfl
theorem fireLocal_closed (s : Sess) : (fireLocal s).closed = s.closed := by
  unfold fireLocal; simp only []; split <;> rfl
theorem fireLocal_closeT (s : Sess) : (fireLocal s).closeT = s.closeT := by
  unfold fireLocal; simp only []; split <;> rfl
theorem fireLocal_closedByMon (s : Sess) : (fireLocal s).closedByMon = s.closedByMon := by
  unfold fireLocal; simp only []; split <;> rfl

theorem handover_nil (s : Sess) : handover s [] = s := rfl
theorem handover_cons (s : Sess) (k : RecvKind) (ks : List RecvKind) : handover s (k :: ks) = handover (s.dataReceived k) ks := rfl
theorem handover_now (s : Sess) (ks : List RecvKind) : (handover s ks).now = s.now := by
  induction ks generalizing s with
  | nil => rfl
  | cons k ks ih => rw [handover_cons, ih]; rfl
theorem handover_closed (s : Sess) (ks : List RecvKind) : (handover s ks).closed = s.closed := by
  induction ks generalizing s with
  | nil => rfl
  | cons k ks ih => rw [handover_cons, ih]; rfl
theorem handover_closeT (s : Sess) (ks : List RecvKind) : (handover s ks).closeT = s.closeT := by
  induction ks generalizing s with
  | nil => rfl
  | cons k ks ih => rw [handover_cons, ih]; rfl
theorem handover_closedByMon (s : Sess) (ks : List RecvKind) : (handover s ks).closedByMon = s.closedByMon := by
  induction ks generalizing s with
  | nil => rfl
  | cons k ks ih => rw [handover_cons, ih]; rfl
theorem handover_interval (s : Sess) (ks : List RecvKind) : (handover s ks).rem.interval = s.rem.interval := by
  induction ks generalizing s with
  | nil => rfl
  | cons k ks ih => rw [handover_cons, ih]; rfl
theorem handover_left (s : Sess) (ks : List RecvKind) : (handover s ks).rem.left = s.rem.left := by
  induction ks generalizing s with
  | nil => rfl
  | cons k ks ih => rw [handover_cons, ih]; rfl
theorem handover_running (s : Sess) (ks : List RecvKind) : (handover s ks).rem.running = s.rem.running := by
  induction ks generalizing s with
  | nil => rfl
  | cons k ks ih => rw [handover_cons, ih]; rfl
theorem handover_pinged_mono (s : Sess) (ks : List RecvKind) (h : s.rem.pinged = true) : (handover s ks).rem.pinged = true := by
  induction ks generalizing s with
  | nil => exact h
  | cons k ks ih => rw [handover_cons]; exact ih _ rfl
theorem handover_pinged (s : Sess) (ks : List RecvKind) (h : ks ≠ []) : (handover s ks).rem.pinged = true := by
  cases ks with
  | nil => exact absurd rfl h
  | cons k ks => rw [handover_cons]; exact handover_pinged_mono _ _ rfl


/-! ### the invariant -/

/-- consecutive checks of the remote monitor are at least `r` apart, the first one at least `r` after login -/
def Spaced (r : Nat) : List Nat → Prop
  | [] => True
  | c :: rest => rest.headD 0 + r ≤ c ∧ Spaced r rest

structure InvLate (r : Nat) (x : LSess) : Prop where
  intv : x.s.rem.interval = r
  arrLe : ∀ a ∈ x.arrivals, a ≤ x.s.now
  due : x.s.rem.running = true → x.lastCheck + r ≤ x.s.now + x.s.rem.left
  quiet : x.s.rem.pinged = false → x.pending = [] → ∀ a ∈ x.arrivals, a ≤ x.lastCheck
  first : x.remChecks = [] → x.s.rem.pinged = true
  closeLe : x.s.closed = true → x.s.closeT ≤ x.s.now
  trip : x.s.closed = true → x.s.closedByMon = true →
    x.tripFrom + r ≤ x.s.closeT ∧ x.tripFrom ∈ x.remChecks ∧ x.s.closeT ∈ x.remChecks ∧
      ∀ a ∈ x.arrivals, ¬ (x.tripFrom < a ∧ a < x.s.closeT)
  spaced : Spaced r x.remChecks
  pend : x.held = false → x.pending = []

theorem invLate_start (l r tl n : Nat) : InvLate r (startWithL l r tl n) := by
  refine ⟨rfl, ?_, ?_, ?_, ?_, ?_, ?_, trivial, fun _ => rfl⟩
  · intro a ha; cases ha
  · intro _; show 0 + r ≤ 0 + r; exact Nat.le_refl _
  · intro h; cases h
  · intro _; rfl
  · intro h; cases h
  · intro h; cases h

/-- a step of the underlying session that touches neither the clock, nor the remote monitor, nor the close flags -/
theorem invLate_frame (r : Nat) (x : LSess) (s' : Sess) (h : InvLate r x)
    (h1 : s'.now = x.s.now) (h2 : s'.rem = x.s.rem) (h3 : s'.closed = x.s.closed) (h4 : s'.closeT = x.s.closeT)
    (h5 : s'.closedByMon = x.s.closedByMon) : InvLate r { x with s := s' } := by
  refine ⟨?_, ?_, ?_, ?_, ?_, ?_, ?_, h.spaced, h.pend⟩
  · show s'.rem.interval = r; rw [h2]; exact h.intv
  · intro a ha; show a ≤ s'.now; rw [h1]; exact h.arrLe a ha
  · intro hr; show x.lastCheck + r ≤ s'.now + s'.rem.left; rw [h1, h2]; exact h.due (by rw [← h2]; exact hr)
  · intro hp hq; exact h.quiet (by rw [← h2]; exact hp) hq
  · intro he; show s'.rem.pinged = true; rw [h2]; exact h.first he
  · intro hc; show s'.closeT ≤ s'.now; rw [h4, h1]; exact h.closeLe (by rw [← h3]; exact hc)
  · intro hc hm; show x.tripFrom + r ≤ s'.closeT ∧ _ ∧ s'.closeT ∈ _ ∧ ∀ a ∈ x.arrivals, ¬ (x.tripFrom < a ∧ a < s'.closeT)
    rw [h4]; exact h.trip (by rw [← h3]; exact hc) (by rw [← h5]; exact hm)

/-- the application closes the session -/
theorem invLate_appClose (r : Nat) (x : LSess) (h : InvLate r x) : InvLate r { x with s := x.s.close false } := by
  cases hc : x.s.closed with
  | true => rw [close_of_closed _ _ hc]; exact h
  | false =>
    rw [close_of_open _ _ hc]
    refine ⟨h.intv, h.arrLe, ?_, h.quiet, h.first, ?_, ?_, h.spaced, h.pend⟩
    · intro hr; cases hr
    · intro _; exact Nat.le_refl _
    · intro _ hm; cases hm

/-- bytes are handed to `data_received` on a running loop -/
theorem invLate_recv (r : Nat) (x : LSess) (k : RecvKind) (h : InvLate r x) :
    InvLate r { x with s := x.s.dataReceived k, arrivals := x.s.now :: x.arrivals } := by
  refine ⟨h.intv, ?_, h.due, ?_, ?_, h.closeLe, ?_, h.spaced, h.pend⟩
  · intro a ha
    rcases List.mem_cons.mp ha with rfl | ha
    · exact Nat.le_refl _
    · exact h.arrLe a ha
  · intro hp; cases hp
  · intro _; rfl
  · intro hc hm
    obtain ⟨t1, t2, t3, t4⟩ := h.trip hc hm
    refine ⟨t1, t2, t3, ?_⟩
    intro a ha
    rcases List.mem_cons.mp ha with rfl | ha
    · have := h.closeLe hc
      show ¬ (x.tripFrom < x.s.now ∧ x.s.now < x.s.closeT); omega
    · exact t4 a ha

/-- bytes reach the socket while the loop is held up -/
theorem invLate_buffer (r : Nat) (x : LSess) (k : RecvKind) (h : InvLate r x) (hh : x.held = true) :
    InvLate r { x with pending := x.pending ++ [k], arrivals := x.s.now :: x.arrivals } := by
  refine ⟨h.intv, ?_, h.due, ?_, h.first, h.closeLe, ?_, h.spaced, fun hf => absurd (hh ▸ hf : true = false) (by simp)⟩
  · intro a ha
    rcases List.mem_cons.mp ha with rfl | ha
    · exact Nat.le_refl _
    · exact h.arrLe a ha
  · intro _ hq; simp at hq
  · intro hc hm
    obtain ⟨t1, t2, t3, t4⟩ := h.trip hc hm
    refine ⟨t1, t2, t3, ?_⟩
    intro a ha
    rcases List.mem_cons.mp ha with rfl | ha
    · have := h.closeLe hc
      show ¬ (x.tripFrom < x.s.now ∧ x.s.now < x.s.closeT); omega
    · exact t4 a ha

/-- one grid unit passes while the loop is held up -/
theorem invLate_hold (r : Nat) (x : LSess) (h : InvLate r x) : InvLate r { x with s := passSess x.s, held := true } := by
  have hrem : (passSess x.s).rem = passMon x.s.rem := rfl
  have hnow : (passSess x.s).now = x.s.now + 1 := rfl
  refine ⟨?_, ?_, ?_, ?_, ?_, ?_, ?_, h.spaced, fun hf => by cases hf⟩
  · show (passMon x.s.rem).interval = r
    unfold passMon; split <;> exact h.intv
  · intro a ha; have := h.arrLe a ha; show a ≤ x.s.now + 1; omega
  · intro hr
    show x.lastCheck + r ≤ (x.s.now + 1) + (passMon x.s.rem).left
    have hr' : x.s.rem.running = true := by
      have : (passMon x.s.rem).running = true := hr
      unfold passMon at this; split at this <;> simp_all
    have := h.due hr'
    simp only [passMon, hr', if_true]; omega
  · intro hp hq
    refine h.quiet ?_ hq
    have : (passMon x.s.rem).pinged = false := hp
    unfold passMon at this; split at this <;> exact this
  · intro he
    show (passMon x.s.rem).pinged = true
    have := h.first he
    unfold passMon; split <;> exact this
  · intro hc; have := h.closeLe hc; show x.s.closeT ≤ x.s.now + 1; omega
  · exact h.trip


theorem lastCheck_mem (x : LSess) (h : x.remChecks ≠ []) : x.lastCheck ∈ x.remChecks := by
  unfold LSess.lastCheck
  cases hl : x.remChecks with
  | nil => exact absurd hl h
  | cons c rest => simp

/-- the hold-up ends: the bytes that waited in the socket are handed over -/
theorem invLate_flush (r : Nat) (x : LSess) (h : InvLate r x) :
    InvLate r { x with s := handover x.s x.pending, held := false, pending := [] } := by
  refine ⟨?_, ?_, ?_, ?_, ?_, ?_, ?_, h.spaced, fun _ => rfl⟩
  · show (handover x.s x.pending).rem.interval = r; rw [handover_interval]; exact h.intv
  · intro a ha; show a ≤ (handover x.s x.pending).now; rw [handover_now]; exact h.arrLe a ha
  · intro hr
    show x.lastCheck + r ≤ (handover x.s x.pending).now + (handover x.s x.pending).rem.left
    rw [handover_now, handover_left]; exact h.due (by rw [← handover_running x.s x.pending]; exact hr)
  · intro hp _
    by_cases hq : x.pending = []
    · have hp' : (handover x.s x.pending).rem.pinged = false := hp
      rw [hq, handover_nil] at hp'
      exact h.quiet hp' hq
    · have hp' : (handover x.s x.pending).rem.pinged = false := hp
      rw [handover_pinged x.s x.pending hq] at hp'; cases hp'
  · intro he; exact handover_pinged_mono _ _ (h.first he)
  · intro hc
    show (handover x.s x.pending).closeT ≤ (handover x.s x.pending).now
    rw [handover_closeT, handover_now]; exact h.closeLe (by rw [← handover_closed x.s x.pending]; exact hc)
  · intro hc hm
    show x.tripFrom + r ≤ (handover x.s x.pending).closeT ∧ _ ∧ (handover x.s x.pending).closeT ∈ _ ∧
      ∀ a ∈ x.arrivals, ¬ (x.tripFrom < a ∧ a < (handover x.s x.pending).closeT)
    rw [handover_closeT]
    exact h.trip (by rw [← handover_closed x.s x.pending]; exact hc) (by rw [← handover_closedByMon x.s x.pending]; exact hm)

theorem noteCheck_false (x : LSess) (s' : Sess) (hc : s'.closed = x.s.closed) : x.noteCheck false s' = { x with s := s' } := by
  unfold LSess.noteCheck
  have : (!x.s.closed && s'.closed && s'.closedByMon) = false := by rw [hc]; cases x.s.closed <;> simp
  simp [this]

/-- the remote monitor does not check at this instant: its sleep merely comes closer to its deadline -/
theorem invLate_nocheck (r : Nat) (x : LSess) (s' : Sess) (h : InvLate r x)
    (h1 : x.s.now ≤ s'.now) (hi : s'.rem.interval = x.s.rem.interval) (hp : s'.rem.pinged = x.s.rem.pinged)
    (hl : s'.rem.running = true → x.lastCheck + r ≤ s'.now + s'.rem.left)
    (h3 : s'.closed = x.s.closed) (h4 : s'.closeT = x.s.closeT) (h5 : s'.closedByMon = x.s.closedByMon) :
    InvLate r { x with s := s' } := by
  refine ⟨?_, ?_, hl, ?_, ?_, ?_, ?_, h.spaced, h.pend⟩
  · show s'.rem.interval = r; rw [hi]; exact h.intv
  · intro a ha; have := h.arrLe a ha; show a ≤ s'.now; omega
  · intro hp' hq; exact h.quiet (by rw [← hp]; exact hp') hq
  · intro he; show s'.rem.pinged = true; rw [hp]; exact h.first he
  · intro hc; have := h.closeLe (by rw [← h3]; exact hc); show s'.closeT ≤ s'.now; omega
  · intro hc hm
    show x.tripFrom + r ≤ s'.closeT ∧ _ ∧ s'.closeT ∈ _ ∧ ∀ a ∈ x.arrivals, ¬ (x.tripFrom < a ∧ a < s'.closeT)
    rw [h4]; exact h.trip (by rw [← h3]; exact hc) (by rw [← h5]; exact hm)

/-- **the remote monitor checks** at instant `sL.now`, at least one interval after its previous check -/
theorem invLate_check (r : Nat) (x : LSess) (sL : Sess) (h : InvLate r x)
    (h1 : x.s.now ≤ sL.now) (h2 : sL.rem = x.s.rem) (h3 : sL.closed = x.s.closed) (h4 : sL.closeT = x.s.closeT)
    (h5 : sL.closedByMon = x.s.closedByMon) (hlate : x.lastCheck + r ≤ sL.now) (hq : x.pending = []) :
    InvLate r (x.noteCheck true (remCheck sL)) := by
  have hnow := remCheck_now sL
  unfold LSess.noteCheck
  simp only [if_true]
  refine ⟨?_, ?_, ?_, ?_, ?_, ?_, ?_, ?_, h.pend⟩
  · show (remCheck sL).rem.interval = r; rw [remCheck_interval, h2]; exact h.intv
  · intro a ha; have := h.arrLe a ha; show a ≤ (remCheck sL).now; omega
  · intro hr
    show (remCheck sL).now + r ≤ (remCheck sL).now + (remCheck sL).rem.left
    rw [remCheck_left sL hr, h2, h.intv]; exact Nat.le_refl _
  · intro _ _ a ha; have := h.arrLe a ha; show a ≤ (remCheck sL).now; omega
  · intro he; cases he
  · intro hc
    show (remCheck sL).closeT ≤ (remCheck sL).now
    rcases remCheck_flags sL with ⟨f1, f2, _⟩ | ⟨_, _, _, f4, _⟩
    · have := h.closeLe (by rw [← h3, ← f1]; exact hc); omega
    · omega
  · intro hc hm
    rcases remCheck_flags sL with ⟨f1, f2, f3⟩ | ⟨g1, g2, g3, g4, g5⟩
    · have hc' : x.s.closed = true := by rw [← h3, ← f1]; exact hc
      have hm' : x.s.closedByMon = true := by rw [← h5, ← f3]; exact hm
      have hcond : (!x.s.closed && (remCheck sL).closed && (remCheck sL).closedByMon) = false := by simp [hc']
      obtain ⟨t1, t2, t3, t4⟩ := h.trip hc' hm'
      show (if (!x.s.closed && (remCheck sL).closed && (remCheck sL).closedByMon) = true then x.lastCheck else x.tripFrom) + r
          ≤ (remCheck sL).closeT ∧ _ ∧ (remCheck sL).closeT ∈ _ ∧ ∀ a ∈ x.arrivals, ¬ (_ < a ∧ a < (remCheck sL).closeT)
      rw [hcond, f2, h4]
      exact ⟨t1, List.mem_cons_of_mem _ t2, List.mem_cons_of_mem _ t3, t4⟩
    · have hc' : x.s.closed = false := by rw [← h3]; exact g1
      have hcond : (!x.s.closed && (remCheck sL).closed && (remCheck sL).closedByMon) = true := by simp [hc', g3, g5]
      have hpf : x.s.rem.pinged = false := by rw [← h2]; exact g2
      have hne : x.remChecks ≠ [] := by
        intro he; have := h.first he; rw [hpf] at this; cases this
      show (if (!x.s.closed && (remCheck sL).closed && (remCheck sL).closedByMon) = true then x.lastCheck else x.tripFrom) + r
          ≤ (remCheck sL).closeT ∧ _ ∧ (remCheck sL).closeT ∈ _ ∧ ∀ a ∈ x.arrivals, ¬ (_ < a ∧ a < (remCheck sL).closeT)
      rw [hcond, g4]
      refine ⟨hlate, List.mem_cons_of_mem _ (lastCheck_mem x hne), ?_, ?_⟩
      · rw [hnow]; exact List.mem_cons_self
      · intro a ha hh
        have := h.quiet hpf hq a ha
        simp only [if_true] at hh; omega
  · show x.remChecks.headD 0 + r ≤ (remCheck sL).now ∧ Spaced r x.remChecks
    refine ⟨?_, h.spaced⟩
    have : x.lastCheck = x.remChecks.headD 0 := rfl
    omega


/-! ### the events -/

theorem remDue_congr (s s' : Sess) (b : Nat) (h : s'.rem = s.rem) : remDue s' b = remDue s b := by
  unfold remDue; rw [h]

theorem resume_held (x : LSess) : x.resume.held = false := by
  unfold LSess.resume
  split
  · rfl
  · next h => simpa using h

/-- the late timers run (local, then remote) on a loop whose waiting bytes have been handed over -/
theorem invLate_fire (r : Nat) (x1 : LSess) (hf : InvLate r x1) (hq : x1.pending = []) :
    InvLate r (x1.noteCheck (remDue x1.s 0) (fireRemote (fireLocal x1.s))) := by
  have hrem : (fireLocal x1.s).rem = x1.s.rem := fireLocal_rem _
  cases hd : remDue x1.s 0 with
  | false =>
    rw [fireRemote_idle _ (by rw [remDue_congr _ _ _ hrem]; exact hd), noteCheck_false _ _ (fireLocal_closed _)]
    exact invLate_frame r x1 _ hf (fireLocal_now _) hrem (fireLocal_closed _) (fireLocal_closeT _) (fireLocal_closedByMon _)
  | true =>
    rw [fireRemote_due _ (by rw [remDue_congr _ _ _ hrem]; exact hd)]
    have hd' := hd
    simp only [remDue, Nat.le_zero_eq, Bool.and_eq_true, decide_eq_true_eq] at hd'
    have hdue := hf.due hd'.1
    exact invLate_check r x1 _ hf (by rw [fireLocal_now]; exact Nat.le_refl _) hrem (fireLocal_closed _) (fireLocal_closeT _)
      (fireLocal_closedByMon _) (by rw [fireLocal_now]; omega) hq

theorem invLate_resume (r : Nat) (x : LSess) (h : InvLate r x) : InvLate r x.resume := by
  unfold LSess.resume
  split
  · exact invLate_fire r _ (invLate_flush r x h) rfl
  · exact h

theorem invLate_baseStep (r : Nat) (x : LSess) (e : Ev) (h : InvLate r x) (hh : x.held = false) : InvLate r (x.baseStep e) := by
  cases e with
  | adv =>
    show InvLate r (x.noteCheck (remDue x.s 1) (x.s.bump.tickLocal.tickRemote))
    have hrem : x.s.bump.tickLocal.rem = x.s.rem := by rw [tickLocal_rem]; rfl
    have hnow : x.s.bump.tickLocal.now = x.s.now + 1 := by rw [tickLocal_now]; rfl
    have hcl : x.s.bump.tickLocal.closed = x.s.closed := by rw [tickLocal_closed]; rfl
    have hct : x.s.bump.tickLocal.closeT = x.s.closeT := by rw [tickLocal_closeT]; rfl
    have hcm : x.s.bump.tickLocal.closedByMon = x.s.closedByMon := by rw [tickLocal_closedByMon]; rfl
    cases hd : remDue x.s 1 with
    | true =>
      rw [tickRemote_due _ (by rw [remDue_congr _ _ _ hrem]; exact hd)]
      have hd' := hd
      simp only [remDue, Bool.and_eq_true, decide_eq_true_eq] at hd'
      have hdue := h.due hd'.1
      exact invLate_check r x _ h (by omega) hrem hcl hct hcm (by omega) (h.pend hh)
    | false =>
      rcases tickRemote_notdue _ (by rw [remDue_congr _ _ _ hrem]; exact hd) with e1 | ⟨e1, e2, e3⟩
      · rw [e1, noteCheck_false _ _ hcl]
        refine invLate_nocheck r x _ h (by omega) (by rw [hrem]) (by rw [hrem]) ?_ hcl hct hcm
        intro hr
        rw [hrem] at hr ⊢
        have := h.due hr
        have hl : 1 < x.s.rem.left := by
          simp only [remDue, hr, Bool.true_and, decide_eq_false_iff_not] at hd; omega
        omega
      · have hcl' : ({ x.s.bump.tickLocal with rem := { x.s.bump.tickLocal.rem with left := x.s.bump.tickLocal.rem.left - 1 } } : Sess).closed
            = x.s.closed := hcl
        rw [e3, noteCheck_false _ _ hcl']
        rw [hrem] at e1 e2
        refine invLate_nocheck r x _ h (by show x.s.now ≤ x.s.bump.tickLocal.now; omega) ?_ ?_ ?_ hcl hct hcm
        · show x.s.bump.tickLocal.rem.interval = _; rw [hrem]
        · show x.s.bump.tickLocal.rem.pinged = _; rw [hrem]
        · intro _
          show x.lastCheck + r ≤ x.s.bump.tickLocal.now + (x.s.bump.tickLocal.rem.left - 1)
          have := h.due e1
          rw [hrem, hnow]; omega
  | recv k => exact invLate_recv r x k h
  | send => exact invLate_frame r x _ h rfl rfl rfl rfl rfl
  | sendHb => exact invLate_frame r x _ h rfl rfl rfl rfl rfl
  | sendFailed => exact invLate_frame r x _ h rfl rfl rfl rfl rfl
  | close => exact invLate_appClose r x h

theorem step_base_cases (x : LSess) (e : Ev) :
    (∃ k, e = .recv k ∧ x.held = true ∧
      x.step (.base e) = { x with pending := x.pending ++ [k], arrivals := x.s.now :: x.arrivals }) ∨
    x.step (.base e) = x.resume.baseStep e := by
  cases e with
  | recv k =>
    cases hh : x.held with
    | true => left; exact ⟨k, rfl, rfl, by simp [LSess.step, recvKind?, hh]⟩
    | false => right; simp [LSess.step, recvKind?, hh]
  | adv => right; simp [LSess.step, recvKind?]
  | send => right; simp [LSess.step, recvKind?]
  | sendHb => right; simp [LSess.step, recvKind?]
  | sendFailed => right; simp [LSess.step, recvKind?]
  | close => right; simp [LSess.step, recvKind?]

theorem invLate_step (r : Nat) (x : LSess) (e : LEv) (h : InvLate r x) : InvLate r (x.step e) := by
  cases e with
  | hold => exact invLate_hold r x h
  | resume => exact invLate_resume r x h
  | base e =>
    rcases step_base_cases x e with ⟨k, _, hheld, he⟩ | he
    · rw [he]; exact invLate_buffer r x k h hheld
    · rw [he]; exact invLate_baseStep r x.resume e (invLate_resume r x h) (resume_held x)

theorem runL_nil (x : LSess) : x.run [] = x := rfl
theorem runL_cons (x : LSess) (e : LEv) (evs : List LEv) : x.run (e :: evs) = (x.step e).run evs := rfl

theorem invLate_run (l r tl n : Nat) (evs : List LEv) : InvLate r ((startWithL l r tl n).run evs) := by
  suffices h : ∀ x, InvLate r x → InvLate r (x.run evs) from h _ (invLate_start l r tl n)
  induction evs with
  | nil => intro x h; exact h
  | cons e evs ih => intro x h; rw [runL_cons]; exact ih _ (invLate_step r x e h)

/-! ### histories without hold-ups are histories of Model/Monitor.lean -/

theorem run_base_s (evs : List Ev) (x : LSess) (hh : x.held = false) :
    (x.run (evs.map LEv.base)).s = x.s.run evs ∧ (x.run (evs.map LEv.base)).held = false := by
  induction evs generalizing x with
  | nil => exact ⟨rfl, hh⟩
  | cons e evs ih =>
    have hres : x.resume = x := by unfold LSess.resume; simp [hh]
    have hstep : (x.step (.base e)).s = x.s.step e ∧ (x.step (.base e)).held = false := by
      rcases step_base_cases x e with ⟨k, _, hheld, _⟩ | he
      · rw [hh] at hheld; cases hheld
      · rw [he, hres]; cases e <;> exact ⟨rfl, hh⟩
    rw [List.map_cons, runL_cons, run_cons]
    have := ih (x.step (.base e)) hstep.2
    rw [hstep.1] at this
    exact this

end NasdaqModel.MonitorLate
